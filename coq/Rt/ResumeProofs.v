(* Rt/ResumeProofs.v — proofs about Rt/Resume.v (C05). *)
From Coq Require Import ZArith List Lia Bool ZifyBool.
From A1 Require Import Base.Bytes Leaf.IntegerConv Leaf.BerTL Leaf.BerTLProofs
  Rt.Types Rt.TypesInd Rt.Comb Rt.Der Rt.DerProofs Rt.Resume.
Import ListNotations.
Local Open Scope Z_scope.

(* ------------------------------------------------------------------ *)
(* 1. coherent machines are chunk independent                          *)

Section Generic.
  Variable ctx : Type.
  Variable step : ctx -> list Z -> code * nat * ctx.
  Hypothesis Hco : coherent step.

  Lemma shift_shift (a b : nat) (r : code * nat * ctx) : shift a (shift b r) = shift (a + b) r.
  Proof. destruct r as [[c n] x]. unfold shift. f_equal. f_equal. lia. Qed.

  Lemma shift_0 (r : code * nat * ctx) : shift 0 r = r.
  Proof. destruct r as [[c n] x]. reflexivity. Qed.

  (* the invariant of the feeding loop *)
  Lemma feed_general : forall chunks c pending total, chunks <> [] ->
    feed step c pending total chunks = shift total (step c (pending ++ concat chunks)).
  Proof.
    destruct Hco as [Hres Hfin].
    induction chunks as [|ch rest IH]; intros c pending total Hne; [congruence|].
    cbn [feed concat]. rewrite app_assoc.
    set (w := pending ++ ch).
    destruct (step c w) as [[r k] c'] eqn:Es.
    destruct r.
    - (* RC_OK is final *)
      rewrite (Hfin c w OK k c' Es ltac:(discriminate) (concat rest)). reflexivity.
    - (* RC_WMORE *)
      destruct (Hres c w k c' Es) as [Hk Hext].
      destruct rest as [|r1 rs].
      + cbn [concat]. rewrite app_nil_r. rewrite Es. reflexivity.
      + rewrite IH by discriminate. rewrite Hext. rewrite shift_shift. reflexivity.
    - rewrite (Hfin c w FAIL k c' Es ltac:(discriminate) (concat rest)). reflexivity.
  Qed.

  (* C05, first half, for every coherent machine: whatever the chunking —
     any number of chunks, of any sizes, empty chunks included — the final
     code, the total consumed count and the final context (the value) are
     those of the one-shot call. *)
  Theorem coherent_implies_chunk_independent : forall (c0 : ctx) (input : list Z) (chunks : list (list Z)),
    chunking_of input chunks -> feed0 step c0 chunks = step c0 input.
  Proof.
    intros c0 input chunks [Hne Hcat]. unfold feed0.
    rewrite feed_general by exact Hne. cbn [app]. rewrite Hcat. apply shift_0.
  Qed.

  Lemma concat_bytewise (l : list Z) : concat (bytewise l) = l.
  Proof. induction l as [|a l IH]; cbn; [reflexivity|]. f_equal. exact IH. Qed.

  (* one byte at a time *)
  Corollary coherent_bytewise : forall (c0 : ctx) (input : list Z), input <> [] ->
    feed0 step c0 (bytewise input) = step c0 input.
  Proof.
    intros c0 input Hne. apply coherent_implies_chunk_independent. split.
    - destruct input; [congruence|discriminate].
    - apply concat_bytewise.
  Qed.

  (* what coherence alone says about prefixes: if the whole input gives RC_OK
     then a prefix gives RC_WMORE, or the very same RC_OK (same consumed count,
     same value) — never RC_FAIL *)
  Theorem coherent_prefix_of_ok : forall c0 p q k c',
    step c0 (p ++ q) = (OK, k, c') ->
    forall r1 k1 c1, step c0 p = (r1, k1, c1) ->
    r1 = MORE \/ (r1 = OK /\ k1 = k /\ c1 = c').
  Proof.
    destruct Hco as [_ Hfin]. intros c0 p q k c' Hw r1 k1 c1 Hp.
    destruct r1.
    - right. rewrite (Hfin c0 p OK k1 c1 Hp ltac:(discriminate) q) in Hw.
      injection Hw as -> ->. auto.
    - left. reflexivity.
    - rewrite (Hfin c0 p FAIL k1 c1 Hp ltac:(discriminate) q) in Hw. discriminate.
  Qed.
End Generic.

(* ------------------------------------------------------------------ *)
(* 2. the toy machine is coherent: the generic theorem is not vacuous   *)

Lemma firstn_app_le {A} (n : nat) (l m : list A) : (n <= length l)%nat -> firstn n (l ++ m) = firstn n l.
Proof.
  intros H. rewrite firstn_app. replace (n - length l)%nat with O by lia. cbn. apply app_nil_r.
Qed.

Lemma toy_body_resumable need acc p k c' : toy_body need acc p = (MORE, k, c') ->
  (k <= length p)%nat /\
  forall more, toy_body need acc (p ++ more) = shift k (toy_step c' (skipn k p ++ more)).
Proof.
  unfold toy_body. destruct (need <=? length p)%nat eqn:E; [discriminate|].
  intros H. injection H as <- <-. split; [lia|]. intros more.
  rewrite skipn_all. cbn [app toy_step]. unfold toy_body.
  rewrite app_length.
  destruct (need <=? length p + length more)%nat eqn:E2.
  - destruct (need - length p <=? length more)%nat eqn:E3; [|lia].
    unfold shift. replace (length p + (need - length p))%nat with need by lia.
    rewrite firstn_app. rewrite (firstn_all2 p) by lia. rewrite <- app_assoc. reflexivity.
  - destruct (need - length p <=? length more)%nat eqn:E3; [lia|].
    unfold shift. replace (need - length p - length more)%nat with (need - (length p + length more))%nat by lia.
    rewrite <- app_assoc. reflexivity.
Qed.

Lemma toy_body_final need acc p r k c' : toy_body need acc p = (r, k, c') -> r <> MORE ->
  forall more, toy_body need acc (p ++ more) = (r, k, c').
Proof.
  unfold toy_body. destruct (need <=? length p)%nat eqn:E.
  - intros H _ more. rewrite app_length. destruct (need <=? length p + length more)%nat eqn:E2; [|lia].
    rewrite firstn_app_le by lia. exact H.
  - intros H Hr. injection H as <- _ _. congruence.
Qed.

Theorem toy_coherent : coherent toy_step.
Proof.
  split.
  - intros c p k c' H. destruct c as [[need acc]|].
    + cbn [toy_step] in *. apply toy_body_resumable. exact H.
    + cbn [toy_step] in H. destruct p as [|n tl].
      * injection H as <- <-. split; [cbn; lia|]. intros more. cbn [skipn app].
        destruct (toy_step None more) as [[a b] d]. reflexivity.
      * destruct ((n <? 0) || (255 <? n)) eqn:En; [discriminate|].
        destruct (toy_body (Z.to_nat n) [] tl) as [[r k0] c0] eqn:Eb.
        cbn [shift] in H. injection H as -> <- <-.
        destruct (toy_body_resumable _ _ _ _ _ Eb) as [Hk Hext].
        split; [cbn [length]; lia|]. intros more.
        cbn [app toy_step]. rewrite En. rewrite Hext. cbn [skipn].
        destruct (toy_step c0 (skipn k0 tl ++ more)) as [[a b] d]. reflexivity.
  - intros c p r k c' H Hr more. destruct c as [[need acc]|].
    + cbn [toy_step] in *. eapply toy_body_final; eauto.
    + cbn [toy_step] in H. destruct p as [|n tl].
      * injection H as <- _ _. congruence.
      * cbn [app toy_step]. destruct ((n <? 0) || (255 <? n)) eqn:En; [exact H|].
        destruct (toy_body (Z.to_nat n) [] tl) as [[r0 k0] c0] eqn:Eb.
        cbn [shift] in H. injection H as -> <- <-.
        rewrite (toy_body_final _ _ _ _ _ _ Eb Hr more). reflexivity.
Qed.

(* a concrete session: 03 61 62 63 in the chunks [] [03] [61] [] [62 63 7a] *)
Example toy_session :
  feed0 toy_step None [[]; [3]; [97]; []; [98; 99; 122]] = (OK, 4%nat, Some (O, [97; 98; 99]))
  /\ toy_step None [3; 97; 98; 99; 122] = (OK, 4%nat, Some (O, [97; 98; 99])).
Proof. split; vm_compute; reflexivity. Qed.

(* ------------------------------------------------------------------ *)
(* 3. the fetchers under extension of the buffer (extends BerTLProofs):
      an answer other than "want more" does not change when bytes are
      appended; hence a buffer shorter than what a successful fetch
      consumed gives "want more" *)

Lemma fetch_tag_loop_ext buf : forall val sk more,
  match fetch_tag_loop buf val sk with
  | FMore => True
  | r => fetch_tag_loop (buf ++ more) val sk = r
  end.
Proof.
  induction buf as [|b tl IH]; intros val sk more; cbn [fetch_tag_loop app]; [exact I|].
  destruct (128 <=? b).
  - destruct (two23 <=? val * 128 + (b - 128)); [reflexivity|]. apply IH.
  - reflexivity.
Qed.

Lemma fetch_tag_ext buf more :
  match fetch_tag buf with
  | FMore => True
  | r => fetch_tag (buf ++ more) = r
  end.
Proof.
  destruct buf as [|b tl]; cbn [fetch_tag app]; [exact I|].
  destruct (b mod 32 =? 31); [|reflexivity].
  pose proof (fetch_tag_loop_ext tl 0 2 more) as H.
  destruct (fetch_tag_loop tl 0 2) eqn:E; [rewrite H; reflexivity|exact I|rewrite H; reflexivity].
Qed.

Lemma fetch_len_loop_ext oct : forall buf len sk more,
  match fetch_len_loop oct buf len sk with
  | FMore => True
  | r => fetch_len_loop oct (buf ++ more) len sk = r
  end.
Proof.
  induction oct as [|o IH]; intros buf len sk more; cbn [fetch_len_loop].
  - destruct ((len <? 0) || (rssize_max <? len)); reflexivity.
  - destruct buf as [|b tl]; cbn [app]; [exact I|].
    destruct (len <? two55); [apply IH|reflexivity].
Qed.

Lemma fetch_length_ext c buf more :
  match fetch_length c buf with
  | FMore => True
  | r => fetch_length c (buf ++ more) = r
  end.
Proof.
  destruct buf as [|b tl]; cbn [fetch_length app]; [exact I|].
  destruct (b <? 128); [reflexivity|].
  destruct (c && (b =? 128)); [reflexivity|].
  destruct (b =? 255); [reflexivity|].
  apply fetch_len_loop_ext.
Qed.

Lemma fetch_length_le c buf v n : fetch_length c buf = FOk v n -> (n <= length buf)%nat.
Proof.
  destruct buf as [|b tl]; cbn [fetch_length]; [discriminate|].
  destruct (b <? 128); [intros H; injection H as _ <-; cbn; lia|].
  destruct (c && (b =? 128)); [intros H; injection H as _ <-; cbn; lia|].
  destruct (b =? 255); [discriminate|].
  intros H. apply fetch_len_loop_consumed in H. cbn [length]. lia.
Qed.

Lemma fetch_tag_short p m t n : fetch_tag (p ++ m) = FOk t n -> (length p < n)%nat -> fetch_tag p = FMore.
Proof.
  intros H Hl. pose proof (fetch_tag_ext p m) as He.
  destruct (fetch_tag p) as [v n0| |] eqn:E; [|reflexivity|congruence].
  rewrite H in He. injection He as -> ->. apply fetch_tag_consumed in E. lia.
Qed.

Lemma fetch_length_short c p m v n : fetch_length c (p ++ m) = FOk v n -> (length p < n)%nat ->
  fetch_length c p = FMore.
Proof.
  intros H Hl. pose proof (fetch_length_ext c p m) as He.
  destruct (fetch_length c p) as [v0 n0| |] eqn:E; [|reflexivity|congruence].
  rewrite H in He. injection He as -> ->. apply fetch_length_le in E. lia.
Qed.

(* ------------------------------------------------------------------ *)
(* 4. headers of a TLV and their proper prefixes                        *)

Lemma tlv_open3_hdr tg c L rest : tag_good tg -> 0 <= L <= rssize_max ->
  tlv_open3 (tag_bytes tg c ++ len_serialize L ++ rest) = HOk tg c L rest.
Proof.
  intros Hg HL.
  destruct (tag_bytes_fetch tg c (len_serialize L ++ rest) Hg) as (Hf & b & tl & Hb & Hc & Hpos).
  unfold tlv_open3. rewrite Hb. rewrite <- Hb. rewrite Hf. rewrite Hc.
  rewrite skipn_app_length.
  rewrite (length_roundtrip L rest c) by lia.
  rewrite skipn_app_length. reflexivity.
Qed.

Lemma tlv_open3_nil : tlv_open3 [] = HMore.
Proof. reflexivity. Qed.

Lemma tlv_open3_tag_more p : fetch_tag p = FMore -> tlv_open3 p = HMore.
Proof. intros H. unfold tlv_open3. destruct p; [reflexivity|]. rewrite H. reflexivity. Qed.

(* a proper prefix of the identifier and length octets *)
Lemma tlv_open3_short tg c L p q : tag_good tg -> 0 <= L <= rssize_max ->
  p ++ q = tag_bytes tg c ++ len_serialize L -> q <> [] -> tlv_open3 p = HMore.
Proof.
  intros Hg HL E Hq.
  destruct (app_eq_app _ _ _ _ E) as [l [[Hp Hl]|[Ht Hl]]].
  - (* the identifier octets are complete, the length octets are not *)
    subst p.
    destruct (tag_bytes_fetch tg c l Hg) as (Hf & b & tl & Hb & Hc & Hpos).
    unfold tlv_open3. rewrite Hb. rewrite <- Hb. rewrite Hf. rewrite Hc.
    rewrite skipn_app_length.
    pose proof (length_roundtrip L [] c HL) as Hr. rewrite app_nil_r in Hr. rewrite Hl in Hr.
    rewrite (fetch_length_short c l q L _ Hr); [reflexivity|].
    rewrite app_length. destruct q; [congruence|cbn [length]; lia].
  - destruct l as [|x l'].
    + (* exactly the identifier octets *)
      rewrite app_nil_r in Ht. subst p. cbn [app] in Hl. subst q.
      destruct (tag_bytes_fetch tg c [] Hg) as (Hf & b & tl & Hb & Hc & Hpos).
      rewrite app_nil_r in Hf, Hb.
      unfold tlv_open3. rewrite Hb. rewrite <- Hb. rewrite Hf.
      rewrite skipn_all. reflexivity.
    + (* inside the identifier octets *)
      apply tlv_open3_tag_more.
      destruct (tag_bytes_fetch tg c [] Hg) as (Hf & _). rewrite app_nil_r in Hf.
      rewrite Ht in Hf.
      apply (fetch_tag_short p (x :: l') tg _ Hf).
      rewrite app_length. cbn [length]. lia.
Qed.

(* every proper prefix of a TLV: the header is incomplete, or the header is
   read and fewer contents octets than announced follow *)
Lemma tlv_prefix tg c content p q : tag_good tg -> zlen content <= rssize_max ->
  p ++ q = tlv tg c content -> q <> [] ->
  tlv_open3 p = HMore \/
  exists content', tlv_open3 p = HOk tg c (zlen content) content' /\ zlen content' < zlen content.
Proof.
  intros Hg HL E Hq. pose proof (zlen_nonneg content) as H0.
  unfold tlv in E. rewrite app_assoc in E.
  destruct (app_eq_app _ _ _ _ E) as [l [[Hp Hl]|[Ht Hl]]].
  - right. exists l. subst p. rewrite <- app_assoc. rewrite tlv_open3_hdr by (auto; lia).
    split; [reflexivity|]. rewrite Hl. rewrite zlen_app.
    destruct q; [congruence|]. rewrite zlen_cons. pose proof (zlen_nonneg q). lia.
  - destruct l as [|x l'].
    + right. exists []. rewrite app_nil_r in Ht. cbn [app] in Hl. subst q.
      rewrite <- Ht. replace (tag_bytes tg c ++ len_serialize (zlen content))
        with (tag_bytes tg c ++ len_serialize (zlen content) ++ []) by (rewrite app_nil_r; reflexivity).
      rewrite tlv_open3_hdr by (auto; lia). split; [reflexivity|].
      destruct content; [congruence|]. rewrite zlen_cons. pose proof (zlen_nonneg content).
      change (zlen (@nil Z)) with 0. lia.
    + left. apply (tlv_open3_short tg c (zlen content) p (x :: l') Hg); [lia|symmetry; exact Ht|discriminate].
Qed.

Lemma in_prim3_prefix {A} tg content p q (k : list Z -> option A) :
  tag_good tg -> zlen content <= rssize_max ->
  p ++ q = tlv tg false content -> q <> [] -> in_prim3 tg p k = RMore.
Proof.
  intros Hg HL E Hq. unfold in_prim3.
  destruct (tlv_prefix tg false content p q Hg HL E Hq) as [H|(c' & H & Hlt)]; rewrite H; [reflexivity|].
  rewrite Z.eqb_refl. pose proof (zlen_nonneg content).
  destruct (0 <=? zlen content) eqn:E1; [|lia]. cbn [andb].
  destruct (zlen content <=? zlen c') eqn:E2; [lia|reflexivity].
Qed.

Lemma in_cons3_prefix {A} tg content p q (k3 : list Z -> dres A) k2 :
  tag_good tg -> zlen content <= rssize_max ->
  p ++ q = tlv tg true content -> q <> [] -> in_cons3 tg p k3 k2 = RMore.
Proof.
  intros Hg HL E Hq. unfold in_cons3.
  destruct (tlv_prefix tg true content p q Hg HL E Hq) as [H|(c' & H & Hlt)]; rewrite H; [reflexivity|].
  rewrite Z.eqb_refl. pose proof (zlen_nonneg content).
  destruct (zlen content =? -1) eqn:E1; [lia|].
  destruct (zlen content <=? zlen c') eqn:E2; [lia|reflexivity].
Qed.

(* the tag of a (non-empty) prefix of an encoding, when it can be read, is the tag of the encoding *)
Lemma peek_tag3_prefix p q tg : peek_tag3 p = POk tg -> peek_tag (p ++ q) = Some tg.
Proof.
  unfold peek_tag3, peek_tag. intros H. pose proof (fetch_tag_ext p q) as He.
  destruct (fetch_tag p) as [v n| |] eqn:E; try discriminate. injection H as ->.
  rewrite He. reflexivity.
Qed.

Lemma peek_tag3_not_fail p q tg : peek_tag (p ++ q) = Some tg -> peek_tag3 p <> PFail.
Proof.
  unfold peek_tag3, peek_tag. intros H. pose proof (fetch_tag_ext p q) as He.
  destruct (fetch_tag p) as [v n| |] eqn:E; try discriminate.
  rewrite He in H. discriminate.
Qed.

(* ------------------------------------------------------------------ *)
(* 5. prefix_wmore                                                      *)

Definition PW (t : ty) : Prop := forall v bs p q,
  wf_ty t = true -> wt t v = true -> der t v = Some bs -> zlen bs <= rssize_max ->
  bs = p ++ q -> q <> [] -> ber_dec3 t p = RMore.

Lemma tlv_content_le tg c content : zlen (tlv tg c content) <= rssize_max -> zlen content <= rssize_max.
Proof. pose proof (tlv_length tg c content). lia. Qed.

Lemma alts_pw alts : Forall PW alts -> forall i k v p q tg,
  forallb wf_ty alts = true -> forallb not_opt alts = true -> alts_distinct alts = true ->
  wt (TChoice alts) (VChoice i v) = true -> enc_alt der v alts i = Some (p ++ q) ->
  zlen (p ++ q) <= rssize_max -> q <> [] ->
  peek_tag (p ++ q) = Some tg ->
  dec_alt3 ber_dec3 (fun _ a => tag_in tg (first_tags a)) p alts k = RMore.
Proof.
  induction 1 as [|a r Ha Hr IH]; intros i k v p q tg Hwf Hno Hdis Hwt He Hl Hq Hp;
    [destruct i; discriminate|].
  cbn [forallb] in Hwf, Hno. apply andb_true_iff in Hwf. destruct Hwf as [Hw Hwr].
  apply andb_true_iff in Hno. destruct Hno as [Hn Hnr].
  cbn [alts_distinct] in Hdis. apply andb_true_iff in Hdis. destruct Hdis as [Hd Hdr].
  cbn [dec_alt3]. destruct i as [|j]; cbn [enc_alt] in He; cbn [wt] in Hwt.
  - destruct (der_head a v (p ++ q) Hw Hn He) as (tg' & cc & content & Etlv & Hg & Hin).
    assert (tg' = tg).
    { rewrite Etlv in Hp. rewrite <- (app_nil_r (tlv tg' cc content)) in Hp.
      rewrite peek_tag_tlv in Hp by exact Hg. congruence. }
    subst tg'. apply tag_in_In in Hin. rewrite Hin.
    rewrite (Ha v (p ++ q) p q Hw Hwt He Hl eq_refl Hq). reflexivity.
  - assert (Hnot : tag_in tg (first_tags a) = false).
    { destruct (tag_in tg (first_tags a)) eqn:Et; [|reflexivity]. exfalso.
      apply tag_in_In in Et.
      clear IH Ha. revert j He Hwt. clear Hr.
      induction r as [|b r' IHr]; intros j He Hwt; [destruct j; discriminate|].
      cbn [forallb] in Hwr, Hnr, Hd. apply andb_true_iff in Hwr. destruct Hwr as [Hwb Hwr'].
      apply andb_true_iff in Hnr. destruct Hnr as [Hnb Hnr'].
      apply andb_true_iff in Hd. destruct Hd as [Hdb Hd'].
      cbn [alts_distinct] in Hdr. apply andb_true_iff in Hdr. destruct Hdr as [_ Hdr'].
      destruct j; cbn [enc_alt] in He.
      - destruct (der_head b v (p ++ q) Hwb Hnb He) as (tg' & cc & content & Etlv & Hg & Hin).
        rewrite Etlv in Hp. rewrite <- (app_nil_r (tlv tg' cc content)) in Hp.
        rewrite peek_tag_tlv in Hp by exact Hg. injection Hp as ->.
        eapply disjointb_spec; eauto.
      - eapply IHr; eauto. }
    rewrite Hnot.
    apply (IH j (S k) v p q tg Hwr Hnr Hdr Hwt He Hl Hq Hp).
Qed.

Theorem prefix_wmore_all t : PW t.
Proof.
  induction t using ty_ind'; intros v bs p q Hwf Hwt Hd Hl E Hq; cbn [wf_ty] in Hwf; cbn [ber_dec3].
  - destruct v; try discriminate. injection Hd as <-.
    exact (in_prim3_prefix tg _ p q _ (wf_tag_good tg Hwf) (tlv_content_le _ _ _ Hl) (eq_sym E) Hq).
  - destruct v; try discriminate. injection Hd as <-.
    exact (in_prim3_prefix tg _ p q _ (wf_tag_good tg Hwf) (tlv_content_le _ _ _ Hl) (eq_sym E) Hq).
  - destruct v; try discriminate. injection Hd as <-.
    exact (in_prim3_prefix tg _ p q _ (wf_tag_good tg Hwf) (tlv_content_le _ _ _ Hl) (eq_sym E) Hq).
  - destruct v; try discriminate. injection Hd as <-.
    exact (in_prim3_prefix tg _ p q _ (wf_tag_good tg Hwf) (tlv_content_le _ _ _ Hl) (eq_sym E) Hq).
  - destruct v; try discriminate. cbn [der] in Hd.
    destruct (enc_members der ms vs); [|discriminate]. injection Hd as <-.
    apply andb_true_iff in Hwf. destruct Hwf as [Hwf _].
    apply andb_true_iff in Hwf. destruct Hwf as [Hwf _].
    exact (in_cons3_prefix tg _ p q _ _ (wf_tag_good tg Hwf) (tlv_content_le _ _ _ Hl) (eq_sym E) Hq).
  - destruct v; try discriminate. cbn [der] in Hd.
    destruct (option_all (map (der t) vs)); [|discriminate]. injection Hd as <-.
    apply andb_true_iff in Hwf. destruct Hwf as [Hwf _].
    apply andb_true_iff in Hwf. destruct Hwf as [Hwf _].
    exact (in_cons3_prefix tg _ p q _ _ (wf_tag_good tg Hwf) (tlv_content_le _ _ _ Hl) (eq_sym E) Hq).
  - destruct v; try discriminate. cbn [der] in Hd.
    destruct (option_all (map (der t) vs)); [|discriminate]. injection Hd as <-.
    apply andb_true_iff in Hwf. destruct Hwf as [Hwf _].
    apply andb_true_iff in Hwf. destruct Hwf as [Hwf _].
    exact (in_cons3_prefix tg _ p q _ _ (wf_tag_good tg Hwf) (tlv_content_le _ _ _ Hl) (eq_sym E) Hq).
  - (* CHOICE: the alternative is selected by the tag, once it can be read *)
    destruct v; try discriminate.
    pose proof Hwf as Hwf0.
    apply andb_true_iff in Hwf. destruct Hwf as [Hwf _].
    apply andb_true_iff in Hwf. destruct Hwf as [Hwf Hdis].
    apply andb_true_iff in Hwf. destruct Hwf as [Hwf1 Hwf2].
    destruct (der_head (TChoice alts) (VChoice i v) bs Hwf0 eq_refl Hd) as (tg0 & cc & content & Etlv & Hg & _).
    assert (Hpk : peek_tag (p ++ q) = Some tg0).
    { rewrite <- E, Etlv. rewrite <- (app_nil_r (tlv tg0 cc content)). apply peek_tag_tlv. exact Hg. }
    destruct (peek_tag3 p) as [tg| |] eqn:Ep.
    + pose proof (peek_tag3_prefix p q tg Ep) as Hpq.
      cbn [der] in Hd. subst bs.
      eapply alts_pw; eauto.
    + reflexivity.
    + exfalso. eapply peek_tag3_not_fail; eauto.
  - cbn [der] in Hd. destruct (der t v) as [c|] eqn:Ed; [|discriminate]. injection Hd as <-.
    apply andb_true_iff in Hwf. destruct Hwf as [Hwf _].
    apply andb_true_iff in Hwf. destruct Hwf as [Hwf _].
    exact (in_cons3_prefix tg _ p q _ _ (wf_tag_good tg Hwf) (tlv_content_le _ _ _ Hl) (eq_sym E) Hq).
  - (* OPTIONAL *)
    apply andb_true_iff in Hwf. destruct Hwf as [Hw Hn].
    destruct v; try discriminate; cbn [der wt] in Hd, Hwt.
    + injection Hd as <-. symmetry in E. apply app_eq_nil in E. destruct E. congruence.
    + destruct (der_head t v bs Hw Hn Hd) as (tg0 & cc & content & Etlv & Hg & Hin).
      assert (Hpk : peek_tag (p ++ q) = Some tg0).
      { rewrite <- E, Etlv. rewrite <- (app_nil_r (tlv tg0 cc content)). apply peek_tag_tlv. exact Hg. }
      destruct (peek_tag3 p) as [tg| |] eqn:Ep.
      * pose proof (peek_tag3_prefix p q tg Ep) as Hpq.
        assert (tg = tg0) by congruence. subst tg.
        apply tag_in_In in Hin. rewrite Hin.
        rewrite (IHt v bs p q Hw Hwt Hd Hl E Hq). reflexivity.
      * reflexivity.
      * exfalso. eapply peek_tag3_not_fail; eauto.
Qed.

(* C05, second half, on the model: for a well-formed type and a well-typed
   value, every proper prefix of the DER encoding gives More — never OK,
   never Fail — and (ber_decode3) consumed = 0 <= length of the prefix *)
Theorem prefix_wmore t v bs p q :
  wf_ty t = true -> wt t v = true -> der t v = Some bs -> zlen bs <= rssize_max ->
  bs = p ++ q -> q <> [] -> ber_dec3 t p = RMore /\ ber_decode3 t p = (MORE, 0, None).
Proof.
  intros Hwf Hwt Hd Hl E Hq.
  pose proof (prefix_wmore_all t v bs p q Hwf Hwt Hd Hl E Hq) as H.
  split; [exact H|]. unfold ber_decode3. rewrite H. reflexivity.
Qed.

(* ------------------------------------------------------------------ *)
(* 6. ber_decode_primitive is coherent                                  *)

Lemma skipn_app_le {A} (n : nat) (l m : list A) : (n <= length l)%nat -> skipn n (l ++ m) = skipn n l ++ m.
Proof.
  intros H. rewrite skipn_app. replace (n - length l)%nat with O by lia. reflexivity.
Qed.

Lemma prim_step_more tg c p k c' : prim_step tg c p = (MORE, k, c') -> k = O /\ c' = c.
Proof.
  unfold prim_step. destruct p as [|b0 tl]; [intros H; injection H as <- <-; auto|].
  destruct (fetch_tag (b0 :: tl)) as [tg' n1| |]; [|intros H; injection H as <- <-; auto|discriminate].
  destruct (negb (tg' =? tg)); [discriminate|].
  destruct ((b0 / 32) mod 2 =? 1); [discriminate|].
  destruct (fetch_length false (skipn n1 (b0 :: tl))) as [len n2| |];
    [|intros H; injection H as <- <-; auto|discriminate].
  destruct (len <=? zlen (skipn n2 (skipn n1 (b0 :: tl)))); [discriminate|].
  intros H; injection H as <- <-; auto.
Qed.

Theorem prim_coherent tg : coherent (prim_step tg).
Proof.
  split.
  - intros c p k c' H. destruct (prim_step_more _ _ _ _ _ H) as [-> ->].
    split; [lia|]. intros more. cbn [skipn].
    destruct (prim_step tg c (p ++ more)) as [[a b] d]. reflexivity.
  - intros c p r k c' H Hr more. unfold prim_step in *.
    destruct p as [|b0 tl]; [injection H as <- _ _; congruence|].
    cbn [app]. change (b0 :: tl ++ more) with ((b0 :: tl) ++ more).
    pose proof (fetch_tag_ext (b0 :: tl) more) as Ht.
    destruct (fetch_tag (b0 :: tl)) as [tg' n1| |] eqn:Eft;
      [|injection H as <- _ _; congruence|rewrite Ht; exact H].
    rewrite Ht.
    destruct (negb (tg' =? tg)); [exact H|].
    destruct ((b0 / 32) mod 2 =? 1); [exact H|].
    apply fetch_tag_consumed in Eft.
    rewrite skipn_app_le by lia.
    pose proof (fetch_length_ext false (skipn n1 (b0 :: tl)) more) as Hl.
    destruct (fetch_length false (skipn n1 (b0 :: tl))) as [len n2| |] eqn:Efl;
      [|injection H as <- _ _; congruence|rewrite Hl; exact H].
    rewrite Hl. apply fetch_length_le in Efl.
    rewrite skipn_app_le by lia.
    set (rest := skipn n2 (skipn n1 (b0 :: tl))) in *.
    destruct (len <=? zlen rest) eqn:E1; [|injection H as <- _ _; congruence].
    rewrite zlen_app. pose proof (zlen_nonneg more).
    destruct (len <=? zlen rest + zlen more) eqn:E2; [|lia].
    rewrite firstn_app_le; [exact H|]. unfold zlen in E1. lia.
Qed.

(* a DER-encoded primitive fed one byte at a time: 02 02 01 00 *)
Example prim_session :
  feed0 (prim_step 8) None (bytewise [2; 2; 1; 0; 77]) = (OK, 4%nat, Some [1; 0]) /\
  prim_step 8 None [2; 2; 1; 0; 77] = (OK, 4%nat, Some [1; 0]).
Proof. split; vm_compute; reflexivity. Qed.

(* ------------------------------------------------------------------ *)
(* 7. ber_check_tags with a restart context is NOT coherent             *)

(* U ::= [5] EXPLICIT SEQUENCE { ... }: tags [5] (context, 5*4+2) and UNIVERSAL 16 *)
Definition u_tags : list Z := [22; 64].

(* the design-round witness: a5 80 | 30 05 a7 03 02 01 05 00 00, split after 2 octets.
   One-shot: RC_FAIL (definite length inside an indefinite chain: the C03 defect);
   restarted: expect_00_terminators is forgotten, RC_OK *)
Theorem chain_resumable_refuted : ~ resumable (chain_step u_tags).
Proof.
  intros H.
  destruct (H chain_ctx0 [165; 128] 2%nat {| cstep := 1; cleft := None |} ltac:(vm_compute; reflexivity))
    as [_ Hext].
  specialize (Hext [48; 5; 167; 3; 2; 1; 5; 0; 0]). vm_compute in Hext. discriminate.
Qed.

(* on VALID BER the same loss shows in the value handed to the caller: all lengths
   indefinite, a5 80 | 30 80 ...: one-shot leaves ctx->left = -2 (two end-of-contents
   pairs to eat), restarted leaves -1, so the caller stops 2 octets early *)
Theorem chain_resumable_refuted_valid_ber :
  chain_step u_tags chain_ctx0 [165; 128] = (MORE, 2%nat, {| cstep := 1; cleft := None |}) /\
  chain_step u_tags chain_ctx0 ([165; 128] ++ [48; 128; 167; 3; 2; 1; 5; 0; 0; 0; 0])
    = (OK, 4%nat, {| cstep := 2; cleft := Some (-2) |}) /\
  shift 2 (chain_step u_tags {| cstep := 1; cleft := None |} (skipn 2 [165; 128] ++ [48; 128; 167; 3; 2; 1; 5; 0; 0; 0; 0]))
    = (OK, 4%nat, {| cstep := 2; cleft := Some (-1) |}).
Proof. repeat split; vm_compute; reflexivity. Qed.

Theorem chain_coherent_refuted : exists tags, ~ coherent (chain_step tags).
Proof. exists u_tags. intros [H _]. exact (chain_resumable_refuted H). Qed.

(* the provable part: a chain of one tag (no EXPLICIT tag on the constructed
   type) never reports partial consumption on RC_WMORE, and is coherent *)
Lemma chain_iter_ext tag w limit exp00 more :
  match chain_iter tag w limit exp00 with
  | IMore => True
  | r => chain_iter tag (w ++ more) limit exp00 = r
  end.
Proof.
  unfold chain_iter. destruct w as [|b0 tl]; [exact I|].
  cbn [app]. change (b0 :: tl ++ more) with ((b0 :: tl) ++ more).
  pose proof (fetch_tag_ext (b0 :: tl) more) as Ht.
  destruct (fetch_tag (b0 :: tl)) as [tg n1| |] eqn:Eft; [|exact I|rewrite Ht; reflexivity].
  rewrite Ht.
  destruct (negb (tg =? tag)); [reflexivity|].
  destruct (negb ((b0 / 32) mod 2 =? 1)); [reflexivity|].
  apply fetch_tag_consumed in Eft. rewrite skipn_app_le by lia.
  pose proof (fetch_length_ext ((b0 / 32) mod 2 =? 1) (skipn n1 (b0 :: tl)) more) as Hl.
  destruct (fetch_length ((b0 / 32) mod 2 =? 1) (skipn n1 (b0 :: tl))) as [len n2| |];
    [|exact I|rewrite Hl; reflexivity].
  rewrite Hl.
  destruct (len =? -1).
  - destruct (limit =? -1); reflexivity.
  - destruct (negb (exp00 =? 0)); [reflexivity|].
    destruct (limit =? -1); [reflexivity|].
    destruct (limit =? len + Z.of_nat (n1 + n2)); reflexivity.
Qed.

Theorem chain_coherent_partial tag : coherent (chain_step [tag]).
Proof.
  split.
  - intros c p k c' H. unfold chain_step in *.
    destruct c as [st lf]. cbn [cstep] in *.
    destruct st as [|st'].
    + cbn [skipn chain_loop] in H.
      destruct (chain_iter tag p (-1) 0) as [l e tl adv| |] eqn:Ei.
      * cbn [chain_loop] in H. discriminate.
      * injection H as <- <-. split; [lia|]. intros more. cbn [skipn cstep].
        destruct (chain_loop [tag] (p ++ more) (-1) 0 0 0 0) as [[a b] d]. reflexivity.
      * discriminate.
    + assert (E : skipn (S st') [tag] = []) by (destruct st'; reflexivity).
      rewrite E in H. cbn [chain_loop] in H. discriminate.
  - intros c p r k c' H Hr more. unfold chain_step in *.
    destruct c as [st lf]. cbn [cstep] in *.
    destruct st as [|st'].
    + cbn [skipn chain_loop] in *.
      pose proof (chain_iter_ext tag p (-1) 0 more) as He.
      destruct (chain_iter tag p (-1) 0) as [l e tl adv| |] eqn:Ei.
      * rewrite He. cbn [chain_loop] in *. exact H.
      * injection H as <- _ _. congruence.
      * rewrite He. exact H.
    + assert (E : skipn (S st') [tag] = []) by (destruct st'; reflexivity).
      rewrite E in *. cbn [chain_loop] in *. exact H.
Qed.
