(* Rt/ResumeProofs.v — proofs about Rt/Resume.v (C05). *)
From Coq Require Import ZArith List Lia Bool ZifyBool.
From A1 Require Import Base.Bytes Leaf.IntegerConv Leaf.BerTL Leaf.BerTLProofs
  Rt.Types Rt.TypesInd Rt.Comb Rt.Der Rt.DerProofs Rt.Resume.
Import ListNotations.
Local Open Scope Z_scope.

(* ------------------------------------------------------------------ *)
(* 1. coherent machines are chunk independent                          *)

Section Generic.
  Variable ctx : Type.
  Variable step : ctx -> list Z -> code * nat * ctx.
  Hypothesis Hco : coherent step.

  Lemma shift_shift (a b : nat) (r : code * nat * ctx) : shift a (shift b r) = shift (a + b) r.
  Proof. destruct r as [[c n] x]. unfold shift. f_equal. f_equal. lia. Qed.

  Lemma shift_0 (r : code * nat * ctx) : shift 0 r = r.
  Proof. destruct r as [[c n] x]. reflexivity. Qed.

  (* the invariant of the feeding loop *)
  Lemma feed_general : forall chunks c pending total, chunks <> [] ->
    feed step c pending total chunks = shift total (step c (pending ++ concat chunks)).
  Proof.
    destruct Hco as [Hres Hfin].
    induction chunks as [|ch rest IH]; intros c pending total Hne; [congruence|].
    cbn [feed concat]. rewrite app_assoc.
    set (w := pending ++ ch).
    destruct (step c w) as [[r k] c'] eqn:Es.
    destruct r.
    - (* RC_OK is final *)
      rewrite (Hfin c w OK k c' Es ltac:(discriminate) (concat rest)). reflexivity.
    - (* RC_WMORE *)
      destruct (Hres c w k c' Es) as [Hk Hext].
      destruct rest as [|r1 rs].
      + cbn [concat]. rewrite app_nil_r. rewrite Es. reflexivity.
      + rewrite IH by discriminate. rewrite Hext. rewrite shift_shift. reflexivity.
    - rewrite (Hfin c w FAIL k c' Es ltac:(discriminate) (concat rest)). reflexivity.
  Qed.

  (* C05, first half, for every coherent machine: whatever the chunking —
     any number of chunks, of any sizes, empty chunks included — the final
     code, the total consumed count and the final context (the value) are
     those of the one-shot call. *)
  Theorem coherent_implies_chunk_independent : forall (c0 : ctx) (input : list Z) (chunks : list (list Z)),
    chunking_of input chunks -> feed0 step c0 chunks = step c0 input.
  Proof.
    intros c0 input chunks [Hne Hcat]. unfold feed0.
    rewrite feed_general by exact Hne. cbn [app]. rewrite Hcat. apply shift_0.
  Qed.

  Lemma concat_bytewise (l : list Z) : concat (bytewise l) = l.
  Proof. induction l as [|a l IH]; cbn; [reflexivity|]. f_equal. exact IH. Qed.

  (* one byte at a time *)
  Corollary coherent_bytewise : forall (c0 : ctx) (input : list Z), input <> [] ->
    feed0 step c0 (bytewise input) = step c0 input.
  Proof.
    intros c0 input Hne. apply coherent_implies_chunk_independent. split.
    - destruct input; [congruence|discriminate].
    - apply concat_bytewise.
  Qed.

  (* what coherence alone says about prefixes: if the whole input gives RC_OK
     then a prefix gives RC_WMORE, or the very same RC_OK (same consumed count,
     same value) — never RC_FAIL *)
  Theorem coherent_prefix_of_ok : forall c0 p q k c',
    step c0 (p ++ q) = (OK, k, c') ->
    forall r1 k1 c1, step c0 p = (r1, k1, c1) ->
    r1 = MORE \/ (r1 = OK /\ k1 = k /\ c1 = c').
  Proof.
    destruct Hco as [_ Hfin]. intros c0 p q k c' Hw r1 k1 c1 Hp.
    destruct r1.
    - right. rewrite (Hfin c0 p OK k1 c1 Hp ltac:(discriminate) q) in Hw.
      injection Hw as -> ->. auto.
    - left. reflexivity.
    - rewrite (Hfin c0 p FAIL k1 c1 Hp ltac:(discriminate) q) in Hw. discriminate.
  Qed.
End Generic.

(* ------------------------------------------------------------------ *)
(* 2. the toy machine is coherent: the generic theorem is not vacuous   *)

Lemma firstn_app_le {A} (n : nat) (l m : list A) : (n <= length l)%nat -> firstn n (l ++ m) = firstn n l.
Proof.
  intros H. rewrite firstn_app. replace (n - length l)%nat with O by lia. cbn. apply app_nil_r.
Qed.

Lemma toy_body_resumable need acc p k c' : toy_body need acc p = (MORE, k, c') ->
  (k <= length p)%nat /\
  forall more, toy_body need acc (p ++ more) = shift k (toy_step c' (skipn k p ++ more)).
Proof.
  unfold toy_body. destruct (need <=? length p)%nat eqn:E; [discriminate|].
  intros H. injection H as <- <-. split; [lia|]. intros more.
  rewrite skipn_all. cbn [app toy_step]. unfold toy_body.
  rewrite app_length.
  destruct (need <=? length p + length more)%nat eqn:E2.
  - destruct (need - length p <=? length more)%nat eqn:E3; [|lia].
    unfold shift. replace (length p + (need - length p))%nat with need by lia.
    rewrite firstn_app. rewrite (firstn_all2 p) by lia. rewrite <- app_assoc. reflexivity.
  - destruct (need - length p <=? length more)%nat eqn:E3; [lia|].
    unfold shift. replace (need - length p - length more)%nat with (need - (length p + length more))%nat by lia.
    rewrite <- app_assoc. reflexivity.
Qed.

Lemma toy_body_final need acc p r k c' : toy_body need acc p = (r, k, c') -> r <> MORE ->
  forall more, toy_body need acc (p ++ more) = (r, k, c').
Proof.
  unfold toy_body. destruct (need <=? length p)%nat eqn:E.
  - intros H _ more. rewrite app_length. destruct (need <=? length p + length more)%nat eqn:E2; [|lia].
    rewrite firstn_app_le by lia. exact H.
  - intros H Hr. injection H as <- _ _. congruence.
Qed.

Theorem toy_coherent : coherent toy_step.
Proof.
  split.
  - intros c p k c' H. destruct c as [[need acc]|].
    + cbn [toy_step] in *. apply toy_body_resumable. exact H.
    + cbn [toy_step] in H. destruct p as [|n tl].
      * injection H as <- <-. split; [cbn; lia|]. intros more. cbn [skipn app].
        destruct (toy_step None more) as [[a b] d]. reflexivity.
      * destruct ((n <? 0) || (255 <? n)) eqn:En; [discriminate|].
        destruct (toy_body (Z.to_nat n) [] tl) as [[r k0] c0] eqn:Eb.
        cbn [shift] in H. injection H as -> <- <-.
        destruct (toy_body_resumable _ _ _ _ _ Eb) as [Hk Hext].
        split; [cbn [length]; lia|]. intros more.
        cbn [app toy_step]. rewrite En. rewrite Hext. cbn [skipn].
        destruct (toy_step c0 (skipn k0 tl ++ more)) as [[a b] d]. reflexivity.
  - intros c p r k c' H Hr more. destruct c as [[need acc]|].
    + cbn [toy_step] in *. eapply toy_body_final; eauto.
    + cbn [toy_step] in H. destruct p as [|n tl].
      * injection H as <- _ _. congruence.
      * cbn [app toy_step]. destruct ((n <? 0) || (255 <? n)) eqn:En; [exact H|].
        destruct (toy_body (Z.to_nat n) [] tl) as [[r0 k0] c0] eqn:Eb.
        cbn [shift] in H. injection H as -> <- <-.
        rewrite (toy_body_final _ _ _ _ _ _ Eb Hr more). reflexivity.
Qed.

(* a concrete session: 03 61 62 63 in the chunks [] [03] [61] [] [62 63 7a] *)
Example toy_session :
  feed0 toy_step None [[]; [3]; [97]; []; [98; 99; 122]] = (OK, 4%nat, Some (O, [97; 98; 99]))
  /\ toy_step None [3; 97; 98; 99; 122] = (OK, 4%nat, Some (O, [97; 98; 99])).
Proof. split; vm_compute; reflexivity. Qed.
