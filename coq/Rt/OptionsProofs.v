(* Rt/OptionsProofs.v — property C13, descriptor level: what the erasure forgets, what it
   keeps, soundness of the table comparison (a verdict VSim exhibits a bisimulation), and
   the independence of the emitter's codec slots from the representation options. *)
From Coq Require Import ZArith List Bool Lia.
From A1 Require Import Rt.WfDescr Rt.Options.
Import ListNotations.
Local Open Scope Z_scope.

(* ---------------- what the erasure forgets ---------------- *)

Lemma clear_ptr_bit q r : 0 <= r < 2 -> clear_ptr (2 * q + r) = 2 * q.
Proof.
  intros Hr. unfold clear_ptr. f_equal. symmetry. apply (Z.div_unique (2 * q + r) 2 q r); lia.
Qed.

Lemma clear_ptr_idem f : clear_ptr (clear_ptr f) = clear_ptr f.
Proof. unfold clear_ptr at 2. replace (2 * (f / 2)) with (2 * (f / 2) + 0) by lia. apply clear_ptr_bit. lia. Qed.

(* give the member any ATF_POINTER bit *)
Definition set_ptr (b : bool) (m : member) : member :=
  mkM (clear_ptr (m_flags m) + (if b then 1 else 0)) (m_opt m) (m_tag m) (m_tmode m) (m_type m)
      (m_per m) (m_oer m) (m_default m) (m_selector m).

Lemma erase_member_ignores_pointer hp ho b m : erase_member hp ho (set_ptr b m) = erase_member hp ho m.
Proof.
  unfold erase_member, set_ptr. cbn [m_flags m_opt m_tag m_tmode m_per m_oer m_default m_selector].
  f_equal. unfold clear_ptr at 2. rewrite clear_ptr_bit by (destruct b; lia). reflexivity.
Qed.

(* a build that stores members differently (-findirect-choice, DEFAULT members under -fwide-types)
   and uses the other op table for INTEGER / ENUMERATED (-fwide-types) *)
Definition other_kind (k : kind) : kind :=
  match k with KNativeInt => KInt | KInt => KNativeInt | KNativeEnum => KEnum | KEnum => KNativeEnum | _ => k end.

Definition rebuild (ptrs : member -> bool) (flip : bool) (d : ndescr) : ndescr :=
  let dd := nd d in
  mkND (mkD (d_id dd) (if flip then other_kind (d_kind dd) else d_kind dd) (d_tags dd) (d_all dd)
            (map (fun m => set_ptr (ptrs m) m) (d_elems dd)) (d_per dd) (d_oer dd) (d_spec dd) (d_bad dd))
       (nd_name d) (nd_xml d).

Lemma erase_kind_other k : erase_kind (other_kind k) = erase_kind k.
Proof. destruct k; reflexivity. Qed.

Theorem view_ignores_layout_and_native : forall hp ho xml c ptrs flip d,
  view_of hp ho xml c (rebuild ptrs flip d) = view_of hp ho xml c d.
Proof.
  intros. unfold view_of, rebuild. cbn [nd nd_xml d_kind d_tags d_all d_per d_oer d_spec d_bad d_elems].
  f_equal.
  - destruct flip; [apply erase_kind_other | reflexivity].
  - rewrite map_map. apply map_ext. intros m. apply erase_member_ignores_pointer.
Qed.

Lemma erase_spec_ignores_native_fields hp v2e e2v ext strict w u w' u' :
  erase_spec hp (SInt v2e e2v ext strict w u) = erase_spec hp (SInt v2e e2v ext strict w' u').
Proof. reflexivity. Qed.

(* ---------------- what the erasure keeps ---------------- *)

(* for two PDUs (no member context), with both codecs generated: every table the codecs read *)
Theorem view_keeps_codec_tables : forall xml a b,
  view_of true true xml None a = view_of true true xml None b ->
  d_tags (nd a) = d_tags (nd b) /\ d_all (nd a) = d_all (nd b) /\
  d_per (nd a) = d_per (nd b) /\ d_oer (nd a) = d_oer (nd b) /\ d_bad (nd a) = d_bad (nd b) /\
  map m_per (d_elems (nd a)) = map m_per (d_elems (nd b)) /\
  map m_oer (d_elems (nd a)) = map m_oer (d_elems (nd b)) /\
  map m_tag (d_elems (nd a)) = map m_tag (d_elems (nd b)) /\
  map m_tmode (d_elems (nd a)) = map m_tmode (d_elems (nd b)) /\
  map m_opt (d_elems (nd a)) = map m_opt (d_elems (nd b)) /\
  map m_default (d_elems (nd a)) = map m_default (d_elems (nd b)).
Proof.
  intros xml a b H. unfold view_of in H. cbn [eff_tags] in H.
  injection H as Hk Ht Ha Hp Ho Hs Hb Hx Hm.
  repeat split; try assumption.
  - apply (f_equal (map m_per)) in Hm. rewrite !map_map in Hm. exact Hm.
  - apply (f_equal (map m_oer)) in Hm. rewrite !map_map in Hm. exact Hm.
  - apply (f_equal (map m_tag)) in Hm. rewrite !map_map in Hm. exact Hm.
  - apply (f_equal (map m_tmode)) in Hm. rewrite !map_map in Hm. exact Hm.
  - apply (f_equal (map m_opt)) in Hm. rewrite !map_map in Hm. exact Hm.
  - apply (f_equal (map m_default)) in Hm. rewrite !map_map in Hm. exact Hm.
Qed.

(* a type reached through a member: the record the codecs use is the member's if it has one *)
Theorem view_effective_per : forall ho xml tg mode p o d,
  v_per (view_of true ho xml (Some (tg, mode, Some p, o)) d) = Some p.
Proof. reflexivity. Qed.

Theorem view_fallback_per : forall ho xml tg mode o d,
  v_per (view_of true ho xml (Some (tg, mode, None, o)) d) = d_per (nd d).
Proof. reflexivity. Qed.

(* ---------------- soundness of the comparison ---------------- *)

Lemma mem_item_In it l : mem_item it l = true <-> In it l.
Proof.
  unfold mem_item. rewrite existsb_exists. split.
  - intros [x [Hx E]]. destruct (item_eq_dec it x); [subst; exact Hx | discriminate].
  - intros H. exists it. split; [exact H|]. destruct (item_eq_dec it it); [reflexivity | contradiction].
Qed.

Section Sound.
  Variables (hp ho : bool) (A B : list ndescr).

  (* R is a bisimulation between the two tables up to erasure: related items have equal
     views, and the member types they lead to are related again *)
  Definition bisimulation (R : item -> Prop) : Prop :=
    forall it, R it -> exists next, step hp ho A B it = Some next /\ forall it', In it' next -> R it'.

  Lemma step_spec i j xml ca cb next :
    step hp ho A B (i, j, xml, ca, cb) = Some next <->
    exists a b, nthZ A i = Some a /\ nthZ B j = Some b /\
                view_of hp ho xml ca a = view_of hp ho xml cb b /\ next = succs hp ho a b.
  Proof.
    unfold step. split.
    - destruct (nthZ A i) as [a|]; [|discriminate]. destruct (nthZ B j) as [b|]; [|discriminate].
      destruct (view_eq_dec _ _) as [E|]; [|discriminate]. intros H; inversion H. exists a, b. auto.
    - intros [a [b [Ha [Hb [E ->]]]]]. rewrite Ha, Hb. destruct (view_eq_dec _ _); [reflexivity | contradiction].
  Qed.

  Lemma sim_loop_sound : forall fuel seen stack,
    (forall it, In it seen -> exists next, step hp ho A B it = Some next /\
                                           forall it', In it' next -> In it' seen \/ In it' stack) ->
    sim_loop hp ho A B fuel seen stack = VSim ->
    exists R, bisimulation R /\ (forall it, In it stack -> R it) /\ (forall it, In it seen -> R it).
  Proof.
    induction fuel as [|f IH]; intros seen stack Inv H; [discriminate|].
    destruct stack as [|it rest].
    - exists (fun x => In x seen). split; [|split; [intros ? []|auto]].
      intros x Hx. destruct (Inv x Hx) as [next [Hs Hn]]. exists next. split; [exact Hs|].
      intros y Hy. destruct (Hn y Hy) as [?|[]]; assumption.
    - cbn [sim_loop] in H. destruct (mem_item it seen) eqn:Em.
      + apply mem_item_In in Em.
        destruct (IH seen rest) as [R [HR [Hst Hse]]]; [|exact H|].
        * intros x Hx. destruct (Inv x Hx) as [next [Hs Hn]]. exists next. split; [exact Hs|].
          intros y Hy. destruct (Hn y Hy) as [?|[<-|?]]; auto.
        * exists R. split; [exact HR|]. split; [|exact Hse].
          intros x [<-|Hx]; auto.
      + destruct (step hp ho A B it) as [next|] eqn:Es; [|discriminate].
        destruct (IH (it :: seen) (next ++ rest)) as [R [HR [Hst Hse]]]; [|exact H|].
        * intros x [<-|Hx].
          -- exists next. split; [exact Es|]. intros y Hy. right. apply in_or_app. auto.
          -- destruct (Inv x Hx) as [nx [Hs Hn]]. exists nx. split; [exact Hs|].
             intros y Hy. destruct (Hn y Hy) as [?|[<-|?]].
             ++ left. right. assumption.
             ++ left. left. reflexivity.
             ++ right. apply in_or_app. auto.
        * exists R. split; [exact HR|]. split.
          -- intros x [<-|Hx]; [apply Hse; left; reflexivity | apply Hst; apply in_or_app; auto].
          -- intros x Hx. apply Hse. right. exact Hx.
  Qed.
End Sound.

Theorem table_sim_sound : forall hp ho TA TB,
  table_sim hp ho TA TB = VSim ->
  nt_roots TA = nt_roots TB /\
  exists R, bisimulation hp ho (nt_descrs TA) (nt_descrs TB) R /\
            forall it, In it (root_items (nt_roots TA)) -> R it.
Proof.
  intros hp ho TA TB H. unfold table_sim in H.
  destruct (nt_roots TA =? nt_roots TB) eqn:Er; [|discriminate].
  apply Z.eqb_eq in Er. split; [exact Er|].
  destruct (sim_loop_sound hp ho _ _ _ [] _ (fun it (F : In it []) => match F with end) H) as [R [HR [Hst _]]].
  exists R. split; assumption.
Qed.

(* a table is similar to itself whenever the loop has enough fuel: the verdict VDiff is
   never reported for equal tables (non-vacuity of VSim is by the check: every run
   compares dumped tables) *)
Lemma step_refl hp ho A i xml c a :
  nthZ A i = Some a -> step hp ho A A (i, i, xml, c, c) = Some (succs hp ho a a).
Proof. intros H. unfold step. rewrite H. destruct (view_eq_dec _ _); [reflexivity | contradiction]. Qed.

(* ---------------- the emitter's decision ---------------- *)

(* the OER and PER slots of a type descriptor and of a member entry depend on the flags
   only through "is the codec generated at all": no representation option reaches them *)
Theorem type_codec_slots_option_invariant : forall f f' ti,
  gf_oer f = gf_oer f' -> gf_per f = gf_per f' ->
  codec_slots (type_slots f ti) = codec_slots (type_slots f' ti).
Proof. intros f f' ti Ho Hp. unfold codec_slots, type_slots. cbn [fst snd]. rewrite Ho, Hp. reflexivity. Qed.

Theorem member_codec_slots_option_invariant : forall f f' c,
  gf_oer f = gf_oer f' -> gf_per f = gf_per f' ->
  codec_slots (member_slots f c) = codec_slots (member_slots f' c).
Proof. intros f f' c Ho Hp. unfold codec_slots, member_slots. cbn [fst snd]. rewrite Ho, Hp. reflexivity. Qed.

(* -fno-constraints removes exactly the checker *)
Theorem no_constraints_drops_only_the_checker : forall o p w i c q n ti,
  let f := mkGF o p false w i c q n in
  let f' := mkGF o p true w i c q n in
  codec_slots (type_slots f' ti) = codec_slots (type_slots f ti) /\ snd (type_slots f' ti) = SlotNull.
Proof. intros. split; reflexivity. Qed.

(* the shared test of seeded change C13-3 does not have this property *)
Theorem seeded_slots_depend_on_no_constraints :
  exists f f' ti, gf_oer f = gf_oer f' /\ gf_per f = gf_per f' /\
    codec_slots (type_slots_seeded f ti) <> codec_slots (type_slots_seeded f' ti).
Proof.
  exists (mkGF true true false false false true false false),
         (mkGF true true true false false true false false),
         (mkTI true false false false).
  split; [reflexivity|]. split; [reflexivity|]. vm_compute. discriminate.
Qed.
