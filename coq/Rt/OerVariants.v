(* Rt/OerVariants.v — the family of alternative valid BASIC-OER encodings of a value (X.696
   8.6: a length determinant may use the long form for any length, with any number of length
   octets; only CANONICAL-OER demands the shortest form), and the OER decoder of the C with
   oer_fetch_length at EVERY determinant position.  Executable (extracted for C03); theorems
   in OerVariantsProofs.v.

   Determinant positions:
     - contents length of an unconstrained / semi-constrained INTEGER (INTEGER_decode_oer);
     - length of an OCTET STRING without fixed size (OCTET_STRING_decode_oer);
     - the quantity of SEQUENCE OF / SET OF (oer_fetch_quantity in constr_SET_OF_oer.c): a length
       determinant followed by that many octets of an unsigned integer, leading zero octets
       allowed;
     - the length of the extension addition presence bitmap of an extensible SEQUENCE
       (SEQUENCE_decode_oer phase 2);
     - the length of every open type holding an extension addition / an extension alternative
       of a CHOICE (oer_open_type_get).
   The oracle is the tree [ch] of Rt/BerVariants.v, mirroring the value: [ch_lf] of a node is
   the form of the node's determinant (LShort = canonical, LLong k = long form with exactly k
   length octets; LIndef and a k that is too small fall back to the canonical form), the head of
   [ch_perm] of a SEQUENCE OF / SET OF node is the number of leading zero octets of the
   quantity (more than 255: none).  Extensible SEQUENCE: [ch_lf] = form of the bitmap's
   length, children = one node per root member, then one node per addition whose [ch_lf] is
   the form of the open type's length and whose first child is the oracle of the addition's
   value.  Extensible CHOICE: [ch_lf] = form of the open type's length, first child = the
   oracle of the alternative's value. *)
From Coq Require Import ZArith List Bool.
From A1 Require Import Base.Bytes Leaf.IntegerConv Leaf.BerTL Rt.Types Rt.Comb Rt.Der Rt.Uper Rt.Oer Rt.Ext
  Rt.BerVariants.
Import ListNotations.
Local Open Scope Z_scope.

(* ---------------- the variant encoder (specification side) ---------------- *)

(* what oer_fetch_length can address: 1..127 length octets (7 bits), the value fits them *)
Definition olong_ok (k : nat) (n : Z) : bool :=
  (1 <=? Z.of_nat k) && (Z.of_nat k <=? 127) && (n <? 256 ^ Z.of_nat k).

Definition oer_len_var (lf : lform) (n : Z) : list Z :=
  match lf with
  | LLong k => if olong_ok k n then (128 + Z.of_nat k) :: be_bytes k n else oer_length n
  | _ => oer_length n
  end.

Definition qty_pad (c : ch) : nat :=
  let z := hd O (ch_perm c) in if (z <=? 255)%nat then z else O.

(* the quantity field: length determinant in the form chosen, then n with z leading zero octets *)
Definition oer_qty_var (lf : lform) (z : nat) (n : Z) : list Z :=
  let os := repeat 0 z ++ min_octets n in oer_len_var lf (zlen os) ++ os.

Definition oer_int_var (lf : lform) (c : icon) (z : Z) : option (list Z) :=
  let '(width, positive) := oer_int_ct c in
  let body := imax2INTEGER z in
  let negative := match body with b :: _ => 128 <=? b | [] => false end in
  if positive && negative then None
  else
    let useful := if positive then strip_zeros body else body in
    if width =? 0 then Some (oer_len_var lf (zlen useful) ++ useful)
    else if width <? zlen useful then None
    else Some (repeat (if negative then 255 else 0) (Z.to_nat (width - zlen useful)) ++ useful).

Fixpoint oer_var (t : ty) (c : ch) (v : val) {struct t} : option (list Z) :=
  match t, v with
  | TBool _, VBool b => Some [if b then 255 else 0]
  | TNull _, VNull => Some []
  | TInt _ ic, VInt z => oer_int_var (ch_lf c) ic z
  | TOct _ s, VOct bs =>
      match oer_fixed_size s with
      | Some n => if zlen bs =? n then Some bs else None
      | None => Some (oer_len_var (ch_lf c) (zlen bs) ++ bs)
      end
  | TSeq _ ms, VSeq vs =>
      match var_members oer_var (ch_subs c) ms vs with
      | Some body => Some (bits_to_bytes (presence_bits ms vs) ++ body)
      | None => None
      end
  | TSeqOf _ _ e, VList vs | TSetOf _ _ e, VList vs =>
      match var_elems (oer_var e) (ch_subs c) vs with
      | Some es => Some (oer_qty_var (ch_lf c) (qty_pad c) (zlen vs) ++ concat es)
      | None => None
      end
  | TChoice alts, VChoice i v' =>
      match var_alt oer_var c v' alts i with
      | Some body => Some (oer_tag (outmost_tag t v) ++ body)
      | None => None
      end
  | TTag _ t', _ => oer_var t' c v
  | TOpt _, VNone => Some []
  | TOpt t', VSome v' => oer_var t' c v'
  | _, _ => None
  end.

(* the interface named in the property: oracle first *)
Definition oer_variant (c : ch) (t : ty) (v : val) : option (list Z) := oer_var t c v.

(* ---------------- the decoder of the C: oer_fetch_length everywhere ---------------- *)

(* oer_fetch_quantity (constr_SET_OF_oer.c) *)
Definition oer_fetch_quantity (bs : list Z) : option (Z * list Z) :=
  match oer_fetch_length bs with
  | Some (len, r) =>
      match take len r with
      | Some (os, r') =>
          if 8 <? zlen (drop_zeros os) then None
          else if rsize_max <? be_val os then None
          else Some (be_val os, r')
      | None => None
      end
  | None => None
  end.

Section Gen.
  (* the two readers of lengths; the reference decoder Rt/Oer.v:oer_dec is the instance
     (oer_get_length, oer_get_quantity), the C is (oer_fetch_length, oer_fetch_quantity) *)
  Variable getlen : list Z -> option (Z * list Z).
  Variable getqty : list Z -> option (Z * list Z).

  Definition oer_dec_int_g (c : icon) (bs : list Z) : option (Z * list Z) :=
    let '(width, positive) := oer_int_ct c in
    let value (os : list Z) := if positive then be_val os else twos_value os in
    if width =? 0 then
      match getlen bs with
      | Some (n, r) =>
          match take n r with
          | Some (os, r') => match os with [] => None | _ => Some (value os, r') end
          | None => None
          end
      | None => None
      end
    else
      match take width bs with
      | Some (os, r) => Some (value os, r)
      | None => None
      end.

  Fixpoint oer_dec_g (t : ty) (bs : list Z) {struct t} : option (val * list Z) :=
    match t with
    | TBool _ => match bs with b :: r => Some (VBool (negb (b =? 0)), r) | [] => None end
    | TNull _ => Some (VNull, bs)
    | TInt _ c =>
        match oer_dec_int_g c bs with
        | Some (z, r) => if fits_long z then Some (VInt z, r) else None
        | None => None
        end
    | TOct _ s =>
        match oer_fixed_size s with
        | Some n => match take n bs with Some (os, r) => Some (VOct os, r) | None => None end
        | None =>
            match getlen bs with
            | Some (n, r) => match take n r with Some (os, r') => Some (VOct os, r') | None => None end
            | None => None
            end
        end
    | TSeq _ ms =>
        let nopt := length (filter is_opt ms) in
        match take (Z.of_nat ((nopt + 7) / 8)) bs with
        | Some (pb, r0) =>
            match take_bits nopt (bytes_bits pb) with
            | Some (pres, _) =>
                match dec_members_pres oer_dec_g ms pres r0 with
                | Some (vs, r) => Some (VSeq vs, r)
                | None => None
                end
            | None => None
            end
        | None => None
        end
    | TSeqOf _ _ e | TSetOf _ _ e =>
        match getqty bs with
        | Some (n, r) =>
            match dec_items (oer_dec_g e) (Z.to_nat n) r with
            | Some (vs, r') => Some (VList vs, r')
            | None => None
            end
        | None => None
        end
    | TChoice alts =>
        match oer_get_tag bs with
        | Some (tg, r) => dec_alt oer_dec_g (fun _ a => tag_in tg (first_tags a)) r alts O
        | None => None
        end
    | TTag _ t' => oer_dec_g t' bs
    | TOpt t' =>
        match oer_dec_g t' bs with
        | Some (v, r) => Some (VSome v, r)
        | None => None
        end
    end.
End Gen.

Definition oer_cdec : ty -> list Z -> option (val * list Z) := oer_dec_g oer_fetch_length oer_fetch_quantity.

Definition oer_cdecode (t : ty) (bs : list Z) : option (val * Z) :=
  match oer_cdec t bs with
  | Some (v, rest) => Some (v, zlen bs - zlen rest)
  | None => None
  end.

(* ---------------- extensible types ---------------- *)

Definition oer_open_var (lf : lform) (c : list Z) : list Z := oer_len_var lf (zlen c) ++ c.

(* the present additions, each written with its own oracle node and wrapped as an open type *)
Definition var_additions (enc : ty -> ch -> val -> option (list Z))
  : list ch -> list ty -> list val -> option (list Z) :=
  fix go cs ts vs :=
    match ts, vs with
    | [], [] => Some []
    | t :: ts', v :: vs' =>
        match v with
        | VNone => go (tl cs) ts' vs'
        | VSome v' =>
            match enc t (ch_hd (ch_subs (ch_hd cs))) v', go (tl cs) ts' vs' with
            | Some c, Some r => Some (oer_open_var (ch_lf (ch_hd cs)) c ++ r)
            | _, _ => None
            end
        | _ => None
        end
    | _, _ => None
    end.

Definition oer_ext_bitmap_var (lf : lform) (pres : list bool) : option (list Z) :=
  let n := zlen pres in
  let nb := (n + 7) / 8 in
  if 1 + nb <=? 127 then Some (oer_len_var lf (1 + nb) ++ [unused_bits n] ++ bits_to_bytes pres) else None.

Definition ext_oer_var (t : ety) (c : ch) (v : eval) : option (list Z) :=
  match t, v with
  | ESeq _ root adds, EVSeq rvs avs =>
      let rc := firstn (length root) (ch_subs c) in
      let ac := skipn (length root) (ch_subs c) in
      match var_members oer_var rc root rvs, var_additions oer_var ac adds avs with
      | Some body, Some ots =>
          let any := existsb is_present avs in
          let pre := bits_to_bytes (any :: presence_bits root rvs) in
          if any then
            match oer_ext_bitmap_var (ch_lf c) (map is_present avs) with
            | Some bm => Some (pre ++ body ++ bm ++ ots)
            | None => None
            end
          else Some (pre ++ body)
      | _, _ => None
      end
  | EChoice root exts, EVAlt i v' =>
      let all := root ++ exts in
      match var_alt oer_var (ch_hd (ch_subs c)) v' all i with
      | Some body =>
          Some (oer_tag (outmost_tag (TChoice all) (VChoice i v')) ++
                (if (i <? length root)%nat then body else oer_open_var (ch_lf c) body))
      | None => None
      end
  | _, _ => None
  end.

(* oer_open_type_get with the C's component decoder *)
Definition oer_open_cget (t : ty) (bs : list Z) : option (val * list Z) :=
  match oer_fetch_length bs with
  | Some (n, r) =>
      match take n r with
      | Some (c, r') => match oer_cdec t c with Some (v, _) => Some (v, r') | None => None end
      | None => None
      end
  | None => None
  end.

(* Rt/Ext.v:ext_oer_dec with the component decoder [oer_cdec] *)
Definition ext_oer_cdec (t : ety) (bs : list Z) : option (eval * list Z) :=
  match t with
  | ESeq _ root adds =>
      let nopt := length (filter is_opt root) in
      match take (Z.of_nat ((S nopt + 7) / 8)) bs with
      | Some (pb, r0) =>
          match take_bits (S nopt) (bytes_bits pb) with
          | Some (e :: pres, _) =>
              match dec_members_pres oer_cdec root pres r0 with
              | Some (rvs, r1) =>
                  if e then
                    match oer_fetch_length r1 with
                    | Some (len, r2) =>
                        match take len r2 with
                        | Some (u :: bmo, r3) =>
                            let unused := u mod 8 in
                            if (0 <? unused) && (zlen bmo =? 0) then None
                            else
                              match take_bits (Z.to_nat (8 * zlen bmo - unused)) (bytes_bits bmo) with
                              | Some (bm, _) =>
                                  match dec_additions oer_open_cget oer_open_skip adds bm r3 with
                                  | Some (avs, r4) => Some (EVSeq rvs avs, r4)
                                  | None => None
                                  end
                              | None => None
                              end
                        | _ => None
                        end
                    | None => None
                    end
                  else Some (EVSeq rvs (absent_all adds), r1)
              | None => None
              end
          | _ => None
          end
      | None => None
      end
  | EChoice root exts =>
      match oer_get_tag bs with
      | Some (tg, r) =>
          let sel := fun (_ : nat) (a : ty) => tag_in tg (first_tags a) in
          if existsb (sel O) root then
            match dec_alt oer_cdec sel r root O with
            | Some (VChoice i v, r') => Some (EVAlt i v, r')
            | _ => None
            end
          else
            match dec_alt oer_open_cget sel r exts (length root) with
            | Some (VChoice i v, r') => Some (EVAlt i v, r')
            | _ => None
            end
      | None => None
      end
  end.

Definition ext_oer_cdecode (t : ety) (bs : list Z) : option (eval * Z) :=
  match ext_oer_cdec t bs with
  | Some (v, rest) => Some (v, zlen bs - zlen rest)
  | None => None
  end.
