(* Rt/UperCounted.v — length determinants of the UPER model (Rt/Uper.v):
   get_length reads what put_counted writes; get_counted inverts counted
   (including the 16K fragmentation loop); get_sized inverts sized; and
   uper_dec_int inverts uper_int for every constraint shape and both readings. *)
From Coq Require Import ZArith List Lia Bool ZifyBool.
From A1 Require Import Base.Bytes Leaf.IntegerConv Leaf.IntegerConvProofs
  Rt.Types Rt.Comb Rt.Der Rt.Uper Rt.UperBits.
Import ListNotations.
Local Open Scope Z_scope.

Local Ltac Zify.zify_post_hook ::= Z.to_euclidean_division_equations.

(* ---------------- get_length ---------------- *)

Lemma get_length_short n r : 0 <= n <= 127 ->
  get_length (nbits 8 n ++ r) = Some (n, false, r).
Proof.
  intros H. rewrite nbits_S. change (2 ^ Z.of_nat 7) with 128.
  replace (n / 128) with 0 by lia. cbn [Z.odd app get_length].
  rewrite get_bits_nbits by (change (2 ^ Z.of_nat 7) with 128; lia). reflexivity.
Qed.

Lemma get_length_long n r : 0 <= n < 16384 ->
  get_length (nbits 16 (n + 32768) ++ r) = Some (n, false, r).
Proof.
  intros H. rewrite (nbits_S 15), (nbits_S 14).
  change (2 ^ Z.of_nat 15) with 32768. change (2 ^ Z.of_nat 14) with 16384.
  replace ((n + 32768) / 32768) with 1 by lia.
  replace ((n + 32768) / 16384) with 2 by lia.
  cbn [Z.odd app get_length]. rewrite get_bits_nbits_mod.
  change (2 ^ Z.of_nat 14) with 16384.
  replace ((n + 32768) mod 16384) with n by lia. reflexivity.
Qed.

Lemma get_length_frag m r : 1 <= m <= 4 ->
  get_length (nbits 8 (192 + m) ++ r) = Some (m * 16384, true, r).
Proof.
  intros H. rewrite (nbits_S 7), (nbits_S 6).
  change (2 ^ Z.of_nat 7) with 128. change (2 ^ Z.of_nat 6) with 64.
  replace ((192 + m) / 128) with 1 by lia.
  replace ((192 + m) / 64) with 3 by lia.
  cbn [Z.odd app get_length]. rewrite get_bits_nbits_mod.
  change (2 ^ Z.of_nat 6) with 64.
  replace ((192 + m) mod 64) with m by lia.
  destruct ((1 <=? m) && (m <=? 4)) eqn:E; [reflexivity|lia].
Qed.

(* ---------------- one-step unfoldings ---------------- *)

Lemma put_counted_S f items :
  put_counted (S f) items =
  let n := zlen items in
  if n <=? 127 then nbits 8 n ++ concat items
  else if n <? 16384 then nbits 16 (n + 32768) ++ concat items
  else
    let m := Z.min (n / 16384) 4 in
    let k := Z.to_nat (m * 16384) in
    nbits 8 (192 + m) ++ concat (firstn k items) ++
    (match skipn k items with
     | [] => nbits 8 0
     | rest => put_counted f rest
     end).
Proof. reflexivity. Qed.

Lemma get_counted_S {A} (item : list bool -> option (A * list bool)) f bs :
  get_counted item (S f) bs =
  match get_length bs with
  | Some (n, more, r) =>
      match get_items item (Z.to_nat n) r with
      | Some (x, r') =>
          if more then
            match get_counted item f r' with
            | Some (y, r'') => Some (x ++ y, r'')
            | None => None
            end
          else Some (x, r')
      | None => None
      end
  | None => None
  end.
Proof. reflexivity. Qed.

(* ---------------- Forall2 helpers ---------------- *)

Lemma Forall2_length {A B} (P : A -> B -> Prop) xs bs :
  Forall2 P xs bs -> length xs = length bs.
Proof. induction 1; cbn [length]; congruence. Qed.

Lemma Forall2_firstn {A B} (P : A -> B -> Prop) k : forall xs bs,
  Forall2 P xs bs -> Forall2 P (firstn k xs) (firstn k bs).
Proof.
  induction k as [|k IH]; intros xs bs H; [constructor|].
  destruct H; cbn [firstn]; constructor; auto.
Qed.

Lemma Forall2_skipn {A B} (P : A -> B -> Prop) k : forall xs bs,
  Forall2 P xs bs -> Forall2 P (skipn k xs) (skipn k bs).
Proof.
  induction k as [|k IH]; intros xs bs H; [exact H|].
  destruct H; cbn [skipn]; [constructor|auto].
Qed.

(* ---------------- counted lists ---------------- *)

Section CountedRt.
  Context {A : Type}.
  Variable item : list bool -> option (A * list bool).

  (* [b] is an encoding of [x] that [item] reads back, whatever follows *)
  Definition inv (x : A) (b : list bool) : Prop := forall r, item (b ++ r) = Some (x, r).

  Lemma get_items_rt xs bs : Forall2 inv xs bs -> forall r,
    get_items item (length xs) (concat bs ++ r) = Some (xs, r).
  Proof.
    induction 1 as [|x b xs' bs' Hx Hxs IH]; intros r; [reflexivity|].
    unfold get_items in *. cbn [length dec_items concat]. rewrite <- app_assoc.
    rewrite (Hx (concat bs' ++ r)). rewrite IH. reflexivity.
  Qed.

  Lemma counted_rt_gen : forall fe xs bs fd rest,
    Forall2 inv xs bs -> (length xs < fe)%nat ->
    (length (put_counted fe bs) < fd)%nat ->
    get_counted item fd (put_counted fe bs ++ rest) = Some (xs, rest).
  Proof.
    induction fe as [|f IH]; intros xs bs fd rest HF Hfe Hfd; [lia|].
    pose proof (Forall2_length _ _ _ HF) as Hlen.
    destruct fd as [|fd']; [lia|].
    rewrite put_counted_S in *. rewrite get_counted_S.
    assert (Hn : zlen bs = Z.of_nat (length xs)) by (unfold zlen; lia).
    cbv zeta in *.
    destruct (zlen bs <=? 127) eqn:E1.
    { rewrite <- app_assoc. rewrite get_length_short by (pose proof (zlen_nonneg bs); lia).
      rewrite Hn, Nat2Z.id. rewrite get_items_rt by exact HF. reflexivity. }
    destruct (zlen bs <? 16384) eqn:E2.
    { rewrite <- app_assoc. rewrite get_length_long by lia.
      rewrite Hn, Nat2Z.id. rewrite get_items_rt by exact HF. reflexivity. }
    (* fragment of m * 16K items *)
    set (m := Z.min (zlen bs / 16384) 4) in *.
    set (k := Z.to_nat (m * 16384)) in *.
    assert (Hm : 1 <= m <= 4 /\ m * 16384 <= zlen bs) by (subst m; lia).
    assert (Hk : 16384 <= Z.of_nat k <= Z.of_nat (length xs)) by (subst k; lia).
    rewrite <- !app_assoc. rewrite get_length_frag by lia.
    pose proof (Forall2_firstn inv k _ _ HF) as HF1.
    pose proof (Forall2_skipn inv k _ _ HF) as HF2.
    assert (Hk' : Z.to_nat (m * 16384) = length (firstn k xs)).
    { rewrite firstn_length. subst k. lia. }
    rewrite Hk'. rewrite get_items_rt by exact HF1.
    rewrite !app_length, nbits_length in Hfd.
    destruct (skipn k bs) as [|y ys] eqn:Es.
    - (* exact multiple of 16K: a zero length ends the list *)
      assert (Hsx : skipn k xs = []) by (inversion HF2; reflexivity).
      destruct fd' as [|fd'']; [rewrite nbits_length in Hfd; lia|].
      rewrite get_counted_S. rewrite get_length_short by lia.
      cbn [Z.to_nat get_items dec_items]. unfold get_items. cbn [dec_items].
      rewrite app_nil_r. pose proof (firstn_skipn k xs) as Hs. rewrite Hsx, app_nil_r in Hs.
      rewrite Hs. reflexivity.
    - rewrite <- Es in *.
      rewrite (IH (skipn k xs) (skipn k bs) fd' rest HF2).
      + rewrite firstn_skipn. reflexivity.
      + rewrite skipn_length. lia.
      + lia.
  Qed.

  Theorem counted_rt xs bs rest : Forall2 inv xs bs ->
    get_counted item (S (length (counted bs ++ rest))) (counted bs ++ rest) = Some (xs, rest).
  Proof.
    intros HF. unfold counted. pose proof (Forall2_length _ _ _ HF) as Hlen.
    apply counted_rt_gen; [exact HF|lia|rewrite app_length; lia].
  Qed.

  (* ---------------- sized ---------------- *)

  Theorem sized_rt s xs bs bits rest : Forall2 inv xs bs ->
    sized s bs = Some bits -> get_sized item s (bits ++ rest) = Some (xs, rest).
  Proof.
    intros HF Hs. pose proof (Forall2_length _ _ _ HF) as Hlen.
    assert (Hn : zlen bs = Z.of_nat (length xs)) by (unfold zlen; lia).
    destruct s as [lo hi ext]. unfold sized in Hs. unfold get_sized. cbv zeta in *.
    set (constrained := match hi with Some h => h - lo <? 65536 | None => false end) in *.
    destruct (in_scon (SCon lo hi ext) (zlen bs)) eqn:Ein.
    - (* in the root *)
      cbn [negb andb] in Hs.
      destruct constrained eqn:Ec.
      + destruct hi as [h|]; [|discriminate].
        cbn [in_scon] in Ein.
        assert (Hget : forall r, get_bits (range_bits (h - lo + 1))
                  (nbits (range_bits (h - lo + 1)) (zlen bs - lo) ++ r) = Some (zlen bs - lo, r))
          by (intros r; apply get_bits_range; lia).
        destruct ext; injection Hs as <-; cbn [app]; rewrite <- app_assoc, Hget;
          (destruct (zlen bs - lo <=? h - lo) eqn:E; [|lia]);
          replace (zlen bs - lo + lo) with (Z.of_nat (length xs)) by lia;
          rewrite Nat2Z.id; apply get_items_rt; exact HF.
      + destruct ext; injection Hs as <-; cbn [app]; apply counted_rt; exact HF.
    - (* outside the root *)
      cbn [negb andb] in Hs. destruct ext; cbn [negb] in Hs.
      + injection Hs as <-. cbn [app]. apply counted_rt; exact HF.
      + destruct constrained eqn:Ec; [discriminate|]. injection Hs as <-.
        apply counted_rt; exact HF.
  Qed.
End CountedRt.

(* ---------------- octets ---------------- *)

Lemma octets_inv os : bytes_ok os -> Forall2 (inv get_octet) os (map byte_bits os).
Proof.
  induction 1 as [|b tl Hb Htl IH]; cbn [map]; constructor; [|exact IH].
  intros r. apply get_octet_byte. exact Hb.
Qed.

(* ---------------- INTEGER ---------------- *)

Lemma min_unsigned_spec : forall fuel n acc,
  0 <= n < 256 ^ Z.of_nat fuel -> (0 < fuel)%nat -> bytes_ok acc ->
  be_val (min_unsigned fuel n acc) = n * 256 ^ zlen acc + be_val acc /\
  bytes_ok (min_unsigned fuel n acc) /\ min_unsigned fuel n acc <> [].
Proof.
  induction fuel as [|f IH]; intros n acc Hn Hf Hacc; [lia|].
  cbn [min_unsigned]. destruct (n <? 256) eqn:E.
  - split; [|split].
    + cbn [be_val]. reflexivity.
    + constructor; [unfold byte_ok; lia|exact Hacc].
    + discriminate.
  - rewrite pow256_S in Hn.
    assert (Hf' : (0 < f)%nat).
    { destruct f; [|lia]. cbn in Hn. lia. }
    pose proof (pow256_pos f) as HP.
    assert (Hq : 0 <= n / 256 < 256 ^ Z.of_nat f) by (set (P := 256 ^ Z.of_nat f) in *; lia).
    assert (Hacc' : bytes_ok (n mod 256 :: acc)) by (constructor; [unfold byte_ok; lia|exact Hacc]).
    destruct (IH (n / 256) (n mod 256 :: acc) Hq Hf' Hacc') as (H1 & H2 & H3).
    split; [|split]; [|exact H2|exact H3].
    rewrite H1. cbn [be_val]. rewrite pow256_zlen_cons.
    pose proof (zlen_pos_pow acc) as HQ. set (Q := 256 ^ zlen acc) in *.
    assert (n = 256 * (n / 256) + n mod 256) by lia. nia.
Qed.

Lemma unsigned_octets_spec n : 0 <= n < two64 ->
  be_val (unsigned_octets n) = n /\ bytes_ok (unsigned_octets n) /\ unsigned_octets n <> [].
Proof.
  intros Hn. unfold unsigned_octets.
  assert (Hb : 0 <= n < 256 ^ Z.of_nat 64).
  { split; [lia|]. apply Z.lt_le_trans with (m := two64); [lia|].
    unfold two64. vm_compute. discriminate. }
  destruct (min_unsigned_spec 64 n [] Hb ltac:(lia) ltac:(constructor)) as (H1 & H2 & H3).
  split; [|split]; [|exact H2|exact H3].
  rewrite H1. cbn [be_val]. unfold zlen. cbn [length Z.of_nat]. change (256 ^ 0) with 1. lia.
Qed.

(* bounds of an INTEGER constraint are C longs (asn_per_constraint_t) *)
Definition icon_ok (c : icon) : bool :=
  match c with
  | ICon lo hi _ =>
      (match lo with Some l => fits_long l | None => true end) &&
      (match hi with Some h => fits_long h | None => true end)
  end.

Lemma signed_rt z rest : fits_long z = true ->
  get_counted get_octet (S (length (counted (map byte_bits (imax2INTEGER z)) ++ rest)))
    (counted (map byte_bits (imax2INTEGER z)) ++ rest) = Some (imax2INTEGER z, rest) /\
  imax2INTEGER z <> [] /\ twos_value (imax2INTEGER z) = z /\ bytes_ok (imax2INTEGER z).
Proof.
  intros Hz. unfold fits_long in Hz.
  destruct (imax2INTEGER_canonical z ltac:(lia)) as (Hv & _ & Hok & Hne).
  split; [|auto]. apply counted_rt. apply octets_inv. exact Hok.
Qed.

Theorem uper_int_rt std c z bits rest : icon_ok c = true -> fits_long z = true ->
  uper_int std c z = Some bits -> uper_dec_int c (bits ++ rest) = Some (z, rest).
Proof.
  intros Hc Hz Hu. destruct c as [lo hi ext]. unfold uper_int in Hu. unfold uper_dec_int.
  cbv zeta in *. cbn [icon_ok] in Hc.
  destruct (signed_rt z rest Hz) as (Hs & Hne & Hv & Hok).
  set (U := counted (map byte_bits (imax2INTEGER z))) in *.
  assert (Hsigned : match get_counted get_octet (S (length (U ++ rest))) (U ++ rest) with
                    | Some ([], _) => None
                    | Some (os, r) => Some (twos_value os, r)
                    | None => None
                    end = Some (z, rest)).
  { rewrite Hs. destruct (imax2INTEGER z); [congruence|]. rewrite Hv. reflexivity. }
  destruct lo as [l|]; [destruct hi as [h|]|].
  - (* constrained *)
    destruct ((l <=? z) && (z <=? h)) eqn:Ein.
    + assert (Hget : forall r, get_bits (range_bits (h - l + 1))
                (nbits (range_bits (h - l + 1)) (z - l) ++ r) = Some (z - l, r))
        by (intros r; apply get_bits_range; lia).
      destruct ext; injection Hu as <-; cbn [app]; rewrite Hget;
        (destruct (z - l <=? h - l) eqn:E; [|lia]); f_equal; f_equal; lia.
    + destruct ext; [|discriminate]. injection Hu as <-. cbn [app]. exact Hsigned.
  - (* semi-constrained *)
    destruct (l <=? z) eqn:Ein.
    + destruct std.
      * (* X.691: minimal unsigned octets of z - l *)
        unfold fits_long in Hz, Hc. unfold two63 in *.
        destruct (unsigned_octets_spec (z - l) ltac:(unfold two64; lia)) as (Hb & Hbo & Hbn).
        pose proof (counted_rt get_octet _ _ rest (octets_inv _ Hbo)) as Hr.
        destruct ext; injection Hu as <-; cbn [app]; rewrite Hr;
          (destruct (unsigned_octets (z - l)); [congruence|]); rewrite Hb; f_equal; f_equal; lia.
      * (* the C: two's-complement contents, lower bound 0 only *)
        destruct (l =? 0) eqn:El; [|discriminate].
        assert (Hbe : be_val (imax2INTEGER z) = z).
        { rewrite nonneg_be_val; [exact Hv|exact Hok|lia|exact Hne]. }
        destruct ext; injection Hu as <-; cbn [app]; rewrite Hs;
          (destruct (imax2INTEGER z); [congruence|]); rewrite Hbe; f_equal; f_equal; lia.
    + destruct ext; [|discriminate]. injection Hu as <-. cbn [app]. exact Hsigned.
  - (* unconstrained *)
    destruct ext; injection Hu as <-; cbn [app]; exact Hsigned.
Qed.
