(* Rt/HeapWProofs.v — C14, round c14w: proofs about Rt/HeapW.v (the element loop of the list decoders and the
   dynamic-buffer encoder wrapper).  Unbounded: induction over the number of appended elements / the chunk script. *)
From Coq Require Import List Arith Bool PeanoNat Lia Permutation.
From A1 Require Import Rt.HeapW.
Import ListNotations.

(* ---------------------------------------------------------------- the ledger *)
Lemma in_rm : forall e x l, In x (remove Nat.eq_dec e l) <-> (In x l /\ x <> e).
Proof.
  intros e x l; induction l as [|a l IH]; cbn.
  - tauto.
  - destruct (Nat.eq_dec e a) as [E|E].
    + subst a. rewrite IH. split.
      * intros [H1 H2]. split; [right; exact H1 | exact H2].
      * intros [[H|H] H2]; [exfalso; apply H2; symmetry; exact H | split; assumption].
    + cbn. rewrite IH. split.
      * intros [H|[H1 H2]].
        -- subst x. split; [left; reflexivity | intro H; apply E; symmetry; exact H].
        -- split; [right; exact H1 | exact H2].
      * intros [[H|H] H2]; [left; exact H | right; split; assumption].
Qed.

Lemma remove_notin : forall e l, ~ In e l -> remove Nat.eq_dec e l = l.
Proof.
  intros e l; induction l as [|a l IH]; intros Hn; cbn; [reflexivity|].
  destruct (Nat.eq_dec e a) as [E|E].
  - exfalso. apply Hn. left. symmetry. exact E.
  - f_equal. apply IH. intro Hin. apply Hn. right. exact Hin.
Qed.

Lemma nodup_rm : forall e l, NoDup l -> NoDup (remove Nat.eq_dec e l).
Proof.
  intros e l H; induction H as [|a l Hn Hd IH]; cbn; [constructor|].
  destruct (Nat.eq_dec e a); [exact IH|].
  constructor; [|exact IH]. intro Hin. apply in_rm in Hin. destruct Hin as [Hin _]. apply Hn. exact Hin.
Qed.

Lemma remove_head : forall b l, ~ In b l -> remove Nat.eq_dec b (b :: l) = l.
Proof.
  intros b l Hn. cbn. destruct (Nat.eq_dec b b) as [_|E]; [apply remove_notin; exact Hn | exfalso; apply E; reflexivity].
Qed.

Lemma lfree_in : forall live b, In b live -> lfree live b = Some (remove Nat.eq_dec b live).
Proof. intros live b H. unfold lfree. destruct (in_dec Nat.eq_dec b live) as [_|N]; [reflexivity | contradiction]. Qed.

Lemma lfree_notin : forall live b, ~ In b live -> lfree live b = None.
Proof. intros live b H. unfold lfree. destruct (in_dec Nat.eq_dec b live) as [I|_]; [contradiction | reflexivity]. Qed.

(* every owner released once, nothing else: the ledger ends empty *)
Lemma lfrees_all : forall evs live, NoDup evs -> NoDup live -> (forall b, In b live <-> In b evs) -> lfrees live evs = Some [].
Proof.
  induction evs as [|e r IH]; intros live Hev Hl Heq; cbn.
  - destruct live as [|a l]; [reflexivity|]. exfalso. exact (proj1 (Heq a) (or_introl eq_refl)).
  - assert (Hin : In e live) by (apply Heq; left; reflexivity).
    rewrite (lfree_in _ _ Hin). inversion Hev as [|? ? Hne Hr]; subst.
    apply IH; [exact Hr | apply nodup_rm; exact Hl |].
    intro b. rewrite in_rm. split.
    + intros [Hb Hne2]. apply Heq in Hb. destruct Hb as [Hb|Hb]; [exfalso; apply Hne2; symmetry; exact Hb | exact Hb].
    + intro Hb. split; [apply Heq; right; exact Hb | intro E; subst b; contradiction].
Qed.

(* a block that is not live and is released: violation, whatever happens before *)
Lemma lfrees_notin : forall evs live b, In b evs -> ~ In b live -> lfrees live evs = None.
Proof.
  induction evs as [|e r IH]; intros live b Hin Hn; cbn; [contradiction|].
  destruct (lfree live e) as [l|] eqn:E; [|reflexivity].
  destruct Hin as [Hin|Hin].
  - subst e. rewrite (lfree_notin _ _ Hn) in E. discriminate.
  - unfold lfree in E. destruct (in_dec Nat.eq_dec e live) as [_|_]; [|discriminate].
    inversion E; subst l. apply (IH _ b Hin). intro H. apply in_rm in H. apply Hn. exact (proj1 H).
Qed.

(* ---------------------------------------------------------------- 1. the element loop *)
Definition linv (s : lst) : Prop :=
  NoDup (els s) /\ ~ In top (els s) /\ arr s <> Some top /\ (forall a, arr s = Some a -> ~ In a (els s)) /\
  (forall b, In b (live s) <-> (b = top \/ arr s = Some b \/ In b (els s))) /\
  NoDup (live s) /\ (forall b, In b (live s) -> b < next s).

Lemma linv_init : linv linit.
Proof.
  unfold linv, linit, top; cbn. repeat split; try (constructor; fail); try tauto; try discriminate.
  - intros [H|H]; [left; symmetry; exact H | contradiction].
  - intros [H|[H|H]]; [left; symmetry; exact H | discriminate | contradiction].
  - constructor; [intros [] | constructor].
  - intros b [H|H]; [subst; lia | contradiction].
Qed.

Lemma els_grow : forall s, els (grow s) = els s.
Proof. intro s. unfold grow. destruct (length (els s) <? cap s); reflexivity. Qed.

Lemma nodup_snoc : forall (l : list nat) b, NoDup l -> ~ In b l -> NoDup (l ++ [b]).
Proof.
  intros l b Hd Hn. induction Hd as [|a l Ha Hd IH]; cbn.
  - constructor; [intros [] | constructor].
  - constructor.
    + intro H. apply in_app_or in H. destruct H as [H|[H|[]]]; [contradiction | apply Hn; left; symmetry; exact H].
    + apply IH. intro H. apply Hn. right. exact H.
Qed.

(* one successful iteration keeps the invariant *)
Lemma linv_step : forall s, linv s -> linv (step_ok s).
Proof.
  intros s (He & Ht & Hat & Hae & Hl & Hd & Hb).
  assert (Hfresh : forall x, In x (live s) -> x <> next s) by (intros x Hx E; apply Hb in Hx; lia).
  assert (Htop : top < next s) by (apply Hb; apply Hl; left; reflexivity).
  assert (Hnb : ~ In (next s) (els s)) by (intro H; apply (Hfresh (next s)); [apply Hl; right; right; exact H | reflexivity]).
  unfold step_ok, append, alloc_elem. cbv beta iota. unfold grow, linv. cbn [els cap live next arr].
  destruct (length (els s) <? cap s) eqn:Ecap; cbn [els cap live next arr].
  - (* room in the array *)
    repeat split.
    + apply nodup_snoc; assumption.
    + intro H. apply in_app_or in H. destruct H as [H|[H|[]]]; [contradiction | unfold top in *; lia].
    + exact Hat.
    + intros a Ha H. apply in_app_or in H. destruct H as [H|[H|[]]]; [exact (Hae a Ha H)|].
      subst a. apply (Hfresh (next s)); [apply Hl; right; left; exact Ha | reflexivity].
    + intros [H|H]; [right; right; apply in_or_app; right; left; exact H|].
      apply Hl in H. destruct H as [H|[H|H]]; [left; exact H | right; left; exact H | right; right; apply in_or_app; left; exact H].
    + intros [H|[H|H]].
      * right. apply Hl. left. exact H.
      * right. apply Hl. right. left. exact H.
      * apply in_app_or in H. destruct H as [H|[H|[]]]; [right; apply Hl; right; right; exact H | left; exact H].
    + constructor; [intro H; apply (Hfresh _ H); reflexivity | exact Hd].
    + intros b [H|H]; [subst; lia | apply Hb in H; lia].
  - (* the array is (re)allocated: block S (next s); the old one released *)
    set (b := next s) in *. set (n := S b).
    assert (Hrm : forall x, In x (match arr s with Some a => remove Nat.eq_dec a (b :: live s) | None => b :: live s end)
                            <-> ((x = b \/ In x (live s)) /\ arr s <> Some x)).
    { intro x. destruct (arr s) as [a|] eqn:Ea.
      - rewrite in_rm. cbn. split.
        + intros [[H|H] H2]; (split; [auto | intro E; inversion E; subst; apply H2; reflexivity]).
        + intros [[H|H] H2]; (split; [auto | intro E; subst; apply H2; reflexivity]).
      - cbn. split; [intros [H|H]; (split; [auto | discriminate]) | intros [[H|H] _]; auto]. }
    repeat split.
    + apply nodup_snoc; assumption.
    + intro H. apply in_app_or in H. destruct H as [H|[H|[]]]; [contradiction | unfold top, b in *; lia].
    + intro E. inversion E; try (unfold top, n, b in *; lia).
    + intros a Ha H. inversion Ha; subst a. apply in_app_or in H. destruct H as [H|[H|[]]].
      * assert (n < next s) by (apply Hb; apply Hl; right; right; exact H). unfold n, b in *. lia.
      * unfold n, b in *. lia.
    + intros [H|H]; [right; left; f_equal; exact H|].
      apply Hrm in H. destruct H as [[H|H] H2].
      * right; right. apply in_or_app. right. left. symmetry. exact H.
      * apply Hl in H. destruct H as [H|[H|H]]; [left; exact H | contradiction | right; right; apply in_or_app; left; exact H].
    + intros [H|[H|H]].
      * right. apply Hrm. split; [right; apply Hl; left; exact H|]. intro E. apply Hat. rewrite E. f_equal. exact H.
      * left. inversion H. reflexivity.
      * apply in_app_or in H. destruct H as [H|[H|[]]].
        -- right. apply Hrm. split; [right; apply Hl; right; right; exact H|]. intro E. exact (Hae _ E H).
        -- right. apply Hrm. split; [left; symmetry; exact H|]. intro E. subst b0.
           apply (Hfresh b); [apply Hl; right; left; exact E | reflexivity].
    + constructor.
      * intro H. apply Hrm in H. destruct H as [[H|H] _]; [unfold n in H; lia|]. apply Hb in H. unfold n, b in *. lia.
      * destruct (arr s) as [a|]; [apply nodup_rm|]; (constructor; [intro H; apply (Hfresh _ H); reflexivity | exact Hd]).
    + intros x [H|H]; [unfold n in *; lia|]. apply Hrm in H. destruct H as [[H|H] _]; [unfold n, b in *; lia|].
      apply Hb in H. unfold n, b in *. lia.
Qed.

Lemma linv_steps : forall k s, linv s -> linv (steps k s).
Proof. induction k as [|k IH]; intros s H; cbn; [exact H | apply IH; apply linv_step; exact H]. Qed.

(* an element allocated and released again by the exit: the ledger is as before *)
Lemma alloc_free_same : forall s, linv s ->
  exists s', free_blk (next s) (snd (alloc_elem s)) = Some s' /\ live s' = live s /\ arr s' = arr s /\ els s' = els s /\ next s' = S (next s).
Proof.
  intros s (_ & _ & _ & _ & _ & _ & Hb). unfold free_blk, alloc_elem; cbn.
  assert (Hn : ~ In (next s) (live s)) by (intro H; apply Hb in H; lia).
  rewrite lfree_in by (left; reflexivity). rewrite (remove_head _ _ Hn).
  eexists; split; [reflexivity|]. cbn. repeat split; reflexivity.
Qed.

Lemma linv_transfer : forall s s', linv s -> live s' = live s -> arr s' = arr s -> els s' = els s -> next s <= next s' -> linv s'.
Proof.
  intros s s' (He & Ht & Hat & Hae & Hl & Hd & Hb) E1 E2 E3 E4. unfold linv. rewrite E1, E2, E3.
  repeat split; try assumption; try (apply Hl); try (intro H; apply Hl; exact H).
  intros b H. apply Hb in H. lia.
Qed.

(* every exit of the correct loop keeps the invariant *)
Lemma exit_correct : forall x s, linv s -> exists s', exit_step Correct x s = Some s' /\ linv s'.
Proof.
  intros x s H. destruct x as [| |[|]]; cbn [exit_step].
  - exists (step_ok s). split; [reflexivity | apply linv_step; exact H].
  - destruct (alloc_free_same s H) as (s' & E & E1 & E2 & E3 & E4). unfold alloc_elem in *; cbn in *.
    exists s'. split; [exact E | apply (linv_transfer s); auto; lia].
  - destruct (alloc_free_same s H) as (s' & E & E1 & E2 & E3 & E4). unfold alloc_elem in *; cbn in *.
    exists s'. split; [exact E | apply (linv_transfer s); auto; lia].
  - exists s. split; [reflexivity | exact H].
Qed.

Lemma owners_nodup : forall s, linv s -> NoDup (owners s).
Proof.
  intros s (He & Ht & Hat & Hae & _). unfold owners. constructor.
  - intro H. apply in_app_or in H. destruct H as [H|H]; [|contradiction].
    destruct (arr s) as [a|]; cbn in H; [destruct H as [H|[]]; apply Hat; f_equal; exact H | contradiction].
  - destruct (arr s) as [a|]; cbn; [constructor; [apply Hae; reflexivity | exact He] | exact He].
Qed.

Lemma owners_live : forall s, linv s -> forall b, In b (live s) <-> In b (owners s).
Proof.
  intros s (_ & _ & _ & _ & Hl & _) b. rewrite Hl. unfold owners. cbn. split.
  - intros [H|[H|H]]; [left; symmetry; exact H | right; apply in_or_app; left; rewrite H; left; reflexivity | right; apply in_or_app; right; exact H].
  - intros [H|H]; [left; symmetry; exact H|]. apply in_app_or in H. destruct H as [H|H]; [|right; right; exact H].
    destruct (arr s) as [a|]; cbn in H; [destruct H as [H|[]]; right; left; f_equal; exact H | contradiction].
Qed.

(* THEOREM 1: whatever the number k of appended elements and whatever the error exit, after the failed decode every live
   block is owned by the list structure exactly once (itself, the array, the appended elements) and nothing else is live *)
Theorem list_exit_owned_once : forall k x, exists s,
  list_run Correct k x = Some s /\ NoDup (live s) /\ NoDup (owners s) /\ Permutation (live s) (owners s).
Proof.
  intros k x. destruct (exit_correct x (steps k linit) (linv_steps k _ linv_init)) as (s & E & H).
  exists s. split; [exact E|]. pose proof (owners_nodup s H) as Ho. pose proof (owners_live s H) as Hl.
  destruct H as (_ & _ & _ & _ & _ & Hd & _). repeat split; [exact Hd | exact Ho | apply NoDup_Permutation; assumption].
Qed.

(* THEOREM 2: ... and the caller's ASN_STRUCT_FREE then releases every block exactly once: no violation, nothing left *)
Theorem list_exit_free_balanced : forall k x, list_lifecycle Correct k x = Some [].
Proof.
  intros k x. unfold list_lifecycle.
  destruct (exit_correct x (steps k linit) (linv_steps k _ linv_init)) as (s & E & H).
  unfold list_run. rewrite E. pose proof (owners_nodup s H) as Ho. pose proof (owners_live s H) as Hl.
  assert (Hp : Permutation (owners s) (struct_free s)).
  { unfold owners, struct_free. eapply Permutation_trans; [apply Permutation_cons_append|].
    rewrite app_assoc. apply Permutation_app_tail. apply Permutation_app_comm. }
  destruct H as (_ & _ & _ & _ & _ & Hd & _).
  apply lfrees_all; [eapply Permutation_NoDup; eassumption | exact Hd |].
  intro b. rewrite Hl. split; intro Hb; [eapply Permutation_in; eassumption | eapply Permutation_in; [apply Permutation_sym; eassumption | exact Hb]].
Qed.

(* THEOREM 3 (the seeded mistake, for EVERY k): the shared exit releases the element the list already owns; the caller's
   ASN_STRUCT_FREE releases it again: ledger violation *)
Theorem list_shared_exit_double_free : forall k, list_lifecycle SharedExit k XBomb = None.
Proof.
  intro k. unfold list_lifecycle, list_run. cbn [exit_step]. set (s := steps k linit).
  unfold alloc_elem. cbn [fst snd].
  set (s1 := Lst (next s :: live s) (S (next s)) (arr s) (cap s) (els s)).
  unfold free_blk. destruct (lfree (live (append (next s) s1)) (next s)) as [l|] eqn:E; [|reflexivity].
  cbn [live els arr]. apply (lfrees_notin _ _ (next s)).
  - unfold struct_free. cbn [els]. apply in_or_app. left. unfold append. cbn [els]. apply in_or_app. right. left. reflexivity.
  - unfold lfree in E. destruct (in_dec Nat.eq_dec (next s) (live (append (next s) s1))); [|discriminate].
    inversion E; subst l. intro H. apply in_rm in H. apply (proj2 H). reflexivity.
Qed.

Theorem list_shared_exit_refuted : exists k x, list_lifecycle SharedExit k x <> Some [].
Proof. exists 0, XBomb. vm_compute. discriminate. Qed.

(* ---------------------------------------------------------------- 2. the dynamic-buffer wrapper *)
Definition dinv (d : dst) : Prop := dlive d = opt_l (buf d).

Lemma lfree_single : forall o, lfree [o] o = Some [].
Proof.
  intro o. rewrite lfree_in by (left; reflexivity). cbn. destruct (Nat.eq_dec o o) as [_|E]; [reflexivity | exfalso; apply E; reflexivity].
Qed.

Lemma dyn_cb_inv : forall ok size d, dinv d ->
  exists d' r, dyn_cb ok size d = Some (d', r) /\ dinv d' /\ (r = false -> buf d' = None) /\
               (r = true -> (buf d <> None \/ allocated d = 0) -> buf d' <> None) /\ (ok = true -> r = true).
Proof.
  intros ok size d H. unfold dinv in H. unfold dyn_cb.
  destruct (allocated d <=? len d + size) eqn:Eg.
  - destruct ok.
    + destruct (buf d) as [o|] eqn:Eb; cbn [lrealloc]; rewrite H; cbn [opt_l].
      * rewrite lfree_single. eexists; eexists; split; [reflexivity|]. unfold dinv; cbn.
        repeat split; try reflexivity; try discriminate; try (intros _ _; discriminate).
      * eexists; eexists; split; [reflexivity|]. unfold dinv; cbn.
        repeat split; try reflexivity; try discriminate; try (intros _ _; discriminate).
    + destruct (buf d) as [o|] eqn:Eb.
      * rewrite H; cbn [opt_l]. rewrite lfree_single. eexists; eexists; split; [reflexivity|]. unfold dinv; cbn.
        repeat split; try reflexivity; try discriminate.
      * eexists; eexists; split; [reflexivity|]. unfold dinv; cbn. rewrite H. cbn.
        repeat split; try reflexivity; try discriminate.
  - eexists; eexists; split; [reflexivity|]. unfold dinv; cbn.
    repeat split; try exact H; try discriminate; try reflexivity.
    intros _ [Hb|Ha]; [exact Hb|]. apply Nat.leb_gt in Eg. lia.
Qed.

Lemma feed_inv : forall script d, dinv d ->
  exists d' r, feed script d = Some (d', r) /\ dinv d' /\ (r = false -> buf d' = None).
Proof.
  induction script as [|[size ok] rest IH]; intros d H; cbn [feed].
  - exists d, true. split; [reflexivity | split; [exact H | discriminate]].
  - destruct (dyn_cb_inv ok size d H) as (d1 & r & E & H1 & Hf & _ & _). rewrite E. destruct r.
    + apply IH. exact H1.
    + exists d1, false. split; [reflexivity | split; [exact H1 | exact Hf]].
Qed.

Lemma dinv_init : dinv dinit.
Proof. reflexivity. Qed.

(* THEOREM 4: whatever the chunks, wherever REALLOC fails, whether the type encoder fails: no ledger violation, and at return
   the only live block is the buffer handed to the caller - none at all when the call failed *)
Theorem dyn_wrapper_balanced : forall script enc_ok, exists d r,
  dyn_run DCorrect script enc_ok = Some (d, r) /\ dlive d = opt_l r.
Proof.
  intros script enc_ok. unfold dyn_run.
  destruct (feed_inv script dinit dinv_init) as (d & r & E & H & Hf). rewrite E.
  destruct (r && enc_ok) eqn:Eok.
  - exists d, (buf d). split; [reflexivity | exact H].
  - destruct (buf d) as [b|] eqn:Eb.
    + unfold dinv in H. rewrite Eb in H. cbn in H. rewrite H. rewrite lfree_single.
      eexists; eexists; split; [reflexivity | reflexivity].
    + exists d, None. split; [reflexivity|]. unfold dinv in H. rewrite Eb in H. exact H.
Qed.

Corollary dyn_wrapper_failure_frees : forall script enc_ok d,
  dyn_run DCorrect script enc_ok = Some (d, None) -> dlive d = [].
Proof.
  intros script enc_ok d E. destruct (dyn_wrapper_balanced script enc_ok) as (d' & r & E' & H).
  rewrite E in E'. inversion E'; subst. exact H.
Qed.

Lemma feed_all_ok : forall script d, dinv d -> Forall (fun c => snd c = true) script ->
  (buf d <> None \/ (allocated d = 0 /\ script <> [])) ->
  exists d', feed script d = Some (d', true) /\ dinv d' /\ buf d' <> None.
Proof.
  induction script as [|[size ok] rest IH]; intros d H Hall Hs; cbn [feed].
  - exists d. split; [reflexivity | split; [exact H|]]. destruct Hs as [Hs|[_ Hs]]; [exact Hs | exfalso; apply Hs; reflexivity].
  - inversion Hall as [|? ? Hok Hrest]; subst. cbn in Hok. subst ok.
    destruct (dyn_cb_inv true size d H) as (d1 & r & E & H1 & _ & Hk & Hr). rewrite E.
    rewrite (Hr eq_refl) in *. apply IH; [exact H1 | exact Hrest |]. left. apply Hk; [reflexivity|].
    destruct Hs as [Hs|[Hs _]]; [left; exact Hs | right; exact Hs].
Qed.

(* THEOREM 5 (the seeded mistake, for EVERY script): at least one chunk reached the callback, no REALLOC failed, the type
   encoder failed afterwards: without the FREEMEM of the failure branch one block stays live that nobody owns *)
Theorem dyn_nofree_leaks : forall script, script <> [] -> Forall (fun c => snd c = true) script ->
  exists d b, dyn_run NoFree script false = Some (d, None) /\ dlive d = [b].
Proof.
  intros script Hne Hall. unfold dyn_run.
  destruct (feed_all_ok script dinit dinv_init Hall) as (d & E & H & Hb); [right; split; [reflexivity | exact Hne]|].
  rewrite E. cbn. destruct (buf d) as [b|] eqn:Eb; [|exfalso; apply Hb; reflexivity].
  exists d, b. split; [reflexivity|]. unfold dinv in H. rewrite Eb in H. exact H.
Qed.

Theorem dyn_nofree_refuted : exists script enc_ok d, dyn_run NoFree script enc_ok = Some (d, None) /\ dlive d <> [].
Proof. exists [(40, true)], false. eexists. split; [vm_compute; reflexivity | discriminate]. Qed.
