(* Rt/Constraints.v — C08: constraint validation (asn_check_constraints).

   Spec   [satisfies : cty -> val -> bool]  — X.680 reading: structural; an INTEGER
          value lies in the union of the written ranges and outside the EXCEPT
          set; the length of an OCTET STRING / the element count of a SEQUENCE OF /
          SET OF lies in the SIZE set; every member, the chosen alternative and
          every element satisfy recursively; an absent OPTIONAL member is fine.
   Model  [chk : cty -> bool -> val -> res] — what the C does, bugs included:
          - the per-type checker asn1c generates (libasn1compiler/asn1c_constraint.c:
            asn1c_emit_constraint_checking_code): the range handed over by
            libasn1fix/asn1fix_crange.c (Fix.Crange.range_union = _range_canonicalize of
            the union; EXCEPT is dropped there), the "MIN..MAX => nothing to check"
            drop (single interval only), the C type chosen by asn1c_type_fits_long, native_long_sign,
            asn_INTEGER2long's "value too large", and
            emit_range_comparison_code's or-of-ands with its natural_start/stop
            elisions;
          - the walkers SEQUENCE_constraint (members in order, first failure wins,
            absent optional skipped, missing mandatory fails),
            CHOICE_constraint, SET_OF_constraint (every element);
          - where the SIZE of a SEQUENCE OF / SET OF is checked at all: only in the
            memb_*_constraint_N function of a member slot and in the checker generated
            for a type DEFINED AS A REFERENCE (`T2 ::= T1`); the descriptor of a type
            defined as `SEQUENCE (SIZE(..)) OF` itself carries the bare walker;
          - _asn_i_ctfailcb's clamp of the message length, and what it and vsnprintf store
            into the caller's buffer ([ctfail]);
          - the compiler flag -fwide-types ([w] = true): asn1c_type_fits_long and
            native_long_sign lose their "lb >= 0, ub = MAX => unsigned long" case, every range
            open on a side is held in an INTEGER_t, and emit_value_determination_code's
            sign shortcut for (0..MAX) / (MIN..-1) compares the SIGN of the number.
   The algebra [cty] is this file's own (Rt/Types.v has single ranges only and no
   notion of "constraint written at the member"); [of_ty] translates Rt.Types.ty.
   Extensible constraints are outside the property: [of_ty] maps them to "no
   constraint" (every value satisfies, nothing is checked).
   No proofs in this file. *)
From Coq Require Import ZArith List Bool.
From A1 Require Import Rt.Types Fix.Crange.
Import ListNotations.
Local Open Scope Z_scope.

(* ------------------------------------------------------------------ algebra *)
(* a set of integers as written: ( p1 | p2 | ... ), each part lo..hi with MIN/MAX;
   [] = no constraint *)
Definition parts := list ipair.

Inductive cty :=
| CBool
| CNull
| CInt (ps exc : parts)            (* INTEGER (ps EXCEPT exc) *)
| COct (sz : parts)                (* OCTET STRING (SIZE(sz)) *)
| CSeq (ms : list cty)             (* members; optional ones are COpt *)
| CSeqOf (sz : parts) (e : cty)    (* SEQUENCE OF and SET OF: one checker (SEQUENCE_OF_constraint is SET_OF_constraint) *)
| CChoice (alts : list cty)
| CRef (gen : bool) (t : cty)      (* a reference to a named type (no constraint written at the point of use).
                                      gen: that named type is itself defined as a reference (`T2 ::= T1`), so its
                                      descriptor carries a generated checker built from the combined constraints;
                                      otherwise the descriptor carries what its constructor gives (for an OF: the bare walker) *)
| COpt (t : cty).

(* ------------------------------------------------------------------ Spec *)
Definition le_edge (e : edge) (z : Z) : bool :=
  match e with EMin => true | EV a => a <=? z | EMax => false end.
Definition ge_edge (e : edge) (z : Z) : bool :=
  match e with EMax => true | EV a => z <=? a | EMin => false end.
Definition in_pair (z : Z) (p : ipair) : bool := le_edge (fst p) z && ge_edge (snd p) z.
Definition in_parts (ps : parts) (z : Z) : bool := existsb (in_pair z) ps.

Definition sat_int (ps exc : parts) (z : Z) : bool :=
  (match ps with [] => true | _ => in_parts ps z end) && negb (in_parts exc z).
Definition sat_size (sz : parts) (n : Z) : bool :=
  match sz with [] => true | _ => in_parts sz n end.

Definition zlength {A} (l : list A) : Z := Z.of_nat (length l).

Definition all2 (f : cty -> val -> bool) : list cty -> list val -> bool :=
  fix go ms vs :=
    match ms, vs with
    | [], [] => true
    | m :: ms', v :: vs' => f m v && go ms' vs'
    | _, _ => false
    end.

(* the alternative with index i (definition order) *)
Definition pick {B} (f : cty -> val -> B) (dflt : B) (v : val) : list cty -> nat -> B :=
  fix go alts i :=
    match alts, i with
    | a :: _, O => f a v
    | _ :: r, S j => go r j
    | [], _ => dflt
    end.

Fixpoint satisfies (t : cty) (v : val) {struct t} : bool :=
  match t, v with
  | CBool, VBool _ => true
  | CNull, VNull => true
  | CInt ps exc, VInt z => sat_int ps exc z
  | COct sz, VOct bs => sat_size sz (zlength bs)
  | CSeq ms, VSeq vs => all2 satisfies ms vs
  | CSeqOf sz e, VList vs => sat_size sz (zlength vs) && forallb (satisfies e) vs
  | CChoice alts, VChoice i v' => pick satisfies false v' alts i
  | CRef _ t', _ => satisfies t' v
  | COpt _, VNone => true
  | COpt t', VSome v' => satisfies t' v'
  | _, _ => false
  end.

(* ------------------------------------------------------------------ Model: generated leaf checkers *)
Inductive why := WConstraint | WTooLarge | WAbsent | WNoAlt | WShape.
Inductive res := ROk | RFail (w : why).

Definition two31m1 : Z := 2147483647.
Definition two31neg : Z := -2147483648.
Definition two32m1 : Z := 4294967295.
Definition two63 : Z := 9223372036854775808.
Definition two64 : Z := 18446744073709551616.

(* the range record the emitter receives: left, right, elements (no elements = a single interval) *)
Definition crange := (edge * edge * list ipair)%type.
Definition crange_of (ps : parts) : option crange :=
  match ps with
  | [] => None
  | _ =>
      match range_union ps with
      | [] => None
      | [q] => Some (fst q, snd q, [])
      | q :: tl => Some (fst q, snd (last tl q), q :: tl)
      end
  end.

(* range->left.value / right.value: 0 when the edge is MIN / MAX *)
Definition edge_val (e : edge) : Z := match e with EV z => z | _ => 0 end.
Definition is_min (e : edge) : bool := match e with EMin => true | _ => false end.
Definition is_max (e : edge) : bool := match e with EMax => true | _ => false end.
Definition is_val (e : edge) : bool := match e with EV _ => true | _ => false end.

(* asn1c_type_fits_long on the (non-extensible, PER-visible) range: the C type of the value *)
Inductive ikind := KLong | KULong | KWide.
(* w: -fwide-types *)
Definition fits_long (w : bool) (l r : edge) : ikind :=
  if is_val l && (0 <=? edge_val l) && (edge_val l <=? two31m1) && is_max r && negb w then KULong
  else if is_val l && (0 <=? edge_val l) && is_val r && (two31m1 <? edge_val r) && (edge_val r <=? two32m1) then KULong
  else if is_val l && ((edge_val l <? two31neg) || (two31m1 <? edge_val l)) then KWide
  else if is_val r && ((two31m1 <? edge_val r) || (edge_val r <? two31neg)) then KWide
  else if negb (is_val l && is_val r) && w then KWide           (* "if the range is open, fits only unless -fwide-types" *)
  else KLong.

(* native_long_sign: 1 = compare as unsigned long, -1 = long *)
Definition long_sign (w : bool) (c : crange) : Z :=
  let '(l, r, els) := c in
  if is_val l && (0 <=? edge_val l) && (edge_val l <=? two31m1) && is_max r && negb w then 1
  else if is_val l && (0 <=? edge_val l) && is_val r && (two31m1 <? edge_val r) && (edge_val r <=? two32m1) then 1
  else -1.

(* one interval's comparison text *)
Inductive cmp := CLe (v : Z) | CGe (v : Z) | CEq (v : Z) | CBetween (lo hi : Z).
Definition eval_cmp (z : Z) (c : cmp) : bool :=
  match c with
  | CLe v => z <=? v
  | CGe v => v <=? z
  | CEq v => z =? v
  | CBetween lo hi => (lo <=? z) && (z <=? hi)
  end.

(* emit_range_comparison_code, el_count == 0 branch; natural_start/stop None = the C's -1 *)
Definition emit1 (nstart nstop : option Z) (p : ipair) : option cmp :=
  let il := is_min (fst p) || match nstart with Some s => edge_val (fst p) <=? s | None => false end in
  let ir := is_max (snd p) || match nstop with Some s => s <=? edge_val (snd p) | None => false end in
  if il && ir then None
  else if il then Some (CLe (edge_val (snd p)))
  else if ir then Some (CGe (edge_val (fst p)))
  else if edge_val (fst p) =? edge_val (snd p) then Some (CEq (edge_val (snd p)))
  else Some (CBetween (edge_val (fst p)) (edge_val (snd p))).

Definition nonnil {A} (l : list A) : bool := match l with [] => false | _ => true end.
Definition opt_list {A} (o : option A) : list A := match o with Some a => [a] | None => [] end.

(* the whole text: a disjunction; [] = empty text *)
Definition emit (nstart nstop : option Z) (c : crange) : list cmp :=
  let '(l, r, els) := c in
  match els with
  | [] => opt_list (emit1 nstart nstop (l, r))
  | _ => flat_map (fun p => opt_list (emit1 nstart nstop p)) els     (* an element with empty text is skipped *)
  end.

Definition eval (z : Z) (txt : list cmp) : bool := existsb (eval_cmp z) txt.

Definition int64 (z : Z) : bool := (- two63 <=? z) && (z <? two63).
Definition uint64 (z : Z) : bool := (0 <=? z) && (z <? two64).

(* emit_value_determination_code, FL_NOTFIT: "In some cases we can explore our knowledge of
   underlying INTEGER_t->buf format": for a single interval (0..MAX) or (MIN..-1) the value
   compared is the sign of the number, value = (buf[0] & 0x80) ? -1 : 1 *)
Definition sign_shortcut (c : crange) : bool :=
  let '(l, r, els) := c in
  match els with
  | [] => (is_val l && (edge_val l =? 0) && is_max r) || (is_min l && is_val r && (edge_val r =? -1))
  | _ => false
  end.
Definition sign_of (z : Z) : Z := if z <? 0 then -1 else 1.

Definition is_kwide (k : ikind) : bool := match k with KWide => true | _ => false end.

(* the value is held in an INTEGER_t and has to be read with asn_INTEGER2long / asn_INTEGER2ulong *)
Definition needs_read (w : bool) (c : crange) : bool :=
  let '(l, r, els) := c in is_kwide (fits_long w l r) && negb (sign_shortcut c).

(* that read succeeds *)
Definition int_readable (w : bool) (ps : parts) (z : Z) : bool :=
  match crange_of ps with
  | None => true
  | Some c => if needs_read w c then (if 0 <=? long_sign w c then uint64 z else int64 z) else true
  end.

(* the generated checker of an INTEGER type with value constraint ps.  "Nothing to
   check" (the function returns the base type's checker, asn_generic_no_constraint)
   is ROk. *)
Definition int_check (w : bool) (ps : parts) (z : Z) : res :=
  match crange_of ps with
  | None => ROk
  | Some c =>
      let '(l, r, els) := c in
      if is_min l && is_max r && negb (nonnil els) then ROk  (* r_value dropped: the single interval MIN..MAX *)
      else
        let sg := long_sign w c in
        let readable :=
          if needs_read w c then (if 0 <=? sg then uint64 z else int64 z)   (* asn_INTEGER2ulong / asn_INTEGER2long *)
          else true in
        if negb readable then RFail WTooLarge
        else
          let value := if is_kwide (fits_long w l r) && sign_shortcut c then sign_of z else z in
          match emit (if 0 <? sg then Some 0 else None) None c with
          | [] => ROk                                         (* no applicable constraints whatsoever *)
          | txt => if eval value txt then ROk else RFail WConstraint
          end
  end.

(* the generated SIZE test (size_t size; natural_start 0); "nothing to check" is ROk *)
Definition size_check (sz : parts) (n : Z) : res :=
  match crange_of sz with
  | None => ROk
  | Some c =>
      let '(l, r, els) := c in
      if (edge_val l =? 0) && is_max r && negb (nonnil els) then ROk   (* r_size dropped: the single interval 0..MAX *)
      else
        match emit (Some 0) None c with
        | [] => ROk
        | txt => if eval n txt then ROk else RFail WConstraint
        end
  end.

(* ------------------------------------------------------------------ Model: walkers *)
(* SEQUENCE_constraint *)
Definition is_copt (t : cty) : bool := match t with COpt _ => true | _ => false end.
Definition walk_members (f : cty -> val -> res) : list cty -> list val -> res :=
  fix go ms vs :=
    match ms, vs with
    | [], [] => ROk
    | m :: ms', v :: vs' =>
        match v with
        | VNone => if is_copt m then go ms' vs'                (* absent OPTIONAL: continue *)
                   else RFail WAbsent                          (* mandatory element absent *)
        | _ =>
            match f m v with ROk => go ms' vs' | e => e end     (* the member's own checker, else its type's; first failure wins *)
        end
    | _, _ => RFail WShape
    end.

(* SET_OF_constraint *)
Definition walk_elems (f : val -> res) : list val -> res :=
  fix go vs :=
    match vs with
    | [] => ROk
    | v :: r => match f v with ROk => go r | e => e end
    end.

(* [slot] = true: the checker attached to a member / alternative / element slot
   (memb_*_constraint_N if a constraint is written there, else the descriptor's);
   false: the descriptor's own checker (top level, or behind a type reference). *)
Fixpoint chk (w : bool) (t : cty) (slot : bool) (v : val) {struct t} : res :=
  match t, v with
  | CBool, VBool _ => ROk
  | CNull, VNull => ROk
  | CInt ps _, VInt z => int_check w ps z
  | COct sz, VOct bs => size_check sz (zlength bs)
  | CSeq ms, VSeq vs => walk_members (fun m x => chk w m true x) ms vs
  | CSeqOf sz e, VList vs =>
      if slot then
        match size_check sz (zlength vs) with
        | ROk => walk_elems (chk w e true) vs
        | f => f
        end
      else walk_elems (chk w e true) vs
  | CChoice alts, VChoice i v' => pick (fun a x => chk w a true x) (RFail WNoAlt) v' alts i
  | CRef g t', _ => chk w t' g v
  | COpt _, VNone => ROk
  | COpt t', VSome v' => chk w t' slot v'
  | _, _ => RFail WShape
  end.

(* asn_check_constraints(&asn_DEF_T, ...) *)
Definition check (w : bool) (t : cty) (v : val) : res := chk w t false v.
Definition check_ok (w : bool) (t : cty) (v : val) : bool := match check w t v with ROk => true | _ => false end.

(* ------------------------------------------------------------------ where Model = Spec is claimed *)
Definition wfpb (p : ipair) : bool :=
  negb (is_max (fst p)) && negb (is_min (snd p)) && (edge_compare (fst p) (snd p) <=? 0).
Definition fin64 (p : ipair) : bool :=
  is_val (fst p) && is_val (snd p) && int64 (edge_val (fst p)) && int64 (edge_val (snd p)).
Definition has_text (ns : option Z) (p : ipair) : bool :=
  match emit1 ns None p with Some _ => true | None => false end.

(* everything but the "value too large" question *)
Definition int_safe_core (w : bool) (ps exc : parts) : bool :=
  negb (nonnil exc) &&                                         (* EXCEPT is ignored by the range computation *)
  forallb wfpb ps &&
  match crange_of ps with
  | None => true
  | Some c =>
      let '(l, r, els) := c in
      forallb (has_text (if 0 <? long_sign w c then Some 0 else None)) els
  end.
(* a range read through asn_INTEGER2long has only finite parts inside 64 bits (so that a value
   that cannot be read is outside the range anyway) *)
Definition int_wide_ok (w : bool) (ps : parts) : bool :=
  match crange_of ps with
  | None => true
  | Some c => if needs_read w c then forallb fin64 ps else true
  end.
Definition int_safe (w : bool) (ps exc : parts) : bool := int_safe_core w ps exc && int_wide_ok w ps.

Definition size_safe (sz : parts) : bool :=
  forallb wfpb sz && forallb (fun p => is_val (fst p) && (0 <=? edge_val (fst p))) sz &&
  match crange_of sz with
  | None => true
  | Some c => let '(l, r, els) := c in forallb (has_text (Some 0)) els
  end.

(* OPTIONAL occurs only as a direct member of a SEQUENCE, not behind a reference *)
Fixpoint opt_free_head (t : cty) : bool :=
  match t with COpt _ => false | CRef _ t' => opt_free_head t' | _ => true end.

Fixpoint safe (w : bool) (t : cty) (slot : bool) {struct t} : bool :=
  match t with
  | CBool | CNull => true
  | CInt ps exc => int_safe w ps exc
  | COct sz => size_safe sz
  | CSeq ms => forallb (fun m => safe w m true) ms
  | CSeqOf sz e => size_safe sz && (slot || negb (nonnil sz)) && safe w e true
  | CChoice alts => forallb (fun a => safe w a true) alts
  | CRef g t' => opt_free_head t' && safe w t' g
  | COpt t' => safe w t' slot
  end.

(* the value fits the C type asn1c chose (long / unsigned long); an INTEGER_t holds anything *)
Definition int_repr (w : bool) (ps : parts) (z : Z) : bool :=
  match crange_of ps with
  | None => w || int64 z                     (* unconstrained: long, or INTEGER_t under -fwide-types *)
  | Some c => let '(l, r, els) := c in
              match fits_long w l r with KLong => int64 z | KULong => uint64 z | KWide => true end
  end.

Fixpoint repr (w : bool) (t : cty) (v : val) {struct t} : bool :=
  match t, v with
  | CInt ps _, VInt z => int_repr w ps z
  | CSeq ms, VSeq vs => all2 (repr w) ms vs
  | CSeqOf _ e, VList vs => forallb (repr w e) vs
  | CChoice alts, VChoice i v' => pick (repr w) true v' alts i
  | CRef _ t', _ => repr w t' v
  | COpt t', VSome v' => repr w t' v'
  | _, _ => true
  end.

(* ------------------------------------------------------------------ translation from Rt.Types *)
Definition icon_parts (c : icon) : parts :=
  match c with
  | ICon _ _ true => []                      (* extensible: outside the property, every value satisfies *)
  | ICon None None false => []
  | ICon lo hi false =>
      [(match lo with Some l => EV l | None => EMin end, match hi with Some h => EV h | None => EMax end)]
  end.
Definition scon_parts (s : scon) : parts :=
  match s with
  | SCon _ _ true => []
  | SCon 0 None false => []
  | SCon lo hi false => [(EV lo, match hi with Some h => EV h | None => EMax end)]
  end.

(* every constraint is written where the type is used (no type references) *)
Fixpoint of_ty (t : ty) : cty :=
  match t with
  | TBool _ => CBool
  | TNull _ => CNull
  | TInt _ c => CInt (icon_parts c) []
  | TOct _ s => COct (scon_parts s)
  | TSeq _ ms => CSeq (map of_ty ms)
  | TSeqOf _ s e | TSetOf _ s e => CSeqOf (scon_parts s) (of_ty e)
  | TChoice alts => CChoice (map of_ty alts)
  | TTag _ t' => of_ty t'
  | TOpt t' => COpt (of_ty t')
  end.

(* ------------------------------------------------------------------ _asn_i_ctfailcb *)
(* maxlen = arg->errlen on entry, vlen = vsnprintf's return value.
   None: nothing is written and errlen stays; Some (errlen, position of the NUL written last) *)
Definition broken_len : Z := 18.   (* sizeof("<broken vsnprintf>") - 1 *)
Definition ctfail_clamp (maxlen vlen : Z) : option (Z * Z) :=
  if maxlen <=? 0 then None
  else if maxlen <=? vlen then Some (maxlen - 1, maxlen - 1)
  else if 0 <=? vlen then Some (vlen, vlen)
  else let m := maxlen - 1 in
       let l := if broken_len <? m then broken_len else m in
       Some (l, l).

(* what ends up in the caller's buffer.  The buffer is a function from index to byte (no
   length: a store outside [0, maxlen) is visible as a changed value there).
   vsnprintf(errbuf, maxlen, fmt, ...) is taken by its contract: for maxlen >= 1 it stores the
   first n = min(len, maxlen-1) bytes of the message, a NUL at n, nothing else, and returns len. *)
Definition buffer := Z -> Z.
Definition msg_at (msg : list Z) (i : Z) : Z := nth (Z.to_nat i) msg 0.
Definition write (f : buffer) (i b : Z) : buffer := fun j => if j =? i then b else f j.
Definition vsnprintf_into (f : buffer) (maxlen : Z) (msg : list Z) : buffer :=
  let n := Z.min (zlength msg) (maxlen - 1) in
  fun j => if (0 <=? j) && (j <? n) then msg_at msg j else if j =? n then 0 else f j.
(* asn_check_constraints with errbuf of *errlen = maxlen bytes, on a failing value whose message
   is msg: the buffer afterwards and *errlen (None: left alone) *)
Definition ctfail (f : buffer) (maxlen : Z) (msg : list Z) : buffer * option Z :=
  match ctfail_clamp maxlen (zlength msg) with
  | None => (f, None)
  | Some (el, nul) => (write (vsnprintf_into f maxlen msg) nul 0, Some el)
  end.
