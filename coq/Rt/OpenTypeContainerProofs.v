(* Rt/OpenTypeContainerProofs.v — the container-exhaustion rule of the open-type readers. *)
From Coq Require Import ZArith List Bool Lia.
From A1 Require Import Base.Bytes Rt.Types Rt.Uper Rt.UperBits Rt.UperCounted Rt.Oer Rt.OpenType Rt.OpenTypeContainer.
Import ListNotations.
Local Open Scope Z_scope.

(* the frame model's reader IS the parametrised reader with [container_ok] *)
Theorem uper_dec_open_container : forall t bs, uper_dec_open t bs = uper_dec_open_with container_ok t bs.
Proof. intros. reflexivity. Qed.

Lemma forallb_negb_repeat : forall pad, forallb negb pad = true -> pad = repeat false (length pad).
Proof.
  induction pad as [|b pad IH]; intros H; [reflexivity|]. cbn in H. apply andb_true_iff in H. destruct H as [H1 H2].
  destruct b; [discriminate|]. cbn. rewrite <- IH by exact H2. reflexivity.
Qed.

(* what an accepted container looks like: n octets, the inner decoder used `used` bits of them:
   everything but at most 7 (zero) bits was used, or nothing was used and the container is ONE 00 octet *)
Theorem container_ok_exhausted : forall ib pad n used,
  length ib = (8 * n)%nat -> (used + length pad = 8 * n)%nat -> container_ok ib pad = true ->
  pad = repeat false (length pad) /\ ((8 * n < used + 8)%nat \/ (used = 0%nat /\ n = 1%nat)).
Proof.
  intros ib pad n used Hib Hu H. unfold container_ok in H. apply andb_true_iff in H. destruct H as [H1 H2].
  split; [apply forallb_negb_repeat; exact H2|].
  apply orb_true_iff in H1. destruct H1 as [H1|H1].
  - apply Nat.ltb_lt in H1. left. lia.
  - apply andb_true_iff in H1. destruct H1 as [Ha Hb]. apply Nat.eqb_eq in Ha. apply Nat.eqb_eq in Hb. right. lia.
Qed.

(* a container that is (at least) one whole octet longer than the inner encoding is rejected - unless it is the one
   filler octet of a type without bits *)
Theorem container_longer_rejected : forall ib pad n used,
  length ib = (8 * n)%nat -> (used + length pad = 8 * n)%nat -> (used + 8 <= 8 * n)%nat -> ~ (used = 0%nat /\ n = 1%nat) ->
  container_ok ib pad = false.
Proof.
  intros ib pad n used Hib Hu Hl Hx. destruct (container_ok ib pad) eqn:E; [|reflexivity].
  destruct (container_ok_exhausted ib pad n used Hib Hu E) as [_ [H|H]]; [lia|contradiction].
Qed.

(* in particular: two or more octets for a type that takes no bits (the seeded change accepts them when they are zero) *)
Corollary container_zero_bit_type : forall ib n, length ib = (8 * n)%nat -> (2 <= n)%nat -> container_ok ib ib = false.
Proof.
  intros ib n Hib Hn. apply (container_longer_rejected ib ib n 0%nat); [exact Hib|cbn; lia|lia|lia].
Qed.

(* non-zero left-over bits are rejected whatever their number *)
Theorem container_nonzero_padding_rejected : forall ib pad, In true pad -> container_ok ib pad = false.
Proof.
  intros ib pad H. unfold container_ok. apply andb_false_iff. right.
  induction pad as [|b pad IH]; [destruct H|]. cbn. destruct H as [H|H]; [subst; reflexivity|].
  rewrite IH by exact H. apply andb_false_r.
Qed.

Lemma bytes_bits_length : forall bytes, length (bytes_bits bytes) = (8 * length bytes)%nat.
Proof.
  unfold bytes_bits. induction bytes as [|b tl IH]; [reflexivity|].
  cbn [flat_map length]. rewrite app_length, IH. unfold byte_bits. rewrite nbits_length. lia.
Qed.

(* on the wire: ANY container of whole octets behind its length determinant, read by the frame model's reader:
   accepted exactly when the selected type decodes from the octets and [container_ok] holds for what it leaves *)
Theorem uper_dec_open_wire : forall t bytes rest, bytes_ok bytes ->
  uper_dec_open t (counted (map byte_bits bytes) ++ rest) =
  match uper_dec false t (bytes_bits bytes) with
  | Some (v, pad) => if container_ok (bytes_bits bytes) pad then Some (v, rest) else None
  | None => None
  end.
Proof.
  intros t bytes rest Hb. unfold uper_dec_open.
  rewrite (counted_rt get_octet bytes (map byte_bits bytes) rest (octets_inv bytes Hb)). reflexivity.
Qed.

(* the statement of the region: the selected type decodes from the container and leaves a whole octet (or more) unread,
   and the container is not the single filler octet: the open type is REJECTED (no left-over octets are ever skipped) *)
Theorem uper_open_leftover_rejected : forall t bytes rest v pad, bytes_ok bytes ->
  uper_dec false t (bytes_bits bytes) = Some (v, pad) -> (8 <= length pad)%nat ->
  ~ (length pad = 8%nat /\ length bytes = 1%nat) ->
  uper_dec_open t (counted (map byte_bits bytes) ++ rest) = None.
Proof.
  intros t bytes rest v pad Hb Hd Hp Hx. rewrite uper_dec_open_wire by exact Hb. rewrite Hd.
  unfold container_ok. rewrite bytes_bits_length.
  replace (length pad <? 8)%nat with false by (symmetry; apply Nat.ltb_ge; exact Hp). cbn [orb].
  destruct ((length pad =? 8 * length bytes)%nat && (8 * length bytes =? 8)%nat) eqn:E; [|reflexivity].
  apply andb_true_iff in E. destruct E as [Ea Eb]. apply Nat.eqb_eq in Ea. apply Nat.eqb_eq in Eb.
  exfalso. apply Hx. lia.
Qed.

(* whatever is accepted used the container up: the value is the selected type's reading of the container and at most
   7 zero bits (or the one filler octet) are not part of it *)
Theorem uper_open_accepts_exhausted : forall t bytes rest v r, bytes_ok bytes ->
  uper_dec_open t (counted (map byte_bits bytes) ++ rest) = Some (v, r) ->
  r = rest /\ exists pad, uper_dec false t (bytes_bits bytes) = Some (v, pad) /\ pad = repeat false (length pad) /\
    ((length pad < 8)%nat \/ (length pad = 8%nat /\ length bytes = 1%nat)).
Proof.
  intros t bytes rest v r Hb H. rewrite uper_dec_open_wire in H by exact Hb.
  destruct (uper_dec false t (bytes_bits bytes)) as [[v' pad]|] eqn:Hd; [|discriminate].
  destruct (container_ok (bytes_bits bytes) pad) eqn:E; [|discriminate]. inversion H; subst.
  split; [reflexivity|]. exists pad. split; [reflexivity|].
  unfold container_ok in E. rewrite bytes_bits_length in E. apply andb_true_iff in E. destruct E as [E1 E2].
  split; [apply forallb_negb_repeat; exact E2|].
  apply orb_true_iff in E1. destruct E1 as [E1|E1].
  - left. apply Nat.ltb_lt. exact E1.
  - right. apply andb_true_iff in E1. destruct E1 as [Ea Eb]. apply Nat.eqb_eq in Ea. apply Nat.eqb_eq in Eb. lia.
Qed.

(* ---- the relaxed test of the seeded change C18-9 ---- *)

Definition null_ty : ty := TNull 20.

(* a NULL row and the container 00 00 (the encoding of another row's value): the relaxed reader accepts it as NULL *)
Theorem container_relaxed_refuted : exists t bytes v,
  bytes_ok bytes /\ length bytes = 2%nat /\
  uper_dec_open_with container_relaxed t (counted (map byte_bits bytes)) = Some (v, []) /\
  uper_dec_open t (counted (map byte_bits bytes)) = None.
Proof.
  exists null_ty, [0; 0], VNull. split; [vm_compute; repeat constructor; discriminate|].
  split; [reflexivity|]. split; vm_compute; reflexivity.
Qed.

(* ---- OER: the reader compares the inner decoder's `consumed` with the container (C18-fix-9) ---- *)

(* accepted => the container holds exactly one encoding of the selected type: nothing of it is left *)
Theorem oer_open_exhausts : forall t bs v r, oer_dec_open t bs = Some (v, r) ->
  exists n c r0, oer_get_length bs = Some (n, r0) /\ take n r0 = Some (c, r) /\ oer_dec t c = Some (v, []).
Proof.
  intros t bs v r H. unfold oer_dec_open in H.
  destruct (oer_get_length bs) as [[n r0]|] eqn:E1; [|discriminate].
  destruct (take n r0) as [[c r']|] eqn:E2; [|discriminate].
  destruct (oer_dec t c) as [[v' l]|] eqn:E3; [|discriminate].
  destruct l; [|discriminate]. inversion H; subst. exists n, c, r0. repeat split; assumption.
Qed.

(* and conversely: a container that is exactly one encoding is accepted, with the octets after it as the rest *)
Theorem oer_open_accepts : forall t bs n c r0 r v,
  oer_get_length bs = Some (n, r0) -> take n r0 = Some (c, r) -> oer_dec t c = Some (v, []) ->
  oer_dec_open t bs = Some (v, r).
Proof.
  intros t bs n c r0 r v E1 E2 E3. unfold oer_dec_open. rewrite E1, E2, E3. reflexivity.
Qed.

(* a container the selected type decodes from WITHOUT using it up is refused, whatever is left over (the reading
   of finding C18-oer-open-type-leftover, which accepted the prefix, is excluded for every type and container) *)
Theorem oer_open_leftover_rejected : forall t bs n c r0 r v left,
  oer_get_length bs = Some (n, r0) -> take n r0 = Some (c, r) -> oer_dec t c = Some (v, left) -> left <> [] ->
  oer_dec_open t bs = None.
Proof.
  intros t bs n c r0 r v left E1 E2 E3 Hl. unfold oer_dec_open. rewrite E1, E2, E3.
  destruct left; [contradiction Hl; reflexivity | reflexivity].
Qed.

(* the former witness of the finding: a NULL row and the container 00 00 *)
Theorem oer_open_null_leftover_rejected : oer_dec_open null_ty [2; 0; 0] = None /\ oer_dec_open null_ty [0] = Some (VNull, []).
Proof. split; vm_compute; reflexivity. Qed.
