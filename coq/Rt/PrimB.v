(* Rt/PrimB.v — restricted character strings inside the codec model.

   Family: the known-multiplier types IA5String, VisibleString, PrintableString,
   NumericString (1 octet per character), BMPString (2), UniversalString (4), with
   no constraint / SIZE / extensible SIZE / permitted alphabet FROM(...); UTF8String
   and the remaining string types (GeneralString, GraphicString, ...) as
   "OCTET STRING with another tag".  Each at top level, under EXPLICIT tags
   (IMPLICIT tagging only replaces the leaf's own tag), as a mandatory or OPTIONAL
   member of a non-extensible SEQUENCE next to members of the base algebra
   (Rt/Types.v), and as the element of a SEQUENCE OF.

   A value is what the C holds (OCTET_STRING_t): [VOct] of the octets, the
   characters of BMPString / UniversalString as big-endian 2 / 4 octet units.

   DER / BER and OER are defined BY TRANSLATION to the base algebra (the C uses
   OCTET_STRING_encode_der / OCTET_STRING_decode_ber / OCTET_STRING_*_oer for all
   of them): a string leaf is a [TOct] with its tag and, for OER, the size in OCTETS
   when a known-multiplier type has a fixed SIZE (OCTET_STRING_oer.c: ct_size *
   unit_bytes, no length determinant).  Unaligned PER is modelled here
   (OCTET_STRING_encode_uper / _decode_uper / _per_put_characters /
   _per_get_characters and the asn_per_constraints_t that asn1c_C.c emits):
   [std = false] is what the C does, [std = true] is X.691 clause 30.
   Known deviations of the C that the model reproduces:
     - a size outside the root of an extensible SIZE: the C writes 8 * (octets per
       character) bits per character; X.691 30.4 asks for the bits of the whole
       alphabet of the unconstrained type (IA5String 7, NumericString 4 + index, ...);
     - a NumericString without any constraint gets (32..57) in 4 bits and no
       character map (finding C01-uper-numericstring-range): value - 32 truncated.
   The spec_* functions are written from the wording of X.690 8.23 / X.691 30 /
   X.696 27 on the list of character VALUES.  No proofs in this file. *)
From Coq Require Import ZArith List Bool.
From A1 Require Import Base.Bytes Leaf.IntegerConv Leaf.BerTL Rt.Types Rt.Comb Rt.Der Rt.Uper Rt.Oer Rt.Alphabet.
Import ListNotations.
Local Open Scope Z_scope.

(* ------------------------------------------------------------------ types *)

Inductive strk := KIA5 | KVisible | KPrintable | KNumeric | KBMP | KUniversal | KUTF8 | KOther.

(* own tag (universal or IMPLICIT replacement), kind, SIZE constraint, FROM constraint
   (canonical interval list, Rt/Alphabet.v) *)
Inductive strty := Str (tg : Z) (k : strk) (sz : option scon) (fr : option alphabet).

Inductive smem :=
| MBase (t : ty)                                   (* a member of the base algebra (may be TOpt) *)
| MStr (etags : list Z) (opt : bool) (l : strty).  (* a string member under EXPLICIT tags, OPTIONAL or not *)

Inductive sty :=
| SStr (etags : list Z) (l : strty)
| SSeq (tg : Z) (ms : list smem)
| SSeqOf (tg : Z) (s : scon) (etags : list Z) (l : strty).

Definition s_tg (l : strty) : Z := match l with Str tg _ _ _ => tg end.
Definition s_k (l : strty) : strk := match l with Str _ k _ _ => k end.
Definition s_sz (l : strty) : option scon := match l with Str _ _ sz _ => sz end.
Definition s_fr (l : strty) : option alphabet := match l with Str _ _ _ fr => fr end.

(* octets per character (specs->subvariant: ASN_OSUBV_STR / U16 / U32) *)
Definition bpc (k : strk) : nat := match k with KBMP => 2%nat | KUniversal => 4%nat | _ => 1%nat end.
Definition known_mult (k : strk) : bool := match k with KUTF8 | KOther => false | _ => true end.

(* libasn1fix/asn1fix_constraint_compat.c: asn1constraint_default_alphabet *)
Definition default_alpha (k : strk) : alphabet :=
  match k with
  | KIA5 => [(0, 127)]
  | KVisible => [(32, 126)]
  | KPrintable => [(32, 32); (39, 41); (43, 58); (61, 61); (63, 63); (65, 90); (97, 122)]
  | KNumeric => [(32, 32); (48, 57)]
  | KBMP => [(0, 65533)]
  | KUniversal => [(0, 4294967295)]
  | KUTF8 | KOther => [(0, 255)]
  end.

Definition eff_alpha (l : strty) : alphabet :=
  match s_fr l with Some a => a | None => default_alpha (s_k l) end.

Definition has_ct (l : strty) : bool :=
  match s_sz l, s_fr l with None, None => false | _, _ => true end.

Definition size_con (l : strty) : scon :=
  match s_sz l with Some s => s | None => SCon 0 None false end.

(* number of characters of an alphabet (PER_FROM_alphabet_characters) *)
Fixpoint card (a : alphabet) : Z :=
  match a with [] => 0 | r :: tl => (snd r - fst r + 1) + card tl end.

(* ------------------------------------------------------------------ octets <-> characters *)

Fixpoint chunk2 (bs : list Z) : option (list (list Z)) :=
  match bs with
  | [] => Some []
  | a :: b :: r => match chunk2 r with Some x => Some ([a; b] :: x) | None => None end
  | _ => None
  end.

Fixpoint chunk4 (bs : list Z) : option (list (list Z)) :=
  match bs with
  | [] => Some []
  | a :: b :: c :: d :: r => match chunk4 r with Some x => Some ([a; b; c; d] :: x) | None => None end
  | _ => None
  end.

(* the characters of a value as groups of bpc octets; None: size not a multiple of bpc
   ("string size is not modulo 2 / 4": the UPER encoder fails) *)
Definition chunks (k : strk) (bs : list Z) : option (list (list Z)) :=
  match k with
  | KBMP => chunk2 bs
  | KUniversal => chunk4 bs
  | _ => Some (map (fun b => [b]) bs)
  end.

(* the octets of a list of character values *)
Definition octets_of (k : strk) (us : list Z) : list Z := flat_map (be_bytes (bpc k)) us.

(* ------------------------------------------------------------------ PER-visible value constraint *)

(* asn_per_constraint_t value: range_bits, lower_bound, upper_bound, and the character map
   (value2code / code2value: index in the canonical alphabet) when there is one *)
Inductive pcv := Pcv (rb : nat) (lb ub : Z) (pmap : option alphabet).

Definition tablek (k : strk) : Alphabet.skind :=
  match k with KBMP => K2 | KUniversal => K4 | _ => K1 end.

(* emit_member_PER_constraints, ASN_STRING_KM_MASK branch; the map exists only when the
   constraint checker emitted a table (asn1c_emit_constraint_tables: combined_constraints
   present, more than one interval, last character <= 255) *)
Definition pc_c (l : strty) : pcv :=
  match s_k l, s_fr l with
  | KUniversal, None => Pcv 32 0 2147483647 None            (* "special case 1" *)
  | _, _ =>
      let a := eff_alpha l in
      Pcv (range_bits (card a)) (alpha_start a) (alpha_stop a)
          (if has_ct l && use_table (tablek (s_k l)) a then Some a else None)
  end.

(* X.691 30.5: b = ceil(log2 N); index in canonical order unless the largest value fits in b bits *)
Definition pc_std (l : strty) : pcv :=
  let a := eff_alpha l in
  Pcv (range_bits (card a)) (alpha_start a) (alpha_stop a) (Some a).

(* value2code: index of the character in the canonical alphabet / code2value: its inverse
   (permitted_alphabet_table_N[v] - 1, permitted_alphabet_code2value_N[code]) *)
Fixpoint idx_of (a : alphabet) (v : Z) : option Z :=
  match a with
  | [] => None
  | r :: tl =>
      if (fst r <=? v) && (v <=? snd r) then Some (v - fst r)
      else match idx_of tl v with Some i => Some (snd r - fst r + 1 + i) | None => None end
  end.

Fixpoint val_of (a : alphabet) (i : Z) : option Z :=
  match a with
  | [] => None
  | r :: tl =>
      if i <? 0 then None
      else if i <? snd r - fst r + 1 then Some (fst r + i)
      else val_of tl (i - (snd r - fst r + 1))
  end.

(* "X.691: 27.5.4" test of OCTET_STRING_per_put/get_characters: the value as it is *)
Definition as_is (w : nat) (ub : Z) : bool := (0 <? Z.of_nat w) && (ub <? 2 ^ Z.of_nat w).

(* one character (value v) in w bits; cub = 8 * bpc.  OCTET_STRING_per_put_characters *)
Definition put_char (cub w : nat) (p : pcv) (v : Z) : option (list bool) :=
  match p with
  | Pcv _ lb ub pmap =>
      if as_is w ub then
        if (w =? cub)%nat then Some (nbits w v)                       (* per_put_many_bits *)
        else if (0 <=? v) && (v <=? ub) then Some (nbits w v) else None
      else
        match pmap with
        | Some a =>
            match (if v <? 256 then idx_of a v else None) with
            | Some code => Some (nbits w code)
            | None => None
            end
        | None =>
            if (lb =? 0) && (w =? cub)%nat then Some (nbits w v)
            else
              let ch := v - lb in
              if (0 <=? ch) && (ch <=? ub - lb) then Some (nbits w ch) else None
        end
  end.

(* OCTET_STRING_per_get_characters *)
Definition get_char (cub w : nat) (p : pcv) (bits : list bool) : option (Z * list bool) :=
  match p with
  | Pcv _ lb ub pmap =>
      if as_is w ub then
        match get_bits w bits with
        | Some (c, r) => if (w =? cub)%nat then Some (c, r) else if c <=? ub then Some (c, r) else None
        | None => None
        end
      else
        match pmap with
        | Some a =>
            if (16 <? w)%nat then None
            else match get_bits w bits with
                 | Some (code, r) => match val_of a code with Some v => Some (v, r) | None => None end
                 | None => None
                 end
        | None =>
            match get_bits w bits with
            | Some (code, r) =>
                if (lb =? 0) && (w =? cub)%nat then Some (code, r)
                else if code + lb <=? ub then Some (code + lb, r) else None
            | None => None
            end
        end
  end.

Definition cub_of (k : strk) : nat := (8 * bpc k)%nat.

(* ------------------------------------------------------------------ unaligned PER, the leaf *)

Section Std.
  Variable std : bool.

  (* constraint and width for a size inside the root / outside the root of an extensible SIZE *)
  Definition pc_root (l : strty) : pcv := if std then pc_std l else pc_c l.
  Definition w_root (l : strty) : nat := match pc_root l with Pcv rb _ _ _ => rb end.
  Definition pc_ext (l : strty) : pcv :=
    if std then pc_std (Str (s_tg l) (s_k l) None None) else pc_c l.
  Definition w_ext (l : strty) : nat :=
    if std then (match pc_ext l with Pcv rb _ _ _ => rb end) else cub_of (s_k l).

  Definition put_chars (l : strty) (ext : bool) (cs : list (list Z)) : option (list (list bool)) :=
    option_all (map (fun c => put_char (cub_of (s_k l)) (if ext then w_ext l else w_root l)
                                       (if ext then pc_ext l else pc_root l) (be_val c)) cs).

  Definition get_chunk (l : strty) (ext : bool) (bits : list bool) : option (list Z * list bool) :=
    match get_char (cub_of (s_k l)) (if ext then w_ext l else w_root l)
                   (if ext then pc_ext l else pc_root l) bits with
    | Some (v, r) => Some (be_bytes (bpc (s_k l)) v, r)
    | None => None
    end.

  (* OCTET_STRING_encode_uper on the characters of the value *)
  Definition uper_km (l : strty) (cs : list (list Z)) : option (list bool) :=
    match size_con l with
    | SCon lo hi ext =>
        let n := zlen cs in
        let eb := match hi with Some h => h <? 65536 | None => false end in    (* effective_bits >= 0 *)
        let inroot := in_scon (SCon lo hi ext) n in
        if eb then
          if inroot then
            match hi, put_chars l false cs with
            | Some h, Some items =>
                Some ((if ext then [false] else []) ++ nbits (range_bits (h - lo + 1)) (n - lo) ++ concat items)
            | _, _ => None
            end
          else if ext then
            match put_chars l true cs with
            | Some items => Some (true :: counted items)
            | None => None
            end
          else None
        else if std && ext && negb inroot then
          match put_chars l true cs with
          | Some items => Some (true :: counted items)
          | None => None
          end
        else
          match put_chars l false cs with
          | Some items => Some ((if ext then [false] else []) ++ counted items)
          | None => None
          end
    end.

  Definition uper_km_dec (l : strty) (bits : list bool) : option (list (list Z) * list bool) :=
    match size_con l with
    | SCon lo hi ext =>
        let eb := match hi with Some h => h <? 65536 | None => false end in
        let root (r : list bool) :=
          if eb then
            match hi with
            | Some h =>
                match get_bits (range_bits (h - lo + 1)) r with
                | Some (n, r') => get_items (get_chunk l false) (Z.to_nat (n + lo)) r'
                | None => None
                end
            | None => None
            end
          else get_counted (get_chunk l false) (S (length r)) r in
        if ext then
          match bits with
          | false :: r => root r
          | true :: r => get_counted (get_chunk l true) (S (length r)) r
          | [] => None
          end
        else root bits
    end.

  (* a string leaf: known-multiplier types as above; the others are an OCTET STRING
     without PER-visible constraints (length in octets, octets) *)
  Definition uper_leaf (l : strty) (bs : list Z) : option (list bool) :=
    if known_mult (s_k l) then
      match chunks (s_k l) bs with
      | Some cs => uper_km l cs
      | None => None
      end
    else sized (SCon 0 None false) (map byte_bits bs).

  Definition uper_leaf_dec (l : strty) (bits : list bool) : option (list Z * list bool) :=
    if known_mult (s_k l) then
      match uper_km_dec l bits with
      | Some (cs, r) => Some (concat cs, r)
      | None => None
      end
    else get_sized get_octet (SCon 0 None false) bits.

  Definition uper_lv (l : strty) (v : val) : option (list bool) :=
    match v with VOct bs => uper_leaf l bs | _ => None end.

  Definition uper_lv_dec (l : strty) (bits : list bool) : option (val * list bool) :=
    match uper_leaf_dec l bits with
    | Some (bs, r) => Some (VOct bs, r)
    | None => None
    end.

  (* ---------------- SEQUENCE members ---------------- *)

  Definition m_opt (m : smem) : bool :=
    match m with MBase t => is_opt t | MStr _ o _ => o end.

  Fixpoint s_presence (ms : list smem) (vs : list val) : list bool :=
    match ms, vs with
    | m :: ms', v :: vs' =>
        (if m_opt m then [match v with VNone => false | _ => true end] else []) ++ s_presence ms' vs'
    | _, _ => []
    end.

  Definition enc_mem (m : smem) (v : val) : option (list bool) :=
    match m with
    | MBase t => uper std t v
    | MStr _ false l => uper_lv l v
    | MStr _ true l =>
        match v with
        | VNone => Some []
        | VSome v' => uper_lv l v'
        | _ => None
        end
    end.

  Fixpoint enc_mems (ms : list smem) (vs : list val) : option (list bool) :=
    match ms, vs with
    | [], [] => Some []
    | m :: ms', v :: vs' =>
        match enc_mem m v, enc_mems ms' vs' with
        | Some a, Some b => Some (a ++ b)
        | _, _ => None
        end
    | _, _ => None
    end.

  (* the decoder of a member whose presence is known *)
  Definition dec_mem (m : smem) (bits : list bool) : option (val * list bool) :=
    match m with
    | MBase (TOpt t') =>
        match uper_dec std t' bits with Some (v, r) => Some (VSome v, r) | None => None end
    | MBase t => uper_dec std t bits
    | MStr _ false l => uper_lv_dec l bits
    | MStr _ true l =>
        match uper_lv_dec l bits with Some (v, r) => Some (VSome v, r) | None => None end
    end.

  Fixpoint dec_mems (ms : list smem) (pres : list bool) (bits : list bool) : option (list val * list bool) :=
    match ms with
    | [] => Some ([], bits)
    | m :: ms' =>
        if m_opt m then
          match pres with
          | true :: pres' =>
              match dec_mem m bits with
              | Some (v, r) =>
                  match dec_mems ms' pres' r with
                  | Some (vs, r') => Some (v :: vs, r')
                  | None => None
                  end
              | None => None
              end
          | false :: pres' =>
              match dec_mems ms' pres' bits with
              | Some (vs, r') => Some (VNone :: vs, r')
              | None => None
              end
          | [] => None
          end
        else
          match dec_mem m bits with
          | Some (v, r) =>
              match dec_mems ms' pres r with
              | Some (vs, r') => Some (v :: vs, r')
              | None => None
              end
          | None => None
          end
    end.

  (* ---------------- the three shapes ---------------- *)

  Definition pb_uper (t : sty) (v : val) : option (list bool) :=
    match t, v with
    | SStr _ l, _ => uper_lv l v
    | SSeq _ ms, VSeq vs =>
        match enc_mems ms vs with
        | Some body => Some (s_presence ms vs ++ body)
        | None => None
        end
    | SSeqOf _ s _ l, VList vs =>
        match option_all (map (uper_lv l) vs) with
        | Some es => sized s es
        | None => None
        end
    | _, _ => None
    end.

  Definition pb_uper_dec (t : sty) (bits : list bool) : option (val * list bool) :=
    match t with
    | SStr _ l => uper_lv_dec l bits
    | SSeq _ ms =>
        match take_bits (length (filter m_opt ms)) bits with
        | Some (pres, r0) =>
            match dec_mems ms pres r0 with
            | Some (vs, r) => Some (VSeq vs, r)
            | None => None
            end
        | None => None
        end
    | SSeqOf _ s _ l =>
        match get_sized (uper_lv_dec l) s bits with
        | Some (vs, r) => Some (VList vs, r)
        | None => None
        end
    end.
End Std.

(* complete encodings (uper_encode / uper_decode of the base model) *)
Definition pb_uper_encode (std : bool) (t : sty) (v : val) : option (list Z) :=
  match pb_uper std t v with
  | Some [] => Some [0]
  | Some bits => Some (bits_to_bytes bits)
  | None => None
  end.

Definition pb_uper_decode (std : bool) (t : sty) (bytes : list Z) : option (val * Z) :=
  match pb_uper_dec std t (bytes_bits bytes) with
  | Some (v, rest) =>
      let used := zlen (bytes_bits bytes) - zlen rest in
      Some (v, Z.max 1 ((used + 7) / 8))
  | None => None
  end.

(* ------------------------------------------------------------------ DER / BER and OER by translation *)

Definition tagged (etags : list Z) (t : ty) : ty := fold_right TTag t etags.

Definition no_size : scon := SCon 0 None false.

(* X.690 8.23: the string types are encoded as OCTET STRING with their own tag *)
Definition der_leaf (l : strty) : ty := TOct (s_tg l) no_size.

(* OCTET_STRING_oer.c with the asn_oer_constraints_t asn1c emits: a fixed, non-extensible
   SIZE(n) of a known-multiplier type is n * bpc octets without length determinant *)
Definition oer_leaf (l : strty) : ty :=
  TOct (s_tg l)
    (if known_mult (s_k l) then
       match s_sz l with
       | Some (SCon lo (Some hi) false) =>
           if lo =? hi then SCon (lo * Z.of_nat (bpc (s_k l))) (Some (lo * Z.of_nat (bpc (s_k l)))) false else no_size
       | _ => no_size
       end
     else no_size).

Section Tr.
  Variable leaf : strty -> ty.
  Definition mem_ty (m : smem) : ty :=
    match m with
    | MBase t => t
    | MStr e o l => if o then TOpt (tagged e (leaf l)) else tagged e (leaf l)
    end.
  Definition tr_ty (t : sty) : ty :=
    match t with
    | SStr e l => tagged e (leaf l)
    | SSeq tg ms => TSeq tg (map mem_ty ms)
    | SSeqOf tg s e l => TSeqOf tg s (tagged e (leaf l))
    end.
End Tr.

Definition der_ty : sty -> ty := tr_ty der_leaf.
Definition oer_ty : sty -> ty := tr_ty oer_leaf.

Definition pb_der (t : sty) (v : val) : option (list Z) := der (der_ty t) v.
Definition pb_ber_dec (t : sty) (bs : list Z) : option (val * list Z) := ber_dec (der_ty t) bs.
Definition pb_ber_decode (t : sty) (bs : list Z) : option (val * Z) := ber_decode (der_ty t) bs.
Definition pb_oer (t : sty) (v : val) : option (list Z) := oer (oer_ty t) v.
Definition pb_oer_dec (t : sty) (bs : list Z) : option (val * list Z) := oer_dec (oer_ty t) bs.
Definition pb_oer_decode (t : sty) (bs : list Z) : option (val * Z) := oer_decode (oer_ty t) bs.

(* ------------------------------------------------------------------ Spec: the standards' wording,
   on the list of character values [us] of a string of kind k *)

(* X.690 8.23.5 / 8.23.7 / 8.23.8: the contents octets are the characters, one octet each,
   BMPString 2 and UniversalString 4 octets each, most significant octet first; primitive, definite
   length (DER 10.2) *)
Definition spec_der_str (tg : Z) (k : strk) (us : list Z) : list Z :=
  let content := flat_map (be_bytes (bpc k)) us in
  tag_bytes tg false ++ len_serialize (zlen content) ++ content.

(* X.696 27: known-multiplier strings with a fixed size: the characters only; otherwise a length
   determinant (in octets) and the characters *)
Definition spec_oer_str (l : strty) (us : list Z) : list Z :=
  let content := flat_map (be_bytes (bpc (s_k l))) us in
  let fixed := known_mult (s_k l) &&
               match s_sz l with
               | Some (SCon lo (Some hi) false) => lo =? hi
               | _ => false
               end in
  if fixed then content else oer_length (zlen content) ++ content.

(* X.691 30.5.2-4: bits per character and the number that represents a character *)
Definition spec_bits (a : alphabet) : nat := Z.to_nat (Z.log2_up (card a)).
Definition spec_code (a : alphabet) (v : Z) : option Z :=
  if alpha_stop a <? 2 ^ Z.of_nat (spec_bits a) then (if in_alpha a v then Some v else None)
  else idx_of a v.

Definition spec_chars (a : alphabet) (us : list Z) : option (list (list bool)) :=
  option_all (map (fun v => match spec_code a v with Some c => Some (nbits (spec_bits a) c) | None => None end) us).

(* X.691 30.4 - 30.5.7 (11.9 for the length): known-multiplier strings *)
Definition spec_uper_km (l : strty) (us : list Z) : option (list bool) :=
  match size_con l with
  | SCon lo hi ext =>
      let n := zlen us in
      let inroot := in_scon (SCon lo hi ext) n in
      if inroot then
        match spec_chars (eff_alpha l) us with
        | Some items =>
            Some ((if ext then [false] else []) ++
                  match hi with
                  | Some h => if h <? 65536 then nbits (range_bits (h - lo + 1)) (n - lo) ++ concat items
                              else counted items
                  | None => counted items
                  end)
        | None => None
        end
      else if ext then
        match spec_chars (default_alpha (s_k l)) us with
        | Some items => Some (true :: counted items)
        | None => None
        end
      else None
  end.
