(* Rt/TagMapProofs.v — the lookup of the BER decoders in the sorted tag-to-member map
   (Rt/TagMap.v) does not depend on which of the equal entries bsearch() returns.

   Main statements (all unbounded):
   - bsearch_sound / bsearch_complete: the loop of bsearch() returns an index whose entry
     the comparison function accepts, and returns one whenever there is one, provided the
     table is ordered the way the comparison function sees it (mono);
   - seq_cmp_mono / tag_only_cmp_mono: a table sorted by class, number and member index
     (sortedb) is ordered for _t2e_cmp with every key (tag, edx) and for _search4tag;
   - seq_pick_any_probe: in a well-formed table (wf_mapb: what asn1c emits; the check
     evaluates it on every generated table) the member chosen after the rewind is the same
     for EVERY entry bsearch() may have returned, namely [spec_pick];
   - seq_pick_first: it is the first member at or after [edx] that carries the tag, when that
     member may come next (X.680 allows one such member in the window at most);
   - seq_find_correct: the whole search of SEQUENCE_decode_ber (linear part over at most 8
     members, then the map) finds that member;
   - tag_find_correct: SET / CHOICE;
   - norewind_refuted: the scan that starts at the probed entry (no rewind, no el_no < edx
     test) gives another answer on the table of seeded/C03-4. *)
From Coq Require Import ZArith List Bool Arith Lia ZifyBool Sorting.Sorted.
From A1 Require Import Rt.TagMap.
Import ListNotations.
Local Open Scope Z_scope.

(* ---------------- the order of tags ---------------- *)

Definition tlt (a b : Z) : Prop := a mod 4 < b mod 4 \/ (a mod 4 = b mod 4 /\ a / 4 < b / 4).

Lemma tag_cmp_spec a b :
  match tag_cmp a b with Lt => tlt a b | Eq => a = b | Gt => tlt b a end.
Proof.
  unfold tag_cmp, tlt.
  destruct (Z.compare_spec (a mod 4) (b mod 4)) as [H|H|H].
  - destruct (Z.compare_spec (a / 4) (b / 4)) as [H2|H2|H2].
    + pose proof (Z.div_mod a 4 ltac:(lia)). pose proof (Z.div_mod b 4 ltac:(lia)). lia.
    + right. lia.
    + right. lia.
  - left. lia.
  - left. lia.
Qed.

Lemma tlt_irrefl a : ~ tlt a a.
Proof. unfold tlt. lia. Qed.

Lemma tlt_trans a b c : tlt a b -> tlt b c -> tlt a c.
Proof. unfold tlt. lia. Qed.

Lemma tlt_asym a b : tlt a b -> ~ tlt b a.
Proof. unfold tlt. lia. Qed.

Lemma tag_cmp_Eq a b : tag_cmp a b = Eq <-> a = b.
Proof.
  pose proof (tag_cmp_spec a b) as H. split.
  - intros E. rewrite E in H. exact H.
  - intros ->. revert H. destruct (tag_cmp b b); intros H; [reflexivity| |]; exfalso; exact (tlt_irrefl b H).
Qed.

Lemma tag_cmp_Lt a b : tag_cmp a b = Lt <-> tlt a b.
Proof.
  pose proof (tag_cmp_spec a b) as H. split.
  - intros E. rewrite E in H. exact H.
  - intros L. revert H. destruct (tag_cmp a b); intros H; [|reflexivity|].
    + subst b. exfalso. exact (tlt_irrefl a L).
    + exfalso. exact (tlt_asym a b L H).
Qed.

Lemma tag_cmp_Gt a b : tag_cmp a b = Gt <-> tlt b a.
Proof.
  pose proof (tag_cmp_spec a b) as H. split.
  - intros E. rewrite E in H. exact H.
  - intros L. revert H. destruct (tag_cmp a b); intros H; [| |reflexivity].
    + subst b. exfalso. exact (tlt_irrefl a L).
    + exfalso. exact (tlt_asym a b H L).
Qed.

Lemma same_tag_iff a b : same_tag a b = true <-> el_tag a = el_tag b.
Proof.
  unfold same_tag. destruct (tag_cmp (el_tag a) (el_tag b)) eqn:E.
  - apply tag_cmp_Eq in E. split; auto.
  - split; [discriminate|]. intros H. apply tag_cmp_Eq in H. congruence.
  - split; [discriminate|]. intros H. apply tag_cmp_Eq in H. congruence.
Qed.

(* ---------------- the comparison functions ---------------- *)

Lemma seq_cmp_Lt tag edx e : seq_cmp tag edx e = Lt <-> tlt tag (el_tag e).
Proof.
  unfold seq_cmp. destruct (tag_cmp tag (el_tag e)) eqn:E.
  - apply tag_cmp_Eq in E. rewrite <- E. split.
    + destruct (el_no e <? edx)%nat; discriminate.
    + intros H. exfalso. exact (tlt_irrefl tag H).
  - apply tag_cmp_Lt in E. split; auto.
  - apply tag_cmp_Gt in E. split; [discriminate|]. intros H. exfalso. exact (tlt_asym _ _ H E).
Qed.

Lemma seq_cmp_Eq tag edx e : seq_cmp tag edx e = Eq <-> tag = el_tag e /\ (edx <= el_no e)%nat.
Proof.
  unfold seq_cmp. destruct (tag_cmp tag (el_tag e)) eqn:E.
  - apply tag_cmp_Eq in E. destruct (el_no e <? edx)%nat eqn:E2.
    + split; [discriminate|]. intros [_ H]. apply Nat.ltb_lt in E2. lia.
    + apply Nat.ltb_ge in E2. split; auto.
  - apply tag_cmp_Lt in E. split; [discriminate|]. intros [-> _]. exfalso. exact (tlt_irrefl _ E).
  - apply tag_cmp_Gt in E. split; [discriminate|]. intros [-> _]. exfalso. exact (tlt_irrefl _ E).
Qed.

Lemma seq_cmp_Gt tag edx e :
  seq_cmp tag edx e = Gt <-> tlt (el_tag e) tag \/ (tag = el_tag e /\ (el_no e < edx)%nat).
Proof.
  unfold seq_cmp. destruct (tag_cmp tag (el_tag e)) eqn:E.
  - apply tag_cmp_Eq in E. destruct (el_no e <? edx)%nat eqn:E2.
    + apply Nat.ltb_lt in E2. split; auto.
    + apply Nat.ltb_ge in E2. split; [discriminate|]. intros [H|[_ H]]; [|lia].
      rewrite E in H. exfalso. exact (tlt_irrefl _ H).
  - apply tag_cmp_Lt in E. split; [discriminate|]. intros [H|[-> _]].
    + exfalso. exact (tlt_asym _ _ E H).
    + exfalso. exact (tlt_irrefl _ E).
  - apply tag_cmp_Gt in E. split; auto.
Qed.

(* ---------------- sorted tables ---------------- *)

Definition le2 (a b : t2m) : Prop :=
  tlt (el_tag a) (el_tag b) \/ (el_tag a = el_tag b /\ (el_no a <= el_no b)%nat).

Lemma le2_trans a b c : le2 a b -> le2 b c -> le2 a c.
Proof.
  unfold le2. intros [H1|[H1 H1']] [H2|[H2 H2']].
  - left. eapply tlt_trans; eauto.
  - left. rewrite <- H2. exact H1.
  - left. rewrite H1. exact H2.
  - right. split; [congruence|lia].
Qed.

Lemma sortedb_cons a b tl : sortedb (a :: b :: tl) = true -> le2 a b /\ sortedb (b :: tl) = true.
Proof.
  intros H. change (sortedb (a :: b :: tl)) with
    ((match tag_cmp (el_tag a) (el_tag b) with
      | Lt => true | Eq => (el_no a <=? el_no b)%nat | Gt => false end) && sortedb (b :: tl)) in H.
  apply andb_true_iff in H. destruct H as [H1 H2]. split; [|exact H2].
  unfold le2. destruct (tag_cmp (el_tag a) (el_tag b)) eqn:E.
  - apply tag_cmp_Eq in E. right. split; [exact E|]. apply Nat.leb_le. exact H1.
  - apply tag_cmp_Lt in E. left. exact E.
  - discriminate.
Qed.

Lemma sortedb_strong m : sortedb m = true -> StronglySorted le2 m.
Proof.
  induction m as [|a tl IH]; intros H; [constructor|].
  destruct tl as [|b tl'].
  - constructor; constructor.
  - destruct (sortedb_cons a b tl' H) as [Hab Hs].
    specialize (IH Hs). constructor; [exact IH|].
    constructor; [exact Hab|].
    inversion IH as [|? ? _ Hall]; subst.
    eapply Forall_impl; [|exact Hall]. intros c Hc. exact (le2_trans a b c Hab Hc).
Qed.

Lemma strong_nth (R : t2m -> t2m -> Prop) m : StronglySorted R m ->
  forall i j a b, (i < j)%nat -> nth_error m i = Some a -> nth_error m j = Some b -> R a b.
Proof.
  induction 1 as [|x tl Hs IH Hall]; intros i j a b Hij Ha Hb.
  - destruct i; discriminate.
  - destruct j as [|j']; [lia|]. cbn [nth_error] in Hb.
    destruct i as [|i'].
    + cbn [nth_error] in Ha. injection Ha as <-.
      rewrite Forall_forall in Hall. apply Hall. eapply nth_error_In; eauto.
    + cbn [nth_error] in Ha. apply (IH i' j' a b); [lia|exact Ha|exact Hb].
Qed.

Lemma strong_filter (R : t2m -> t2m -> Prop) (P : t2m -> bool) m :
  StronglySorted R m -> StronglySorted R (filter P m).
Proof.
  induction 1 as [|x tl Hs IH Hall]; cbn [filter]; [constructor|].
  destruct (P x); [|exact IH].
  constructor; [exact IH|].
  rewrite Forall_forall in *. intros y Hy. apply filter_In in Hy. apply Hall. tauto.
Qed.

(* the table as the comparison function sees it: Gt ... Gt Eq ... Eq Lt ... Lt *)
Definition mono (cmp : t2m -> comparison) (m : list t2m) : Prop :=
  forall i j a b, (i < j)%nat -> nth_error m i = Some a -> nth_error m j = Some b ->
    (cmp a = Lt -> cmp b = Lt) /\ (cmp b = Gt -> cmp a = Gt).

Lemma seq_cmp_mono tag edx m : sortedb m = true -> mono (seq_cmp tag edx) m.
Proof.
  intros Hs i j a b Hij Ha Hb.
  pose proof (strong_nth le2 m (sortedb_strong m Hs) i j a b Hij Ha Hb) as Hle.
  split.
  - intros H. apply seq_cmp_Lt in H. apply seq_cmp_Lt.
    destruct Hle as [H1|[H1 _]]; [eapply tlt_trans; eauto|rewrite <- H1; exact H].
  - intros H. apply seq_cmp_Gt in H. apply seq_cmp_Gt.
    destruct H as [H|[H H']].
    + left. destruct Hle as [H1|[H1 _]]; [eapply tlt_trans; eauto|rewrite H1; exact H].
    + destruct Hle as [H1|[H1 H1']].
      * left. rewrite H. exact H1.
      * right. split; [congruence|lia].
Qed.

Lemma tag_only_cmp_mono tag m : sortedb m = true -> mono (tag_only_cmp tag) m.
Proof.
  intros Hs i j a b Hij Ha Hb.
  pose proof (strong_nth le2 m (sortedb_strong m Hs) i j a b Hij Ha Hb) as Hle.
  unfold tag_only_cmp. split.
  - intros H. apply tag_cmp_Lt in H. apply tag_cmp_Lt.
    destruct Hle as [H1|[H1 _]]; [eapply tlt_trans; eauto|rewrite <- H1; exact H].
  - intros H. apply tag_cmp_Gt in H. apply tag_cmp_Gt.
    destruct Hle as [H1|[H1 _]]; [eapply tlt_trans; eauto|rewrite H1; exact H].
Qed.

(* ---------------- bsearch ---------------- *)

Lemma bsearch_loop_sound cmp m : forall fuel lo hi p,
  bsearch_loop fuel cmp m lo hi = Some p ->
  exists e, nth_error m p = Some e /\ cmp e = Eq.
Proof.
  induction fuel as [|f IH]; intros lo hi p H; [discriminate|].
  cbn [bsearch_loop] in H.
  destruct (lo <? hi)%nat; [|discriminate].
  destruct (nth_error m ((lo + hi) / 2)) as [e|] eqn:En; [|discriminate].
  destruct (cmp e) eqn:Ec.
  - injection H as <-. exists e. auto.
  - eapply IH; eauto.
  - eapply IH; eauto.
Qed.

Theorem bsearch_sound cmp m p : bsearch cmp m = Some p ->
  exists e, nth_error m p = Some e /\ cmp e = Eq.
Proof. apply bsearch_loop_sound. Qed.

Lemma half_between lo hi : (lo < hi)%nat -> (lo <= (lo + hi) / 2 < hi)%nat.
Proof.
  intros H. pose proof (Nat.div_mod (lo + hi) 2 ltac:(lia)) as Hd.
  pose proof (Nat.mod_upper_bound (lo + hi) 2 ltac:(lia)) as Hm. lia.
Qed.

Lemma bsearch_loop_complete cmp m : mono cmp m -> forall fuel lo hi,
  (hi <= length m)%nat -> (hi - lo < fuel)%nat ->
  (exists i e, (lo <= i < hi)%nat /\ nth_error m i = Some e /\ cmp e = Eq) ->
  exists p, bsearch_loop fuel cmp m lo hi = Some p.
Proof.
  intros Hmono. induction fuel as [|f IH]; intros lo hi Hhi Hf (i & e & Hi & Hn & He); [lia|].
  cbn [bsearch_loop].
  assert (Hlt : (lo < hi)%nat) by lia.
  destruct (lo <? hi)%nat eqn:E; [|apply Nat.ltb_ge in E; lia].
  pose proof (half_between lo hi Hlt) as Hmid.
  set (mid := ((lo + hi) / 2)%nat) in *.
  destruct (nth_error m mid) as [x|] eqn:Ex.
  2:{ apply nth_error_None in Ex. lia. }
  destruct (cmp x) eqn:Ec.
  - eauto.
  - (* key < entry mid: the accepted entries are to the left *)
    apply IH; [lia|lia|].
    exists i, e. split; [|auto].
    destruct (Nat.lt_trichotomy i mid) as [H|[H|H]]; [lia| |].
    + subst i. rewrite Ex in Hn. injection Hn as <-. congruence.
    + destruct (Hmono mid i x e H Ex Hn) as [H1 _]. specialize (H1 Ec). congruence.
  - apply IH; [lia|lia|].
    exists i, e. split; [|auto].
    destruct (Nat.lt_trichotomy i mid) as [H|[H|H]]; [| |lia].
    + destruct (Hmono i mid e x H Hn Ex) as [_ H2]. specialize (H2 Ec). congruence.
    + subst i. rewrite Ex in Hn. injection Hn as <-. congruence.
Qed.

Theorem bsearch_complete cmp m : mono cmp m ->
  (exists i e, nth_error m i = Some e /\ cmp e = Eq) ->
  exists p, bsearch cmp m = Some p.
Proof.
  intros Hmono (i & e & Hn & He). unfold bsearch.
  apply bsearch_loop_complete; [exact Hmono|lia|lia|].
  exists i, e. split; [|auto].
  assert (i < length m)%nat by (apply nth_error_Some; congruence). lia.
Qed.

(* ---------------- the group of entries with one tag ---------------- *)

Lemma filter_all (P : t2m -> bool) l : forallb P l = true -> filter P l = l.
Proof.
  induction l as [|x tl IH]; intros H; [reflexivity|].
  cbn [forallb] in H. apply andb_true_iff in H. destruct H as [H1 H2].
  cbn [filter]. rewrite H1, IH by exact H2. reflexivity.
Qed.

(* a segment made of entries that satisfy P, as long as the list of all entries that do, IS that list *)
Lemma segment_is_filter (P : t2m -> bool) m a n :
  forallb P (firstn n (skipn a m)) = true ->
  length (filter P m) = length (firstn n (skipn a m)) ->
  filter P m = firstn n (skipn a m).
Proof.
  intros Hall Hlen.
  rewrite <- (firstn_skipn a m) at 1. rewrite <- (firstn_skipn a m) in Hlen at 1.
  rewrite <- (firstn_skipn n (skipn a m)) at 1. rewrite <- (firstn_skipn n (skipn a m)) in Hlen at 1.
  rewrite !filter_app in *. rewrite (filter_all P _ Hall) in *.
  rewrite !app_length in Hlen.
  assert (H1 : filter P (firstn a m) = []) by (apply length_zero_iff_nil; lia).
  assert (H2 : filter P (skipn n (skipn a m)) = []) by (apply length_zero_iff_nil; lia).
  rewrite H1, H2. rewrite app_nil_r. reflexivity.
Qed.

Lemma offsets_all_nth m : forall rest p0 i e,
  offsets_allb m p0 rest = true -> nth_error rest i = Some e -> offsets_okb m (p0 + i) e = true.
Proof.
  induction rest as [|x tl IH]; intros p0 i e H Hn; [destruct i; discriminate|].
  cbn [offsets_allb] in H. apply andb_true_iff in H. destruct H as [H1 H2].
  destruct i as [|i'].
  - cbn [nth_error] in Hn. injection Hn as <-. rewrite Nat.add_0_r. exact H1.
  - cbn [nth_error] in Hn. replace (p0 + S i')%nat with (S p0 + i')%nat by lia. eapply IH; eauto.
Qed.

Definition wf_parts m : wf_mapb m = true ->
  tags_nonneg m = true /\ sortedb m = true /\ offsets_allb m 0 m = true.
Proof.
  unfold wf_mapb. intros H. apply andb_true_iff in H. destruct H as [H H3].
  apply andb_true_iff in H. tauto.
Qed.

(* the rewind: the entries first .. last of ANY entry with a tag are all the entries with that tag *)
Theorem wf_slice m p e : wf_mapb m = true -> nth_error m p = Some e ->
  slice m (Z.of_nat p + toff_first e) (Z.of_nat p + toff_last e) = Some (filter (same_tag e) m).
Proof.
  intros Hwf Hn. destruct (wf_parts m Hwf) as (_ & _ & Hoff).
  pose proof (offsets_all_nth m m O p e Hoff Hn) as Hok. cbn [Nat.add] in Hok.
  unfold offsets_okb in Hok. cbv zeta in Hok.
  set (f := Z.of_nat p + toff_first e) in *. set (l := Z.of_nat p + toff_last e) in *.
  apply andb_true_iff in Hok. destruct Hok as [Hok Hcnt].
  apply andb_true_iff in Hok. destruct Hok as [Hok Hall].
  unfold slice.
  destruct ((0 <=? f) && (f <=? l) && (l <? Z.of_nat (length m))) eqn:Eb; [|lia].
  f_equal. symmetry. apply segment_is_filter; [exact Hall|].
  rewrite firstn_length, skipn_length. lia.
Qed.

(* ---------------- the scan ---------------- *)

Definition in_window (edx edx_max : nat) (e : t2m) : bool :=
  (edx <=? el_no e)%nat && (el_no e <=? edx_max)%nat.

Definition keep (edx edx_max : nat) (best : option nat) (e : t2m) : option nat :=
  if in_window edx edx_max e then Some (el_no e) else best.

(* on entries in increasing member order the break loses nothing *)
Lemma scan_fold es : StronglySorted (fun a b => (el_no a <= el_no b)%nat) es ->
  forall edx edx_max best, scan es edx edx_max best = fold_left (keep edx edx_max) es best.
Proof.
  induction 1 as [|e tl Hs IH Hall]; intros edx edx_max best; [reflexivity|].
  cbn [scan fold_left]. unfold keep at 2, in_window.
  destruct (edx_max <? el_no e)%nat eqn:E1.
  - apply Nat.ltb_lt in E1.
    replace ((edx <=? el_no e)%nat && (el_no e <=? edx_max)%nat) with false by lia.
    (* nothing after e is in the window either *)
    clear IH Hs. induction tl as [|x tl' IH']; [reflexivity|].
    inversion Hall as [|? ? Hx Hall']; subst.
    cbn [fold_left]. unfold keep at 2, in_window.
    replace ((edx <=? el_no x)%nat && (el_no x <=? edx_max)%nat) with false by lia.
    exact (IH' Hall').
  - apply Nat.ltb_ge in E1. destruct (el_no e <? edx)%nat eqn:E2.
    + apply Nat.ltb_lt in E2.
      replace ((edx <=? el_no e)%nat && (el_no e <=? edx_max)%nat) with false by lia.
      apply IH.
    + apply Nat.ltb_ge in E2.
      replace ((edx <=? el_no e)%nat && (el_no e <=? edx_max)%nat) with true by lia.
      apply IH.
Qed.

Lemma spec_pick_filter m tag edx edx_max : forall best,
  fold_left (fun best e =>
    if (el_tag e =? tag) && (edx <=? el_no e)%nat && (el_no e <=? edx_max)%nat then Some (el_no e) else best) m best
  = fold_left (keep edx edx_max) (filter (fun x => el_tag x =? tag) m) best.
Proof.
  induction m as [|x tl IH]; intros best; [reflexivity|].
  cbn [fold_left filter]. destruct (el_tag x =? tag) eqn:E.
  - cbn [fold_left]. unfold keep at 2, in_window. cbn [andb]. apply IH.
  - cbn [andb]. apply IH.
Qed.

Lemma filter_ext_in' (P Q : t2m -> bool) l : (forall x, In x l -> P x = Q x) -> filter P l = filter Q l.
Proof.
  induction l as [|x tl IH]; intros H; [reflexivity|].
  cbn [filter]. rewrite (H x (or_introl eq_refl)). rewrite IH; [reflexivity|].
  intros y Hy. apply H. right. exact Hy.
Qed.

Lemma group_sorted m (P : t2m -> bool) : sortedb m = true ->
  (forall x y, In x (filter P m) -> In y (filter P m) -> el_tag x = el_tag y) ->
  StronglySorted (fun a b => (el_no a <= el_no b)%nat) (filter P m).
Proof.
  intros Hs Hsame.
  pose proof (strong_filter le2 P m (sortedb_strong m Hs)) as H.
  revert Hsame. induction H as [|x tl Hst IH Hall]; intros Hsame; [constructor|].
  constructor.
  - apply IH. intros a b Ha Hb. apply Hsame; right; assumption.
  - rewrite Forall_forall in *. intros y Hy.
    destruct (Hall y Hy) as [H1|[_ H1]]; [|exact H1].
    exfalso. rewrite (Hsame x y (or_introl eq_refl) (or_intror Hy)) in H1. exact (tlt_irrefl _ H1).
Qed.

Definition of_opt (o : option nat) : pick := match o with Some k => PSome k | None => PNone end.

(* EVERY entry with the tag leads to the same member: the one the specification names *)
Theorem seq_pick_any_probe m p e tag edx edx_max :
  wf_mapb m = true -> nth_error m p = Some e -> el_tag e = tag ->
  seq_pick m p edx edx_max = of_opt (spec_pick m tag edx edx_max).
Proof.
  intros Hwf Hn Ht. unfold seq_pick. rewrite Hn. rewrite (wf_slice m p e Hwf Hn).
  destruct (wf_parts m Hwf) as (_ & Hs & _).
  assert (Hf : filter (same_tag e) m = filter (fun x => el_tag x =? tag) m).
  { apply filter_ext_in'. intros x _. destruct (same_tag e x) eqn:E.
    - apply same_tag_iff in E. lia.
    - destruct (el_tag x =? tag) eqn:E2; [|reflexivity].
      assert (E3 : same_tag e x = true) by (apply same_tag_iff; lia). congruence. }
  rewrite Hf. unfold spec_pick. rewrite spec_pick_filter.
  rewrite scan_fold; [reflexivity|].
  apply group_sorted; [exact Hs|].
  intros x y Hx Hy. apply filter_In in Hx. apply filter_In in Hy. lia.
Qed.

Corollary seq_pick_probe_independent m p q e e' edx edx_max :
  wf_mapb m = true -> nth_error m p = Some e -> nth_error m q = Some e' -> el_tag e = el_tag e' ->
  seq_pick m p edx edx_max = seq_pick m q edx edx_max.
Proof.
  intros Hwf Hp Hq Ht.
  rewrite (seq_pick_any_probe m p e (el_tag e) edx edx_max Hwf Hp eq_refl).
  rewrite (seq_pick_any_probe m q e' (el_tag e) edx edx_max Hwf Hq (eq_sym Ht)). reflexivity.
Qed.

(* ---------------- the specification names the first member that carries the tag ---------------- *)

Definition cond (tag : Z) (edx edx_max : nat) (e : t2m) : bool :=
  (el_tag e =? tag) && (edx <=? el_no e)%nat && (el_no e <=? edx_max)%nat.

Lemma fold_some_stays tag edx edx_max m : forall x,
  fold_left (fun best e => if cond tag edx edx_max e then Some (el_no e) else best) m (Some x) <> None.
Proof.
  induction m as [|y tl IH]; intros x; cbn [fold_left]; [discriminate|].
  destruct (cond tag edx edx_max y); apply IH.
Qed.

Lemma fold_hits tag edx edx_max m e : In e m -> cond tag edx edx_max e = true -> forall best,
  fold_left (fun best e => if cond tag edx edx_max e then Some (el_no e) else best) m best <> None.
Proof.
  induction m as [|y tl IH]; intros Hin Hc best; [destruct Hin|].
  cbn [fold_left]. destruct Hin as [<-|Hin].
  - rewrite Hc. apply fold_some_stays.
  - apply IH; assumption.
Qed.

Lemma fold_only tag edx edx_max k m :
  (forall x, In x m -> cond tag edx edx_max x = true -> el_no x = k) -> forall best,
  best = None \/ best = Some k ->
  let r := fold_left (fun best e => if cond tag edx edx_max e then Some (el_no e) else best) m best in
  r = None \/ r = Some k.
Proof.
  induction m as [|y tl IH]; intros H best Hb; [exact Hb|].
  cbn [fold_left]. apply IH.
  - intros x Hx. apply H. right. exact Hx.
  - destruct (cond tag edx edx_max y) eqn:E; [|exact Hb].
    right. f_equal. apply H; [left; reflexivity|exact E].
Qed.

(* member k carries the tag, may come next, and no other member of the window carries the tag
   (X.680 25.6: the tags of a run of OPTIONAL members and of the member after it are distinct) *)
Definition sole_in_window (m : list t2m) (tag : Z) (edx edx_max k : nat) : Prop :=
  (exists e, In e m /\ el_tag e = tag /\ el_no e = k) /\ (edx <= k <= edx_max)%nat /\
  (forall x, In x m -> el_tag x = tag -> (edx <= el_no x <= edx_max)%nat -> el_no x = k).

(* then k is the first member at or after edx that carries the tag *)
Lemma sole_is_first m tag edx edx_max k : sole_in_window m tag edx edx_max k ->
  forall x, In x m -> el_tag x = tag -> (edx <= el_no x)%nat -> (k <= el_no x)%nat.
Proof.
  intros (_ & Hk & Hu) x Hx Ht Hge.
  destruct (le_lt_dec (el_no x) edx_max) as [H|H]; [|lia].
  rewrite (Hu x Hx Ht ltac:(lia)). lia.
Qed.

Lemma spec_pick_sole m tag edx edx_max k : sole_in_window m tag edx edx_max k ->
  spec_pick m tag edx edx_max = Some k.
Proof.
  intros ((e & He & Ht & Hno) & Hk & Hu). unfold spec_pick.
  change (fun best e0 => if (el_tag e0 =? tag) && (edx <=? el_no e0)%nat && (el_no e0 <=? edx_max)%nat
                         then Some (el_no e0) else best)
    with (fun best e0 => if cond tag edx edx_max e0 then Some (el_no e0) else best).
  assert (Hc : cond tag edx edx_max e = true) by (unfold cond; lia).
  pose proof (fold_hits tag edx edx_max m e He Hc None) as H1.
  pose proof (fold_only tag edx edx_max k m) as H2.
  assert (Hall : forall x, In x m -> cond tag edx edx_max x = true -> el_no x = k).
  { intros x Hx Hcx. unfold cond in Hcx. apply Hu; [exact Hx|lia|lia]. }
  specialize (H2 Hall None (or_introl eq_refl)). cbv zeta in H2.
  destruct H2 as [H2|H2]; [contradiction|exact H2].
Qed.

(* whichever entry bsearch() returns for the key (tag, edx), the decoder continues with the first
   member at or after edx that carries the tag *)
Theorem seq_pick_first m tag edx edx_max k p e :
  wf_mapb m = true -> sole_in_window m tag edx edx_max k ->
  nth_error m p = Some e -> seq_cmp tag edx e = Eq ->
  seq_pick m p edx edx_max = PSome k.
Proof.
  intros Hwf Hsole Hn Hc. apply seq_cmp_Eq in Hc. destruct Hc as [Ht _].
  rewrite (seq_pick_any_probe m p e tag edx edx_max Hwf Hn (eq_sym Ht)).
  rewrite (spec_pick_sole m tag edx edx_max k Hsole). reflexivity.
Qed.

(* ---------------- the whole search of SEQUENCE_decode_ber ---------------- *)

Lemma linear_found els tag : forall c n j, linear els n c tag = LFound j ->
  (n <= j < n + c)%nat /\ exists o, nth_error els j = Some (tag, o).
Proof.
  induction c as [|c IH]; intros n j H; [discriminate|].
  cbn [linear] in H. destruct (nth_error els n) as [[t o]|] eqn:En; [|discriminate].
  destruct (t =? tag) eqn:E1.
  - injection H as <-. split; [lia|]. exists o. rewrite En. f_equal. f_equal. lia.
  - destruct (t =? -1); [discriminate|].
    destruct (IH (S n) j H) as [H1 H2]. split; [lia|exact H2].
Qed.

Lemma linear_end els tag : forall c n, linear els n c tag = LEnd ->
  forall j, (n <= j < n + c)%nat -> (j < length els)%nat ->
  exists t o, nth_error els j = Some (t, o) /\ t <> tag /\ t <> -1.
Proof.
  induction c as [|c IH]; intros n H j Hj Hlen; [lia|].
  cbn [linear] in H. destruct (nth_error els n) as [[t o]|] eqn:En.
  2:{ apply nth_error_None in En. lia. }
  destruct (t =? tag) eqn:E1; [discriminate|].
  destruct (t =? -1) eqn:E2; [discriminate|].
  destruct (Nat.eq_dec j n) as [->|Hne].
  - exists t, o. split; [exact En|]. lia.
  - apply (IH (S n) H j); lia.
Qed.

(* the member table and the map describe the same type: a member with a tag of its own has that
   tag, and only that tag, in the map (an untagged CHOICE member has the tags of its alternatives) *)
Definition els_map_ok (els : list elem) (m : list t2m) : Prop :=
  forall n t o, nth_error els n = Some (t, o) -> t <> -1 ->
    (exists x, In x m /\ el_tag x = t /\ el_no x = n) /\
    (forall x, In x m -> el_no x = n -> el_tag x = t).

Theorem seq_find_correct els m edx tag opt t0 k :
  wf_mapb m = true -> els_map_ok els m -> 0 <= tag ->
  nth_error els edx = Some (t0, opt) -> (k < length els)%nat ->
  sole_in_window m tag edx (edx + opt) k ->
  seq_find els m edx tag = Some k.
Proof.
  intros Hwf Hels Htag Hedx Hklen Hsole.
  pose proof Hsole as ((e & He & Het & Heno) & Hk & Hu).
  destruct (wf_parts m Hwf) as (_ & Hs & _).
  unfold seq_find. rewrite Hedx.
  (* the map part always finds k *)
  assert (Hmap : match bsearch (seq_cmp tag edx) m with
                 | Some p => match seq_pick m p edx (edx + opt) with PSome k0 => Some k0 | _ => None end
                 | None => None end = Some k).
  { destruct (In_nth_error m e He) as [i Hi].
    assert (Hex : exists i e, nth_error m i = Some e /\ seq_cmp tag edx e = Eq).
    { exists i, e. split; [exact Hi|]. apply seq_cmp_Eq. split; [congruence|lia]. }
    destruct (bsearch_complete _ m (seq_cmp_mono tag edx m Hs) Hex) as [p Hp].
    rewrite Hp. destruct (bsearch_sound _ m p Hp) as (x & Hx & Hcx).
    rewrite (seq_pick_first m tag edx (edx + opt) k p x Hwf Hsole Hx Hcx). reflexivity. }
  set (count := length els) in *. set (e0 := (edx + opt + 1)%nat).
  destruct (count <? e0)%nat eqn:Ecap.
  - (* the run reaches the end of the member list: linear search over all of it *)
    apply Nat.ltb_lt in Ecap.
    destruct (linear els edx (count - edx) tag) eqn:El.
    + destruct (linear_found els tag _ _ _ El) as [Hn [o Ho]].
      destruct (Hels n tag o Ho ltac:(lia)) as [(x & Hx & Hxt & Hxn) _].
      f_equal. rewrite <- Hxn. apply Hu; [exact Hx|exact Hxt|lia].
    + exact Hmap.
    + exfalso.
      destruct (linear_end els tag _ _ El k ltac:(lia) Hklen) as (t & o & Ht & Hne & Hne1).
      destruct (Hels k t o Ht Hne1) as [_ Hall]. specialize (Hall e He Heno). congruence.
  - apply Nat.ltb_ge in Ecap. destruct (8 <? e0 - edx)%nat eqn:Elong.
    + (* long run: the first 8 members, then the map *)
      destruct (linear els edx (edx + 8 - edx) tag) eqn:El.
      * destruct (linear_found els tag _ _ _ El) as [Hn [o Ho]].
        apply Nat.ltb_lt in Elong.
        destruct (Hels n tag o Ho ltac:(lia)) as [(x & Hx & Hxt & Hxn) _].
        f_equal. rewrite <- Hxn. apply Hu; [exact Hx|exact Hxt|unfold e0 in *; lia].
      * exact Hmap.
      * exact Hmap.
    + apply Nat.ltb_ge in Elong.
      destruct (linear els edx (e0 - edx) tag) eqn:El.
      * destruct (linear_found els tag _ _ _ El) as [Hn [o Ho]].
        destruct (Hels n tag o Ho ltac:(lia)) as [(x & Hx & Hxt & Hxn) _].
        f_equal. rewrite <- Hxn. apply Hu; [exact Hx|exact Hxt|unfold e0 in *; lia].
      * exact Hmap.
      * exfalso.
        destruct (linear_end els tag _ _ El k ltac:(unfold e0; lia) Hklen) as (t & o & Ht & Hne & Hne1).
        destruct (Hels k t o Ht Hne1) as [_ Hall]. specialize (Hall e He Heno). congruence.
Qed.

(* ---------------- SET and CHOICE ---------------- *)

Theorem tag_find_correct m tag k :
  sortedb m = true -> (exists e, In e m /\ el_tag e = tag) ->
  (forall x, In x m -> el_tag x = tag -> el_no x = k) ->
  tag_find m tag = Some k.
Proof.
  intros Hs (e & He & Het) Hu. unfold tag_find.
  destruct (In_nth_error m e He) as [i Hi].
  assert (Hex : exists i e, nth_error m i = Some e /\ tag_only_cmp tag e = Eq).
  { exists i, e. split; [exact Hi|]. apply tag_cmp_Eq. congruence. }
  destruct (bsearch_complete _ m (tag_only_cmp_mono tag m Hs) Hex) as [p Hp].
  rewrite Hp. destruct (bsearch_sound _ m p Hp) as (x & Hx & Hcx).
  rewrite Hx. f_equal. apply Hu; [eapply nth_error_In; eauto|].
  apply tag_cmp_Eq in Hcx. congruence.
Qed.

(* ---------------- the scan without the rewind depends on the probe ---------------- *)

(* seeded/C03-4:  T ::= SEQUENCE { c CHOICE { x [0] INTEGER, y [1] INTEGER } OPTIONAL,
     a INTEGER, s1 IA5String, b INTEGER, s2 UTF8String, d INTEGER };  tags: INTEGER 8, UTF8String 48,
   IA5String 88, [0] 2, [1] 6 *)
Definition demo_map : list t2m :=
  [T2M 8 1 0 2; T2M 8 3 (-1) 1; T2M 8 5 (-2) 0; T2M 48 4 0 0; T2M 88 2 0 0; T2M 2 0 0 0; T2M 6 0 0 0].

Theorem norewind_refuted :
  wf_mapb demo_map = true /\
  bsearch (seq_cmp 8 0) demo_map = Some 1%nat /\
  seq_pick demo_map 1 0 1 = PSome 1%nat /\
  seq_pick_norewind demo_map 1 1 = PNone /\
  seq_pick_norewind demo_map 0 1 = PSome 1%nat.
Proof. vm_compute. repeat split. Qed.
