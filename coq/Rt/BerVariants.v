(* Rt/BerVariants.v — the family of alternative valid BER encodings of a value
   (X.690 8.1.3: any definite length form, indefinite length on constructed
   encodings; 8.12: SET OF elements in any order), as an encoder driven by a
   tree of choices that mirrors the value.  Executable (extracted for C03);
   the theorems are in BerVariantsProofs.v. *)
From Coq Require Import ZArith List Bool.
From A1 Require Import Base.Bytes Leaf.IntegerConv Leaf.BerTL Rt.Types Rt.Comb Rt.Der.
Import ListNotations.
Local Open Scope Z_scope.

(* how one TLV writes its length: the minimal (DER) form; a long form with
   exactly n length octets (leading zero octets when n is more than needed);
   the indefinite form (constructed encodings only) *)
Inductive lform := LShort | LLong (n : nat) | LIndef.

(* the oracle: one node per TLV, children in the order of the members /
   elements of the value (an absent OPTIONAL member still owns a child);
   [perm] is the order in which a SET OF writes its elements *)
Inductive ch := Ch (lf : lform) (perm : list nat) (subs : list ch).

Definition ch_canon : ch := Ch LShort [] [].
Definition ch_lf (c : ch) : lform := match c with Ch lf _ _ => lf end.
Definition ch_perm (c : ch) : list nat := match c with Ch _ p _ => p end.
Definition ch_subs (c : ch) : list ch := match c with Ch _ _ s => s end.
(* a choice tree that is too small is continued with the canonical choices *)
Definition ch_hd (cs : list ch) : ch := match cs with c :: _ => c | [] => ch_canon end.

(* what ber_fetch_length can read back: 1..126 length octets (0x80 is the
   indefinite form, 0xff is reserved), the value fits the octets *)
Definition long_ok (n : nat) (len : Z) : bool :=
  (1 <=? Z.of_nat n) && (Z.of_nat n <=? 126) && (len <? 256 ^ Z.of_nat n).

Definition len_var (lf : lform) (len : Z) : list Z :=
  match lf with
  | LLong n => if long_ok n len then (128 + Z.of_nat n) :: be_bytes n len else len_serialize len
  | _ => len_serialize len
  end.

(* an inapplicable choice (indefinite on a primitive encoding, a long form too
   short for the length) falls back to the DER form *)
Definition vtlv (lf : lform) (tg : Z) (constructed : bool) (content : list Z) : list Z :=
  match lf, constructed with
  | LIndef, true => tag_bytes tg true ++ 128 :: content ++ [0; 0]
  | _, _ => tag_bytes tg constructed ++ len_var lf (zlen content) ++ content
  end.

(* every list of numbers denotes a permutation: element i is inserted at
   position p_i of the permuted rest (all zero = identity) *)
Definition insert_at {A} (k : nat) (x : A) (l : list A) : list A := firstn k l ++ x :: skipn k l.

Fixpoint permute {A} (p : list nat) (l : list A) : list A :=
  match l with
  | [] => []
  | x :: l' => insert_at (hd O p) x (permute (tl p) l')
  end.

Definition var_members (enc : ty -> ch -> val -> option (list Z))
  : list ch -> list ty -> list val -> option (list Z) :=
  fix go cs ms vs :=
    match ms, vs with
    | [], [] => Some []
    | m :: ms', v :: vs' =>
        match enc m (ch_hd cs) v, go (tl cs) ms' vs' with
        | Some a, Some b => Some (a ++ b)
        | _, _ => None
        end
    | _, _ => None
    end.

Definition var_elems (enc : ch -> val -> option (list Z)) : list ch -> list val -> option (list (list Z)) :=
  fix go cs vs :=
    match vs with
    | [] => Some []
    | v :: vs' =>
        match enc (ch_hd cs) v, go (tl cs) vs' with
        | Some a, Some r => Some (a :: r)
        | _, _ => None
        end
    end.

Definition var_alt (enc : ty -> ch -> val -> option (list Z)) (c : ch) (v : val) : list ty -> nat -> option (list Z) :=
  fix pick alts i :=
    match alts, i with
    | a :: _, O => enc a c v
    | _ :: r, S j => pick r j
    | [], _ => None
    end.

Fixpoint ber_var (t : ty) (c : ch) (v : val) {struct t} : option (list Z) :=
  match t, v with
  | TBool tg, VBool b => Some (vtlv (ch_lf c) tg false [if b then 255 else 0])
  | TNull tg, VNull => Some (vtlv (ch_lf c) tg false [])
  | TInt tg _, VInt z => Some (vtlv (ch_lf c) tg false (imax2INTEGER z))
  | TOct tg _, VOct bs => Some (vtlv (ch_lf c) tg false bs)
  | TSeq tg ms, VSeq vs =>
      match var_members ber_var (ch_subs c) ms vs with
      | Some b => Some (vtlv (ch_lf c) tg true b)
      | None => None
      end
  | TSeqOf tg _ e, VList vs =>
      match var_elems (ber_var e) (ch_subs c) vs with
      | Some cs => Some (vtlv (ch_lf c) tg true (concat cs))
      | None => None
      end
  | TSetOf tg _ e, VList vs =>
      match var_elems (ber_var e) (ch_subs c) vs with
      | Some cs => Some (vtlv (ch_lf c) tg true (concat (permute (ch_perm c) cs)))
      | None => None
      end
  | TChoice alts, VChoice i v' => var_alt ber_var c v' alts i
  | TTag tg t', _ =>
      match ber_var t' (ch_hd (ch_subs c)) v with
      | Some b => Some (vtlv (ch_lf c) tg true b)
      | None => None
      end
  | TOpt _, VNone => Some []
  | TOpt t', VSome v' => ber_var t' c v'
  | _, _ => None
  end.

(* the interface named in the property: oracle first *)
Definition ber_variant (c : ch) (t : ty) (v : val) : option (list Z) := ber_var t c v.

(* ---------------- the value a decoder sees ---------------- *)
(* SET OF elements come back in the order written *)

Definition val_members (f : ty -> ch -> val -> val) : list ch -> list ty -> list val -> list val :=
  fix go cs ms vs :=
    match ms, vs with
    | m :: ms', v :: vs' => f m (ch_hd cs) v :: go (tl cs) ms' vs'
    | _, _ => vs
    end.

Definition val_elems (f : ch -> val -> val) : list ch -> list val -> list val :=
  fix go cs vs :=
    match vs with
    | [] => []
    | v :: vs' => f (ch_hd cs) v :: go (tl cs) vs'
    end.

Definition val_alt (f : ty -> ch -> val -> val) (c : ch) (v : val) : list ty -> nat -> val :=
  fix pick alts i :=
    match alts, i with
    | a :: _, O => f a c v
    | _ :: r, S j => pick r j
    | [], _ => v
    end.

Fixpoint var_val (t : ty) (c : ch) (v : val) {struct t} : val :=
  match t, v with
  | TSeq _ ms, VSeq vs => VSeq (val_members var_val (ch_subs c) ms vs)
  | TSeqOf _ _ e, VList vs => VList (val_elems (var_val e) (ch_subs c) vs)
  | TSetOf _ _ e, VList vs => VList (permute (ch_perm c) (val_elems (var_val e) (ch_subs c) vs))
  | TChoice alts, VChoice i v' => VChoice i (val_alt var_val c v' alts i)
  | TTag _ t', _ => var_val t' (ch_hd (ch_subs c)) v
  | TOpt t', VSome v' => VSome (var_val t' c v')
  | _, _ => v
  end.
