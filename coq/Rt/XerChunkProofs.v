(* Rt/XerChunkProofs.v — the chunked body writers of Rt/XerChunk.v keep the size contract of the
   encoder API (C07) for EVERY body length: whatever the number of flushes, what the writer
   reports is the sum of the lengths of the chunks it offered, which is the length of the whole
   text; it stops at the first failing invocation; no chunk exceeds the scratch buffer.  The
   variant that does not count inside the flush branch (seeded change C07-7) is refuted by an
   11-octet INTEGER, and proved indistinguishable from the code up to 10 octets (which is why a
   corpus of native-range integers could not see it). *)
From Coq Require Import ZArith List Bool Lia ZifyBool.
From A1 Require Import Base.Bytes Leaf.Decimal Rt.AppApi Rt.AppApiProofs Rt.XerEnc Rt.XerEncProofs Rt.XerChunk.
Import ListNotations.
Local Open Scope Z_scope.

Lemma removelast_length_nat {A} (l : list A) : length (removelast l) = pred (length l).
Proof.
  induction l as [|x tl IH]; [reflexivity|].
  destruct tl as [|y tl']; [reflexivity|].
  change (removelast (x :: y :: tl')) with (x :: removelast (y :: tl')).
  cbn [length] in *. rewrite IH. reflexivity.
Qed.

Lemma zlen_removelast_le {A} (l : list A) : zlen (removelast l) <= zlen l.
Proof. unfold zlen. rewrite removelast_length_nat. lia. Qed.

Lemma zlen_finish_le trim t : zlen (finish trim t) <= zlen t.
Proof. unfold finish. destruct trim; [apply zlen_removelast_le | lia]. Qed.

Lemma finish_app trim p x : x <> [] -> finish trim (p ++ x) = p ++ finish trim x.
Proof. intros H. unfold finish. destruct trim; [apply removelast_app; exact H | reflexivity]. Qed.

Lemma total_concat cs : total cs = zlen (concat cs).
Proof. reflexivity. Qed.

(* ---------------- the generic writer ---------------- *)

Section WriterProofs.
Variable item : Z -> bytes.
Variable thr : Z.
Variable trim : bool.
Hypothesis item_nonempty : forall b, item b <> [].

(* the loop from any state: a fixed chunk list, stop at the first failure, and the counter has grown by
   exactly the octets offered; the chunks concatenate to the text still to be written *)
Lemma writer_loop_spec : forall buf p wrote, exists cs,
  (forall S (cb : cbT S) s,
     writer_loop item thr true trim buf p wrote S cb s =
     let (s', ok) := emit cb s cs in (s', if ok then Some (wrote + total cs) else None)) /\
  concat cs = finish trim (p ++ flat_map item buf).
Proof.
  induction buf as [|b tl IH]; intros p wrote.
  - exists [finish trim p]. split.
    + intros S cb s. cbn [writer_loop emit]. destruct (cb s (finish trim p)) as [s1 ok]. destruct ok; [|reflexivity].
      rewrite total_cons, total_nil. replace (zlen (finish trim p) + 0) with (zlen (finish trim p)) by lia. reflexivity.
    + cbn [concat flat_map]. rewrite !app_nil_r. reflexivity.
  - cbn [writer_loop]. destruct (thr <=? zlen p) eqn:E.
    + destruct (IH (item b) (wrote + zlen p)) as (cs & Hrun & Hcat).
      exists (p :: cs). split.
      * intros S cb s. cbn [emit]. destruct (cb s p) as [s1 ok]. destruct ok; [|reflexivity].
        rewrite Hrun. destruct (emit cb s1 cs) as [s2 ok2]. destruct ok2; [|reflexivity].
        rewrite total_cons. replace (wrote + zlen p + total cs) with (wrote + (zlen p + total cs)) by lia. reflexivity.
      * cbn [concat flat_map]. rewrite Hcat. symmetry. apply finish_app.
        intros H. apply app_eq_nil in H. destruct H as [H _]. exact (item_nonempty b H).
    + destruct (IH (p ++ item b) wrote) as (cs & Hrun & Hcat). exists cs. split; [exact Hrun|].
      rewrite Hcat. cbn [flat_map]. rewrite app_assoc. reflexivity.
Qed.

(* reported = sum of the chunk lengths = length of the whole text, for every contents length *)
Theorem writer_script : forall buf, exists cs,
  scr (writer item thr true trim buf) cs (Some (zlen (body_text item trim buf))) /\
  concat cs = body_text item trim buf /\
  total cs = zlen (body_text item trim buf).
Proof.
  intros buf. destruct (writer_loop_spec buf [] 0) as (cs & Hrun & Hcat).
  cbn [app] in Hcat. change (finish trim (flat_map item buf)) with (body_text item trim buf) in Hcat.
  assert (Ht : total cs = zlen (body_text item trim buf)) by (rewrite total_concat, Hcat; reflexivity).
  exists cs. split; [|split; [exact Hcat | exact Ht]].
  split.
  - intros S cb s. unfold writer. rewrite Hrun. destruct (emit cb s cs) as [s' ok]. destruct ok; [|reflexivity].
    rewrite Ht. reflexivity.
  - intros n H. inversion H. symmetry. exact Ht.
Qed.

(* bounded writes into the local buffer: with items of at most [w] characters no chunk is longer
   than thr - 1 + w (the scratch must be at least that large) *)
Variable w : Z.
Hypothesis item_le : forall b, zlen (item b) <= w.
Hypothesis thr_pos : 1 <= thr.

(* the chunk list as a function (the one [writer_loop_spec] constructs), so that its shape can be stated *)
Fixpoint writer_chunks (buf p : bytes) : list bytes :=
  match buf with
  | [] => [finish trim p]
  | b :: tl => if thr <=? zlen p then p :: writer_chunks tl (item b) else writer_chunks tl (p ++ item b)
  end.

Lemma writer_loop_chunks : forall buf p wrote S (cb : cbT S) s,
  writer_loop item thr true trim buf p wrote S cb s =
  let (s', ok) := emit cb s (writer_chunks buf p) in (s', if ok then Some (wrote + total (writer_chunks buf p)) else None).
Proof.
  induction buf as [|b tl IH]; intros p wrote S cb s.
  - cbn [writer_loop writer_chunks emit]. destruct (cb s (finish trim p)) as [s1 ok]. destruct ok; [|reflexivity].
    rewrite total_cons, total_nil. replace (zlen (finish trim p) + 0) with (zlen (finish trim p)) by lia. reflexivity.
  - cbn [writer_loop writer_chunks]. destruct (thr <=? zlen p) eqn:E.
    + cbn [emit]. destruct (cb s p) as [s1 ok]. destruct ok; [|reflexivity].
      rewrite IH. destruct (emit cb s1 (writer_chunks tl (item b))) as [s2 ok2]. destruct ok2; [|reflexivity].
      rewrite total_cons. replace (wrote + zlen p + total (writer_chunks tl (item b))) with (wrote + (zlen p + total (writer_chunks tl (item b)))) by lia.
      reflexivity.
    + apply IH.
Qed.

Lemma writer_chunks_bound : forall buf p, zlen p <= thr - 1 + w ->
  Forall (fun c => zlen c <= thr - 1 + w) (writer_chunks buf p).
Proof.
  induction buf as [|b tl IH]; intros p Hp.
  - cbn [writer_chunks]. constructor; [|constructor]. pose proof (zlen_finish_le trim p). lia.
  - cbn [writer_chunks]. destruct (thr <=? zlen p) eqn:E.
    + constructor; [exact Hp|]. apply IH. pose proof (item_le b). lia.
    + apply IH. rewrite zlen_app. pose proof (item_le b). lia.
Qed.

End WriterProofs.

(* ---------------- INTEGER__dump ---------------- *)

Lemma hex3c_nonempty b : hex3c b <> [].
Proof. unfold hex3c, hex2. cbn [app]. discriminate. Qed.

Lemma zlen_hex3c b : zlen (hex3c b) = 3.
Proof. reflexivity. Qed.

Lemma length_flat_hex3c bs : length (flat_map hex3c bs) = (3 * length bs)%nat.
Proof.
  induction bs as [|b tl IH]; [reflexivity|].
  cbn [flat_map]. rewrite app_length, IH. change (length (hex3c b)) with 3%nat. cbn [length]. lia.
Qed.

(* the xx:yy:zz text of n > 0 octets has 3n - 1 characters *)
Lemma zlen_colon_text bs : bs <> [] -> zlen (body_text hex3c true bs) = 3 * zlen bs - 1.
Proof.
  intros H. unfold body_text, finish, zlen. rewrite removelast_length_nat, length_flat_hex3c.
  destruct bs as [|b tl]; [contradiction|]. cbn [length]. lia.
Qed.

(* every contents length: a fixed chunk list, stop at the first failure, reported = sum of the chunk lengths
   = length of the whole text *)
Theorem int_dump_script : forall content, exists cs,
  scr (int_dump content) cs (Some (zlen (int_dump_text content))) /\
  concat cs = int_dump_text content /\
  total cs = zlen (int_dump_text content).
Proof.
  intros content. unfold int_dump, int_dump_gen, int_dump_text.
  destruct (zlen (strip_leading content) <=? 8) eqn:E.
  - exists [int_text (twos_value (strip_leading content))].
    split; [apply scr_cb1|]. split; [cbn [concat]; apply app_nil_r|].
    rewrite total_cons, total_nil. lia.
  - apply (writer_script hex3c int_thr true hex3c_nonempty).
Qed.

Theorem int_dump_hex_size : forall content,
  8 < zlen (strip_leading content) ->
  exists cs, scr (int_dump content) cs (Some (3 * zlen (strip_leading content) - 1)).
Proof.
  intros content H. destruct (int_dump_script content) as (cs & Hs & _).
  exists cs. unfold int_dump_text in Hs.
  destruct (zlen (strip_leading content) <=? 8) eqn:E; [lia|].
  rewrite zlen_colon_text in Hs; [exact Hs|].
  intros H0. rewrite H0 in H. unfold zlen in H. cbn [length] in H. lia.
Qed.

(* the 32-octet scratch is never overrun, whatever the contents length: every chunk of the dump
   has at most 30 characters *)
Theorem int_dump_chunks_fit_scratch : forall content,
  8 < zlen (strip_leading content) ->
  (forall S (cb : cbT S) s,
     int_dump content S cb s =
     let (s', ok) := emit cb s (writer_chunks hex3c int_thr true (strip_leading content) []) in
     (s', if ok then Some (total (writer_chunks hex3c int_thr true (strip_leading content) [])) else None)) /\
  Forall (fun c => zlen c <= 30 /\ zlen c <= int_scratch) (writer_chunks hex3c int_thr true (strip_leading content) []).
Proof.
  intros content H. split.
  - intros S cb s. unfold int_dump, int_dump_gen.
    destruct (zlen (strip_leading content) <=? 8) eqn:E; [lia|].
    unfold writer. rewrite writer_loop_chunks. reflexivity.
  - assert (Hb : Forall (fun c => zlen c <= int_thr - 1 + 3) (writer_chunks hex3c int_thr true (strip_leading content) [])).
    { apply writer_chunks_bound.
      - intros b. rewrite zlen_hex3c. lia.
      - unfold int_thr, int_scratch. lia.
      - unfold zlen, int_thr, int_scratch. cbn [length]. lia. }
    eapply Forall_impl; [|exact Hb]. intros c Hc. unfold int_thr, int_scratch in *. lia.
Qed.

(* ---------------- through xer_encode and asn_encode ---------------- *)

Lemma ss_int_dump content : scripted_step (int_dump content).
Proof. destruct (int_dump_script content) as (cs & Hs & _). eexists; eexists; exact Hs. Qed.

Lemma ss_xer_encode_body can tag body : scripted_step body -> scripted_step (xer_encode_body can tag body).
Proof.
  intros Hb. unfold xer_encode_body. apply ss_seqs; [apply ss_cb3|]. apply ss_seqs; [exact Hb | apply ss_cb3].
Qed.

Theorem int_xer_encoder_well_behaved : forall can tag content, well_behaved false (int_xer_encoder can tag content).
Proof.
  intros. unfold int_xer_encoder, int_xer_encoder_gen. apply step_inner_well_behaved, ss_xer_encode_body, ss_int_dump.
Qed.

(* any chunked body writer that is scripted, wrapped by xer_encode, keeps the API contract *)
Theorem body_xer_api : forall can tag body, scripted_step body ->
  exists calls delivered r,
  fault_free_run false (step_inner (xer_encode_body can tag body)) calls delivered r /\
  calls = length delivered /\
  (0 <= encoded r -> encoded r = total delivered /\ err r = E0) /\
  (encoded r < 0 -> encoded r = -1 /\ (err r = EBADF \/ err r = ENOENT)) /\
  (forall k, (k < calls)%nat ->
     asn_encode (Some (user_cb (Some k))) true (Op false (step_inner (xer_encode_body can tag body))) (0%nat, []) =
     Done ((S k, firstn k delivered), {| encoded := -1; err := EIO |})).
Proof.
  intros can tag body Hb.
  pose proof (step_inner_well_behaved _ (ss_xer_encode_body can tag body Hb)) as Hwb.
  destruct (size_accounting false _ Hwb) as (calls & delivered & r & Hrun & Hc & Hok & Hfail).
  exists calls, delivered, r.
  split; [exact Hrun|]. split; [exact Hc|]. split; [exact Hok|]. split; [exact Hfail|].
  intros k Hk. exact (cb_failure_eio false _ Hwb calls delivered r Hrun k Hk).
Qed.

(* the INTEGER of ANY contents length through asn_encode: the size the application is told is the number
   of octets its callback got; a callback failing at invocation k gives -1/EIO after k+1 invocations *)
Theorem int_xer_api : forall can tag content, exists calls delivered r,
  fault_free_run false (int_xer_encoder can tag content) calls delivered r /\
  calls = length delivered /\
  (0 <= encoded r -> encoded r = total delivered /\ err r = E0) /\
  (encoded r < 0 -> encoded r = -1 /\ (err r = EBADF \/ err r = ENOENT)) /\
  (forall k, (k < calls)%nat ->
     asn_encode (Some (user_cb (Some k))) true (Op false (int_xer_encoder can tag content)) (0%nat, []) =
     Done ((S k, firstn k delivered), {| encoded := -1; err := EIO |})).
Proof.
  intros can tag content. exact (body_xer_api can tag (int_dump content) (ss_int_dump content)).
Qed.

(* ---------------- the variant that counts the last portion only ---------------- *)

(* up to 10 contents octets nothing is flushed inside the loop: the variant IS the code there *)
Lemma lastonly_loop_same : forall buf p wrote cf S (cb : cbT S) s,
  zlen p + 3 * zlen buf <= 30 ->
  writer_loop hex3c int_thr cf true buf p wrote S cb s = writer_loop hex3c int_thr true true buf p wrote S cb s.
Proof.
  induction buf as [|b tl IH]; intros p wrote cf S cb s H.
  - reflexivity.
  - cbn [writer_loop]. rewrite zlen_cons in H. pose proof (zlen_nonneg tl).
    destruct (int_thr <=? zlen p) eqn:E; [unfold int_thr, int_scratch in E; lia|].
    apply IH. rewrite zlen_app, zlen_hex3c. lia.
Qed.

Theorem int_dump_lastonly_agrees_upto_10 : forall content S (cb : cbT S) s,
  zlen (strip_leading content) <= 10 ->
  int_dump_gen false content S cb s = int_dump content S cb s.
Proof.
  intros content S cb s H. unfold int_dump, int_dump_gen.
  destruct (zlen (strip_leading content) <=? 8); [reflexivity|].
  unfold writer. apply lastonly_loop_same. unfold zlen at 1. cbn [length]. lia.
Qed.

Definition eleven : bytes := [1; 2; 3; 4; 5; 6; 7; 8; 9; 10; 11].

Definition collect_cb : cbT (list bytes) := fun s c => (s ++ [c], true).

(* with 11 octets the variant under-reports: it delivers the 32 characters of the text and reports 2;
   the size contract (reported = octets offered) is false of it *)
Theorem int_dump_lastonly_refuted :
  exists content delivered n,
    int_dump_gen false content (list bytes) collect_cb [] = (delivered, Some n) /\
    total delivered = zlen (int_dump_text content) /\
    n <> total delivered.
Proof.
  exists eleven. eexists. eexists.
  split; [vm_compute; reflexivity|]. split; [vm_compute; reflexivity|].
  vm_compute. intros H. discriminate H.
Qed.

(* ---------------- non-vacuity ---------------- *)

(* <WI>01:02:..:0B</WI>\n : 3 + (30 + 2) + 3 = 8 invocations, 5 + 32 + 6 = 42 octets, all of them counted *)
Example ex_int_xer_eleven :
  match model_int_xer false [87; 73] eleven None with
  | Done ((calls, delivered), r) => encoded r = total delivered /\ encoded r = 42 /\ (calls = 8)%nat /\
                                    map (@length Z) delivered = [1; 2; 1; 30; 2; 2; 2; 2]%nat
  | Aborted _ => False
  end.
Proof. vm_compute. repeat split. Qed.

(* the seeded symptom: asn_encode is told 12 where the callback received 42 octets *)
Example ex_int_xer_lastonly_under_reports :
  match model_int_xer_lastonly false [87; 73] eleven with
  | Done ((calls, delivered), r) => encoded r = 12 /\ total delivered = 42
  | Aborted _ => False
  end.
Proof. vm_compute. repeat split. Qed.

(* the flush falls inside the loop: a failure there ends the call with -1/EIO after 4 invocations *)
Example ex_int_xer_cb_failure_in_flush :
  match model_int_xer true [87; 73] eleven (Some 3%nat) with
  | Done ((calls, delivered), r) => r = {| encoded := -1; err := EIO |} /\ (calls = 4)%nat /\ total delivered = 4
  | Aborted _ => False
  end.
Proof. vm_compute. repeat split. Qed.
