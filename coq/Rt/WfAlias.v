(* WfAlias.v — the reference (alias) layer of the C10 checker.
   `A ::= [tag] T (constraint)` is one HOP: asn1c emits a descriptor of its own for A, assembled from the TERMINAL
   type's op table, member table and specifics and A's own name, tags and constraint records
   (asn1c_lang_C_type_REFERENCE -> asn1c_lang_C_type_SIMPLE_TYPE -> emit_type_DEF, expr_type = A1TC_REFERENCE).
   An [xtable] is a dumped [table] (Rt/WfDescr.v) plus
     - per descriptor the IDENTITY of its pointer-valued slots (tokens printed by harness/dumpdescr.c, `#X` lines:
       0 = NULL, equal tokens = the same C object), and
     - the hops, which the generator of the module knows (lib/c10_refs.py; read from the text for other modules).
   [wf_x] = [wf_descr_all] of the table AND every hop keeps what a reference must keep AND the member tags of every
   use position agree with the tag vectors of the types used.  The record [descr] is NOT extended: property C13's
   files build [mkD] terms of their own (Rt/Options.v), so the new slots live beside it.
   No proofs here (WfAliasProofs.v). *)
From Coq Require Import ZArith List Bool.
From A1 Require Import Rt.WfDescr.
Import ListNotations.
Open Scope Z_scope.

Record xinfo := mkX {
  x_op : Z;      (* identity of td->op *)
  x_el : Z;      (* identity of td->elements *)
  x_sp : Z;      (* identity of td->specifics *)
  x_ec : Z;      (* td->elements_count *)
  x_rep : Z      (* what the specifics say about the C representation, for the kinds whose specifics are not dumped
                    structurally: NativeReal float_size; OCTET STRING family 1 + subvariant + 8*struct_size; else 0 *)
}.

Record hop := mkH {
  h_from : Z;        (* table index of the alias *)
  h_to : Z;          (* table index of its target *)
  h_tag : Z;         (* the tag written at the hop (number*4 + class), -1 = none *)
  h_impl : bool;     (* effective mode of that tag is IMPLICIT *)
  h_constr : bool    (* the hop adds a subtype constraint *)
}.

Record xtable := mkXT { xt_tab : table; xt_x : list xinfo; xt_hops : list hop }.

(* ---- decidable equality on the dumped records (content comparison of two descriptors) ---- *)

Definition opt_eq_dec {A} (d : forall a b : A, {a = b} + {a <> b}) (x y : option A) : {x = y} + {x <> y}.
Proof. decide equality. Defined.
Definition t2e_eq_dec (a b : t2e) : {a = b} + {a <> b}.
Proof. decide equality; apply Z.eq_dec. Defined.
Definition per1_eq_dec (a b : per1) : {a = b} + {a <> b}.
Proof. decide equality; apply Z.eq_dec. Defined.
Definition perc_eq_dec (a b : perc) : {a = b} + {a <> b}.
Proof. decide equality; try apply bool_dec; apply per1_eq_dec. Defined.
Definition oerc_eq_dec (a b : oerc) : {a = b} + {a <> b}.
Proof. decide equality; apply Z.eq_dec. Defined.
Definition member_eq_dec (a b : member) : {a = b} + {a <> b}.
Proof.
  decide equality; try apply bool_dec; try apply Z.eq_dec.
  - apply (opt_eq_dec oerc_eq_dec).
  - apply (opt_eq_dec perc_eq_dec).
Defined.
Definition zlist_eq_dec : forall a b : list Z, {a = b} + {a <> b} := list_eq_dec Z.eq_dec.
Definition pair_eq_dec {A B} (da : forall a b : A, {a = b} + {a <> b}) (db : forall a b : B, {a = b} + {a <> b})
  (x y : A * B) : {x = y} + {x <> y}.
Proof. decide equality. Defined.
Definition spec_eq_dec (a b : spec) : {a = b} + {a <> b}.
Proof.
  decide equality; try apply Z.eq_dec; try apply zlist_eq_dec; try apply (list_eq_dec t2e_eq_dec).
  - apply (opt_eq_dec (pair_eq_dec zlist_eq_dec zlist_eq_dec)).
  - apply (list_eq_dec (pair_eq_dec Z.eq_dec zlist_eq_dec)).
Defined.
Definition kind_eq_dec (a b : kind) : {a = b} + {a <> b}.
Proof. decide equality. Defined.

Definition eqb_of {A} (d : forall a b : A, {a = b} + {a <> b}) (a b : A) : bool := if d a b then true else false.

(* ---- the hop clauses ---- *)

(* INTEGER and REAL references may own a specifics record (unsigned long after a constraint; float: every reference
   to a float-sized REAL gets one); every other kind keeps the target's record itself *)
Definition numeric_kind (k : kind) : bool :=
  match k with KNativeInt | KInt | KReal => true | _ => false end.

(* ... whose CONTENT still equals the target's unless the hop adds a constraint *)
Definition rigid (h : hop) (target_kind : kind) : bool := negb (h_constr h && numeric_kind target_kind).

(* field_width of INTEGER specifics; 0 = native long, also without specifics *)
Definition int_width (s : spec) : Z := match s with SInt _ _ _ _ w _ => w | _ => 0 end.

(* X.680 30-31 on tag vectors: an untagged hop changes nothing; a tag t is put in front of the target's full chain;
   among the EFFECTIVE tags an IMPLICIT t replaces the target's outermost one (tl [] = []: over an untagged CHOICE or
   open type the tag is EXPLICIT, X.680 31.2.7) *)
Definition hop_tags (h : hop) (target_tags : list Z) : list Z :=
  if h_tag h <? 0 then target_tags
  else h_tag h :: (if h_impl h then tl target_tags else target_tags).
Definition hop_all (h : hop) (target_all : list Z) : list Z :=
  if h_tag h <? 0 then target_all else h_tag h :: target_all.

(* the C type of the alias is a typedef of the target's: op table, member table and what the specifics say about the
   representation are the target's at EVERY hop *)
Definition hop_same (h : hop) (a t : descr) (xa xt : xinfo) : bool :=      (* clause 8 *)
  eqb_of kind_eq_dec (d_kind a) (d_kind t) && (x_op xa =? x_op xt)
  && (x_el xa =? x_el xt) && (x_ec xa =? x_ec xt) && eqb_of (list_eq_dec member_eq_dec) (d_elems a) (d_elems t)
  && (x_rep xa =? x_rep xt) && (int_width (d_spec a) =? int_width (d_spec t))
  && (numeric_kind (d_kind t) || (x_sp xa =? x_sp xt))
  && (negb (rigid h (d_kind t)) || eqb_of spec_eq_dec (d_spec a) (d_spec t)).

Definition hop_tagged (h : hop) (a t : descr) : bool :=                     (* clause 9 *)
  list_eqb (d_tags a) (hop_tags h (d_tags t)) && list_eqb (d_all a) (hop_all h (d_all t)).

Definition hop_records (h : hop) (a t : descr) : bool :=                    (* clause 10 *)
  h_constr h || (eqb_of (opt_eq_dec perc_eq_dec) (d_per a) (d_per t) && eqb_of (opt_eq_dec oerc_eq_dec) (d_oer a) (d_oer t)).

Definition hop_clauses (X : xtable) (h : hop) : list (Z * bool) :=
  let ds := t_descrs (xt_tab X) in
  match nthZ ds (h_from h), nthZ ds (h_to h), nthZ (xt_x X) (h_from h), nthZ (xt_x X) (h_to h) with
  | Some a, Some t, Some xa, Some xt =>
      [ (8, hop_same h a t xa xt); (9, hop_tagged h a t); (10, hop_records h a t) ]
  | _, _, _, _ => [ (8, false) ]
  end.

Definition hop_ok (X : xtable) (h : hop) : bool := forallb snd (hop_clauses X h).

(* ---- per descriptor ---- *)

(* clause 11: BIT STRING and ANY run the OCTET STRING code, which takes a NULL specifics for "plain OCTET STRING" *)
Definition shared_spec_ok (d : descr) (x : xinfo) : bool :=
  match d_kind d with KBits | KAny => negb (x_sp x =? 0) | _ => true end.

(* clause 12: a member written without a tag of its own (tag_mode 0) carries the outermost tag of the descriptor it
   points to, -1 when that has none *)
Definition member_tag_ok (ds : list descr) (m : member) : bool :=
  if m_tmode m =? 0 then
    match nthZ ds (m_type m) with
    | Some d' => m_tag m =? match d_tags d' with t :: _ => t | [] => -1 end
    | None => true          (* clause 2 of wf_descr reports it *)
    end
  else true.

Definition xd_clauses (X : xtable) (dx : descr * xinfo) : list (Z * bool) :=
  let '(d, x) := dx in
  [ (11, shared_spec_ok d x);
    (12, forallb (member_tag_ok (t_descrs (xt_tab X))) (d_elems d));
    (13, x_ec x =? lenZ (d_elems d)) ].

(* every alias has ONE target *)
Fixpoint nodupZ (l : list Z) : bool :=
  match l with
  | [] => true
  | a :: r => negb (existsb (Z.eqb a) r) && nodupZ r
  end.

Definition wf_x (X : xtable) : bool :=
  wf_descr_all (xt_tab X)
  && (lenZ (xt_x X) =? lenZ (t_descrs (xt_tab X)))
  && forallb (fun dx => forallb snd (xd_clauses X dx)) (combine (t_descrs (xt_tab X)) (xt_x X))
  && forallb (hop_ok X) (xt_hops X)
  && nodupZ (map h_from (xt_hops X)).

(* (descriptor id, clause code) of every failing clause, the table's own first *)
Definition diagnose_x (X : xtable) : list (Z * Z) :=
  diagnose (xt_tab X)
  ++ flat_map (fun dx => map (fun c => (d_id (fst dx), fst c)) (filter (fun c => negb (snd c)) (xd_clauses X dx)))
              (combine (t_descrs (xt_tab X)) (xt_x X))
  ++ flat_map (fun h => map (fun c => (h_from h, fst c)) (filter (fun c => negb (snd c)) (hop_clauses X h))) (xt_hops X)
  ++ (if lenZ (xt_x X) =? lenZ (t_descrs (xt_tab X)) then [] else [(-1, 15)])
  ++ (if nodupZ (map h_from (xt_hops X)) then [] else [(-1, 14)]).

(* ---- chains ---- *)

(* i reaches j along the hops [path] (outermost hop first) *)
Inductive reaches (X : xtable) : Z -> Z -> list hop -> Prop :=
| reach_refl : forall i, reaches X i i []
| reach_step : forall h j path, In h (xt_hops X) -> reaches X (h_to h) j path -> reaches X (h_from h) j (h :: path).

(* a terminal type: not itself a reference *)
Definition terminal (X : xtable) (i : Z) : Prop := forall h, In h (xt_hops X) -> h_from h <> i.

(* the tag vectors a chain of hops produces from the terminal's *)
Definition chain_tags (path : list hop) (base : list Z) : list Z := fold_right hop_tags base path.
Definition chain_all (path : list hop) (base : list Z) : list Z := fold_right hop_all base path.
Definition written_tags (path : list hop) : list Z := map h_tag (filter (fun h => negb (h_tag h <? 0)) path).
