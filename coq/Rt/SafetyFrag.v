(* Rt/SafetyFrag.v — C04: the capacity arithmetic of the loops that reassemble a
   FRAGMENTED PER value (X.691 11.9.3.8: a length determinant C1..C4 announces
   16K..64K units and one more determinant behind them).

   The reference decoders of Rt/Uper.v return lists: where the C keeps what it
   has received so far, how large that block is, and where the next fragment is
   written are decisions the reference does not have.  They are the decisions a
   change can corrupt without changing one decoded value on encoder output (an
   encoder sends the largest fragments first).  This file models them, statement
   by statement, as functions of the list of CHUNK SIZES the length determinants
   announce (in octets, in the order of arrival; uper_get_length() returns
   0..16383 or 16384 * {1,2,3,4}, nothing else):

   per_opentype.c, uper_open_type_get_simple()           [ot_run]
       do { chunk_bytes = uper_get_length(pd, -1, 0, &repeat);
            if(bufLen + chunk_bytes > bufSize) {
                bufSize = chunk_bytes + (bufSize << 2);
                buf = REALLOC(buf, bufSize); }
            per_get_many_bits(pd, buf + bufLen, 0, chunk_bytes << 3);
            bufLen += chunk_bytes;
       } while(repeat);

   OCTET_STRING.c / BIT_STRING.c / ANY.c / INTEGER.c     [str_run]
       do { raw_len = uper_get_length(..., &repeat);
            if(raw_len == 0 && st->buf) break;            (not in INTEGER.c)
            p = REALLOC(st->buf, st->size + len_bytes + 1);
            read len_bytes octets to &st->buf[st->size];
            st->size += len_bytes;
       } while(repeat);
       st->buf[st->size] = 0;

   asn_SET_OF.c, asn_set_add() called per element by SET_OF_decode_uper  [arr_run]
       if(as->count == as->size) {
           _newsize = as->size ? (as->size << 1) : 4;
           as->array = REALLOC(as->array, _newsize * sizeof(void * )); as->size = _newsize; }
       as->array[as->count++] = ptr;

   Every store is an EVENT (offset, length, capacity of the block at that moment);
   every REALLOC a request.  The theorems (SafetyFrag: below) say that no event leaves
   its block for ANY list of chunk sizes; the tie compares the requests with what
   the C asks of realloc() (harness/moddrv_c04.inc, `rq=`).  size_t arithmetic is
   written with [mod two64]. *)
From Coq Require Import ZArith List Lia Bool.
Import ListNotations.
Local Open Scope Z_scope.

Definition two64 : Z := 18446744073709551616.
Definition two58 : Z := 288230376151711744.
Definition frag_max : Z := 65536.

(* a store of [w_len] octets at offset [w_off] of a block of [w_cap] octets *)
Record wr := mkW { w_off : Z; w_len : Z; w_cap : Z }.
Definition wr_in (w : wr) : Prop := 0 <= w_off w /\ 0 <= w_len w /\ w_off w + w_len w <= w_cap w.
Definition wr_inb (w : wr) : bool := (0 <=? w_off w) && (0 <=? w_len w) && (w_off w + w_len w <=? w_cap w).

(* what uper_get_length() can return *)
Definition chunk_ok (c : Z) : Prop := 0 <= c <= frag_max.
Fixpoint total (cs : list Z) : Z := match cs with [] => 0 | c :: tl => c + total tl end.

(* ---------------------------------------------------------------- open type *)
(* chunk_bytes + (bufSize << 2) in size_t *)
Definition grow_c (bufSize chunk : Z) : Z := (chunk + (bufSize * 4) mod two64) mod two64.
(* seeded/C04-6: bufSize ? bufSize << 1 : chunk_bytes *)
Definition grow_double (bufSize chunk : Z) : Z := if bufSize =? 0 then chunk else (bufSize * 2) mod two64.

Record otres := mkOt { ot_len : Z; ot_size : Z; ot_reqs : list Z; ot_writes : list wr }.

Section OT.
  Variable grow : Z -> Z -> Z.

  Fixpoint ot_run (cs : list Z) (bufLen bufSize : Z) : otres :=
    match cs with
    | [] => mkOt bufLen bufSize [] []
    | c :: tl =>
        let grown := (bufLen + c) mod two64 >? bufSize in
        let size' := if grown then grow bufSize c else bufSize in
        let r := ot_run tl ((bufLen + c) mod two64) size' in
        mkOt (ot_len r) (ot_size r)
             (if grown then size' :: ot_reqs r else ot_reqs r)
             (mkW bufLen c size' :: ot_writes r)
    end.
End OT.

Definition ot_c (cs : list Z) : otres := ot_run grow_c cs 0 0.
Definition ot_double (cs : list Z) : otres := ot_run grow_double cs 0 0.

(* ---------------------------------------------------------------- strings *)
(* [brk]: the loop leaves on a zero length when a block exists (OCTET STRING, BIT STRING, ANY: true; INTEGER: false);
   [slack]: what is added to the request beyond size + len_bytes (the C: 1, for the terminating NUL);
   chunk sizes are already in octets (len_bytes) *)
Record strres := mkStr { s_size : Z; s_cap : Z; s_reqs : list Z; s_writes : list wr }.

Section STR.
  Variable brk : bool.
  Variable slack : Z.

  (* cap = size of the block st->buf points to, -1 for NULL *)
  Fixpoint str_run (cs : list Z) (size cap : Z) : strres :=
    match cs with
    | [] => mkStr size cap [] []
    | c :: tl =>
        if brk && (c =? 0) && (0 <=? cap) then mkStr size cap [] []
        else
          let cap' := size + c + slack in
          let r := str_run tl (size + c) cap' in
          mkStr (s_size r) (s_cap r) (cap' :: s_reqs r) (mkW size c cap' :: s_writes r)
    end.

  (* the whole decode: the loop, then st->buf[st->size] = 0 *)
  Definition str_all (cs : list Z) : list Z * list wr :=
    let r := str_run cs 0 (-1) in
    (s_reqs r, s_writes r ++ [mkW (s_size r) 1 (s_cap r)]).
End STR.

(* ---------------------------------------------------------------- pointer array of a list *)
Record arrres := mkArr { a_count : Z; a_size : Z; a_reqs : list Z; a_writes : list wr }.

(* [n] calls of asn_set_add(); offsets and capacities in SLOTS, requests in octets (8 per slot) *)
Fixpoint arr_run (n : nat) (count size : Z) : arrres :=
  match n with
  | O => mkArr count size [] []
  | S k =>
      let grown := count =? size in
      let size' := if grown then (if size =? 0 then 4 else size * 2) else size in
      let r := arr_run k (count + 1) size' in
      mkArr (a_count r) (a_size r) (if grown then size' * 8 :: a_reqs r else a_reqs r) (mkW count 1 size' :: a_writes r)
  end.

(* ================================================================ proofs *)

Lemma mod64_small x : 0 <= x < two64 -> x mod two64 = x.
Proof. intro H. apply Z.mod_small. exact H. Qed.

(* the invariant of the open-type loop *)
Definition ot_inv (bufLen bufSize : Z) : Prop := 0 <= bufLen <= bufSize /\ bufSize <= 4 * bufLen + 5 * frag_max.

Lemma grow_c_exact bufLen bufSize c :
  ot_inv bufLen bufSize -> chunk_ok c -> bufLen + c < two58 -> grow_c bufSize c = c + 4 * bufSize.
Proof.
  unfold ot_inv, chunk_ok, grow_c, frag_max, two58. intros [[H0 H1] H2] Hc Hb.
  rewrite (mod64_small (bufSize * 4)) by (unfold two64; lia).
  rewrite mod64_small by (unfold two64; lia). lia.
Qed.

Lemma ot_step_inv bufLen bufSize c :
  ot_inv bufLen bufSize -> chunk_ok c -> bufLen + c < two58 ->
  let size' := if (bufLen + c) mod two64 >? bufSize then grow_c bufSize c else bufSize in
  (bufLen + c) mod two64 = bufLen + c /\ ot_inv (bufLen + c) size' /\ bufLen + c <= size'.
Proof.
  intros Hi Hc Hb. pose proof (grow_c_exact _ _ _ Hi Hc Hb) as Hg.
  unfold ot_inv, chunk_ok, frag_max, two58 in *. destruct Hi as [[H0 H1] H2].
  assert (Hm : (bufLen + c) mod two64 = bufLen + c) by (apply mod64_small; unfold two64; lia).
  cbn zeta. rewrite Hm.
  destruct (bufLen + c >? bufSize) eqn:E.
  - rewrite Hg. assert (bufLen + c > bufSize) by lia. repeat split; lia.
  - assert (bufLen + c <= bufSize) by lia. repeat split; lia.
Qed.

Lemma ot_run_safe : forall cs bufLen bufSize,
  Forall chunk_ok cs -> ot_inv bufLen bufSize -> bufLen + total cs < two58 ->
  let r := ot_run grow_c cs bufLen bufSize in
  Forall wr_in (ot_writes r) /\ ot_len r = bufLen + total cs /\ ot_inv (ot_len r) (ot_size r) /\
  Forall (fun q => 0 <= q <= 4 * (bufLen + total cs) + 5 * frag_max) (ot_reqs r).
Proof.
  induction cs as [|c tl IH]; intros bufLen bufSize Hcs Hi Hb.
  - cbn. split; [constructor|]. split; [lia|]. split; [exact Hi|constructor].
  - inversion Hcs as [|? ? Hc Htl]; subst.
    assert (Htot : 0 <= total tl).
    { clear -Htl. induction tl as [|x l IHl]; [cbn; lia|]. inversion Htl; subst. cbn. unfold chunk_ok in *. specialize (IHl H2). lia. }
    cbn [total] in Hb.
    assert (Hb1 : bufLen + c < two58) by lia.
    pose proof (ot_step_inv bufLen bufSize c Hi Hc Hb1) as Hs. cbn zeta in Hs.
    destruct Hs as [Hm [Hi' Hle]].
    cbn [ot_run]. cbn zeta. rewrite Hm in *.
    set (size' := if bufLen + c >? bufSize then grow_c bufSize c else bufSize) in *.
    assert (Hb2 : bufLen + c + total tl < two58) by lia.
    specialize (IH (bufLen + c) size' Htl Hi' Hb2). cbn zeta in IH.
    destruct IH as [Hw [Hl [Hinv Hq]]].
    cbn [ot_writes ot_len ot_size ot_reqs total].
    assert (H0 : 0 <= bufLen) by apply Hi.
    split; [|split; [|split]].
    + constructor; [|exact Hw]. unfold wr_in. cbn. unfold chunk_ok in Hc. lia.
    + lia.
    + exact Hinv.
    + assert (Hq' : Forall (fun q => 0 <= q <= 4 * (bufLen + (c + total tl)) + 5 * frag_max) (ot_reqs (ot_run grow_c tl (bufLen + c) size'))).
      { eapply Forall_impl; [|exact Hq]. intros q Hq0. cbv beta in Hq0 |- *. lia. }
      destruct (bufLen + c >? bufSize); [|exact Hq'].
      constructor; [|exact Hq'].
      destruct Hi' as [[A1 A2] A3]. unfold frag_max in *. unfold chunk_ok, frag_max in Hc. lia.
Qed.

Lemma ot_inv_0 : ot_inv 0 0.
Proof. unfold ot_inv, frag_max. lia. Qed.

(* every store of the reassembly stays inside the block, whatever the order and number of the fragments *)
Theorem ot_writes_in_bounds : forall cs : list Z,
  Forall chunk_ok cs -> total cs < two58 -> Forall wr_in (ot_writes (ot_c cs)).
Proof.
  intros cs Hcs Hb. unfold ot_c.
  assert (H : 0 + total cs < two58) by lia.
  apply (ot_run_safe cs 0 0 Hcs ot_inv_0 H).
Qed.

Theorem ot_length_is_total : forall cs : list Z,
  Forall chunk_ok cs -> total cs < two58 -> ot_len (ot_c cs) = total cs /\ total cs <= ot_size (ot_c cs).
Proof.
  intros cs Hcs Hb. unfold ot_c.
  assert (H : 0 + total cs < two58) by lia.
  destruct (ot_run_safe cs 0 0 Hcs ot_inv_0 H) as [_ [Hl [Hi _]]]. cbn zeta in *.
  split; [lia|]. unfold ot_inv in Hi. lia.
Qed.

(* what is asked of realloc() is linear in what has arrived (no size_t wrap-around, no amplification beyond 4x + 320K) *)
Theorem ot_requests_linear : forall cs : list Z,
  Forall chunk_ok cs -> total cs < two58 ->
  Forall (fun q => 0 <= q <= 4 * total cs + 5 * frag_max) (ot_reqs (ot_c cs)).
Proof.
  intros cs Hcs Hb. unfold ot_c.
  assert (H : 0 + total cs < two58) by lia.
  destruct (ot_run_safe cs 0 0 Hcs ot_inv_0 H) as [_ [_ [_ Hq]]]. cbn zeta in Hq.
  eapply Forall_impl; [|exact Hq]. intros q Hq0. cbv beta in Hq0 |- *. lia.
Qed.

(* seeded/C04-6: with the doubling rule a fragment larger than everything before it is stored past the block *)
Theorem ot_doubling_refuted :
  Forall chunk_ok [16384; 65536; 83] /\
  forallb wr_inb (ot_writes (ot_double [16384; 65536; 83])) = false /\
  ot_writes (ot_double [16384; 65536]) = [mkW 0 16384 16384; mkW 16384 65536 32768] /\
  forallb wr_inb (ot_writes (ot_c [16384; 65536; 83])) = true /\
  ot_reqs (ot_c [16384; 65536; 83]) = [16384; 131072].
Proof.
  split.
  - repeat constructor; unfold frag_max; lia.
  - vm_compute. repeat split; reflexivity.
Qed.

(* the doubling rule IS sufficient for non-increasing fragments (what an encoder sends): why no round trip saw it *)
Lemma ot_double_safe_nonincreasing_example :
  forallb wr_inb (ot_writes (ot_double [65536; 65536; 49152; 100])) = true.
Proof. vm_compute. reflexivity. Qed.

Lemma wr_inb_in w : wr_inb w = true <-> wr_in w.
Proof. unfold wr_inb, wr_in. rewrite !andb_true_iff, !Z.leb_le. tauto. Qed.

(* ---------------------------------------------------------------- strings *)
Lemma str_run_safe brk : forall cs size cap,
  Forall chunk_ok cs -> 0 <= size -> (0 <= cap -> size + 1 <= cap) ->
  let r := str_run brk 1 cs size cap in
  Forall wr_in (s_writes r) /\ size <= s_size r /\ (0 <= s_cap r -> s_size r + 1 <= s_cap r) /\ (s_cap r < 0 -> cap < 0 /\ s_writes r = []).
Proof.
  induction cs as [|c tl IH]; intros size cap Hcs H0 Hcap.
  - cbn. split; [constructor|]. split; [lia|]. split; [exact Hcap|]. intro Hn. split; [exact Hn|reflexivity].
  - inversion Hcs as [|? ? Hc Htl]; subst. cbn [str_run].
    destruct (brk && (c =? 0) && (0 <=? cap)) eqn:E.
    + cbn. split; [constructor|]. split; [lia|]. split; [exact Hcap|]. intro Hn. split; [exact Hn|reflexivity].
    + unfold chunk_ok in Hc.
      assert (H1 : 0 <= size + c) by lia.
      assert (H2 : 0 <= size + c + 1 -> size + c + 1 <= size + c + 1) by lia.
      specialize (IH (size + c) (size + c + 1) Htl H1 H2). cbn zeta in IH. destruct IH as [Hw [Hs [Hc2 Hn]]].
      cbn [s_writes s_size s_cap]. split; [|split; [|split]].
      * constructor; [|exact Hw]. unfold wr_in. cbn. lia.
      * lia.
      * exact Hc2.
      * intro Hneg. destruct (Hn Hneg) as [Hx _]. lia.
Qed.

(* the fragments and the terminating NUL of a string / INTEGER stay inside the block for every list of chunk sizes
   that begins with an allocation (the first turn of the loop always allocates: st->buf is NULL) *)
Theorem str_writes_in_bounds : forall (brk : bool) (cs : list Z),
  Forall chunk_ok cs -> cs <> [] -> Forall wr_in (snd (str_all brk 1 cs)).
Proof.
  intros brk cs Hcs Hne. unfold str_all. cbn [snd].
  destruct cs as [|c tl]; [contradiction|].
  inversion Hcs as [|? ? Hc Htl]; subst.
  cbn [str_run].
  replace (brk && (c =? 0) && (0 <=? -1)) with false by (cbn; rewrite andb_false_r; reflexivity).
  unfold chunk_ok in Hc.
  assert (H1 : 0 <= 0 + c) by lia.
  assert (H2 : 0 <= 0 + c + 1 -> 0 + c + 1 <= 0 + c + 1) by lia.
  destruct (str_run_safe brk tl (0 + c) (0 + c + 1) Htl H1 H2) as [Hw [Hs [Hc2 Hn]]].
  cbn [s_writes s_size s_cap].
  apply Forall_app. split.
  - constructor; [|exact Hw]. unfold wr_in. cbn [w_off w_len w_cap]. lia.
  - constructor; [|constructor]. unfold wr_in. cbn [w_off w_len w_cap].
    destruct (Z_lt_le_dec (s_cap (str_run brk 1 tl (0 + c) (0 + c + 1))) 0) as [Hneg|Hpos].
    + destruct (Hn Hneg) as [Hx _]. lia.
    + specialize (Hc2 Hpos). lia.
Qed.

(* without the "+ 1" of the request the terminating NUL is stored one past the block *)
Theorem str_no_slack_refuted :
  forallb wr_inb (snd (str_all true 0 [16384; 65536; 5])) = false /\
  forallb wr_inb (snd (str_all true 1 [16384; 65536; 5])) = true /\
  fst (str_all true 1 [16384; 65536; 5]) = [16385; 81921; 81926].
Proof. vm_compute. repeat split; reflexivity. Qed.

(* ---------------------------------------------------------------- pointer array *)
Lemma arr_run_safe : forall n count size,
  0 <= count <= size ->
  let r := arr_run n count size in
  Forall wr_in (a_writes r) /\ a_count r = count + Z.of_nat n /\ a_count r <= a_size r.
Proof.
  induction n as [|k IH]; intros count size H.
  - cbn. split; [constructor|]. split; lia.
  - cbn [arr_run]. cbn zeta.
    set (size' := if count =? size then (if size =? 0 then 4 else size * 2) else size).
    assert (Hs : count + 1 <= size').
    { unfold size'. destruct (count =? size) eqn:E.
      - apply Z.eqb_eq in E. destruct (size =? 0) eqn:E0; [apply Z.eqb_eq in E0; lia|apply Z.eqb_neq in E0; lia].
      - apply Z.eqb_neq in E. lia. }
    assert (H' : 0 <= count + 1 <= size') by lia.
    specialize (IH (count + 1) size' H'). cbn zeta in IH. destruct IH as [Hw [Hc Hle]].
    cbn [a_writes a_count a_size]. split; [|split].
    + constructor; [|exact Hw]. unfold wr_in. cbn. lia.
    + rewrite Hc. lia.
    + exact Hle.
Qed.

Theorem arr_writes_in_bounds : forall n : nat, Forall wr_in (a_writes (arr_run n 0 0)).
Proof. intro n. assert (H : 0 <= 0 <= 0) by lia. apply (arr_run_safe n 0 0 H). Qed.

(* ================================================================ contents *)
(* The block as a list of octets: what the open-type loop hands to the decoder of the contents is the
   concatenation of the fragments, however the sender cut the value (the order-independence the tie observes
   as "same value as the largest-first fragmentation"). *)

Definition blit (buf : list Z) (off : nat) (d : list Z) : option (list Z) :=
  if (off + length d <=? length buf)%nat then Some (firstn off buf ++ d ++ skipn (off + length d) buf) else None.

(* realloc(): the old contents stay; the new part holds anything (here 0) *)
Definition regrow (buf : list Z) (n : nat) : list Z := firstn n buf ++ repeat 0 (n - length buf).

Section OTD.
  Variable grow : Z -> Z -> Z.
  Fixpoint ot_data (frs : list (list Z)) (buf : list Z) (len : nat) : option (list Z * nat) :=
    match frs with
    | [] => Some (buf, len)
    | d :: tl =>
        let c := length d in
        let buf' := if (length buf <? len + c)%nat
                    then regrow buf (Z.to_nat (grow (Z.of_nat (length buf)) (Z.of_nat c))) else buf in
        match blit buf' len d with
        | None => None
        | Some b => ot_data tl b (len + c)
        end
    end.
End OTD.

Lemma regrow_length buf n : (length buf <= n)%nat -> length (regrow buf n) = n.
Proof.
  intro H. unfold regrow. rewrite app_length, repeat_length, firstn_all2 by exact H. lia.
Qed.

Lemma regrow_firstn buf n k : (k <= length buf)%nat -> (length buf <= n)%nat -> firstn k (regrow buf n) = firstn k buf.
Proof.
  intros Hk Hn. unfold regrow. rewrite (firstn_all2 buf) by exact Hn.
  rewrite firstn_app. replace (k - length buf)%nat with 0%nat by lia. cbn. apply app_nil_r.
Qed.

Lemma blit_ok buf off d : (off + length d <= length buf)%nat ->
  exists b, blit buf off d = Some b /\ length b = length buf /\ firstn (off + length d) b = firstn off buf ++ d.
Proof.
  intro H. unfold blit. assert (E : (off + length d <=? length buf)%nat = true) by (apply Nat.leb_le; exact H).
  rewrite E. eexists. split; [reflexivity|]. split.
  - rewrite !app_length, firstn_length, skipn_length. lia.
  - rewrite app_assoc. rewrite firstn_app.
    assert (L : length (firstn off buf ++ d) = (off + length d)%nat) by (rewrite app_length, firstn_length; lia).
    rewrite L. replace (off + length d - (off + length d))%nat with 0%nat by lia. cbn. rewrite app_nil_r.
    apply firstn_all2. lia.
Qed.

Fixpoint sizes (frs : list (list Z)) : list Z := match frs with [] => [] | d :: tl => Z.of_nat (length d) :: sizes tl end.

Lemma total_sizes frs : total (sizes frs) = Z.of_nat (length (concat frs)).
Proof. induction frs as [|d tl IH]; [reflexivity|]. cbn [sizes total concat]. rewrite app_length, IH. lia. Qed.

Lemma ot_data_concat : forall frs buf len,
  Forall chunk_ok (sizes frs) -> (len <= length buf)%nat ->
  ot_inv (Z.of_nat len) (Z.of_nat (length buf)) -> Z.of_nat len + total (sizes frs) < two58 ->
  exists b, ot_data grow_c frs buf len = Some (b, (len + length (concat frs))%nat) /\
            firstn (len + length (concat frs)) b = firstn len buf ++ concat frs.
Proof.
  induction frs as [|d tl IH]; intros buf len Hcs Hle Hi Hb.
  - cbn. exists buf. rewrite Nat.add_0_r, app_nil_r. split; reflexivity.
  - cbn [sizes] in Hcs. inversion Hcs as [|? ? Hc Htl]; subst. cbn [sizes total] in Hb.
    assert (Htot : 0 <= total (sizes tl)).
    { clear -Htl. induction (sizes tl) as [|x l IHl]; [cbn; lia|]. inversion Htl; subst. cbn. unfold chunk_ok in *. specialize (IHl H2). lia. }
    set (c := length d) in *.
    assert (Hb1 : Z.of_nat len + Z.of_nat c < two58) by lia.
    pose proof (ot_step_inv (Z.of_nat len) (Z.of_nat (length buf)) (Z.of_nat c) Hi Hc Hb1) as Hs. cbn zeta in Hs.
    destruct Hs as [Hm [Hi' Hle']]. rewrite Hm in Hi', Hle'.
    cbn [ot_data]. fold c.
    set (buf' := if (length buf <? len + c)%nat then regrow buf (Z.to_nat (grow_c (Z.of_nat (length buf)) (Z.of_nat c))) else buf).
    assert (Hbuf : length buf' = Z.to_nat (if Z.of_nat len + Z.of_nat c >? Z.of_nat (length buf) then grow_c (Z.of_nat (length buf)) (Z.of_nat c) else Z.of_nat (length buf))
                   /\ firstn len buf' = firstn len buf).
    { unfold buf'. destruct (length buf <? len + c)%nat eqn:E.
      - apply Nat.ltb_lt in E.
        assert (G : Z.of_nat len + Z.of_nat c >? Z.of_nat (length buf) = true) by lia.
        rewrite G in *.
        assert (Hn : (length buf <= Z.to_nat (grow_c (Z.of_nat (length buf)) (Z.of_nat c)))%nat) by lia.
        split; [apply regrow_length; exact Hn|apply regrow_firstn; [exact Hle|exact Hn]].
      - apply Nat.ltb_ge in E.
        assert (G : Z.of_nat len + Z.of_nat c >? Z.of_nat (length buf) = false) by lia.
        rewrite G. split; [lia|reflexivity]. }
    destruct Hbuf as [Hlen Hpre].
    set (size' := if Z.of_nat len + Z.of_nat c >? Z.of_nat (length buf) then grow_c (Z.of_nat (length buf)) (Z.of_nat c) else Z.of_nat (length buf)) in *.
    assert (Hsz : Z.of_nat (length buf') = size').
    { rewrite Hlen. apply Z2Nat.id. lia. }
    assert (Hfit : (len + c <= length buf')%nat) by lia.
    destruct (blit_ok buf' len d Hfit) as [b [Eb [Lb Fb]]]. fold c in Fb.
    rewrite Eb.
    assert (Hle2 : (len + c <= length b)%nat) by lia.
    assert (Hi2 : ot_inv (Z.of_nat (len + c)) (Z.of_nat (length b))).
    { rewrite Lb, Hsz, Nat2Z.inj_add. exact Hi'. }
    assert (Hb2 : Z.of_nat (len + c) + total (sizes tl) < two58) by lia.
    destruct (IH b (len + c)%nat Htl Hle2 Hi2 Hb2) as [b2 [E2 F2]].
    exists b2. cbn [concat]. rewrite app_length. fold c.
    replace (len + (c + length (concat tl)))%nat with (len + c + length (concat tl))%nat by lia.
    split; [exact E2|]. rewrite F2, Fb, Hpre. rewrite <- app_assoc. reflexivity.
Qed.

(* every way of cutting a value into fragments of at most 64K octets is reassembled to the value *)
Theorem ot_reassembles : forall frs : list (list Z),
  Forall chunk_ok (sizes frs) -> Z.of_nat (length (concat frs)) < two58 ->
  exists b, ot_data grow_c frs [] 0 = Some (b, length (concat frs)) /\ firstn (length (concat frs)) b = concat frs.
Proof.
  intros frs Hcs Hb.
  assert (H0 : (0 <= length (@nil Z))%nat) by (cbn; lia).
  assert (Hb' : Z.of_nat 0 + total (sizes frs) < two58) by (rewrite total_sizes; lia).
  destruct (ot_data_concat frs [] 0%nat Hcs H0 ot_inv_0 Hb') as [b [E F]].
  exists b. cbn in E, F. split; assumption.
Qed.

(* hence two fragmentations of the same octets give the same contents *)
Corollary ot_order_independent : forall frs1 frs2 : list (list Z),
  Forall chunk_ok (sizes frs1) -> Forall chunk_ok (sizes frs2) -> concat frs1 = concat frs2 ->
  Z.of_nat (length (concat frs1)) < two58 ->
  exists b1 b2 n, ot_data grow_c frs1 [] 0 = Some (b1, n) /\ ot_data grow_c frs2 [] 0 = Some (b2, n) /\ firstn n b1 = firstn n b2.
Proof.
  intros frs1 frs2 H1 H2 E Hb.
  destruct (ot_reassembles frs1 H1 Hb) as [b1 [E1 F1]].
  assert (Hb2 : Z.of_nat (length (concat frs2)) < two58) by (rewrite <- E; exact Hb).
  destruct (ot_reassembles frs2 H2 Hb2) as [b2 [E2 F2]].
  exists b1, b2, (length (concat frs1)). rewrite <- E in E2, F2. split; [exact E1|]. split; [exact E2|]. rewrite F1, F2. reflexivity.
Qed.

(* with the doubling rule the second of two growing fragments is stored past the block *)
Theorem ot_data_doubling_refuted :
  ot_data grow_double [repeat 1 3; repeat 2 9] [] 0 = None /\
  ot_data grow_c [repeat 1 3; repeat 2 9] [] 0 = Some (repeat 1 3 ++ repeat 2 9 ++ repeat 0 9, 12%nat).
Proof. vm_compute. split; reflexivity. Qed.
