(* Rt/CanonicalFragProofs.v — C06: the canonical order of SET OF members is the order of
   the WHOLE list; length fragmentation (X.691 11.9) cuts the sorted list, it does
   not decide what is sorted.  Definitions: CanonicalFrag.v.

   1. put_counted_g 16384 = Uper.put_counted (the parameterised loop is the model's);
   2. put_counted_g K = render (chunks K): the output is the fragments one after the
      other, each under a length determinant decided by its own size, and the
      fragments are consecutive slices (concat (chunks K l) = l);
   3. Uper.uper on a SET OF = sized s (sort_bit_encodings es); with an unconstrained
      length: frag_whole 16384 es — fragments of the sorted list;
   4. frag_whole K is invariant under permutations (any K, any length; key
      injective on the members, as everywhere for canonical UPER);
   5. frag_each K (sort inside the fragment loop) = frag_whole K for lists of at most
      K members, and is NOT permutation-invariant beyond (witness with K = 2). *)
From Coq Require Import ZArith List Bool Lia Permutation Sorted ZifyBool.
From A1 Require Import Base.Bytes Rt.Types Rt.Comb Rt.Der Rt.Uper Rt.Canonical Rt.CanonicalProofs Rt.CanonicalFrag.
Import ListNotations.
Local Open Scope Z_scope.

(* ---------------- 1. the parameterised loop at K = 16384 is Uper.put_counted ---------------- *)

Lemma put_counted_g_16K fuel : forall items, put_counted_g 16384 fuel items = put_counted fuel items.
Proof.
  induction fuel as [|f IH]; intros items; [reflexivity|].
  cbn [put_counted_g put_counted]. cbv zeta. unfold short_len.
  destruct (zlen items <? 16384) eqn:E1; destruct (zlen items <=? 127) eqn:E2; try reflexivity.
  - exfalso. lia.
  - destruct (skipn (Z.to_nat (Z.min (zlen items / 16384) 4 * 16384)) items); [reflexivity|].
    rewrite IH. reflexivity.
Qed.

(* ---------------- 2. the loop writes the fragments one after the other ---------------- *)

Lemma render_cons K c cs : render K (c :: cs) = render_chunk K c ++ render K cs.
Proof. reflexivity. Qed.

Lemma render_end K : 0 < K -> render K [[]] = nbits 8 0.
Proof.
  intros HK. unfold render, render_chunk. cbn [map concat]. change (zlen (@nil (list bool))) with 0.
  destruct (0 <? K) eqn:E; [|lia]. rewrite !app_nil_r. reflexivity.
Qed.

Section FragProofs.
  Variable K : Z.
  Hypothesis K_pos : 0 < K.

  (* the first fragment of a list of K items or more has m * K items, 1 <= m <= 4 *)
  Lemma first_fragment_size {A} (items : list A) :
    K <= zlen items ->
    let m := Z.min (zlen items / K) 4 in
    1 <= m <= 4 /\ zlen (firstn (Z.to_nat (m * K)) items) = m * K.
  Proof.
    intros Hn m.
    assert (H1 : 1 <= zlen items / K) by (apply Z.div_le_lower_bound; lia).
    assert (H2 : K * (zlen items / K) <= zlen items) by (apply Z.mul_div_le; lia).
    assert (Hm : 1 <= m <= 4) by (unfold m; lia).
    split; [exact Hm|].
    assert (Hle : m * K <= zlen items).
    { assert (m <= zlen items / K) by (unfold m; lia). nia. }
    unfold zlen in *. rewrite firstn_length. nia.
  Qed.

  Lemma render_full_chunk c m : 1 <= m -> zlen c = m * K ->
    render_chunk K c = nbits 8 (192 + m) ++ concat c.
  Proof.
    intros Hm Hc. unfold render_chunk. cbv zeta. rewrite Hc.
    assert (E : (m * K <? K) = false) by nia. rewrite E.
    rewrite Z.div_mul by lia. reflexivity.
  Qed.

  Theorem put_counted_g_render fuel : forall items,
    put_counted_g K fuel items = render K (chunks K fuel items).
  Proof.
    induction fuel as [|f IH]; intros items; [reflexivity|].
    cbn [put_counted_g chunks]. cbv zeta.
    destruct (zlen items <? K) eqn:E.
    - rewrite render_cons. unfold render_chunk. cbv zeta. rewrite E.
      change (render K []) with (@nil bool). rewrite app_nil_r. reflexivity.
    - assert (Hn : K <= zlen items) by lia.
      destruct (first_fragment_size items Hn) as [Hm Hlen].
      rewrite render_cons. rewrite (render_full_chunk _ _ (proj1 Hm) Hlen).
      rewrite <- app_assoc. f_equal. f_equal.
      destruct (skipn (Z.to_nat (Z.min (zlen items / K) 4 * K)) items) eqn:Es.
      + rewrite render_end by exact K_pos. reflexivity.
      + apply IH.
  Qed.

  (* the fragments are consecutive slices of the list *)
  Theorem chunks_concat {A} fuel : forall items : list A,
    (length items < fuel)%nat -> concat (chunks K fuel items) = items.
  Proof.
    induction fuel as [|f IH]; intros items Hf; [lia|].
    cbn [chunks]. cbv zeta.
    destruct (zlen items <? K) eqn:E.
    - cbn [concat]. apply app_nil_r.
    - assert (Hn : K <= zlen items) by lia.
      destruct (first_fragment_size items Hn) as [Hm Hlen].
      assert (Hx : 1 <= Z.min (zlen items / K) 4 * K) by nia.
      remember (Z.min (zlen items / K) 4 * K) as x eqn:Ex. clear Ex Hm.
      assert (Hk : (1 <= Z.to_nat x)%nat) by lia.
      remember (Z.to_nat x) as k eqn:Ek. clear Ek.
      cbn [concat].
      destruct (skipn k items) eqn:Es.
      + cbn [concat]. rewrite app_nil_r.
        transitivity (firstn k items ++ skipn k items); [rewrite Es, app_nil_r; reflexivity|apply firstn_skipn].
      + rewrite IH; [rewrite <- Es; apply firstn_skipn|].
        rewrite <- Es, skipn_length. unfold zlen in Hn. lia.
  Qed.

  Lemma chunks_small {A} f (l : list A) : zlen l < K -> chunks K (S f) l = [l].
  Proof. intros H. cbn [chunks]. cbv zeta. destruct (zlen l <? K) eqn:E; [reflexivity|lia]. Qed.

  Lemma chunks_exact {A} f (l : list A) : zlen l = K -> chunks K (S f) l = [l; []].
  Proof.
    intros H. cbn [chunks]. cbv zeta. destruct (zlen l <? K) eqn:E; [lia|].
    rewrite H, Z.div_same by lia.
    replace (Z.to_nat (Z.min 1 4 * K)) with (length l) by (unfold zlen in H; lia).
    rewrite firstn_all, skipn_all. reflexivity.
  Qed.
End FragProofs.

(* Uper.counted: the fragments of the list, in order, nothing else *)
Theorem counted_fragments items :
  counted items = render 16384 (chunks 16384 (S (length items)) items)
  /\ concat (chunks 16384 (S (length items)) items) = items.
Proof.
  split.
  - unfold counted. rewrite <- put_counted_g_16K. apply put_counted_g_render. lia.
  - apply chunks_concat; lia.
Qed.

(* ---------------- 3. SET OF: the whole list is sorted, then fragmented ---------------- *)

Lemma sort_bits_perm l : Permutation (sort_bit_encodings l) l.
Proof. rewrite sort_bit_encodings_isort. apply isort_perm. Qed.

Lemma sort_bits_length l : length (sort_bit_encodings l) = length l.
Proof. apply Permutation_length, sort_bits_perm. Qed.

Lemma sort_bits_sorted l : StronglySorted (fun a b => key_leb a b = true) (sort_bit_encodings l).
Proof. rewrite sort_bit_encodings_isort. apply isort_sorted; [apply key_leb_total|apply key_leb_trans]. Qed.

Theorem uper_setof_sorts_whole_list std tg s e vs es :
  option_all (map (uper std e) vs) = Some es ->
  uper std (TSetOf tg s e) (VList vs) = sized s (sort_bit_encodings es)
  /\ Permutation (sort_bit_encodings es) es
  /\ StronglySorted (fun a b => key_leb a b = true) (sort_bit_encodings es).
Proof.
  intros H. split; [cbn [uper]; rewrite H; reflexivity|].
  split; [apply sort_bits_perm|apply sort_bits_sorted].
Qed.

Lemma frag_whole_16K l : frag_whole 16384 l = counted (sort_bit_encodings l).
Proof.
  unfold frag_whole. rewrite (proj1 (counted_fragments _)), sort_bits_length. reflexivity.
Qed.

(* length not a constrained whole number (here: no SIZE constraint): the output is the
   fragments of the sorted list, and the fragments put together are the sorted list *)
Theorem uper_setof_fragments_of_sorted std tg e vs es :
  option_all (map (uper std e) vs) = Some es ->
  uper std (TSetOf tg (SCon 0 None false) e) (VList vs) = Some (frag_whole 16384 es)
  /\ concat (chunks 16384 (S (length es)) (sort_bit_encodings es)) = sort_bit_encodings es.
Proof.
  intros H. split.
  - destruct (uper_setof_sorts_whole_list std tg (SCon 0 None false) e vs es H) as [-> _].
    rewrite frag_whole_16K. unfold sized, in_scon. cbv zeta.
    assert (E : (0 <=? zlen (sort_bit_encodings es)) = true) by (pose proof (zlen_nonneg (sort_bit_encodings es)); lia).
    rewrite E. reflexivity.
  - apply chunks_concat; [lia|]. rewrite sort_bits_length. lia.
Qed.

(* ---------------- 4. permutation invariance, any fragment unit, any length ---------------- *)

Theorem frag_whole_perm K l1 l2 :
  (forall x y, In x l1 -> In y l1 -> pad_key x = pad_key y -> x = y) ->
  Permutation l1 l2 -> frag_whole K l1 = frag_whole K l2.
Proof.
  intros Hinj HP. unfold frag_whole.
  rewrite (setof_sort_bits_perm l1 l2 Hinj HP), (Permutation_length HP). reflexivity.
Qed.

(* ---------------- 5. sorting inside the fragment loop ---------------- *)

(* invisible up to K members: one fragment (plus the empty end-of-message one at exactly K) *)
Theorem frag_each_small K l : 0 < K -> zlen l <= K -> frag_each K l = frag_whole K l.
Proof.
  intros HK Hl. unfold frag_each, frag_whole.
  assert (Hs : zlen (sort_bit_encodings l) = zlen l) by (unfold zlen; rewrite sort_bits_length; reflexivity).
  destruct (Z.eq_dec (zlen l) K) as [E|N].
  - rewrite (chunks_exact K HK _ l E), (chunks_exact K HK _ (sort_bit_encodings l)) by lia. reflexivity.
  - rewrite (chunks_small K _ l), (chunks_small K _ (sort_bit_encodings l)) by lia. reflexivity.
Qed.

(* visible from K + 1 members on: three one-bit members, fragment unit 2 *)
Theorem frag_each_perm_refuted :
  exists K l1 l2, 0 < K /\ Permutation l1 l2
    /\ (forall x y, In x l1 -> In y l1 -> pad_key x = pad_key y -> x = y)
    /\ frag_whole K l1 = frag_whole K l2
    /\ frag_each K l1 <> frag_each K l2.
Proof.
  exists 2, [[true]; [false]; [false]], [[false]; [false]; [true]].
  split; [lia|]. split; [apply (Permutation_cons_append [[false]; [false]] [true])|].
  split.
  - intros x y [<-|[<-|[<-|[]]]] [<-|[<-|[<-|[]]]]; vm_compute; intros H; try reflexivity; discriminate.
  - split; [vm_compute; reflexivity|]. intros H. vm_compute in H. discriminate.
Qed.
