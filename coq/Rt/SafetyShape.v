(* Rt/SafetyShape.v -- what the reference decoders accept is a value of the
   shape its type describes, whatever the input: the constructor matches the
   type, a SEQUENCE has one entry per member, a CHOICE index designates an
   existing alternative, an INTEGER fits the native long.  [shape_ok] is [wt]
   of DerProofs.v without the octet-range clause of OCTET STRING and without
   the sortedness clause of SET OF (neither can hold for arbitrary input). *)
From Coq Require Import ZArith List Lia Bool ZifyBool.
From A1 Require Import Base.Bytes Leaf.IntegerConv Leaf.BerTL Leaf.BerTLProofs
  Rt.Types Rt.TypesInd Rt.Comb Rt.Der Rt.DerProofs Rt.Uper Rt.Oer Rt.Safety.
Import ListNotations.
Local Open Scope Z_scope.

(* ---------------- the predicate ---------------- *)

(* pointwise on members and entries, equal lengths *)
Definition all2 (f : ty -> val -> bool) : list ty -> list val -> bool :=
  fix go ms vs :=
    match ms, vs with
    | [], [] => true
    | m :: ms', v :: vs' => f m v && go ms' vs'
    | _, _ => false
    end.

(* the i-th alternative exists and accepts v *)
Definition pick_alt (f : ty -> val -> bool) (v : val) : list ty -> nat -> bool :=
  fix pick alts i :=
    match alts, i with
    | a :: _, O => f a v
    | _ :: r, S j => pick r j
    | [], _ => false
    end.

Fixpoint shape_ok (t : ty) (v : val) {struct t} : bool :=
  match t, v with
  | TBool _, VBool _ => true
  | TNull _, VNull => true
  | TInt _ _, VInt z => fits_long z
  | TOct _ _, VOct _ => true
  | TSeq _ ms, VSeq vs => all2 shape_ok ms vs
  | TSeqOf _ _ e, VList vs => forallb (shape_ok e) vs
  | TSetOf _ _ e, VList vs => forallb (shape_ok e) vs
  | TChoice alts, VChoice i v' => pick_alt shape_ok v' alts i
  | TTag _ t', _ => shape_ok t' v
  | TOpt _, VNone => true
  | TOpt t', VSome v' => shape_ok t' v'
  | _, _ => false
  end.

Lemma pick_alt_nth f v alts : forall i a,
  nth_error alts i = Some a -> f a v = true -> pick_alt f v alts i = true.
Proof.
  induction alts as [|b alts' IH]; intros i a Hn Hf; destruct i; cbn [nth_error] in Hn; try discriminate.
  - injection Hn as ->. exact Hf.
  - cbn [pick_alt]. eapply IH; eauto.
Qed.

(* a well-typed value in the sense of DerProofs.wt has the shape *)
Lemma wt_shape_ok : forall t v, wt t v = true -> shape_ok t v = true.
Proof.
  induction t as [tg|tg|tg c|tg s|tg ms IHms|tg s t IHt|tg s t IHt|alts IHalts|tg t IHt|t IHt]
    using ty_ind'; intros v H; destruct v; cbn [wt] in H; cbn [shape_ok]; try discriminate; auto.
  - revert vs H. induction IHms as [|m ms' Hm Hms IH]; intros vs H; destruct vs as [|v vs'];
      try discriminate; [reflexivity|].
    apply andb_true_iff in H. destruct H as [H1 H2]. cbn [all2].
    rewrite (Hm v H1). cbn [andb]. apply IH. exact H2.
  - rewrite forallb_forall in *. intros x Hx. apply IHt. apply H. exact Hx.
  - apply andb_true_iff in H. destruct H as [H _].
    rewrite forallb_forall in *. intros x Hx. apply IHt. apply H. exact Hx.
  - revert i H. induction IHalts as [|a alts' Ha Halts IH]; intros i H; destruct i; try discriminate.
    + cbn [pick_alt]. apply Ha. exact H.
    + cbn [pick_alt]. apply IH. exact H.
Qed.

(* "the decoder d returns values accepted by q" *)
Definition dec_sat {St V} (q : V -> bool) (d : St -> option (V * St)) : Prop :=
  forall s v r, d s = Some (v, r) -> q v = true.

(* ---------------- combinators ---------------- *)

Lemma dec_members_shape {St} (dec : ty -> St -> option (val * St)) ms :
  Forall (fun t => dec_sat (shape_ok t) (dec t)) ms ->
  dec_sat (all2 shape_ok ms) (dec_members dec ms).
Proof.
  induction 1 as [|m ms' Hm Hms IH]; intros s vs r H; cbn [dec_members] in H.
  - injection H as <- _. reflexivity.
  - destruct (dec m s) as [[v1 r1]|] eqn:E1; [|discriminate].
    destruct (dec_members dec ms' r1) as [[vs' r']|] eqn:E2; [|discriminate].
    injection H as <- _. cbn [all2]. rewrite (Hm _ _ _ E1). cbn [andb]. eapply IH; eauto.
Qed.

(* a member TOpt t' is decoded by [dec t'] and wrapped in VSome, or skipped as
   VNone: both have the shape of TOpt t' *)
Lemma dec_members_pres_shape {St} (dec : ty -> St -> option (val * St)) ms :
  Forall (fun t => dec_sat (shape_ok (unopt t)) (dec (unopt t))) ms ->
  forall pres, dec_sat (all2 shape_ok ms) (dec_members_pres dec ms pres).
Proof.
  induction 1 as [|m ms' Hm Hms IH]; intros pres s vs r H.
  - cbn [dec_members_pres] in H. injection H as <- _. reflexivity.
  - destruct m as [tg|tg|tg c|tg sc|tg ms0|tg sc e|tg sc e|alts|tg t0|t'];
      cbn [dec_members_pres unopt] in H, Hm.
    10: {
      destruct pres as [|[] pres']; [discriminate| |].
      - destruct (dec t' s) as [[v1 r1]|] eqn:E1; [|discriminate].
        destruct (dec_members_pres dec ms' pres' r1) as [[vs' r']|] eqn:E2; [|discriminate].
        injection H as <- _. cbn [all2 shape_ok]. rewrite (Hm _ _ _ E1). cbn [andb].
        eapply IH; eauto.
      - destruct (dec_members_pres dec ms' pres' s) as [[vs' r']|] eqn:E2; [|discriminate].
        injection H as <- _. cbn [all2 shape_ok andb]. eapply IH; eauto. }
    all: match type of H with match ?x with _ => _ end = _ =>
           destruct x as [[v1 r1]|] eqn:E1; [|discriminate] end;
         destruct (dec_members_pres dec ms' pres r1) as [[vs' r']|] eqn:E2; [|discriminate];
         injection H as <- _; cbn [all2]; rewrite (Hm _ _ _ E1); cbn [andb]; eapply IH; eauto.
Qed.

(* the index given to VChoice is the position of the alternative *)
Lemma dec_alt_shape {St} (dec : ty -> St -> option (val * St)) alts :
  Forall (fun t => dec_sat (shape_ok t) (dec t)) alts ->
  forall sel s v r, dec_alt dec sel s alts O = Some (v, r) -> shape_ok (TChoice alts) v = true.
Proof.
  intros HF sel s v r H. apply dec_alt_inv in H. destruct H as (i & a & v' & Hn & -> & Hd).
  cbn [shape_ok Nat.add]. eapply pick_alt_nth; [exact Hn|].
  rewrite Forall_forall in HF. eapply (HF a); [|exact Hd]. eapply nth_error_In; eauto.
Qed.

Lemma dec_items_shape {A St} (q : A -> bool) (item : St -> option (A * St)) :
  dec_sat q item -> forall n, dec_sat (forallb q) (dec_items item n).
Proof.
  intros Hi. induction n as [|n IH]; intros s l r H; cbn [dec_items] in H.
  - injection H as <- _. reflexivity.
  - destruct (item s) as [[a r1]|] eqn:E1; [|discriminate].
    destruct (dec_items item n r1) as [[x r']|] eqn:E2; [|discriminate].
    injection H as <- _. cbn [forallb]. rewrite (Hi _ _ _ E1). cbn [andb]. eapply IH; eauto.
Qed.

Lemma dec_until_shape {A St} (q : A -> bool) (item : St -> option (A * St)) (stop : St -> bool) :
  dec_sat q item -> forall f, dec_sat (forallb q) (dec_until item stop f).
Proof.
  intros Hi. induction f as [|f IH]; intros s l r H; cbn [dec_until] in H; [discriminate|].
  destruct (stop s).
  - injection H as <- _. reflexivity.
  - destruct (item s) as [[a r1]|] eqn:E1; [|discriminate].
    destruct (dec_until item stop f r1) as [[x r']|] eqn:E2; [|discriminate].
    injection H as <- _. cbn [forallb]. rewrite (Hi _ _ _ E1). cbn [andb]. eapply IH; eauto.
Qed.

Lemma get_counted_shape {A} (q : A -> bool) (item : list bool -> option (A * list bool)) :
  dec_sat q item -> forall f, dec_sat (forallb q) (get_counted item f).
Proof.
  intros Hi. induction f as [|f IH]; intros s l r H; cbn [get_counted] in H; [discriminate|].
  destruct (get_length s) as [[[n more] r0]|]; [|discriminate].
  unfold get_items in H.
  destruct (dec_items item (Z.to_nat n) r0) as [[x r1]|] eqn:Ei; [|discriminate].
  apply (dec_items_shape q item Hi) in Ei.
  destruct more.
  - destruct (get_counted item f r1) as [[y r2]|] eqn:Ec; [|discriminate].
    injection H as <- _. rewrite forallb_app, Ei. cbn [andb]. eapply IH; eauto.
  - injection H as <- _. exact Ei.
Qed.

Lemma get_sized_shape {A} (q : A -> bool) (item : list bool -> option (A * list bool)) :
  dec_sat q item -> forall sc, dec_sat (forallb q) (get_sized item sc).
Proof.
  intros Hi [lo hi ext] s l r H. unfold get_sized in H.
  assert (Hgen : forall bs l r, get_counted item (S (length bs)) bs = Some (l, r) -> forallb q l = true).
  { intros bs l0 r0 Hc. eapply (get_counted_shape q item Hi); eauto. }
  assert (Hroot : forall bs l r,
    (if match hi with Some h => h <? 65536 | None => false end
     then match hi with
          | Some h => match get_bits (range_bits (h - lo + 1)) bs with
                      | Some (n, r) => if n <=? h - lo then get_items item (Z.to_nat (n + lo)) r else None
                      | None => None
                      end
          | None => None
          end
     else get_counted item (S (length bs)) bs) = Some (l, r) -> forallb q l = true).
  { intros bs l0 r0 Hc.
    destruct (match hi with Some h => h <? 65536 | None => false end); [|eauto].
    destruct hi as [h|]; [|discriminate].
    destruct (get_bits (range_bits (h - lo + 1)) bs) as [[n r1]|]; [|discriminate].
    destruct (n <=? h - lo); [|discriminate].
    unfold get_items in Hc. eapply (dec_items_shape q item Hi); eauto. }
  cbv zeta in H. destruct ext.
  - destruct s as [|[] tl]; [discriminate| |]; eauto.
  - eauto.
Qed.

(* ---------------- BER ---------------- *)

Theorem ber_dec_shape : forall t bs v r, ber_dec t bs = Some (v, r) -> shape_ok t v = true.
Proof.
  induction t as [tg|tg|tg c|tg s|tg ms IHms|tg s t IHt|tg s t IHt|alts IHalts|tg t IHt|t IHt]
    using ty_ind'; intros bs v r H; cbn [ber_dec] in H.
  - apply in_prim_inv in H. destruct H as (tg' & len & rest & _ & _ & Hk & _).
    destruct (firstn (Z.to_nat len) rest) as [|b [|b' tl]]; try discriminate.
    injection Hk as <-. reflexivity.
  - apply in_prim_inv in H. destruct H as (tg' & len & rest & _ & _ & Hk & _).
    destruct (firstn (Z.to_nat len) rest) as [|b tl]; try discriminate.
    injection Hk as <-. reflexivity.
  - apply in_prim_inv in H. destruct H as (tg' & len & rest & _ & _ & Hk & _).
    destruct (firstn (Z.to_nat len) rest) as [|b tl]; try discriminate.
    destruct (fits_long (twos_value (b :: tl))) eqn:Ef; [|discriminate].
    injection Hk as <-. exact Ef.
  - apply in_prim_inv in H. destruct H as (tg' & len & rest & _ & _ & Hk & _).
    injection Hk as <-. reflexivity.
  - destruct (in_cons tg bs (dec_members ber_dec ms)) as [[vs r1]|] eqn:E; [|discriminate].
    injection H as <- _. cbn [shape_ok].
    apply in_cons_inv in E. destruct E as (tg' & len & rest & _ & Hc).
    destruct Hc as [(_ & b1 & b2 & Ek)|(_ & _ & Ek & _)];
      eapply (dec_members_shape ber_dec ms); eauto.
  - destruct (in_cons tg bs (fun c => dec_until (ber_dec t) at_end (S (length c)) c))
      as [[vs r1]|] eqn:E; [|discriminate].
    injection H as <- _. cbn [shape_ok].
    apply in_cons_inv in E. destruct E as (tg' & len & rest & _ & Hc).
    destruct Hc as [(_ & b1 & b2 & Ek)|(_ & _ & Ek & _)]; cbv beta in Ek;
      eapply (dec_until_shape (shape_ok t) (ber_dec t) at_end); eauto.
  - destruct (in_cons tg bs (fun c => dec_until (ber_dec t) at_end (S (length c)) c))
      as [[vs r1]|] eqn:E; [|discriminate].
    injection H as <- _. cbn [shape_ok].
    apply in_cons_inv in E. destruct E as (tg' & len & rest & _ & Hc).
    destruct Hc as [(_ & b1 & b2 & Ek)|(_ & _ & Ek & _)]; cbv beta in Ek;
      eapply (dec_until_shape (shape_ok t) (ber_dec t) at_end); eauto.
  - destruct (peek_tag bs) as [tg|]; [|discriminate].
    eapply (dec_alt_shape ber_dec alts); eauto.
  - cbn [shape_ok]. apply in_cons_inv in H. destruct H as (tg' & len & rest & _ & Hc).
    destruct Hc as [(_ & b1 & b2 & Ek)|(_ & _ & Ek & _)]; eapply IHt; eauto.
  - destruct (peek_tag bs) as [tg|].
    + destruct (tag_in tg (first_tags t)).
      * destruct (ber_dec t bs) as [[v1 r1]|] eqn:E; [|discriminate].
        injection H as <- _. cbn [shape_ok]. eapply IHt; eauto.
      * injection H as <- _. reflexivity.
    + injection H as <- _. reflexivity.
Qed.

(* ---------------- UPER ---------------- *)

Theorem uper_dec_shape : forall std t bs v r, uper_dec std t bs = Some (v, r) -> shape_ok t v = true.
Proof.
  intros std.
  induction t as [tg|tg|tg c|tg s|tg ms IHms|tg s t IHt|tg s t IHt|alts IHalts|tg t IHt|t IHt]
    using ty_ind'; intros bs v r H; cbn [uper_dec] in H.
  - destruct bs as [|b tl]; [discriminate|]. injection H as <- _. reflexivity.
  - injection H as <- _. reflexivity.
  - destruct (uper_dec_int c bs) as [[z r1]|]; [|discriminate].
    destruct (fits_long z) eqn:Ef; [|discriminate]. injection H as <- _. exact Ef.
  - destruct (get_sized get_octet s bs) as [[os r1]|]; [|discriminate].
    injection H as <- _. reflexivity.
  - destruct (take_bits (length (filter is_opt ms)) bs) as [[pres r0]|]; [|discriminate].
    destruct (dec_members_pres (uper_dec std) ms pres r0) as [[vs r1]|] eqn:Em; [|discriminate].
    injection H as <- _. cbn [shape_ok].
    eapply (dec_members_pres_shape (uper_dec std) ms); [|exact Em].
    eapply Forall_impl; [|exact IHms]. intros m Hm s v0 r' Hd.
    destruct m; try (eapply Hm; exact Hd). cbn [unopt] in *.
    apply uper_dec_opt in Hd. apply Hm in Hd. exact Hd.
  - destruct (get_sized (uper_dec std t) s bs) as [[vs r1]|] eqn:E; [|discriminate].
    injection H as <- _. cbn [shape_ok].
    eapply (get_sized_shape (shape_ok t) (uper_dec std t)); [|exact E].
    intros s0 v0 r0 Hd. eapply IHt; eauto.
  - destruct (get_sized (uper_dec std t) s bs) as [[vs r1]|] eqn:E; [|discriminate].
    injection H as <- _. cbn [shape_ok].
    eapply (get_sized_shape (shape_ok t) (uper_dec std t)); [|exact E].
    intros s0 v0 r0 Hd. eapply IHt; eauto.
  - destruct (get_bits (range_bits (zlen alts)) bs) as [[idx r0]|]; [|discriminate].
    eapply (dec_alt_shape (uper_dec std) alts); eauto.
  - cbn [shape_ok]. eapply IHt; eauto.
  - destruct (uper_dec std t bs) as [[v1 r1]|] eqn:E; [|discriminate].
    injection H as <- _. cbn [shape_ok]. eapply IHt; eauto.
Qed.

(* ---------------- OER ---------------- *)

Theorem oer_dec_shape : forall t bs v r, oer_dec t bs = Some (v, r) -> shape_ok t v = true.
Proof.
  induction t as [tg|tg|tg c|tg s|tg ms IHms|tg s t IHt|tg s t IHt|alts IHalts|tg t IHt|t IHt]
    using ty_ind'; intros bs v r H; cbn [oer_dec] in H.
  - destruct bs as [|b tl]; [discriminate|]. injection H as <- _. reflexivity.
  - injection H as <- _. reflexivity.
  - destruct (oer_dec_int c bs) as [[z r1]|]; [|discriminate].
    destruct (fits_long z) eqn:Ef; [|discriminate]. injection H as <- _. exact Ef.
  - destruct (oer_fixed_size s) as [n|].
    + destruct (take n bs) as [[os r1]|]; [|discriminate]. injection H as <- _. reflexivity.
    + destruct (oer_get_length bs) as [[n r0]|]; [|discriminate].
      destruct (take n r0) as [[os r1]|]; [|discriminate]. injection H as <- _. reflexivity.
  - cbv zeta in H.
    destruct (take (Z.of_nat ((length (filter is_opt ms) + 7) / 8)) bs) as [[pb r0]|]; [|discriminate].
    destruct (take_bits (length (filter is_opt ms)) (bytes_bits pb)) as [[pres x]|]; [|discriminate].
    destruct (dec_members_pres oer_dec ms pres r0) as [[vs r1]|] eqn:Em; [|discriminate].
    injection H as <- _. cbn [shape_ok].
    eapply (dec_members_pres_shape oer_dec ms); [|exact Em].
    eapply Forall_impl; [|exact IHms]. intros m Hm s v0 r' Hd.
    destruct m; try (eapply Hm; exact Hd). cbn [unopt] in *.
    apply oer_dec_opt in Hd. apply Hm in Hd. exact Hd.
  - destruct (oer_get_quantity bs) as [[n r0]|]; [|discriminate].
    destruct (dec_items (oer_dec t) (Z.to_nat n) r0) as [[vs r1]|] eqn:Ei; [|discriminate].
    injection H as <- _. cbn [shape_ok].
    eapply (dec_items_shape (shape_ok t) (oer_dec t)); [|exact Ei].
    intros s0 v0 r2 Hd. eapply IHt; eauto.
  - destruct (oer_get_quantity bs) as [[n r0]|]; [|discriminate].
    destruct (dec_items (oer_dec t) (Z.to_nat n) r0) as [[vs r1]|] eqn:Ei; [|discriminate].
    injection H as <- _. cbn [shape_ok].
    eapply (dec_items_shape (shape_ok t) (oer_dec t)); [|exact Ei].
    intros s0 v0 r2 Hd. eapply IHt; eauto.
  - destruct (oer_get_tag bs) as [[tg r0]|]; [|discriminate].
    eapply (dec_alt_shape oer_dec alts); eauto.
  - cbn [shape_ok]. eapply IHt; eauto.
  - destruct (oer_dec t bs) as [[v1 r1]|] eqn:E; [|discriminate].
    injection H as <- _. cbn [shape_ok]. eapply IHt; eauto.
Qed.
