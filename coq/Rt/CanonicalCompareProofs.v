(* Rt/CanonicalCompareProofs.v — INTEGER_compare orders INTEGER_t by value. *)
From Coq Require Import ZArith List Lia Bool ZifyBool.
From A1 Require Import Base.Bytes Leaf.IntegerConv Leaf.IntegerConvProofs Rt.CanonicalCompare.
Import ListNotations.
Local Open Scope Z_scope.

Lemma is_neg_value bs : bytes_ok bs -> bs <> [] -> is_neg bs = (twos_value bs <? 0).
Proof.
  destruct bs as [|b tl]; [congruence|]. intros Hok _.
  pose proof (be_val_bound (b :: tl) Hok) as Hv.
  unfold is_neg, twos_value. destruct (128 <=? b) eqn:E; [|lia].
  apply bytes_ok_inv in Hok. destruct Hok as [Hb Htl]. lia.
Qed.

(* n octets hold the values of [-128 * 256^(n-1), 128 * 256^(n-1)) *)
Lemma twos_range b tl : bytes_ok (b :: tl) ->
  - (128 * 256 ^ zlen tl) <= twos_value (b :: tl) < 128 * 256 ^ zlen tl.
Proof.
  intros Hok. apply bytes_ok_inv in Hok. destruct Hok as [Hb Htl].
  pose proof (be_val_bound tl Htl) as Hv. pose proof (zlen_pos_pow tl) as HP.
  rewrite twos_value_cons. unfold sbyte.
  set (P := 256 ^ zlen tl) in *. set (V := be_val tl) in *.
  destruct (128 <=? b) eqn:E.
  - assert (128 * P <= b * P <= 255 * P) by nia. lia.
  - assert (0 <= b * P <= 127 * P) by nia. lia.
Qed.

Lemma pow256_mono (m n : Z) : 0 <= m <= n -> 256 ^ m <= 256 ^ n.
Proof. intros H. apply Z.pow_le_mono_r; lia. Qed.

(* a minimal form that is longer denotes a number further from zero *)
Lemma shorter_smaller a b :
  bytes_ok a -> bytes_ok b -> a <> [] -> minimal_twos b = true ->
  (length a < length b)%nat ->
  (0 <= twos_value b -> twos_value a < twos_value b) /\
  (twos_value b < 0 -> twos_value b < twos_value a).
Proof.
  intros Ha Hb Hane Hmin Hlen.
  destruct a as [|x ta]; [congruence|].
  destruct b as [|y [|y1 tb]]; [cbn in Hlen; lia|cbn in Hlen; lia|].
  pose proof (twos_range x ta Ha) as Hra.
  pose proof (minimal_big y y1 tb Hb Hmin) as Hbig.
  assert (Hp : 256 ^ zlen ta <= 256 ^ zlen tb).
  { apply pow256_mono. pose proof (zlen_nonneg ta). unfold zlen in *. cbn [length] in Hlen. lia. }
  pose proof (zlen_pos_pow tb). split; intros Hs; lia.
Qed.

Lemma memcmp_be_val : forall a b, length a = length b -> bytes_ok a -> bytes_ok b ->
  memcmp a b = (be_val a ?= be_val b).
Proof.
  induction a as [|x a IH]; intros [|y b] Hlen Ha Hb; try discriminate; [reflexivity|].
  apply bytes_ok_inv in Ha. destruct Ha as [Hx Ha].
  apply bytes_ok_inv in Hb. destruct Hb as [Hy Hb].
  injection Hlen as Hlen. cbn [memcmp be_val].
  pose proof (be_val_bound a Ha) as Hva. pose proof (be_val_bound b Hb) as Hvb.
  assert (Hz : zlen b = zlen a) by (unfold zlen; lia). rewrite Hz in *.
  pose proof (zlen_pos_pow a) as HP. set (P := 256 ^ zlen a) in *.
  destruct (x ?= y) eqn:E.
  - apply Z.compare_eq in E. subst y. rewrite (IH b Hlen Ha Hb).
    destruct (be_val a ?= be_val b) eqn:E2; symmetry.
    + apply Z.compare_eq in E2. apply Z.compare_eq_iff. lia.
    + rewrite Z.compare_lt_iff in *. lia.
    + rewrite Z.compare_gt_iff in *. lia.
  - symmetry. rewrite Z.compare_lt_iff in *. nia.
  - symmetry. rewrite Z.compare_gt_iff in *. nia.
Qed.

Lemma twos_be_val bs : bs <> [] ->
  twos_value bs = be_val bs - (if is_neg bs then 256 ^ zlen bs else 0).
Proof.
  destruct bs as [|b tl]; [congruence|]. intros _. unfold twos_value, is_neg.
  destruct (128 <=? b); ring.
Qed.

(* compare_struct of two INTEGER_t is the order of their values, whatever the
   number of sign-extension octets in either buffer *)
Theorem int_compare_value a b :
  bytes_ok a -> bytes_ok b -> a <> [] -> b <> [] ->
  int_compare a b = (twos_value a ?= twos_value b).
Proof.
  intros Ha Hb Hane Hbne.
  destruct (strip_spec a Ha Hane) as (Eva & Hma & Hoa & _ & Hnea).
  destruct (strip_spec b Hb Hbne) as (Evb & Hmb & Hob & _ & Hneb).
  pose proof (is_neg_value a Ha Hane) as Hsa. pose proof (is_neg_value b Hb Hbne) as Hsb.
  pose proof (is_neg_value _ Hoa Hnea) as Hsa'. pose proof (is_neg_value _ Hob Hneb) as Hsb'.
  rewrite Eva in Hsa'. rewrite Evb in Hsb'.
  unfold int_compare.
  destruct (is_neg a && negb (is_neg b)) eqn:E1.
  { symmetry. apply Z.compare_lt_iff. lia. }
  destruct (negb (is_neg a) && is_neg b) eqn:E2.
  { symmetry. apply Z.compare_gt_iff. lia. }
  assert (Hsame : is_neg a = is_neg b) by (destruct (is_neg a), (is_neg b); cbn in *; congruence).
  destruct (length (strip a) <? length (strip b))%nat eqn:L1.
  { destruct (shorter_smaller (strip a) (strip b) Hoa Hob Hnea Hmb ltac:(lia)) as [Hp Hn].
    rewrite Eva, Evb in *. symmetry.
    destruct (is_neg a) eqn:Ea; [apply Z.compare_gt_iff|apply Z.compare_lt_iff]; lia. }
  destruct (length (strip b) <? length (strip a))%nat eqn:L2.
  { destruct (shorter_smaller (strip b) (strip a) Hob Hoa Hneb Hma ltac:(lia)) as [Hp Hn].
    rewrite Eva, Evb in *. symmetry.
    destruct (is_neg b) eqn:Eb; [apply Z.compare_lt_iff|apply Z.compare_gt_iff]; lia. }
  assert (Hlen : length (strip a) = length (strip b)) by lia.
  rewrite (memcmp_be_val _ _ Hlen Hoa Hob).
  rewrite <- Eva, <- Evb, (twos_be_val _ Hnea), (twos_be_val _ Hneb).
  assert (Hs' : is_neg (strip a) = is_neg (strip b)) by congruence.
  rewrite Hs'. unfold zlen. rewrite Hlen.
  destruct (be_val (strip a) ?= be_val (strip b)) eqn:E; symmetry.
  - apply Z.compare_eq in E. apply Z.compare_eq_iff. lia.
  - rewrite Z.compare_lt_iff in *. lia.
  - rewrite Z.compare_gt_iff in *. lia.
Qed.

(* in particular: two representations of one value compare equal, and the
   answer does not change when either operand is replaced by another
   representation of its value *)
Corollary int_compare_same_value a1 a2 b1 b2 :
  bytes_ok a1 -> bytes_ok a2 -> bytes_ok b1 -> bytes_ok b2 ->
  a1 <> [] -> a2 <> [] -> b1 <> [] -> b2 <> [] ->
  twos_value a1 = twos_value a2 -> twos_value b1 = twos_value b2 ->
  int_compare a1 b1 = int_compare a2 b2.
Proof.
  intros. rewrite !int_compare_value by assumption. congruence.
Qed.

Example int_compare_witnesses :
  int_compare [0; 0; 1; 0] [1; 0] = Eq /\ int_compare [254] [255] = Lt /\
  int_compare [255; 127] [255; 0] = Gt /\ int_compare [255; 255; 128] [128] = Eq /\
  int_compare [0; 128] [127] = Gt.
Proof. repeat split; vm_compute; reflexivity. Qed.
