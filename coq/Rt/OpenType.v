(* Rt/OpenType.v — open types governed by an information object set (C18).
   Executable model, no proofs (they are in OpenTypeProofs.v).

   What is modelled, and where it is in /repo:
   - the information object set as the compiler sees it (an [objset]: a
     comma-separated list of element sets, each a union of objects) and the
     table the compiler emits for it ([compile_table]: libasn1fix/asn1fix_cws.c
     builds the rows, libasn1compiler/asn1c_ioc.c emits the asn_IOS_* cells);
   - the generated selector `select_<Type>_<member>_type` ([select]: first row
     whose identifier cell compares equal, by the cell type's compare_struct,
     to the decoded identifier member; result = presence index - 1 and the
     row's type cells);
   - a SEQUENCE { id, open-type members } ([frame]): DER encoder
     (constr_SEQUENCE.c + OPEN_TYPE_encode_der = CHOICE_encode_der: the open
     type is the inner TLV, under the member's EXPLICIT tag if it has one) and
     BER decoder (SEQUENCE_decode_ber + OPEN_TYPE_ber_get), UPER encoder and
     decoder (OPEN_TYPE_encode_uper / OPEN_TYPE_uper_get, per_opentype.c:
     length-prefixed octets holding the complete inner encoding).
   An open-type member without a tag of its own is decoded by the selected
   type directly (SEQUENCE_decode_ber accepts any tag for such a member, as it
   does for ANY).  Identifier values are [VInt] (INTEGER identifiers,
   NativeInteger cells) or [VOct] (OBJECT IDENTIFIER identifiers: the contents
   octets; OBJECT_IDENTIFIER_t is an OCTET STRING to compare_struct). *)
From Coq Require Import ZArith List Bool.
From A1 Require Import Base.Bytes Leaf.IntegerConv Leaf.BerTL Rt.Types Rt.Comb Rt.Der Rt.Uper.
Import ListNotations.
Local Open Scope Z_scope.

(* ---------------- identifier comparison (compare_struct == 0) ---------------- *)

Fixpoint bytes_eqb (a b : list Z) : bool :=
  match a, b with
  | [], [] => true
  | x :: a', y :: b' => (x =? y) && bytes_eqb a' b'
  | _, _ => false
  end.

(* NativeInteger_compare on two longs; OCTET_STRING_compare on two OBJECT_IDENTIFIER_t *)
Definition id_eqb (a b : val) : bool :=
  match a, b with
  | VInt x, VInt y => x =? y
  | VOct x, VOct y => bytes_eqb x y
  | _, _ => false
  end.

(* ---------------- tables ---------------- *)

(* a row: the identifier cell and one type cell per open-type member of the frame *)
Definition row := (val * list ty)%type.
Definition table := list row.

Definition select_from (v : val) : table -> nat -> option (nat * list ty) :=
  fix go tbl i :=
    match tbl with
    | [] => None
    | r :: tl => if id_eqb v (fst r) then Some (i, snd r) else go tl (S i)
    end.

(* the generated selector: row index (presence_index - 1) and the row's type cells *)
Definition select (tbl : table) (v : val) : option (nat * list ty) := select_from v tbl O.

Definition select_col (tbl : table) (v : val) (j : nat) : option (nat * ty) :=
  match select tbl v with
  | Some (i, tys) => match nth_error tys j with Some t => Some (i, t) | None => None end
  | None => None
  end.

(* the object set as written: element sets separated by commas (the extension
   marker contributes nothing), each a union of objects *)
Definition objset := list (list row).

(* X.681: the set contains every object written in it *)
Definition spec_table (s : objset) : table := concat s.

(* asn1fix_cws.c:_asn1f_foreach_unparsed handles unions; an element set made of
   one object alone (ACT_EL_VALUE) is skipped *)
Definition compile_group (g : list row) : list row :=
  match g with
  | [_] => []
  | _ => g
  end.

(* asn1c_ioc.c:emit_ioc_value: an OBJECT IDENTIFIER value becomes { "not supported", 0 } *)
Definition compile_cell (v : val) : val :=
  match v with
  | VOct _ => VOct []
  | _ => v
  end.

Definition compile_table (s : objset) : table :=
  map (fun r => (compile_cell (fst r), snd r)) (concat (map compile_group s)).

(* ---------------- frames ---------------- *)

Record frame := Frame {
  f_idt : ty;                   (* the identifier member, with its effective tag *)
  f_opens : list (option Z);    (* the open-type members: EXPLICIT tag, or none *)
  f_tbl : table                 (* the table the generated code holds *)
}.

(* an open-type member's value: presence index - 1 (= row) and the inner value *)
Definition oval := (nat * val)%type.
Definition fval := (val * list oval)%type.

Definition seq_tag : Z := utag 16.

Definition row_types (tbl : table) (p : nat) : list ty :=
  match nth_error tbl p with
  | Some r => snd r
  | None => []
  end.

Definition wrap (tag : option Z) (b : list Z) : list Z :=
  match tag with
  | Some tg => tlv tg true b
  | None => b
  end.

(* CHOICE_encode_der of the open-type structure: the present alternative's own encoding *)
Fixpoint der_opens (tbl : table) (tags : list (option Z)) (j : nat) (ovs : list oval) : option (list Z) :=
  match tags, ovs with
  | [], [] => Some []
  | tag :: tags', ov :: ovs' =>
      match nth_error (row_types tbl (fst ov)) j with
      | Some t =>
          match der t (snd ov), der_opens tbl tags' (S j) ovs' with
          | Some b, Some r => Some (wrap tag b ++ r)
          | _, _ => None
          end
      | None => None
      end
  | _, _ => None
  end.

Definition der_frame (f : frame) (fv : fval) : option (list Z) :=
  match der (f_idt f) (fst fv), der_opens (f_tbl f) (f_opens f) O (snd fv) with
  | Some a, Some b => Some (tlv seq_tag true (a ++ b))
  | _, _ => None
  end.

(* OPEN_TYPE_ber_get under SEQUENCE_decode_ber: the selected type's decoder runs on
   the member's bytes; no other row is tried.  Without a tag of its own the member
   has tag -1 in the member table and no entry in tag2el: the SEQUENCE decoder
   hands whatever tag comes to the member (like ANY), i.e. to the selected type. *)
Definition dec_open (tag : option Z) (t : ty) (bs : list Z) : option (val * list Z) :=
  match tag with
  | Some tg => in_cons tg bs (ber_dec t)
  | None => ber_dec t bs
  end.

Fixpoint dec_opens (tags : list (option Z)) (tys : list ty) (i : nat) (bs : list Z)
  : option (list oval * list Z) :=
  match tags with
  | [] => Some ([], bs)
  | tag :: tags' =>
      match tys with
      | t :: tys' =>
          match dec_open tag t bs with
          | Some (v, r) =>
              match dec_opens tags' tys' i r with
              | Some (ovs, r') => Some ((i, v) :: ovs, r')
              | None => None
              end
          | None => None
          end
      | [] => None
      end
  end.

Definition dec_frame_body (f : frame) (c : list Z) : option (fval * list Z) :=
  match ber_dec (f_idt f) c with
  | Some (idv, r) =>
      match f_opens f with
      | [] => Some ((idv, []), r)
      | _ =>
          match select (f_tbl f) idv with
          | Some (i, tys) =>
              match dec_opens (f_opens f) tys i r with
              | Some (ovs, r') => Some ((idv, ovs), r')
              | None => None
              end
          | None => None
          end
      end
  | None => None
  end.

Definition ber_dec_frame (f : frame) (bs : list Z) : option (fval * list Z) :=
  in_cons seq_tag bs (dec_frame_body f).

Definition ber_decode_frame (f : frame) (bs : list Z) : option (fval * Z) :=
  match ber_dec_frame f bs with
  | Some (v, rest) => Some (v, zlen bs - zlen rest)
  | None => None
  end.

(* ---------------- UPER ---------------- *)

(* uper_open_type_put: the complete inner encoding (at least one octet) behind a
   general length determinant, fragmented at 16K *)
Definition uper_open (t : ty) (v : val) : option (list bool) :=
  match uper_encode false t v with
  | Some bytes => Some (counted (map byte_bits bytes))
  | None => None
  end.

Fixpoint uper_opens (tbl : table) (j : nat) (ovs : list oval) : option (list bool) :=
  match ovs with
  | [] => Some []
  | ov :: ovs' =>
      match nth_error (row_types tbl (fst ov)) j with
      | Some t =>
          match uper_open t (snd ov), uper_opens tbl (S j) ovs' with
          | Some b, Some r => Some (b ++ r)
          | _, _ => None
          end
      | None => None
      end
  end.

(* the frame has no OPTIONAL member and no extension marker: no preamble *)
Definition uper_frame (f : frame) (fv : fval) : option (list Z) :=
  if negb (length (snd fv) =? length (f_opens f))%nat then None else
  match uper false (f_idt f) (fst fv), uper_opens (f_tbl f) O (snd fv) with
  | Some a, Some b =>
      match a ++ b with
      | [] => Some [0]
      | bits => Some (bits_to_bytes bits)
      end
  | _, _ => None
  end.

(* uper_open_type_get_simple: collect the fragments, decode the selected type from
   them, then at most 7 zero padding bits may remain (X.691 10.1.3: or one whole
   zero octet when the inner encoding is empty) *)
Definition uper_dec_open (t : ty) (bs : list bool) : option (val * list bool) :=
  match get_counted get_octet (S (length bs)) bs with
  | Some (bytes, r) =>
      let ib := bytes_bits bytes in
      match uper_dec false t ib with
      | Some (v, pad) =>
          if ((length pad <? 8)%nat || ((length pad =? length ib)%nat && (length ib =? 8)%nat))
             && forallb negb pad
          then Some (v, r) else None
      | None => None
      end
  | None => None
  end.

Fixpoint uper_dec_opens (n : nat) (tys : list ty) (i : nat) (bs : list bool)
  : option (list oval * list bool) :=
  match n with
  | O => Some ([], bs)
  | S n' =>
      match tys with
      | t :: tys' =>
          match uper_dec_open t bs with
          | Some (v, r) =>
              match uper_dec_opens n' tys' i r with
              | Some (ovs, r') => Some ((i, v) :: ovs, r')
              | None => None
              end
          | None => None
          end
      | [] => None
      end
  end.

Definition uper_dec_frame (f : frame) (bs : list bool) : option (fval * list bool) :=
  match uper_dec false (f_idt f) bs with
  | Some (idv, r) =>
      match f_opens f with
      | [] => Some ((idv, []), r)
      | _ =>
          match select (f_tbl f) idv with
          | Some (i, tys) =>
              match uper_dec_opens (length (f_opens f)) tys i r with
              | Some (ovs, r') => Some ((idv, ovs), r')
              | None => None
              end
          | None => None
          end
      end
  | None => None
  end.

Definition uper_decode_frame (f : frame) (bytes : list Z) : option (fval * Z) :=
  match uper_dec_frame f (bytes_bits bytes) with
  | Some (v, rest) =>
      let used := zlen (bytes_bits bytes) - zlen rest in
      Some (v, Z.max 1 ((used + 7) / 8))
  | None => None
  end.
