(* Rt/DefaultRtProofs.v — C01: encode-then-decode of an extensible SEQUENCE with DEFAULT
   components (root and extension additions) gives back a structure that denotes the same
   abstract value (component by component equal, or both at the DEFAULT), everything
   consumed, in OER, unaligned PER and DER/BER; equivalent structures have the same DER /
   UPER / OER encodings (so a transcoding chain never changes the octets); the encoder that
   writes the presence bitmap of the additions from pointer presence (seeded change C01-7)
   agrees with the real one exactly when no addition is stored with its DEFAULT value, and
   its output is not decodable otherwise (witness = the seed's own value). *)
From Coq Require Import ZArith List Bool Lia.
From A1 Require Import Base.Bytes Leaf.BerTL Rt.Types Rt.Comb Rt.Der Rt.Uper Rt.UperBits Rt.Oer Rt.DerProofs Rt.UperProofs Rt.OerProofs
  Rt.Ext Rt.ExtFormat Rt.ExtProofs Rt.Canonical Rt.CanonicalDefault Rt.CanonicalDefaultProofs Rt.DefaultRt.
Import ListNotations.
Local Open Scope Z_scope.

(* ---------------- the relation between what is encoded and what comes back ---------------- *)

Lemma rel_elide1 d v : dflt_rel d v (elide1 d v).
Proof.
  destruct d as [dv|]; [|left; reflexivity].
  destruct v; try (left; reflexivity).
  cbn [elide1]. destruct (leaf_eqb v dv) eqn:E; [|left; reflexivity].
  right. exists dv. split; [reflexivity|]. split; [right; exists v; split; [reflexivity|exact E]|left; reflexivity].
Qed.

Lemma rel_fill_elide1 d v : dflt_leaf d -> dflt_rel d v (fill1 d (elide1 d v)).
Proof.
  destruct d as [dv|]; intros Hl; [|left; reflexivity]. cbn [dflt_leaf] in Hl.
  destruct v; try (left; reflexivity).
  - (* absent: the DEFAULT is filled in *)
    right. exists dv. split; [reflexivity|]. split; [left; reflexivity|].
    right. exists dv. split; [reflexivity|exact Hl].
  - cbn [elide1]. destruct (leaf_eqb v dv) eqn:E; [|left; reflexivity].
    right. exists dv. split; [reflexivity|]. split; [right; exists v; split; [reflexivity|exact E]|].
    right. exists dv. split; [reflexivity|exact Hl].
Qed.

Lemma rel_elide : forall ds vs, length ds = length vs -> Forall3 dflt_rel ds vs (elide ds vs).
Proof.
  induction ds as [|d ds IH]; intros [|v vs] Hl; cbn [length] in Hl; try discriminate; [constructor|].
  cbn [elide]. constructor; [apply rel_elide1|apply IH; lia].
Qed.

Lemma rel_fill_elide : forall ds vs, length ds = length vs -> Forall dflt_leaf ds ->
  Forall3 dflt_rel ds vs (fill ds (elide ds vs)).
Proof.
  induction ds as [|d ds IH]; intros [|v vs] Hl Hf; cbn [length] in Hl; try discriminate; [constructor|].
  cbn [elide fill]. inversion Hf; subst. constructor; [apply rel_fill_elide1; assumption|apply IH; [lia|assumption]].
Qed.

Lemma elide_length : forall ds vs, length (elide ds vs) = length vs.
Proof.
  induction ds as [|d ds IH]; intros [|v vs]; try reflexivity. cbn [elide length]. rewrite IH. reflexivity.
Qed.

Lemma elide_app : forall d1 d2 v1 v2, length d1 = length v1 -> elide (d1 ++ d2) (v1 ++ v2) = elide d1 v1 ++ elide d2 v2.
Proof.
  induction d1 as [|d d1 IH]; intros d2 [|v v1] v2 Hl; cbn [length] in Hl; try discriminate; [reflexivity|].
  cbn [app elide]. rewrite IH by lia. reflexivity.
Qed.

(* ---------------- equivalent structures: the same octets in every syntax ---------------- *)

Theorem dflt_equiv_same_der dr da t v1 v2 : dflt_equiv dr da v1 v2 -> dfl_der dr da t v1 = dfl_der dr da t v2.
Proof.
  intros H. destruct v1 as [r1 a1|i1 x1]; destruct v2 as [r2 a2|i2 x2]; cbn [dflt_equiv] in H;
    try discriminate; [|rewrite H; reflexivity].
  destruct H as [Hr Ha]. apply dfl_der_indep; assumption.
Qed.

Theorem dflt_equiv_same_uper std dr da t v1 v2 : dflt_equiv dr da v1 v2 -> dfl_uper std dr da t v1 = dfl_uper std dr da t v2.
Proof.
  intros H. destruct v1 as [r1 a1|i1 x1]; destruct v2 as [r2 a2|i2 x2]; cbn [dflt_equiv] in H;
    try discriminate; [|rewrite H; reflexivity].
  destruct H as [Hr Ha]. apply dfl_uper_indep; assumption.
Qed.

Theorem dflt_equiv_same_oer dr da t v1 v2 : dflt_equiv dr da v1 v2 -> dfl_oer dr da t v1 = dfl_oer dr da t v2.
Proof.
  intros H. destruct v1 as [r1 a1|i1 x1]; destruct v2 as [r2 a2|i2 x2]; cbn [dflt_equiv] in H;
    try discriminate; [|rewrite H; reflexivity].
  destruct H as [Hr Ha]. apply dfl_oer_indep; assumption.
Qed.

(* ---------------- typing survives elision ---------------- *)

Lemma adds_ok_length ok : forall ts vs, adds_ok ok ts vs -> length vs = length ts.
Proof.
  induction ts as [|t ts IH]; intros [|v vs] H; cbn [adds_ok] in H; try contradiction; [reflexivity|].
  destruct v; try contradiction; cbn [length]; f_equal; [apply IH; exact H|apply IH; apply H].
Qed.

Lemma adds_ok_elide ok : forall ts ds vs, adds_ok ok ts vs -> adds_ok ok ts (elide ds vs).
Proof.
  induction ts as [|t ts IH]; intros ds vs H; destruct vs as [|v vs]; destruct ds as [|d ds]; cbn [elide]; try exact H.
  destruct v; cbn [adds_ok] in H; try contradiction.
  - replace (elide1 d VNone) with VNone by (destruct d; reflexivity). cbn [adds_ok]. apply IH; exact H.
  - destruct H as [H1 H2]. destruct d as [dv|]; cbn [elide1].
    + destruct (leaf_eqb v dv); cbn [adds_ok]; [apply IH; exact H2|split; [exact H1|apply IH; exact H2]].
    + cbn [adds_ok]. split; [exact H1|apply IH; exact H2].
Qed.

(* OER *)
Lemma wt_oer_some_none : forall m x, wt_oer m (VSome x) = true -> wt_oer m VNone = true.
Proof. induction m; intros x H; cbn [wt_oer] in *; try discriminate; eauto. Qed.

Lemma wt_oer_elide1 m d v : wt_oer m v = true -> wt_oer m (elide1 d v) = true.
Proof.
  intros H. destruct d as [dv|]; [|exact H]. destruct v; try exact H.
  cbn [elide1]. destruct (leaf_eqb v dv); [eapply wt_oer_some_none; exact H|exact H].
Qed.

Lemma wt_oer_seq_elide tg : forall ms ds vs,
  wt_oer (TSeq tg ms) (VSeq vs) = true -> wt_oer (TSeq tg ms) (VSeq (elide ds vs)) = true.
Proof.
  induction ms as [|m ms IH]; intros ds vs H; destruct vs as [|v vs]; destruct ds as [|d ds]; cbn [elide]; try exact H.
  cbn [wt_oer] in H |- *. apply andb_true_iff in H. destruct H as [H1 H2]. apply andb_true_iff. split.
  - apply wt_oer_elide1; exact H1.
  - exact (IH ds vs H2).
Qed.

Lemma wt_oer_seq_length tg : forall ms vs, wt_oer (TSeq tg ms) (VSeq vs) = true -> length vs = length ms.
Proof.
  induction ms as [|m ms IH]; intros [|v vs] H; cbn [wt_oer] in H; try discriminate; [reflexivity|].
  apply andb_true_iff in H. destruct H as [_ H2]. cbn [length]. f_equal. exact (IH vs H2).
Qed.

(* unaligned PER *)
Lemma wt_uper_some_none std : forall m x, wt_uper std m (VSome x) = true -> wt_uper std m VNone = true.
Proof. induction m; intros x H; cbn [wt_uper] in *; try discriminate; eauto. Qed.

Lemma wt_uper_elide1 std m d v : wt_uper std m v = true -> wt_uper std m (elide1 d v) = true.
Proof.
  intros H. destruct d as [dv|]; [|exact H]. destruct v; try exact H.
  cbn [elide1]. destruct (leaf_eqb v dv); [eapply wt_uper_some_none; exact H|exact H].
Qed.

Lemma wt_uper_seq_elide std tg : forall ms ds vs,
  wt_uper std (TSeq tg ms) (VSeq vs) = true -> wt_uper std (TSeq tg ms) (VSeq (elide ds vs)) = true.
Proof.
  induction ms as [|m ms IH]; intros ds vs H; destruct vs as [|v vs]; destruct ds as [|d ds]; cbn [elide]; try exact H.
  cbn [wt_uper] in H |- *. apply andb_true_iff in H. destruct H as [H1 H2]. apply andb_true_iff. split.
  - apply wt_uper_elide1; exact H1.
  - exact (IH ds vs H2).
Qed.

Lemma wt_uper_seq_length std tg : forall ms vs, wt_uper std (TSeq tg ms) (VSeq vs) = true -> length vs = length ms.
Proof.
  induction ms as [|m ms IH]; intros [|v vs] H; cbn [wt_uper] in H; try discriminate; [reflexivity|].
  apply andb_true_iff in H. destruct H as [_ H2]. cbn [length]. f_equal. exact (IH vs H2).
Qed.

(* DER *)
Lemma wt_some_none : forall m x, wt m (VSome x) = true -> wt m VNone = true.
Proof. induction m; intros x H; cbn [wt] in *; try discriminate; eauto. Qed.

Lemma wt_elide1 m d v : wt m v = true -> wt m (elide1 d v) = true.
Proof.
  intros H. destruct d as [dv|]; [|exact H]. destruct v; try exact H.
  cbn [elide1]. destruct (leaf_eqb v dv); [eapply wt_some_none; exact H|exact H].
Qed.

Lemma wt_seq_elide tg : forall ms ds vs,
  wt (TSeq tg ms) (VSeq vs) = true -> wt (TSeq tg ms) (VSeq (elide ds vs)) = true.
Proof.
  induction ms as [|m ms IH]; intros ds vs H; destruct vs as [|v vs]; destruct ds as [|d ds]; cbn [elide]; try exact H.
  cbn [wt] in H |- *. apply andb_true_iff in H. destruct H as [H1 H2]. apply andb_true_iff. split.
  - apply wt_elide1; exact H1.
  - exact (IH ds vs H2).
Qed.

Lemma wt_seq_length tg : forall ms vs, wt (TSeq tg ms) (VSeq vs) = true -> length vs = length ms.
Proof.
  induction ms as [|m ms IH]; intros [|v vs] H; cbn [wt] in H; try discriminate; [reflexivity|].
  apply andb_true_iff in H. destruct H as [_ H2]. cbn [length]. f_equal. exact (IH vs H2).
Qed.

(* ---------------- OER ---------------- *)

Theorem dfl_oer_roundtrip_in_stream dr da t v bs rest :
  wf_ety_oer t = true -> wt_ety_oer t v -> dflt_shape dr da t ->
  dfl_oer dr da t v = Some bs ->
  exists v', dfl_oer_dec dr da t (bs ++ rest) = Some (v', rest) /\ dflt_equiv dr da v v'.
Proof.
  intros Hwf Hwt Hsh He. unfold dfl_oer in He.
  destruct t as [tg root adds|root exts]; destruct v as [rvs avs|i v'];
    try (cbn [wt_ety_oer] in Hwt; contradiction).
  - cbn [elide_v] in He. cbn [wt_ety_oer] in Hwt. destruct Hwt as [Hr Ha].
    cbn [dflt_shape] in Hsh. destruct Hsh as (Lr & La & Fr & Fa).
    assert (Hwt' : wt_ety_oer (ESeq tg root adds) (EVSeq (elide dr rvs) (elide da avs))).
    { cbn [wt_ety_oer]. split; [apply wt_oer_seq_elide; exact Hr|apply adds_ok_elide; exact Ha]. }
    pose proof (ext_oer_roundtrip_in_stream _ _ bs rest Hwf Hwt' He) as Hd.
    unfold dfl_oer_dec. rewrite Hd.
    assert (Lr' : length dr = length rvs) by (rewrite (wt_oer_seq_length _ _ _ Hr); exact Lr).
    assert (La' : length da = length avs) by (rewrite (adds_ok_length _ _ _ Ha); exact La).
    eexists. split; [reflexivity|]. cbn [dflt_equiv]. split.
    + apply rel_fill_elide; assumption.
    + destruct (oer_ext_bit (bs ++ rest)); [apply rel_fill_elide|apply rel_elide]; assumption.
  - cbn [elide_v] in He. pose proof (ext_oer_roundtrip_in_stream _ _ bs rest Hwf Hwt He) as Hd.
    unfold dfl_oer_dec. rewrite Hd. eexists. split; reflexivity.
Qed.

(* complete encodings: exactly the octets produced are consumed, and the structure that comes back has the
   same DER / OER / UPER encodings as the one that went in *)
Theorem dfl_oer_roundtrip dr da t v bs :
  wf_ety_oer t = true -> wt_ety_oer t v -> dflt_shape dr da t ->
  dfl_oer dr da t v = Some bs ->
  exists v', dfl_oer_decode dr da t bs = Some (v', zlen bs) /\ dflt_equiv dr da v v' /\
             dfl_der dr da t v' = dfl_der dr da t v /\ dfl_oer dr da t v' = Some bs.
Proof.
  intros Hwf Hwt Hsh He.
  destruct (dfl_oer_roundtrip_in_stream dr da t v bs [] Hwf Hwt Hsh He) as (v' & Hd & Hq).
  rewrite app_nil_r in Hd. exists v'. unfold dfl_oer_decode. rewrite Hd.
  split; [f_equal; f_equal; unfold zlen; cbn [length]; lia|].
  split; [exact Hq|]. split; [symmetry; apply dflt_equiv_same_der; exact Hq|].
  rewrite <- (dflt_equiv_same_oer dr da t v v' Hq). exact He.
Qed.

(* the extension bit the decoder reads in the first octet is the one the encoder computed: "some addition is present
   after elision" *)
Lemma first_byte_bit (any : bool) (l : list bool) :
  exists b tl, bits_to_bytes (any :: l) = b :: tl /\ (128 <=? b) = any.
Proof.
  unfold bits_to_bytes. cbn [length pack_bits].
  eexists. eexists. split; [reflexivity|].
  change (firstn 8 (any :: l)) with (any :: firstn 7 l). set (t := firstn 7 l).
  assert (Hk : 0 <= zlen t <= 7).
  { unfold zlen, t. pose proof (firstn_le_length 7 l). lia. }
  pose proof (bits_val_bound t) as Hb.
  rewrite zlen_cons. cbn [bits_val].
  replace (8 - (zlen t + 1)) with (7 - zlen t) by lia.
  set (k := zlen t) in *. set (P := 2 ^ k) in *. set (Q := 2 ^ (7 - k)).
  assert (HPQ : P * Q = 128).
  { unfold P, Q. rewrite <- Z.pow_add_r by lia. replace (k + (7 - k)) with 7 by lia. reflexivity. }
  assert (HQ : 0 < Q) by (apply Z.pow_pos_nonneg; lia).
  destruct any.
  - apply Z.leb_le. nia.
  - apply Z.leb_gt. nia.
Qed.

Lemma oer_ext_bit_enc tg root adds rvs avs bs rest :
  ext_oer (ESeq tg root adds) (EVSeq rvs avs) = Some bs ->
  oer_ext_bit (bs ++ rest) = existsb is_present avs.
Proof.
  cbn [ext_oer].
  destruct (enc_members oer root rvs) as [body|]; [|discriminate].
  destruct (enc_additions oer oer_open adds avs) as [ots|]; [|discriminate].
  cbv zeta.
  destruct (first_byte_bit (existsb is_present avs) (presence_bits root rvs)) as (b & tl & Hb & Hbit).
  rewrite Hb.
  destruct (existsb is_present avs) eqn:Eany.
  - destruct (oer_ext_bitmap (map is_present avs)) as [bm|]; [|discriminate].
    intros H. apply some_inj in H. subst bs. cbn [app oer_ext_bit]. exact Hbit.
  - intros H. apply some_inj in H. subst bs. cbn [app oer_ext_bit]. exact Hbit.
Qed.

(* the structure SEQUENCE_decode_oer leaves behind, exactly: the root DEFAULTs always stored; the DEFAULTs of the
   additions stored when some addition was encoded (extension bit set), all additions absent otherwise *)
Theorem dfl_oer_roundtrip_exact dr da tg root adds rvs avs bs rest :
  wf_ety_oer (ESeq tg root adds) = true -> wt_ety_oer (ESeq tg root adds) (EVSeq rvs avs) ->
  dfl_oer dr da (ESeq tg root adds) (EVSeq rvs avs) = Some bs ->
  dfl_oer_dec dr da (ESeq tg root adds) (bs ++ rest) =
    Some (EVSeq (fill dr (elide dr rvs))
                (if existsb is_present (elide da avs) then fill da (elide da avs) else elide da avs), rest).
Proof.
  intros Hwf Hwt He. unfold dfl_oer in He. cbn [elide_v] in He.
  cbn [wt_ety_oer] in Hwt. destruct Hwt as [Hr Ha].
  assert (Hwt' : wt_ety_oer (ESeq tg root adds) (EVSeq (elide dr rvs) (elide da avs))).
  { cbn [wt_ety_oer]. split; [apply wt_oer_seq_elide; exact Hr|apply adds_ok_elide; exact Ha]. }
  pose proof (ext_oer_roundtrip_in_stream _ _ bs rest Hwf Hwt' He) as Hd.
  unfold dfl_oer_dec. rewrite Hd. rewrite (oer_ext_bit_enc _ _ _ _ _ _ rest He). reflexivity.
Qed.

(* ---------------- unaligned PER ---------------- *)

Theorem dfl_uper_roundtrip std dr da t v bytes :
  wf_ety_uper t = true -> wt_ety_uper std t v -> dflt_shape dr da t ->
  dfl_uper std dr da t v = Some bytes ->
  exists v', dfl_uper_decode std dr da t bytes = Some (v', zlen bytes) /\ dflt_equiv dr da v v' /\
             dfl_der dr da t v' = dfl_der dr da t v /\ dfl_uper std dr da t v' = Some bytes.
Proof.
  intros Hwf Hwt Hsh He.
  assert (Hex : exists v', dfl_uper_decode std dr da t bytes = Some (v', zlen bytes) /\ dflt_equiv dr da v v').
  { unfold dfl_uper in He.
    destruct t as [tg root adds|root exts]; destruct v as [rvs avs|i v'];
      try (cbn [wt_ety_uper] in Hwt; contradiction).
    - cbn [elide_v] in He. cbn [wt_ety_uper] in Hwt. destruct Hwt as [Hr Ha].
      cbn [dflt_shape] in Hsh. destruct Hsh as (Lr & La & Fr & Fa).
      assert (Hwt' : wt_ety_uper std (ESeq tg root adds) (EVSeq (elide dr rvs) (elide da avs))).
      { cbn [wt_ety_uper]. split; [apply wt_uper_seq_elide; exact Hr|apply adds_ok_elide; exact Ha]. }
      destruct (ext_uper_decode_roundtrip std _ _ bytes Hwf Hwt' He) as [Hd _].
      unfold dfl_uper_decode. rewrite Hd.
      assert (Lr' : length dr = length rvs) by (rewrite (wt_uper_seq_length _ _ _ _ Hr); exact Lr).
      assert (La' : length da = length avs) by (rewrite (adds_ok_length _ _ _ Ha); exact La).
      eexists. split; [reflexivity|]. cbn [dflt_equiv]. split; apply rel_fill_elide; assumption.
    - cbn [elide_v] in He. destruct (ext_uper_decode_roundtrip std _ _ bytes Hwf Hwt He) as [Hd _].
      unfold dfl_uper_decode. rewrite Hd. eexists. split; reflexivity. }
  destruct Hex as (v' & Hd & Hq). exists v'. split; [exact Hd|]. split; [exact Hq|].
  split; [symmetry; apply dflt_equiv_same_der; exact Hq|].
  rewrite <- (dflt_equiv_same_uper std dr da t v v' Hq). exact He.
Qed.

(* ---------------- DER written, BER read: nothing is filled in ---------------- *)

Theorem dfl_ber_roundtrip dr da t v bs :
  wf_ety_der t = true -> wt_ety_der t v = true -> dflt_shape dr da t ->
  dfl_der dr da t v = Some bs -> zlen bs <= rssize_max ->
  dfl_ber_decode dr da t bs = Some (elide_v dr da v, zlen bs) /\ dflt_equiv dr da v (elide_v dr da v).
Proof.
  intros Hwf Hwt Hsh He Hl. unfold dfl_der in He.
  destruct t as [tg root adds|root exts]; destruct v as [rvs avs|i v'];
    try (cbn [wt_ety_der] in Hwt; discriminate).
  - cbn [elide_v] in He |- *. cbn [dflt_shape] in Hsh. destruct Hsh as (Lr & La & Fr & Fa).
    assert (Lr' : length rvs = length root).
    { cbn [ext_der] in He. destruct (length (elide dr rvs) =? length root)%nat eqn:E; [|discriminate].
      apply Nat.eqb_eq in E. rewrite elide_length in E. exact E. }
    cbn [wt_ety_der] in Hwt.
    assert (La' : length avs = length adds).
    { pose proof (wt_seq_length _ _ _ Hwt) as H. unfold ext_seq_ty in H. rewrite !app_length, map_length in H. lia. }
    assert (Hwt' : wt_ety_der (ESeq tg root adds) (EVSeq (elide dr rvs) (elide da avs)) = true).
    { cbn [wt_ety_der]. rewrite <- elide_app by lia. apply wt_seq_elide. exact Hwt. }
    pose proof (ext_ber_decode_roundtrip _ _ bs Hwf Hwt' He Hl) as Hd.
    unfold dfl_ber_decode, dfl_ber_dec. unfold ext_ber_decode in Hd.
    destruct (ext_ber_dec (ESeq tg root adds) bs) as [[v1 r1]|]; [|discriminate].
    split; [exact Hd|]. cbn [dflt_equiv]. split; apply rel_elide; lia.
  - cbn [elide_v] in He |- *. pose proof (ext_ber_decode_roundtrip _ _ bs Hwf Hwt He Hl) as Hd.
    unfold dfl_ber_decode, dfl_ber_dec. unfold ext_ber_decode in Hd.
    destruct (ext_ber_dec (EChoice root exts) bs) as [[v1 r1]|]; [|discriminate].
    split; [exact Hd|reflexivity].
Qed.

(* ---------------- the bitmap written from pointer presence (seeded change C01-7) ---------------- *)

Theorem dfl_oer_ptr_bitmap_agrees dr da t rvs avs :
  elide da avs = avs ->
  dfl_oer_ptr_bitmap dr da t (EVSeq rvs avs) = dfl_oer dr da t (EVSeq rvs avs).
Proof.
  intros H. destruct t as [tg root adds|root exts]; [|reflexivity].
  unfold dfl_oer_ptr_bitmap, dfl_oer, elide_v, ext_oer. rewrite H. reflexivity.
Qed.

(* T ::= SEQUENCE { id INTEGER (0..255), ..., level INTEGER (0..100) DEFAULT 5, flag BOOLEAN DEFAULT TRUE,
                    note OCTET STRING (SIZE(0..8)) OPTIONAL }                        (seeded/C01-7/m.asn1) *)
Definition wit7_t : ety :=
  ESeq 64 [byte_ty 2] [TInt 6 (ICon (Some 0) (Some 100) false); TBool 10; TOct 14 (SCon 0 (Some 8) false)].
Definition wit7_dr : list (option val) := [None].
Definition wit7_da : list (option val) := [Some (VInt 5); Some (VBool true); None].
(* { id 200, level 5 (stored), flag TRUE (stored), note '616263'H } *)
Definition wit7_v : eval := EVSeq [VInt 200] [VSome (VInt 5); VSome (VBool true); VSome (VOct [97; 98; 99])].

Lemma wit7_shape : dflt_shape wit7_dr wit7_da wit7_t.
Proof.
  cbn [dflt_shape wit7_t wit7_dr wit7_da]. split; [reflexivity|]. split; [reflexivity|].
  split; repeat constructor.
Qed.

Lemma wit7_wt : wt_ety_oer wit7_t wit7_v.
Proof.
  cbn [wt_ety_oer wit7_t wit7_v]. split; [vm_compute; reflexivity|].
  cbn [adds_ok].
  assert (Hsz : forall (t : ty) (v : val) (c0 : list Z), oer t v = Some c0 -> zlen c0 <= 10 ->
                forall c, oer t v = Some c -> zlen c <= rssize_max).
  { intros t v c0 H0 Hl c H. rewrite H0 in H. apply some_inj in H. subst c. unfold rssize_max. lia. }
  split; [split; [vm_compute; reflexivity|apply (Hsz _ _ [5]); [vm_compute; reflexivity|vm_compute; discriminate]]|].
  split; [split; [vm_compute; reflexivity|apply (Hsz _ _ [255]); [vm_compute; reflexivity|vm_compute; discriminate]]|].
  split; [|exact I].
  split; [vm_compute; reflexivity|apply (Hsz _ _ [3; 97; 98; 99]); [vm_compute; reflexivity|vm_compute; discriminate]].
Qed.

(* the real encoder: 10 octets that come back; the changed one: a bitmap announcing three open types, one written *)
Theorem dfl_oer_ptr_bitmap_refuted :
  wf_ety_oer wit7_t = true /\ wt_ety_oer wit7_t wit7_v /\ dflt_shape wit7_dr wit7_da wit7_t /\
  dfl_oer wit7_dr wit7_da wit7_t wit7_v = Some [128; 200; 2; 5; 32; 4; 3; 97; 98; 99] /\
  dfl_oer_ptr_bitmap wit7_dr wit7_da wit7_t wit7_v = Some [128; 200; 2; 5; 224; 4; 3; 97; 98; 99] /\
  dfl_oer_dec wit7_dr wit7_da wit7_t [128; 200; 2; 5; 224; 4; 3; 97; 98; 99] = None.
Proof.
  split; [vm_compute; reflexivity|]. split; [exact wit7_wt|]. split; [exact wit7_shape|].
  split; [vm_compute; reflexivity|]. split; vm_compute; reflexivity.
Qed.

(* non-vacuity of the round trip: the same value through the real encoder; what comes back is NOT the structure
   that went in (the two DEFAULT additions are stored again because the extension bit was set) but equivalent *)
Theorem dfl_oer_roundtrip_example :
  dfl_oer_decode wit7_dr wit7_da wit7_t [128; 200; 2; 5; 32; 4; 3; 97; 98; 99] = Some (wit7_v, 10) /\
  dfl_oer_decode wit7_dr wit7_da wit7_t [0; 200] = Some (EVSeq [VInt 200] [VNone; VNone; VNone], 2) /\
  dfl_oer wit7_dr wit7_da wit7_t (EVSeq [VInt 200] [VSome (VInt 5); VSome (VBool true); VNone]) = Some [0; 200].
Proof. split; [vm_compute; reflexivity|]. split; vm_compute; reflexivity. Qed.
