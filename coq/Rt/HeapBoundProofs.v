(* Rt/HeapBoundProofs.v — C15: the heap the UPER string / list decoders hold is bounded by the
   INPUT, whatever the SIZE constraint declares.

   erasure     str_dec / lst_dec return exactly what the reference decoder [get_sized] returns,
               under either allocation policy: a policy changes no decoded value
   strings     PerFragment (the C): w * peak <= 2*U*|input bits| + w*(3*65536*U + 2)
               for EVERY SIZE constraint: the constant does not mention lb or ub
               (w = bits a unit takes at least, U = bytes a unit takes at most)
   strings     PreallocUb: for every input and every ub >= 64K the peak is >= mem ub + 1, so no
               pair (c, K) bounds the heap over the family SIZE(0..h): refuted
   lists       with the zero-width guard, at most |input bits| + 201 elements are ever held and
               peak <= (esz + 24) * (|input bits| + 201) + 32; PreallocUb refuted as for strings
   front ends  the same bounds for c15_str / c15_lst, the functions the check runs next to the C *)
From Coq Require Import ZArith List Bool Arith Lia ZifyBool.
From A1 Require Import Base.Bytes Rt.Types Rt.Comb Rt.Uper Rt.UperBits Rt.HeapBound.
Import ListNotations.
Local Open Scope Z_scope.

(* ------------------------------------------------------------------ bits *)

Lemma take_bits_len w : forall bs x r, take_bits w bs = Some (x, r) ->
  zlen r + Z.of_nat w = zlen bs /\ length x = w.
Proof.
  induction w as [|w IH]; intros bs x r H; cbn [take_bits] in H.
  - inversion H; subst. cbn. lia.
  - destruct bs as [|b tl]; [discriminate|].
    destruct (take_bits w tl) as [[x' r']|] eqn:E; [|discriminate].
    inversion H; subst. apply IH in E. destruct E as [E1 E2].
    rewrite zlen_cons. cbn [length]. lia.
Qed.

Lemma get_bits_len w bs n r : get_bits w bs = Some (n, r) ->
  zlen r + Z.of_nat w = zlen bs /\ 0 <= n < 2 ^ Z.of_nat w.
Proof.
  unfold get_bits. destruct (take_bits w bs) as [[x r']|] eqn:E; [|discriminate].
  intros H; inversion H; subst. apply take_bits_len in E. destruct E as [E1 E2].
  split; [exact E1|]. pose proof (bits_val_bound x) as B. unfold zlen in B. rewrite E2 in B. exact B.
Qed.

Lemma get_length_facts bs n more r : get_length bs = Some (n, more, r) ->
  0 <= n <= 65536 /\ zlen r + 8 <= zlen bs /\ (more = true -> 16384 <= n).
Proof.
  unfold get_length. destruct bs as [|b1 tl]; [discriminate|].
  destruct b1.
  - destruct tl as [|b2 tl2]; [discriminate|]. destruct b2.
    + destruct (get_bits 6 tl2) as [[m r']|] eqn:E; [|discriminate].
      destruct ((1 <=? m) && (m <=? 4)) eqn:Em; [|discriminate].
      intros H; inversion H; subst. apply get_bits_len in E. rewrite !zlen_cons. lia.
    + destruct (get_bits 14 tl2) as [[m r']|] eqn:E; [|discriminate].
      intros H; inversion H; subst. apply get_bits_len in E. rewrite !zlen_cons.
      change (2 ^ Z.of_nat 14) with 16384 in E. split; [lia|]. split; [lia|discriminate].
  - destruct (get_bits 7 tl) as [[m r']|] eqn:E; [|discriminate].
    intros H; inversion H; subst. apply get_bits_len in E. rewrite !zlen_cons.
    change (2 ^ Z.of_nat 7) with 128 in E. split; [lia|]. split; [lia|discriminate].
Qed.

Lemma pow2_range_bits r : 1 <= r -> 2 ^ Z.of_nat (range_bits r) < 2 * r.
Proof.
  intros H. unfold range_bits. rewrite Z2Nat.id by apply Z.log2_up_nonneg.
  destruct (Z.eq_dec r 1) as [->|N]; [cbn; lia|].
  assert (H1 : 1 < r) by lia. pose proof (Z.log2_up_spec r H1) as [S1 _].
  assert (P : 0 < Z.log2_up r) by (apply Z.log2_up_pos; lia).
  replace (Z.log2_up r) with (Z.succ (Z.pred (Z.log2_up r))) by lia.
  rewrite Z.pow_succ_r by lia. lia.
Qed.

(* ------------------------------------------------------------------ items *)
Section Items.
  Context {A : Type}.
  Variable item : list bool -> option (A * list bool).
  Variable w : Z.
  Hypothesis Hitem : forall bs a r, item bs = Some (a, r) -> zlen r + w <= zlen bs.

  Lemma items_len : forall k bs x r, dec_items item k bs = Some (x, r) ->
    zlen r + w * Z.of_nat k <= zlen bs /\ length x = k.
  Proof.
    induction k as [|k IH]; intros bs x r H; cbn [dec_items] in H.
    - inversion H; subst. cbn [length]. lia.
    - destruct (item bs) as [[a r1]|] eqn:E1; [|discriminate].
      destruct (dec_items item k r1) as [[x' r']|] eqn:E2; [|discriminate].
      inversion H; subst. apply Hitem in E1. apply IH in E2. destruct E2 as [E2 E3].
      cbn [length]. split; [lia|lia].
  Qed.
End Items.

(* ------------------------------------------------------------------ meter *)
Lemma peak_malloc m n : m_peak m <= m_peak (m_malloc m n).
Proof. cbn. lia. Qed.
Lemma peak_realloc m o n : m_peak m <= m_peak (m_realloc m o n).
Proof. cbn. lia. Qed.

(* ================================================================== strings *)
Section StrErase.
  Context {A : Type}.
  Variable item : list bool -> option (A * list bool).
  Variable mem : Z -> Z.

  Lemma str_frags_erase : forall fuel m buf size bs,
    fst (str_frags item mem fuel m buf size bs) = get_counted item fuel bs.
  Proof.
    induction fuel as [|f IH]; intros m buf size bs; cbn [str_frags get_counted]; [reflexivity|].
    destruct (get_length bs) as [[[n more] r]|] eqn:EL; [|reflexivity].
    destruct ((n =? 0) && match buf with Some _ => true | None => false end) eqn:EB.
    - apply get_length_facts in EL. destruct EL as [_ [_ EM]].
      assert (n = 0) by lia. subst n. destruct more; [specialize (EM eq_refl); lia|]. reflexivity.
    - unfold get_items. destruct (dec_items item (Z.to_nat n) r) as [[x r']|]; [|reflexivity].
      destruct more; [|reflexivity].
      specialize (IH (m_realloc m (bsz buf) (size + mem n + 1)) (Some (size + mem n + 1)) (size + mem n) r').
      destruct (str_frags item mem f _ _ _ r') as [[[y r'']|] m2]; cbn [fst] in IH; rewrite <- IH; reflexivity.
  Qed.

  (* a policy changes no decoded value: the instrumented decoder IS the reference decoder *)
  Theorem str_dec_erase pol s bs : fst (str_dec item item mem true pol s bs) = get_sized item s bs.
  Proof.
    assert (R : forall lo hi m bs0, fst (str_root item mem true pol lo hi m bs0) =
      (if constrained hi then
         match hi with
         | Some h => match get_bits (range_bits (h - lo + 1)) bs0 with
                     | Some (n, r) => if n <=? h - lo then get_items item (Z.to_nat (n + lo)) r else None
                     | None => None
                     end
         | None => None
         end
       else get_counted item (S (length bs0)) bs0)).
    { intros lo hi m bs0. unfold str_root. destruct (constrained hi) eqn:EC.
      - destruct hi as [h|]; [|reflexivity].
        destruct (get_bits (range_bits (h - lo + 1)) bs0) as [[n r]|]; [|reflexivity].
        destruct (n <=? h - lo) eqn:EN; cbn [andb negb]; [|reflexivity].
        unfold get_items. destruct (dec_items item (Z.to_nat (n + lo)) r) as [[x r']|]; reflexivity.
      - destruct pol; destruct hi as [h|]; apply str_frags_erase. }
    destruct s as [lo hi ext]. unfold str_dec, get_sized.
    destruct ext.
    - destruct bs as [|b r]; [reflexivity|]. destruct b.
      + apply str_frags_erase.
      + rewrite R. unfold constrained. reflexivity.
    - rewrite R. unfold constrained. reflexivity.
  Qed.

  Corollary str_policy_same_values s bs :
    fst (str_dec item item mem true PreallocUb s bs) = fst (str_dec item item mem true PerFragment s bs).
  Proof. rewrite !str_dec_erase. reflexivity. Qed.

  Lemma str_frags_peak_mono : forall fuel m buf size bs,
    m_peak m <= m_peak (snd (str_frags item mem fuel m buf size bs)).
  Proof.
    induction fuel as [|f IH]; intros m buf size bs; cbn [str_frags]; [cbn; lia|].
    destruct (get_length bs) as [[[n more] r]|]; [|cbn; lia].
    destruct ((n =? 0) && match buf with Some _ => true | None => false end); [cbn [snd]; lia|].
    set (m1 := m_realloc m (bsz buf) (size + mem n + 1)).
    assert (P1 : m_peak m <= m_peak m1) by apply peak_realloc.
    destruct (get_items item (Z.to_nat n) r) as [[x r']|]; [|cbn [snd]; lia].
    destruct more; [|cbn [snd]; lia].
    specialize (IH m1 (Some (size + mem n + 1)) (size + mem n) r').
    destruct (str_frags item mem f m1 _ _ r') as [[[y r'']|] m2]; cbn [snd] in *; lia.
  Qed.
End StrErase.

Section StrFrags.
  Context {A : Type}.
  Variable item : list bool -> option (A * list bool).
  Variable mem : Z -> Z.
  Variables w U : Z.
  Hypothesis Hw : 1 <= w.
  Hypothesis HU : 0 <= U.
  Hypothesis Hitem : forall bs a r, item bs = Some (a, r) -> zlen r + w <= zlen bs.
  Hypothesis Hmem : forall n, 0 <= n -> 0 <= mem n <= U * n.

  Lemma str_frags_peak : forall fuel m buf size bs P,
    0 <= size -> m_live m = bsz buf -> 0 <= bsz buf <= size + 1 ->
    w * m_peak m <= P ->
    w * (2 * size + 2 + 65536 * U) + 2 * U * zlen bs <= P ->
    w * m_peak (snd (str_frags item mem fuel m buf size bs)) <= P.
  Proof.
    induction fuel as [|f IH]; intros m buf size bs P Hs Hl Hb Hp HP; cbn [str_frags]; [exact Hp|].
    destruct (get_length bs) as [[[n more] r]|] eqn:EL; [|exact Hp].
    destruct ((n =? 0) && match buf with Some _ => true | None => false end); [exact Hp|].
    apply get_length_facts in EL. destruct EL as [Hn [Hr _]].
    pose proof (Hmem n (proj1 Hn)) as Hm.
    assert (Un : U * n <= 65536 * U) by (rewrite (Z.mul_comm 65536 U); apply Z.mul_le_mono_nonneg_l; lia).
    set (nb := size + mem n + 1).
    set (m1 := m_realloc m (bsz buf) nb).
    assert (Hp1 : w * m_peak m1 <= P).
    { unfold m1. cbn [m_realloc m_peak].
      destruct (Z.max_spec (m_peak m) (m_live m + nb)) as [[_ ->]|[_ ->]]; [|exact Hp].
      assert (m_live m + nb <= 2 * size + 2 + 65536 * U) by (unfold nb; lia).
      assert (w * (m_live m + nb) <= w * (2 * size + 2 + 65536 * U)) by (apply Z.mul_le_mono_nonneg_l; lia).
      pose proof (zlen_nonneg bs). assert (0 <= 2 * U * zlen bs) by (apply Z.mul_nonneg_nonneg; lia). lia. }
    destruct (get_items item (Z.to_nat n) r) as [[x r']|] eqn:EI; [|exact Hp1].
    destruct more; [|exact Hp1].
    unfold get_items in EI. apply (items_len item w Hitem) in EI. destruct EI as [EI _].
    rewrite Z2Nat.id in EI by lia.
    assert (G : w * m_peak (snd (str_frags item mem f m1 (Some nb) (size + mem n) r')) <= P).
    { apply IH.
      - lia.
      - unfold m1, nb. cbn [m_realloc m_live bsz]. lia.
      - unfold nb. cbn [bsz]. lia.
      - exact Hp1.
      - assert (E1 : w * mem n <= U * (w * n)).
        { replace (U * (w * n)) with (w * (U * n)) by ring. apply Z.mul_le_mono_nonneg_l; lia. }
        assert (E2 : U * (w * n) + U * zlen r' <= U * zlen bs).
        { rewrite <- Z.mul_add_distr_l. apply Z.mul_le_mono_nonneg_l; lia. }
        replace (w * (2 * (size + mem n) + 2 + 65536 * U)) with (w * (2 * size + 2 + 65536 * U) + 2 * (w * mem n)) by ring.
        replace (2 * U * zlen r') with (2 * (U * zlen r')) by ring.
        replace (2 * U * zlen bs) with (2 * (U * zlen bs)) in HP by ring. lia. }
    destruct (str_frags item mem f m1 (Some nb) (size + mem n) r') as [[[y r'']|] m2]; exact G.
  Qed.

End StrFrags.

Section StrBound.
  Context {A : Type}.
  Variables item item_x : list bool -> option (A * list bool).
  Variable mem : Z -> Z.
  Variables w U : Z.
  Hypothesis Hw : 1 <= w.
  Hypothesis HU : 0 <= U.
  Hypothesis Hitem : forall bs a r, item bs = Some (a, r) -> zlen r + w <= zlen bs.
  Hypothesis Hitem_x : forall bs a r, item_x bs = Some (a, r) -> zlen r + w <= zlen bs.
  Hypothesis Hmem : forall n, 0 <= n -> 0 <= mem n <= U * n.

  Definition scon_ok (s : scon) : Prop :=
    match s with
    | SCon lo (Some h) _ => 0 <= lo <= h
    | SCon lo None _ => 0 <= lo
    end.

  (* THE BOUND: the constant mentions neither bound of the SIZE constraint *)
  Theorem str_heap_frag_bound chk s bs : scon_ok s ->
    w * m_peak (snd (str_dec item item_x mem chk PerFragment s bs)) <= 2 * U * zlen bs + w * (3 * 65536 * U + 2).
  Proof.
    intros Hs.
    assert (ZB : forall l : list bool, 0 <= 2 * U * zlen l).
    { intros l. pose proof (zlen_nonneg l). apply Z.mul_nonneg_nonneg; lia. }
    assert (F : forall it : list bool -> option (A * list bool),
      (forall bs a r, it bs = Some (a, r) -> zlen r + w <= zlen bs) -> forall bs0, zlen bs0 <= zlen bs ->
      w * m_peak (snd (str_frags it mem (S (length bs0)) m0 None 0 bs0)) <= 2 * U * zlen bs + w * (3 * 65536 * U + 2)).
    { intros it Hit bs0 Hl. apply (str_frags_peak it mem w U Hw HU Hit Hmem); cbn [m0 m_live m_peak bsz]; try lia.
      - pose proof (ZB bs). assert (0 <= w * (3 * 65536 * U + 2)) by (apply Z.mul_nonneg_nonneg; lia). lia.
      - assert (U * zlen bs0 <= U * zlen bs) by (apply Z.mul_le_mono_nonneg_l; lia).
        replace (2 * U * zlen bs0) with (2 * (U * zlen bs0)) by ring.
        replace (2 * U * zlen bs) with (2 * (U * zlen bs)) by ring.
        assert (w * (2 * 0 + 2 + 65536 * U) <= w * (3 * 65536 * U + 2)) by (apply Z.mul_le_mono_nonneg_l; lia). lia. }
    assert (R : forall lo hi bs0, scon_ok (SCon lo hi false) -> zlen bs0 <= zlen bs ->
      w * m_peak (snd (str_root item mem chk PerFragment lo hi m0 bs0)) <= 2 * U * zlen bs + w * (3 * 65536 * U + 2)).
    { intros lo hi bs0 Hok Hl. unfold str_root. destruct (constrained hi) eqn:EC.
      - destruct hi as [h|]; [|discriminate]. cbn [constrained] in EC. cbn [scon_ok] in Hok.
        assert (Hh : 0 <= h < 65536) by lia.
        pose proof (Hmem h (proj1 Hh)) as Mh.
        assert (Uh : U * h <= 65536 * U) by (rewrite (Z.mul_comm 65536 U); apply Z.mul_le_mono_nonneg_l; lia).
        pose proof (ZB bs) as ZBbs.
        assert (K1 : w * m_peak (m_malloc m0 (mem h + 1)) <= 2 * U * zlen bs + w * (3 * 65536 * U + 2)).
        { cbn [m_malloc m0 m_peak m_live].
          assert (Z.max 0 (0 + (mem h + 1)) <= 3 * 65536 * U + 2) by lia.
          assert (w * Z.max 0 (0 + (mem h + 1)) <= w * (3 * 65536 * U + 2)) by (apply Z.mul_le_mono_nonneg_l; lia). lia. }
        destruct (get_bits (range_bits (h - lo + 1)) bs0) as [[n r]|] eqn:EG; [|exact K1].
        destruct (chk && negb (n <=? h - lo)); [exact K1|].
        apply get_bits_len in EG. destruct EG as [_ Bn].
        pose proof (pow2_range_bits (h - lo + 1) ltac:(lia)) as PB.
        assert (K2 : w * m_peak (if Nat.eqb (range_bits (h - lo + 1)) 0 || (n + lo =? 0) then m_malloc m0 (mem h + 1)
                                 else m_realloc (m_malloc m0 (mem h + 1)) (mem h + 1) (mem (n + lo) + 1))
                     <= 2 * U * zlen bs + w * (3 * 65536 * U + 2)).
        { destruct (Nat.eqb (range_bits (h - lo + 1)) 0 || (n + lo =? 0)); [exact K1|].
          assert (Hc : 0 <= n + lo <= 2 * 65536) by lia.
          pose proof (Hmem (n + lo) (proj1 Hc)) as Mc.
          assert (Uc : U * (n + lo) <= 2 * 65536 * U).
          { replace (2 * 65536 * U) with (U * (2 * 65536)) by ring. apply Z.mul_le_mono_nonneg_l; lia. }
          cbn [m_realloc m_malloc m0 m_peak m_live].
          assert (Z.max (Z.max 0 (0 + (mem h + 1))) (0 + (mem h + 1) + (mem (n + lo) + 1)) <= 3 * 65536 * U + 2) by lia.
          assert (w * Z.max (Z.max 0 (0 + (mem h + 1))) (0 + (mem h + 1) + (mem (n + lo) + 1)) <= w * (3 * 65536 * U + 2))
            by (apply Z.mul_le_mono_nonneg_l; lia). lia. }
        destruct (get_items item (Z.to_nat (n + lo)) r) as [[x r']|]; exact K2.
      - destruct hi as [h|]; apply (F item Hitem); exact Hl. }
    destruct s as [lo hi ext]. unfold str_dec. destruct ext.
    - destruct bs as [|b r].
      + cbn [snd m0 m_peak]. pose proof (ZB (@nil bool)).
        assert (0 <= w * (3 * 65536 * U + 2)) by (apply Z.mul_nonneg_nonneg; lia). lia.
      + destruct b.
        * apply (F item_x Hitem_x). rewrite zlen_cons. lia.
        * apply R; [destruct hi; exact Hs|rewrite zlen_cons; lia].
    - apply R; [destruct hi; exact Hs|lia].
  Qed.
End StrBound.

(* OCTET STRING as in Rt/Uper.v: 8 bits and 1 byte per unit: peak <= input octets * 2 + 196610 *)
Lemma get_octet_progress : forall bs a r, get_octet bs = Some (a, r) -> zlen r + 8 <= zlen bs.
Proof. intros bs a r H. unfold get_octet in H. apply get_bits_len in H. lia. Qed.

Lemma mem_of_bound bpc : 0 <= bpc -> forall n, 0 <= n -> 0 <= mem_of bpc n <= Z.max 1 bpc * n.
Proof.
  intros Hb n Hn. unfold mem_of. destruct (bpc =? 0) eqn:E.
  - assert (bpc = 0) by lia. subst. cbn [Z.max]. replace (Z.max 1 0) with 1 by reflexivity.
    pose proof (Z.div_pos (n + 7) 8 ltac:(lia) ltac:(lia)).
    assert ((n + 7) / 8 <= n); [|lia].
    destruct (Z.eq_dec n 0) as [->|N]; [reflexivity|].
    apply Z.div_le_upper_bound; lia.
  - assert (0 < bpc) by lia. rewrite Z.max_r by lia. rewrite (Z.mul_comm n bpc). split; [apply Z.mul_nonneg_nonneg; lia|lia].
Qed.

Theorem octet_string_heap_bound chk s bs : scon_ok s ->
  8 * m_peak (snd (str_dec get_octet get_octet (mem_of 1) chk PerFragment s bs)) <= 2 * zlen bs + 8 * 196610.
Proof.
  intros Hs.
  pose proof (str_heap_frag_bound get_octet get_octet (mem_of 1) 8 1 ltac:(lia) ltac:(lia) get_octet_progress get_octet_progress
                (fun n Hn => mem_of_bound 1 ltac:(lia) n Hn) chk s bs Hs) as H.
  lia.
Qed.

(* ---------------- the refuted policy ---------------- *)
Section StrRefuted.
  Context {A : Type}.
  Variables item item_x : list bool -> option (A * list bool).
  Variable mem : Z -> Z.

  (* whatever the input: a range constraint with ub >= 64K makes PreallocUb hold mem ub + 1 bytes *)
  Theorem str_prealloc_peak chk lo h bs : 65536 <= h ->
    mem h + 1 <= m_peak (snd (str_dec item item_x mem chk PreallocUb (SCon lo (Some h) false) bs)) /\
    mem h + 1 <= m_maxreq (snd (str_dec item item_x mem chk PreallocUb (SCon lo (Some h) false) bs)).
  Proof.
    intros Hh. unfold str_dec, str_root. cbn [constrained].
    replace (h <? 65536) with false by lia.
    split.
    - eapply Z.le_trans; [|apply str_frags_peak_mono]. cbn [m_malloc m0 m_peak m_live]. lia.
    - generalize (S (length bs)). intros fuel.
      assert (M : forall fuel m buf size bs0, m_maxreq m <= m_maxreq (snd (str_frags item mem fuel m buf size bs0))).
      { induction fuel0 as [|f IH]; intros m buf size bs0; cbn [str_frags]; [cbn; lia|].
        destruct (get_length bs0) as [[[n more] r]|]; [|cbn; lia].
        destruct ((n =? 0) && match buf with Some _ => true | None => false end); [cbn [snd]; lia|].
        set (m1 := m_realloc m (bsz buf) (size + mem n + 1)).
        assert (P1 : m_maxreq m <= m_maxreq m1) by (cbn; lia).
        destruct (get_items item (Z.to_nat n) r) as [[x r']|]; [|cbn [snd]; lia].
        destruct more; [|cbn [snd]; lia].
        specialize (IH m1 (Some (size + mem n + 1)) (size + mem n) r').
        destruct (str_frags item mem f m1 _ _ r') as [[[y r'']|] m2]; cbn [snd] in *; lia. }
      eapply Z.le_trans; [|apply M]. cbn [m_malloc m0 m_maxreq]. lia.
  Qed.
End StrRefuted.

(* no linear bound: for every factor c and constant K there is a SIZE range and an input
   (the EMPTY input) that make the pre-sizing decoder exceed c*n + K *)
Theorem str_heap_prealloc_refuted : forall c K : Z,
  exists s bs, scon_ok s /\
    c * zlen bs + K < m_peak (snd (str_dec get_octet get_octet (mem_of 1) false PreallocUb s bs)).
Proof.
  intros c K. exists (SCon 0 (Some (Z.max 65536 K)) false), [].
  split; [cbn; lia|].
  pose proof (str_prealloc_peak get_octet get_octet (mem_of 1) false 0 (Z.max 65536 K) [] ltac:(lia)) as [H _].
  assert (mem_of 1 (Z.max 65536 K) = Z.max 65536 K) by (unfold mem_of; cbn [Z.eqb]; lia).
  cbn [zlen length Z.of_nat] in *. lia.
Qed.

(* ================================================================== lists *)
Section LstBound.
  Context {A : Type}.
  Variable item : list bool -> option (A * list bool).
  Variable esz : Z.
  Hypothesis Hesz : 0 <= esz.
  (* an element decoder never gives input back; it MAY consume nothing (NULL, INTEGER (5..5), SEQUENCE {}) *)
  Hypothesis Hitem : forall bs a r, item bs = Some (a, r) -> zlen r <= zlen bs.
  Variable nobit : list bool -> list bool -> bool.
  Hypothesis Hnobit : forall bs a r, item bs = Some (a, r) -> nobit bs r = (length r =? length bs)%nat.

  Definition lst_inv (m : meter) (l : lst) : Prop :=
    0 <= l_count l <= l_cap l /\ l_cap l <= Z.max 4 (2 * l_count l) /\ (l_count l = 0 -> l_cap l = 0) /\
    m_live m = esz * l_count l + 8 * l_cap l /\
    m_peak m <= (esz + 24) * l_count l + 32.

  Lemma set_add_inv m l : lst_inv m l ->
    let '(m2, l2) := set_add (m_malloc m esz) l in
    lst_inv m2 l2 /\ l_count l2 = l_count l + 1.
  Proof.
    intros (Hc & Hcap & Hz & Hl & Hp). unfold set_add.
    destruct (l_count l =? l_cap l) eqn:E.
    - destruct (l_cap l =? 0) eqn:E0; unfold lst_inv; cbn [m_realloc m_malloc m_live m_peak l_count l_cap]; nia.
    - unfold lst_inv; cbn [m_malloc m_live m_peak l_count l_cap]. nia.
  Qed.

  Definition rest_of (res : option (list A * list bool)) : Z :=
    match res with Some (_, r) => zlen r | None => 0 end.

  (* with the guard: every kept element of a batch of more than 200 has consumed a bit,
     except the one on which the guard fires *)
  Lemma lst_items_count nel : forall k m l bs,
    lst_inv m l -> Z.of_nat k <= Z.max 0 nel ->
    let '(res, (m', l')) := lst_items item esz true nobit nel k m l bs in
    lst_inv m' l' /\
    l_count l' + rest_of res <=
      l_count l + zlen bs + (if 200 <? nel then (match res with None => 1 | Some _ => 0 end) else Z.of_nat k).
  Proof.
    induction k as [|k IH]; intros m l bs Hinv Hk; cbn [lst_items].
    - split; [exact Hinv|]. cbn [rest_of]. destruct (200 <? nel); lia.
    - destruct (item bs) as [[a r]|] eqn:EI.
      + pose proof (Hnobit _ _ _ EI) as NB. apply Hitem in EI.
        pose proof (set_add_inv m l Hinv) as SA.
        destruct (set_add (m_malloc m esz) l) as [m2 l2]. destruct SA as [I2 C2].
        rewrite NB. destruct (true && (length r =? length bs)%nat && (200 <? nel)) eqn:EG.
        * split; [exact I2|]. cbn [rest_of]. assert (200 <? nel = true) by lia. rewrite H.
          pose proof (zlen_nonneg bs). lia.
        * specialize (IH m2 l2 r I2 ltac:(lia)).
          destruct (lst_items item esz true nobit nel k m2 l2 r) as [[[x r']|] [m' l']]; destruct IH as [I3 C3];
            (split; [exact I3|]); cbn [rest_of] in *; unfold zlen in *;
            destruct (200 <? nel) eqn:E2; lia.
      + split; [exact Hinv|]. cbn [rest_of]. pose proof (zlen_nonneg bs). destruct (200 <? nel); lia.
  Qed.

  Lemma lst_frags_count : forall fuel m l bs,
    lst_inv m l ->
    let '(res, (m', l')) := lst_frags item esz true nobit fuel m l bs in
    lst_inv m' l' /\ l_count l' <= l_count l + zlen bs + 201.
  Proof.
    induction fuel as [|f IH]; intros m l bs Hinv; cbn [lst_frags].
    - split; [exact Hinv|]. pose proof (zlen_nonneg bs). lia.
    - destruct (get_length bs) as [[[n more] r]|] eqn:EL.
      + apply get_length_facts in EL. destruct EL as [Hn [Hr Hm]].
        pose proof (lst_items_count n (Z.to_nat n) m l r Hinv ltac:(lia)) as LI.
        destruct (lst_items item esz true nobit n (Z.to_nat n) m l r) as [[[x r']|] [m1 l1]]; destruct LI as [I1 C1]; cbn [rest_of] in C1.
        * destruct more.
          -- specialize (Hm eq_refl). replace (200 <? n) with true in C1 by lia.
             specialize (IH m1 l1 r' I1).
             destruct (lst_frags item esz true nobit f m1 l1 r') as [[[y r'']|] [m2 l2]]; destruct IH as [I2 C2];
               (split; [exact I2|lia]).
          -- split; [exact I1|]. pose proof (zlen_nonneg r'). destruct (200 <? n) eqn:E2; lia.
        * split; [exact I1|]. destruct (200 <? n) eqn:E2; lia.
      + split; [exact Hinv|]. pose proof (zlen_nonneg bs). lia.
  Qed.

  Lemma lst_inv0 : lst_inv m0 l0.
  Proof. unfold lst_inv. cbn. lia. Qed.

  (* at most |input bits| + 201 elements are ever held, for EVERY SIZE constraint, and the
     heap (elements + pointer array, old array included while it is being doubled) follows *)
  Theorem lst_heap_bound chk s bs :
    let ml := snd (lst_dec item esz true nobit chk PerFragment s bs) in
    l_count (snd ml) <= zlen bs + 201 /\
    m_peak (fst ml) <= (esz + 24) * (zlen bs + 201) + 32.
  Proof.
    assert (G : forall m l, lst_inv m l -> l_count l <= zlen bs + 201 ->
              l_count l <= zlen bs + 201 /\ m_peak m <= (esz + 24) * (zlen bs + 201) + 32).
    { intros m l (Hc & _ & _ & _ & Hp) Hle. split; [exact Hle|]. nia. }
    assert (F : forall bs0, zlen bs0 <= zlen bs ->
      let ml := snd (lst_frags item esz true nobit (S (length bs0)) m0 l0 bs0) in
      l_count (snd ml) <= zlen bs + 201 /\ m_peak (fst ml) <= (esz + 24) * (zlen bs + 201) + 32).
    { intros bs0 Hl. pose proof (lst_frags_count (S (length bs0)) m0 l0 bs0 lst_inv0) as H.
      destruct (lst_frags item esz true nobit (S (length bs0)) m0 l0 bs0) as [res [m' l']]. destruct H as [I C].
      cbn [snd fst]. apply G; [exact I|]. cbn [l0 l_count] in C. lia. }
    assert (R : forall lo hi bs0, zlen bs0 <= zlen bs ->
      let ml := snd (lst_root item esz true nobit chk PerFragment lo hi m0 bs0) in
      l_count (snd ml) <= zlen bs + 201 /\ m_peak (fst ml) <= (esz + 24) * (zlen bs + 201) + 32).
    { intros lo hi bs0 Hl. unfold lst_root. pose proof (zlen_nonneg bs) as Zb. destruct (constrained hi).
      - destruct hi as [h|]; [|cbn [snd fst]; apply (G m0 l0 lst_inv0); cbn; lia].
        destruct (get_bits (range_bits (h - lo + 1)) bs0) as [[n r]|] eqn:EG;
          [|cbn [snd fst]; apply (G m0 l0 lst_inv0); cbn; lia].
        destruct (chk && negb (n <=? h - lo)); [cbn [snd fst]; apply (G m0 l0 lst_inv0); cbn; lia|].
        apply get_bits_len in EG. destruct EG as [Er _].
        pose proof (lst_items_count (n + lo) (Z.to_nat (n + lo)) m0 l0 r lst_inv0 ltac:(lia)) as LI.
        destruct (lst_items item esz true nobit (n + lo) (Z.to_nat (n + lo)) m0 l0 r) as [res [m' l']]. destruct LI as [I C].
        cbn [snd fst]. apply G; [exact I|]. cbn [l0 l_count] in C.
        assert (0 <= rest_of res) by (destruct res as [[x r']|]; cbn; [apply zlen_nonneg|lia]).
        assert (0 <= Z.of_nat (range_bits (h - lo + 1))) by lia.
        destruct (200 <? n + lo) eqn:E2; [destruct res; lia|lia].
      - destruct hi as [h|]; apply F; exact Hl. }
    destruct s as [lo hi ext]. unfold lst_dec. destruct ext.
    - destruct bs as [|b r].
      + cbn [snd fst]. apply (G m0 l0 lst_inv0). cbn. lia.
      + destruct b.
        * apply F. rewrite zlen_cons. lia.
        * apply R. rewrite zlen_cons. lia.
    - apply R. lia.
  Qed.
End LstBound.

(* reserving the pointer array for the declared maximum: the same unbounded family *)
Theorem lst_prealloc_refuted : forall c K : Z,
  exists s bs, c * zlen bs + K <
    m_peak (fst (snd (lst_dec (fun bs0 : list bool => match bs0 with b :: r => Some (b, r) | [] => None end)
                             4 true nobit_len false PreallocUb s bs))).
Proof.
  intros c K. exists (SCon 0 (Some (Z.max 65536 K)) false), [].
  unfold lst_dec, lst_root. cbn [constrained].
  replace (Z.max 65536 K <? 65536) with false by lia.
  cbn [length lst_frags get_length snd fst m_malloc m0 m_peak m_live zlen Z.of_nat]. lia.
Qed.

(* without the guard the element count is not bounded by the input: 2 octets, 16383 elements
   (theorem heap_linear_uper_refuted of DepthProofs.v, here on the instrumented decoder) *)
Theorem lst_no_guard_refuted :
  exists bs, zlen bs = 16 /\
    l_count (snd (snd (lst_dec (fun bs0 : list bool => Some (tt, bs0)) 4 false nobit_len false PerFragment (SCon 0 None false) bs))) = 16383.
Proof. exists (bytes_bits [191; 255]). split; vm_compute; reflexivity. Qed.

(* ---------------- lists: erasure (no guard) ---------------- *)
Section LstErase.
  Context {A : Type}.
  Variable item : list bool -> option (A * list bool).
  Variable esz : Z.
  Variable nobit : list bool -> list bool -> bool.

  Lemma lst_items_erase nel : forall k m l bs,
    fst (lst_items item esz false nobit nel k m l bs) = dec_items item k bs.
  Proof.
    induction k as [|k IH]; intros m l bs; cbn [lst_items dec_items]; [reflexivity|].
    destruct (item bs) as [[a r]|]; [|reflexivity].
    destruct (set_add (m_malloc m esz) l) as [m2 l2]. cbn [andb].
    specialize (IH m2 l2 r).
    destruct (lst_items item esz false nobit nel k m2 l2 r) as [[[x r']|] ml]; cbn [fst] in IH; rewrite <- IH; reflexivity.
  Qed.

  Lemma lst_frags_erase : forall fuel m l bs,
    fst (lst_frags item esz false nobit fuel m l bs) = get_counted item fuel bs.
  Proof.
    induction fuel as [|f IH]; intros m l bs; cbn [lst_frags get_counted]; [reflexivity|].
    destruct (get_length bs) as [[[n more] r]|]; [|reflexivity].
    pose proof (lst_items_erase n (Z.to_nat n) m l r) as E. unfold get_items.
    destruct (lst_items item esz false nobit n (Z.to_nat n) m l r) as [[[x r']|] [m1 l1]]; cbn [fst] in E; rewrite <- E; [|reflexivity].
    destruct more; [|reflexivity].
    specialize (IH m1 l1 r').
    destruct (lst_frags item esz false nobit f m1 l1 r') as [[[y r'']|] ml]; cbn [fst] in IH; rewrite <- IH; reflexivity.
  Qed.

  Theorem lst_dec_erase pol s bs : fst (lst_dec item esz false nobit true pol s bs) = get_sized item s bs.
  Proof.
    assert (R : forall lo hi m bs0, fst (lst_root item esz false nobit true pol lo hi m bs0) =
      (if constrained hi then
         match hi with
         | Some h => match get_bits (range_bits (h - lo + 1)) bs0 with
                     | Some (n, r) => if n <=? h - lo then get_items item (Z.to_nat (n + lo)) r else None
                     | None => None
                     end
         | None => None
         end
       else get_counted item (S (length bs0)) bs0)).
    { intros lo hi m bs0. unfold lst_root. destruct (constrained hi) eqn:EC.
      - destruct hi as [h|]; [|reflexivity].
        destruct (get_bits (range_bits (h - lo + 1)) bs0) as [[n r]|]; [|reflexivity].
        destruct (n <=? h - lo) eqn:EN; cbn [andb negb]; [|reflexivity].
        apply lst_items_erase.
      - destruct pol; destruct hi as [h|]; apply lst_frags_erase. }
    destruct s as [lo hi ext]. unfold lst_dec, get_sized.
    destruct ext.
    - destruct bs as [|b r]; [reflexivity|]. destruct b.
      + apply lst_frags_erase.
      + rewrite R. unfold constrained. reflexivity.
    - rewrite R. unfold constrained. reflexivity.
  Qed.
End LstErase.

(* ---------------- the front ends the check runs ---------------- *)
Lemma get_unit_len ub bs a r : get_unit ub bs = Some (a, r) -> zlen r + Z.of_nat ub = zlen bs.
Proof. unfold get_unit. intros H. apply get_bits_len in H. lia. Qed.

Lemma c15_str_snd pol ub bpc s bs :
  snd (c15_str pol ub bpc s bs) =
  snd (str_dec (get_unit ub) (get_unit (if bpc =? 0 then ub else Z.to_nat (8 * bpc))) (mem_of bpc) false pol s bs).
Proof.
  unfold c15_str. cbv zeta.
  destruct (str_dec (get_unit ub) _ (mem_of bpc) false pol s bs) as [[[x r]|] m]; reflexivity.
Qed.

(* strings, as run by the check: w = a lower bound of the bits per unit in either branch *)
Theorem c15_str_heap_bound (ub : nat) (bpc w : Z) s bs :
  1 <= w -> w <= Z.of_nat ub -> 0 <= bpc -> w <= 8 * Z.max 1 bpc -> scon_ok s ->
  w * m_peak (snd (c15_str PerFragment ub bpc s bs)) <= 2 * Z.max 1 bpc * zlen bs + w * (3 * 65536 * Z.max 1 bpc + 2).
Proof.
  intros Hw Hub Hb Hx Hs. rewrite c15_str_snd.
  apply (str_heap_frag_bound (get_unit ub) (get_unit (if bpc =? 0 then ub else Z.to_nat (8 * bpc))) (mem_of bpc) w (Z.max 1 bpc)); try lia.
  - intros bs0 a r H. apply get_unit_len in H. lia.
  - intros bs0 a r H. apply get_unit_len in H. destruct (bpc =? 0) eqn:E; [lia|].
    rewrite Z2Nat.id in H by lia. lia.
  - intros n Hn. apply mem_of_bound; assumption.
  - exact Hs.
Qed.

Theorem c15_str_prealloc_peak (ub : nat) (bpc lo h : Z) bs : 65536 <= h ->
  mem_of bpc h + 1 <= m_peak (snd (c15_str PreallocUb ub bpc (SCon lo (Some h) false) bs)) /\
  mem_of bpc h + 1 <= m_maxreq (snd (c15_str PreallocUb ub bpc (SCon lo (Some h) false) bs)).
Proof. intros Hh. rewrite c15_str_snd. apply str_prealloc_peak. exact Hh. Qed.

Lemma c15_lst_snd pol ub esz s bs :
  snd (c15_lst pol ub esz s bs) = snd (lst_dec (get_unit ub) esz true (fun _ _ => Nat.eqb ub 0) false pol s bs).
Proof.
  unfold c15_lst. destruct (lst_dec (get_unit ub) esz true _ false pol s bs) as [[[x r]|] ml]; reflexivity.
Qed.

Theorem c15_lst_heap_bound (ub : nat) (esz : Z) s bs : 0 <= esz ->
  let ml := snd (c15_lst PerFragment ub esz s bs) in
  l_count (snd ml) <= zlen bs + 201 /\ m_peak (fst ml) <= (esz + 24) * (zlen bs + 201) + 32.
Proof.
  intros He. cbv zeta. rewrite c15_lst_snd.
  apply (lst_heap_bound (get_unit ub) esz He).
  - intros bs0 a r H. apply get_unit_len in H. lia.
  - intros bs0 a r H. apply get_unit_len in H. unfold zlen in H. lia.
Qed.
