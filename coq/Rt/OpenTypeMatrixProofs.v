(* Rt/OpenTypeMatrixProofs.v — proofs about the object-set matrix (C18, round 3). *)
From Coq Require Import ZArith List Bool Arith Lia.
From A1 Require Import Rt.Types Rt.Comb Rt.OpenType Rt.OpenTypeMatrix.
Import ListNotations.

(* ---------------- list facts ---------------- *)

Lemma nth_error_seq : forall n s c, c < n -> nth_error (seq s n) c = Some (s + c).
Proof.
  induction n as [|n IH]; intros s c H; [lia|].
  destruct c as [|c]; simpl.
  - f_equal; lia.
  - rewrite IH by lia. f_equal; lia.
Qed.

Lemma nth_error_app_r : forall {B} (a b : list B) k, nth_error (a ++ b) (length a + k) = nth_error b k.
Proof.
  intros B a b k. rewrite nth_error_app2 by lia. f_equal; lia.
Qed.

Lemma nth_error_mid : forall {B} (pre : list B) x tl, nth_error (pre ++ x :: tl) (length pre) = Some x.
Proof.
  intros B pre x tl. replace (length pre) with (length pre + 0) by lia.
  rewrite nth_error_app_r. reflexivity.
Qed.

Lemma option_all_nth : forall {B} (l : list (option B)) r j x,
  option_all l = Some r -> nth_error l j = Some x -> exists y, x = Some y /\ nth_error r j = Some y.
Proof.
  intros B l. induction l as [|a l IH]; intros r j x H Hn.
  - destruct j; discriminate.
  - simpl in H. destruct a as [a|]; [|discriminate].
    destruct (option_all l) as [r'|] eqn:E; [|discriminate].
    injection H as <-.
    destruct j as [|j]; simpl in *.
    + injection Hn as <-. eauto.
    + eapply IH; eauto.
Qed.

(* ---------------- the dense matrix ---------------- *)

Section MatrixProofs.

Variable A : Type.
Notation obj := (obj A).

Lemma compile_row_length : forall n (o : obj), length (compile_row n o) = n.
Proof. intros. unfold compile_row. rewrite map_length, seq_length. reflexivity. Qed.

Lemma compile_row_nth : forall n (o : obj) c, c < n -> nth_error (compile_row n o) c = Some (lookup c o).
Proof.
  intros n o c H. unfold compile_row.
  apply (map_nth_error (fun c => lookup c o) c (seq 0 n)).
  rewrite nth_error_seq by exact H. reflexivity.
Qed.

(* rows x columns = the number of emitted cells *)
Lemma cells_dense_length : forall n (objs : list obj), length (cells_dense n objs) = length objs * n.
Proof.
  intros n objs. induction objs as [|o tl IH]; [reflexivity|].
  unfold cells_dense in *. simpl. rewrite app_length, compile_row_length, IH. reflexivity.
Qed.

(* cell (r, c) of the flat array = field c of object r *)
Lemma cells_dense_at : forall n (objs : list obj) r c o,
  nth_error objs r = Some o -> c < n ->
  nth_error (cells_dense n objs) (r * n + c) = Some (lookup c o).
Proof.
  intros n objs. induction objs as [|o' tl IH]; intros r c o Hr Hc.
  - destruct r; discriminate.
  - unfold cells_dense in *. simpl flat_map.
    destruct r as [|r]; simpl in Hr.
    + injection Hr as <-. simpl.
      rewrite nth_error_app1 by (rewrite compile_row_length; exact Hc).
      apply compile_row_nth; exact Hc.
    + replace (S r * n + c) with (length (compile_row n o') + (r * n + c))
        by (rewrite compile_row_length; simpl; lia).
      rewrite nth_error_app_r. apply IH; assumption.
Qed.

Lemma cell_at_dense : forall n (objs : list obj) r c o,
  nth_error objs r = Some o -> c < n ->
  cell_at (emit_dense n objs) r c = Some (lookup c o).
Proof.
  intros n objs r c o Hr Hc. unfold cell_at, emit_dense. simpl.
  destruct objs as [|o0 tl]; [destruct r; discriminate|].
  simpl cols_of. apply cells_dense_at; assumption.
Qed.

Lemma walk_dense : forall (eq : A -> bool) n ic fc (tl pre : list obj),
  ic < n -> fc < n ->
  walk eq (emit_dense n (pre ++ tl)) ic fc (length tl) (length pre)
  = select_written eq ic fc tl (length pre).
Proof.
  intros eq n ic fc tl. induction tl as [|o tl IH]; intros pre Hi Hf; [reflexivity|].
  simpl.
  rewrite (cell_at_dense n (pre ++ o :: tl) (length pre) ic o) by (try apply nth_error_mid; assumption).
  destruct (lookup ic o) as [idc|]; [|reflexivity].
  destruct (eq idc).
  - rewrite (cell_at_dense n (pre ++ o :: tl) (length pre) fc o) by (try apply nth_error_mid; assumption).
    reflexivity.
  - specialize (IH (pre ++ [o]) Hi Hf).
    rewrite <- app_assoc in IH. simpl in IH.
    rewrite app_length in IH. simpl in IH.
    replace (length pre + 1) with (S (length pre)) in IH by lia.
    exact IH.
Qed.

(* the generated selector on the dense matrix = the selection on the set as written,
   for every class shape: any number of fields, any identifier column, any member column *)
Theorem select_dense_written : forall (eq : A -> bool) n ic fc (objs : list obj),
  ic < n -> fc < n ->
  select_flat eq (emit_dense n objs) ic fc = select_written eq ic fc objs 0.
Proof.
  intros eq n ic fc objs Hi Hf. unfold select_flat.
  change (e_rows (emit_dense n objs)) with (length objs).
  exact (walk_dense eq n ic fc objs [] Hi Hf).
Qed.

(* what the selection on the set as written means *)
Lemma select_written_row : forall (eq : A -> bool) ic fc (objs : list obj) i r tc,
  select_written eq ic fc objs i = SelRow r tc ->
  exists k o idc, r = i + k /\ nth_error objs k = Some o /\ lookup ic o = Some idc /\ eq idc = true
    /\ tc = lookup fc o
    /\ (forall j o', j < k -> nth_error objs j = Some o' -> exists c', lookup ic o' = Some c' /\ eq c' = false).
Proof.
  intros eq ic fc objs. induction objs as [|o tl IH]; intros i r tc H; [discriminate|].
  simpl in H. destruct (lookup ic o) as [idc|] eqn:El; [|discriminate].
  destruct (eq idc) eqn:Ee.
  - injection H as <- <-. exists 0, o, idc. repeat split; auto; try lia.
    all: try (intros j o' Hj; lia).
  - apply IH in H. destruct H as (k & o1 & c1 & -> & Hn & Hl & He & Ht & Hb).
    exists (S k), o1, c1. repeat split; auto; try lia.
    intros j o' Hj Hn'. destruct j as [|j]; simpl in Hn'.
    + injection Hn' as <-. eauto.
    + apply (Hb j o'); [lia|exact Hn'].
Qed.

Lemma select_written_none : forall (eq : A -> bool) ic fc (objs : list obj) i,
  select_written eq ic fc objs i = SelNone ->
  Forall (fun o => exists c, lookup ic o = Some c /\ eq c = false) objs.
Proof.
  intros eq ic fc objs. induction objs as [|o tl IH]; intros i H; [constructor|].
  simpl in H. destruct (lookup ic o) as [idc|] eqn:El; [|discriminate].
  destruct (eq idc) eqn:Ee; [discriminate|].
  constructor; eauto.
Qed.

(* objects that all set the identifier field: the selector is never stuck *)
Lemma select_written_defined : forall (eq : A -> bool) ic fc (objs : list obj) i,
  Forall (fun o => lookup ic o <> None) objs -> select_written eq ic fc objs i <> SelStuck.
Proof.
  intros eq ic fc objs. induction objs as [|o tl IH]; intros i H; [discriminate|].
  inversion H as [|? ? Ho Ht]; subst. simpl.
  destruct (lookup ic o) as [idc|]; [|congruence].
  destruct (eq idc); [discriminate|]. apply IH; exact Ht.
Qed.

(* ---------------- the cell-skipping emission ---------------- *)

Lemma filter_all_set : forall (l : list (option A)), Forall (fun x => x <> None) l -> filter is_set l = l.
Proof.
  induction l as [|x l IH]; intros H; [reflexivity|].
  inversion H as [|? ? Hx Hl]; subst. simpl.
  destruct x; [|congruence]. simpl. rewrite IH by exact Hl. reflexivity.
Qed.

(* why no set in which every object sets every field notices the difference *)
Theorem emit_skip_complete : forall n (objs : list obj),
  Forall (fun o => forall c, c < n -> lookup c o <> None) objs ->
  emit_skip n objs = emit_dense n objs.
Proof.
  intros n objs H. unfold emit_skip, emit_dense. f_equal.
  unfold cells_skip, cells_dense.
  induction H as [|o tl Ho Ht IH]; [reflexivity|].
  simpl. rewrite IH. f_equal.
  apply filter_all_set. unfold compile_row.
  apply Forall_forall. intros x Hx. apply in_map_iff in Hx.
  destruct Hx as (c & <- & Hc). apply in_seq in Hc. apply Ho. lia.
Qed.

(* ---------------- presence index and the alternatives of the open type ---------------- *)

Lemma alts_cons : forall fc (o : obj) tl,
  alts fc (o :: tl) = (match lookup fc o with Some s => [s] | None => [] end) ++ alts fc tl.
Proof. reflexivity. Qed.

(* every object sets the member's field: alternative r is the type cell of row r *)
Theorem alts_complete : forall fc (objs : list obj) r o,
  Forall (fun o => lookup fc o <> None) objs ->
  nth_error objs r = Some o -> nth_error (alts fc objs) r = lookup fc o.
Proof.
  intros fc objs. induction objs as [|o' tl IH]; intros r o H Hr.
  - destruct r; discriminate.
  - inversion H as [|? ? Ho Ht]; subst. rewrite alts_cons.
    destruct (lookup fc o') as [s|] eqn:E; [|congruence].
    destruct r as [|r]; simpl in *.
    + injection Hr as <-. symmetry; exact E.
    + apply IH; assumption.
Qed.

(* in general the alternative of row r is found at the number of rows before r that set the field *)
Theorem alts_counted : forall fc (objs : list obj) r o s,
  nth_error objs r = Some o -> lookup fc o = Some s ->
  nth_error (alts fc objs) (count_set fc (firstn r objs)) = Some s.
Proof.
  intros fc objs. induction objs as [|o' tl IH]; intros r o s Hr Hs.
  - destruct r; discriminate.
  - destruct r as [|r]; simpl in Hr.
    + injection Hr as <-. simpl firstn.
      rewrite alts_cons, Hs. reflexivity.
    + simpl firstn. unfold count_set. rewrite !alts_cons, app_length.
      rewrite nth_error_app_r. apply (IH r o s); assumption.
Qed.

(* ---------------- sets with references ---------------- *)

Lemma has_ref_false_group : forall (g : list (elem A)),
  existsb is_ref g = false -> length g <> 1 -> group_objs g = flat_map elem_written g.
Proof.
  intros g H Hl. destruct g as [|e [|e' g']]; try reflexivity;
    destruct e; try reflexivity; simpl in Hl; congruence.
Qed.

(* no reference to another set and no object standing alone: the table has every object written *)
Theorem compile_objs_partial : forall (s : eset A),
  has_ref s = false -> Forall (fun g => length g <> 1) s -> compile_objs s = spec_objs s.
Proof.
  intros s H Hl. unfold compile_objs, spec_objs. rewrite H.
  unfold has_ref in H.
  induction s as [|g tl IH]; [reflexivity|].
  simpl in H. apply orb_false_iff in H. destruct H as [Hg Ht].
  inversion Hl as [|? ? Hlg Hlt]; subst.
  simpl. rewrite IH by assumption. f_equal. apply has_ref_false_group; assumption.
Qed.

Definition ref_faithful (e : elem A) : Prop :=
  match e with ERef w c => c = w | EObj _ => False end.

(* a set made of references to other sets only, each compiled to what it says: every object written *)
Theorem compile_objs_refs : forall (s : eset A),
  has_ref s = true -> Forall (Forall ref_faithful) s -> compile_objs s = spec_objs s.
Proof.
  intros s H Hf. unfold compile_objs, spec_objs. rewrite H. clear H.
  induction Hf as [|g tl Hg Ht IH]; [reflexivity|].
  simpl. rewrite IH. f_equal.
  induction Hg as [|e g' He Hg' IHg]; [reflexivity|].
  simpl. rewrite IHg. f_equal.
  destruct e; simpl in *; [contradiction|exact He].
Qed.

End MatrixProofs.

(* ---------------- the link to OpenType.select ---------------- *)

Definition sel_of_table (tbl : table) (v : val) (j i : nat) : sel setting :=
  match select_from v tbl i with
  | Some (r, tys) =>
      match nth_error tys j with
      | Some t => SelRow r (Some (ST t))
      | None => SelNone
      end
  | None => SelNone
  end.

Lemma type_setting_lookup : forall (o : obj setting) fc t, type_setting o fc = Some t -> lookup fc o = Some (ST t).
Proof.
  intros o fc t H. unfold type_setting in H.
  destruct (lookup fc o) as [[v|t']|]; try discriminate. injection H as ->. reflexivity.
Qed.

Lemma select_written_table : forall v ic mcols j fc (objs : list (obj setting)) tbl i,
  table_of ic mcols objs = Some tbl -> nth_error mcols j = Some fc ->
  select_written (id_is v) ic fc objs i = sel_of_table tbl v j i.
Proof.
  intros v ic mcols j fc objs. induction objs as [|o tl IH]; intros tbl i Ht Hj.
  - unfold table_of in Ht. simpl in Ht. injection Ht as <-. reflexivity.
  - unfold table_of in Ht. simpl in Ht.
    destruct (row_of ic mcols o) as [r0|] eqn:Er; [|discriminate].
    destruct (option_all (map (row_of ic mcols) tl)) as [tbl'|] eqn:Et; [|discriminate].
    injection Ht as <-.
    unfold row_of in Er.
    destruct (lookup ic o) as [[c|t0]|] eqn:El; try discriminate.
    destruct (option_all (map (type_setting o) mcols)) as [tys|] eqn:Ety; [|discriminate].
    injection Er as <-.
    simpl. rewrite El. unfold sel_of_table. simpl.
    destruct (id_eqb v c).
    + destruct (option_all_nth _ _ j (type_setting o fc) Ety) as (t & Hx & Hn).
      { apply (map_nth_error (type_setting o) j mcols). exact Hj. }
      rewrite Hn. rewrite (type_setting_lookup o fc t Hx). reflexivity.
    + apply (IH tbl' (S i)); [exact Et|exact Hj].
Qed.

(* for every class shape (n fields, identifier column ic, member columns mcols) whose objects set the
   identifier and the members' type fields: the generated selector of member j on the dense matrix
   returns what OpenType.select returns on the table (identifier, member types) of the set as written *)
Theorem select_matrix_table : forall v n ic mcols j fc (objs : list (obj setting)) tbl,
  table_of ic mcols objs = Some tbl -> nth_error mcols j = Some fc -> ic < n -> fc < n ->
  select_flat (id_is v) (emit_dense n objs) ic fc
  = match select_col tbl v j with
    | Some (i, t) => SelRow i (Some (ST t))
    | None => SelNone
    end.
Proof.
  intros v n ic mcols j fc objs tbl Ht Hj Hi Hf.
  rewrite select_dense_written by assumption.
  rewrite (select_written_table v ic mcols j fc objs tbl 0 Ht Hj).
  unfold sel_of_table, select_col, select.
  destruct (select_from v tbl 0) as [[r tys]|]; [|reflexivity].
  destruct (nth_error tys j); reflexivity.
Qed.

(* ---------------- refuted: the emission that skips unset cells (seeded change C18-4) ---------------- *)

(* class { &id, &Type, &crit OPTIONAL }; settings are numbers (identifiers 1.., types 11.., criticality 7) *)
Definition skip_objs : list (obj nat) :=
  [ [(0, 1); (1, 11)]; [(0, 2); (1, 12)]; [(0, 3); (1, 13); (2, 7)] ].

(* identifier 2 has row 1 in the set; in the shifted table row 1 starts at a type cell: no row answers *)
Lemma emit_skip_refused_refuted :
  exists n ic fc (objs : list (obj nat)) v,
    ic < n /\ fc < n /\
    select_written (Nat.eqb v) ic fc objs 0 = SelRow 1 (Some 12) /\
    select_flat (Nat.eqb v) (emit_skip n objs) ic fc = SelNone.
Proof.
  exists 3, 0, 1, skip_objs, 2. repeat split; try lia; vm_compute; reflexivity.
Qed.

(* object 1 sets &crit, objects 2..5 do not: identifier 5 (row 4, type 15) is answered by row 3:
   presence index 4 = the alternative of object 4, with the type descriptor of object 5 *)
Lemma emit_skip_wrong_row_refuted :
  exists n ic fc (objs : list (obj nat)) v,
    ic < n /\ fc < n /\
    select_written (Nat.eqb v) ic fc objs 0 = SelRow 4 (Some 15) /\
    select_flat (Nat.eqb v) (emit_skip n objs) ic fc = SelRow 3 (Some 15).
Proof.
  exists 3, 0, 1,
    [ [(0, 1); (1, 11); (2, 7)]; [(0, 2); (1, 12)]; [(0, 3); (1, 13)]; [(0, 4); (1, 14)]; [(0, 5); (1, 15)] ], 5.
  repeat split; try lia; vm_compute; reflexivity.
Qed.

(* no object sets &crit: the walk leaves the 6-cell array the header declares as 3 x 3 *)
Lemma emit_skip_out_of_bounds_refuted :
  exists n ic fc (objs : list (obj nat)) v,
    ic < n /\ fc < n /\
    select_written (Nat.eqb v) ic fc objs 0 = SelRow 2 (Some 13) /\
    select_flat (Nat.eqb v) (emit_skip n objs) ic fc = SelStuck /\
    length (e_cells (emit_skip n objs)) < e_rows (emit_skip n objs) * e_cols (emit_skip n objs).
Proof.
  exists 3, 0, 1, [ [(0, 1); (1, 11)]; [(0, 2); (1, 12)]; [(0, 3); (1, 13)] ], 3.
  repeat split; try lia; vm_compute; try reflexivity. lia.
Qed.

(* ---------------- refuted: presence_index = row + 1 with an unset type cell (defect of the unchanged tree) ---------------- *)

(* class { &id, &Type OPTIONAL }: object 2 has no type.  The selector answers row + 1 = 3 for identifier 3;
   the open type has two alternatives only (beyond the member array); with a fourth object, row 3 = alternative
   3 is the type of object 4 *)
Lemma presence_row_plus_one_refuted :
  exists fc (objs : list (obj nat)) r o t,
    nth_error objs r = Some o /\ lookup fc o = Some t /\
    nth_error (alts fc objs) r <> Some t /\
    nth_error (alts fc objs) (count_set fc (firstn r objs)) = Some t.
Proof.
  exists 1, [ [(0, 1); (1, 11)]; [(0, 2)]; [(0, 3); (1, 13)]; [(0, 4); (1, 14)] ], 2, [(0, 3); (1, 13)], 13.
  repeat split; vm_compute; try reflexivity. discriminate.
Qed.

(* ---------------- refuted: objects next to a reference to another set are lost ---------------- *)

Lemma compile_objs_mixed_refuted :
  exists (s : eset nat), compile_objs s <> spec_objs s /\ exists o, In o (spec_objs s) /\ ~ In o (compile_objs s).
Proof.
  exists [ [ERef [[(0, 1)]; [(0, 2)]] [[(0, 1)]; [(0, 2)]]; EObj [(0, 3)]; EObj [(0, 4)]] ].
  split; [vm_compute; discriminate|].
  exists [(0, 3)]. split; vm_compute; [tauto|].
  intros [H|[H|H]]; try discriminate; exact H.
Qed.
