(* Rt/TagMap.v — the tag-to-member maps of the BER decoders (executable model; proofs in
   TagMapProofs.v).

   asn1c emits for every SEQUENCE, SET and CHOICE a table asn_TYPE_tag2member_t[] sorted by
   tag class, tag number and member index; an entry carries the tag, the member it leads to
   and the offsets [toff_first] / [toff_last] from the entry to the first / last entry with
   the same tag.  The decoders search it with the C library's bsearch():

   - SEQUENCE_decode_ber (skeletons/constr_SEQUENCE.c), branch [use_bsearch]: taken when the
     member at the current position [edx] (or one of the first 8 of its run of OPTIONAL
     members) is an untagged CHOICE (tag -1), or when the run that may be skipped is longer
     than 8 members.  The comparison function _t2e_cmp treats every entry with the tag and
     with [el_no >= edx] as EQUAL to the key, so bsearch() may return ANY of them.  The
     decoder therefore rewinds to the first entry with that tag ([toff_first]), scans up to
     the last one ([toff_last]), skips the entries before [edx] and stops at the first entry
     beyond [edx + optional]; the last entry it kept is the member.
   - SET_decode_ber, CHOICE_decode_ber: comparison by tag only; the entry found is the member.

   [bsearch] below is the loop of glibc's bsearch() (stdlib/bsearch.c: l = 0, u = n;
   idx = (l + u) / 2).  The theorems do not depend on it: they hold for EVERY entry the
   comparison function accepts ("some index with an equal key"). *)
From Coq Require Import ZArith List Bool Arith.
Import ListNotations.
Local Open Scope Z_scope.

(* asn_TYPE_tag2member_t; the tag is a ber_tlv_tag_t: number * 4 + class *)
Record t2m := T2M { el_tag : Z; el_no : nat; toff_first : Z; toff_last : Z }.

(* the order of the map: class first (BER_TAG_CLASS = tag & 3), then number (tag >> 2) *)
Definition tag_cmp (a b : Z) : comparison :=
  match (a mod 4) ?= (b mod 4) with
  | Eq => (a / 4) ?= (b / 4)
  | c => c
  end.

(* _t2e_cmp of constr_SEQUENCE.c, key = (tag, edx):  "we do not check for a->el_no <= b->el_no" *)
Definition seq_cmp (tag : Z) (edx : nat) (e : t2m) : comparison :=
  match tag_cmp tag (el_tag e) with
  | Eq => if (el_no e <? edx)%nat then Gt else Eq
  | c => c
  end.

(* _t2e_cmp of constr_SET.c, _search4tag of constr_CHOICE.c *)
Definition tag_only_cmp (tag : Z) (e : t2m) : comparison := tag_cmp tag (el_tag e).

(* glibc bsearch(): [cmp e] is the comparison of the key with entry e *)
Fixpoint bsearch_loop (fuel : nat) (cmp : t2m -> comparison) (m : list t2m) (lo hi : nat) : option nat :=
  match fuel with
  | O => None
  | S f =>
      if (lo <? hi)%nat then
        let mid := ((lo + hi) / 2)%nat in
        match nth_error m mid with
        | None => None
        | Some e =>
            match cmp e with
            | Lt => bsearch_loop f cmp m lo mid
            | Gt => bsearch_loop f cmp m (S mid) hi
            | Eq => Some mid
            end
        end
      else None
  end.

Definition bsearch (cmp : t2m -> comparison) (m : list t2m) : option nat :=
  bsearch_loop (S (length m)) cmp m 0 (length m).

(* the scan of SEQUENCE_decode_ber:
     for(t2m = t2m_f; t2m <= t2m_l; t2m++) {
         if(t2m->el_no > edx_max) break;
         if(t2m->el_no < edx) continue;
         best = t2m;
     }                                                                          *)
Fixpoint scan (es : list t2m) (edx edx_max : nat) (best : option nat) : option nat :=
  match es with
  | [] => best
  | e :: tl =>
      if (edx_max <? el_no e)%nat then best
      else if (el_no e <? edx)%nat then scan tl edx edx_max best
      else scan tl edx edx_max (Some (el_no e))
  end.

(* the entries first .. last (inclusive) of the map; None when they are not all inside it
   (the C would read outside the table) *)
Definition slice (m : list t2m) (first last : Z) : option (list t2m) :=
  if (0 <=? first) && (first <=? last) && (last <? Z.of_nat (length m)) then
    Some (firstn (Z.to_nat (last + 1 - first)) (skipn (Z.to_nat first) m))
  else None.

Inductive pick := POutside | PNone | PSome (el : nat).

(* what the decoder does with the entry at index [probe] that bsearch() returned *)
Definition seq_pick (m : list t2m) (probe : nat) (edx edx_max : nat) : pick :=
  match nth_error m probe with
  | None => POutside
  | Some e =>
      match slice m (Z.of_nat probe + toff_first e) (Z.of_nat probe + toff_last e) with
      | None => POutside
      | Some es => match scan es edx edx_max None with Some k => PSome k | None => PNone end
      end
  end.

(* the member table as far as the search looks at it: the tag of the member (-1 for an
   untagged CHOICE) and the number of OPTIONAL members that may be skipped from it on
   (asn_TYPE_member_t.optional).  ANY and open types are outside the modelled algebra. *)
Definition elem := (Z * nat)%type.

(* the linear part: for(n = edx; n < opt_edx_end; n++) *)
Inductive lin := LFound (n : nat) | LBsearch | LEnd.

Fixpoint linear (els : list elem) (n : nat) (count : nat) (tag : Z) : lin :=
  match count with
  | O => LEnd
  | S c =>
      match nth_error els n with
      | None => LEnd
      | Some (t, _) =>
          if t =? tag then LFound n
          else if t =? -1 then LBsearch
          else linear els (S n) c tag
      end
  end.

(* "Find the next available type with this tag": the member the TLV with tag [tag] belongs to
   when the decoder stands at member [edx]; None = unexpected tag (RC_FAIL, or an extension) *)
Definition seq_find (els : list elem) (m : list t2m) (edx : nat) (tag : Z) : option nat :=
  match nth_error els edx with
  | None => None
  | Some (_, opt) =>
      let count := length els in
      let e0 := (edx + opt + 1)%nat in
      let '(opt_edx_end, long) :=
        if (count <? e0)%nat then (count, false)
        else if (8 <? e0 - edx)%nat then ((edx + 8)%nat, true)
        else (e0, false) in
      let by_map :=
        match bsearch (seq_cmp tag edx) m with
        | Some p => match seq_pick m p edx (edx + opt) with PSome k => Some k | _ => None end
        | None => None
        end in
      match linear els edx (opt_edx_end - edx) tag with
      | LFound n => Some n
      | LBsearch => by_map
      | LEnd => if long then by_map else None
      end
  end.

(* SET_decode_ber / CHOICE_decode_ber: edx = t2m->el_no *)
Definition tag_find (m : list t2m) (tag : Z) : option nat :=
  match bsearch (tag_only_cmp tag) m with
  | Some p => match nth_error m p with Some e => Some (el_no e) | None => None end
  | None => None
  end.

(* ---------------- what the compiler must emit (checked on every generated table) ---------------- *)

Definition cmp_le (c : comparison) : bool := match c with Gt => false | _ => true end.

(* sorted by tag, then by member index *)
Fixpoint sortedb (m : list t2m) : bool :=
  match m with
  | a :: ((b :: _) as tl) =>
      (match tag_cmp (el_tag a) (el_tag b) with
       | Lt => true
       | Eq => (el_no a <=? el_no b)%nat
       | Gt => false
       end) && sortedb tl
  | _ => true
  end.

Definition same_tag (a b : t2m) : bool := match tag_cmp (el_tag a) (el_tag b) with Eq => true | _ => false end.

(* the offsets of the entry at index p lead to the first and to the last entry with its tag:
   the entries first .. last all carry the tag, and they are all the entries that do *)
Definition offsets_okb (m : list t2m) (p : nat) (e : t2m) : bool :=
  let f := Z.of_nat p + toff_first e in
  let l := Z.of_nat p + toff_last e in
  (0 <=? f) && (f <=? Z.of_nat p) && (Z.of_nat p <=? l) && (l <? Z.of_nat (length m)) &&
  forallb (same_tag e) (firstn (Z.to_nat (l + 1 - f)) (skipn (Z.to_nat f) m)) &&
  (Z.of_nat (length (filter (same_tag e) m)) =? l + 1 - f).

Fixpoint offsets_allb (m : list t2m) (p : nat) (rest : list t2m) : bool :=
  match rest with
  | [] => true
  | e :: tl => offsets_okb m p e && offsets_allb m (S p) tl
  end.

Definition tags_nonneg (m : list t2m) : bool := forallb (fun e => 0 <=? el_tag e) m.

Definition wf_mapb (m : list t2m) : bool := tags_nonneg m && sortedb m && offsets_allb m 0 m.

(* ---------------- the specification of the lookup ---------------- *)

(* the member a TLV with tag [tag] belongs to when members edx .. edx_max may come next: the
   LAST entry with that tag in the window (X.680 allows at most one: see TagMapProofs) *)
Definition spec_pick (m : list t2m) (tag : Z) (edx edx_max : nat) : option nat :=
  fold_left (fun best e =>
    if (el_tag e =? tag) && (edx <=? el_no e)%nat && (el_no e <=? edx_max)%nat then Some (el_no e) else best) m None.

(* every index bsearch() may return for the key (tag, edx) *)
Definition probes (m : list t2m) (tag : Z) (edx : nat) : list nat :=
  filter (fun p => match nth_error m p with
                   | Some e => match seq_cmp tag edx e with Eq => true | _ => false end
                   | None => false end) (seq 0 (length m)).

(* the variant of the scan WITHOUT the rewind and without the el_no < edx test (the
   "optimisation" refuted in TagMapProofs.v: it depends on the entry bsearch() probes first) *)
Fixpoint scan_norewind (es : list t2m) (edx_max : nat) (best : option nat) : option nat :=
  match es with
  | [] => best
  | e :: tl => if (edx_max <? el_no e)%nat then best else scan_norewind tl edx_max (Some (el_no e))
  end.

Definition seq_pick_norewind (m : list t2m) (probe : nat) (edx_max : nat) : pick :=
  match nth_error m probe with
  | None => POutside
  | Some e =>
      match slice m (Z.of_nat probe) (Z.of_nat probe + toff_last e) with
      | None => POutside
      | Some es => match scan_norewind es edx_max None with Some k => PSome k | None => PNone end
      end
  end.
