(* Rt/WidthRt.v — the width decision of an OER-visible INTEGER constraint (X.696 10.2),
   stated on its own: [oer_int_ct] (Rt/Oer.v, mirrored from asn1c_C.c
   emit_single_member_OER_constraint_value) picks, for a negative lower bound, the LEAST of
   1, 2, 4, 8 octets whose two's-complement range contains BOTH bounds, and no fixed width
   when none does.  [oer_int_ct_shift] is the decision of seeded/C01-9 (upper test of the
   signed case without the "- 1"): it agrees with the real one except when the upper bound
   is exactly 2^7, 2^15 or 2^31, and there it is one size too small and the encoder of the
   model refuses the upper bound itself, whatever the lower bound.
   Tie: lib/c01_width.py (checks/c01.py). *)
From Coq Require Import ZArith List Lia Bool ZifyBool.
From A1 Require Import Base.Bytes Leaf.IntegerConv Leaf.BerTL Rt.Constraints Rt.Types Rt.Comb Rt.Der Rt.Oer.
Import ListNotations.
Local Open Scope Z_scope.

(* [l, h] lies in the two's-complement range of w octets *)
Definition fits_s (w l h : Z) : bool := (- 2 ^ (8 * w - 1) <=? l) && (h <=? 2 ^ (8 * w - 1) - 1).
(* ... the test of the seeded change *)
Definition fits_shift (w l h : Z) : bool := (- 2 ^ (8 * w - 1) <=? l) && (h <=? 2 ^ (8 * w - 1)).

Lemma f1 l h : fits_s 1 l h = ((-128 <=? l) && (h <=? 127)). Proof. reflexivity. Qed.
Lemma f2 l h : fits_s 2 l h = ((-32768 <=? l) && (h <=? 32767)). Proof. reflexivity. Qed.
Lemma f4 l h : fits_s 4 l h = ((-2147483648 <=? l) && (h <=? 2147483647)). Proof. reflexivity. Qed.
Lemma f8 l h : fits_s 8 l h = ((-9223372036854775808 <=? l) && (h <=? 9223372036854775807)).
Proof. reflexivity. Qed.
Lemma g1 l h : fits_shift 1 l h = ((-128 <=? l) && (h <=? 128)). Proof. reflexivity. Qed.
Lemma g2 l h : fits_shift 2 l h = ((-32768 <=? l) && (h <=? 32768)). Proof. reflexivity. Qed.
Lemma g4 l h : fits_shift 4 l h = ((-2147483648 <=? l) && (h <=? 2147483648)). Proof. reflexivity. Qed.

Definition width_of (f : Z -> Z -> Z -> bool) (l h : Z) : Z :=
  if f 1 l h then 1 else if f 2 l h then 2 else if f 4 l h then 4 else if fits_s 8 l h then 8 else 0.

Definition oer_int_ct_shift (l h : Z) : Z * bool := (width_of fits_shift l h, false).

Theorem oer_width_signed_spec : forall l h, l < 0 ->
  oer_int_ct (ICon (Some l) (Some h) false) = (width_of fits_s l h, false).
Proof.
  intros l h Hl. cbn [oer_int_ct]. unfold width_of. rewrite f1, f2, f4, f8.
  destruct (Z.leb_spec 0 l); [lia|]. reflexivity.
Qed.

(* the width is the least one that holds both bounds *)
Theorem oer_width_signed_least : forall l h w, l < 0 ->
  fst (oer_int_ct (ICon (Some l) (Some h) false)) = w ->
  In w [0; 1; 2; 4; 8] /\
  (w = 0 -> fits_s 8 l h = false) /\
  (w <> 0 -> fits_s w l h = true) /\
  (forall w', In w' [1; 2; 4; 8] -> w' < w -> fits_s w' l h = false).
Proof.
  intros l h w Hl. rewrite (oer_width_signed_spec l h Hl). cbn [fst]. unfold width_of.
  destruct (fits_s 1 l h) eqn:E1; [|destruct (fits_s 2 l h) eqn:E2; [|destruct (fits_s 4 l h) eqn:E4;
    [|destruct (fits_s 8 l h) eqn:E8]]]; intros <-; cbn [In];
    (split; [tauto|]); (split; [intros ?; first [assumption | congruence | lia]|]);
    (split; [intros ?; first [assumption | congruence | lia]|]);
    intros w' [<-|[<-|[<-|[<-|[]]]]] Hlt; first [assumption | lia].
Qed.

(* every value between the bounds fits the width (what the encoder needs) *)
Theorem oer_width_signed_holds : forall l h z w, l < 0 -> l <= z <= h ->
  fst (oer_int_ct (ICon (Some l) (Some h) false)) = w -> w <> 0 ->
  - 2 ^ (8 * w - 1) <= z <= 2 ^ (8 * w - 1) - 1.
Proof.
  intros l h z w Hl Hz Hw Hn.
  destruct (oer_width_signed_least l h w Hl Hw) as (Hin & _ & Hf & _).
  specialize (Hf Hn). cbn [In] in Hin.
  destruct Hin as [<-|[<-|[<-|[<-|[<-|[]]]]]]; [congruence| | | |].
  - rewrite f1 in Hf. change (2 ^ (8 * 1 - 1)) with 128. lia.
  - rewrite f2 in Hf. change (2 ^ (8 * 2 - 1)) with 32768. lia.
  - rewrite f4 in Hf. change (2 ^ (8 * 4 - 1)) with 2147483648. lia.
  - rewrite f8 in Hf. change (2 ^ (8 * 8 - 1)) with 9223372036854775808. lia.
Qed.

(* the seeded decision: the same width unless the upper bound is 2^7, 2^15 or 2^31 ... *)
Theorem oer_width_shift_agrees : forall l h, l < 0 ->
  h <> 128 -> h <> 32768 -> h <> 2147483648 ->
  oer_int_ct_shift l h = oer_int_ct (ICon (Some l) (Some h) false).
Proof.
  intros l h Hl H1 H2 H4. rewrite (oer_width_signed_spec l h Hl).
  unfold oer_int_ct_shift, width_of.
  assert (E1 : fits_shift 1 l h = fits_s 1 l h) by (rewrite f1, g1; lia).
  assert (E2 : fits_shift 2 l h = fits_s 2 l h) by (rewrite f2, g2; lia).
  assert (E4 : fits_shift 4 l h = fits_s 4 l h) by (rewrite f4, g4; lia).
  rewrite E1, E2, E4. reflexivity.
Qed.

(* ... and there it is one size too small, for every lower bound of that size *)
Theorem oer_width_shift_differs : forall l,
  (-128 <= l < 0 -> oer_int_ct_shift l 128 = (1, false) /\
                    oer_int_ct (ICon (Some l) (Some 128) false) = (2, false)) /\
  (-32768 <= l < 0 -> oer_int_ct_shift l 32768 = (2, false) /\
                      oer_int_ct (ICon (Some l) (Some 32768) false) = (4, false)) /\
  (-2147483648 <= l < 0 -> oer_int_ct_shift l 2147483648 = (4, false) /\
                           oer_int_ct (ICon (Some l) (Some 2147483648) false) = (8, false)).
Proof.
  intros l. split; [|split]; intros Hl; rewrite (oer_width_signed_spec l _ (proj2 Hl));
    unfold oer_int_ct_shift, width_of.
  - assert (A : fits_shift 1 l 128 = true) by (rewrite g1; lia).
    assert (B : fits_s 1 l 128 = false) by (rewrite f1; lia).
    assert (C : fits_s 2 l 128 = true) by (rewrite f2; lia).
    rewrite A, B, C. split; reflexivity.
  - assert (A0 : fits_shift 1 l 32768 = false) by (rewrite g1; lia).
    assert (A : fits_shift 2 l 32768 = true) by (rewrite g2; lia).
    assert (B0 : fits_s 1 l 32768 = false) by (rewrite f1; lia).
    assert (B : fits_s 2 l 32768 = false) by (rewrite f2; lia).
    assert (C : fits_s 4 l 32768 = true) by (rewrite f4; lia).
    rewrite A0, A, B0, B, C. split; reflexivity.
  - assert (A0 : fits_shift 1 l 2147483648 = false) by (rewrite g1; lia).
    assert (A1 : fits_shift 2 l 2147483648 = false) by (rewrite g2; lia).
    assert (A : fits_shift 4 l 2147483648 = true) by (rewrite g4; lia).
    assert (B0 : fits_s 1 l 2147483648 = false) by (rewrite f1; lia).
    assert (B1 : fits_s 2 l 2147483648 = false) by (rewrite f2; lia).
    assert (B : fits_s 4 l 2147483648 = false) by (rewrite f4; lia).
    assert (C : fits_s 8 l 2147483648 = true) by (rewrite f8; lia).
    rewrite A0, A1, A, B0, B1, B, C. split; reflexivity.
Qed.

(* the encoder of Rt/Oer.v with the width taken from a given decision *)
Definition oer_int_with (ct : Z * bool) (z : Z) : option (list Z) :=
  let '(width, positive) := ct in
  let body := imax2INTEGER z in
  let negative := match body with b :: _ => 128 <=? b | [] => false end in
  if positive && negative then None
  else
    let useful := if positive then strip_zeros body else body in
    if width =? 0 then Some (oer_length (zlen useful) ++ useful)
    else if width <? zlen useful then None
    else Some (repeat (if negative then 255 else 0) (Z.to_nat (width - zlen useful)) ++ useful).

Lemma oer_int_with_eq c z : oer_int c z = oer_int_with (oer_int_ct c) z.
Proof. unfold oer_int, oer_int_with. destruct (oer_int_ct c). reflexivity. Qed.

(* the value equal to the upper bound is refused under the seeded width and encoded under the real one *)
Theorem oer_width_shift_refuted : forall l,
  (-128 <= l < 0 ->
     oer_int_with (oer_int_ct_shift l 128) 128 = None /\
     oer_int (ICon (Some l) (Some 128) false) 128 = Some [0; 128]) /\
  (-32768 <= l < 0 ->
     oer_int_with (oer_int_ct_shift l 32768) 32768 = None /\
     oer_int (ICon (Some l) (Some 32768) false) 32768 = Some [0; 0; 128; 0]).
Proof.
  intros l. destruct (oer_width_shift_differs l) as (H1 & H2 & _).
  split; intros Hl; [destruct (H1 Hl) as (Ha & Hb)|destruct (H2 Hl) as (Ha & Hb)];
    rewrite oer_int_with_eq, Ha, Hb; split; vm_compute; reflexivity.
Qed.
