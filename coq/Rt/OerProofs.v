(* Rt/OerProofs.v — the OER encoder of the model (Rt/Oer.v) is inverted by the
   reference decoder: decoding what the encoder produced, followed by any
   trailing input, returns the value and exactly that trailing input.
   Structure as in Rt/DerProofs.v: a predicate RT quantified over the trailing
   input, one generic lemma per combinator, then the induction on the type. *)
From Coq Require Import ZArith List Lia Bool ZifyBool.
From A1 Require Import Base.Bytes Base.Digits Leaf.IntegerConv Leaf.IntegerConvProofs
  Leaf.BerTL Leaf.BerTLProofs Rt.Types Rt.TypesInd Rt.Comb Rt.Der Rt.DerProofs Rt.Uper Rt.Oer Rt.OerLeaf.
Import ListNotations.
Local Open Scope Z_scope.

(* ---------------- hypotheses ---------------- *)

(* a tag the OER tag octets can carry: number below 2^30 (ber_tlv_tag_t) *)
Definition oer_tagb (tg : Z) : bool := (0 <=? tg) && (tg / 4 <? two30).

(* well-formed types: tags in range; OPTIONAL only as a direct SEQUENCE member;
   the alternatives of a CHOICE have pairwise distinct first tags (X.680) *)
Fixpoint wf_ty_oer (t : ty) : bool :=
  match t with
  | TBool tg | TNull tg | TInt tg _ | TOct tg _ => oer_tagb tg
  | TSeq tg ms => oer_tagb tg && forallb wf_ty_oer ms
  | TSeqOf tg _ e | TSetOf tg _ e => oer_tagb tg && wf_ty_oer e && not_opt e
  | TChoice alts => forallb wf_ty_oer alts && forallb not_opt alts && alts_distinct alts
  | TTag tg t' => oer_tagb tg && wf_ty_oer t' && not_opt t'
  | TOpt t' => wf_ty_oer t' && not_opt t'
  end.

(* values the C can hold: native long integers; sizes and element counts are
   C sizes (at most RSSIZE_MAX) *)
Fixpoint wt_oer (t : ty) (v : val) {struct t} : bool :=
  match t, v with
  | TBool _, VBool _ => true
  | TNull _, VNull => true
  | TInt _ _, VInt z => fits_long z
  | TOct _ _, VOct bs => zlen bs <=? rssize_max
  | TSeq _ ms, VSeq vs =>
      (fix go (ms : list ty) (vs : list val) : bool :=
         match ms, vs with
         | [], [] => true
         | m :: ms', v :: vs' => wt_oer m v && go ms' vs'
         | _, _ => false
         end) ms vs
  | TSeqOf _ _ e, VList vs | TSetOf _ _ e, VList vs =>
      (zlen vs <=? rssize_max) && forallb (wt_oer e) vs
  | TChoice alts, VChoice i v' =>
      (fix pick (alts : list ty) (i : nat) : bool :=
         match alts, i with
         | a :: _, O => wt_oer a v'
         | _ :: r, S j => pick r j
         | [], _ => false
         end) alts i
  | TTag _ t', _ => wt_oer t' v
  | TOpt _, VNone => true
  | TOpt t', VSome v' => wt_oer t' v'
  | _, _ => false
  end.

(* an absent OPTIONAL has no encoding of its own: it is the preamble bit of the
   enclosing SEQUENCE that says so *)
Definition oer_present (t : ty) (v : val) : Prop :=
  match t, v with
  | TOpt _, VNone => False
  | _, _ => True
  end.

Lemma oer_present_not_opt t v : not_opt t = true -> oer_present t v.
Proof. destruct t; cbn; auto. discriminate. Qed.

Definition RT (t : ty) : Prop := forall v bs rest,
  wf_ty_oer t = true -> wt_oer t v = true -> oer t v = Some bs -> oer_present t v ->
  oer_dec t (bs ++ rest) = Some (v, rest).

(* ---------------- tags of a CHOICE ---------------- *)

Lemma oer_tagb_ok tg : oer_tagb tg = true -> oer_tag_ok tg.
Proof. unfold oer_tagb, oer_tag_ok. lia. Qed.

Lemma oer_first_tags_ok t : wf_ty_oer t = true -> Forall oer_tag_ok (first_tags t).
Proof.
  induction t using ty_ind'; intros Hwf; cbn [wf_ty_oer] in Hwf; cbn [first_tags].
  - constructor; [apply oer_tagb_ok; exact Hwf|constructor].
  - constructor; [apply oer_tagb_ok; exact Hwf|constructor].
  - constructor; [apply oer_tagb_ok; exact Hwf|constructor].
  - constructor; [apply oer_tagb_ok; exact Hwf|constructor].
  - apply andb_true_iff in Hwf. destruct Hwf as [Hwf _].
    constructor; [apply oer_tagb_ok; exact Hwf|constructor].
  - apply andb_true_iff in Hwf. destruct Hwf as [Hwf _].
    apply andb_true_iff in Hwf. destruct Hwf as [Hwf _].
    constructor; [apply oer_tagb_ok; exact Hwf|constructor].
  - apply andb_true_iff in Hwf. destruct Hwf as [Hwf _].
    apply andb_true_iff in Hwf. destruct Hwf as [Hwf _].
    constructor; [apply oer_tagb_ok; exact Hwf|constructor].
  - apply andb_true_iff in Hwf. destruct Hwf as [Hwf _].
    apply andb_true_iff in Hwf. destruct Hwf as [Hwf _].
    induction H as [|a r Ha Hr IHr]; cbn [flat_map]; [constructor|].
    cbn [forallb] in Hwf. apply andb_true_iff in Hwf. destruct Hwf as [Hw Hwr].
    apply Forall_app. split; auto.
  - apply andb_true_iff in Hwf. destruct Hwf as [Hwf _].
    apply andb_true_iff in Hwf. destruct Hwf as [Hwf _].
    constructor; [apply oer_tagb_ok; exact Hwf|constructor].
  - apply andb_true_iff in Hwf. destruct Hwf as [Hwf _]. auto.
Qed.

(* the tag the CHOICE encoder writes is one of the first tags of the type of
   the value (nested CHOICE included) *)
Lemma oer_outmost_in_first t : forall v bs,
  wf_ty_oer t = true -> not_opt t = true -> oer t v = Some bs ->
  In (outmost_tag t v) (first_tags t).
Proof.
  induction t using ty_ind'; intros v bs Hwf Hno Hd; cbn [wf_ty_oer] in Hwf;
    cbn [first_tags]; try (cbn [outmost_tag]; left; reflexivity).
  - (* CHOICE *)
    destruct v; try discriminate. cbn [oer] in Hd.
    destruct (enc_alt oer v alts i) as [body|] eqn:Eb; [|discriminate]. clear Hd bs.
    apply andb_true_iff in Hwf. destruct Hwf as [Hwf _].
    apply andb_true_iff in Hwf. destruct Hwf as [Hwf1 Hwf2].
    clear Hno. revert i Eb.
    induction H as [|a r Ha Hr IHr]; intros i Eb; [destruct i; discriminate|].
    cbn [forallb] in Hwf1, Hwf2.
    apply andb_true_iff in Hwf1. destruct Hwf1 as [Hw1 Hw1r].
    apply andb_true_iff in Hwf2. destruct Hwf2 as [Hw2 Hw2r].
    cbn [flat_map]. apply in_or_app.
    destruct i; cbn [enc_alt] in Eb.
    + left. exact (Ha v body Hw1 Hw2 Eb).
    + right. exact (IHr Hw1r Hw2r i Eb).
  - discriminate.
Qed.

(* ---------------- SEQUENCE members ---------------- *)

Lemma oer_dec_members_pres_nonopt {St} (dec : ty -> St -> option (val * St)) m ms pres s :
  is_opt m = false ->
  dec_members_pres dec (m :: ms) pres s =
  match dec m s with
  | Some (v, r) =>
      match dec_members_pres dec ms pres r with
      | Some (vs, r') => Some (v :: vs, r')
      | None => None
      end
  | None => None
  end.
Proof. destruct m; intros H; try reflexivity. discriminate. Qed.

Lemma oer_members_rt ms : Forall RT ms -> forall vs body rest,
  forallb wf_ty_oer ms = true ->
  wt_oer (TSeq 0 ms) (VSeq vs) = true -> enc_members oer ms vs = Some body ->
  dec_members_pres oer_dec ms (presence_bits ms vs) (body ++ rest) = Some (vs, rest) /\
  length (presence_bits ms vs) = length (filter is_opt ms).
Proof.
  induction 1 as [|m ms' Hm Hms IH]; intros vs body rest Hwf Hwt He;
    destruct vs as [|v vs']; cbn [enc_members] in He; try discriminate.
  - injection He as <-. split; reflexivity.
  - cbn [forallb] in Hwf. apply andb_true_iff in Hwf. destruct Hwf as [Hw Hwr].
    cbn [wt_oer] in Hwt. apply andb_true_iff in Hwt. destruct Hwt as [Hwt1 Hwtr].
    destruct (oer m v) as [a|] eqn:Ea; [|discriminate].
    destruct (enc_members oer ms' vs') as [b|] eqn:Eb; [|discriminate]. injection He as <-.
    destruct (IH vs' b rest Hwr Hwtr Eb) as [IHd IHl].
    rewrite <- app_assoc. cbn [presence_bits filter].
    destruct (is_opt m) eqn:Eo.
    + (* OPTIONAL member *)
      destruct m; try discriminate. cbn [app length]. rewrite IHl. split; [|reflexivity].
      destruct v; try discriminate.
      * (* absent *)
        cbn [oer] in Ea. injection Ea as <-. cbn [app dec_members_pres].
        rewrite IHd. reflexivity.
      * (* present *)
        pose proof (Hm (VSome v) a (b ++ rest) Hw Hwt1 Ea I) as Hr.
        cbn [oer_dec] in Hr. cbn [dec_members_pres].
        destruct (oer_dec m (a ++ b ++ rest)) as [[x r]|]; [|discriminate].
        injection Hr as -> ->. rewrite IHd. reflexivity.
    + cbn [app]. split; [|exact IHl].
      rewrite oer_dec_members_pres_nonopt by exact Eo.
      assert (Hp : oer_present m v) by (apply oer_present_not_opt; unfold not_opt; rewrite Eo; reflexivity).
      rewrite (Hm v a (b ++ rest) Hw Hwt1 Ea Hp). rewrite IHd. reflexivity.
Qed.

(* ---------------- SEQUENCE OF / SET OF elements ---------------- *)

Lemma oer_items_rt e : RT e -> wf_ty_oer e = true -> not_opt e = true -> forall vs es rest,
  forallb (wt_oer e) vs = true -> option_all (map (oer e) vs) = Some es ->
  dec_items (oer_dec e) (length vs) (concat es ++ rest) = Some (vs, rest).
Proof.
  intros He Hw Hno. induction vs as [|v vs' IH]; intros es rest Hwt Ho.
  - cbn in Ho. injection Ho as <-. reflexivity.
  - apply option_all_map_cons in Ho. destruct Ho as (a & es' & Ea & Eo & ->).
    cbn [forallb] in Hwt. apply andb_true_iff in Hwt. destruct Hwt as [Hwt1 Hwtr].
    cbn [concat length dec_items]. rewrite <- app_assoc.
    rewrite (He v a (concat es' ++ rest) Hw Hwt1 Ea (oer_present_not_opt e v Hno)).
    rewrite (IH es' rest Hwtr Eo). reflexivity.
Qed.

(* ---------------- CHOICE alternatives ---------------- *)

Lemma oer_alts_rt alts : Forall RT alts -> forall i k v body rest tg,
  forallb wf_ty_oer alts = true -> forallb not_opt alts = true -> alts_distinct alts = true ->
  wt_oer (TChoice alts) (VChoice i v) = true -> enc_alt oer v alts i = Some body ->
  tg = outmost_tag (TChoice alts) (VChoice i v) ->
  dec_alt oer_dec (fun _ a => tag_in tg (first_tags a)) (body ++ rest) alts k
  = Some (VChoice (k + i) v, rest).
Proof.
  induction 1 as [|a r Ha Hr IH]; intros i k v body rest tg Hwf Hno Hdis Hwt He Htg;
    [destruct i; discriminate|].
  cbn [forallb] in Hwf, Hno. apply andb_true_iff in Hwf. destruct Hwf as [Hw Hwr].
  apply andb_true_iff in Hno. destruct Hno as [Hn Hnr].
  cbn [alts_distinct] in Hdis. apply andb_true_iff in Hdis. destruct Hdis as [Hd Hdr].
  cbn [dec_alt]. destruct i as [|j]; cbn [enc_alt] in He; cbn [wt_oer] in Hwt.
  - assert (Hin : In tg (first_tags a)).
    { subst tg. exact (oer_outmost_in_first a v body Hw Hn He). }
    apply tag_in_In in Hin. rewrite Hin.
    rewrite (Ha v body rest Hw Hwt He (oer_present_not_opt a v Hn)).
    replace (k + 0)%nat with k by lia. reflexivity.
  - (* the tag is a first tag of a later alternative: not of this one *)
    assert (Htg' : tg = outmost_tag (TChoice r) (VChoice j v)) by exact Htg.
    assert (Hnot : tag_in tg (first_tags a) = false).
    { destruct (tag_in tg (first_tags a)) eqn:Et; [|reflexivity]. exfalso.
      apply tag_in_In in Et.
      assert (Hwc : wf_ty_oer (TChoice r) = true).
      { cbn [wf_ty_oer]. rewrite Hwr, Hnr, Hdr. reflexivity. }
      assert (Henc : oer (TChoice r) (VChoice j v)
                     = Some (oer_tag (outmost_tag (TChoice r) (VChoice j v)) ++ body)).
      { cbn [oer]. rewrite He. reflexivity. }
      pose proof (oer_outmost_in_first (TChoice r) (VChoice j v) _ Hwc eq_refl Henc) as Hin.
      rewrite <- Htg' in Hin. cbn [first_tags] in Hin.
      apply in_flat_map in Hin. destruct Hin as (b & Hb & Hinb).
      rewrite forallb_forall in Hd. specialize (Hd b Hb).
      eapply disjointb_spec; eauto. }
    rewrite Hnot.
    rewrite (IH j (S k) v body rest tg Hwr Hnr Hdr Hwt He Htg').
    replace (S k + j)%nat with (k + S j)%nat by lia. reflexivity.
Qed.

(* ---------------- the main induction ---------------- *)

Lemma oer_list_rt e (s : scon) (vs : list val) (bs rest : list Z) : RT e ->
  wf_ty_oer e = true -> not_opt e = true ->
  (zlen vs <=? rssize_max) && forallb (wt_oer e) vs = true ->
  match option_all (map (oer e) vs) with
  | Some es => Some (oer_quantity (zlen vs) ++ concat es)
  | None => None
  end = Some bs ->
  match oer_get_quantity (bs ++ rest) with
  | Some (n, r) =>
      match dec_items (oer_dec e) (Z.to_nat n) r with
      | Some (vs, r') => Some (VList vs, r')
      | None => None
      end
  | None => None
  end = Some (VList vs, rest).
Proof.
  intros He Hwe Hno Hwt Hd.
  apply andb_true_iff in Hwt. destruct Hwt as [Hlen Hwt].
  destruct (option_all (map (oer e) vs)) as [es|] eqn:Ec; [|discriminate].
  assert (E : bs = oer_quantity (zlen vs) ++ concat es) by congruence. subst bs. clear Hd.
  rewrite <- app_assoc.
  rewrite oer_quantity_inverse by (apply oer_small_count; pose proof (zlen_nonneg vs); lia).
  unfold zlen. rewrite Nat2Z.id.
  rewrite (oer_items_rt e He Hwe Hno vs es rest Hwt Ec). reflexivity.
Qed.

Theorem oer_decodes_all t : RT t.
Proof.
  induction t using ty_ind'; intros v bs rest Hwf Hwt Hd Hp; cbn [wf_ty_oer] in Hwf.
  - (* BOOLEAN *)
    destruct v; try discriminate. injection Hd as <-. destruct b; reflexivity.
  - (* NULL *)
    destruct v; try discriminate. injection Hd as <-. reflexivity.
  - (* INTEGER *)
    destruct v; try discriminate. cbn [oer] in Hd. cbn [wt_oer] in Hwt. cbn [oer_dec].
    rewrite (oer_int_inverse c z bs rest Hwt Hd). rewrite Hwt. reflexivity.
  - (* OCTET STRING *)
    destruct v; try discriminate. cbn [oer] in Hd. cbn [wt_oer] in Hwt. cbn [oer_dec].
    destruct (oer_fixed_size s) as [n|].
    + destruct (zlen bs0 =? n) eqn:E; [|discriminate]. injection Hd as <-.
      rewrite (oer_take_app_eq n) by lia. reflexivity.
    + injection Hd as <-. rewrite <- app_assoc.
      rewrite oer_length_inverse by (apply oer_small_count; pose proof (zlen_nonneg bs0); lia).
      rewrite oer_take_app. reflexivity.
  - (* SEQUENCE *)
    destruct v; try discriminate. cbn [oer] in Hd.
    destruct (enc_members oer ms vs) as [body|] eqn:Ec; [|discriminate]. injection Hd as <-.
    apply andb_true_iff in Hwf. destruct Hwf as [_ Hwm].
    destruct (oer_members_rt ms H vs body rest Hwm Hwt Ec) as [Hdm Hlen].
    cbn [oer_dec]. rewrite <- app_assoc. rewrite <- Hlen.
    destruct (oer_preamble_inverse (presence_bits ms vs) (body ++ rest)) as (Ht & x & Hx).
    rewrite Ht, Hx, Hdm. reflexivity.
  - (* SEQUENCE OF *)
    destruct v; try discriminate. cbn [oer] in Hd. cbn [wt_oer] in Hwt. cbn [oer_dec].
    apply andb_true_iff in Hwf. destruct Hwf as [Hwf Hno].
    apply andb_true_iff in Hwf. destruct Hwf as [_ Hwe].
    exact (oer_list_rt t s vs bs rest IHt Hwe Hno Hwt Hd).
  - (* SET OF: the elements are written in the order stored *)
    destruct v; try discriminate. cbn [oer] in Hd. cbn [wt_oer] in Hwt. cbn [oer_dec].
    apply andb_true_iff in Hwf. destruct Hwf as [Hwf Hno].
    apply andb_true_iff in Hwf. destruct Hwf as [_ Hwe].
    exact (oer_list_rt t s vs bs rest IHt Hwe Hno Hwt Hd).
  - (* CHOICE *)
    destruct v; try discriminate. cbn [oer] in Hd.
    destruct (enc_alt oer v alts i) as [body|] eqn:Eb; [|discriminate]. injection Hd as <-.
    pose proof Hwf as Hwc.
    apply andb_true_iff in Hwf. destruct Hwf as [Hwf Hdis].
    apply andb_true_iff in Hwf. destruct Hwf as [Hwa Hno].
    set (tg := outmost_tag (TChoice alts) (VChoice i v)).
    assert (Hin : In tg (first_tags (TChoice alts))).
    { apply (oer_outmost_in_first (TChoice alts) (VChoice i v) (oer_tag tg ++ body)); auto.
      cbn [oer]. rewrite Eb. reflexivity. }
    pose proof (oer_first_tags_ok (TChoice alts) Hwc) as Hok.
    rewrite Forall_forall in Hok. specialize (Hok tg Hin).
    cbn [oer_dec]. rewrite <- app_assoc. rewrite oer_tag_inverse by exact Hok.
    exact (oer_alts_rt alts H i O v body rest tg Hwa Hno Hdis Hwt Eb eq_refl).
  - (* EXPLICIT tag: transparent in OER *)
    cbn [oer] in Hd. cbn [wt_oer] in Hwt. cbn [oer_dec].
    apply andb_true_iff in Hwf. destruct Hwf as [Hwf Hno].
    apply andb_true_iff in Hwf. destruct Hwf as [_ Hwt'].
    exact (IHt v bs rest Hwt' Hwt Hd (oer_present_not_opt t v Hno)).
  - (* OPTIONAL, present *)
    apply andb_true_iff in Hwf. destruct Hwf as [Hw Hno].
    destruct v; try discriminate; cbn [oer] in Hd; cbn [oer_dec].
    + destruct Hp.
    + cbn [wt_oer] in Hwt.
      rewrite (IHt v bs rest Hw Hwt Hd (oer_present_not_opt t v Hno)). reflexivity.
Qed.

(* ---------------- the theorems ---------------- *)

(* C01 for OER on the model, in a stream: whatever follows the encoding is
   left untouched *)
Theorem oer_roundtrip_in_stream : forall t v bs rest,
  wf_ty_oer t = true -> not_opt t = true -> wt_oer t v = true -> oer t v = Some bs ->
  oer_dec t (bs ++ rest) = Some (v, rest).
Proof.
  intros t v bs rest Hwf Hno Hwt Hd.
  exact (oer_decodes_all t v bs rest Hwf Hwt Hd (oer_present_not_opt t v Hno)).
Qed.

(* the same for an OPTIONAL member that is present (the decoder of the member,
   as the SEQUENCE decoder calls it when the preamble bit is set) *)
Theorem oer_roundtrip_optional_present : forall t v bs rest,
  wf_ty_oer (TOpt t) = true -> wt_oer t v = true -> oer t v = Some bs ->
  oer_dec (TOpt t) (bs ++ rest) = Some (VSome v, rest).
Proof.
  intros t v bs rest Hwf Hwt Hd.
  exact (oer_decodes_all (TOpt t) (VSome v) bs rest Hwf Hwt Hd I).
Qed.

(* decoding what the encoder produced returns the value and consumes exactly
   the bytes produced *)
Corollary oer_decode_roundtrip : forall t v bs,
  wf_ty_oer t = true -> not_opt t = true -> wt_oer t v = true -> oer t v = Some bs ->
  oer_decode t bs = Some (v, zlen bs).
Proof.
  intros t v bs Hwf Hno Hwt Hd. unfold oer_decode.
  pose proof (oer_roundtrip_in_stream t v bs [] Hwf Hno Hwt Hd) as H. rewrite app_nil_r in H.
  rewrite H. f_equal. f_equal. unfold zlen. cbn [length]. lia.
Qed.

(* the type hypothesis of the DER theorem implies the one used here *)
Lemma wf_ty_wf_ty_oer t : wf_ty t = true -> wf_ty_oer t = true.
Proof.
  assert (Htg : forall tg, (0 <? tg) && (tg / 4 <? two30) = true -> oer_tagb tg = true)
    by (intros tg; unfold oer_tagb; lia).
  assert (Hall : forall l, Forall (fun t => wf_ty t = true -> wf_ty_oer t = true) l ->
                           forallb wf_ty l = true -> forallb wf_ty_oer l = true).
  { induction 1 as [|a r Ha Hr IHr]; intros Hf; [reflexivity|].
    cbn [forallb] in *. apply andb_true_iff in Hf. destruct Hf as [H1 H2].
    rewrite (Ha H1), (IHr H2). reflexivity. }
  induction t using ty_ind'; intros Hwf; cbn [wf_ty wf_ty_oer] in *; auto.
  - apply andb_true_iff in Hwf. destruct Hwf as [Hwf _].
    apply andb_true_iff in Hwf. destruct Hwf as [H1 H2].
    rewrite (Htg _ H1), (Hall ms H H2). reflexivity.
  - apply andb_true_iff in Hwf. destruct Hwf as [Hwf H3].
    apply andb_true_iff in Hwf. destruct Hwf as [H1 H2].
    rewrite (Htg _ H1), (IHt H2), H3. reflexivity.
  - apply andb_true_iff in Hwf. destruct Hwf as [Hwf H3].
    apply andb_true_iff in Hwf. destruct Hwf as [H1 H2].
    rewrite (Htg _ H1), (IHt H2), H3. reflexivity.
  - apply andb_true_iff in Hwf. destruct Hwf as [Hwf _].
    apply andb_true_iff in Hwf. destruct Hwf as [Hwf H3].
    apply andb_true_iff in Hwf. destruct Hwf as [H1 H2].
    rewrite (Hall alts H H1), H2, H3. reflexivity.
  - apply andb_true_iff in Hwf. destruct Hwf as [Hwf H3].
    apply andb_true_iff in Hwf. destruct Hwf as [H1 H2].
    rewrite (Htg _ H1), (IHt H2), H3. reflexivity.
  - apply andb_true_iff in Hwf. destruct Hwf as [H1 H2].
    rewrite (IHt H1), H2. reflexivity.
Qed.

(* ---------------- a concrete instance of the hypotheses ---------------- *)

(* context-specific tag [n] as ber_tlv_tag_t *)
Definition oer_ex_ctx (n : Z) : Z := n * 4 + 2.

(* SEQUENCE {
     a INTEGER (0..255), b INTEGER (-32768..32767) OPTIONAL, c INTEGER (0..MAX),
     d INTEGER, e INTEGER (0..18446744073709551615), f INTEGER (1..10, ...),
     g OCTET STRING (SIZE(3)), h OCTET STRING OPTIONAL, i OCTET STRING (200 octets: long length),
     j BOOLEAN OPTIONAL, k NULL,
     l CHOICE { [0] BOOLEAN, [1] NULL, CHOICE { [2] INTEGER, [1000] OCTET STRING }, [3] EXPLICIT INTEGER },
     m the same CHOICE, first alternative,
     n SEQUENCE OF INTEGER (-128..127), o SET OF SEQUENCE { x BOOLEAN OPTIONAL, y INTEGER (0..65535) },
     p [7] EXPLICIT SEQUENCE OF NULL (130 elements) } *)
Definition oer_ex_choice : ty :=
  TChoice [TBool (oer_ex_ctx 0); TNull (oer_ex_ctx 1);
           TChoice [TInt (oer_ex_ctx 2) (ICon None None false); TOct (oer_ex_ctx 1000) (SCon 0 None false)];
           TTag (oer_ex_ctx 3) (TInt (utag 2) (ICon None None false))].

Definition oer_ex_ty : ty :=
  TSeq (utag 16)
    [TInt (utag 2) (ICon (Some 0) (Some 255) false);
     TOpt (TInt (utag 2) (ICon (Some (-32768)) (Some 32767) false));
     TInt (utag 2) (ICon (Some 0) None false);
     TInt (utag 2) (ICon None None false);
     TInt (utag 2) (ICon (Some 0) (Some 18446744073709551615) false);
     TInt (utag 2) (ICon (Some 1) (Some 10) true);
     TOct (utag 4) (SCon 3 (Some 3) false);
     TOpt (TOct (utag 4) (SCon 0 None false));
     TOct (utag 4) (SCon 0 None false);
     TOpt (TBool (utag 1));
     TNull (utag 5);
     oer_ex_choice;
     oer_ex_choice;
     TSeqOf (utag 16) (SCon 0 None false) (TInt (utag 2) (ICon (Some (-128)) (Some 127) false));
     TSetOf (utag 17) (SCon 0 None false)
       (TSeq (utag 16) [TOpt (TBool (utag 1)); TInt (utag 2) (ICon (Some 0) (Some 65535) false)]);
     TTag (oer_ex_ctx 7) (TSeqOf (utag 16) (SCon 0 None false) (TNull (utag 5)))].

Definition oer_ex_val : val :=
  VSeq
    [VInt 200;
     VSome (VInt (-2));
     VInt 70000;
     VInt (-9223372036854775808);
     VInt 9223372036854775807;
     VInt (-5);
     VOct [1; 2; 3];
     VNone;
     VOct (repeat 7 200);
     VSome (VBool true);
     VNull;
     VChoice 2 (VChoice 1 (VOct [9; 8]));
     VChoice 0 (VBool false);
     VList [VInt (-128); VInt 127; VInt 0];
     VList [VSeq [VSome (VBool true); VInt 65535]; VSeq [VNone; VInt 0]];
     VList (repeat VNull 130)].

Example oer_ex_hypotheses :
  wf_ty_oer oer_ex_ty = true /\ not_opt oer_ex_ty = true /\ wt_oer oer_ex_ty oer_ex_val = true /\
  exists bs, oer oer_ex_ty oer_ex_val = Some bs /\ zlen bs = 260.
Proof.
  split; [vm_compute; reflexivity|]. split; [vm_compute; reflexivity|].
  split; [vm_compute; reflexivity|].
  destruct (oer oer_ex_ty oer_ex_val) as [bs|] eqn:E; [|vm_compute in E; discriminate].
  exists bs. split; [reflexivity|]. vm_compute in E. injection E as <-. reflexivity.
Qed.

(* the theorem applied to it (also checked here by evaluation) *)
Example oer_ex_roundtrip :
  match oer oer_ex_ty oer_ex_val with
  | Some bs => oer_decode oer_ex_ty bs = Some (oer_ex_val, zlen bs)
  | None => False
  end.
Proof. vm_compute. reflexivity. Qed.

(* ---------------- the hypotheses are needed ---------------- *)

(* an absent OPTIONAL outside a SEQUENCE has no OER encoding of its own *)
Theorem oer_roundtrip_top_optional_refuted :
  exists t v bs, wf_ty_oer t = true /\ wt_oer t v = true /\ oer t v = Some bs /\
                 oer_dec t bs <> Some (v, []).
Proof.
  exists (TOpt (TBool (utag 1))), VNone, []. vm_compute. repeat split; discriminate.
Qed.

(* CHOICE alternatives with a common first tag: the decoder takes the first *)
Theorem oer_roundtrip_ambiguous_choice_refuted :
  exists t v bs, not_opt t = true /\ wt_oer t v = true /\ oer t v = Some bs /\
                 oer_dec t bs <> Some (v, []).
Proof.
  exists (TChoice [TBool (utag 1); TBool (utag 1)]), (VChoice 1 (VBool true)), [1; 255].
  vm_compute. repeat split; discriminate.
Qed.

(* an integer outside the C long range: asn_imax2INTEGER wraps *)
Theorem oer_roundtrip_wide_integer_refuted :
  exists t v bs, wf_ty_oer t = true /\ not_opt t = true /\ oer t v = Some bs /\
                 oer_dec t bs <> Some (v, []).
Proof.
  exists (TInt (utag 2) (ICon None None false)), (VInt 18446744073709551616), [1; 0].
  vm_compute. repeat split; discriminate.
Qed.
