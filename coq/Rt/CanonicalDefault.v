(* Rt/CanonicalDefault.v — C06, DEFAULT components of an extensible SEQUENCE
   (root members and extension additions) on top of the extensibility model Rt/Ext.v.

   asn1c keeps a component with a DEFAULT like an OPTIONAL one (absent = NULL pointer, or
   the member stored in line) and gives its descriptor a generated `default_value_cmp`;
   every encoder asks it, at every place where it looks at the component, whether the
   stored value is the DEFAULT and treats the component as absent then
   (SEQUENCE_encode_der both passes; SEQUENCE_encode_uper root bitmap and members,
   SEQUENCE__handle_extensions counting / bitmap / open-type passes; SEQUENCE_encode_oer
   extension bit, root bitmap, members, addition bitmap, additions).
   Model: [elide ds vs] replaces a stored value equal to its DEFAULT by VNone and the
   encoders of Ext.v run on the result, which is the same as asking at every place.
   The variants below ask at some places only; each is one of the changes the tie
   (checks/c06.py) has been confronted with.
   The generated comparison exists for INTEGER, ENUMERATED, BOOLEAN, NULL: [leaf_eqb].
   No proofs here (CanonicalDefaultProofs.v). *)
From Coq Require Import ZArith List Bool.
From A1 Require Import Base.Bytes Rt.Types Rt.Comb Rt.Der Rt.Uper Rt.Oer Rt.Ext.
Import ListNotations.
Local Open Scope Z_scope.

Definition leaf_eqb (a b : val) : bool :=
  match a, b with
  | VInt x, VInt y => x =? y
  | VBool x, VBool y => Bool.eqb x y
  | VNull, VNull => true
  | _, _ => false
  end.

(* one component: d = its DEFAULT, if it has one *)
Definition elide1 (d : option val) (v : val) : val :=
  match d, v with
  | Some dv, VSome x => if leaf_eqb x dv then VNone else v
  | _, _ => v
  end.

Fixpoint elide (ds : list (option val)) (vs : list val) : list val :=
  match ds, vs with
  | d :: ds', v :: vs' => elide1 d v :: elide ds' vs'
  | _, _ => vs
  end.

(* dr: DEFAULTs of the root members, da: of the additions *)
Definition elide_v (dr da : list (option val)) (v : eval) : eval :=
  match v with
  | EVSeq rvs avs => EVSeq (elide dr rvs) (elide da avs)
  | EVAlt _ _ => v
  end.

Definition dfl_der (dr da : list (option val)) (t : ety) (v : eval) : option (list Z) :=
  ext_der t (elide_v dr da v).
Definition dfl_uper (std : bool) (dr da : list (option val)) (t : ety) (v : eval) : option (list Z) :=
  ext_uper_encode std t (elide_v dr da v).
Definition dfl_oer (dr da : list (option val)) (t : ety) (v : eval) : option (list Z) :=
  ext_oer t (elide_v dr da v).

(* ---------------- encoders that ask at some places only ---------------- *)

(* SEQUENCE_encode_oer with the extension bit decided by what is STORED (seeded changes
   C06-3 and C06-5); bitmap, root and additions as above *)
Definition dfl_oer_stored_bit (dr da : list (option val)) (t : ety) (v : eval) : option (list Z) :=
  match t, v with
  | ESeq _ root adds, EVSeq rvs0 avs0 =>
      let rvs := elide dr rvs0 in
      let avs := elide da avs0 in
      match enc_members oer root rvs, enc_additions oer oer_open adds avs with
      | Some body, Some ots =>
          let any := existsb is_present avs0 in
          let pre := bits_to_bytes (any :: presence_bits root rvs) in
          if any then
            match oer_ext_bitmap (map is_present avs) with
            | Some bm => Some (pre ++ body ++ bm ++ ots)
            | None => None
            end
          else Some (pre ++ body)
      | _, _ => None
      end
  | _, _ => dfl_oer dr da t v
  end.

(* SEQUENCE__handle_extensions asking only in the counting pass (extension bit), not in
   the bitmap and open-type passes *)
Definition dfl_uper_count_only (std : bool) (dr da : list (option val)) (t : ety) (v : eval) : option (list Z) :=
  match v with
  | EVSeq rvs avs =>
      if existsb is_present (elide da avs) then ext_uper_encode std t (EVSeq (elide dr rvs) avs)
      else ext_uper_encode std t (EVSeq (elide dr rvs) (elide da avs))
  | _ => dfl_uper std dr da t v
  end.

(* SEQUENCE__handle_extensions not asking at all (finding C06-uper-extension-default,
   repaired in /repo by ebde5e1) *)
Definition dfl_uper_root_only (std : bool) (dr da : list (option val)) (t : ety) (v : eval) : option (list Z) :=
  match v with
  | EVSeq rvs avs => ext_uper_encode std t (EVSeq (elide dr rvs) avs)
  | _ => dfl_uper std dr da t v
  end.

(* two stored component values that denote the same abstract value: equal, or both "at
   the DEFAULT" (absent, or stored and equal to it) *)
Definition at_dflt (dv : val) (v : val) : Prop :=
  v = VNone \/ exists x, v = VSome x /\ leaf_eqb x dv = true.

Definition dflt_rel (d : option val) (v1 v2 : val) : Prop :=
  v1 = v2 \/ exists dv, d = Some dv /\ at_dflt dv v1 /\ at_dflt dv v2.
