(* Rt/AppApi.v — model of skeletons/asn_application.c (encoder side):
   asn_encode, asn_encode_to_buffer, asn_encode_to_new_buffer, asn_encode_internal,
   callback_failure_catch_cb, overrun_encoder_cb, dynamic_encoder_cb.

   An output callback is a state transformer [cbT S]: it receives a chunk and
   says whether it succeeded (C: return value >= 0).  An inner encoder
   (der_encode / uper_encode / oer_encode / xer_encode applied to a descriptor
   and a structure) is a function that is handed a callback and an initial
   callback state and returns the final state and its own result: it is
   polymorphic in the callback state, i.e. it can only observe the callback
   through the success flags.
   A [script] is the simplest such encoder: offer the chunks in order, stop at
   the first failing invocation.  What the wrappers need of an encoder is
   [well_behaved]: it acts like a script whose result obeys the size contract.
   No proofs here (extraction reads this file). *)
From Coq Require Import ZArith List Bool.
From A1 Require Import Base.Bytes Rt.Types Rt.Der Rt.Uper Rt.Oer.
Import ListNotations.
Local Open Scope Z_scope.

Definition bytes := list Z.

(* E0: errno left as it was *)
Inductive errno := E0 | EINVAL | ENOENT | EBADF | EIO.
Definition errno_eqb (a b : errno) : bool :=
  match a, b with
  | E0, E0 | EINVAL, EINVAL | ENOENT, ENOENT | EBADF, EBADF | EIO, EIO => true
  | _, _ => false
  end.

(* ---------------- callbacks and inner encoders ---------------- *)

Definition cbT (S : Type) := S -> bytes -> S * bool.

(* asn_enc_rval_t of an inner encoder, reduced to what asn_encode_internal reads:
   IOk n       .encoded = n (>= 0; bits for uper_encode, bytes otherwise)
   IFail h     .encoded = -1; h = (failed_type != 0 && failed_type->op-><syntax>_encoder != 0) *)
Inductive ires := IOk (n : Z) | IFail (has_enc : bool).

Definition inner := forall S : Type, cbT S -> S -> S * ires.

(* offer the chunks in order; stop at the first failure *)
Fixpoint emit {S} (cb : cbT S) (s : S) (cs : list bytes) : S * bool :=
  match cs with
  | [] => (s, true)
  | c :: tl => let (s', ok) := cb s c in if ok then emit cb s' tl else (s', false)
  end.

Record script := {
  chunks : list bytes;        (* what a fault-free run offers to the callback, in order *)
  ending : ires;              (* result when every invocation succeeded *)
  on_cb_fail : ires           (* result when an invocation failed *)
}.

Definition run_script (sc : script) : inner := fun S cb s =>
  let (s', ok) := emit cb s (chunks sc) in
  if ok then (s', ending sc) else (s', on_cb_fail sc).

Definition total (cs : list bytes) : Z := zlen (concat cs).

(* the contract: on a callback failure -1 with a failed_type that has the encoder
   (errno EBADF in asn_encode_internal); on success the size of what was emitted
   (uper_encode: a bit count n with ceil(n/8) octets emitted) *)
Definition script_ok (bits : bool) (sc : script) : Prop :=
  on_cb_fail sc = IFail true /\
  match ending sc with
  | IOk n => if bits then 0 <= n /\ (n + 7) / 8 = total (chunks sc) else n = total (chunks sc)
  | IFail _ => True
  end.

Definition scripted (enc : inner) (sc : script) : Prop :=
  forall (S : Type) (cb : cbT S) (s : S), enc S cb s = run_script sc S cb s.

Definition well_behaved (bits : bool) (enc : inner) : Prop :=
  exists sc, scripted enc sc /\ script_ok bits sc.

(* ---------------- asn_encode_internal ---------------- *)

Record api_res := { encoded : Z; err : errno }.

(* NoOp: td->op-><syntax>_encoder == NULL, or a syntax with no encoder (ATS_CER, ATS_RANDOM, invalid).
   Op bits enc: bits = true for ATS_UNALIGNED_*_PER *)
Inductive enc_op := NoOp | Op (bits : bool) (enc : inner).

Definition encode_internal {S} (args_ok : bool) (op : enc_op) (cb : cbT S) (s : S) : S * api_res :=
  if negb args_ok then (s, {| encoded := -1; err := EINVAL |})       (* !td || !sptr *)
  else match op with
  | NoOp => (s, {| encoded := -1; err := ENOENT |})
  | Op bits enc =>
      let (s', r) := enc S cb s in
      match r with
      | IFail true => (s', {| encoded := -1; err := EBADF |})
      | IFail false => (s', {| encoded := -1; err := ENOENT |})
      | IOk n =>
          if bits then
            if n =? 0 then
              (* X.691 11.1 complete encoding: a single zero octet *)
              let (s'', ok) := cb s' [0] in
              if ok then (s'', {| encoded := 1; err := E0 |})          (* (8 + 7) >> 3 *)
              else (s'', {| encoded := -1; err := EBADF |})
            else (s', {| encoded := (n + 7) / 8; err := E0 |})
          else (s', {| encoded := n; err := E0 |})
      end
  end.

(* ---------------- asn_encode ---------------- *)

Inductive outcome (A : Type) := Done (a : A) | Aborted (which : nat).
Arguments Done {A} a.
Arguments Aborted {A} which.

(* callback_failure_catch_cb; state = (user state, callback_failed) *)
Definition catch_cb {S} (cb : cbT S) : cbT (S * bool) := fun st c =>
  let (s, failed) := st in
  let (s', ok) := cb s c in
  ((s', if ok then failed else true), ok).

Definition asn_encode {S} (cb : option (cbT S)) (args_ok : bool) (op : enc_op) (s : S)
  : outcome (S * api_res) :=
  match cb with
  | None => Done (s, {| encoded := -1; err := EINVAL |})
  | Some cb =>
      let (st, r) := encode_internal args_ok op (catch_cb cb) (s, false) in
      let (s', failed) := st in
      if failed then
        if negb (encoded r =? -1) then Aborted 1                  (* assert(er.encoded == -1) *)
        else if negb (errno_eqb (err r) EBADF) then Aborted 2     (* assert(errno == EBADF) *)
        else Done (s', {| encoded := -1; err := EIO |})
      else Done (s', r)
  end.

(* the test callback: counts invocations, keeps what it accepted, fails at index k *)
Definition user_cb (k : option nat) : cbT (nat * list bytes) := fun st c =>
  let (i, acc) := st in
  match k with
  | Some j => if Nat.eqb i j then ((S i, acc), false) else ((S i, acc ++ [c]), true)
  | None => ((S i, acc ++ [c]), true)
  end.

(* ---------------- asn_encode_to_buffer ---------------- *)

(* memory: the caller's array; o_size: key->buffer_size; o_comp: key->computed_size;
   o_oob: a memcpy reached outside the array *)
Record ostate := { o_mem : list Z; o_size : Z; o_comp : Z; o_oob : bool }.

Definition write_at (mem : list Z) (off : Z) (data : bytes) : option (list Z) :=
  if (0 <=? off) && (off + zlen data <=? zlen mem) then
    Some (firstn (Z.to_nat off) mem ++ data ++ skipn (Z.to_nat off + length data) mem)
  else None.

Definition overrun_cb : cbT ostate := fun st c =>
  let size := zlen c in
  if o_size st <? o_comp st + size then
    (* stop adding bytes to the buffer, keep counting *)
    ({| o_mem := o_mem st; o_size := 0; o_comp := o_comp st + size; o_oob := o_oob st |}, true)
  else
    match write_at (o_mem st) (o_comp st) c with
    | Some m => ({| o_mem := m; o_size := o_size st; o_comp := o_comp st + size; o_oob := o_oob st |}, true)
    | None => ({| o_mem := o_mem st; o_size := o_size st; o_comp := o_comp st + size; o_oob := true |}, true)
    end.

(* buffer = None: NULL pointer.  mem is the real array, buffer_size what the caller says *)
Definition asn_encode_to_buffer (args_ok : bool) (op : enc_op) (buffer : option (list Z)) (buffer_size : Z)
  : outcome (ostate * api_res) :=
  match buffer with
  | None =>
      if 0 <? buffer_size then
        Done ({| o_mem := []; o_size := buffer_size; o_comp := 0; o_oob := false |}, {| encoded := -1; err := EINVAL |})
      else
        let (st, r) := encode_internal args_ok op overrun_cb {| o_mem := []; o_size := buffer_size; o_comp := 0; o_oob := false |} in
        if (0 <=? encoded r) && negb (encoded r =? o_comp st) then Aborted 3 else Done (st, r)
  | Some mem =>
      let (st, r) := encode_internal args_ok op overrun_cb {| o_mem := mem; o_size := buffer_size; o_comp := 0; o_oob := false |} in
      if (0 <=? encoded r) && negb (encoded r =? o_comp st) then Aborted 3 else Done (st, r)
  end.

(* ---------------- asn_encode_to_new_buffer ---------------- *)

(* d_buf: None = NULL; Some bs = the bytes written so far (offsets 0..) of an allocation of d_cap bytes;
   d_allocs: REALLOC invocations so far; d_bad: a memcpy reached outside the allocation, or the
   growth loop did not end within its fuel *)
Record dstate := { d_buf : option (list Z); d_cap : Z; d_comp : Z; d_allocs : nat; d_bad : bool }.

(* do { new_size *= 2 } while(new_size <= need) *)
Fixpoint grow (fuel : nat) (ns need : Z) : option Z :=
  match fuel with
  | O => None
  | S f => let ns' := ns * 2 in if ns' <=? need then grow f ns' need else Some ns'
  end.

(* afail i: the i-th REALLOC returns NULL *)
Definition dynamic_cb (afail : nat -> bool) : cbT dstate := fun st c =>
  let size := zlen c in
  match d_buf st with
  | None => ({| d_buf := None; d_cap := d_cap st; d_comp := d_comp st + size; d_allocs := d_allocs st; d_bad := d_bad st |}, true)
  | Some bs =>
      if d_cap st <=? d_comp st + size then
        match grow (S (Z.to_nat (d_comp st + size))) (d_cap st) (d_comp st + size) with
        | None => ({| d_buf := Some bs; d_cap := d_cap st; d_comp := d_comp st; d_allocs := d_allocs st; d_bad := true |}, true)
        | Some ns =>
            if afail (d_allocs st) then
              ({| d_buf := None; d_cap := 0; d_comp := d_comp st + size; d_allocs := S (d_allocs st); d_bad := d_bad st |}, true)
            else
              ({| d_buf := Some (bs ++ c); d_cap := ns; d_comp := d_comp st + size; d_allocs := S (d_allocs st);
                  d_bad := d_bad st || negb (zlen bs =? d_comp st) || (ns <? d_comp st + size) |}, true)
        end
      else
        ({| d_buf := Some (bs ++ c); d_cap := d_cap st; d_comp := d_comp st + size; d_allocs := d_allocs st;
            d_bad := d_bad st || negb (zlen bs =? d_comp st) || (d_cap st <? d_comp st + size) |}, true)
  end.

Record newbuf_res := { nb_buffer : option (list Z); nb_result : api_res; nb_bad : bool }.

(* malloc_ok: the initial MALLOC(16) succeeded *)
Definition asn_encode_to_new_buffer (args_ok : bool) (op : enc_op) (malloc_ok : bool) (afail : nat -> bool)
  : outcome newbuf_res :=
  let st0 := {| d_buf := if malloc_ok then Some [] else None; d_cap := 16; d_comp := 0; d_allocs := 0; d_bad := false |} in
  let (st, r) := encode_internal args_ok op (dynamic_cb afail) st0 in
  if (0 <=? encoded r) && negb (encoded r =? d_comp st) then Aborted 4
  else match (if encoded r <? 0 then None else d_buf st) with    (* failure: FREEMEM(buffer), (.buffer) = NULL *)
       | Some bs =>
           if negb (d_comp st <? d_cap st) then Aborted 5      (* assert(computed_size < buffer_size) before the terminator *)
           else Done {| nb_buffer := Some bs; nb_result := r; nb_bad := d_bad st |}
       | None => Done {| nb_buffer := None; nb_result := r; nb_bad := d_bad st |}
       end.

(* ---------------- the inner encoders of the codec model as traces ---------------- *)

(* split into pieces of at most n octets (n >= 1): the shape of uper_encode's output,
   which leaves through a 32-octet scratch buffer *)
Fixpoint chunk_by (fuel : nat) (n : nat) (bs : bytes) : list bytes :=
  match fuel with
  | O => []
  | S f => match bs with
           | [] => []
           | _ => firstn n bs :: chunk_by f n (skipn n bs)
           end
  end.
Definition chunks32 (bs : bytes) : list bytes := chunk_by (length bs) 32 bs.
Definition one_chunk (bs : bytes) : list bytes := match bs with [] => [] | _ => [bs] end.

(* an encoder given by its complete output (None = the value cannot be encoded) and a chunking *)
Definition bytes_script (chunking : bytes -> list bytes) (o : option bytes) : script :=
  match o with
  | Some bs => {| chunks := chunking bs; ending := IOk (zlen bs); on_cb_fail := IFail true |}
  | None => {| chunks := []; ending := IFail true; on_cb_fail := IFail true |}
  end.

(* uper_encode reports bits *)
Definition bits_script (chunking : bytes -> list bytes) (pack : list bool -> bytes) (o : option (list bool)) : script :=
  match o with
  | Some bits => {| chunks := chunking (pack bits); ending := IOk (zlen bits); on_cb_fail := IFail true |}
  | None => {| chunks := []; ending := IFail true; on_cb_fail := IFail true |}
  end.

(* der_encode / oer_encode / uper_encode of the codec model (Rt/Der.v, Rt/Oer.v, Rt/Uper.v) as inner
   encoders.  Chunking chosen here: the whole DER / OER output as one chunk; UPER in 32-octet pieces.
   (The C's DER and OER encoders emit one chunk per TL and per contents; every statement of
   AppApiProofs about sizes, return values and the concatenated output is independent of the
   chunking — [chunking_irrelevant] — and the tie feeds the wrappers with the C's observed chunks.) *)
Definition der_encoder (t : ty) (v : val) : inner := run_script (bytes_script one_chunk (der t v)).
Definition oer_encoder (t : ty) (v : val) : inner := run_script (bytes_script one_chunk (oer t v)).
Definition uper_encoder (t : ty) (v : val) : inner :=
  run_script (bits_script chunks32 bits_to_bytes (uper false t v)).

(* ---------------- entry points of the extracted driver (ocaml/drv_c07.ml) ---------------- *)

Definition model_encode (bits : bool) (sc : script) (k : option nat) : outcome ((nat * list bytes) * api_res) :=
  asn_encode (Some (user_cb k)) true (Op bits (run_script sc)) (0%nat, []).

Definition model_tobuf (bits : bool) (sc : script) (mem : list Z) (size : Z) : outcome (ostate * api_res) :=
  asn_encode_to_buffer true (Op bits (run_script sc)) (Some mem) size.

Definition model_newbuf (bits : bool) (sc : script) (afail_at : option nat) : outcome newbuf_res :=
  asn_encode_to_new_buffer true (Op bits (run_script sc)) true
    (fun i => match afail_at with Some j => Nat.eqb i j | None => false end).
