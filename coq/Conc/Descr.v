(* Descr.v — "the type descriptors are read-only" as an explicit hypothesis.

   The generated tables (asn_DEF_<T>, asn_MBR_<T>_n, asn_MAP_<T>_*, asn_SPC_<T>_*,
   asn_PER_/asn_OER_ constraint records, tag arrays) and the skeletons' own
   descriptors are NOT in read-only memory: the member tables are plain non-const
   arrays in .data, reachable from every codec call through td->elements.  In the
   interleaving model they are therefore locations of class SW (shared,
   writable), and the relocation view of harness/statics.py cannot see a store
   into them that goes through a pointer loaded from a descriptor.

   [descr_unchanged] states what the model needs: no call has a descriptor
   location in its write set.  It is not proved here.  The check ties it to the
   code dynamically: harness/c19drv.c maps the whole writable image of the
   skeleton + generated objects read-only before any type is used and runs every
   public operation on every type of the generated modules; a store into the
   image (even of the value already there) faults and is reported.  With that
   hypothesis the footprint assumption of Link.v is needed only for shared
   locations OUTSIDE the descriptor image, and the descriptors provably keep
   their initial contents along every interleaving. *)
From Coq Require Import List Arith PArith Bool.
From A1 Require Import Conc.Reach Conc.ReachProofs Conc.Interleave Conc.InterleaveProofs Conc.Link.
Import ListNotations.

(* the descriptor image: a decidable set of locations *)
Definition descr_unchanged (D : loc -> bool) (s : step) : Prop :=
  forall l, D l = true -> ~ In l (writes s).

(* one step that does not write the image leaves it as it was, whatever the store *)
Lemma exec_keeps_descr : forall D s m, descr_unchanged D s ->
  forall l, D l = true -> exec s m l = m l.
Proof.
  intros D s m H l Hl. unfold exec. destruct (lmem l (writes s)) eqn:E; [|reflexivity].
  apply lmem_In in E. exfalso. exact (H l Hl E).
Qed.

(* invariant of [run], generalised over the configuration *)
Lemma run_keeps_descr : forall D sch c,
  (forall t s, In s (scripts c t) -> descr_unchanged D s) ->
  forall l, D l = true -> st (run sch c) l = st c l.
Proof.
  intros D sch. induction sch as [|t r IH]; intros c Hc l Hl; [reflexivity|].
  simpl. unfold sched_step. destruct (scripts c t) as [|s rest] eqn:E.
  - apply IH; assumption.
  - set (c' := mkC (exec s (st c)) (upd (scripts c) t rest) (upd (trace c) t (trace c t ++ [out s (st c)]))).
    assert (Hc' : forall u s', In s' (scripts c' u) -> descr_unchanged D s').
    { intros u s' Hin. simpl in Hin. unfold upd in Hin. destruct (Nat.eqb u t) eqn:Eu.
      - apply Nat.eqb_eq in Eu. subst u. apply (Hc t). rewrite E. right. exact Hin.
      - apply (Hc u). exact Hin. }
    rewrite (IH c' Hc' l Hl). simpl.
    apply (exec_keeps_descr D); [|exact Hl]. apply (Hc t). rewrite E. left. reflexivity.
Qed.

(* any number of threads, any scripts, any schedule (complete or not): if no step
   writes a descriptor location, every descriptor location holds its initial
   value at every point of the interleaving *)
Theorem descr_invariant : forall D (P : tid -> list step) m0,
  (forall t s, In s (P t) -> descr_unchanged D s) ->
  forall sch l, D l = true -> st (run sch (init m0 P)) l = m0 l.
Proof.
  intros D P m0 H sch l Hl. apply (run_keeps_descr D sch (init m0 P)); [|exact Hl].
  intros t s Hin. simpl in Hin. exact (H t s Hin).
Qed.

(* the hypothesis is needed: a "resolve once" step that patches a table slot
   changes the image (the shape of seeded change C19-3) *)
Local Open Scope positive_scope.
Definition ex_patch : step := mkStep [9] [9] (fun m _ => Nat.max (m 9) 1) (fun m => 0%nat).
Definition ex_D (l : loc) : bool := Pos.eqb l 9.
Example descr_write_breaks :
  ~ descr_unchanged ex_D ex_patch /\
  st (run [0%nat] (init (fun _ => 0%nat) (fun t => match t with O => [ex_patch] | _ => [] end))) 9 <> 0%nat.
Proof.
  split.
  - intro H. apply (H 9); [reflexivity | left; reflexivity].
  - vm_compute. discriminate.
Qed.
Local Close Scope positive_scope.

Section LinkDescr.
  Variable F : facts.
  Variable cls : loc -> region.
  Variable D : loc -> bool.                 (* the writable image of skeleton + generated objects that holds type tables *)
  Variable obj_of : loc -> option id.
  Variable calls : tid -> list (id * step).
  Variable m0 : store.

  Hypothesis calls_enter : forall t f s, In (f, s) (calls t) -> In f (f_entries F).
  Hypothesis calls_behave : forall t f s, In (f, s) (calls t) -> step_ok s /\ respects cls t s.

  (* DYNAMICALLY TIED (harness/c19drv.c, read-only image): no call stores into the tables *)
  Hypothesis calls_descr_unchanged : forall t f s, In (f, s) (calls t) -> descr_unchanged D s.

  (* the trusted gap of Link.v, now only for shared writable locations outside the tables *)
  Hypothesis footprints_bounded_outside : forall t f s l,
    In (f, s) (calls t) -> In l (writes s) -> cls l = SW -> D l = false ->
    exists o, obj_of l = Some o /\ path (f_edges F) [f] o /\ flagged F o = true.

  Lemma checked_no_shared_write_descr :
    no_writable_reachable F = true ->
    forall t s, In s (prog calls t) -> step_ok s /\ respects cls t s /\ no_shared_write cls s.
  Proof.
    intros Hchk t s Hs. unfold prog in Hs. apply in_map_iff in Hs.
    destruct Hs as [[f s'] [E Hin]]. simpl in E. subst s'.
    destruct (calls_behave t f s Hin) as [K R]. split; [exact K | split; [exact R|]].
    intros l Hl Hsw.
    destruct (D l) eqn:Dl.
    - exact (calls_descr_unchanged t f s Hin l Dl Hl).
    - destruct (footprints_bounded_outside t f s l Hin Hl Hsw Dl) as [o [_ [Po Fo]]].
      assert (Pe : path (f_edges F) (f_entries F) o).
      { eapply path_incl; [|exact Po]. intros x [Hx|[]]. subst x. eapply calls_enter. exact Hin. }
      rewrite (no_writable_reachable_sound F Hchk o Pe) in Fo. discriminate.
  Qed.

  (* static obligation + read-only descriptors: interleaving is irrelevant, and the
     descriptors are the same at every point of every schedule *)
  Theorem statics_and_descr_imply_irrelevant :
    no_writable_reachable F = true ->
    (forall sch, completes sch m0 (prog calls) ->
     forall t, trace (run sch (init m0 (prog calls))) t = snd (solo (prog calls t) m0) /\
               forall l, cls l = Priv t -> st (run sch (init m0 (prog calls))) l = fst (solo (prog calls t) m0) l) /\
    (forall sch l, D l = true -> st (run sch (init m0 (prog calls))) l = m0 l).
  Proof.
    intros Hchk. split.
    - apply interleaving_irrelevant. apply checked_no_shared_write_descr. exact Hchk.
    - apply descr_invariant. intros t s Hs. unfold prog in Hs. apply in_map_iff in Hs.
      destruct Hs as [[f s'] [E Hin]]. simpl in E. subst s'. exact (calls_descr_unchanged t f s Hin).
  Qed.
End LinkDescr.
