(* Interleave.v — abstract interleaving model for C19 (reentrancy).
   Locations are partitioned into a shared read-only region, a set of shared
   writable locations, and one private region per thread.  A thread is a
   deterministic script of steps (codec calls); a step has a footprint (reads,
   writes), produces a result, and rewrites the locations of its write set with
   values that are a function of the store.  A schedule is a list of thread
   ids; running it executes, for each id in turn, the next step of that thread
   on the one global store.  Definitions only; proofs in InterleaveProofs.v. *)
From Coq Require Import List Arith PArith Bool.
Import ListNotations.

Definition tid := nat.
Definition loc := positive.
Definition val := nat.
Definition res := nat.
Definition store := loc -> val.

Inductive region :=
| RO                (* shared, read-only: code, .rodata, type descriptors *)
| SW                (* shared, writable: the set W *)
| Priv (t : tid).   (* private to thread t: its structures, buffers, stack *)

Record step := mkStep {
  reads : list loc;
  writes : list loc;
  wr : store -> loc -> val;      (* the value written to a location of [writes] *)
  out : store -> res             (* the result returned by the call *)
}.

Definition lmem (l : loc) (ls : list loc) : bool := existsb (Pos.eqb l) ls.

(* the pure transition: only the write set changes *)
Definition exec (s : step) (m : store) : store :=
  fun l => if lmem l (writes s) then wr s m l else m l.

Definition agree (ls : list loc) (m m' : store) : Prop := forall l, In l ls -> m l = m' l.

(* a step's result and written values depend on its read set only *)
Definition step_ok (s : step) : Prop :=
  forall m m', agree (reads s) m m' ->
    out s m = out s m' /\ forall l, In l (writes s) -> wr s m l = wr s m' l.

(* footprints stay inside what the thread may touch: it writes its own private
   locations or W, it reads its own private locations or shared ones *)
Definition respects (cls : loc -> region) (t : tid) (s : step) : Prop :=
  (forall l, In l (writes s) -> cls l = Priv t \/ cls l = SW) /\
  (forall l, In l (reads s) -> cls l = Priv t \/ cls l = RO \/ cls l = SW).

Definition no_shared_write (cls : loc -> region) (s : step) : Prop :=
  forall l, In l (writes s) -> cls l <> SW.

(* ---- N threads ---- *)
Record config := mkC {
  st : store;
  scripts : tid -> list step;     (* what each thread still has to run *)
  trace : tid -> list res         (* results each thread has obtained so far *)
}.

Definition upd {A : Type} (f : tid -> A) (t : tid) (v : A) : tid -> A :=
  fun u => if Nat.eqb u t then v else f u.

Definition sched_step (t : tid) (c : config) : config :=
  match scripts c t with
  | [] => c
  | s :: rest =>
      mkC (exec s (st c)) (upd (scripts c) t rest) (upd (trace c) t (trace c t ++ [out s (st c)]))
  end.

Fixpoint run (sch : list tid) (c : config) : config :=
  match sch with
  | [] => c
  | t :: r => run r (sched_step t c)
  end.

Definition init (m : store) (P : tid -> list step) : config := mkC m P (fun _ => []).

(* a thread run alone: final store and the list of its results *)
Fixpoint solo (p : list step) (m : store) : store * list res :=
  match p with
  | [] => (m, [])
  | s :: r => let (m', rs) := solo r (exec s m) in (m', out s m :: rs)
  end.

(* the schedule is fair enough to run every script to completion *)
Definition completes (sch : list tid) (m : store) (P : tid -> list step) : Prop :=
  forall t, scripts (run sch (init m P)) t = [].
