(* InterleaveProofs.v — commutation of steps with disjoint footprints and
   irrelevance of the interleaving when nobody writes shared state.  All
   statements are for any number of threads, any script lengths, any schedule
   (induction on the schedule). *)
From Coq Require Import List Arith PArith Bool Lia.
From A1 Require Import Conc.Interleave.
Import ListNotations.

Lemma lmem_In : forall l ls, lmem l ls = true <-> In l ls.
Proof.
  intros l ls. unfold lmem. rewrite existsb_exists. split.
  - intros [y [Hy E]]. apply Pos.eqb_eq in E. subst. exact Hy.
  - intro H. exists l. split; [exact H | apply Pos.eqb_refl].
Qed.

Lemma lmem_false : forall l ls, lmem l ls = false <-> ~ In l ls.
Proof.
  intros l ls. rewrite <- lmem_In. destruct (lmem l ls).
  - split; [discriminate | intro H; exfalso; apply H; reflexivity].
  - split; [intros _ K; discriminate | reflexivity].
Qed.

Definition disjoint (a b : list loc) : Prop := forall l, In l a -> ~ In l b.

(* a step leaves everything outside its write set alone *)
Lemma exec_outside : forall s m ls, disjoint (writes s) ls -> agree ls (exec s m) m.
Proof.
  intros s m ls D l Hl. unfold exec. destruct (lmem l (writes s)) eqn:E; [|reflexivity].
  apply lmem_In in E. exfalso. exact (D l E Hl).
Qed.

(* ---- two steps whose footprints do not overlap commute ---- *)
Theorem footprint_commute : forall s1 s2 m,
  step_ok s1 -> step_ok s2 ->
  disjoint (writes s1) (reads s2) -> disjoint (writes s1) (writes s2) -> disjoint (writes s2) (reads s1) ->
  (forall l, exec s1 (exec s2 m) l = exec s2 (exec s1 m) l) /\
  out s1 (exec s2 m) = out s1 m /\ out s2 (exec s1 m) = out s2 m.
Proof.
  intros s1 s2 m K1 K2 D12 Dww D21.
  destruct (K1 (exec s2 m) m (exec_outside s2 m (reads s1) D21)) as [O1 W1].
  destruct (K2 (exec s1 m) m (exec_outside s1 m (reads s2) D12)) as [O2 W2].
  split; [|split; assumption].
  intro l.
  change (exec s1 (exec s2 m) l) with (if lmem l (writes s1) then wr s1 (exec s2 m) l else exec s2 m l).
  change (exec s2 (exec s1 m) l) with (if lmem l (writes s2) then wr s2 (exec s1 m) l else exec s1 m l).
  destruct (lmem l (writes s1)) eqn:E1; destruct (lmem l (writes s2)) eqn:E2.
  - apply lmem_In in E1. apply lmem_In in E2. exfalso. exact (Dww l E1 E2).
  - unfold exec at 2. rewrite E1. apply W1. apply lmem_In. exact E1.
  - unfold exec at 1. rewrite E2. symmetry. apply W2. apply lmem_In. exact E2.
  - unfold exec. rewrite E1, E2. reflexivity.
Qed.

(* the same, from the region discipline: steps of different threads whose
   writes avoid W (hence stay private) miss each other's footprints *)
Theorem disjoint_commute : forall cls t1 t2 s1 s2 m,
  t1 <> t2 -> step_ok s1 -> step_ok s2 ->
  respects cls t1 s1 -> respects cls t2 s2 ->
  no_shared_write cls s1 -> no_shared_write cls s2 ->
  (forall l, exec s1 (exec s2 m) l = exec s2 (exec s1 m) l) /\
  out s1 (exec s2 m) = out s1 m /\ out s2 (exec s1 m) = out s2 m.
Proof.
  intros cls t1 t2 s1 s2 m Hne K1 K2 [RW1 RR1] [RW2 RR2] N1 N2.
  assert (P1 : forall l, In l (writes s1) -> cls l = Priv t1).
  { intros l Hl. destruct (RW1 l Hl) as [H|H]; [exact H | exfalso; exact (N1 l Hl H)]. }
  assert (P2 : forall l, In l (writes s2) -> cls l = Priv t2).
  { intros l Hl. destruct (RW2 l Hl) as [H|H]; [exact H | exfalso; exact (N2 l Hl H)]. }
  apply footprint_commute; try assumption.
  - intros l H1 H2. apply P1 in H1. destruct (RR2 l H2) as [H|[H|H]]; rewrite H1 in H; try discriminate.
    injection H as H. exact (Hne H).
  - intros l H1 H2. apply P1 in H1. apply P2 in H2. rewrite H1 in H2. injection H2 as H. exact (Hne H).
  - intros l H2 H1. apply P2 in H2. destruct (RR1 l H1) as [H|[H|H]]; rewrite H2 in H; try discriminate.
    injection H as H. apply Hne. symmetry. exact H.
Qed.

(* ---- running alone, one more step ---- *)
Lemma solo_snoc : forall d s m,
  solo (d ++ [s]) m =
  (exec s (fst (solo d m)), snd (solo d m) ++ [out s (fst (solo d m))]).
Proof.
  induction d as [|a d IH]; intros s m; simpl.
  - reflexivity.
  - rewrite IH. destruct (solo d (exec a m)) as [m' rs]. reflexivity.
Qed.

Lemma upd_same : forall (A : Type) (f : tid -> A) t v, upd f t v t = v.
Proof. intros. unfold upd. rewrite Nat.eqb_refl. reflexivity. Qed.

Lemma upd_other : forall (A : Type) (f : tid -> A) t u v, u <> t -> upd f t v u = f u.
Proof. intros A f t u v H. unfold upd. apply Nat.eqb_neq in H. rewrite H. reflexivity. Qed.

Section Irrelevance.
  Variable cls : loc -> region.
  Variable P : tid -> list step.       (* the program: one script per thread id *)
  Variable m0 : store.

  (* every step is a function of its read set, stays inside the region
     discipline, and does not write a shared location *)
  Hypothesis well_behaved : forall t s, In s (P t) ->
    step_ok s /\ respects cls t s /\ no_shared_write cls s.

  Definition visible (t : tid) (l : loc) : Prop := cls l = Priv t \/ cls l = RO \/ cls l = SW.

  (* thread t has, so far, seen exactly what it sees when run alone *)
  Definition inv_t (c : config) (t : tid) : Prop :=
    exists done, P t = done ++ scripts c t /\
                 trace c t = snd (solo done m0) /\
                 forall l, visible t l -> st c l = fst (solo done m0) l.

  Definition inv (c : config) : Prop := forall t, inv_t c t.

  Lemma inv_init : inv (init m0 P).
  Proof. intro t. exists []. simpl. repeat split; reflexivity. Qed.

  Lemma inv_step : forall u c, inv c -> inv (sched_step u c).
  Proof.
    intros u c I t. unfold sched_step. destruct (scripts c u) as [|s rest] eqn:Eu; [apply I|].
    destruct (I u) as [du [Pu [_ Agu]]]. rewrite Eu in Pu.
    assert (Hs : In s (P u)) by (rewrite Pu; apply in_or_app; right; left; reflexivity).
    destruct (well_behaved u s Hs) as [Ks [[RW RR] NS]].
    destruct (Nat.eq_dec t u) as [E|NE].
    - subst t. destruct (I u) as [d [Pd [Tr Ag]]]. rewrite Eu in Pd.
      assert (Agr : agree (reads s) (st c) (fst (solo d m0))).
      { intros l Hl. apply Ag. destruct (RR l Hl) as [H|[H|H]]; unfold visible; tauto. }
      destruct (Ks _ _ Agr) as [O W].
      exists (d ++ [s]). simpl. rewrite !upd_same. split; [|split].
      + rewrite <- app_assoc. exact Pd.
      + rewrite solo_snoc. simpl. rewrite Tr, O. reflexivity.
      + intros l Vl. rewrite solo_snoc. simpl. unfold exec.
        destruct (lmem l (writes s)) eqn:El.
        * apply W. apply lmem_In. exact El.
        * apply Ag. exact Vl.
    - destruct (I t) as [d [Pd [Tr Ag]]]. exists d. simpl. rewrite !upd_other by exact NE.
      split; [exact Pd | split; [exact Tr|]].
      intros l Vl. rewrite <- (Ag l Vl). unfold exec.
      destruct (lmem l (writes s)) eqn:El; [|reflexivity].
      apply lmem_In in El. exfalso.
      assert (Pl : cls l = Priv u).
      { destruct (RW l El) as [H|H]; [exact H | exfalso; exact (NS l El H)]. }
      destruct Vl as [H|[H|H]]; rewrite Pl in H; try discriminate.
      injection H as H. apply NE. symmetry. exact H.
  Qed.

  Lemma inv_run : forall sch c, inv c -> inv (run sch c).
  Proof.
    induction sch as [|u r IH]; intros c I; simpl; [exact I|].
    apply IH. apply inv_step. exact I.
  Qed.

  (* any schedule, complete or not: each thread has executed a prefix of its
     script, with the results and the private state of the solo run of that prefix *)
  Theorem interleaving_prefix : forall sch t,
    exists done, P t = done ++ scripts (run sch (init m0 P)) t /\
      trace (run sch (init m0 P)) t = snd (solo done m0) /\
      forall l, cls l = Priv t -> st (run sch (init m0 P)) l = fst (solo done m0) l.
  Proof.
    intros sch t. destruct (inv_run sch _ inv_init t) as [d [Pd [Tr Ag]]].
    exists d. split; [exact Pd | split; [exact Tr|]].
    intros l Hl. apply Ag. left. exact Hl.
  Qed.

  (* every interleaving that runs all scripts to completion gives every thread
     the results and the final private state of running that thread alone *)
  Theorem interleaving_irrelevant : forall sch, completes sch m0 P ->
    forall t, trace (run sch (init m0 P)) t = snd (solo (P t) m0) /\
              forall l, cls l = Priv t -> st (run sch (init m0 P)) l = fst (solo (P t) m0) l.
  Proof.
    intros sch Hc t. destruct (interleaving_prefix sch t) as [d [Pd [Tr Ag]]].
    rewrite (Hc t), app_nil_r in Pd. subst d. split; assumption.
  Qed.

  (* hence two complete schedules cannot be told apart by any thread *)
  Corollary schedules_indistinguishable : forall sch sch',
    completes sch m0 P -> completes sch' m0 P ->
    forall t, trace (run sch (init m0 P)) t = trace (run sch' (init m0 P)) t.
  Proof.
    intros sch sch' H H' t.
    destruct (interleaving_irrelevant sch H t) as [E _].
    destruct (interleaving_irrelevant sch' H' t) as [E' _].
    rewrite E, E'. reflexivity.
  Qed.
End Irrelevance.

(* ---- non-vacuity: two threads, concrete scripts ---- *)
Local Open Scope positive_scope.

Definition ex_cls (l : loc) : region :=
  match l with 1 => Priv 0%nat | 2 => Priv 1%nat | 3 => RO | _ => SW end.

(* "p := p + table[3]; return p": reads its private cell and the read-only one *)
Definition ex_add (p : loc) : step :=
  mkStep [p; 3] [p] (fun m _ => (m p + m 3%positive)%nat) (fun m => (m p + m 3%positive)%nat).

Definition ex_P (t : tid) : list step :=
  match t with O => [ex_add 1; ex_add 1] | S O => [ex_add 2] | _ => [] end.

Definition ex_m0 : store := fun l => Pos.to_nat l.

Lemma ex_add_ok : forall p, step_ok (ex_add p).
Proof.
  intros p m m' A. simpl in *.
  assert (E1 : m p = m' p) by (apply A; left; reflexivity).
  assert (E2 : m 3 = m' 3) by (apply A; right; left; reflexivity).
  rewrite E1, E2. split; [reflexivity | intros; reflexivity].
Qed.

Lemma ex_add_respects : forall p t, ex_cls p = Priv t ->
  respects ex_cls t (ex_add p) /\ no_shared_write ex_cls (ex_add p).
Proof.
  intros p t Hp. split; [split|].
  - intros l [E|[]]. subst l. left. exact Hp.
  - intros l [E|[E|[]]]; subst l; [left; exact Hp | right; left; reflexivity].
  - intros l [E|[]] K. subst l. rewrite Hp in K. discriminate.
Qed.

Example ex_well_behaved : forall t s, In s (ex_P t) ->
  step_ok s /\ respects ex_cls t s /\ no_shared_write ex_cls s.
Proof.
  intros t s H.
  destruct t as [|[|t]]; simpl in H;
    [destruct H as [H|[H|[]]] | destruct H as [H|[]] | destruct H]; subst s;
    (split; [apply ex_add_ok | apply ex_add_respects; reflexivity]).
Qed.

Example ex_completes : completes [0; 1; 0]%nat ex_m0 ex_P.
Proof. intros [|[|t]]; reflexivity. Qed.

(* the instance of the theorem, and the values it speaks about *)
Example ex_instance :
  trace (run [0; 1; 0]%nat (init ex_m0 ex_P)) 0%nat = snd (solo (ex_P 0%nat) ex_m0) /\
  trace (run [0; 1; 0]%nat (init ex_m0 ex_P)) 0%nat = [4; 7]%nat /\
  trace (run [1; 0; 0]%nat (init ex_m0 ex_P)) 1%nat = [5]%nat.
Proof.
  split; [exact (proj1 (interleaving_irrelevant ex_cls ex_P ex_m0 ex_well_behaved _ ex_completes 0%nat))|].
  split; vm_compute; reflexivity.
Qed.

(* the hypothesis is needed: two threads bumping one shared counter (location 4,
   in W) obtain results that depend on the schedule *)
Definition ex_bump : step := mkStep [4] [4] (fun m _ => S (m 4)) (fun m => S (m 4)).
Definition ex_Q (t : tid) : list step := match t with O => [ex_bump] | S O => [ex_bump] | _ => [] end.

Example shared_write_breaks :
  completes [0; 1]%nat ex_m0 ex_Q /\
  respects ex_cls 1%nat ex_bump /\ step_ok ex_bump /\
  trace (run [0; 1]%nat (init ex_m0 ex_Q)) 1%nat <> snd (solo (ex_Q 1%nat) ex_m0).
Proof.
  split; [intros [|[|t]]; reflexivity|]. split; [|split].
  - split; intros l [E|[]]; subst l; simpl; tauto.
  - intros m m' A. simpl in *. rewrite (A 4 (or_introl eq_refl)). split; [reflexivity | intros; reflexivity].
  - vm_compute. discriminate.
Qed.
