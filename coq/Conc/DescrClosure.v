(* DescrClosure.v — what a codec can REACH through a type descriptor (round 3, seeded change C19-5).

   Descr.v states "no call writes the descriptor image D" for an arbitrary decidable
   set D.  That leaves two questions open which the seeded change C19-5 made concrete
   (SET_encode_der parks its per-call DER tag map behind a new pointer field of the
   SET specifics):

   (1) Is every table a codec follows from a descriptor a part of D?  The descriptor
       is not one object: td -> tags, all_tags, elements[], specifics -> tag2el,
       tag2el_cxer, _mandatory_elements, oms, canonical-order maps, enum maps,
       constraint records, and the same again for every member.  [image_of] builds D
       from such a part list; [part_write_breaks] says that a store into ANY listed
       part (the specifics are one) falsifies [descr_unchanged].  (The list itself is
       tied to the code by `c19drv ro`: PARTS w/r/outside, and by the word scan.)

   (2) Can memory OUTSIDE D become shared through D?  The heap map of C19-5 is not
       in the image at all; only the one pointer store that publishes it is.
       [closed ptr D m]: every word of D that is a pointer points into D.  The
       theorem [closure_invariant] shows that a closed image stays closed along every
       interleaving if no step writes D, and [reach_stays_in_descr] that everything
       reachable from descriptor roots by following stored pointers then lies in D
       at every point of every schedule: no thread-private (heap, stack) location is
       ever reachable from a descriptor, so detecting the publishing store is enough.
       [publish_breaks] is the C19-5 shape: one step stores the address of a private
       location into a specifics slot; afterwards the image is not closed and a
       private location of thread 0 is reachable from the roots. *)
From Coq Require Import List Arith PArith Bool.
From A1 Require Import Conc.Interleave Conc.InterleaveProofs Conc.Descr.
Import ListNotations.

(* ---------- (1) the image as the union of the parts of all descriptors ---------- *)

Inductive part :=
| PDescr            (* the asn_TYPE_descriptor_t itself *)
| PTags | PAllTags  (* tag arrays *)
| PElements         (* asn_MBR_<T>_n[] *)
| PSpecifics        (* asn_SPC_<T>_specs_n *)
| PSpecMap (n : nat)  (* tables hanging off the specifics: tag2el, tag2el_cxer, mandatory bits, oms, canonical order, enum maps *)
| PPer | POer       (* constraint records of the type *)
| PMemberPer (i : nat) | PMemberOer (i : nat).  (* constraint records of member i *)

Definition layout := nat -> part -> list loc.     (* descriptor number -> part -> its locations *)

(* D for a finite list of descriptors and a finite list of parts each *)
Definition image_of (L : layout) (tds : list nat) (ps : list part) (l : loc) : bool :=
  existsb (fun d => existsb (fun p => lmem l (L d p)) ps) tds.

Lemma image_of_In : forall L tds ps d p l,
  In d tds -> In p ps -> In l (L d p) -> image_of L tds ps l = true.
Proof.
  intros L tds ps d p l Hd Hp Hl. unfold image_of.
  apply existsb_exists. exists d. split; [exact Hd|].
  apply existsb_exists. exists p. split; [exact Hp|].
  unfold lmem. apply existsb_exists. exists l. split; [exact Hl | apply Pos.eqb_refl].
Qed.

Lemma image_of_inv : forall L tds ps l, image_of L tds ps l = true ->
  exists d p, In d tds /\ In p ps /\ In l (L d p).
Proof.
  intros L tds ps l H. unfold image_of in H.
  apply existsb_exists in H. destruct H as [d [Hd H]].
  apply existsb_exists in H. destruct H as [p [Hp H]].
  exists d, p. split; [exact Hd | split; [exact Hp|]]. apply lmem_In. exact H.
Qed.

(* a step that stores into any listed part of any listed descriptor is not [descr_unchanged] *)
Theorem part_write_breaks : forall L tds ps d p l s,
  In d tds -> In p ps -> In l (L d p) -> In l (writes s) ->
  ~ descr_unchanged (image_of L tds ps) s.
Proof.
  intros L tds ps d p l s Hd Hp Hl Hw H.
  exact (H l (image_of_In L tds ps d p l Hd Hp Hl) Hw).
Qed.

(* in particular the specifics: the instance the task asks to check *)
Corollary specifics_write_breaks : forall L tds ps d l s,
  In d tds -> In PSpecifics ps -> In l (L d PSpecifics) -> In l (writes s) ->
  ~ descr_unchanged (image_of L tds ps) s.
Proof. intros. eapply part_write_breaks; eassumption. Qed.

(* and conversely: [descr_unchanged] of the union is exactly "no listed part of no listed descriptor is written" *)
Theorem descr_unchanged_parts : forall L tds ps s,
  descr_unchanged (image_of L tds ps) s <->
  (forall d p l, In d tds -> In p ps -> In l (L d p) -> ~ In l (writes s)).
Proof.
  intros L tds ps s. split.
  - intros H d p l Hd Hp Hl Hw. exact (H l (image_of_In L tds ps d p l Hd Hp Hl) Hw).
  - intros H l Hl Hw. destruct (image_of_inv L tds ps l Hl) as [d [p [Hd [Hp Hin]]]].
    exact (H d p l Hd Hp Hin Hw).
Qed.

(* ---------- (2) pointer closure of the image ---------- *)

Section Closure.
  Variable ptr : val -> option loc.   (* which stored words are addresses, and of what *)
  Variable D : loc -> bool.

  Definition closed (m : store) : Prop :=
    forall l l', D l = true -> ptr (m l) = Some l' -> D l' = true.

  (* what a codec can get at from a set of roots by following stored pointers *)
  Inductive reach (m : store) (roots : loc -> Prop) : loc -> Prop :=
  | reach_root : forall l, roots l -> reach m roots l
  | reach_next : forall l l', reach m roots l -> ptr (m l) = Some l' -> reach m roots l'.

  Lemma closed_reach : forall m (roots : loc -> Prop), closed m -> (forall l, roots l -> D l = true) ->
    forall l, reach m roots l -> D l = true.
  Proof.
    intros m roots Hc Hr l H. induction H as [l Hl | l l' _ IH Hp].
    - exact (Hr l Hl).
    - exact (Hc l l' IH Hp).
  Qed.

  (* stores that agree on D have the same closedness *)
  Lemma closed_ext : forall m m', (forall l, D l = true -> m' l = m l) -> closed m -> closed m'.
  Proof.
    intros m m' E Hc l l' Dl Hp. rewrite (E l Dl) in Hp. exact (Hc l l' Dl Hp).
  Qed.

  (* any number of threads, any schedule (complete or not): a closed image stays closed if nobody writes it *)
  Theorem closure_invariant : forall (P : tid -> list step) m0,
    (forall t s, In s (P t) -> descr_unchanged D s) ->
    closed m0 ->
    forall sch, closed (st (run sch (init m0 P))).
  Proof.
    intros P m0 H Hc sch. apply (closed_ext m0); [|exact Hc].
    intros l Dl. exact (descr_invariant D P m0 H sch l Dl).
  Qed.

  (* hence everything reachable through the descriptors is in D, at every point of every interleaving *)
  Theorem reach_stays_in_descr : forall (P : tid -> list step) m0 (roots : loc -> Prop),
    (forall t s, In s (P t) -> descr_unchanged D s) ->
    closed m0 -> (forall l, roots l -> D l = true) ->
    forall sch l, reach (st (run sch (init m0 P))) roots l -> D l = true.
  Proof.
    intros P m0 roots H Hc Hr sch l Hl.
    exact (closed_reach _ roots (closure_invariant P m0 H Hc sch) Hr l Hl).
  Qed.

  (* ... so no thread-private location is ever reachable from a descriptor (D holds no private location) *)
  Corollary no_private_reachable : forall (cls : loc -> region) (P : tid -> list step) m0 (roots : loc -> Prop),
    (forall l t, D l = true -> cls l <> Priv t) ->
    (forall t s, In s (P t) -> descr_unchanged D s) ->
    closed m0 -> (forall l, roots l -> D l = true) ->
    forall sch l t, reach (st (run sch (init m0 P))) roots l -> cls l <> Priv t.
  Proof.
    intros cls P m0 roots Hd H Hc Hr sch l t Hl.
    apply Hd. exact (reach_stays_in_descr P m0 roots H Hc Hr sch l Hl).
  Qed.
End Closure.

(* ---------- the hypothesis is needed: the shape of seeded change C19-5 ---------- *)
(* location 9 = the new pointer field of the specifics (in D, initially null); location 20 = a map thread 0
   allocated (private).  The step "allocate at first use" stores the address of 20 into 9. *)
Local Open Scope positive_scope.
Definition pb_D (l : loc) : bool := Pos.eqb l 9.
Definition pb_ptr (v : val) : option loc := match v with O => None | S _ => Some 20 end.
Definition pb_cls (l : loc) : region := if Pos.eqb l 9 then SW else if Pos.eqb l 20 then Priv 0%nat else RO.
Definition pb_publish : step := mkStep [9] [9] (fun m _ => match m 9 with O => 1%nat | v => v end) (fun m => 0%nat).
Definition pb_m0 : store := fun _ => 0%nat.
Definition pb_P (t : tid) : list step := match t with O => [pb_publish] | _ => [] end.

Example publish_breaks :
  closed pb_ptr pb_D pb_m0 /\
  ~ descr_unchanged pb_D pb_publish /\
  ~ closed pb_ptr pb_D (st (run [0%nat] (init pb_m0 pb_P))) /\
  reach pb_ptr (st (run [0%nat] (init pb_m0 pb_P))) (fun l => l = 9) 20 /\
  pb_cls 20 = Priv 0%nat.
Proof.
  split; [|split; [|split; [|split]]].
  - intros l l' _ Hp. unfold pb_m0, pb_ptr in Hp. discriminate.
  - intro H. apply (H 9); [reflexivity | left; reflexivity].
  - intro Hc. assert (E : pb_D 20 = true).
    { apply (Hc 9 20); [reflexivity | vm_compute; reflexivity]. }
    vm_compute in E. discriminate.
  - apply (reach_next _ _ _ 9 20); [apply reach_root; reflexivity | vm_compute; reflexivity].
  - reflexivity.
Qed.
Local Close Scope positive_scope.
