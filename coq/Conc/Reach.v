(* Reach.v — executable checker for the C19 translator output (harness/statics.py).
   A call/reference graph is a list of edges over symbol ids; [reachable] is the
   fuelled closure of the entry points; [no_writable_reachable] decides that no
   flagged writable object is in that closure.  No proofs here (ReachProofs.v). *)
From Coq Require Import List PArith Bool.
Import ListNotations.

Definition id := positive.
Definition graph := list (id * id).

Definition mem (x : id) (l : list id) : bool := existsb (Pos.eqb x) l.

(* targets of the edges that leave a member of S *)
Definition succs (g : graph) (S : list id) : list id :=
  map snd (filter (fun e => mem (fst e) S) g).

(* the members of xs that are not in S, without repetition *)
Fixpoint fresh (S xs : list id) : list id :=
  match xs with
  | [] => []
  | x :: r => let f := fresh S r in if mem x S || mem x f then f else x :: f
  end.

(* one round adds every new successor; stops at the first round that adds nothing *)
Fixpoint reach_iter (g : graph) (fuel : nat) (S : list id) : list id :=
  match fuel with
  | O => S
  | Datatypes.S f =>
      match fresh S (succs g S) with
      | [] => S
      | new => reach_iter g f (new ++ S)
      end
  end.

Definition reachable (g : graph) (entries : list id) (fuel : nat) : list id :=
  reach_iter g fuel (fresh [] entries).

(* every id that occurs in the graph or among the entries (with repetitions: an
   upper bound of the number of nodes, which is all the fuel has to exceed) *)
Definition universe (g : graph) (entries : list id) : list id :=
  entries ++ map fst g ++ map snd g.

(* connected to an entry point by a path of edges *)
Inductive path (g : graph) (entries : list id) : id -> Prop :=
| path_entry : forall e, In e entries -> path g entries e
| path_step : forall a b, path g entries a -> In (a, b) g -> path g entries b.

(* what the translator emits *)
Record facts := mkFacts {
  f_edges : graph;          (* function->function, function->object, object->function|object *)
  f_entries : list id;      (* codec entry points and the descriptors/op tables *)
  f_wsec : list id;         (* objects living in a section that is writable at run time *)
  f_stored : list id;       (* objects that are the relocated destination of a store instruction *)
  f_escaped : list id;      (* objects whose address is taken (lea/GOT/data initialiser/global) *)
  f_allow : list id;        (* reviewed allowlist (harness/statics_allow.json), resolved to ids *)
  f_known : list id         (* objects of open known findings (reported separately) *)
}.

(* a writable object that may be written: a store names it, or its address
   escapes and nobody reviewed it *)
Definition flagged (F : facts) (x : id) : bool :=
  mem x (f_wsec F) &&
  (mem x (f_stored F) || (mem x (f_escaped F) && negb (mem x (f_allow F)))) &&
  negb (mem x (f_known F)).

Definition fuel_of (F : facts) : nat := length (universe (f_edges F) (f_entries F)).

Definition no_writable_reachable (F : facts) : bool :=
  forallb (fun x => negb (flagged F x)) (reachable (f_edges F) (f_entries F) (fuel_of F)).
