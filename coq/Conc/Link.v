(* Link.v — from the translator's obligation to the hypothesis of
   [interleaving_irrelevant].

   An abstract program is, per thread, a list of calls: a call names the
   library function it enters (a node of the relocation graph) and is a step of
   the interleaving model.  What is assumed about the relation between the
   relocation view and the real footprints is stated as the hypotheses
   [calls_enter] and [footprints_bounded] below; they are the trusted part of
   C19 (notes/design/C19.md, "What the relocation view covers and misses"). *)
From Coq Require Import List PArith Bool.
From A1 Require Import Conc.Reach Conc.ReachProofs Conc.Interleave Conc.InterleaveProofs.
Import ListNotations.

Section Link.
  Variable F : facts.                       (* emitted by harness/statics.py *)
  Variable cls : loc -> region.             (* RO / W / private-to-t classification of memory *)
  Variable obj_of : loc -> option id.       (* the static object a location of W lies in *)
  Variable calls : tid -> list (id * step). (* each thread: entry function + the step it performs *)
  Variable m0 : store.

  Definition prog (t : tid) : list step := map snd (calls t).

  (* every call enters the library at one of the translator's entry points *)
  Hypothesis calls_enter : forall t f s, In (f, s) (calls t) -> In f (f_entries F).

  (* each call is a function of what it reads and stays inside the region discipline *)
  Hypothesis calls_behave : forall t f s, In (f, s) (calls t) -> step_ok s /\ respects cls t s.

  (* THE TRUSTED GAP.  If a call that enters at f writes a shared writable
     location, then that location lies in a static object which (i) is connected
     to f in the relocation graph and (ii) the translator flagged: it sits in a
     writable section and a store instruction names it, or its address is taken
     and it is not on the reviewed allowlist.  In words: code reaches other code
     only along call / address-taken / initialiser edges, and writes static
     memory only through a relocated store or through a pointer obtained by
     taking the object's address. *)
  Hypothesis footprints_bounded : forall t f s l,
    In (f, s) (calls t) -> In l (writes s) -> cls l = SW ->
    exists o, obj_of l = Some o /\ path (f_edges F) [f] o /\ flagged F o = true.

  Lemma checked_no_shared_write :
    no_writable_reachable F = true ->
    forall t s, In s (prog t) -> step_ok s /\ respects cls t s /\ no_shared_write cls s.
  Proof.
    intros Hchk t s Hs. unfold prog in Hs. apply in_map_iff in Hs.
    destruct Hs as [[f s'] [E Hin]]. simpl in E. subst s'.
    destruct (calls_behave t f s Hin) as [K R]. split; [exact K | split; [exact R|]].
    intros l Hl Hsw.
    destruct (footprints_bounded t f s l Hin Hl Hsw) as [o [_ [Po Fo]]].
    assert (Pe : path (f_edges F) (f_entries F) o).
    { eapply path_incl; [|exact Po]. intros x [Hx|[]]. subst x. eapply calls_enter. exact Hin. }
    rewrite (no_writable_reachable_sound F Hchk o Pe) in Fo. discriminate.
  Qed.

  (* the obligation discharged in Gen_Statics.v gives, for every schedule that
     completes, every thread the results and private state of its solo run *)
  Theorem statics_imply_irrelevant :
    no_writable_reachable F = true ->
    forall sch, completes sch m0 prog ->
    forall t, trace (run sch (init m0 prog)) t = snd (solo (prog t) m0) /\
              forall l, cls l = Priv t -> st (run sch (init m0 prog)) l = fst (solo (prog t) m0) l.
  Proof.
    intros Hchk. apply interleaving_irrelevant. apply checked_no_shared_write. exact Hchk.
  Qed.
End Link.

(* non-vacuity of the link: a two-node graph (entry function 1 reads the
   allowlisted table 2), one thread-private cell each *)
Local Open Scope positive_scope.
Definition lk_F : facts := mkFacts [(1, 2)] [1] [2] [] [2] [2] [].
Definition lk_calls (t : tid) : list (id * step) :=
  match t with O => [(1, ex_add 1)] | S O => [(1, ex_add 2)] | _ => [] end.

Example lk_instance :
  no_writable_reachable lk_F = true /\
  forall sch, completes sch ex_m0 (prog lk_calls) ->
  forall t, trace (run sch (init ex_m0 (prog lk_calls))) t = snd (solo (prog lk_calls t) ex_m0).
Proof.
  split; [vm_compute; reflexivity|]. intros sch Hc t.
  refine (proj1 (statics_imply_irrelevant lk_F ex_cls (fun _ => None) lk_calls ex_m0 _ _ _ _ sch Hc t)).
  - intros u f s H. destruct u as [|[|u]]; simpl in H;
      [destruct H as [H|[]] | destruct H as [H|[]] | destruct H]; injection H as H1 H2; subst f; left; reflexivity.
  - intros u f s H. destruct u as [|[|u]]; simpl in H;
      [destruct H as [H|[]] | destruct H as [H|[]] | destruct H]; injection H as H1 H2; subst s;
      (split; [apply ex_add_ok | apply ex_add_respects; reflexivity]).
  - intros u f s l H Hl Hsw. exfalso. destruct u as [|[|u]]; simpl in H;
      [destruct H as [H|[]] | destruct H as [H|[]] | destruct H]; injection H as H1 H2; subst s;
      destruct Hl as [E|[]]; subst l; simpl in Hsw; discriminate.
  - vm_compute. reflexivity.
Qed.
