(* ReachProofs.v — the closure of Reach.v is exactly graph reachability once the
   fuel is at least the number of nodes, and the boolean checker therefore says
   what it is meant to say. *)
From Coq Require Import List PArith Bool Lia.
From A1 Require Import Conc.Reach.
Import ListNotations.

Lemma mem_In : forall x l, mem x l = true <-> In x l.
Proof.
  intros x l. unfold mem. rewrite existsb_exists. split.
  - intros [y [Hy E]]. apply Pos.eqb_eq in E. subst. exact Hy.
  - intro H. exists x. split; [exact H | apply Pos.eqb_refl].
Qed.

Lemma mem_false : forall x l, mem x l = false <-> ~ In x l.
Proof.
  intros x l. rewrite <- mem_In. destruct (mem x l).
  - split; [discriminate | intro H; exfalso; apply H; reflexivity].
  - split; [intros _ K; discriminate | reflexivity].
Qed.

Lemma succs_In : forall g S b, In b (succs g S) <-> exists a, In (a, b) g /\ In a S.
Proof.
  intros g S b. unfold succs. rewrite in_map_iff. split.
  - intros [[a b'] [E H]]. simpl in E. subst b'. apply filter_In in H. destruct H as [H1 H2].
    simpl in H2. apply mem_In in H2. exists a. split; assumption.
  - intros [a [H1 H2]]. exists (a, b). split; [reflexivity|].
    apply filter_In. split; [exact H1|]. simpl. apply mem_In. exact H2.
Qed.

Lemma fresh_In : forall S xs x, In x (fresh S xs) <-> In x xs /\ ~ In x S.
Proof.
  intros S xs x. induction xs as [|y r IH]; simpl.
  - tauto.
  - destruct (mem y S) eqn:E1; simpl.
    + apply mem_In in E1. rewrite IH. split.
      * intros [H1 H2]. split; [right; exact H1 | exact H2].
      * intros [[H1|H1] H2]; [subst; contradiction | split; assumption].
    + apply mem_false in E1. destruct (mem y (fresh S r)) eqn:E2.
      * apply mem_In in E2. rewrite IH. split.
        -- intros [H1 H2]. split; [right; exact H1 | exact H2].
        -- intros [[H1|H1] H2]; [subst; apply IH; exact E2 | split; assumption].
      * simpl. rewrite IH. split.
        -- intros [H|[H1 H2]]; [subst; split; [left; reflexivity | exact E1] | split; [right; exact H1 | exact H2]].
        -- intros [[H1|H1] H2]; [left; exact H1 | right; split; assumption].
Qed.

Lemma fresh_NoDup : forall S xs, NoDup (fresh S xs).
Proof.
  intros S xs. induction xs as [|y r IH]; simpl.
  - constructor.
  - destruct (mem y S); simpl; [exact IH|].
    destruct (mem y (fresh S r)) eqn:E2; [exact IH|].
    constructor; [apply mem_false; exact E2 | exact IH].
Qed.

Lemma NoDup_app_disjoint : forall (A : Type) (l1 l2 : list A),
  NoDup l1 -> NoDup l2 -> (forall x, In x l1 -> ~ In x l2) -> NoDup (l1 ++ l2).
Proof.
  intros A l1 l2 H1 H2 D. induction H1 as [|x l Hx H1 IH]; simpl.
  - exact H2.
  - constructor.
    + rewrite in_app_iff. intros [K|K]; [contradiction | apply (D x); [left; reflexivity | exact K]].
    + apply IH. intros y Hy. apply D. right. exact Hy.
Qed.

Definition closed (g : graph) (R : list id) : Prop :=
  forall a b, In (a, b) g -> In a R -> In b R.

Section Closure.
  Variable g : graph.
  Variable U : list id.
  Hypothesis targets_in_U : forall a b, In (a, b) g -> In b U.

  Lemma reach_iter_closed : forall fuel S,
    NoDup S -> incl S U -> length U <= length S + fuel ->
    incl S (reach_iter g fuel S) /\ closed g (reach_iter g fuel S).
  Proof.
    induction fuel as [|f IH]; intros S ND Hincl Hlen; simpl.
    - split; [apply incl_refl|].
      assert (HU : incl U S) by (apply NoDup_length_incl; [exact ND | lia | exact Hincl]).
      intros a b Hab _. apply HU. eapply targets_in_U. exact Hab.
    - destruct (fresh S (succs g S)) as [|n new] eqn:E.
      + split; [apply incl_refl|].
        intros a b Hab Ha. destruct (mem b S) eqn:Eb; [apply mem_In; exact Eb|].
        apply mem_false in Eb. exfalso.
        assert (K : In b (fresh S (succs g S))).
        { apply fresh_In. split; [apply succs_In; exists a; split; assumption | exact Eb]. }
        rewrite E in K. exact K.
      + assert (NDn : NoDup (n :: new)) by (rewrite <- E; apply fresh_NoDup).
        assert (Dj : forall x, In x (n :: new) -> ~ In x S).
        { intros x Hx. rewrite <- E in Hx. apply fresh_In in Hx. tauto. }
        assert (InU : incl ((n :: new) ++ S) U).
        { intros x Hx. apply in_app_iff in Hx. destruct Hx as [Hx|Hx]; [|apply Hincl; exact Hx].
          rewrite <- E in Hx. apply fresh_In in Hx. destruct Hx as [Hx _].
          apply succs_In in Hx. destruct Hx as [a [Hab _]]. eapply targets_in_U. exact Hab. }
        destruct (IH ((n :: new) ++ S)) as [I1 I2].
        * apply NoDup_app_disjoint; assumption.
        * exact InU.
        * rewrite app_length. simpl. simpl in Hlen. lia.
        * split; [|exact I2].
          intros x Hx. apply I1. apply in_app_iff. right. exact Hx.
  Qed.
End Closure.

Lemma universe_targets : forall g es a b, In (a, b) g -> In b (universe g es).
Proof.
  intros g es a b H. unfold universe. rewrite !in_app_iff. right. right.
  apply in_map_iff. exists (a, b). split; [reflexivity | exact H].
Qed.

(* U is any list that contains the entries and every edge target, e.g. the list
   of all nodes without repetition: then [length U] is the number of nodes *)
Lemma reachable_closed_nodes : forall g es U fuel,
  incl es U -> (forall a b, In (a, b) g -> In b U) -> length U <= fuel ->
  incl es (reachable g es fuel) /\ closed g (reachable g es fuel).
Proof.
  intros g es U fuel HeU HgU Hf. unfold reachable.
  destruct (reach_iter_closed g U HgU fuel (fresh [] es)) as [I1 I2].
  - apply fresh_NoDup.
  - intros x Hx. apply fresh_In in Hx. destruct Hx as [Hx _]. apply HeU. exact Hx.
  - lia.
  - split; [|exact I2]. intros x Hx. apply I1. apply fresh_In. split; [exact Hx | intros []].
Qed.

(* soundness: with fuel >= the number of nodes, everything connected to an entry
   point by a path of edges is in the result *)
Theorem reach_sound_nodes : forall g es U fuel x,
  incl es U -> (forall a b, In (a, b) g -> In b U) -> length U <= fuel ->
  path g es x -> In x (reachable g es fuel).
Proof.
  intros g es U fuel x HeU HgU Hf P. destruct (reachable_closed_nodes g es U fuel HeU HgU Hf) as [I C].
  induction P as [e He | a b _ IH Hab].
  - apply I. exact He.
  - eapply C; eassumption.
Qed.

(* the instance the checker uses: [universe] lists the nodes with repetitions *)
Theorem reach_sound : forall g es fuel x,
  length (universe g es) <= fuel -> path g es x -> In x (reachable g es fuel).
Proof.
  intros g es fuel x Hf. apply reach_sound_nodes with (U := universe g es); [| |exact Hf].
  - intros e He. unfold universe. apply in_app_iff. left. exact He.
  - apply universe_targets.
Qed.

(* completeness: for any fuel, the result contains only connected nodes *)
Lemma reach_iter_complete : forall g es fuel S,
  (forall x, In x S -> path g es x) -> forall x, In x (reach_iter g fuel S) -> path g es x.
Proof.
  intros g es. induction fuel as [|f IH]; intros S HS x Hx; simpl in Hx.
  - apply HS. exact Hx.
  - destruct (fresh S (succs g S)) as [|n new] eqn:E.
    + apply HS. exact Hx.
    + eapply IH; [|exact Hx]. intros y Hy. change (n :: new ++ S) with ((n :: new) ++ S) in Hy. apply in_app_iff in Hy. destruct Hy as [Hy|Hy]; [|apply HS; exact Hy].
      rewrite <- E in Hy. apply fresh_In in Hy. destruct Hy as [Hy _].
      apply succs_In in Hy. destruct Hy as [a [Hab Ha]].
      eapply path_step; [apply HS; exact Ha | exact Hab].
Qed.

Theorem reach_complete : forall g es fuel x, In x (reachable g es fuel) -> path g es x.
Proof.
  intros g es fuel x Hx. unfold reachable in Hx.
  eapply reach_iter_complete; [|exact Hx].
  intros y Hy. apply fresh_In in Hy. destruct Hy as [Hy _]. apply path_entry. exact Hy.
Qed.

Lemma path_incl : forall g es es' x, incl es es' -> path g es x -> path g es' x.
Proof.
  intros g es es' x Hi P. induction P as [e He | a b _ IH Hab].
  - apply path_entry. apply Hi. exact He.
  - eapply path_step; eassumption.
Qed.

(* the checker: true means no flagged writable object is connected to an entry *)
Theorem no_writable_reachable_sound : forall F,
  no_writable_reachable F = true ->
  forall x, path (f_edges F) (f_entries F) x -> flagged F x = false.
Proof.
  intros F H x P. unfold no_writable_reachable in H. rewrite forallb_forall in H.
  assert (K : In x (reachable (f_edges F) (f_entries F) (fuel_of F))).
  { apply reach_sound; [unfold fuel_of; lia | exact P]. }
  apply H in K. apply negb_true_iff in K. exact K.
Qed.

(* and false means there is one: the alarm is never spurious w.r.t. the graph *)
Theorem no_writable_reachable_complete : forall F,
  no_writable_reachable F = false ->
  exists x, path (f_edges F) (f_entries F) x /\ flagged F x = true.
Proof.
  intros F H. unfold no_writable_reachable in H.
  assert (E : existsb (fun x => flagged F x) (reachable (f_edges F) (f_entries F) (fuel_of F)) = true).
  { induction (reachable (f_edges F) (f_entries F) (fuel_of F)) as [|y l IH]; simpl in *; [discriminate|].
    destruct (flagged F y); simpl in *; [reflexivity | apply IH; exact H]. }
  apply existsb_exists in E. destruct E as [x [Hx Fx]]. exists x. split; [|exact Fx].
  eapply reach_complete. exact Hx.
Qed.

(* unfolding of [flagged = false] into the three facts the translator reports *)
Lemma flagged_false : forall F x, flagged F x = false ->
  In x (f_wsec F) -> ~ In x (f_known F) ->
  ~ In x (f_stored F) /\ (In x (f_escaped F) -> In x (f_allow F)).
Proof.
  intros F x H W K. unfold flagged in H.
  apply mem_In in W. rewrite W in H. apply mem_false in K. rewrite K in H. simpl in H.
  rewrite andb_true_r in H. apply orb_false_iff in H. destruct H as [H1 H2]. split.
  - apply mem_false. exact H1.
  - intro E. apply mem_In in E. rewrite E in H2. simpl in H2. apply negb_false_iff in H2. apply mem_In. exact H2.
Qed.
