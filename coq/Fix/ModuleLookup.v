(* ModuleLookup.v — model of libasn1fix/asn1fix_retrieve.c:asn1f_lookup_module: which module of the
   command line an `IMPORTS sym FROM Name {oid}` (or `Name.sym`) refers to.

   The module list [ms] is in command-line order (asn->modules).  A module is its name, its
   OBJECT IDENTIFIER if it has one, and an identity [m_id] (which file it is: what the tie observes).

     effective_oid   the renaming step: no OID given -> the IMPORTS clauses of the current module
                     are searched for the name; one clause with that name lends its OID, a second
                     clause with the name after an OID was found is ETOOMANYREFS (None)
     lookup_oid      the loop over asn->modules, OID given -> the first module whose own OID is
                     equal ("Match! Even if name doesn't"; a module without OID or with another OID
                     is skipped "even if name is the same")
     lookup_name     the same loop, no OID -> the whole list is walked: the one module of that name;
                     a second module of the name is "Ambiguous reference" / ETOOMANYREFS
     lookup_c        the loop (both branches)
     lookup_full     both steps
     accepted        what asn1f_fix_module__phase_1 lets through: two modules that both carry an
                     OID carry different ones; two modules of the same name both carry an OID
     lookup_lenient  the variant "OID matches OR name matches, first match in command-line order"
                     (not what the C does; kept to state that it is order dependent)
   Theorems at the end of the file (re-exported in Props/Properties_C12.v). *)
From Coq Require Import List Bool Arith Permutation Lia ZArith.
Import ListNotations.

Definition oid := list nat.

Fixpoint oid_eqb (a b : oid) : bool :=
  match a, b with
  | [], [] => true
  | x :: a', y :: b' => Nat.eqb x y && oid_eqb a' b'
  | _, _ => false
  end.

Record lmod := { m_name : nat; m_oid : option oid; m_id : nat }.

Definition oid_match (o : oid) (m : lmod) : bool :=
  match m_oid m with Some y => oid_eqb o y | None => false end.
Definition name_match (n : nat) (m : lmod) : bool := Nat.eqb n (m_name m).

Inductive lres := LAmbiguous | LNotFound | LFound (m : lmod).

(* OID given: first module carrying it *)
Definition lookup_oid (ms : list lmod) (o : oid) : option lmod := find (oid_match o) ms.

(* no OID: [acc] is the module of that name seen so far (`by_name` in the C) *)
Fixpoint lookup_name (ms : list lmod) (n : nat) (acc : option lmod) : lres :=
  match ms with
  | [] => match acc with Some m => LFound m | None => LNotFound end
  | m :: r =>
      if name_match n m then
        match acc with
        | Some _ => LAmbiguous                (* "Ambiguous reference: %s matches several modules" *)
        | None => lookup_name r n (Some m)
        end
      else lookup_name r n acc
  end.

Definition lookup_c (ms : list lmod) (n : nat) (o : option oid) : lres :=
  match o with
  | Some x => match lookup_oid ms x with Some m => LFound m | None => LNotFound end
  | None => lookup_name ms n None
  end.

(* IMPORTS clauses of the current module: FROM name, optional OID *)
Definition import := (nat * option oid)%type.

Fixpoint rename (imps : list import) (n : nat) (acc : option oid) : option (option oid) :=
  match imps with
  | [] => Some acc
  | (n', o') :: r =>
      if Nat.eqb n n' then
        match acc with
        | Some _ => None                      (* "Ambiguous reference" / ETOOMANYREFS *)
        | None => rename r n o'
        end
      else rename r n acc
  end.

Definition effective_oid (imps : list import) (n : nat) (o : option oid) : option (option oid) :=
  match o with Some _ => Some o | None => rename imps n None end.

Definition lookup_full (imps : list import) (ms : list lmod) (n : nat) (o : option oid) : lres :=
  match effective_oid imps n o with
  | None => LAmbiguous
  | Some o' => lookup_c ms n o'
  end.

(* the lenient variant *)
Definition pick_lenient (n : nat) (o : option oid) (m : lmod) : bool :=
  match o with Some x => oid_match x m || name_match n m | None => name_match n m end.
Definition lookup_lenient (ms : list lmod) (n : nat) (o : option oid) : option lmod :=
  find (pick_lenient n o) ms.

(* what phase 1 of the fixer accepts *)
Definition oids_distinct (ms : list lmod) : Prop :=
  forall a b x, In a ms -> In b ms -> m_oid a = Some x -> m_oid b = Some x -> a = b.
(* executable form used by the front end *)
Fixpoint accepted_b (ms : list lmod) : bool :=
  match ms with
  | [] => true
  | m :: r =>
      forallb (fun x => match m_oid m, m_oid x with
                        | Some a, Some b => negb (oid_eqb a b)
                        | _, _ => negb (Nat.eqb (m_name m) (m_name x))
                        end) r && accepted_b r
  end.

(* what the front end prints for a module found *)
Definition id_z (m : lmod) : Z := Z.of_nat (m_id m).

(* ---------------------------------------------------------------- proofs *)

Lemma oid_eqb_eq : forall a b, oid_eqb a b = true <-> a = b.
Proof.
  induction a as [|x a IH]; destruct b as [|y b]; simpl; split; intro H; try reflexivity; try discriminate.
  - apply andb_true_iff in H. destruct H as [H1 H2]. apply Nat.eqb_eq in H1. apply IH in H2. subst. reflexivity.
  - inversion H; subst. apply andb_true_iff. split. apply Nat.eqb_refl. apply IH. reflexivity.
Qed.

Lemma oid_match_iff : forall o m, oid_match o m = true <-> m_oid m = Some o.
Proof.
  intros o m. unfold oid_match. destruct (m_oid m) as [y|]; split; intro H; try discriminate.
  - apply oid_eqb_eq in H. subst. reflexivity.
  - inversion H; subst. apply oid_eqb_eq. reflexivity.
Qed.

Lemma find_perm_unique : forall (A : Type) (p : A -> bool) (l l' : list A),
  Permutation l l' ->
  (forall a b, In a l -> In b l -> p a = true -> p b = true -> a = b) ->
  find p l = find p l'.
Proof.
  intros A p l l' P U.
  destruct (find p l) as [a|] eqn:E1; destruct (find p l') as [b|] eqn:E2; try reflexivity.
  - apply find_some in E1. apply find_some in E2. destruct E1 as [I1 P1]. destruct E2 as [I2 P2].
    f_equal. apply U; try assumption. apply Permutation_in with (l := l'); [apply Permutation_sym; exact P | exact I2].
  - apply find_some in E1. destruct E1 as [I1 P1].
    assert (I' : In a l') by (apply Permutation_in with (l := l); assumption).
    pose proof (find_none p l' E2 a I') as N. rewrite N in P1. discriminate.
  - apply find_some in E2. destruct E2 as [I2 P2].
    assert (I' : In b l) by (apply Permutation_in with (l := l'); [apply Permutation_sym; exact P | exact I2]).
    pose proof (find_none p l E1 b I') as N. rewrite N in P2. discriminate.
Qed.

(* 1. an OID is given: the result does not depend on the order of the module list *)
Theorem lookup_oid_order_independent : forall ms ms' o,
  oids_distinct ms -> Permutation ms ms' ->
  lookup_oid ms o = lookup_oid ms' o.
Proof.
  intros ms ms' o D P. unfold lookup_oid. apply find_perm_unique; [exact P|].
  intros a b Ia Ib Pa Pb. apply oid_match_iff in Pa. apply oid_match_iff in Pb.
  apply (D a b o); assumption.
Qed.

(* 2. an OID is given: the module found carries that OID (never a module picked by its name), and
      if some module carries the OID it is the one found, whatever the name asked for *)
Theorem lookup_oid_by_oid_only : forall ms o,
  (forall m, lookup_oid ms o = Some m -> In m ms /\ m_oid m = Some o) /\
  (forall m, oids_distinct ms -> In m ms -> m_oid m = Some o -> lookup_oid ms o = Some m).
Proof.
  intros ms o. split.
  - intros m H. unfold lookup_oid in H. apply find_some in H. destruct H as [I Pm]. split; [exact I|].
    apply oid_match_iff. exact Pm.
  - intros m D I Hm. unfold lookup_oid. destruct (find (oid_match o) ms) as [a|] eqn:E.
    + apply find_some in E. destruct E as [Ia Pa]. apply oid_match_iff in Pa.
      f_equal. apply (D a m o); assumption.
    + pose proof (find_none _ _ E m I) as N.
      assert (T : oid_match o m = true) by (apply oid_match_iff; exact Hm). rewrite T in N. discriminate.
Qed.

(* 3. no OID: the answer is a function of the modules of that name, not of where they stand *)
Definition name_result (acc : option lmod) (f : list lmod) : lres :=
  match acc, f with
  | None, [] => LNotFound
  | None, [m] => LFound m
  | None, _ :: _ :: _ => LAmbiguous
  | Some a, [] => LFound a
  | Some _, _ :: _ => LAmbiguous
  end.

Lemma lookup_name_filter : forall ms n acc,
  lookup_name ms n acc = name_result acc (filter (name_match n) ms).
Proof.
  induction ms as [|m r IH]; intros n acc.
  - destruct acc; reflexivity.
  - simpl. destruct (name_match n m) eqn:E.
    + destruct acc as [a|]; [reflexivity|]. rewrite IH. simpl.
      destruct (filter (name_match n) r) as [|x t]; reflexivity.
    + apply IH.
Qed.

Lemma filter_perm : forall (A : Type) (p : A -> bool) (l l' : list A),
  Permutation l l' -> Permutation (filter p l) (filter p l').
Proof.
  intros A p l l' P. induction P as [|x l l' P IH|x y l|l l1 l2 P1 IH1 P2 IH2].
  - apply perm_nil.
  - simpl. destruct (p x); [apply perm_skip|]; exact IH.
  - simpl. destruct (p x); destruct (p y); try apply perm_swap; apply Permutation_refl.
  - apply Permutation_trans with (l' := filter p l1); assumption.
Qed.

Lemma name_result_perm : forall f f', Permutation f f' -> name_result None f = name_result None f'.
Proof.
  intros f f' P. destruct f as [|a [|b t]].
  - apply Permutation_nil in P. subst. reflexivity.
  - apply Permutation_length_1_inv in P. subst. reflexivity.
  - pose proof (Permutation_length P) as L. destruct f' as [|a' [|b' t']]; simpl in L; try discriminate. reflexivity.
Qed.

Theorem lookup_name_order_independent : forall ms ms' n,
  Permutation ms ms' ->
  lookup_name ms n None = lookup_name ms' n None.
Proof.
  intros ms ms' n P. rewrite !lookup_name_filter. apply name_result_perm. apply filter_perm. exact P.
Qed.

(* what the answer is: the module of that name when there is exactly one in the list *)
Theorem lookup_name_unique : forall ms n m,
  lookup_name ms n None = LFound m <-> filter (name_match n) ms = [m].
Proof.
  intros ms n m. rewrite lookup_name_filter.
  destruct (filter (name_match n) ms) as [|a [|b t]]; simpl; split; intro H; try discriminate; congruence.
Qed.

(* 4. both steps: the renaming step does not look at the module list at all *)
Theorem lookup_full_order_independent : forall imps ms ms' n o,
  oids_distinct ms -> Permutation ms ms' ->
  lookup_full imps ms n o = lookup_full imps ms' n o.
Proof.
  intros imps ms ms' n o D P. unfold lookup_full.
  destruct (effective_oid imps n o) as [[x|]|] eqn:E; try reflexivity; unfold lookup_c.
  - rewrite (lookup_oid_order_independent ms ms' x D P). reflexivity.
  - apply lookup_name_order_independent. exact P.
Qed.

Lemma accepted_b_sound : forall ms, accepted_b ms = true -> oids_distinct ms.
Proof.
  induction ms as [|m r IH]; intros H a b x Ia Ib Ha Hb.
  - destruct Ia.
  - simpl in H. apply andb_true_iff in H. destruct H as [H1 H2].
    rewrite forallb_forall in H1.
    assert (K : forall c, In c r -> m_oid m = Some x -> m_oid c = Some x -> False).
    { intros c Ic Hm Hc. specialize (H1 c Ic). rewrite Hm, Hc in H1.
      assert (T : oid_eqb x x = true) by (apply oid_eqb_eq; reflexivity). rewrite T in H1. discriminate. }
    destruct Ia as [Ea|Ia]; destruct Ib as [Eb|Ib].
    + congruence.
    + subst a. exfalso. apply (K b Ib Ha Hb).
    + subst b. exfalso. apply (K a Ia Hb Ha).
    + apply (IH H2 a b x); assumption.
Qed.

(* witnesses ------------------------------------------------------------ *)
Definition ed1 : lmod := {| m_name := 7; m_oid := Some [1;3;6;1]; m_id := 0 |}.
Definition ed2 : lmod := {| m_name := 7; m_oid := Some [1;3;6;2]; m_id := 1 |}.

(* the lenient rule is order dependent on an accepted module list with distinct OIDs *)
Theorem lookup_lenient_refuted : exists ms ms' n o,
  accepted_b ms = true /\ oids_distinct ms /\ Permutation ms ms' /\
  lookup_lenient ms n (Some o) <> lookup_lenient ms' n (Some o) /\
  lookup_oid ms o = lookup_oid ms' o.
Proof.
  exists [ed1; ed2], [ed2; ed1], 7, [1;3;6;2].
  split; [reflexivity|]. split; [apply accepted_b_sound; reflexivity|]. split; [apply perm_swap|].
  split; [vm_compute; discriminate | reflexivity].
Qed.

Example lookup_example :
  lookup_full [(7, Some [1;3;6;2])] [ed1; ed2] 7 None = LFound ed2 /\
  lookup_full [(7, Some [1;3;6;2])] [ed2; ed1] 7 None = LFound ed2 /\
  lookup_full [(7, Some [1;3;6;9])] [ed1; ed2] 7 None = LNotFound /\
  lookup_full [(7, Some [1;3;6;1]); (7, Some [1;3;6;2])] [ed1; ed2] 7 None = LAmbiguous /\
  lookup_full [] [ed1; ed2] 7 (Some [1;3;6;2]) = LFound ed2 /\
  lookup_full [] [ed1; ed2] 7 None = LAmbiguous /\
  lookup_full [] [ed2; ed1] 7 None = LAmbiguous /\
  lookup_full [] [ed1] 7 None = LFound ed1.
Proof. repeat split. Qed.
