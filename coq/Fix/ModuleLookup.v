(* ModuleLookup.v — model of libasn1fix/asn1fix_retrieve.c:asn1f_lookup_module: which module of the
   command line an `IMPORTS sym FROM Name {oid}` (or `Name.sym`) refers to.

   The module list [ms] is in command-line order (asn->modules).  A module is its name, its
   OBJECT IDENTIFIER if it has one, and an identity [m_id] (which file it is: what the tie observes).

     effective_oid   the renaming step: no OID given -> the IMPORTS clauses of the current module
                     are searched for the name; one clause with that name lends its OID, a second
                     clause with the name after an OID was found is ETOOMANYREFS (None)
     lookup_c        the loop over asn->modules: OID given -> the first module whose own OID is
                     equal ("Match! Even if name doesn't"; a module without OID or with another OID
                     is skipped "even if name is the same"); no OID -> first module of that name
     lookup_full     both steps
     accepted        what asn1f_fix_module__phase_1 lets through: two modules that both carry an
                     OID carry different ones; two modules of the same name both carry an OID
     lookup_lenient  the variant "OID matches OR name matches, first match in command-line order"
                     (not what the C does; kept to state that it is order dependent)
   Theorems at the end of the file (re-exported in Props/Properties_C12.v). *)
From Coq Require Import List Bool Arith Permutation Lia ZArith.
Import ListNotations.

Definition oid := list nat.

Fixpoint oid_eqb (a b : oid) : bool :=
  match a, b with
  | [], [] => true
  | x :: a', y :: b' => Nat.eqb x y && oid_eqb a' b'
  | _, _ => false
  end.

Record lmod := { m_name : nat; m_oid : option oid; m_id : nat }.

Definition oid_match (o : oid) (m : lmod) : bool :=
  match m_oid m with Some y => oid_eqb o y | None => false end.
Definition name_match (n : nat) (m : lmod) : bool := Nat.eqb n (m_name m).

(* the predicate of the C's loop body *)
Definition pick (n : nat) (o : option oid) (m : lmod) : bool :=
  match o with Some x => oid_match x m | None => name_match n m end.

Definition lookup_c (ms : list lmod) (n : nat) (o : option oid) : option lmod := find (pick n o) ms.

(* IMPORTS clauses of the current module: FROM name, optional OID *)
Definition import := (nat * option oid)%type.

Fixpoint rename (imps : list import) (n : nat) (acc : option oid) : option (option oid) :=
  match imps with
  | [] => Some acc
  | (n', o') :: r =>
      if Nat.eqb n n' then
        match acc with
        | Some _ => None                      (* "Ambiguous reference" / ETOOMANYREFS *)
        | None => rename r n o'
        end
      else rename r n acc
  end.

Definition effective_oid (imps : list import) (n : nat) (o : option oid) : option (option oid) :=
  match o with Some _ => Some o | None => rename imps n None end.

Inductive lres := LAmbiguous | LNotFound | LFound (m : lmod).

Definition lookup_full (imps : list import) (ms : list lmod) (n : nat) (o : option oid) : lres :=
  match effective_oid imps n o with
  | None => LAmbiguous
  | Some o' => match lookup_c ms n o' with None => LNotFound | Some m => LFound m end
  end.

(* the lenient variant *)
Definition pick_lenient (n : nat) (o : option oid) (m : lmod) : bool :=
  match o with Some x => oid_match x m || name_match n m | None => name_match n m end.
Definition lookup_lenient (ms : list lmod) (n : nat) (o : option oid) : option lmod :=
  find (pick_lenient n o) ms.

(* what phase 1 of the fixer accepts *)
Definition oids_distinct (ms : list lmod) : Prop :=
  forall a b x, In a ms -> In b ms -> m_oid a = Some x -> m_oid b = Some x -> a = b.
Definition names_distinct (ms : list lmod) : Prop :=
  forall a b, In a ms -> In b ms -> m_name a = m_name b -> a = b.
(* executable form used by the front end *)
Fixpoint accepted_b (ms : list lmod) : bool :=
  match ms with
  | [] => true
  | m :: r =>
      forallb (fun x => match m_oid m, m_oid x with
                        | Some a, Some b => negb (oid_eqb a b)
                        | _, _ => negb (Nat.eqb (m_name m) (m_name x))
                        end) r && accepted_b r
  end.

(* what the front end prints for a module found *)
Definition id_z (m : lmod) : Z := Z.of_nat (m_id m).

(* ---------------------------------------------------------------- proofs *)

Lemma oid_eqb_eq : forall a b, oid_eqb a b = true <-> a = b.
Proof.
  induction a as [|x a IH]; destruct b as [|y b]; simpl; split; intro H; try reflexivity; try discriminate.
  - apply andb_true_iff in H. destruct H as [H1 H2]. apply Nat.eqb_eq in H1. apply IH in H2. subst. reflexivity.
  - inversion H; subst. apply andb_true_iff. split. apply Nat.eqb_refl. apply IH. reflexivity.
Qed.

Lemma oid_match_iff : forall o m, oid_match o m = true <-> m_oid m = Some o.
Proof.
  intros o m. unfold oid_match. destruct (m_oid m) as [y|]; split; intro H; try discriminate.
  - apply oid_eqb_eq in H. subst. reflexivity.
  - inversion H; subst. apply oid_eqb_eq. reflexivity.
Qed.

Lemma find_perm_unique : forall (A : Type) (p : A -> bool) (l l' : list A),
  Permutation l l' ->
  (forall a b, In a l -> In b l -> p a = true -> p b = true -> a = b) ->
  find p l = find p l'.
Proof.
  intros A p l l' P U.
  destruct (find p l) as [a|] eqn:E1; destruct (find p l') as [b|] eqn:E2; try reflexivity.
  - apply find_some in E1. apply find_some in E2. destruct E1 as [I1 P1]. destruct E2 as [I2 P2].
    f_equal. apply U; try assumption. apply Permutation_in with (l := l'); [apply Permutation_sym; exact P | exact I2].
  - apply find_some in E1. destruct E1 as [I1 P1].
    assert (I' : In a l') by (apply Permutation_in with (l := l); assumption).
    pose proof (find_none p l' E2 a I') as N. rewrite N in P1. discriminate.
  - apply find_some in E2. destruct E2 as [I2 P2].
    assert (I' : In b l) by (apply Permutation_in with (l := l'); [apply Permutation_sym; exact P | exact I2]).
    pose proof (find_none p l E1 b I') as N. rewrite N in P2. discriminate.
Qed.

(* 1. an OID is given: the result does not depend on the order of the module list *)
Theorem lookup_oid_order_independent : forall ms ms' n o,
  oids_distinct ms -> Permutation ms ms' ->
  lookup_c ms n (Some o) = lookup_c ms' n (Some o).
Proof.
  intros ms ms' n o D P. unfold lookup_c. apply find_perm_unique; [exact P|].
  intros a b Ia Ib Pa Pb. simpl in Pa, Pb. apply oid_match_iff in Pa. apply oid_match_iff in Pb.
  apply (D a b o); assumption.
Qed.

(* 2. an OID is given: the module found carries that OID (never a module picked by its name), and
      if some module carries the OID it is the one found, whatever the name asked for *)
Theorem lookup_oid_by_oid_only : forall ms n o,
  (forall m, lookup_c ms n (Some o) = Some m -> In m ms /\ m_oid m = Some o) /\
  (forall m, oids_distinct ms -> In m ms -> m_oid m = Some o -> lookup_c ms n (Some o) = Some m).
Proof.
  intros ms n o. split.
  - intros m H. unfold lookup_c in H. apply find_some in H. destruct H as [I Pm]. split; [exact I|].
    simpl in Pm. apply oid_match_iff. exact Pm.
  - intros m D I Hm. unfold lookup_c. destruct (find (pick n (Some o)) ms) as [a|] eqn:E.
    + apply find_some in E. destruct E as [Ia Pa]. simpl in Pa. apply oid_match_iff in Pa.
      f_equal. apply (D a m o); assumption.
    + pose proof (find_none _ _ E m I) as N. simpl in N.
      assert (T : oid_match o m = true) by (apply oid_match_iff; exact Hm). rewrite T in N. discriminate.
Qed.

(* 3. no OID: order independent when the names are distinct *)
Theorem lookup_name_order_independent : forall ms ms' n,
  names_distinct ms -> Permutation ms ms' ->
  lookup_c ms n None = lookup_c ms' n None.
Proof.
  intros ms ms' n D P. unfold lookup_c. apply find_perm_unique; [exact P|].
  intros a b Ia Ib Pa Pb. simpl in Pa, Pb. unfold name_match in Pa, Pb.
  apply Nat.eqb_eq in Pa. apply Nat.eqb_eq in Pb. apply D; try assumption. congruence.
Qed.

(* 4. both steps: the renaming step does not look at the module list at all *)
Theorem lookup_full_order_independent : forall imps ms ms' n o,
  oids_distinct ms -> Permutation ms ms' ->
  (effective_oid imps n o = Some None -> names_distinct ms) ->
  lookup_full imps ms n o = lookup_full imps ms' n o.
Proof.
  intros imps ms ms' n o D P Hn. unfold lookup_full.
  destruct (effective_oid imps n o) as [[x|]|] eqn:E; try reflexivity.
  - rewrite (lookup_oid_order_independent ms ms' n x D P). reflexivity.
  - rewrite (lookup_name_order_independent ms ms' n (Hn eq_refl) P). reflexivity.
Qed.

Lemma accepted_b_sound : forall ms, accepted_b ms = true -> oids_distinct ms.
Proof.
  induction ms as [|m r IH]; intros H a b x Ia Ib Ha Hb.
  - destruct Ia.
  - simpl in H. apply andb_true_iff in H. destruct H as [H1 H2].
    rewrite forallb_forall in H1.
    assert (K : forall c, In c r -> m_oid m = Some x -> m_oid c = Some x -> False).
    { intros c Ic Hm Hc. specialize (H1 c Ic). rewrite Hm, Hc in H1.
      assert (T : oid_eqb x x = true) by (apply oid_eqb_eq; reflexivity). rewrite T in H1. discriminate. }
    destruct Ia as [Ea|Ia]; destruct Ib as [Eb|Ib].
    + congruence.
    + subst a. exfalso. apply (K b Ib Ha Hb).
    + subst b. exfalso. apply (K a Ia Hb Ha).
    + apply (IH H2 a b x); assumption.
Qed.

(* witnesses ------------------------------------------------------------ *)
Definition ed1 : lmod := {| m_name := 7; m_oid := Some [1;3;6;1]; m_id := 0 |}.
Definition ed2 : lmod := {| m_name := 7; m_oid := Some [1;3;6;2]; m_id := 1 |}.

(* the lenient rule is order dependent on an accepted module list with distinct OIDs *)
Theorem lookup_lenient_refuted : exists ms ms' n o,
  accepted_b ms = true /\ oids_distinct ms /\ Permutation ms ms' /\
  lookup_lenient ms n (Some o) <> lookup_lenient ms' n (Some o) /\
  lookup_c ms n (Some o) = lookup_c ms' n (Some o).
Proof.
  exists [ed1; ed2], [ed2; ed1], 7, [1;3;6;2].
  split; [reflexivity|]. split; [apply accepted_b_sound; reflexivity|]. split; [apply perm_swap|].
  split; [vm_compute; discriminate | reflexivity].
Qed.

(* the C itself, asked WITHOUT an OID for a name that two accepted editions share, is order dependent:
   the hypothesis names_distinct of theorem 3 cannot be dropped (finding C12-import-edition-by-order) *)
Theorem lookup_name_shared_refuted : exists ms ms' n,
  accepted_b ms = true /\ Permutation ms ms' /\ lookup_c ms n None <> lookup_c ms' n None.
Proof.
  exists [ed1; ed2], [ed2; ed1], 7.
  split; [reflexivity|]. split; [apply perm_swap|]. vm_compute; discriminate.
Qed.

Example lookup_example :
  lookup_full [(7, Some [1;3;6;2])] [ed1; ed2] 7 None = LFound ed2 /\
  lookup_full [(7, Some [1;3;6;2])] [ed2; ed1] 7 None = LFound ed2 /\
  lookup_full [(7, Some [1;3;6;9])] [ed1; ed2] 7 None = LNotFound /\
  lookup_full [(7, Some [1;3;6;1]); (7, Some [1;3;6;2])] [ed1; ed2] 7 None = LAmbiguous /\
  lookup_full [] [ed1; ed2] 7 (Some [1;3;6;2]) = LFound ed2.
Proof. repeat split. Qed.
