(* DistinctProofs.v — lemmas relating the model of libasn1fix's checks
   (Fix/Tags.v) to the specification (Fix/Distinct.v). *)
From Coq Require Import ZArith List Bool Arith Lia.
From A1 Require Import Fix.Tags Fix.Distinct.
Import ListNotations.
Local Open Scope Z_scope.

(* ================================================================ small facts *)
Lemma tclass_eqb_eq : forall a b, tclass_eqb a b = true <-> a = b.
Proof. destruct a, b; simpl; split; intro H; try reflexivity; try discriminate. Qed.

Lemma otag_eqb_eq : forall a b, otag_eqb a b = true <-> a = b.
Proof.
  destruct a as [c1 n1|], b as [c2 n2|]; simpl; split; intro H; try reflexivity; try discriminate.
  - apply andb_true_iff in H. destruct H as [H1 H2].
    apply tclass_eqb_eq in H1. apply Z.eqb_eq in H2. subst. reflexivity.
  - inversion H; subst. apply andb_true_iff. split; [apply tclass_eqb_eq; reflexivity | apply Z.eqb_refl].
Qed.

Lemma otag_eqb_neq : forall a b, otag_eqb a b = false <-> a <> b.
Proof.
  intros a b. split; intro H.
  - intro E. apply otag_eqb_eq in E. congruence.
  - destruct (otag_eqb a b) eqn:E; [apply otag_eqb_eq in E; contradiction | reflexivity].
Qed.

(* ================================================================ identifiers *)
Lemma existsb_nat_In : forall n l, existsb (Nat.eqb n) l = true <-> In n l.
Proof.
  intros n l. rewrite existsb_exists. split.
  - intros [x [Hin E]]. apply Nat.eqb_eq in E. subst. exact Hin.
  - intro H. exists n. split; [exact H | apply Nat.eqb_refl].
Qed.

Lemma existsb_Z_In : forall n l, existsb (Z.eqb n) l = true <-> In n l.
Proof.
  intros n l. rewrite existsb_exists. split.
  - intros [x [Hin E]]. apply Z.eqb_eq in E. subst. exact Hin.
  - intro H. exists n. split; [exact H | apply Z.eqb_refl].
Qed.

(* asn1f_check_unique_expr finds no clash exactly when the names are pairwise different *)
Lemma dup_in_NoDup : forall l, dup_in l = false <-> NoDup l.
Proof.
  induction l as [|n l IH]; simpl.
  - split; [intros _; constructor | reflexivity].
  - rewrite orb_false_iff. split.
    + intros [H1 H2]. constructor.
      * intro Hin. apply existsb_nat_In in Hin. congruence.
      * apply IH. exact H2.
    + intro H. inversion H; subst. split.
      * destruct (existsb (Nat.eqb n) l) eqn:E; [apply existsb_nat_In in E; contradiction | reflexivity].
      * apply IH. assumption.
Qed.

(* ================================================================ enumerations *)
(* invariant of asn1f_fix_enum's scan: [used] holds the distinct values seen so far *)
Lemma enum_vals_explicit_sound : forall items maxv used,
  enum_vals maxv used items = false ->
  NoDup (explicit_values items) /\ (forall v, In v (explicit_values items) -> ~ In v used).
Proof.
  induction items as [|[n v] items IH]; intros maxv used H; simpl in *.
  - split; [constructor | intros v []].
  - apply orb_false_iff in H. destruct H as [Hc Hrest].
    rewrite Hc in Hrest.
    apply IH in Hrest. destruct Hrest as [Hnd Hfresh].
    destruct v as [x|]; simpl.
    + split.
      * constructor; [|exact Hnd].
        intro Hin. apply (Hfresh x Hin). apply in_or_app. right. left. reflexivity.
      * intros w [E|Hin].
        -- subst w. intro Hu. assert (existsb (Z.eqb x) used = true) by (apply existsb_Z_In; exact Hu). congruence.
        -- intro Hu. apply (Hfresh w Hin). apply in_or_app. left. exact Hu.
    + split; [exact Hnd|].
      intros w Hin Hu. apply (Hfresh w Hin). apply in_or_app. left. exact Hu.
Qed.

Lemma enum_val_clash_sound : forall items, enum_val_clash items = false -> NoDup (explicit_values items).
Proof. intros items H. apply (enum_vals_explicit_sound items (-1) [] H). Qed.

Definition all_valued (items : list (nat * option Z)) : Prop :=
  forall it, In it items -> snd it <> None.
Definition none_valued (items : list (nat * option Z)) : Prop :=
  forall it, In it items -> snd it = None.

Lemma enum_vals_valued_complete : forall items maxv used,
  all_valued items -> NoDup (explicit_values items) ->
  (forall v, In v (explicit_values items) -> ~ In v used) ->
  enum_vals maxv used items = false.
Proof.
  induction items as [|[n v] items IH]; intros maxv used Hall Hnd Hfresh; simpl in *.
  - reflexivity.
  - destruct v as [x|]; [|exfalso; apply (Hall (n, None)); [left; reflexivity | reflexivity]].
    simpl in *. inversion Hnd as [|? ? Hx Hnd']; subst.
    assert (Hc : existsb (Z.eqb x) used = false).
    { destruct (existsb (Z.eqb x) used) eqn:E; [|reflexivity].
      apply existsb_Z_In in E. exfalso. apply (Hfresh x); [left; reflexivity | exact E]. }
    rewrite Hc. simpl. apply IH.
    + intros it Hin. apply Hall. right. exact Hin.
    + exact Hnd'.
    + intros w Hin Hu. apply in_app_or in Hu. destruct Hu as [Hu|[E|[]]].
      * apply (Hfresh w); [right; exact Hin | exact Hu].
      * subst w. contradiction.
Qed.

Lemma enum_vals_unvalued_complete : forall items maxv used,
  none_valued items -> (forall v, In v used -> v <= maxv) ->
  enum_vals maxv used items = false.
Proof.
  induction items as [|[n v] items IH]; intros maxv used Hnone Hmax; simpl in *.
  - reflexivity.
  - assert (v = None) by (apply (Hnone (n, v)); left; reflexivity). subst v.
    assert (Hc : existsb (Z.eqb (maxv + 1)) used = false).
    { destruct (existsb (Z.eqb (maxv + 1)) used) eqn:E; [|reflexivity].
      apply existsb_Z_In in E. apply Hmax in E. lia. }
    rewrite Hc. simpl.
    replace (maxv <? maxv + 1) with true by (symmetry; apply Z.ltb_lt; lia).
    apply IH.
    + intros it Hin. apply Hnone. right. exact Hin.
    + intros w Hu. apply in_app_or in Hu. destruct Hu as [Hu|[E|[]]]; [apply Hmax in Hu; lia | lia].
Qed.

Lemma enum_val_clash_complete_partial : forall items,
  all_valued items \/ none_valued items -> NoDup (explicit_values items) ->
  enum_val_clash items = false.
Proof.
  intros items [H|H] Hnd.
  - apply enum_vals_valued_complete; [exact H | exact Hnd | intros v _ []].
  - apply enum_vals_unvalued_complete; [exact H | intros v []].
Qed.

(* X.680 numbers e2 with 0 in ENUMERATED { e1(1), e2, e3(2) }; asn1c with 2 *)
Lemma enum_val_clash_complete_refuted :
  exists items, NoDup (explicit_values items) /\ NoDup (map fst items) /\ enum_val_clash items = true.
Proof.
  exists [(1%nat, Some 1); (2%nat, None); (3%nat, Some 2)]. split; [|split].
  - simpl. repeat constructor; simpl; intuition discriminate.
  - simpl. repeat constructor; simpl; intuition discriminate.
  - vm_compute. reflexivity.
Qed.

Lemma nth_error_app1_Some : forall (A : Type) (l l' : list A) i x,
  nth_error l i = Some x -> nth_error (l ++ l') i = Some x.
Proof.
  intros A l l' i x H. rewrite nth_error_app1; [exact H|].
  apply nth_error_Some. rewrite H. discriminate.
Qed.

(* ================================================================ tags of a node *)
Section Compare.
Variable m : module.

Definition ntags (k : nkind) : tagset :=
  fun x => match k with NExt => x = OExt | NTy tg t => first_tag m tg t x end.

Lemma auto_eq : forall r1 ext r2,
  auto_ok (m_tagging m) (root_of r1 r2) (adds_of ext) = sp_auto m r1 (adds_of ext) r2.
Proof.
  intros. unfold auto_ok, sp_auto, root_of. destruct (m_tagging m); try reflexivity.
  rewrite app_assoc. rewrite forallb_app.
  assert (E : forall l, negb (existsb has_tag l) = forallb (fun c => negb (has_tag c)) l).
  { induction l as [|c l IHl]; simpl; [reflexivity|]. rewrite negb_orb. rewrite IHl. reflexivity. }
  rewrite !E. reflexivity.
Qed.

Lemma comp_tag_sp : forall auto i c, comp_tag auto i c = sp_tag auto i c.
Proof. reflexivity. Qed.

Lemma mk_nodes_In : forall auto p l pos num v,
  In v (mk_nodes auto p pos num l) ->
  exists i c t, nth_error l i = Some (c, t) /\ n_kind v = NTy (comp_tag auto (num + i) c) t
                /\ n_opt v = is_opt c.
Proof.
  induction l as [|[c t] l IH]; intros pos num v H; simpl in H; [contradiction|].
  destruct H as [E|H].
  - exists O, c, t. subst v. simpl. rewrite Nat.add_0_r. auto.
  - apply IH in H. destruct H as [i [c' [t' [H1 [H2 H3]]]]].
    exists (S i), c', t'. simpl. rewrite Nat.add_succ_r. simpl in H2. auto.
Qed.

Lemma mk_nodes_nth : forall auto p l pos num i c t,
  nth_error l i = Some (c, t) ->
  exists v, In v (mk_nodes auto p pos num l) /\ n_kind v = NTy (comp_tag auto (num + i) c) t
            /\ n_opt v = is_opt c.
Proof.
  induction l as [|[c0 t0] l IH]; intros pos num i c t H; [destruct i; discriminate|].
  destruct i as [|i]; simpl in H.
  - inversion H; subst. eexists. split; [left; reflexivity|]. simpl. rewrite Nat.add_0_r. auto.
  - destruct (IH (S pos) (S num) i c t H) as [v [H1 [H2 H3]]].
    exists v. split; [right; exact H1|]. rewrite Nat.add_succ_r. auto.
Qed.

(* a member of an untagged CHOICE contributes its tags to the CHOICE *)
Lemma member_tags_in_choice : forall p r1 ext r2 v x,
  In v (members (m_tagging m) p r1 ext r2) -> ntags (n_kind v) x ->
  first_tag m None (TCons KChoice r1 ext r2) x.
Proof.
  intros p r1 ext r2 v x Hin Hx. unfold members in Hin.
  rewrite auto_eq in Hin.
  apply in_app_or in Hin. destruct Hin as [Hin|Hin].
  - apply mk_nodes_In in Hin. destruct Hin as [i [c [t [H1 [H2 _]]]]].
    rewrite H2 in Hx. simpl in Hx.
    eapply FT_alt with (i := i) (c := c) (t := t); [|exact Hx].
    unfold sp_comps. rewrite app_assoc. apply nth_error_app1_Some. exact H1.
  - destruct ext as [a|]; [|contradiction].
    destruct Hin as [E|Hin].
    + subst v. simpl in Hx. subst x. apply FT_future.
    + apply mk_nodes_In in Hin. destruct Hin as [i [c [t [H1 [H2 _]]]]].
      rewrite H2 in Hx. simpl in Hx.
      eapply FT_alt with (i := (length (root_of r1 r2) + i)%nat) (c := c) (t := t); [|exact Hx].
      unfold sp_comps, root_of. rewrite app_assoc. rewrite nth_error_app2 by lia.
      replace (length (r1 ++ r2) + i - length (r1 ++ r2))%nat with i by lia. exact H1.
Qed.

(* ---- asn1f_fetch_outmost_tag ---- *)
Lemma fetch_sound : forall fuel M p k t, fetch m fuel M p k = Some t -> ntags k t.
Proof.
  induction fuel as [|f IH]; intros M p k t H;
    (destruct k as [|tg t0]; [simpl in H; inversion H; reflexivity|]);
    (destruct tg as [[c n]|]; [simpl in H; inversion H; apply FT_tagged|]);
    destruct t0 as [pr|items|k0 r1 ext r2|e|r]; simpl in H;
    try (destruct pr; inversion H; apply FT_univ; reflexivity);
    try (destruct k0; inversion H; apply FT_univ; reflexivity);
    try (inversion H; apply FT_univ; reflexivity).
  - destruct (lookup m r); [|discriminate]. destruct (marked p M); discriminate.
  - destruct (lookup m r) as [d|] eqn:L; [|discriminate]. destruct (marked p M); [discriminate|].
    apply FT_ref with d; [exact L|]. apply (IH M [d_name d] _ t H).
Qed.

Lemma out_sound : forall M a t, out m M a = Some t -> ntags (n_kind a) t.
Proof. intros M a t H. unfold out in H. eapply fetch_sound. exact H. Qed.

(* with no marks set, a fetched tag is the only outermost tag *)
Lemma fetch_exact : forall fuel p k t, fetch m fuel [] p k = Some t -> forall x, ntags k x -> x = t.
Proof.
  induction fuel as [|f IH]; intros p k t H x Hx;
    (destruct k as [|tg t0]; [simpl in H, Hx; congruence|]);
    (destruct tg as [[c n]|]; [simpl in H, Hx; inversion Hx; subst; congruence|]);
    destruct t0 as [pr|items|k0 r1 ext r2|e|r]; simpl in H, Hx.
  - destruct pr; inversion Hx; subst; simpl in *; congruence.
  - inversion Hx; subst; simpl in *; congruence.
  - destruct k0; simpl in H; try discriminate; inversion Hx; subst; simpl in *; congruence.
  - inversion Hx; subst; simpl in *; congruence.
  - destruct (lookup m r); discriminate.
  - destruct pr; inversion Hx; subst; simpl in *; congruence.
  - inversion Hx; subst; simpl in *; congruence.
  - destruct k0; simpl in H; try discriminate; inversion Hx; subst; simpl in *; congruence.
  - inversion Hx; subst; simpl in *; congruence.
  - destruct (lookup m r) as [d|] eqn:L; [|discriminate]. simpl in H.
    inversion Hx; subst; [simpl in *; discriminate|].
    match goal with Hl : lookup m r = Some ?d' |- _ => rewrite L in Hl; inversion Hl; subst end.
    eapply IH; [exact H|]. simpl. assumption.
Qed.

Lemma out_exact : forall a t, out m [] a = Some t -> forall x, ntags (n_kind a) x -> x = t.
Proof. intros a t H. unfold out in H. eapply fetch_exact. exact H. Qed.

(* an expression whose fetch fails carries no tag of its own *)
Lemma out_none_untagged : forall M a tg t, n_kind a = NTy tg t -> out m M a = None -> tg = None.
Proof.
  intros M a tg t K H. unfold out in H. rewrite K in H.
  destruct tg as [[c n]|]; [|reflexivity]. unfold fetch_fuel in H. simpl in H. discriminate.
Qed.

Lemma ref_tags : forall M a r d x,
  out m M a = None -> is_ref a = Some r -> lookup m r = Some d ->
  ntags (n_kind (def_node d)) x -> ntags (n_kind a) x.
Proof.
  intros M a r d x Ra Hr L Hx. unfold is_ref in Hr.
  destruct (n_kind a) as [|tg t] eqn:K; [discriminate|].
  destruct t; try discriminate. inversion Hr; subst.
  rewrite (out_none_untagged M a tg _ K Ra). simpl. apply FT_ref with d; assumption.
Qed.

Lemma choice_tags : forall M a vs v x,
  out m M a = None -> choice_members m a = Some vs -> In v vs ->
  ntags (n_kind v) x -> ntags (n_kind a) x.
Proof.
  intros M a vs v x Ra Hc Hin Hx. unfold choice_members in Hc.
  destruct (n_kind a) as [|tg t] eqn:K; [discriminate|].
  destruct t as [| |k0 r1 ext r2| |]; try discriminate. destruct k0; try discriminate.
  inversion Hc; subst.
  rewrite (out_none_untagged M a tg _ K Ra). simpl.
  eapply member_tags_in_choice; eassumption.
Qed.

(* ---- _asn1f_compare_tags: one unfolding ---- *)
Lemma compare_S : forall f M a b,
  compare m (S f) M a b =
      let ra := out m M a in
      let rb := out m M b in
      match ra, rb with
      | Some ta, Some tb => Done (otag_eqb ta tb)
      | _, _ =>
          match ra, is_ref a with
          | None, Some r =>
              match lookup m r with
              | None => Done false
              | Some d => compare m f M (def_node d) b
              end
          | _, _ =>
              match ra, choice_members m a with
              | None, Some vs =>
                  (fix iter (l : list node) : res :=
                     match l with
                     | [] => Done false
                     | v :: l' =>
                         match compare m f M v b with
                         | Done false => iter l'
                         | r => r
                         end
                     end) vs
              | _, _ =>
                  match rb, choice_members m b with
                  | None, Some _ => compare m f M b a
                  | _, _ =>
                      if marked (n_path a) M || marked (n_path b) M then Done false
                      else compare m f (n_path a :: n_path b :: M) b a
                  end
              end
          end
      end.
Proof. reflexivity. Qed.

Lemma iter_true : forall (cmp : node -> res) vs,
  (fix iter (l : list node) : res :=
     match l with
     | [] => Done false
     | v :: l' => match cmp v with Done false => iter l' | r => r end
     end) vs = Done true ->
  exists v, In v vs /\ cmp v = Done true.
Proof.
  intros cmp. induction vs as [|v vs IH]; intro H; [discriminate|].
  destruct (cmp v) as [|[|]] eqn:E; try discriminate.
  - exists v. split; [left; reflexivity | exact E].
  - apply IH in H. destruct H as [w [H1 H2]]. exists w. split; [right; exact H1 | exact H2].
Qed.

Lemma iter_false : forall (cmp : node -> res) vs,
  (fix iter (l : list node) : res :=
     match l with
     | [] => Done false
     | v :: l' => match cmp v with Done false => iter l' | r => r end
     end) vs = Done false ->
  forall v, In v vs -> cmp v = Done false.
Proof.
  intros cmp. induction vs as [|v vs IH]; intros H w Hin; [contradiction|].
  destruct (cmp v) as [|[|]] eqn:E; try discriminate.
  destruct Hin as [E'|Hin]; [subst; exact E | apply IH; assumption].
Qed.

(* whatever marks are set: a reported clash is a real one *)
Lemma compare_true_common : forall fuel M a b,
  compare m fuel M a b = Done true -> exists x, ntags (n_kind a) x /\ ntags (n_kind b) x.
Proof.
  induction fuel as [|f IH]; intros M a b H; [discriminate H|].
  rewrite compare_S in H. cbv zeta in H.
  destruct (out m M a) as [ta|] eqn:Ra.
  - destruct (out m M b) as [tb|] eqn:Rb.
    + inversion H as [E]. apply otag_eqb_eq in E. subst tb.
      exists ta. split; eapply out_sound; eassumption.
    + destruct (choice_members m b) as [vs|] eqn:Cb.
      * apply IH in H. destruct H as [x [H1 H2]]. exists x. auto.
      * destruct (marked (n_path a) M || marked (n_path b) M); [discriminate|].
        apply IH in H. destruct H as [x [H1 H2]]. exists x. auto.
  - assert (Hrest :
      match is_ref a with
      | Some r => match lookup m r with None => Done false | Some d => compare m f M (def_node d) b end
      | None =>
          match choice_members m a with
          | Some vs =>
              (fix iter (l : list node) : res :=
                 match l with
                 | [] => Done false
                 | v :: l' => match compare m f M v b with Done false => iter l' | r => r end
                 end) vs
          | None =>
              match out m M b, choice_members m b with
              | None, Some _ => compare m f M b a
              | _, _ => if marked (n_path a) M || marked (n_path b) M then Done false
                        else compare m f (n_path a :: n_path b :: M) b a
              end
          end
      end = Done true).
    { destruct (out m M b); exact H. }
    clear H.
    destruct (is_ref a) as [r|] eqn:Hr.
    + destruct (lookup m r) as [d|] eqn:L; [|discriminate].
      apply IH in Hrest. destruct Hrest as [x [H1 H2]].
      exists x. split; [eapply ref_tags; eassumption | exact H2].
    + destruct (choice_members m a) as [vs|] eqn:Ca.
      * apply iter_true in Hrest. destruct Hrest as [v [Hin Hv]].
        apply IH in Hv. destruct Hv as [x [H1 H2]].
        exists x. split; [eapply choice_tags; eassumption | exact H2].
      * destruct (out m M b) as [tb|] eqn:Rb.
        -- destruct (marked (n_path a) M || marked (n_path b) M); [discriminate|].
           apply IH in Hrest. destruct Hrest as [x [H1 H2]]. exists x. auto.
        -- destruct (choice_members m b) as [vs|] eqn:Cb.
           ++ apply IH in Hrest. destruct Hrest as [x [H1 H2]]. exists x. auto.
           ++ destruct (marked (n_path a) M || marked (n_path b) M); [discriminate|].
              apply IH in Hrest. destruct Hrest as [x [H1 H2]]. exists x. auto.
Qed.

(* ---- the other direction, for comparisons started with no marks ---- *)
Lemma out_none_kind : forall M a, out m M a = None ->
  (exists r, n_kind a = NTy None (TRef r)) \/
  (exists r1 ext r2, n_kind a = NTy None (TCons KChoice r1 ext r2)).
Proof.
  intros M a H. unfold out, fetch_fuel in H.
  destruct (n_kind a) as [|tg t]; [simpl in H; discriminate|].
  destruct tg as [[c n]|]; [simpl in H; discriminate|].
  destruct t as [pr|items|k0 r1 ext r2|e|r]; simpl in H.
  - destruct pr; discriminate.
  - discriminate.
  - destruct k0; try discriminate. right. eauto.
  - discriminate.
  - left. eauto.
Qed.

Lemma marked_nil : forall p, marked p [] = false.
Proof. reflexivity. Qed.

Lemma choice_member_of_tag : forall p r1 ext r2 x,
  first_tag m None (TCons KChoice r1 ext r2) x ->
  exists v, In v (members (m_tagging m) p r1 ext r2) /\ ntags (n_kind v) x.
Proof.
  intros p r1 ext r2 x H. inversion H; subst.
  - simpl in *. discriminate.
  - (* FT_alt *)
    match goal with Hn : nth_error (sp_comps r1 ext r2) ?i = Some (?c, ?t) |- _ =>
      rename Hn into Hnth; rename i into i0; rename c into c0; rename t into t0 end.
    unfold members. rewrite auto_eq.
    unfold sp_comps in Hnth. rewrite app_assoc in Hnth.
    destruct (Nat.lt_ge_cases i0 (length (r1 ++ r2))) as [Hlt|Hge].
    + rewrite nth_error_app1 in Hnth by exact Hlt.
      destruct (mk_nodes_nth (sp_auto m r1 (adds_of ext) r2) p (root_of r1 r2) 0 0 i0 c0 t0 Hnth) as [v [H1 [H2 _]]].
      exists v. split; [apply in_or_app; left; exact H1|].
      rewrite H2. simpl. assumption.
    + rewrite nth_error_app2 in Hnth by exact Hge.
      destruct ext as [a|]; [|destruct (i0 - length (r1 ++ r2))%nat; discriminate].
      simpl in Hnth.
      destruct (mk_nodes_nth (sp_auto m r1 a r2) p a (S (length (root_of r1 r2))) (length (root_of r1 r2))
                             (i0 - length (r1 ++ r2)) c0 t0 Hnth) as [v [H1 [H2 _]]].
      exists v. split; [apply in_or_app; right; right; exact H1|].
      rewrite H2. simpl. unfold root_of.
      replace (length (r1 ++ r2) + (i0 - length (r1 ++ r2)))%nat with i0 by lia. assumption.
  - (* FT_future *)
    unfold members. eexists. split; [apply in_or_app; right; left; reflexivity|]. reflexivity.
Qed.

(* b's side never needs the swap-with-marks step when an untagged reference
   whose fetch fails has no tags at all (dangling, circular or empty) *)
Definition transparent (b : node) : Prop :=
  forall r, n_kind b = NTy None (TRef r) -> out m [] b = None ->
            forall x, ~ first_tag m None (TRef r) x.

Lemma compare_false_disjoint : forall fuel a b,
  transparent b -> compare m fuel [] a b = Done false ->
  disjoint (ntags (n_kind a)) (ntags (n_kind b)).
Proof.
  induction fuel as [|f IH]; intros a b Tb H; [discriminate H|].
  rewrite compare_S in H. cbv zeta in H.
  destruct (out m [] a) as [ta|] eqn:Ra.
  - destruct (out m [] b) as [tb|] eqn:Rb.
    + inversion H as [E]. apply otag_eqb_neq in E.
      intros x Ha Hb. apply (out_exact a ta Ra) in Ha. apply (out_exact b tb Rb) in Hb. congruence.
    + destruct (choice_members m b) as [vs|] eqn:Cb.
      * assert (Ta : transparent a) by (intros r _ C; congruence).
        specialize (IH b a Ta H). intros x Ha Hb. exact (IH x Hb Ha).
      * (* b is an untagged reference without tags *)
        destruct (out_none_kind [] b Rb) as [[r K]|[r1 [ext [r2 K]]]].
        -- intros x _ Hb. rewrite K in Hb. simpl in Hb. exact (Tb r K Rb x Hb).
        -- unfold choice_members in Cb. rewrite K in Cb. discriminate.
  - assert (Hrest :
      match is_ref a with
      | Some r => match lookup m r with None => Done false | Some d => compare m f [] (def_node d) b end
      | None =>
          match choice_members m a with
          | Some vs =>
              (fix iter (l : list node) : res :=
                 match l with
                 | [] => Done false
                 | v :: l' => match compare m f [] v b with Done false => iter l' | r => r end
                 end) vs
          | None =>
              match out m [] b, choice_members m b with
              | None, Some _ => compare m f [] b a
              | _, _ => if marked (n_path a) [] || marked (n_path b) [] then Done false
                        else compare m f [n_path a; n_path b] b a
              end
          end
      end = Done false).
    { destruct (out m [] b); exact H. }
    clear H.
    destruct (out_none_kind [] a Ra) as [[r K]|[r1 [ext [r2 K]]]].
    + assert (Hr : is_ref a = Some r) by (unfold is_ref; rewrite K; reflexivity).
      rewrite Hr in Hrest. rewrite K. simpl.
      destruct (lookup m r) as [d|] eqn:L.
      * specialize (IH (def_node d) b Tb Hrest).
        intros x Ha Hb. inversion Ha; subst; [simpl in *; discriminate|].
        match goal with Hl : lookup m r = Some ?d' |- _ => rewrite L in Hl; inversion Hl; subst end.
        apply (IH x); [simpl; assumption | exact Hb].
      * intros x Ha _. inversion Ha; subst; [simpl in *; discriminate|]. congruence.
    + assert (Hr : is_ref a = None) by (unfold is_ref; rewrite K; reflexivity).
      assert (Hc : choice_members m a = Some (members (m_tagging m) (n_path a) r1 ext r2))
        by (unfold choice_members; rewrite K; reflexivity).
      rewrite Hr, Hc in Hrest. rewrite K. simpl.
      intros x Ha Hb.
      destruct (choice_member_of_tag (n_path a) r1 ext r2 x Ha) as [v [Hin Hv]].
      pose proof (iter_false _ _ Hrest v Hin) as Hcv.
      exact (IH v b Tb Hcv x Hv Hb).
Qed.
End Compare.

(* ================================================================ the pair loops *)
Section Loops.
Variable m : module.
Variable fuel : nat.

Lemma res_or_false_l : forall r, res_or (Done false) r = r.
Proof. destruct r as [|b]; reflexivity. Qed.
Lemma res_or_false_r : forall r, res_or r (Done false) = r.
Proof. destruct r as [|b]; simpl; [reflexivity | rewrite orb_false_r; reflexivity]. Qed.
Lemma res_or_assoc : forall a b c, res_or a (res_or b c) = res_or (res_or a b) c.
Proof. destruct a as [|x], b as [|y], c as [|z]; simpl; try reflexivity. rewrite orb_assoc. reflexivity. Qed.
Lemma res_or_Done_false : forall a b, res_or a b = Done false -> a = Done false /\ b = Done false.
Proof.
  destruct a as [|x], b as [|y]; simpl; intro H; try discriminate.
  inversion H as [E]. apply orb_false_iff in E. destruct E; subst. auto.
Qed.
Lemma res_or_Done_true : forall a b, res_or a b = Done true -> a = Done true \/ b = Done true.
Proof.
  destruct a as [|x], b as [|y]; simpl; intro H; try discriminate.
  inversion H as [E]. apply orb_true_iff in E. destruct E; subst; auto.
Qed.

Definition all_opt (l : list node) : Prop := Forall (fun u => n_opt u = true) l.

(* the pairs the inner loop compares v with: in a SEQUENCE, up to and
   including the first member that is not OPTIONAL/DEFAULT *)
Definition reach (is_seq : bool) (rest : list node) (nv : node) : Prop :=
  exists pre post, rest = pre ++ nv :: post /\ (is_seq = true -> all_opt pre).

Lemma scan_from_false : forall is_seq v rest,
  scan_from m fuel is_seq v rest = Done false ->
  forall nv, reach is_seq rest nv -> compare m fuel [] v nv = Done false.
Proof.
  intros is_seq v. induction rest as [|u rest IH]; intros H nv [pre [post [E Hopt]]].
  - destruct pre; discriminate.
  - simpl in H. destruct pre as [|w pre]; simpl in E; inversion E; subst.
    + destruct (is_seq && negb (n_opt nv)); [exact H|].
      apply res_or_Done_false in H. tauto.
    + destruct (is_seq && negb (n_opt w)) eqn:Stop.
      * apply andb_true_iff in Stop. destruct Stop as [S1 S2].
        specialize (Hopt S1). inversion Hopt; subst.
        rewrite H2 in S2. discriminate.
      * apply res_or_Done_false in H. destruct H as [_ H].
        apply IH; [exact H|]. exists pre, post. split; [reflexivity|].
        intro S1. specialize (Hopt S1). inversion Hopt; assumption.
Qed.

Lemma scan_from_true : forall is_seq v rest,
  scan_from m fuel is_seq v rest = Done true ->
  exists nv, reach is_seq rest nv /\ compare m fuel [] v nv = Done true.
Proof.
  intros is_seq v. induction rest as [|u rest IH]; intro H; [discriminate|].
  simpl in H.
  assert (Hu : reach is_seq (u :: rest) u).
  { exists [], rest. split; [reflexivity | intros _; constructor]. }
  destruct (is_seq && negb (n_opt u)) eqn:Stop.
  - exists u. auto.
  - apply res_or_Done_true in H. destruct H as [H|H]; [exists u; auto|].
    apply IH in H. destruct H as [nv [[pre [post [E Hopt]]] Hc]].
    exists nv. split; [|exact Hc].
    exists (u :: pre), post. split; [simpl; rewrite E; reflexivity|].
    intro S1. constructor; [|exact (Hopt S1)].
    rewrite S1 in Stop. simpl in Stop. destruct (n_opt u); [reflexivity | discriminate].
Qed.

(* the pairs the outer loop visits *)
Definition run_pair (is_seq : bool) (l : list node) (v nv : node) : Prop :=
  exists l1 rest, l = l1 ++ v :: rest /\ (is_seq = true -> n_opt v = true) /\ reach is_seq rest nv.

Lemma scan_all_false : forall is_seq l,
  scan_all m fuel is_seq l = Done false ->
  forall v nv, run_pair is_seq l v nv -> compare m fuel [] v nv = Done false.
Proof.
  intros is_seq. induction l as [|u l IH]; intros H v nv [l1 [rest [E [Hv Hr]]]].
  - destruct l1; discriminate.
  - simpl in H. apply res_or_Done_false in H. destruct H as [H1 H2].
    destruct l1 as [|w l1]; simpl in E; inversion E; subst.
    + assert (C : negb is_seq || n_opt v = true).
      { destruct is_seq; simpl; [apply Hv; reflexivity | reflexivity]. }
      rewrite C in H1. eapply scan_from_false; eassumption.
    + apply IH; [exact H2|]. exists l1, rest. auto.
Qed.

Lemma scan_all_true : forall is_seq l,
  scan_all m fuel is_seq l = Done true ->
  exists v nv, run_pair is_seq l v nv /\ compare m fuel [] v nv = Done true.
Proof.
  intros is_seq. induction l as [|u l IH]; intro H; [discriminate|].
  simpl in H. apply res_or_Done_true in H. destruct H as [H|H].
  - destruct (negb is_seq || n_opt u) eqn:C; [|discriminate].
    apply scan_from_true in H. destruct H as [nv [Hr Hc]].
    exists u, nv. split; [|exact Hc].
    exists [], l. split; [reflexivity|]. split; [|exact Hr].
    intro S1. rewrite S1 in C. simpl in C. exact C.
  - apply IH in H. destruct H as [v [nv [[l1 [rest [E [Hv Hr]]]] Hc]]].
    exists v, nv. split; [|exact Hc].
    exists (u :: l1), rest. split; [simpl; rewrite E; reflexivity | auto].
Qed.

(* a SEQUENCE scan never runs across a member that is not OPTIONAL/DEFAULT:
   the "..." marker separates the root from the additions *)
Lemma scan_from_stop : forall v A s B, n_opt s = false ->
  scan_from m fuel true v (A ++ s :: B) = scan_from m fuel true v (A ++ [s]).
Proof.
  intros v A s B Hs. induction A as [|u A IH]; simpl.
  - rewrite Hs. reflexivity.
  - destruct (negb (n_opt u)); [reflexivity|]. rewrite IH. reflexivity.
Qed.

Lemma scan_all_split : forall A s B, n_opt s = false ->
  scan_all m fuel true (A ++ s :: B) = res_or (scan_all m fuel true (A ++ [s])) (scan_all m fuel true B).
Proof.
  intros A s B Hs. induction A as [|u A IH]; simpl.
  - rewrite Hs. rewrite !res_or_false_l. reflexivity.
  - rewrite IH. rewrite (scan_from_stop u A s B Hs). rewrite res_or_assoc. reflexivity.
Qed.
End Loops.

(* ================================================================ nodes vs. spec entries *)
Section Bridge.
Variable m : module.

Definition corr (v : node) (e : entry) : Prop :=
  n_opt v = fst e /\ forall x, ntags m (n_kind v) x <-> snd e x.

Lemma mk_nodes_entries : forall auto p l pos num,
  Forall2 corr (mk_nodes auto p pos num l) (entries m auto num l).
Proof.
  induction l as [|[c t] l IH]; intros pos num; simpl; constructor.
  - split; [reflexivity|]. intro x. simpl. unfold comp_tag, sp_tag. tauto.
  - apply IH.
Qed.

Lemma marker_corr : forall p, corr {| n_path := p; n_opt := false; n_kind := NExt |} marker_entry.
Proof. intro p. split; [reflexivity|]. intro x. simpl. tauto. Qed.

(* generic reading of both "pairwise" and "runs" on a list of entries *)
Definition pairs_ok (is_seq : bool) (E : list entry) : Prop :=
  forall E1 a pre b post, E = E1 ++ a :: pre ++ b :: post ->
    (is_seq = true -> fst a = true /\ Forall (fun e => fst e = true) pre) ->
    disjoint (snd a) (snd b).

Lemma runs_ok_pairs : forall E, runs_ok E <-> pairs_ok true E.
Proof.
  intro E. unfold runs_ok, pairs_ok. split; intros H E1 a pre b post Eq.
  - intro C. destruct (C eq_refl) as [C1 C2]. eapply H; eassumption.
  - intros C1 C2. eapply H; [exact Eq|]. intros _. auto.
Qed.

Lemma pairwise_pairs : forall E, pairwise_disjoint E <-> pairs_ok false E.
Proof.
  intro E. unfold pairwise_disjoint, pairs_ok. split.
  - intro H. induction H as [|x l Hx Hl IH]; intros E1 a pre b post Eq _.
    + destruct E1; discriminate.
    + destruct E1 as [|y E1]; simpl in Eq; inversion Eq; subst.
      * rewrite Forall_forall in Hx. apply Hx. apply in_or_app. right. left. reflexivity.
      * eapply IH; [reflexivity | intro; discriminate].
  - induction E as [|x l IH]; intro H; constructor.
    + apply Forall_forall. intros b Hin. apply in_split in Hin. destruct Hin as [pre [post Eq]].
      apply (H [] x pre b post); [simpl; rewrite Eq; reflexivity | intro; discriminate].
    + apply IH. intros E1 a pre b post Eq C.
      apply (H (x :: E1) a pre b post); [simpl; rewrite Eq; reflexivity | exact C].
Qed.

Lemma corr_all_opt : forall L E, Forall2 corr L E ->
  (all_opt L <-> Forall (fun e => fst e = true) E).
Proof.
  intros L E H. induction H as [|v e L E [Hc _] _ IH]; split; intro A; try constructor;
    inversion A; subst; try (apply IH; assumption); congruence.
Qed.

Lemma bridge_sound : forall is_seq L E, Forall2 corr L E ->
  (forall v nv, run_pair is_seq L v nv -> disjoint (ntags m (n_kind v)) (ntags m (n_kind nv))) ->
  pairs_ok is_seq E.
Proof.
  intros is_seq L E F H E1 a pre b post Eq C. subst E.
  apply Forall2_app_inv_r in F. destruct F as [L1 [L' [F1 [F' EqL]]]].
  inversion F' as [|v a' Lr Er Cva Fr]; subst.
  apply Forall2_app_inv_r in Fr. destruct Fr as [Lpre [L'' [Fpre [F'' EqR]]]].
  inversion F'' as [|nv b' Lpost Epost Cnb Fpost]; subst.
  assert (R : run_pair is_seq (L1 ++ v :: Lpre ++ nv :: Lpost) v nv).
  { exists L1, (Lpre ++ nv :: Lpost). split; [reflexivity|]. split.
    - intro S. destruct (C S) as [C1 _]. destruct Cva as [O _]. congruence.
    - exists Lpre, Lpost. split; [reflexivity|]. intro S. destruct (C S) as [_ C2].
      apply (corr_all_opt _ _ Fpre). exact C2. }
  specialize (H v nv R). intros x Ha Hb.
  destruct Cva as [_ Ia]. destruct Cnb as [_ Ib].
  apply (H x); [apply Ia; exact Ha | apply Ib; exact Hb].
Qed.

Lemma bridge_complete : forall is_seq L E, Forall2 corr L E -> pairs_ok is_seq E ->
  forall v nv, run_pair is_seq L v nv -> disjoint (ntags m (n_kind v)) (ntags m (n_kind nv)).
Proof.
  intros is_seq L E F H v nv [L1 [rest [EqL [Ov [Lpre [Lpost [EqR Opre]]]]]]]. subst L rest.
  apply Forall2_app_inv_l in F. destruct F as [E1 [E' [F1 [F' EqE]]]].
  inversion F' as [|v' a Lr Er Cva Fr]; subst.
  apply Forall2_app_inv_l in Fr. destruct Fr as [Epre [E'' [Fpre [F'' EqR]]]].
  inversion F'' as [|nv' b Lp Epost Cnb Fpost]; subst.
  assert (D : disjoint (snd a) (snd b)).
  { eapply H; [reflexivity|]. intro S. split.
    - destruct Cva as [O _]. rewrite <- O. apply Ov. exact S.
    - apply (corr_all_opt _ _ Fpre). apply Opre. exact S. }
  intros x Ha Hb. destruct Cva as [_ Ia]. destruct Cnb as [_ Ib].
  apply (D x); [apply Ia; exact Ha | apply Ib; exact Hb].
Qed.

(* the member list of the model against the entries of the specification *)
Lemma members_entries : forall p r1 ext r2,
  let auto := sp_auto m r1 (adds_of ext) r2 in
  Forall2 corr (members (m_tagging m) p r1 ext r2)
    (entries m auto 0 (r1 ++ r2) ++
     match ext with Some _ => [marker_entry] | None => [] end ++
     entries m auto (length (r1 ++ r2)) (adds_of ext)).
Proof.
  intros p r1 ext r2 auto. unfold members. rewrite auto_eq. fold auto. unfold root_of.
  apply Forall2_app; [apply mk_nodes_entries|].
  destruct ext as [a|]; simpl.
  - constructor; [apply marker_corr | apply mk_nodes_entries].
  - constructor.
Qed.
End Bridge.

(* ================================================================ one constructed type *)
Section Node.
Variable m : module.

Lemma fetch_path_indep : forall fuel p p' k, fetch m fuel [] p k = fetch m fuel [] p' k.
Proof.
  destruct fuel as [|f]; intros p p' k; destruct k as [|[[c n]|] t]; try reflexivity;
    destruct t; reflexivity.
Qed.

(* reference r, used untagged as a component type, is harmless for the C's
   argument swap: either its outermost tag can be fetched, or it has no tags *)
Definition ref_transparent (r : nat) : Prop :=
  fetch m (fetch_fuel m) [] [] (NTy None (TRef r)) = None -> forall x, ~ first_tag m None (TRef r) x.

Definition comps_transparent (comps : list (cinfo * ty)) : Prop :=
  forall c r, In (c, TRef r) comps -> ref_transparent r.

Lemma mk_nodes_transparent : forall auto p l pos num v,
  comps_transparent l -> In v (mk_nodes auto p pos num l) -> transparent m v.
Proof.
  intros auto p l pos num v Hc Hin r K Ro.
  apply mk_nodes_In in Hin. destruct Hin as [i [c [t [H1 [H2 _]]]]].
  rewrite K in H2. inversion H2; subst.
  apply nth_error_In in H1. apply (Hc c r H1).
  unfold out in Ro. rewrite K in Ro. rewrite <- Ro. apply fetch_path_indep.
Qed.

Lemma members_transparent : forall p r1 ext r2 v,
  comps_transparent (r1 ++ r2 ++ adds_of ext) ->
  In v (members (m_tagging m) p r1 ext r2) -> transparent m v.
Proof.
  intros p r1 ext r2 v Hc Hin. unfold members in Hin.
  apply in_app_or in Hin. destruct Hin as [Hin|Hin].
  - eapply mk_nodes_transparent; [|exact Hin].
    intros c r H. apply (Hc c r). unfold root_of in H. rewrite app_assoc. apply in_or_app. left. exact H.
  - destruct ext as [a|]; [|contradiction]. destruct Hin as [E|Hin].
    + subst v. intros r K. discriminate.
    + eapply mk_nodes_transparent; [|exact Hin].
      intros c r H. apply (Hc c r). simpl. apply in_or_app. right. apply in_or_app. right. exact H.
Qed.

Lemma run_pair_In : forall is_seq l v nv, run_pair is_seq l v nv -> In v l /\ In nv l.
Proof.
  intros is_seq l v nv [l1 [rest [E [_ [pre [post [E2 _]]]]]]]. subst. split.
  - apply in_or_app. right. left. reflexivity.
  - apply in_or_app. right. right. apply in_or_app. right. left. reflexivity.
Qed.

Definition tags_clause (k : kind) (r1 : list (cinfo * ty)) (ext : option (list (cinfo * ty))) (r2 : list (cinfo * ty)) : Prop :=
  let adds := adds_of ext in
  let auto := sp_auto m r1 adds r2 in
  let root_e := entries m auto 0 (r1 ++ r2) in
  let adds_e := entries m auto (length (r1 ++ r2)) adds in
  let mk := match ext with Some _ => [marker_entry] | None => [] end in
  match k with
  | KSeq => runs_ok (root_e ++ mk) /\ runs_ok adds_e
  | _ => pairwise_disjoint (root_e ++ mk ++ adds_e)
  end.

Definition seq_flag (k : kind) : bool := match k with KSeq => true | _ => false end.

Lemma pairs_ok_nil : forall is_seq, pairs_ok is_seq [].
Proof. intros is_seq E1 a pre b post Eq. destruct E1; discriminate. Qed.

(* the pair loop finds nothing  =>  the type's tags are distinct as specified *)
Lemma cons_tags_sound : forall fuel p k r1 ext r2,
  comps_transparent (r1 ++ r2 ++ adds_of ext) ->
  scan_all m fuel (seq_flag k) (members (m_tagging m) p r1 ext r2) = Done false ->
  tags_clause k r1 ext r2.
Proof.
  intros fuel p k r1 ext r2 Hc H.
  assert (Dis : forall is_seq L, (forall v, In v L -> transparent m v) ->
            scan_all m fuel is_seq L = Done false ->
            forall v nv, run_pair is_seq L v nv -> disjoint (ntags m (n_kind v)) (ntags m (n_kind nv))).
  { intros is_seq L TL HL v nv R. pose proof (run_pair_In _ _ _ _ R) as [_ Inv].
    eapply compare_false_disjoint; [apply TL; exact Inv|].
    eapply scan_all_false; eassumption. }
  assert (TM : forall v, In v (members (m_tagging m) p r1 ext r2) -> transparent m v)
    by (intros v Hin; eapply members_transparent; eassumption).
  pose proof (members_entries m p r1 ext r2) as F. cbv zeta in F.
  unfold tags_clause. cbv zeta.
  destruct k; simpl seq_flag in H.
  - (* SEQUENCE *)
    unfold members in *. rewrite auto_eq in *. unfold root_of in *.
    destruct ext as [a|]; simpl adds_of in *.
    + rewrite scan_all_split in H by reflexivity.
      apply res_or_Done_false in H. destruct H as [HA HB].
      split; apply runs_ok_pairs.
      * eapply bridge_sound;
          [apply Forall2_app; [apply mk_nodes_entries | constructor; [apply marker_corr | constructor]]|].
        apply Dis; [|exact HA].
        intros v Hin. apply TM. apply in_app_or in Hin. apply in_or_app.
        destruct Hin as [Hin|[E|[]]]; [left; exact Hin | right; left; exact E].
      * eapply bridge_sound; [apply mk_nodes_entries|].
        apply Dis; [|exact HB].
        intros v Hin. apply TM. apply in_or_app. right. right. exact Hin.
    + simpl in F. rewrite !app_nil_r in *.
      split; apply runs_ok_pairs.
      * eapply bridge_sound; [exact F|].
        apply Dis; [exact TM | exact H].
      * apply pairs_ok_nil.
  - apply pairwise_pairs. eapply bridge_sound; [exact F|]. apply Dis; [exact TM | exact H].
  - apply pairwise_pairs. eapply bridge_sound; [exact F|]. apply Dis; [exact TM | exact H].
Qed.

(* the type's tags are distinct as specified  =>  the pair loop reports no clash *)
Lemma cons_tags_complete : forall fuel p k r1 ext r2,
  tags_clause k r1 ext r2 ->
  scan_all m fuel (seq_flag k) (members (m_tagging m) p r1 ext r2) <> Done true.
Proof.
  intros fuel p k r1 ext r2 Hs H.
  assert (Con : forall is_seq L E, Forall2 (corr m) L E -> pairs_ok is_seq E ->
            scan_all m fuel is_seq L = Done true -> False).
  { intros is_seq L E F P HL. apply scan_all_true in HL. destruct HL as [v [nv [R Hc]]].
    apply compare_true_common in Hc. destruct Hc as [x [Ha Hb]].
    exact (bridge_complete m is_seq L E F P v nv R x Ha Hb). }
  pose proof (members_entries m p r1 ext r2) as F. cbv zeta in F.
  unfold tags_clause in Hs. cbv zeta in Hs.
  destruct k; simpl seq_flag in H.
  - destruct Hs as [HsA HsB]. apply runs_ok_pairs in HsA. apply runs_ok_pairs in HsB.
    unfold members in *. rewrite auto_eq in *. unfold root_of in *.
    destruct ext as [a|]; simpl adds_of in *.
    + rewrite scan_all_split in H by reflexivity.
      apply res_or_Done_true in H. destruct H as [H|H].
      * eapply Con; [|exact HsA|exact H].
        apply Forall2_app; [apply mk_nodes_entries | constructor; [apply marker_corr | constructor]].
      * eapply Con; [apply mk_nodes_entries | exact HsB | exact H].
    + simpl in F. rewrite !app_nil_r in *. eapply Con; [exact F|exact HsA|exact H].
  - apply pairwise_pairs in Hs. eapply Con; eassumption.
  - apply pairwise_pairs in Hs. eapply Con; eassumption.
Qed.
End Node.

(* ================================================================ induction on types *)
Definition opt_all (Q : list (cinfo * ty) -> Prop) (ext : option (list (cinfo * ty))) : Prop :=
  match ext with Some a => Q a | None => True end.

Section TyInd.
Variable P : ty -> Prop.
Hypothesis HPrim : forall p, P (TPrim p).
Hypothesis HEnum : forall items, P (TEnum items).
Hypothesis HCons : forall k r1 ext r2,
  Forall (fun c => P (snd c)) r1 ->
  opt_all (Forall (fun c => P (snd c))) ext ->
  Forall (fun c => P (snd c)) r2 -> P (TCons k r1 ext r2).
Hypothesis HSeqOf : forall e, P e -> P (TSeqOf e).
Hypothesis HRef : forall r, P (TRef r).

Fixpoint ty_ind' (t : ty) : P t :=
  match t with
  | TPrim p => HPrim p
  | TEnum items => HEnum items
  | TCons k r1 ext r2 =>
      let go := fix go (l : list (cinfo * ty)) : Forall (fun c => P (snd c)) l :=
        match l with
        | [] => Forall_nil _
        | (c, t') :: l' => Forall_cons (c, t') (ty_ind' t') (go l')
        end in
      HCons k r1 ext r2 (go r1)
        (match ext as e return opt_all (Forall (fun c => P (snd c))) e with
         | Some a => go a
         | None => I
         end) (go r2)
  | TSeqOf e => HSeqOf e (ty_ind' e)
  | TRef r => HRef r
  end.
End TyInd.

(* ================================================================ the whole module *)
Section Module.
Variable m : module.

Lemma nres_app_ok : forall a b, nres_app a b = NOk [] -> a = NOk [] /\ b = NOk [].
Proof.
  destruct a as [|x], b as [|y]; simpl; intro H; try discriminate.
  inversion H as [E]. apply app_eq_nil in E. destruct E; subst. auto.
Qed.

Definition quiet (r : nres) : Prop := r = NOk [] \/ r = NCrash.
Lemma nres_app_quiet : forall a b, quiet a -> quiet b -> quiet (nres_app a b).
Proof.
  intros a b [Ha|Ha] [Hb|Hb]; subst; simpl; unfold quiet; auto.
Qed.

Fixpoint sub_go (l : list (cinfo * ty)) : list ty :=
  match l with [] => [] | (_, t') :: l' => subtypes t' ++ sub_go l' end.

Lemma subtypes_cons : forall k r1 ext r2,
  subtypes (TCons k r1 ext r2) =
  TCons k r1 ext r2 :: sub_go r1 ++ sub_go r2 ++ match ext with Some a => sub_go a | None => [] end.
Proof. reflexivity. Qed.

Lemma sub_go_In : forall l t', In t' (sub_go l) -> exists c t, In (c, t) l /\ In t' (subtypes t).
Proof.
  induction l as [|[c t] l IH]; intros t' H; simpl in H; [contradiction|].
  apply in_app_or in H. destruct H as [H|H].
  - exists c, t. split; [left; reflexivity | exact H].
  - apply IH in H. destruct H as [c' [t'' [H1 H2]]]. exists c', t''. split; [right; exact H1 | exact H2].
Qed.

Definition go_check (fuel : nat) (p : path) :=
  fix go (pos : nat) (l : list (cinfo * ty)) : nres :=
    match l with
    | [] => NOk []
    | (c, t') :: l' => nres_app (check_ty m fuel (p ++ [pos]) t') (go (S pos) l')
    end.

Lemma check_ty_cons : forall fuel p k r1 ext r2,
  check_ty m fuel p (TCons k r1 ext r2) =
  nres_app (check_node m fuel p (TCons k r1 ext r2))
    (nres_app (go_check fuel p 0 r1)
       (nres_app (go_check fuel p (length r1) r2)
          match ext with Some a => go_check fuel p (S (length (root_of r1 r2))) a | None => NOk [] end)).
Proof. reflexivity. Qed.

Lemma go_check_ok : forall fuel p l pos, go_check fuel p pos l = NOk [] ->
  forall c t, In (c, t) l -> exists p', check_ty m fuel p' t = NOk [].
Proof.
  induction l as [|[c0 t0] l IH]; intros pos H c t Hin; [contradiction|].
  simpl in H. apply nres_app_ok in H. destruct H as [H1 H2].
  destruct Hin as [E|Hin].
  - inversion E; subst. eauto.
  - eapply IH; eassumption.
Qed.

Lemma go_check_quiet : forall fuel p l pos,
  (forall c t, In (c, t) l -> forall p', quiet (check_ty m fuel p' t)) ->
  quiet (go_check fuel p pos l).
Proof.
  induction l as [|[c0 t0] l IH]; intros pos H; simpl; [left; reflexivity|].
  apply nres_app_quiet.
  - apply (H c0 t0). left. reflexivity.
  - apply IH. intros c t Hin. apply (H c t). right. exact Hin.
Qed.

(* every expression of an accepted type passed its own checks *)
Lemma check_ty_ok : forall fuel t p, check_ty m fuel p t = NOk [] ->
  forall t', In t' (subtypes t) -> exists p', check_node m fuel p' t' = NOk [].
Proof.
  intro fuel. induction t as [pr|items|k r1 ext r2 IH1 IHe IH2|e IHe|r] using ty_ind'; intros p H t' Hin.
  - destruct Hin as [E|[]]. subst. exists p. reflexivity.
  - destruct Hin as [E|[]]. subst. exists p.
    change (nres_app (check_node m fuel p (TEnum items)) (NOk []) = NOk []) in H.
    apply nres_app_ok in H. tauto.
  - rewrite check_ty_cons in H. rewrite subtypes_cons in Hin.
    apply nres_app_ok in H. destruct H as [Hn H]. apply nres_app_ok in H. destruct H as [G1 H].
    apply nres_app_ok in H. destruct H as [G2 Ge].
    destruct Hin as [E|Hin]; [subst; eauto|].
    assert (Sub : forall l pos, Forall (fun c => forall p, check_ty m fuel p (snd c) = NOk [] ->
                     forall t', In t' (subtypes (snd c)) -> exists p', check_node m fuel p' t' = NOk []) l ->
                   go_check fuel p pos l = NOk [] -> In t' (sub_go l) -> exists p', check_node m fuel p' t' = NOk []).
    { intros l pos Fl Gl Hl. apply sub_go_In in Hl. destruct Hl as [c [t [Hc Ht]]].
      destruct (go_check_ok fuel p l pos Gl c t Hc) as [p' Hp'].
      rewrite Forall_forall in Fl. exact (Fl (c, t) Hc p' Hp' t' Ht). }
    apply in_app_or in Hin. destruct Hin as [Hin|Hin]; [exact (Sub r1 _ IH1 G1 Hin)|].
    apply in_app_or in Hin. destruct Hin as [Hin|Hin]; [exact (Sub r2 _ IH2 G2 Hin)|].
    destruct ext as [a|]; [exact (Sub a _ IHe Ge Hin) | contradiction].
  - change (nres_app (check_node m fuel p (TSeqOf e)) (check_ty m fuel (p ++ [0%nat]) e) = NOk []) in H.
    apply nres_app_ok in H. destruct H as [Hn H].
    simpl in Hin. destruct Hin as [E|Hin]; [subst; exists p; exact Hn|].
    eapply IHe; eassumption.
  - destruct Hin as [E|[]]. subst. exists p.
    change (nres_app (check_node m fuel p (TRef r)) (NOk []) = NOk []) in H.
    apply nres_app_ok in H. tauto.
Qed.

Lemma check_ty_quiet : forall fuel t,
  (forall t', In t' (subtypes t) -> forall p', quiet (check_node m fuel p' t')) ->
  forall p, quiet (check_ty m fuel p t).
Proof.
  intro fuel. induction t as [pr|items|k r1 ext r2 IH1 IHe IH2|e IHe|r] using ty_ind'; intros H p.
  - left. reflexivity.
  - change (quiet (nres_app (check_node m fuel p (TEnum items)) (NOk []))).
    apply nres_app_quiet; [apply H; left; reflexivity | left; reflexivity].
  - rewrite check_ty_cons. rewrite subtypes_cons in H.
    assert (Sub : forall l pos, Forall (fun c => (forall t', In t' (subtypes (snd c)) -> forall p', quiet (check_node m fuel p' t')) ->
                     forall p, quiet (check_ty m fuel p (snd c))) l ->
                   (forall t', In t' (sub_go l) -> forall p', quiet (check_node m fuel p' t')) ->
                   quiet (go_check fuel p pos l)).
    { intros l pos Fl Hl. apply go_check_quiet. intros c t Hc p'.
      rewrite Forall_forall in Fl. apply (Fl (c, t) Hc).
      intros t' Ht'. apply Hl. clear - Hc Ht'.
      induction l as [|[c0 t0] l IHl]; [contradiction|]. simpl. apply in_or_app.
      destruct Hc as [E|Hc]; [inversion E; subst; left; exact Ht' | right; apply IHl; exact Hc]. }
    apply nres_app_quiet; [apply H; left; reflexivity|].
    apply nres_app_quiet; [apply (Sub r1 _ IH1); intros t' Ht'; apply H; right; apply in_or_app; left; exact Ht'|].
    apply nres_app_quiet; [apply (Sub r2 _ IH2); intros t' Ht'; apply H; right; apply in_or_app; right; apply in_or_app; left; exact Ht'|].
    destruct ext as [a|]; [|left; reflexivity].
    apply (Sub a _ IHe). intros t' Ht'. apply H. right. apply in_or_app. right. apply in_or_app. right. exact Ht'.
  - change (quiet (nres_app (check_node m fuel p (TSeqOf e)) (check_ty m fuel (p ++ [0%nat]) e))).
    apply nres_app_quiet; [apply H; left; reflexivity|].
    apply IHe. intros t' Ht'. apply H. right. exact Ht'.
  - change (quiet (nres_app (check_node m fuel p (TRef r)) (NOk []))).
    apply nres_app_quiet; [apply H; left; reflexivity | left; reflexivity].
Qed.
End Module.

(* ================================================================ soundness *)
Section Sound.
Variable m : module.

(* hypothesis of the partial soundness theorem: wherever a component is an
   untagged type reference, either its outermost tag can be fetched or it has
   no tags at all — i.e. no component is an untagged reference to (a chain of
   references ending in) an untagged CHOICE *)
Definition chref_free : Prop :=
  forall t, In t (all_types m) -> comps_transparent m (comps_of_ty t).

Lemma terminal_nonref : forall fuel t, ~ is_reference t -> terminal m fuel t = Some t.
Proof. intros fuel t H. destruct fuel, t; simpl in *; try reflexivity; tauto. Qed.

Lemma terminal_resolves : forall fuel r t, terminal m fuel (TRef r) = Some t -> resolves m r.
Proof.
  induction fuel as [|f IH]; intros r t H; simpl in H;
    (destruct (lookup m r) as [d|] eqn:L; [|discriminate]); [discriminate|].
  destruct (d_ty d) as [pr|items|k r1 ext r2|e|r'] eqn:T;
    try (apply Res_end with d; [exact L | rewrite T; simpl; tauto]).
  apply Res_step with d r'; [exact L | exact T | eapply IH; exact H].
Qed.

Lemma when_nil : forall b r, when b r = [] -> b = false.
Proof. destruct b; simpl; intros; [discriminate | reflexivity]. Qed.

Lemma check_node_sound : forall fuel p t,
  comps_transparent m (comps_of_ty t) -> check_node m fuel p t = NOk [] -> type_ok m t.
Proof.
  intros fuel p t Hc H. destruct t as [pr|items|k r1 ext r2|e|r]; simpl type_ok.
  - exact I.
  - simpl in H. inversion H as [E]. apply app_eq_nil in E. destruct E as [E1 E2].
    apply when_nil in E1. apply when_nil in E2. split.
    + apply dup_in_NoDup. exact E2.
    + apply enum_val_clash_sound. exact E1.
  - unfold check_node in H.
    change (match k with KSeq => true | _ => false end) with (seq_flag k) in H.
    destruct (scan_all m fuel (seq_flag k) (members (m_tagging m) p r1 ext r2)) as [|c] eqn:S; [discriminate|].
    inversion H as [E]. apply app_eq_nil in E. destruct E as [E1 E2].
    apply app_eq_nil in E1. destruct E1 as [E1 _]. apply when_nil in E1.
    apply when_nil in E2. subst c.
    split.
    + apply dup_in_NoDup. exact E1.
    + exact (cons_tags_sound m fuel p k r1 ext r2 Hc S).
  - exact I.
  - simpl in H. inversion H as [E]. apply when_nil in E.
    destruct (lookup m r) as [d|] eqn:L; [|discriminate].
    destruct (terminal m (length (m_defs m)) (d_ty d)) as [t|] eqn:T; [|discriminate].
    eapply (terminal_resolves (term_fuel m) r t). unfold term_fuel. simpl. rewrite L. exact T.
Qed.

Lemma check_defs_ok : forall fuel ds, check_defs m fuel ds = NOk [] ->
  forall d, In d ds -> check_def m fuel d = NOk [].
Proof.
  induction ds as [|d0 ds IH]; intros H d Hin; [contradiction|].
  simpl in H. apply nres_app_ok in H. destruct H as [H1 H2].
  destruct Hin as [E|Hin]; [subst; exact H1 | apply IH; assumption].
Qed.

Lemma accept_fix_ok : check m = Accept -> fix_module m = NOk [].
Proof.
  unfold check. destruct (fix_module m) as [|rs]; [discriminate|].
  destruct rs; [reflexivity | discriminate].
Qed.

Theorem distinct_sound_partial : check m = Accept -> chref_free -> distinct_spec m.
Proof.
  intros Hacc Hfree t Hin.
  apply accept_fix_ok in Hacc. unfold fix_module in Hacc.
  apply nres_app_ok in Hacc. destruct Hacc as [_ Hd].
  unfold all_types in Hin. apply in_flat_map in Hin. destruct Hin as [d [Hd1 Hd2]].
  pose proof (check_defs_ok _ _ Hd d Hd1) as Hdef. unfold check_def in Hdef.
  apply nres_app_ok in Hdef. destruct Hdef as [_ Hty].
  destruct (check_ty_ok m _ _ _ Hty t Hd2) as [p' Hp'].
  eapply check_node_sound; [|exact Hp'].
  apply Hfree. unfold all_types. apply in_flat_map. exists d. auto.
Qed.
End Sound.

(* ================================================================ where the code deviates *)
Definition mkc (n : nat) (fl : flag) (t : ty) : cinfo * ty :=
  ({| c_name := n; c_tag := None; c_flag := fl |}, t).
Definition choice_IB : ty := TCons KChoice [mkc 1 FMandatory (TPrim PInteger); mkc 2 FMandatory (TPrim PBool)] None [].

(* T1 ::= INTEGER   T2 ::= CHOICE { c1 INTEGER, c2 BOOLEAN }   T3 ::= SET { c1 T1, c2 T2 } *)
Definition w_refmark : module :=
  {| m_tagging := TgExplicit;
     m_defs := [ {| d_name := 1; d_tag := None; d_ty := TPrim PInteger |};
                 {| d_name := 2; d_tag := None; d_ty := choice_IB |};
                 {| d_name := 3; d_tag := None;
                    d_ty := TCons KSet [mkc 1 FMandatory (TRef 1); mkc 2 FMandatory (TRef 2)] None [] |} ] |}.

Lemma distinct_sound_refuted : exists m, check m = Accept /\ ~ distinct_spec m.
Proof.
  exists w_refmark. split; [vm_compute; reflexivity|].
  intro H.
  assert (Hin : In (TCons KSet [mkc 1 FMandatory (TRef 1); mkc 2 FMandatory (TRef 2)] None [])
                   (all_types w_refmark)) by (vm_compute; tauto).
  specialize (H _ Hin). simpl in H. destruct H as [_ H].
  unfold pairwise_disjoint in H. simpl in H.
  inversion H as [|a l Ha _]; subst. inversion Ha as [|b l' Hab _]; subst.
  apply (Hab (OT CUniversal 2)); simpl.
  - eapply FT_ref; [vm_compute; reflexivity|]. simpl. apply FT_univ. reflexivity.
  - eapply FT_ref; [vm_compute; reflexivity|]. simpl.
    eapply FT_alt with (i := 0%nat); [reflexivity|]. simpl. apply FT_univ. reflexivity.
Qed.

(* the same module with the two members written in the other order is rejected *)
Example refmark_swapped_rejected :
  check {| m_tagging := TgExplicit;
           m_defs := [ {| d_name := 1; d_tag := None; d_ty := TPrim PInteger |};
                       {| d_name := 2; d_tag := None; d_ty := choice_IB |};
                       {| d_name := 3; d_tag := None;
                          d_ty := TCons KSet [mkc 1 FMandatory (TRef 2); mkc 2 FMandatory (TRef 1)] None [] |} ] |}
  = Reject [RTagClash].
Proof. vm_compute. reflexivity. Qed.

(* T1 ::= CHOICE { c1 T1, c2 NULL }: two alternatives share the tag of NULL, yet
   the model (as the C) neither accepts nor rejects — the recursion never ends *)
Definition w_leftrec : module :=
  {| m_tagging := TgExplicit;
     m_defs := [ {| d_name := 1; d_tag := None;
                    d_ty := TCons KChoice [mkc 1 FMandatory (TRef 1); mkc 2 FMandatory (TPrim PNull)] None [] |} ] |}.

Lemma reject_with_diagnostic_refuted : exists m, ~ distinct_spec m /\ check m = Crashes.
Proof.
  exists w_leftrec. split; [|vm_compute; reflexivity].
  intro H.
  assert (Hin : In (TCons KChoice [mkc 1 FMandatory (TRef 1); mkc 2 FMandatory (TPrim PNull)] None [])
                   (all_types w_leftrec)) by (vm_compute; tauto).
  specialize (H _ Hin). simpl in H. destruct H as [_ H].
  unfold pairwise_disjoint in H. simpl in H.
  inversion H as [|a l Ha _]; subst. inversion Ha as [|b l' Hab _]; subst.
  apply (Hab (OT CUniversal 5)); simpl.
  - eapply FT_ref; [vm_compute; reflexivity|]. simpl.
    eapply FT_alt with (i := 1%nat); [reflexivity|]. simpl. apply FT_univ. reflexivity.
  - apply FT_univ. reflexivity.
Qed.

(* T1 ::= ENUMERATED { e1(1), e2, e3(2) } satisfies the specification and is rejected *)
Definition w_enum : module :=
  {| m_tagging := TgExplicit;
     m_defs := [ {| d_name := 1; d_tag := None;
                    d_ty := TEnum [(1%nat, Some 1); (2%nat, None); (3%nat, Some 2)] |} ] |}.

Lemma distinct_complete_refuted :
  exists m, tagging_wf m /\ distinct_spec m /\ check m = Reject [REnumValue].
Proof.
  exists w_enum. split; [|split; [|vm_compute; reflexivity]].
  - split; [|split].
    + simpl. repeat constructor; simpl; tauto.
    + repeat constructor.
    + intros t Hin. vm_compute in Hin. destruct Hin as [E|[]]. subst. exact I.
  - intros t Hin. vm_compute in Hin. destruct Hin as [E|[]]. subst. simpl. split.
    + repeat constructor; simpl; intuition discriminate.
    + repeat constructor; simpl; intuition discriminate.
Qed.

(* ================================================================ completeness *)
Section Complete.
Variable m : module.

Lemma fetch_tagged : forall fuel M p c n t, fetch m fuel M p (NTy (Some (c, n)) t) = Some (OT c n).
Proof. destruct fuel; reflexivity. Qed.

Lemma fetch_term_uc : forall n p t,
  fetch m n [] p (NTy None t) = None ->
  (exists r1 e r2, terminal m n t = Some (TCons KChoice r1 e r2)) ->
  untagged_choice m t.
Proof.
  induction n as [|f IH]; intros p t Hf [r1 [e [r2 Ht]]].
  - destruct t as [pr|items|k a b c|el|r]; simpl in Ht; try discriminate.
    + inversion Ht; subst. constructor.
    + destruct (lookup m r); discriminate.
  - destruct t as [pr|items|k a b c|el|r]; simpl in Ht; try discriminate.
    + inversion Ht; subst. constructor.
    + simpl in Hf. destruct (lookup m r) as [d|] eqn:L; [|discriminate].
      simpl in Hf. destruct (d_tag d) as [g|] eqn:G.
      * simpl in Hf. rewrite fetch_tagged in Hf. discriminate.
      * apply UC_ref with d; [exact L | exact G|].
        eapply IH; [exact Hf | eauto].
Qed.

Lemma must_explicit_uc : forall p t, must_explicit m p t = true -> untagged_choice m t.
Proof.
  intros p t H. unfold must_explicit in H.
  destruct (out m [] {| n_path := p; n_opt := false; n_kind := NTy None t |}) eqn:O; [discriminate|].
  destruct (terminal m (term_fuel m) t) as [tt|] eqn:T; [|discriminate].
  destruct tt as [| |k r1 e r2| |]; try discriminate. destruct k; try discriminate.
  unfold out in O. cbn [n_path n_kind] in O.
  eapply fetch_term_uc; [exact O|]. unfold fetch_fuel. unfold term_fuel in T. eauto.
Qed.

Lemma implicit_ok_no_error : forall p tg t, implicit_ok m tg t -> implicit_error m p tg t = false.
Proof.
  intros p tg t H. unfold implicit_error. destruct tg as [g|]; [|reflexivity].
  simpl in H. destruct (tg_mode g) eqn:Md; try reflexivity.
  destruct (must_explicit m p t) eqn:Me; [|reflexivity].
  exfalso. apply (H eq_refl). eapply must_explicit_uc. exact Me.
Qed.

Lemma member_implicit_ok : forall p l pos,
  Forall (fun c => implicit_ok m (c_tag (fst c)) (snd c)) l -> member_implicit_errors m p pos l = false.
Proof.
  intros p. induction l as [|[c t] l IH]; intros pos H; [reflexivity|].
  inversion H as [|? ? H1 H2]; subst. unfold member_implicit_errors. simpl.
  rewrite (implicit_ok_no_error _ _ _ H1). simpl. apply IH. exact H2.
Qed.

Definition enum_plain (t : ty) : Prop :=
  match t with TEnum items => all_valued items \/ none_valued items | _ => True end.

(* reference chains are no longer than the number of definitions: discharged
   for every module by [chains_are_short] below *)
Definition chains_short : Prop :=
  forall r, resolves m r -> terminal m (term_fuel m) (TRef r) <> None.

Lemma check_node_complete : forall fuel p t,
  chains_short -> type_ok m t -> type_wf m t -> enum_plain t -> quiet (check_node m fuel p t).
Proof.
  intros fuel p t Hch Hok Hwf Hen. destruct t as [pr|items|k r1 ext r2|e|r].
  - left. reflexivity.
  - simpl in *. destruct Hok as [H1 H2]. left.
    replace (enum_val_clash items) with false by (symmetry; apply enum_val_clash_complete_partial; assumption).
    replace (enum_name_clash items) with false by (symmetry; apply dup_in_NoDup; exact H1).
    reflexivity.
  - unfold check_node.
    change (match k with KSeq => true | _ => false end) with (seq_flag k).
    destruct Hok as [Hid Htags]. destruct Hwf as [Himp Hext].
    destruct (scan_all m fuel (seq_flag k) (members (m_tagging m) p r1 ext r2)) as [|c] eqn:S; [right; reflexivity|].
    left. destruct c; [exfalso; exact (cons_tags_complete m fuel p k r1 ext r2 Htags S)|].
    replace (dup_in (map (fun c => c_name (fst c)) (r1 ++ adds_of ext ++ r2))) with false
      by (symmetry; apply dup_in_NoDup; exact Hid).
    rewrite app_assoc in Himp. apply Forall_app in Himp. destruct Himp as [Hroot Hadds].
    unfold root_of.
    rewrite (member_implicit_ok p _ 0 Hroot). rewrite (member_implicit_ok p _ _ Hadds).
    replace (exttag_error (m_tagging m) (r1 ++ r2) (adds_of ext)) with false; [reflexivity|].
    unfold exttag_error. destruct (m_tagging m); try reflexivity.
    destruct (existsb has_tag (adds_of ext)) eqn:A; [|rewrite andb_false_r; reflexivity].
    rewrite (Hext eq_refl eq_refl). reflexivity.
  - left. reflexivity.
  - simpl in Hok. left.
    change (check_node m fuel p (TRef r)) with
      (NOk (when (match terminal m (term_fuel m) (TRef r) with None => true | Some _ => false end) RUndefRef)).
    destruct (terminal m (term_fuel m) (TRef r)) eqn:T; [reflexivity|].
    exfalso. exact (Hch r Hok T).
Qed.

Definition enums_plain : Prop := forall t, In t (all_types m) -> enum_plain t.

Lemma check_defs_quiet : forall fuel ds,
  (forall d, In d ds -> quiet (check_def m fuel d)) -> quiet (check_defs m fuel ds).
Proof.
  induction ds as [|d ds IH]; intro H; simpl; [left; reflexivity|].
  apply nres_app_quiet; [apply H; left; reflexivity | apply IH; intros d' Hd'; apply H; right; exact Hd'].
Qed.

Theorem distinct_complete_partial :
  tagging_wf m -> distinct_spec m -> enums_plain -> chains_short ->
  check m = Accept \/ check m = Crashes.
Proof.
  intros [Hnd [Himp Hwf]] Hspec Hen Hch.
  assert (Q : quiet (fix_module m)).
  { unfold fix_module. apply nres_app_quiet.
    - left. replace (dup_in (map d_name (m_defs m))) with false by (symmetry; apply dup_in_NoDup; exact Hnd).
      reflexivity.
    - apply check_defs_quiet. intros d Hd. unfold check_def. apply nres_app_quiet.
      + left. rewrite Forall_forall in Himp. rewrite (implicit_ok_no_error _ _ _ (Himp d Hd)). reflexivity.
      + apply check_ty_quiet. intros t' Ht' p'.
        assert (Hin : In t' (all_types m)) by (unfold all_types; apply in_flat_map; exists d; auto).
        apply check_node_complete; auto. }
  unfold check. destruct Q as [Q|Q]; rewrite Q.
  - destruct (compile_ends m); auto.
  - auto.
Qed.
End Complete.

(* ================================================================ reference chains are short *)
(* a chain of references that ends visits pairwise different definitions (the
   chain is determined by its first name), so it has at most as many hops as
   there are definitions: asn1f_find_terminal_type's loop detection and the
   model's fuel agree with "resolves" *)
Section Pigeon.
Variable m : module.

Inductive hops : nat -> nat -> Prop :=
| H0 : forall r d, lookup m r = Some d -> ~ is_reference (d_ty d) -> hops r 0
| HS : forall r d r' k, lookup m r = Some d -> d_ty d = TRef r' -> hops r' k -> hops r (S k).

Lemma resolves_hops : forall r, resolves m r -> exists k, hops r k.
Proof.
  intros r H. induction H as [r d L N | r d r' L T _ [k IH]].
  - exists 0%nat. eapply H0; eassumption.
  - exists (S k). eapply HS; eassumption.
Qed.

Lemma hops_det : forall r k, hops r k -> forall k', hops r k' -> k = k'.
Proof.
  intros r k H. induction H as [r d L N | r d r' k L T H IH]; intros k' H'.
  - inversion H' as [|? d' r'' ? L' T' ?]; subst; [reflexivity|].
    rewrite L in L'. inversion L'; subst. rewrite T' in N. simpl in N. tauto.
  - inversion H' as [? d' L' N'|? d' r'' k'' L' T' H'']; subst.
    + rewrite L in L'. inversion L'; subst. rewrite T in N'. simpl in N'. tauto.
    + rewrite L in L'. inversion L'; subst. rewrite T in T'. inversion T'; subst.
      f_equal. apply IH. exact H''.
Qed.

Lemma lookup_name_In : forall r d, lookup m r = Some d -> In r (map d_name (m_defs m)).
Proof.
  intros r d L. unfold lookup in L. apply find_some in L. destruct L as [Hin E].
  apply Nat.eqb_eq in E. subst r. apply in_map. exact Hin.
Qed.

Lemma hops_names : forall r k, hops r k ->
  exists names, length names = S k /\ NoDup names /\ incl names (map d_name (m_defs m)) /\
                forall n, In n names -> exists j, (j <= k)%nat /\ hops n j.
Proof.
  intros r k H. induction H as [r d L N | r d r' k L T H [names [Hl [Hnd [Hinc Hj]]]]].
  - exists [r]. split; [reflexivity|]. split; [repeat constructor; simpl; tauto|]. split.
    + intros n [E|[]]. subst. eapply lookup_name_In; eassumption.
    + intros n [E|[]]. subst. exists 0%nat. split; [lia|]. eapply H0; eassumption.
  - exists (r :: names). split; [simpl; rewrite Hl; reflexivity|]. split; [|split].
    + constructor; [|exact Hnd]. intro Hin. destruct (Hj r Hin) as [j [Hle Hr]].
      assert (E : j = S k) by (eapply hops_det; [exact Hr | eapply HS; eassumption]). lia.
    + intros n [E|Hin]; [subst; eapply lookup_name_In; eassumption | apply Hinc; exact Hin].
    + intros n [E|Hin].
      * subst. exists (S k). split; [lia|]. eapply HS; eassumption.
      * destruct (Hj n Hin) as [j [Hle Hn]]. exists j. split; [lia | exact Hn].
Qed.

Lemma hops_terminal : forall r k, hops r k -> forall fuel, (k < fuel)%nat -> terminal m fuel (TRef r) <> None.
Proof.
  intros r k H. induction H as [r d L N | r d r' k L T H IH]; intros fuel Hf.
  - destruct fuel as [|f]; [lia|]. simpl. rewrite L. rewrite (terminal_nonref m f _ N). discriminate.
  - destruct fuel as [|f]; [lia|]. simpl. rewrite L. rewrite T. apply IH. lia.
Qed.

Lemma chains_are_short : chains_short m.
Proof.
  intros r H. apply resolves_hops in H. destruct H as [k H].
  destruct (hops_names r k H) as [names [Hl [Hnd [Hinc _]]]].
  pose proof (NoDup_incl_length Hnd Hinc) as Hlen. rewrite map_length in Hlen.
  eapply hops_terminal; [exact H|]. unfold term_fuel. lia.
Qed.
End Pigeon.

Theorem distinct_complete_partial' : forall m,
  tagging_wf m -> distinct_spec m -> enums_plain m ->
  check m = Accept \/ check m = Crashes.
Proof.
  intros m H1 H2 H3. apply distinct_complete_partial; auto. apply chains_are_short.
Qed.

(* ================================================================ non-vacuity of the hypotheses *)
(* non-vacuity: T1 ::= INTEGER   T2 ::= SET { c1 T1, c2 CHOICE { c1 BOOLEAN, c2 NULL }, c3 ENUMERATED { e1(3), e2(5) } } *)
Definition w_ok : module :=
  {| m_tagging := TgExplicit;
     m_defs := [ {| d_name := 1; d_tag := None; d_ty := TPrim PInteger |};
                 {| d_name := 2; d_tag := None;
                    d_ty := TCons KSet [mkc 1 FMandatory (TRef 1);
                                        mkc 2 FMandatory (TCons KChoice [mkc 1 FMandatory (TPrim PBool); mkc 2 FMandatory (TPrim PNull)] None []);
                                        mkc 3 FMandatory (TEnum [(1%nat, Some 3%Z); (2%nat, Some 5%Z)])] None [] |} ] |}.

Example sound_partial_nonvacuous : check w_ok = Accept /\ chref_free w_ok.
Proof.
  split; [vm_compute; reflexivity|].
  intros t Hin c r Hc. vm_compute in Hin.
  repeat (destruct Hin as [E|Hin]; [subst t; simpl in Hc|]); try contradiction;
    repeat (destruct Hc as [E|Hc]; [inversion E; subst|]); try contradiction;
    intro F; vm_compute in F; discriminate.
Qed.

Example complete_partial_nonvacuous : tagging_wf w_ok /\ distinct_spec w_ok /\ enums_plain w_ok.
Proof.
  split; [|split].
  - split; [|split].
    + simpl. repeat constructor; simpl; intuition discriminate.
    + repeat constructor.
    + intros t Hin. vm_compute in Hin.
      repeat (destruct Hin as [E|Hin]; [subst t; simpl; first [exact I | split; [repeat constructor | intro; discriminate]]|]).
      contradiction.
  - apply distinct_sound_partial; apply sound_partial_nonvacuous.
  - intros t Hin. vm_compute in Hin.
    repeat (destruct Hin as [E|Hin]; [subst t; simpl; first [exact I | left; intros it [E|[E|[]]]; subst; simpl; discriminate]|]).
    contradiction.
Qed.
