(* Fix/PerOerVisible.v — executable model of what libasn1compiler/asn1c_C.c
   writes into the asn_per_constraints_t / asn_oer_constraints_t initialisers:
   emit_single_member_PER_constraint (alphabetsize = 0),
   emit_single_member_OER_constraint_value / _size, and of the callers
   emit_member_PER_constraints / emit_member_OER_constraints for INTEGER,
   OCTET STRING and SEQUENCE OF (which range is computed with which flags).

   Simplifications: the `cover < 0` overflow exit of the range_bits loop (128-bit
   overflow) is not modelled — range_bits is the least k <= 128 with r <= 2^k;
   REAL and the permitted-alphabet rows are not modelled.  No proofs here. *)
From Coq Require Import ZArith List Bool.
From A1 Require Import Fix.Crange.
Import ListNotations.
Local Open Scope Z_scope.

Inductive apc := ApcUnconstrained | ApcSemiConstrained | ApcConstrained.
Record per_row := mkRow { p_kind : apc; p_ext : bool; p_rbits : Z; p_ebits : Z; p_lo : Z; p_hi : Z }.

Definition row_unconstrained : per_row := mkRow ApcUnconstrained false (-1) (-1) 0 0.

(* least k in [from, from+fuel) with r <= 2^k, else `dflt` *)
Fixpoint bits_loop (fuel : nat) (k : Z) (cover r dflt : Z) : Z :=
  match fuel with
  | O => dflt
  | S f => if r <=? cover then k else bits_loop f (k + 1) (cover * 2) r dflt
  end.

(* for(rbits = 0; rbits < 128; rbits++) { if(r <= cover) break; cover *= 2; } *)
Definition range_bits (r : Z) : Z := bits_loop 128 0 1 r 128.
(* for(ebits = 0; ebits <= 16; ebits++) if(r <= 1 << ebits) break;
   if(ebits == 17 || right >= 65536) ebits = -1; *)
Definition effective_bits (r hi : Z) : Z :=
  let e := bits_loop 17 0 1 r 17 in
  if (e =? 17) || (hi >=? 65536) then -1 else e.

(* emit_single_member_PER_constraint(arg, range, 0, type) *)
Definition per_row_of (r : option range) : per_row :=
  match r with
  | None => row_unconstrained
  | Some rg =>
      if r_incompat rg || r_notPER rg then row_unconstrained else
      match r_left rg with
      | EV lo =>
          match r_right rg with
          | EV hi =>
              let r := if r_empty rg then 0 else 1 + hi - lo in
              mkRow ApcConstrained (r_ext rg) (range_bits r) (effective_bits r hi) lo hi
          | _ => mkRow ApcSemiConstrained (r_ext rg) (-1) (-1) lo 0
          end
      | _ => row_unconstrained
      end
  end.

(* emit_single_member_OER_constraint_value: { width, positive } *)
Definition oer_value_of (r : option range) : Z * Z :=
  match r with
  | None => (0, 0)
  | Some rg =>
      if r_incompat rg || r_notOER rg then (0, 0) else
      match r_left rg, r_right rg with
      | EV lb, EMax => if lb >=? 0 then (0, 1) else (0, 0)
      | EV lb, EV ub =>
          if lb >=? 0 then
            (* the last two tests cast ub to unsigned long long *)
            let ubc := ub mod 18446744073709551616 in
            ((if ub <=? 255 then 1 else if ub <=? 65535 then 2
              else if ubc <=? 4294967295 then 4 else 8), 1)
          else
            ((if (lb >=? -128) && (ub <=? 127) then 1
              else if (lb >=? -32768) && (ub <=? 32767) then 2
              else if (lb >=? -2147483648) && (ub <=? 2147483647) then 4
              else if (lb >=? -9223372036854775808) && (ub <=? 9223372036854775807) then 8
              else 0), 0)
      | _, _ => (0, 0)
      end
  end.

(* emit_single_member_OER_constraint_size: fixed size or -1 *)
Definition oer_size_of (r : option range) : Z :=
  match r with
  | None => -1
  | Some rg =>
      if r_incompat rg || r_notOER rg then -1 else
      match r_left rg, r_right rg with
      | EV a, EV b => if (a =? b) && (a >=? 0) then a else -1
      | _, _ => -1
      end
  end.

Definition opt_range (t : tres) : option range :=
  match t with TOk r => Some r | _ => None end.

(* emit_member_PER_constraints: { value row, size row }; both computed by
   asn1constraint_compute_PER_range, i.e. WITHOUT strict PER visibility *)
Definition per_tables (t : etype) (ct : option pct) : per_row * per_row :=
  (per_row_of (opt_range (compute_top t ct ReqValue VisNone)),
   per_row_of (opt_range (compute_top t ct ReqSize VisNone))).

(* emit_member_OER_constraints: { {width, positive}, size }, strict OER visibility *)
Definition oer_tables (t : etype) (ct : option pct) : (Z * Z) * Z :=
  (oer_value_of (opt_range (compute_top t ct ReqValue VisOER)),
   oer_size_of (opt_range (compute_top t ct ReqSize VisOER))).
