(* ParamSpecProofs.v — what the specialization lookup of Fix/ParamSpec.v computes.
   Main results:
     ecmp_eq_iff            asn1p_expr_compare says "equal" exactly when the two expressions agree after erasing
                            subtype constraints and nested actual parameter lists ([key]) and carry no value set
                            in a compared position;
     ecmp_no_abort          without value sets the comparison never reaches the unimplemented constraint comparison;
     assign_total           ... hence the fixer's lookup loop never dies on such references;
     spec_index_partition   two references to a template get the same specialization index iff their actual
                            parameter lists have the same [key]; indices are handed out densely in order of first use;
     fork_idempotent        looking a reference up again neither adds a specialization nor changes its index;
     spec_ignores_constraints / distinct_constraints_share_refuted
                            the defect of the unchanged tree: P {INTEGER (0..7)} and P {INTEGER (0..255)},
                            P {Q {BOOLEAN}} and P {Q {INTEGER}} are ONE C type. *)
From Coq Require Import List Bool ZArith Lia Ascii.
From A1 Require Import Fix.Printer Fix.ParamSpec.
Import ListNotations.
Local Open Scope list_scope.

(* ---------------------------------------------------------------- boolean equalities reflect Leibniz equality *)
Lemma str_eqb_eq : forall a b, str_eqb a b = true <-> a = b.
Proof.
  induction a as [|x a IH]; destruct b as [|y b]; simpl; split; intro H; try reflexivity; try discriminate.
  - apply andb_true_iff in H. destruct H as [H1 H2]. apply Ascii.eqb_eq in H1. apply IH in H2. subst. reflexivity.
  - injection H as H1 H2. subst. apply andb_true_iff. split. apply Ascii.eqb_refl. apply IH. reflexivity.
Qed.

Lemma strs_eqb_eq : forall a b, strs_eqb a b = true <-> a = b.
Proof.
  induction a as [|x a IH]; destruct b as [|y b]; simpl; split; intro H; try reflexivity; try discriminate.
  - apply andb_true_iff in H. destruct H as [H1 H2]. apply str_eqb_eq in H1. apply IH in H2. subst. reflexivity.
  - injection H as H1 H2. subst. apply andb_true_iff. split. apply str_eqb_eq. reflexivity. apply IH. reflexivity.
Qed.

Lemma bits_eqb_eq : forall a b, bits_eqb a b = true <-> a = b.
Proof.
  induction a as [|x a IH]; destruct b as [|y b]; simpl; split; intro H; try reflexivity; try discriminate.
  - apply andb_true_iff in H. destruct H as [H1 H2]. apply Bool.eqb_prop in H1. apply IH in H2. subst. reflexivity.
  - injection H as H1 H2. subst. apply andb_true_iff. split. apply Bool.eqb_reflx. apply IH. reflexivity.
Qed.

Lemma ref_eqb_eq : forall a b, ref_eqb a b = true <-> a = b.
Proof.
  intros [m1 c1] [m2 c2]. unfold ref_eqb. simpl. rewrite andb_true_iff, Z.eqb_eq, strs_eqb_eq.
  split. intros [H1 H2]. subst. reflexivity. intro H. injection H as H1 H2. auto.
Qed.

Lemma tag_eqb_eq : forall a b, tag_eqb a b = true <-> a = b.
Proof.
  intros [[c1 m1] v1] [[c2 m2] v2]. unfold tag_eqb. rewrite !andb_true_iff, !Z.eqb_eq.
  split. intros [[H1 H2] H3]. subst. reflexivity. intro H. injection H as H1 H2 H3. auto.
Qed.

(* ---------------------------------------------------------------- the three-valued sequencing *)
Lemma of_bool_eq : forall b, of_bool b = CEq <-> b = true.
Proof. destruct b; simpl; split; intro H; try reflexivity; discriminate. Qed.

Lemma of_bool_not_abort : forall b, of_bool b <> CAbort.
Proof. destruct b; discriminate. Qed.

Lemma andc_eq : forall r k, andc r k = CEq <-> r = CEq /\ k = CEq.
Proof. destruct r; simpl; split; intro H; try (destruct H; discriminate); try discriminate; auto. destruct H. assumption. Qed.

Lemma andc_abort : forall r k, andc r k = CAbort -> r = CAbort \/ (r = CEq /\ k = CAbort).
Proof. destruct r; simpl; intros k H; auto; discriminate. Qed.

(* ---------------------------------------------------------------- values *)
Lemma vcmp_eq_iff : forall a b, vcmp a b = CEq <-> a = b /\ vnovs a = true.
Proof.
  induction a; destruct b; simpl; split; intro H; try discriminate; try (destruct H as [H _]; discriminate);
    try (split; reflexivity); try reflexivity.
  - apply of_bool_eq, Z.eqb_eq in H. subst. auto.
  - destruct H as [H _]. injection H as H. subst. apply of_bool_eq, Z.eqb_refl.
  - apply of_bool_eq, str_eqb_eq in H. subst. auto.
  - destruct H as [H _]. injection H as H. subst. apply of_bool_eq, str_eqb_eq. reflexivity.
  - apply of_bool_eq, bits_eqb_eq in H. subst. auto.
  - destruct H as [H _]. injection H as H. subst. apply of_bool_eq, bits_eqb_eq. reflexivity.
  - apply of_bool_eq, ref_eqb_eq in H. subst. auto.
  - destruct H as [H _]. injection H as H. subst. apply of_bool_eq, ref_eqb_eq. reflexivity.
  - destruct H as [_ H]. discriminate.
  - destruct (str_eqb id id0) eqn:E; try discriminate. apply str_eqb_eq in E. apply IHa in H. destruct H as [H1 H2]. subst. auto.
  - destruct H as [H1 H2]. injection H1 as H1 H3. subst.
    assert (E : str_eqb id0 id0 = true) by (apply str_eqb_eq; reflexivity). rewrite E. apply IHa. auto.
Qed.

Lemma vcmp_abort : forall a b, vcmp a b = CAbort -> vnovs a = false.
Proof.
  induction a; destruct b; simpl; intro H; try discriminate; try reflexivity;
    try (exfalso; revert H; apply of_bool_not_abort).
  destruct (str_eqb id id0); try discriminate. eapply IHa. eassumption.
Qed.

Lemma ocmp_v_eq_iff : forall a b, opt_cmp vcmp a b = CEq <-> a = b /\ onovs a = true.
Proof.
  destruct a as [x|]; destruct b as [y|]; simpl; split; intro H; try discriminate; try (destruct H as [H _]; discriminate); auto.
  - apply vcmp_eq_iff in H. destruct H. subst. auto.
  - destruct H as [H1 H2]. injection H1 as H1. subst. apply vcmp_eq_iff. auto.
Qed.

Lemma ocmp_v_abort : forall a b, opt_cmp vcmp a b = CAbort -> onovs a = false.
Proof. destruct a as [x|]; destruct b as [y|]; simpl; intro H; try discriminate. eapply vcmp_abort. eassumption. Qed.

Lemma ocmp_str_eq_iff : forall a b, opt_cmp (fun x y => of_bool (str_eqb x y)) a b = CEq <-> a = b.
Proof.
  destruct a as [x|]; destruct b as [y|]; simpl; split; intro H; try discriminate; auto.
  - apply of_bool_eq, str_eqb_eq in H. subst. reflexivity.
  - injection H as H. subst. apply of_bool_eq, str_eqb_eq. reflexivity.
Qed.

Lemma ocmp_ref_eq_iff : forall a b, opt_cmp (fun x y => of_bool (ref_eqb x y)) a b = CEq <-> a = b.
Proof.
  destruct a as [x|]; destruct b as [y|]; simpl; split; intro H; try discriminate; auto.
  - apply of_bool_eq, ref_eqb_eq in H. subst. reflexivity.
  - injection H as H. subst. apply of_bool_eq, ref_eqb_eq. reflexivity.
Qed.

Lemma ocmp_bool_not_abort : forall (A : Type) (f : A -> A -> bool) a b, opt_cmp (fun x y => of_bool (f x y)) a b <> CAbort.
Proof. intros A f [x|] [y|]; simpl; try discriminate. apply of_bool_not_abort. Qed.

(* ---------------------------------------------------------------- expressions *)
Section PexprInd.
  Variable P : pexpr -> Prop.
  Hypothesis H : forall m t i r v g f d u c ps ms, Forall P ms -> P (PE m t i r v g f d u c ps ms).
  Fixpoint pexpr_ind' (e : pexpr) : P e :=
    match e with
    | PE m t i r v g f d u c ps ms =>
        H m t i r v g f d u c ps ms
          ((fix go (l : list pexpr) : Forall P l :=
              match l with [] => Forall_nil P | x :: l' => Forall_cons x (pexpr_ind' x) (go l') end) ms)
    end.
End PexprInd.

Definition list_cmp (f : pexpr -> pexpr -> cres) := fix go (l1 l2 : list pexpr) : cres :=
  match l1, l2 with
  | [], [] => CEq
  | x :: l1', y :: l2' => andc (f x y) (go l1' l2')
  | _, _ => CNe
  end.

Lemma ecmp_unfold : forall m1 t1 i1 r1 v1 g1 f1 d1 u1 c1 p1 ms1 m2 t2 i2 r2 v2 g2 f2 d2 u2 c2 p2 ms2,
  ecmp (PE m1 t1 i1 r1 v1 g1 f1 d1 u1 c1 p1 ms1) (PE m2 t2 i2 r2 v2 g2 f2 d2 u2 c2 p2 ms2) =
      andc (of_bool (Z.eqb m1 m2 && Z.eqb t1 t2))
     (andc (opt_cmp (fun x y => of_bool (str_eqb x y)) i1 i2)
     (andc (opt_cmp (fun x y => of_bool (ref_eqb x y)) r1 r2)
     (andc (opt_cmp vcmp v1 v2)
     (andc (of_bool (tag_eqb g1 g2))
     (andc (of_bool (Z.eqb f1 f2))
     (andc (opt_cmp vcmp d1 d2)
     (andc (of_bool (Bool.eqb u1 u2))
       (list_cmp ecmp ms1 ms2)))))))).
Proof. reflexivity. Qed.

Lemma key_unfold : forall m t i r v g f d u c ps ms,
  key (PE m t i r v g f d u c ps ms) = PE m t i r v g f d u None [] (map key ms).
Proof. reflexivity. Qed.

Lemma novs_key_unfold : forall m t i r v g f d u c ps ms,
  novs (key (PE m t i r v g f d u c ps ms)) = onovs v && onovs d && forallb novs (map key ms).
Proof. reflexivity. Qed.

Lemma list_cmp_eq_iff : forall ms1,
  Forall (fun a => forall b, ecmp a b = CEq <-> key a = key b /\ novs (key a) = true) ms1 ->
  forall ms2, list_cmp ecmp ms1 ms2 = CEq <-> map key ms1 = map key ms2 /\ forallb novs (map key ms1) = true.
Proof.
  induction 1 as [|x l Hx Hl IH]; intros [|y l2]; simpl; split; intro H0; try discriminate;
    try (destruct H0 as [H0 _]; discriminate); auto.
  - apply andc_eq in H0. destruct H0 as [H1 H2]. apply Hx in H1. apply IH in H2.
    destruct H1 as [H1 H1']. destruct H2 as [H2 H2']. rewrite H1', H2', H1, H2. auto.
  - destruct H0 as [H1 H2]. injection H1 as H1 H3. apply andb_true_iff in H2. destruct H2 as [H2 H4].
    apply andc_eq. split. apply Hx. auto. apply IH. auto.
Qed.

Theorem ecmp_eq_iff : forall a b, ecmp a b = CEq <-> key a = key b /\ novs (key a) = true.
Proof.
  induction a as [m1 t1 i1 r1 v1 g1 f1 d1 u1 c1 p1 ms1 IH] using pexpr_ind'.
  intros [m2 t2 i2 r2 v2 g2 f2 d2 u2 c2 p2 ms2].
  rewrite ecmp_unfold, novs_key_unfold, !key_unfold. rewrite !andc_eq.
  rewrite of_bool_eq, andb_true_iff, !Z.eqb_eq, ocmp_str_eq_iff, ocmp_ref_eq_iff, !ocmp_v_eq_iff,
    !of_bool_eq, tag_eqb_eq, Z.eqb_eq, (list_cmp_eq_iff ms1 IH ms2).
  split.
  - intros [[H1 H2] [H3 [H4 [[H5 H5'] [H6 [H7 [[H8 H8'] [H9 [H10 H10']]]]]]]]].
    apply Bool.eqb_prop in H9. subst. rewrite H5', H8', H10', H10. auto.
  - intros [H1 H2]. injection H1 as E1 E2 E3 E4 E5 E6 E7 E8 E9 E10. subst.
    apply andb_true_iff in H2. destruct H2 as [H2 H3]. apply andb_true_iff in H2. destruct H2 as [H2 H4].
    repeat split; auto. apply Bool.eqb_reflx.
Qed.

Lemma list_cmp_abort : forall ms1,
  Forall (fun a => forall b, ecmp a b = CAbort -> novs (key a) = false) ms1 ->
  forall ms2, list_cmp ecmp ms1 ms2 = CAbort -> forallb novs (map key ms1) = false.
Proof.
  induction 1 as [|x l Hx Hl IH]; intros [|y l2]; simpl; intro H0; try discriminate.
  apply andc_abort in H0. destruct H0 as [H0|[_ H0]].
  - apply Hx in H0. rewrite H0. reflexivity.
  - apply IH in H0. rewrite H0. apply andb_false_r.
Qed.

Theorem ecmp_abort : forall a b, ecmp a b = CAbort -> novs (key a) = false.
Proof.
  induction a as [m1 t1 i1 r1 v1 g1 f1 d1 u1 c1 p1 ms1 IH] using pexpr_ind'.
  intros [m2 t2 i2 r2 v2 g2 f2 d2 u2 c2 p2 ms2].
  rewrite ecmp_unfold, novs_key_unfold. intro H.
  apply andc_abort in H. destruct H as [H|[_ H]]. exfalso. revert H. apply of_bool_not_abort.
  apply andc_abort in H. destruct H as [H|[_ H]]. exfalso. revert H. apply ocmp_bool_not_abort.
  apply andc_abort in H. destruct H as [H|[_ H]]. exfalso. revert H. apply ocmp_bool_not_abort.
  apply andc_abort in H. destruct H as [H|[_ H]]. apply ocmp_v_abort in H. rewrite H. reflexivity.
  apply andc_abort in H. destruct H as [H|[_ H]]. exfalso. revert H. apply of_bool_not_abort.
  apply andc_abort in H. destruct H as [H|[_ H]]. exfalso. revert H. apply of_bool_not_abort.
  apply andc_abort in H. destruct H as [H|[_ H]]. apply ocmp_v_abort in H. rewrite H. rewrite andb_false_r. reflexivity.
  apply andc_abort in H. destruct H as [H|[_ H]]. exfalso. revert H. apply of_bool_not_abort.
  apply (list_cmp_abort ms1 IH) in H. rewrite H. apply andb_false_r.
Qed.

Corollary ecmp_no_abort : forall a b, novs (key a) = true -> ecmp a b <> CAbort.
Proof. intros a b H E. apply ecmp_abort in E. congruence. Qed.

Corollary ecmp_refl : forall a, novs (key a) = true -> ecmp a a = CEq.
Proof. intros a H. apply ecmp_eq_iff. auto. Qed.

Corollary ecmp_sym : forall a b, ecmp a b = CEq -> ecmp b a = CEq.
Proof. intros a b H. apply ecmp_eq_iff in H. destruct H as [H1 H2]. apply ecmp_eq_iff. rewrite <- H1. auto. Qed.

Corollary ecmp_trans : forall a b c, ecmp a b = CEq -> ecmp b c = CEq -> ecmp a c = CEq.
Proof.
  intros a b c H1 H2. apply ecmp_eq_iff in H1. apply ecmp_eq_iff in H2. apply ecmp_eq_iff.
  destruct H1 as [H1 H1']. destruct H2 as [H2 _]. split. congruence. assumption.
Qed.

(* with value sets out of the way the comparison is two-valued and decides equality of keys *)
Lemma ecmp_ne_iff : forall a b, novs (key a) = true -> (ecmp a b = CNe <-> key a <> key b).
Proof.
  intros a b Ha. split.
  - intros H E. assert (ecmp a b = CEq) by (apply ecmp_eq_iff; auto). congruence.
  - intro H. destruct (ecmp a b) eqn:E; auto.
    + apply ecmp_eq_iff in E. destruct E. contradiction.
    + apply ecmp_abort in E. congruence.
Qed.

(* the comparison never consults constraints or nested parameter lists *)
Theorem ecmp_key : forall a b, ecmp (key a) (key b) = ecmp a b.
Proof.
  induction a as [m1 t1 i1 r1 v1 g1 f1 d1 u1 c1 p1 ms1 IH] using pexpr_ind'.
  intros [m2 t2 i2 r2 v2 g2 f2 d2 u2 c2 p2 ms2].
  rewrite !key_unfold, !ecmp_unfold. do 8 f_equal.
  revert ms2. induction IH as [|x l Hx Hl IH2]; intros [|y l2]; simpl; auto.
  rewrite Hx, IH2. reflexivity.
Qed.

(* ---------------------------------------------------------------- the stored clone *)
Lemma vstable_vnovs : forall v, vstable v = true -> vnovs v = true.
Proof. induction v; simpl; intro H; auto; discriminate. Qed.

Lemma vclone_stable : forall v, vstable v = true -> vclone v = v.
Proof. induction v; simpl; intro H; auto; try discriminate. rewrite IHv; auto. Qed.

Lemma stable_key_unfold : forall m t i r v g f d u c ps ms,
  stable (key (PE m t i r v g f d u c ps ms)) = ostable v && ostable d && forallb stable (map key ms).
Proof. reflexivity. Qed.

Lemma stable_novs : forall e, stable (key e) = true -> novs (key e) = true.
Proof.
  induction e as [m t i r v g f d u c ps ms IH] using pexpr_ind'. rewrite stable_key_unfold, novs_key_unfold.
  intro H. apply andb_true_iff in H. destruct H as [H H3]. apply andb_true_iff in H. destruct H as [H1 H2].
  apply andb_true_iff. split. apply andb_true_iff. split.
  - destruct v; simpl in *; auto. apply vstable_vnovs. assumption.
  - destruct d; simpl in *; auto. apply vstable_vnovs. assumption.
  - clear H1 H2. induction IH as [|x l Hx Hl IH2]; simpl in *; auto.
    apply andb_true_iff in H3. destruct H3 as [H3 H4]. apply andb_true_iff. split; auto.
Qed.

Lemma key_eclone : forall e, stable (key e) = true -> key (eclone e) = key e.
Proof.
  induction e as [m t i r v g f d u c ps ms IH] using pexpr_ind'. rewrite stable_key_unfold.
  intro H. apply andb_true_iff in H. destruct H as [H H3]. apply andb_true_iff in H. destruct H as [H1 H2].
  simpl. f_equal.
  - destruct v; simpl in *; auto. rewrite vclone_stable; auto.
  - destruct d; simpl in *; auto. rewrite vclone_stable; auto.
  - clear H1 H2. induction IH as [|x l Hx Hl IH2]; simpl in *; auto.
    apply andb_true_iff in H3. destruct H3 as [H3 H4]. rewrite Hx, IH2; auto.
Qed.

(* ---------------------------------------------------------------- the lookup loop *)
Definition keys_distinct (tbl : list pexpr) : Prop :=
  forall i j a b, nth_error tbl i = Some a -> nth_error tbl j = Some b -> key a = key b -> i = j.

Lemma find_spec_found : forall tbl a k0 k, find_spec tbl a k0 = LFound k ->
  exists s, (k0 <= k)%nat /\ nth_error tbl (k - k0) = Some s /\ ecmp a s = CEq
            /\ forall j s', (j < k - k0)%nat -> nth_error tbl j = Some s' -> ecmp a s' = CNe.
Proof.
  induction tbl as [|s t IH]; simpl; intros a k0 k H; try discriminate.
  unfold compare_specializations in H. destruct (ecmp a s) eqn:E; try discriminate.
  - injection H as H. subst. exists s. replace (k - k)%nat with 0%nat by lia. simpl. repeat split; auto. intros j s' Hj. lia.
  - apply IH in H. destruct H as [s0 [H1 [H2 [H3 H4]]]]. exists s0.
    replace (k - k0)%nat with (S (k - S k0)) by lia. simpl. repeat split; auto. lia.
    intros [|j] s' Hj Hs'; simpl in Hs'. injection Hs' as Hs'. subst. assumption.
    eapply H4; eauto. lia.
Qed.

Lemma find_spec_new : forall tbl a k0, find_spec tbl a k0 = LNew -> forall j s, nth_error tbl j = Some s -> ecmp a s = CNe.
Proof.
  induction tbl as [|s t IH]; simpl; intros a k0 H j s0 Hj. destruct j; discriminate.
  unfold compare_specializations in H. destruct (ecmp a s) eqn:E; try discriminate.
  destruct j as [|j]; simpl in Hj. injection Hj as Hj. subst. assumption. eapply IH; eauto.
Qed.

Lemma find_spec_no_abort : forall tbl a k0, novs (key a) = true -> find_spec tbl a k0 <> LAbort.
Proof.
  induction tbl as [|s t IH]; simpl; intros a k0 Ha. discriminate.
  unfold compare_specializations. destruct (ecmp a s) eqn:E; try discriminate. apply IH. assumption.
  apply ecmp_abort in E. congruence.
Qed.

(* invariant of the table: stored lists are value-set free and pairwise different in their keys *)
Definition tbl_ok (tbl : list pexpr) : Prop := Forall (fun s => novs (key s) = true) tbl /\ keys_distinct tbl.

Lemma tbl_ok_nil : tbl_ok [].
Proof. split. constructor. intros [|i] j a b H; discriminate. Qed.

Lemma fork_spec : forall tbl a, tbl_ok tbl -> stable (key a) = true ->
  exists tbl' k s, fork tbl a = Some (tbl', k) /\ tbl_ok tbl' /\ nth_error tbl' k = Some s /\ key s = key a
                   /\ (exists ext, tbl' = tbl ++ ext) .
Proof.
  intros tbl a [Hn Hd] Hst. pose proof (stable_novs a Hst) as Ha. pose proof (key_eclone a Hst) as Hk.
  unfold fork. destruct (find_spec tbl a 0) eqn:E.
  - apply find_spec_found in E. destruct E as [s [_ [H2 [H3 _]]]]. rewrite Nat.sub_0_r in H2.
    exists tbl, k, s. split; [reflexivity|]. split; [split; assumption|]. split; [assumption|].
    split. apply ecmp_eq_iff in H3. destruct H3. auto. exists []. rewrite app_nil_r. reflexivity.
  - exists (tbl ++ [eclone a]), (length tbl), (eclone a). split; [reflexivity|]. split; [split|].
    + apply Forall_app. split. assumption. constructor. rewrite Hk. assumption. constructor.
    + intros i j x y Hi Hj Hkey.
      assert (Hnew : forall n s, nth_error tbl n = Some s -> key a <> key s).
      { intros n s Hs. apply ecmp_ne_iff. assumption. eapply find_spec_new; eauto. }
      destruct (Nat.lt_ge_cases i (length tbl)) as [Li|Li]; destruct (Nat.lt_ge_cases j (length tbl)) as [Lj|Lj].
      * rewrite nth_error_app1 in Hi, Hj by assumption. eapply Hd; eauto.
      * rewrite nth_error_app1 in Hi by assumption. rewrite nth_error_app2 in Hj by assumption.
        destruct (j - length tbl)%nat as [|n] eqn:En; simpl in Hj. injection Hj as Hj. subst y. exfalso. rewrite Hk in Hkey. eapply Hnew; eauto.
        destruct n; discriminate.
      * rewrite nth_error_app1 in Hj by assumption. rewrite nth_error_app2 in Hi by assumption.
        destruct (i - length tbl)%nat as [|n] eqn:En; simpl in Hi. injection Hi as Hi. subst x. exfalso. rewrite Hk in Hkey. eapply Hnew; eauto.
        destruct n; discriminate.
      * rewrite nth_error_app2 in Hi, Hj by assumption.
        destruct (i - length tbl)%nat as [|n] eqn:En; simpl in Hi; [|destruct n; discriminate].
        destruct (j - length tbl)%nat as [|n2] eqn:En2; simpl in Hj; [|destruct n2; discriminate]. lia.
    + split. rewrite nth_error_app2 by lia. rewrite Nat.sub_diag. reflexivity.
      split. assumption. exists [eclone a]. reflexivity.
  - exfalso. eapply find_spec_no_abort; eauto.
Qed.

Lemma nth_error_prefix : forall (A : Type) (l ext : list A) k x, nth_error l k = Some x -> nth_error (l ++ ext) k = Some x.
Proof. intros A l ext k x H. rewrite nth_error_app1. assumption. apply nth_error_Some. congruence. Qed.

(* every reference gets an index whose table entry has its key; the final table extends the initial one *)
Lemma assign_spec : forall refs tbl, tbl_ok tbl -> Forall (fun a => stable (key a) = true) refs ->
  exists ks tblf ext, assign tbl refs = Some ks /\ tblf = tbl ++ ext /\ tbl_ok tblf /\ length ks = length refs /\
    forall i a k, nth_error refs i = Some a -> nth_error ks i = Some k -> exists s, nth_error tblf k = Some s /\ key s = key a.
Proof.
  induction refs as [|a r IH]; intros tbl Ht Hr; simpl.
  - exists [], tbl, []. rewrite app_nil_r. split; [reflexivity|]. split; [reflexivity|]. split; [assumption|]. split; [reflexivity|].
    intros [|i] a k H; discriminate.
  - inversion Hr as [|? ? Ha Hr']. subst.
    destruct (fork_spec tbl a Ht Ha) as [tbl' [k [s [Hf [Ht' [Hk [Hs [ext Hext]]]]]]]]. rewrite Hf.
    destruct (IH tbl' Ht' Hr') as [ks [tblf [ext2 [Hks [Htf [Hok [Hlen Hall]]]]]]]. rewrite Hks.
    exists (k :: ks), tblf, (ext ++ ext2). split; [reflexivity|].
    split. { subst. rewrite app_assoc. reflexivity. }
    split; [assumption|]. split. { simpl. congruence. }
    intros [|i] a0 k0 H1 H2; simpl in H1, H2.
    + injection H1 as H1. injection H2 as H2. subst a0 k0. exists s. split; auto. subst tblf. apply nth_error_prefix. assumption.
    + eapply Hall; eauto.
Qed.

Theorem assign_total : forall refs, Forall (fun a => stable (key a) = true) refs -> exists ks, spec_indices refs = Some ks /\ length ks = length refs.
Proof.
  intros refs H. destruct (assign_spec refs [] tbl_ok_nil H) as [ks [tblf [ext [H1 [_ [_ [H2 _]]]]]]]. exists ks. auto.
Qed.

(* THE decision: same index <-> same key *)
Theorem spec_index_partition : forall refs ks, Forall (fun a => stable (key a) = true) refs -> spec_indices refs = Some ks ->
  length ks = length refs /\
  forall i j a b ki kj, nth_error refs i = Some a -> nth_error refs j = Some b -> nth_error ks i = Some ki -> nth_error ks j = Some kj ->
    (ki = kj <-> key a = key b).
Proof.
  intros refs ks H E. destruct (assign_spec refs [] tbl_ok_nil H) as [ks' [tblf [ext [H1 [_ [[_ Hd] [H2 Hall]]]]]]].
  unfold spec_indices in E. rewrite E in H1. injection H1 as H1. subst ks'. split. assumption.
  intros i j a b ki kj Ha Hb Hki Hkj.
  destruct (Hall i a ki Ha Hki) as [sa [Hsa Ka]]. destruct (Hall j b kj Hb Hkj) as [sb [Hsb Kb]].
  split.
  - intro Eq. subst kj. rewrite Hsa in Hsb. injection Hsb as Hsb. subst sb. congruence.
  - intro Eq. eapply Hd; eauto. congruence.
Qed.

(* indices are dense: the index of a reference never exceeds the number of references before it *)
Lemma find_spec_bound : forall tbl a k0 k, find_spec tbl a k0 = LFound k -> (k < k0 + length tbl)%nat.
Proof.
  induction tbl as [|s t IH]; simpl; intros a k0 k H; try discriminate.
  unfold compare_specializations in H. destruct (ecmp a s); try discriminate. injection H as H. lia. apply IH in H. lia.
Qed.

Lemma assign_dense : forall refs tbl ks, assign tbl refs = Some ks ->
  forall i k, nth_error ks i = Some k -> (k <= length tbl + i)%nat.
Proof.
  induction refs as [|a r IH]; simpl; intros tbl ks H i k Hk.
  - injection H as H. subst. destruct i; discriminate.
  - unfold fork in H. destruct (find_spec tbl a 0) eqn:E; try discriminate.
    + destruct (assign tbl r) eqn:E2; try discriminate. injection H as H. subst ks.
      destruct i as [|i]; simpl in Hk. injection Hk as Hk. subst. apply find_spec_bound in E. lia.
      pose proof (IH _ _ E2 _ _ Hk) as B. lia.
    + destruct (assign (tbl ++ [eclone a]) r) eqn:E2; try discriminate. injection H as H. subst ks.
      destruct i as [|i]; simpl in Hk. injection Hk as Hk. subst. lia.
      pose proof (IH _ _ E2 _ _ Hk) as B. rewrite app_length in B. simpl in B. lia.
Qed.

Theorem spec_index_dense : forall refs ks i k, spec_indices refs = Some ks -> nth_error ks i = Some k -> (k <= i)%nat.
Proof. intros refs ks i k H Hk. eapply assign_dense in H; eauto. simpl in H. assumption. Qed.

(* looking the same reference up again changes nothing *)
Theorem fork_idempotent : forall tbl a tbl' k, tbl_ok tbl -> stable (key a) = true -> fork tbl a = Some (tbl', k) ->
  fork tbl' a = Some (tbl', k).
Proof.
  intros tbl a tbl' k Ht Hst Hf. pose proof (stable_novs a Hst) as Ha.
  destruct (fork_spec tbl a Ht Hst) as [t1 [k1 [s1 [Hf1 [Ht1 [Hk1 [Hs1 _]]]]]]]. rewrite Hf in Hf1. injection Hf1 as E1 E2. subst t1 k1.
  destruct (fork_spec tbl' a Ht1 Hst) as [t2 [k2 [s2 [Hf2 [Ht2 [Hk2 [Hs2 [ext Hext]]]]]]]].
  unfold fork in *. destruct (find_spec tbl' a 0) eqn:E.
  - injection Hf2 as E1 E2. subst t2 k2. f_equal. f_equal.
    destruct Ht1 as [_ Hd]. eapply Hd; eauto. congruence.
  - exfalso. assert (ecmp a s1 = CNe) by (eapply find_spec_new; eauto).
    assert (ecmp a s1 = CEq) by (apply ecmp_eq_iff; split; auto). congruence.
  - discriminate.
Qed.

(* ... and the hypothesis is needed: the value NULL as an actual parameter is stored as "no value", so the second
   lookup of the SAME reference forks again (asn1c then refers to a specialization it never emits) *)
Definition null_actual : pexpr := wrap [PE 3 1 (Some "?"%str) None (Some PVNull) (0, 0, 0)%Z 0 None false None [] []].
Example fork_idempotent_null_refuted :
  exists tbl' k, fork [] null_actual = Some (tbl', k) /\ fork tbl' null_actual <> Some (tbl', k).
Proof. eexists. eexists. split. vm_compute. reflexivity. vm_compute. discriminate. Qed.

(* ---------------------------------------------------------------- the defect, stated *)
Lemma key_eclone_comm : forall e, key (eclone e) = eclone (key e).
Proof.
  induction e as [m t i r v g f d u c ps ms IH] using pexpr_ind'. simpl. f_equal.
  induction IH as [|x l Hx Hl IH2]; simpl; auto. rewrite Hx, IH2. reflexivity.
Qed.

(* the index of a reference does not depend on any constraint or nested parameter list in it *)
Theorem spec_ignores_constraints : forall refs, spec_indices (map key refs) = spec_indices refs.
Proof.
  intro refs. unfold spec_indices.
  assert (G : forall refs tbl, assign (map key tbl) (map key refs) = assign tbl refs).
  { induction refs0 as [|a r IH]; intro tbl; simpl. reflexivity.
    assert (F : forall tbl k0, find_spec (map key tbl) (key a) k0 = find_spec tbl a k0).
    { induction tbl0 as [|s t IHt]; intro k0; simpl. reflexivity. unfold compare_specializations. rewrite ecmp_key, IHt. reflexivity. }
    unfold fork. rewrite F. destruct (find_spec tbl a 0).
    - rewrite IH. reflexivity.
    - rewrite map_length. replace (map key tbl ++ [eclone (key a)]) with (map key (tbl ++ [eclone a])) by (rewrite map_app; simpl; rewrite key_eclone_comm; reflexivity). rewrite IH. reflexivity.
    - reflexivity. }
  apply (G refs []).
Qed.

(* INTEGER (0..7) and INTEGER (0..255) as the single actual parameter; the numbers 1 and 12 are the tie's codes of
   AMT_TYPE and ASN_BASIC_INTEGER (lib/c10_regions.py) *)
Definition int_with (c : str) : pexpr := PE 1 12 None None None (0, 0, 0)%Z 0 None false (Some c) [] [].
Definition ref_to (name : str) (actuals : list pexpr) : pexpr := PE 2 1 None (Some (0%Z, [name])) None (0, 0, 0)%Z 0 None false None actuals [].

Example distinct_constraints_share_refuted :
  exists a b, a <> b /\ spec_indices [wrap [a]; wrap [b]] = Some [0; 0]%nat.
Proof. exists (int_with "(0..7)"%str), (int_with "(0..255)"%str). split. discriminate. vm_compute. reflexivity. Qed.

Example distinct_nested_actuals_share_refuted :
  exists a b, a <> b /\ spec_indices [wrap [a]; wrap [b]] = Some [0; 0]%nat.
Proof.
  exists (ref_to "Q"%str [PE 1 10 None None None (0, 0, 0)%Z 0 None false None [] []]),
         (ref_to "Q"%str [PE 1 12 None None None (0, 0, 0)%Z 0 None false None [] []]).
  split. discriminate. vm_compute. reflexivity.
Qed.

Example value_set_aborts : spec_indices [wrap [PE 3 1 None None (Some PVValueSet) (0, 0, 0)%Z 0 None false None [] []];
                                         wrap [PE 3 1 None None (Some PVValueSet) (0, 0, 0)%Z 0 None false None [] []]] = None.
Proof. vm_compute. reflexivity. Qed.
