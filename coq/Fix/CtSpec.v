(* Fix/CtSpec.v — the Spec side of C09: what X.680 says a constraint expression
   denotes, and what X.691 clause 10.3 (9.3 in older editions) / X.696 clause 8.2
   make of it for the encoders.  Written from the standards, independent of
   asn1fix_crange.c; only the surface syntax (ess / spec, the X.680
   ElementSetSpecs grammar) and the record type of a table row are shared with
   the model.

   Sets of integers are finite unions of closed intervals over Z with -oo / +oo
   endpoints; membership is decidable.

   X.680 (08/2015) rules used:
     51.2 single value, 51.4 value range (MIN / MAX = least / greatest value of
     the parent type), 50.5-50.7 set arithmetic (UNION, INTERSECTION, EXCEPT,
     ALL EXCEPT), 50.1 "(c)" applied to a parent type selects values of the
     parent, serial application = the result of the previous constraint is the
     parent of the next; 50.3/46.x: a constraint is extensible iff it has a
     marker at its outermost level, and a further (serial) constraint removes the
     extensibility and the extension additions of its parent; only the root
     ("e" of "e, ..., a") contributes root values.
   X.691 10.3.19 / X.696 8.2.5: "EXCEPT and the following value set is
     completely ignored"; 10.3.9/12.2: the effective constraint of an INTEGER is
     (lower bound, upper bound of the root, extensibility). *)
From Coq Require Import ZArith List Bool.
From A1 Require Import Fix.Crange Fix.PerOerVisible.
Import ListNotations.
Local Open Scope Z_scope.

Inductive xz := NegInf | Fin (z : Z) | PosInf.
Definition itv := (xz * xz)%type.
Definition iset := list itv.

Definition xle (a b : xz) : bool :=
  match a, b with
  | NegInf, _ => true
  | _, PosInf => true
  | Fin x, Fin y => x <=? y
  | _, _ => false
  end.
Definition xmin (a b : xz) : xz := if xle a b then a else b.
Definition xmax (a b : xz) : xz := if xle a b then b else a.

Definition in_itv (z : Z) (i : itv) : bool := xle (fst i) (Fin z) && xle (Fin z) (snd i).
Definition mem (s : iset) (z : Z) : bool := existsb (in_itv z) s.

(* an interval that contains at least one integer, else nothing *)
Definition mk (lo hi : xz) : iset :=
  match lo, hi with
  | PosInf, _ => []
  | _, NegInf => []
  | _, _ => if xle lo hi then [(lo, hi)] else []
  end.

Definition full : iset := [(NegInf, PosInf)].
Definition union (s t : iset) : iset := s ++ t.
Definition inter_itv (a b : itv) : iset := mk (xmax (fst a) (fst b)) (xmin (snd a) (snd b)).
Definition inter (s t : iset) : iset := flat_map (fun a => flat_map (inter_itv a) t) s.
Definition xpred (a : xz) : xz := match a with Fin z => Fin (z - 1) | o => o end.
Definition xsucc (a : xz) : xz := match a with Fin z => Fin (z + 1) | o => o end.
(* a minus b *)
Definition diff_itv (b a : itv) : iset :=
  mk (fst a) (xmin (snd a) (xpred (fst b))) ++ mk (xmax (fst a) (xsucc (snd b))) (snd a).
Definition diff (s t : iset) : iset := fold_left (fun acc b => flat_map (diff_itv b) acc) t s.

Definition is_empty (s : iset) : bool := match s with [] => true | _ => false end.
(* greatest lower / least upper bound (of a set built with mk, i.e. without empty intervals) *)
Definition lb (s : iset) : xz := fold_right (fun i acc => xmin (fst i) acc) PosInf s.
Definition ub (s : iset) : xz := fold_right (fun i acc => xmax (snd i) acc) NegInf s.

(* ---- X.680 denotation of an element set, relative to the parent's value set P ---- *)
Definition endpoint (P : iset) (b : bnd) : xz :=
  match b with BInt z => Fin z | BMin => lb P | BMax => ub P end.

(* visible = true: the reading X.691 10.3.19 / X.696 8.2.5 prescribe (the operand
   of EXCEPT is dropped); visible = false: plain X.680 *)
Fixpoint sem (visible : bool) (P : iset) (e : ess) : iset :=
  match e with
  | EVal v => mk (Fin v) (Fin v)
  | ERange lo hi => mk (endpoint P lo) (endpoint P hi)
  | EUnion a b => union (sem visible P a) (sem visible P b)
  | EInter a b => inter (sem visible P a) (sem visible P b)
  | EExcept a b => if visible then sem visible P a else diff (sem visible P a) (sem visible P b)
  | EParen a => sem visible P a
  | EAllExcept a => if visible then P else diff P (sem visible P a)
  end.

Definition root_of (s : spec) : ess := match s with SRoot e | SExt e | SExtAdd e _ => e end.
Definition marker (s : spec) : bool := match s with SRoot _ => false | _ => true end.

(* one "(spec)" applied to parent P: the root values *)
Definition apply_spec (visible : bool) (P : iset) (s : spec) : iset :=
  inter P (sem visible P (root_of s)).

(* a chain  A ::= T (s1)(s2);  B ::= A (s3) ...  is the serial application of all
   its constraints; an empty link ("B ::= A") adds nothing *)
Definition base_set (size : bool) : iset := if size then [(Fin 0, PosInf)] else full.
Definition root (visible size : bool) (chain : list (list spec)) : iset :=
  fold_left (apply_spec visible) (concat chain) (base_set size).
Definition ext (chain : list (list spec)) : bool :=
  match rev (concat chain) with s :: _ => marker s | [] => false end.

(* ---- effective constraints ---- *)
Record eff := mkEff { e_lb : xz; e_ub : xz; e_ext : bool; e_empty : bool }.

(* X.691 10.3: bounds of the (EXCEPT-free) root, extensibility *)
Definition per_effective (size : bool) (chain : list (list spec)) : eff :=
  let r := root true size chain in mkEff (lb r) (ub r) (ext chain) (is_empty r).

(* X.696 8.2: an extensible constraint is not OER-visible.  Only the marker-free
   case is specified here (None = not claimed); then every constraint of the
   chain is visible and the bounds are those of the EXCEPT-free root. *)
Definition oer_effective (size : bool) (chain : list (list spec)) : option eff :=
  if existsb marker (concat chain) then None
  else let r := root true size chain in Some (mkEff (lb r) (ub r) false (is_empty r)).

(* ---- the layout a PER codec derives from an effective constraint (X.691 10.5,
   10.9, 12.1, 12.2), in the vocabulary of asn_per_constraint_t:
   no lower bound            -> unconstrained          (12.2.4)
   lower bound only          -> semi-constrained       (12.2.3)
   both                      -> constrained, range = ub-lb+1, range_bits =
                                ceil(log2 range)       (12.2.2, 10.5.7)
   effective_bits (length determinants, 10.9.4.1): the bits of a constrained
   length when ub < 64K, otherwise -1
   extensible                -> the extension bit      (12.1), whatever the root *)
Definition tables_of (e : eff) : per_row :=
  match e_lb e with
  | Fin l =>
      match e_ub e with
      | Fin u =>
          let r := u - l + 1 in
          mkRow ApcConstrained (e_ext e) (Z.log2_up r)
                (if (r <=? 65536) && (u <? 65536) then Z.log2_up r else -1) l u
      | _ => mkRow ApcSemiConstrained (e_ext e) (-1) (-1) l 0
      end
  | _ => mkRow ApcUnconstrained (e_ext e) (-1) (-1) 0 0
  end.

(* X.696 10.2 / 10.3 INTEGER: { width, positive } of asn_oer_constraint_number_t *)
Definition oer_number_of (e : eff) : Z * Z :=
  match e_lb e, e_ub e with
  | Fin l, Fin u =>
      if l >=? 0 then
        ((if u <=? 255 then 1 else if u <=? 65535 then 2 else if u <=? 4294967295 then 4
          else if u <=? 18446744073709551615 then 8 else 0), 1)
      else
        ((if (l >=? -128) && (u <=? 127) then 1
          else if (l >=? -32768) && (u <=? 32767) then 2
          else if (l >=? -2147483648) && (u <=? 2147483647) then 4
          else if (l >=? -9223372036854775808) && (u <=? 9223372036854775807) then 8 else 0), 0)
  | Fin l, PosInf => if l >=? 0 then (0, 1) else (0, 0)
  | _, _ => (0, 0)
  end.
(* X.696 clause 13/17: a fixed size (lb = ub) needs no length determinant *)
Definition oer_size_of_eff (e : eff) : Z :=
  match e_lb e, e_ub e with
  | Fin l, Fin u => if (l =? u) && (l >=? 0) then l else -1
  | _, _ => -1
  end.

(* ---- normal form (sorted, pairwise separated by a gap), for comparing with the
   element list asn1c prints ---- *)
Fixpoint ins (i : itv) (l : iset) : iset :=
  match l with
  | [] => [i]
  | j :: tl => if xle (fst i) (fst j) then i :: l else j :: ins i tl
  end.
Fixpoint merge (cur : itv) (l : iset) : iset :=
  match l with
  | [] => [cur]
  | j :: tl =>
      if xle (fst j) (xsucc (snd cur))
      then merge (fst cur, xmax (snd cur) (snd j)) tl
      else cur :: merge j tl
  end.
Definition normalize (s : iset) : iset :=
  match fold_right ins [] s with
  | [] => []
  | i :: tl => merge i tl
  end.
