(* CompileFoldProofs — theorems about the status folding of libasn1compiler/asn1compiler.c (model: Fix/CompileFold.v).
   All unbounded (induction over the unit lists and over the unit trees); the `_refuted` statements are witnesses. *)
From Coq Require Import ZArith List Bool Lia Permutation.
From A1 Require Import Fix.CompileFold.
Import ListNotations.
Open Scope Z_scope.

(* ---------------------------------------------------------------- nested induction over unit trees *)
Section Ind.
  Variable P : eunit -> Prop.
  Hypothesis HT : forall own ms, Forall P ms -> P (UType own ms).
  Hypothesis HP : forall ss, Forall P ss -> P (UParam ss).
  Fixpoint eunit_ind' (u : eunit) : P u :=
    match u with
    | UType own ms =>
        HT own ms ((fix go (l : list eunit) : Forall P l :=
                      match l with [] => Forall_nil P | x :: r => Forall_cons x (eunit_ind' x) (go r) end) ms)
    | UParam ss =>
        HP ss ((fix go (l : list eunit) : Forall P l :=
                  match l with [] => Forall_nil P | x :: r => Forall_cons x (eunit_ind' x) (go r) end) ss)
    end.
End Ind.

(* ---------------------------------------------------------------- the loop that stops at the first failure *)
Lemma first_failure_cons : forall (A : Type) (f : A -> Z) x r,
  first_failure f (x :: r) = if f x =? 0 then first_failure f r else f x.
Proof. reflexivity. Qed.

Lemma first_failure_zero_iff : forall (A : Type) (f : A -> Z) (l : list A),
  first_failure f l = 0 <-> Forall (fun x => f x = 0) l.
Proof.
  intros A f l. induction l as [|x r IH].
  - simpl. split; intros; [constructor | reflexivity].
  - rewrite first_failure_cons. destruct (f x =? 0) eqn:E.
    + apply Z.eqb_eq in E. rewrite IH. split; intro H.
      * constructor; assumption.
      * inversion H; assumption.
    + apply Z.eqb_neq in E. split; intro H.
      * contradiction.
      * inversion H; contradiction.
Qed.

(* the returned status is the status of the FIRST failing element; everything before it succeeded *)
Lemma first_failure_is_first : forall (A : Type) (f : A -> Z) (l : list A),
  first_failure f l <> 0 ->
  exists pre x post, l = pre ++ x :: post /\ Forall (fun y => f y = 0) pre /\ f x = first_failure f l /\ f x <> 0.
Proof.
  intros A f l. induction l as [|x r IH]; intro H.
  - simpl in H. contradiction.
  - rewrite first_failure_cons in *. destruct (f x =? 0) eqn:E.
    + apply Z.eqb_eq in E. destruct (IH H) as (pre & y & post & Hl & Hp & Hy & Hn).
      exists (x :: pre), y, post. subst r. repeat split; try assumption. constructor; assumption.
    + apply Z.eqb_neq in E. exists [], x, r. repeat split; try assumption. constructor.
Qed.

Lemma Forall_perm : forall (A : Type) (P : A -> Prop) (l l' : list A),
  Permutation l l' -> Forall P l -> Forall P l'.
Proof.
  intros A P l l' Hp H. rewrite Forall_forall in *. intros x Hx.
  apply H. eapply Permutation_in; [apply Permutation_sym; exact Hp | exact Hx].
Qed.

Theorem first_failure_order_independent : forall (A : Type) (f : A -> Z) (l l' : list A),
  Permutation l l' -> (first_failure f l = 0 <-> first_failure f l' = 0).
Proof.
  intros A f l l' Hp. rewrite !first_failure_zero_iff. split; apply Forall_perm.
  - exact Hp.
  - apply Permutation_sym; exact Hp.
Qed.

(* ---------------------------------------------------------------- one unit *)
Lemma st_zero : forall b, st b = 0 <-> b = true.
Proof. destruct b; simpl; split; intro H; try reflexivity; discriminate. Qed.

Lemma ret_param : forall ss, ret (UParam ss) = first_failure ret ss.
Proof. reflexivity. Qed.

Theorem ret_zero_iff : forall u, members_ok u = true -> (ret u = 0 <-> all_ok u = true).
Proof.
  induction u as [own ms IH | ss IH] using eunit_ind'; intro Hm.
  - simpl in *. rewrite Hm. rewrite andb_true_r. apply st_zero.
  - rewrite ret_param, first_failure_zero_iff. simpl in *.
    rewrite forallb_forall in *. rewrite Forall_forall in *.
    split; intros H x Hx.
    + apply (IH x Hx (Hm x Hx)). apply H; exact Hx.
    + apply (IH x Hx (Hm x Hx)). apply H; exact Hx.
Qed.

(* the specializations of one parameterized type, in any order of first use *)
Theorem spec_loop_order_independent : forall ss ss',
  Permutation ss ss' -> (ret (UParam ss) = 0 <-> ret (UParam ss') = 0).
Proof. intros. rewrite !ret_param. apply first_failure_order_independent; assumption. Qed.

(* ---------------------------------------------------------------- diagnostics *)
Lemma sum_nat_zero : forall (A : Type) (f : A -> nat) (l : list A),
  Forall (fun x => f x = O) l -> sum_nat f l = O.
Proof.
  intros A f l H. induction H as [|x r Hx _ IH]; simpl; [reflexivity | rewrite Hx, IH; reflexivity].
Qed.

Lemma sum_nat_zero_inv : forall (A : Type) (f : A -> nat) (l : list A),
  sum_nat f l = O -> Forall (fun x => f x = O) l.
Proof.
  intros A f l. induction l as [|x r IH]; simpl; intro H; constructor; [lia | apply IH; lia].
Qed.

Lemma lines_until_zero : forall (A : Type) (rt : A -> Z) (ft : A -> nat) (l : list A),
  Forall (fun x => ft x = O) l -> lines_until rt ft l = O.
Proof.
  intros A rt ft l H. induction H as [|x r Hx _ IH]; simpl; [reflexivity|].
  rewrite Hx, IH. destruct (rt x =? 0); reflexivity.
Qed.

Lemma lines_until_zero_inv : forall (A : Type) (rt : A -> Z) (ft : A -> nat) (l : list A),
  Forall (fun x => rt x = 0) l -> lines_until rt ft l = O -> Forall (fun x => ft x = O) l.
Proof.
  intros A rt ft l H. induction H as [|x r Hx _ IH]; simpl; intro E; [constructor|].
  rewrite Hx in E. simpl in E. constructor; [lia | apply IH; lia].
Qed.

Lemma all_ok_quiet : forall u, all_ok u = true -> ret u = 0 /\ fatals u = O.
Proof.
  induction u as [own ms IH | ss IH] using eunit_ind'; intro H.
  - simpl in H. apply andb_true_iff in H. destruct H as [Ho Hms]. subst own. split; [reflexivity|].
    simpl. rewrite sum_nat_zero; [reflexivity|].
    rewrite forallb_forall in Hms. rewrite Forall_forall in *. intros x Hx. apply (IH x Hx). apply Hms; exact Hx.
  - simpl in H. rewrite forallb_forall in H. rewrite Forall_forall in IH.
    assert (Hr : first_failure ret ss = 0).
    { apply first_failure_zero_iff. rewrite Forall_forall. intros x Hx. apply (IH x Hx). apply H; exact Hx. }
    split; [exact Hr|]. simpl. rewrite Hr. simpl.
    rewrite lines_until_zero; [reflexivity|]. rewrite Forall_forall. intros x Hx. apply (IH x Hx). apply H; exact Hx.
Qed.

(* the converse: a unit that prints no `Cannot compile` line has no failing part anywhere below it *)
Lemma fatals_zero_all_ok : forall u, fatals u = O -> all_ok u = true.
Proof.
  induction u as [own ms IH | ss IH] using eunit_ind'; intro H.
  - simpl in H. destruct own; [|lia]. simpl.
    assert (Hs : sum_nat fatals ms = O) by lia.
    apply sum_nat_zero_inv in Hs. rewrite forallb_forall. rewrite Forall_forall in *.
    intros x Hx. apply (IH x Hx). apply Hs; exact Hx.
  - simpl in H. destruct (first_failure ret ss =? 0) eqn:E; [|lia]. apply Z.eqb_eq in E.
    apply first_failure_zero_iff in E.
    assert (Hl : lines_until ret fatals ss = O) by lia.
    apply (lines_until_zero_inv _ ret fatals ss E) in Hl.
    simpl. rewrite forallb_forall. rewrite Forall_forall in *.
    intros x Hx. apply (IH x Hx). apply Hl; exact Hx.
Qed.

(* a failing unit prints at least one FATAL line (and writes at least one #error line) *)
Lemma failure_is_diagnosed : forall u, ret u <> 0 -> (fatals u >= 1)%nat.
Proof.
  intros [own ms | ss] H; simpl in *.
  - destruct own; simpl in H; [contradiction | lia].
  - destruct (first_failure ret ss =? 0) eqn:E; [apply Z.eqb_eq in E; contradiction | lia].
Qed.

Lemma top_ret_is_diagnosed : forall us, top_ret us <> 0 -> (top_fatals us >= 1)%nat.
Proof.
  intros us Hr. unfold top_ret, top_fatals in *. induction us as [|u r IH].
  - simpl in Hr. contradiction.
  - rewrite first_failure_cons in Hr. simpl. destruct (ret u =? 0) eqn:E.
    + specialize (IH Hr). lia.
    + lia.
Qed.

Lemma top_fatals_zero_iff : forall us, top_fatals us = O <-> forallb all_ok us = true.
Proof.
  intro us. unfold top_fatals. induction us as [|u r IH]; [simpl; split; reflexivity|].
  simpl. destruct (ret u =? 0) eqn:E.
  - split; intro H.
    + assert (Hu : fatals u = O) by lia. rewrite (fatals_zero_all_ok u Hu). simpl. apply IH. lia.
    + apply andb_true_iff in H. destruct H as [Hu Hr]. destruct (all_ok_quiet u Hu) as [_ Hf]. rewrite Hf.
      apply IH in Hr. lia.
  - split; intro H; [lia|]. apply andb_true_iff in H. destruct H as [Hu _].
    destruct (all_ok_quiet u Hu) as [Hr _]. apply Z.eqb_neq in E. contradiction.
Qed.

(* ---------------------------------------------------------------- the compiler *)
(* the exit status is zero iff no `Cannot compile` line was printed (the counter test subsumes the returned status) *)
Lemma exit_zero : forall us, exit_status us = 0 <-> top_fatals us = O.
Proof.
  intro us. unfold exit_status. destruct (top_ret us =? 0) eqn:E; simpl.
  - destruct (Nat.eqb (top_fatals us) 0) eqn:F.
    + apply Nat.eqb_eq in F. split; intro; [assumption | reflexivity].
    + apply Nat.eqb_neq in F. split; intro H; [discriminate | contradiction].
  - apply Z.eqb_neq in E. pose proof (top_ret_is_diagnosed us E) as Hd. split; intro H; [discriminate | lia].
Qed.

(* THE statement: asn1c exits 0 iff every unit, component and specialization could be emitted *)
Theorem exit_zero_iff_all_ok : forall us, exit_status us = 0 <-> forallb all_ok us = true.
Proof. intro us. rewrite exit_zero. apply top_fatals_zero_iff. Qed.

Lemma forallb_perm : forall (A : Type) (f : A -> bool) (l l' : list A),
  Permutation l l' -> (forallb f l = true <-> forallb f l' = true).
Proof.
  intros A f l l' Hp. rewrite !forallb_forall. split; intros H x Hx; apply H.
  - eapply Permutation_in; [apply Permutation_sym; exact Hp | exact Hx].
  - eapply Permutation_in; [exact Hp | exact Hx].
Qed.

Theorem exit_order_independent : forall us us',
  Permutation us us' -> (exit_status us = 0 <-> exit_status us' = 0).
Proof. intros us us' Hp. rewrite !exit_zero_iff_all_ok. apply forallb_perm; exact Hp. Qed.

(* a refused input has a top-level expression with a failing part; when the loop itself stopped it is the first
   expression whose emitter returned non-zero *)
Theorem exit_nonzero_has_culprit : forall us,
  exit_status us <> 0 -> exists pre u post, us = pre ++ u :: post /\ all_ok u = false.
Proof.
  intros us H. assert (Hf : forallb all_ok us <> true) by (intro E; apply H; apply exit_zero_iff_all_ok; exact E).
  induction us as [|u r IH].
  - simpl in Hf. exfalso. apply Hf. reflexivity.
  - simpl in Hf. destruct (all_ok u) eqn:Eu.
    + simpl in Hf. destruct IH as (pre & v & post & Hl & Hv).
      * intro E. apply Hf. apply exit_zero_iff_all_ok. exact E.
      * exact Hf.
      * exists (u :: pre), v, post. subst r. split; [reflexivity | exact Hv].
    + exists [], u, r. split; [reflexivity | exact Eu].
Qed.

Theorem top_ret_is_first_failure : forall us,
  top_ret us <> 0 ->
  exists pre u post, us = pre ++ u :: post /\ Forall (fun y => ret y = 0) pre /\ ret u <> 0.
Proof.
  intros us Hr.
  destruct (first_failure_is_first _ ret us Hr) as (pre & u & post & Hl & Hp & _ & Hn).
  exists pre, u, post. repeat split; assumption.
Qed.

Theorem rejected_is_diagnosed : forall us, exit_status us <> 0 -> (top_fatals us >= 1)%nat.
Proof.
  intros us H. destruct (top_fatals us) eqn:E; [|lia]. exfalso. apply H. apply exit_zero. exact E.
Qed.

(* the oracle of the check, as a theorem about the model: a FATAL `Cannot compile` line is printed iff the exit
   status is non-zero *)
Theorem fatal_iff_nonzero_exit : forall us, top_fatals us = O <-> exit_status us = 0.
Proof. intro us. symmetry. apply exit_zero. Qed.

(* ---------------------------------------------------------------- what does NOT hold *)
(* the last-wins loop (seeded change C10-6): accepted although a specialization failed, and the verdict depends on the order *)
Theorem last_wins_refuted :
  exists us, forallb members_ok us = true /\ exit_last us = 0 /\ forallb all_ok us = false.
Proof. exists [UParam [UType false []; UType true []]]. vm_compute. repeat split; reflexivity. Qed.

Theorem last_wins_order_dependent :
  exists ss ss', Permutation ss ss' /\ ret_last (UParam ss) = 0 /\ ret_last (UParam ss') <> 0.
Proof.
  exists [UType false []; UType true []], [UType true []; UType false []]. split; [apply perm_swap|].
  vm_compute. split; [reflexivity | discriminate].
Qed.

Example fold_sample_first : exit_status [UType false []; UType true []; UParam [UType true []]] = 70.
Proof. reflexivity. Qed.
Example fold_sample_spec_middle : top_fatals [UType true []; UParam [UType true []; UType false []; UType true []]; UType true []] = 3%nat.
Proof. reflexivity. Qed.
Example fold_sample_ok : exit_status [UType true [UType true []]; UParam []; UParam [UType true []]] = 0.
Proof. reflexivity. Qed.
