(* FileSet.v — executable model of the set of per-type files asn1c writes for a list of modules
   (libasn1compiler/asn1c_save.c: asn1c_save_streams opens <stem>.c and <stem>.h with
   stem = asn1c_make_identifier(AMI_MASK_ONLY_SPACES, expr), i.e. Module_Identifier when
   asn1f_check_duplicate marked the expression TM_NAMECLASH and Identifier otherwise; hyphens are kept).
   Built on Fix/NameClash.v (the marking, property C12's model): this file adds which top-level
   expressions are saved at all (type assignments; value assignments are not) and the vocabulary of
   the injectivity theorem of FileSetProofs.v.  No proofs in this file. *)
From Coq Require Import List Bool Ascii.
From A1 Require Import Fix.Printer Fix.NameClash.
Import ListNotations.
Local Open Scope list_scope.

(* module name, top-level assignments in source order: (identifier, is it a type assignment) *)
Definition fmod := (str * list (str * bool))%type.
Definition to_nmod (m : fmod) : nmod := (fst m, map fst (snd m)).
Definition kinds (ms : list fmod) : list bool := flat_map (fun m => map snd (snd m)) ms.

Fixpoint select {A : Type} (l : list A) (ks : list bool) : list A :=
  match l, ks with
  | x :: l', k :: ks' => if k then x :: select l' ks' else select l' ks'
  | _, _ => []
  end.

(* the stems of the files written, in the order asn1c writes them (command-line order of the modules, source order
   inside a module); None = asn1c refuses the module list (the same identifier twice in modules of one name) *)
Definition file_stems (ms : list fmod) : option (list str) :=
  match cnames_c (map to_nmod ms) with
  | None => None
  | Some ns => Some (select ns (kinds ms))
  end.

(* the stems under the rule "the file is named after the type alone" (what the seeded change C10-3 does) *)
Definition bare_stems (ms : list fmod) : list str := select (map snd (flat (map to_nmod ms))) (kinds ms).

(* ASN.1 names (X.680 12.2, 12.3: letters, digits, hyphens) never contain the low line that
   asn1c_make_identifier puts between the module name and the identifier *)
Definition low_line : ascii := Ascii.ascii_of_nat 95.
Fixpoint has_us (s : str) : bool :=
  match s with SNil => false | SCons c s' => Ascii.eqb c low_line || has_us s' end.
Definition clean_mod (m : nmod) : bool := negb (has_us (fst m)) && forallb (fun i => negb (has_us i)) (snd m).
Definition clean (ms : list nmod) : bool := forallb clean_mod ms.
