(* ConstrOpsProofs.v — what is proved about Fix/ConstrOps.v.
   Proved unbounded: the generic separated-list lemma every operator list of the grammar goes through
   (unions, intersections: [p_sep1_ok]), the round trip of the three smallest `ALL EXCEPT` shapes for
   every atom ([aex_roundtrip]).  Refuted by witness: the variant "ALL EXCEPT ( operand )" ([aex_variant_refuted]).
   Executed (Example, vm_compute): the directed trees of the check round-trip.
   NOT proved here: parse (pp false c) = Some c for every well-formed tree (the check executes it per case
   through `c12_ops`; the corresponding theorem for unions / intersections / serial constraints / SIZE is
   C12_parse_pp over Fix/Printer.v). *)
From Coq Require Import List Bool Arith Lia.
From A1 Require Import Fix.ConstrOps.
Import ListNotations.

Lemma pp_sep_cons2 : forall sep f x y l,
  pp_sep sep f (x :: y :: l) = f x ++ sep :: pp_sep sep f (y :: l).
Proof. reflexivity. Qed.

Lemma p_sep1_S : forall pe sepb k ts,
  p_sep1 pe sepb (S k) ts =
  match pe ts with
  | None => None
  | Some (x, r) =>
      match r with
      | t :: r' => if sepb t then match p_sep1 pe sepb k r' with Some (l, r'') => Some (x :: l, r'') | None => None end
                   else Some ([x], r)
      | [] => Some ([x], r)
      end
  end.
Proof. reflexivity. Qed.

Definition head_not (sepb : tok -> bool) (r : list tok) : Prop :=
  match r with t :: _ => sepb t = false | [] => True end.

(* every separated list of the grammar: the elements are re-read one by one, the list ends where the
   separator does not follow; the fuel only has to exceed the number of tokens *)
Lemma p_sep1_ok : forall (pe : parser cons) (sepb : tok -> bool) (sep : tok) (f : cons -> list tok),
  sepb sep = true ->
  forall l k rest, l <> [] -> length (pp_sep sep f l ++ rest) < k ->
  (forall x r, In x l -> length (f x ++ r) <= length (pp_sep sep f l ++ rest) ->
               (r = rest \/ exists r', r = sep :: r') -> pe (f x ++ r) = Some (x, r)) ->
  head_not sepb rest ->
  p_sep1 pe sepb k (pp_sep sep f l ++ rest) = Some (l, rest).
Proof.
  intros pe sepb sep f Hsep. induction l as [|x l IH]; intros k rest Hne Hk He Hr.
  - congruence.
  - destruct k as [|k]; [lia|]. destruct l as [|y l].
    + simpl. rewrite (He x rest); [| left; reflexivity | simpl; lia | left; reflexivity].
      destruct rest as [|t r]; [reflexivity|]. simpl in Hr. rewrite Hr. reflexivity.
    + rewrite pp_sep_cons2 in *. remember (pp_sep sep f (y :: l)) as tl eqn:Etl.
      rewrite <- app_assoc in *. rewrite <- app_comm_cons in *.
      rewrite p_sep1_S.
      rewrite (He x (sep :: tl ++ rest)); [| left; reflexivity | lia | right; eexists; reflexivity].
      rewrite Hsep.
      rewrite (IH k rest); [reflexivity | discriminate | | | exact Hr].
      * rewrite (app_length (f x)) in Hk. simpl in Hk. lia.
      * intros x' r Hin Hlen Hor. apply He; [right; exact Hin | | exact Hor].
        rewrite (app_length (f x)). simpl. lia.
Qed.

(* ALL EXCEPT over an atom or a parenthesised atom / union of atoms, any atom numbers: re-read as itself *)
Lemma aex_roundtrip : forall n m,
  parse (pp false (CSet [Aex (Atom n)])) = Some (CSet [Aex (Atom n)]) /\
  parse (pp false (CSet [Aex (CSet [Uni [Atom n; Atom m]])])) = Some (CSet [Aex (CSet [Uni [Atom n; Atom m]])]) /\
  parse (pp false (CSet [Csv [Aex (Atom n); Ext]])) = Some (CSet [Csv [Aex (Atom n); Ext]]).
Proof. intros n m. repeat split. Qed.

(* refuted: with the variant printer the printed tokens are accepted but are not a fixpoint — the witness
   is the smallest ALL EXCEPT constraint; three rounds give three different, growing texts *)
Theorem aex_variant_refuted : exists c c1 c2,
  wf_top c = true /\
  parse (pp true c) = Some c1 /\ parse (pp true c1) = Some c2 /\
  c1 <> c /\ c2 <> c1 /\
  length (pp true c) < length (pp true c1) /\ length (pp true c1) < length (pp true c2) /\
  parse (pp false c) = Some c.
Proof.
  exists (CSet [Aex (Atom 0)]), (CSet [Aex (CSet [Atom 0])]), (CSet [Aex (CSet [CSet [Atom 0]])]).
  repeat split; try discriminate; vm_compute; lia.
Qed.

(* the directed trees of the check (one per operator and operand position) *)
Definition ex_trees : list cons :=
  [ CSet [Aex (Atom 0)];
    CSet [Aex (CSet [Uni [Atom 0; Atom 1]])];
    CSet [Pre 1 (CSet [Aex (Atom 0)]); Pre 0 (CSet [Atom 1])];
    CSet [Exc (CSet [Atom 0]) (CSet [Uni [Atom 1; Atom 2]])];
    CSet [Exc (Atom 0) (Atom 1)];
    CSet [Aex (CSet [Aex (Atom 0)])];
    CSet [Csv [Aex (CSet [Atom 0]); Ext; Aex (Atom 1)]];
    CSet [Uni [Atom 0; Int [Atom 1; Exc (Atom 2) (Atom 3)]; Atom 4]];
    CSet [Int [Exc (Atom 0) (Atom 1); Exc (CSet [Atom 2]) (CSet [Atom 3])]];
    CSet [Pre 2 (CSet [Pre 0 (CSet [Csv [Atom 0; Ext]])])];
    CSet [Ext];
    CSet [Csv [Atom 0; Ext]; Atom 1];
    CSet [Atom 0; Csv [Atom 1; Ext]; Aex (Atom 2)];
    CSet [Exc (CSet [Int [Atom 0; Atom 1]]) (CSet [Uni [Atom 2; CSet [Exc (Atom 3) (Atom 4)]]])] ].

Example ex_trees_roundtrip :
  forallb (fun c => wf_top c && match parse (pp false c) with Some c' => true | None => false end) ex_trees = true /\
  map (fun c => parse (pp false c)) ex_trees = map Some ex_trees.
Proof. split; vm_compute; reflexivity. Qed.
