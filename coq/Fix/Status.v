(* Status.v — how libasn1fix turns "a FATAL was diagnosed somewhere" into the exit status of asn1c
   (C11 mechanism "fatal count turns into exit status"; wave 4, seeded C11-6).

   Every pass of the fixer returns a status: 0, 1 (a warning was recorded), -1 (fatal).  Callers merge the
   status of a callee into their own with the macro RET2RVAL (libasn1fix/asn1fix_internal.h):

       switch(ret) { case 0: break;
                     case 1: if(rv) break;  /* Fall through */
                     case -1: rv = ret; break;
                     default: assert(...); rv = -1; }

   The calls form a tree: asn1f_fix_module__phase_1 folds the module-header checks and, per definition, phase_1_1
   (which folds its passes), asn1f_recurse_expr folds the callback on a node and on every member, and so on.
   asn1f_process does NOT use the macro for the modules: it counts, per module and phase, the -1 and the 1 results
   and returns  fatals ? -1 : warnings ? 1 : 0.   asn1c/asn1c.c: 0 -> go on; 1 -> go on unless -Werror; -1 -> exit
   EX_DATAERR (65) before anything is written.

   Modelled: the status lattice, the macro ([ret2rval]; [status_of_Z] is its `default:` branch with assert compiled
   out), folds over a list and over a call tree, asn1f_process, the exit status.  [ret2rval_sticky] is the variant
   "the first non-zero status is kept" (seeded change C11-6); it is only used in refuted statements.
   No proofs in this file. *)
From Coq Require Import List Bool ZArith.
Import ListNotations.
Local Open Scope Z_scope.

Inductive status := SOk | SWarn | SFatal.

Definition Z_of_status (s : status) : Z := match s with SOk => 0 | SWarn => 1 | SFatal => -1 end.

(* what the macro makes of an int: 0, 1, and "-1 or anything else" *)
Definition status_of_Z (z : Z) : status := if z =? 0 then SOk else if z =? 1 then SWarn else SFatal.

(* RET2RVAL(ret, rv): the new value of rv *)
Definition ret2rval (ret rv : status) : status :=
  match ret with
  | SOk => rv
  | SWarn => match rv with SOk => SWarn | _ => rv end
  | SFatal => SFatal
  end.

(* "once a problem is recorded, it is sticky" *)
Definition ret2rval_sticky (ret rv : status) : status :=
  match rv with SOk => ret | _ => rv end.

Definition merge_fn := status -> status -> status.

(* int rvalue = 0; ret = f1(); RET2RVAL(ret, rvalue); ret = f2(); RET2RVAL(ret, rvalue); ...; return rvalue; *)
Definition fold_with (f : merge_fn) (rets : list status) : status :=
  fold_left (fun rv ret => f ret rv) rets SOk.

Definition fold_status : list status -> status := fold_with ret2rval.

(* the call tree: a leaf is a check that returns a status by itself, a node folds its callees in call order *)
Inductive stree := Leaf (s : status) | Node (callees : list stree).

Fixpoint eval (f : merge_fn) (t : stree) : status :=
  match t with
  | Leaf s => s
  | Node l => fold_with f (map (eval f) l)
  end.

Fixpoint leaves (t : stree) : list status :=
  match t with
  | Leaf s => [s]
  | Node l => flat_map leaves l
  end.

Definition is_fatal (s : status) : bool := match s with SFatal => true | _ => false end.
Definition is_warn (s : status) : bool := match s with SWarn => true | _ => false end.

(* asn1f_process: phase 1 of every module, then phase 2 of every module; counted, not folded *)
Definition count_status (rets : list status) : status :=
  if existsb is_fatal rets then SFatal else if existsb is_warn rets then SWarn else SOk.

Definition process (f : merge_fn) (mods : list (stree * stree)) : status :=
  count_status (map (fun m => eval f (fst m)) mods ++ map (fun m => eval f (snd m)) mods).

Definition EX_DATAERR : Z := 65.

(* asn1c.c: the exit status as far as the fixer decides it (0 = the compiler stage is entered) *)
Definition exit_code (werror : bool) (s : status) : Z :=
  match s with
  | SOk => 0
  | SWarn => if werror then EX_DATAERR else 0
  | SFatal => EX_DATAERR
  end.

Definition run_exit (f : merge_fn) (werror : bool) (mods : list (stree * stree)) : Z :=
  exit_code werror (process f mods).

(* every leaf of every phase of every module *)
Definition all_leaves (mods : list (stree * stree)) : list status :=
  flat_map (fun m => leaves (fst m)) mods ++ flat_map (fun m => leaves (snd m)) mods.

(* ---- the specification: the order in which statuses arrive is irrelevant ---- *)
Definition worst (l : list status) : status :=
  if existsb is_fatal l then SFatal else if existsb is_warn l then SWarn else SOk.
