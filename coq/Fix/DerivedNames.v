(* DerivedNames.v — model of the clash decision of libasn1compiler/asn1c_naming.c
   (register_global_name / c_name_clash) over the names asn1c DERIVES from a type.

   A type is (identity, module, the list of global names registered for it: for base name b
   the C registers  b, "struct b", "enum b_PR", b_PR, "enum b", e_b).  The table holds
   (name, owner identity).  A name found in the table under ANOTHER owner is a clash; the
   module of the two expressions plays no part ([scan]).  [scan_same_module] is the decision
   that counts a clash only between expressions of one module (what a "the module prefix
   separates them" shortcut would do).  Names are abstract: anything with a decidable equality. *)
From Coq Require Import List Bool Arith.
Import ListNotations.

Section Names.
Variable name : Type.
Variable neqb : name -> name -> bool.
Hypothesis neqb_spec : forall a b, neqb a b = true <-> a = b.

Record ty := mkTy { tid : nat; tmod : nat; tnames : list name }.

Definition entry := (name * ty)%type.

Definition hits (same : ty -> ty -> bool) (seen : list entry) (t : ty) : bool :=
  existsb (fun n => existsb (fun e => neqb n (fst e) && negb (tid (snd e) =? tid t) && same (snd e) t) seen) (tnames t).

Fixpoint scan_with (same : ty -> ty -> bool) (seen : list entry) (ts : list ty) : bool :=
  match ts with
  | [] => false
  | t :: r => hits same seen t || scan_with same (seen ++ map (fun n => (n, t)) (tnames t)) r
  end.

Definition any_module (_ _ : ty) : bool := true.
Definition one_module (a b : ty) : bool := tmod a =? tmod b.

Definition scan (ts : list ty) : bool := scan_with any_module [] ts.
Definition scan_same_module (ts : list ty) : bool := scan_with one_module [] ts.

(* specification: two types of different identity share a registered name *)
Definition share (a b : ty) : Prop := tid a <> tid b /\ exists n, In n (tnames a) /\ In n (tnames b).

Lemma hits_spec : forall same seen t,
  hits same seen t = true <->
  exists n e, In n (tnames t) /\ In e seen /\ fst e = n /\ tid (snd e) <> tid t /\ same (snd e) t = true.
Proof.
  intros same seen t. unfold hits. rewrite existsb_exists. split.
  - intros [n [Hn H]]. rewrite existsb_exists in H. destruct H as [e [He H]].
    apply andb_prop in H. destruct H as [H Hs]. apply andb_prop in H. destruct H as [Hq Hd].
    exists n, e. repeat split; auto.
    + symmetry. apply neqb_spec; exact Hq.
    + apply negb_true_iff in Hd. apply Nat.eqb_neq in Hd. exact Hd.
  - intros [n [e [Hn [He [Hf [Hd Hs]]]]]]. exists n. split; auto.
    rewrite existsb_exists. exists e. split; auto.
    apply andb_true_intro. split; [apply andb_true_intro; split|]; auto.
    + apply neqb_spec. symmetry; exact Hf.
    + apply negb_true_iff. apply Nat.eqb_neq. exact Hd.
Qed.

Definition seen_of (ts : list ty) : list entry := flat_map (fun t => map (fun n => (n, t)) (tnames t)) ts.

Lemma in_seen_of : forall ts e, In e (seen_of ts) <-> In (snd e) ts /\ In (fst e) (tnames (snd e)).
Proof.
  intros ts e. unfold seen_of. rewrite in_flat_map. split.
  - intros [t [Ht H]]. rewrite in_map_iff in H. destruct H as [n [E Hn]]. subst e. simpl. auto.
  - intros [Ht Hn]. exists (snd e). split; auto. rewrite in_map_iff. exists (fst e). split; auto. destruct e; reflexivity.
Qed.

Lemma seen_of_app : forall a b, seen_of (a ++ b) = seen_of a ++ seen_of b.
Proof. intros. unfold seen_of. apply flat_map_app. Qed.

(* the decision, for any list of types: a clash is reported iff some type shares a name with an EARLIER
   type of another identity (that the relation [same] admits) *)
Theorem scan_with_spec : forall same ts pre,
  scan_with same (seen_of pre) ts = true <->
  exists l1 t l2, ts = l1 ++ t :: l2 /\
    exists u n, In u (pre ++ l1) /\ In n (tnames u) /\ In n (tnames t) /\ tid u <> tid t /\ same u t = true.
Proof.
  intros same ts. induction ts as [|t r IH]; intros pre; simpl.
  - split; [discriminate|]. intros [l1 [t [l2 [E _]]]]. destruct l1; discriminate.
  - rewrite orb_true_iff. rewrite hits_spec.
    assert (Hs : seen_of pre ++ map (fun n => (n, t)) (tnames t) = seen_of (pre ++ [t])).
    { rewrite seen_of_app. simpl. rewrite app_nil_r. reflexivity. }
    rewrite Hs. rewrite IH. split.
    + intros [[n [e [Hn [He [Hf [Hd Hsm]]]]]] | [l1 [t' [l2 [E [u [n H]]]]]]].
      * apply in_seen_of in He. destruct He as [Hu Hnu].
        exists [], t, r. split; [reflexivity|]. exists (snd e), n. rewrite app_nil_r. subst n. repeat split; auto.
      * exists (t :: l1), t', l2. split; [simpl; f_equal; exact E|].
        exists u, n. rewrite <- app_assoc in H. simpl in H. exact H.
    + intros [l1 [t' [l2 [E [u [n [Hu [Hnu [Hnt [Hd Hsm]]]]]]]]]].
      destruct l1 as [|x l1]; simpl in E; inversion E; subst.
      * left. rewrite app_nil_r in Hu. exists n, (n, u). simpl. repeat split; auto.
        apply in_seen_of. simpl. auto.
      * right. exists l1, t', l2. split; [reflexivity|]. exists u, n.
        rewrite <- app_assoc. simpl. repeat split; auto.
Qed.

(* the decision of the C: modules play no part *)
Theorem scan_spec : forall ts,
  scan ts = true <->
  exists l1 t l2, ts = l1 ++ t :: l2 /\ exists u, In u l1 /\ share u t.
Proof.
  intros ts. unfold scan. change (@nil entry) with (seen_of []). rewrite scan_with_spec. simpl.
  split; intros [l1 [t [l2 [E H]]]]; exists l1, t, l2; (split; [exact E|]).
  - destruct H as [u [n [Hu [H1 [H2 [Hd _]]]]]]. exists u. split; auto. split; auto. exists n; auto.
  - destruct H as [u [Hu [Hd [n [H1 H2]]]]]. exists u, n. repeat split; auto.
Qed.

(* a decision restricted to one module reports less ... *)
Theorem same_module_weaker : forall ts, scan_same_module ts = true -> scan ts = true.
Proof.
  intros ts. unfold scan_same_module, scan. change (@nil entry) with (seen_of []).
  rewrite !scan_with_spec. intros [l1 [t [l2 [E [u [n [Hu [H1 [H2 [Hd _]]]]]]]]]].
  exists l1, t, l2. split; auto. exists u, n. repeat split; auto.
Qed.

(* ... and misses exactly the sharing between modules: with every type in a module of its own nothing is ever reported *)
Theorem same_module_blind : forall ts,
  (forall l1 t l2 u, ts = l1 ++ t :: l2 -> In u l1 -> tmod u <> tmod t) ->
  scan_same_module ts = false.
Proof.
  intros ts H. destruct (scan_same_module ts) eqn:E; auto. exfalso.
  unfold scan_same_module in E. change (@nil entry) with (seen_of []) in E.
  apply scan_with_spec in E. destruct E as [l1 [t [l2 [E [u [n [Hu [_ [_ [_ Hs]]]]]]]]]].
  simpl in Hu. apply (H l1 t l2 u E Hu). unfold one_module in Hs. apply Nat.eqb_eq in Hs. exact Hs.
Qed.

(* the two agree on inputs that are one module *)
Theorem same_module_agrees_in_one_module : forall ts m,
  (forall t, In t ts -> tmod t = m) -> scan_same_module ts = scan ts.
Proof.
  intros ts m H. apply eq_true_iff_eq. split; [apply same_module_weaker|].
  unfold scan_same_module, scan. change (@nil entry) with (seen_of []).
  rewrite !scan_with_spec. intros [l1 [t [l2 [E [u [n [Hu [H1 [H2 [Hd _]]]]]]]]]].
  exists l1, t, l2. split; auto. exists u, n. repeat split; auto.
  unfold one_module. apply Nat.eqb_eq. simpl in Hu. subst ts.
  rewrite (H u), (H t); auto; apply in_or_app; [right; left; reflexivity | left; exact Hu].
Qed.

End Names.
