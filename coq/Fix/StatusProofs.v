(* StatusProofs.v — the status fold of libasn1fix (coq/Fix/Status.v): the folded status is the WORST status
   recorded anywhere in the call tree, whatever the order; hence the run is refused iff some check was fatal
   (or, under -Werror, some check warned).  The "first status is sticky" variant is refuted, and shown to be
   indistinguishable from the real macro on runs that never record a warning. *)
From Coq Require Import List Bool ZArith Lia Permutation.
From A1 Require Import Fix.Status.
Import ListNotations.
Local Open Scope Z_scope.

(* the order Ok < Warn < Fatal *)
Definition join (a b : status) : status :=
  match a, b with
  | SFatal, _ | _, SFatal => SFatal
  | SWarn, _ | _, SWarn => SWarn
  | SOk, SOk => SOk
  end.

Lemma ret2rval_join : forall ret rv, ret2rval ret rv = join rv ret.
Proof. intros [] []; reflexivity. Qed.

Lemma join_assoc : forall a b c, join a (join b c) = join (join a b) c.
Proof. intros [] [] []; reflexivity. Qed.
Lemma join_comm : forall a b, join a b = join b a.
Proof. intros [] []; reflexivity. Qed.
Lemma join_ok_l : forall a, join SOk a = a.
Proof. intros []; reflexivity. Qed.
Lemma join_ok_r : forall a, join a SOk = a.
Proof. intros []; reflexivity. Qed.

Lemma worst_cons : forall s l, worst (s :: l) = join s (worst l).
Proof.
  intros s l. unfold worst. simpl. destruct s; simpl.
  - destruct (existsb is_fatal l); [reflexivity|]. destruct (existsb is_warn l); reflexivity.
  - destruct (existsb is_fatal l); [reflexivity|]. destruct (existsb is_warn l); reflexivity.
  - reflexivity.
Qed.

Lemma worst_nil : worst [] = SOk.
Proof. reflexivity. Qed.

Lemma worst_app : forall a b, worst (a ++ b) = join (worst a) (worst b).
Proof.
  induction a as [|s a IH]; intro b.
  - change ([] ++ b) with b. rewrite worst_nil, join_ok_l. reflexivity.
  - change ((s :: a) ++ b) with (s :: (a ++ b)). rewrite !worst_cons, IH, join_assoc. reflexivity.
Qed.

Lemma fold_left_join : forall l a, fold_left (fun rv ret => ret2rval ret rv) l a = join a (worst l).
Proof.
  induction l as [|s l IH]; intro a.
  - simpl fold_left. rewrite worst_nil, join_ok_r. reflexivity.
  - simpl fold_left. rewrite IH, worst_cons, ret2rval_join, join_assoc. reflexivity.
Qed.

(* the macro computes the worst status of the list *)
Theorem fold_is_worst : forall l, fold_status l = worst l.
Proof. intro l. unfold fold_status, fold_with. rewrite fold_left_join, join_ok_l. reflexivity. Qed.

Lemma existsb_is_fatal : forall l, existsb is_fatal l = true <-> In SFatal l.
Proof.
  intro l. rewrite existsb_exists. split.
  - intros [x [Hx E]]. destruct x; try discriminate. assumption.
  - intro H. exists SFatal. split; [assumption|reflexivity].
Qed.

Lemma existsb_is_warn : forall l, existsb is_warn l = true <-> In SWarn l.
Proof.
  intro l. rewrite existsb_exists. split.
  - intros [x [Hx E]]. destruct x; try discriminate. assumption.
  - intro H. exists SWarn. split; [assumption|reflexivity].
Qed.

Lemma worst_fatal_iff : forall l, worst l = SFatal <-> In SFatal l.
Proof.
  intro l. rewrite <- existsb_is_fatal. unfold worst. destruct (existsb is_fatal l).
  - split; reflexivity.
  - destruct (existsb is_warn l); split; discriminate.
Qed.

Lemma worst_warn_iff : forall l, worst l = SWarn <-> In SWarn l /\ ~ In SFatal l.
Proof.
  intro l. rewrite <- existsb_is_fatal, <- existsb_is_warn. unfold worst.
  destruct (existsb is_fatal l); destruct (existsb is_warn l); split; intro H.
  all: try discriminate.
  all: try (destruct H as [A B]; try discriminate; exfalso; apply B; reflexivity).
  - split. reflexivity. discriminate.
  - reflexivity.
Qed.

Lemma worst_ok_iff : forall l, worst l = SOk <-> (forall s, In s l -> s = SOk).
Proof.
  intro l. split.
  - intros H s Hs. destruct s; [reflexivity| |].
    + assert (W : worst l = SWarn \/ worst l = SFatal).
      { destruct (worst l) eqn:E; auto. exfalso.
        apply existsb_is_warn in Hs. unfold worst in E. destruct (existsb is_fatal l); try discriminate. rewrite Hs in E. discriminate. }
      destruct W as [W|W]; rewrite W in H; discriminate.
    + apply worst_fatal_iff in Hs. rewrite Hs in H. discriminate.
  - intro H. unfold worst.
    destruct (existsb is_fatal l) eqn:E1. { apply existsb_is_fatal in E1. apply H in E1. discriminate. }
    destruct (existsb is_warn l) eqn:E2. { apply existsb_is_warn in E2. apply H in E2. discriminate. }
    reflexivity.
Qed.

(* THE statement: fatal iff some component is fatal *)
Theorem fold_fatal_iff : forall l, fold_status l = SFatal <-> In SFatal l.
Proof. intro l. rewrite fold_is_worst. apply worst_fatal_iff. Qed.

Theorem fold_warn_iff : forall l, fold_status l = SWarn <-> In SWarn l /\ ~ In SFatal l.
Proof. intro l. rewrite fold_is_worst. apply worst_warn_iff. Qed.

Lemma worst_perm : forall l l', Permutation l l' -> worst l = worst l'.
Proof.
  intros l l' P. induction P.
  - reflexivity.
  - rewrite !worst_cons, IHP. reflexivity.
  - rewrite !worst_cons, !join_assoc, (join_comm y x). reflexivity.
  - congruence.
Qed.

(* ... whatever the order *)
Theorem fold_order_irrelevant : forall l l', Permutation l l' -> fold_status l = fold_status l'.
Proof. intros l l' P. rewrite !fold_is_worst. apply worst_perm. assumption. Qed.

(* ---- the call tree ---- *)
Section StreeInd.
  Variable P : stree -> Prop.
  Hypothesis HLeaf : forall s, P (Leaf s).
  Hypothesis HNode : forall l, Forall P l -> P (Node l).
  Fixpoint stree_ind' (t : stree) : P t :=
    match t with
    | Leaf s => HLeaf s
    | Node l => HNode l ((fix go (l : list stree) : Forall P l :=
                            match l with
                            | [] => Forall_nil P
                            | x :: r => Forall_cons x (stree_ind' x) (go r)
                            end) l)
    end.
End StreeInd.

Theorem eval_is_worst : forall t, eval ret2rval t = worst (leaves t).
Proof.
  induction t as [s|l IH] using stree_ind'.
  - simpl. destruct s; reflexivity.
  - simpl. change (fold_with ret2rval) with fold_status. rewrite fold_is_worst.
    induction IH as [|x r Hx Hr IH2]; simpl.
    + reflexivity.
    + rewrite worst_cons, worst_app, Hx, IH2. reflexivity.
Qed.

Theorem eval_fatal_iff : forall t, eval ret2rval t = SFatal <-> In SFatal (leaves t).
Proof. intro t. rewrite eval_is_worst. apply worst_fatal_iff. Qed.

Lemma count_is_worst : forall l, count_status l = worst l.
Proof. reflexivity. Qed.

Lemma worst_map_eval : forall (g : stree * stree -> stree) mods,
  worst (map (fun m => eval ret2rval (g m)) mods) = worst (flat_map (fun m => leaves (g m)) mods).
Proof.
  intros g mods. induction mods as [|m r IH]; simpl.
  - reflexivity.
  - rewrite worst_cons, worst_app, IH, eval_is_worst. reflexivity.
Qed.

Theorem process_is_worst : forall mods, process ret2rval mods = worst (all_leaves mods).
Proof.
  intro mods. unfold process, all_leaves. rewrite count_is_worst, !worst_app.
  rewrite (worst_map_eval fst), (worst_map_eval snd). reflexivity.
Qed.

Theorem process_fatal_iff : forall mods, process ret2rval mods = SFatal <-> In SFatal (all_leaves mods).
Proof. intro mods. rewrite process_is_worst. apply worst_fatal_iff. Qed.

(* the run is refused before any code is written iff a check was fatal, or warned under -Werror *)
Theorem run_refused_iff : forall werror mods,
  run_exit ret2rval werror mods <> 0 <->
  In SFatal (all_leaves mods) \/ (werror = true /\ In SWarn (all_leaves mods)).
Proof.
  intros werror mods. unfold run_exit. rewrite process_is_worst.
  destruct (worst (all_leaves mods)) eqn:E; simpl.
  - split. intro H. exfalso. apply H. reflexivity.
    intros [H|[_ H]]; pose proof (proj1 (worst_ok_iff _) E _ H); discriminate.
  - apply worst_warn_iff in E. destruct E as [Hw Hf]. destruct werror; simpl; unfold EX_DATAERR.
    + split. intro. right. auto. intros _. lia.
    + split. intro H. exfalso. apply H. reflexivity. intros [H|[H _]]. contradiction. discriminate.
  - apply worst_fatal_iff in E. unfold EX_DATAERR. split. intro. left. assumption. intros _. lia.
Qed.

Corollary run_exit_is_65_or_0 : forall f werror mods, run_exit f werror mods = 0 \/ run_exit f werror mods = EX_DATAERR.
Proof. intros f werror mods. unfold run_exit. destruct (process f mods); destruct werror; simpl; auto. Qed.

(* ---- "the first recorded problem is sticky" ---- *)
Definition nonok (s : status) : bool := match s with SOk => false | _ => true end.

Lemma sticky_fold_from : forall l a, a <> SOk -> fold_left (fun rv ret => ret2rval_sticky ret rv) l a = a.
Proof. induction l as [|s l IH]; intros a Ha; simpl. reflexivity. destruct a; try contradiction; apply IH; discriminate. Qed.

(* it returns the FIRST non-zero status *)
Theorem sticky_is_first : forall l, fold_with ret2rval_sticky l = hd SOk (filter nonok l).
Proof.
  unfold fold_with. induction l as [|s l IH]; simpl. reflexivity.
  destruct s; simpl.
  - apply IH.
  - apply sticky_fold_from. discriminate.
  - apply sticky_fold_from. discriminate.
Qed.

(* the full statement is false of it ... *)
Theorem sticky_fatal_refuted : exists l, In SFatal l /\ fold_with ret2rval_sticky l <> SFatal.
Proof. exists [SWarn; SFatal]. split. simpl. auto. vm_compute. discriminate. Qed.

Theorem sticky_run_refuted : exists mods, In SFatal (all_leaves mods) /\ run_exit ret2rval_sticky false mods = 0.
Proof. exists [(Node [Leaf SWarn; Node [Leaf SOk; Leaf SFatal]], Node [])]. split. simpl. auto. vm_compute. reflexivity. Qed.

(* ... and it cannot be told from the real macro by runs that never record a warning: the under-sampled region *)
Theorem sticky_partial : forall l, ~ In SWarn l -> fold_with ret2rval_sticky l = fold_status l.
Proof.
  intros l H. rewrite sticky_is_first, fold_is_worst. induction l as [|s l IH]; simpl. reflexivity.
  rewrite worst_cons. destruct s.
  - rewrite join_ok_l. simpl. apply IH. intro. apply H. right. assumption.
  - exfalso. apply H. left. reflexivity.
  - reflexivity.
Qed.

(* in the other order (fatal first) the two agree as well: only "warning, later fatal" differs *)
Theorem sticky_agrees_unless_warn_before_fatal : forall pre post,
  ~ In SWarn pre -> fold_with ret2rval_sticky (pre ++ SFatal :: post) = fold_status (pre ++ SFatal :: post).
Proof.
  intros pre post H. rewrite sticky_is_first, fold_is_worst, worst_app, worst_cons.
  replace (join (worst pre) (join SFatal (worst post))) with SFatal by (destruct (worst pre); reflexivity).
  induction pre as [|s pre IH]; simpl. reflexivity.
  destruct s; simpl.
  - apply IH. intro. apply H. right. assumption.
  - exfalso. apply H. left. reflexivity.
  - reflexivity.
Qed.
