(* ConstrOps.v — the constraint sub-language of asn1c with EVERY set operator of its grammar
   (libasn1parser/asn1p_y.y: Constraint, ManyConstraints, ElementSetSpecs, ElementSetSpec, Unions,
   Intersections, IntersectionElements, Elements, SizeConstraint / PermittedAlphabet / WITH COMPONENT)
   and of its printer (libasn1print/asn1print.c:asn1print_constraint).  Leaves (values, ranges,
   contained subtypes, PATTERN) are opaque atoms: their own round trip is Fix/Printer.v + Fix/LexValues.v.

   The tree [cons] is uniform like asn1p_constraint_t (type + element list):
     Atom = ACT_EL_VALUE / _RANGE / _TYPE / ACT_CT_PATTERN     Ext  = ACT_EL_EXT
     Pre 0/1/2 = ACT_CT_SIZE / ACT_CT_FROM / ACT_CT_WCOMP      CSet = ACT_CA_SET
     Aex = ACT_CA_AEX   Exc = ACT_CA_EXC   Uni = ACT_CA_UNI   Int = ACT_CA_INT   Csv = ACT_CA_CSV
   [pp v] prints tokens, [ppb v] the bytes between the atoms; v = false is the C, v = true the variant
   "ALL EXCEPT ( operand )".  [parse] builds trees the way the yacc actions do (CONSTRAINT_INSERT re-uses
   a node of the wanted type; `Constraint` re-uses a parenthesised element set; `ManyConstraints`
   unwraps the one-element set of the second constraint).
   Theorems at the end of the file (re-exported in Props/Properties_C12.v). *)
From Coq Require Import List Bool Arith Lia Ascii.
Import ListNotations.
Local Open Scope list_scope.

Inductive tok := TL | TR | TAll | TExcept | TBar | TCaret | TComma | TDots | TPre (k : nat) | TAtom (n : nat).

Inductive cons :=
  | Atom (n : nat)
  | Ext
  | Pre (k : nat) (c : cons)
  | CSet (l : list cons)
  | Aex (c : cons)
  | Exc (a b : cons)
  | Uni (l : list cons)
  | Int (l : list cons)
  | Csv (l : list cons).

(* ------------------------------------------------------------------ printer, token level *)
Definition pp_sep (sep : tok) (f : cons -> list tok) : list cons -> list tok :=
  fix go (l : list cons) : list tok :=
    match l with
    | [] => []
    | x :: r => match r with [] => f x | _ => f x ++ sep :: go r end
    end.

Definition pp_set (f : cons -> list tok) : list cons -> list tok :=
  fix go (l : list cons) : list tok :=
    match l with [] => [] | x :: r => TL :: f x ++ TR :: go r end.

Fixpoint pp (v : bool) (c : cons) : list tok :=
  match c with
  | Atom n => [TAtom n]
  | Ext => [TDots]
  | Pre k c' => TPre k :: pp v c'
  | CSet l => pp_set (pp v) l
  | Aex c' => if v then TAll :: TExcept :: TL :: pp v c' ++ [TR] else TAll :: TExcept :: pp v c'
  | Exc a b => pp v a ++ TExcept :: pp v b
  | Uni l => pp_sep TBar (pp v) l
  | Int l => pp_sep TCaret (pp v) l
  | Csv l => pp_sep TComma (pp v) l
  end.

(* ------------------------------------------------------------------ printer, byte level *)
(* byte strings are lists of characters (Coq's [string] would shadow OCaml's in the extracted front end) *)
Definition bstr := list ascii.
Inductive piece := PS (s : bstr) | PA (n : nat).

Definition ppb_sep (sep : bstr) (f : cons -> list piece) : list cons -> list piece :=
  fix go (l : list cons) : list piece :=
    match l with
    | [] => []
    | x :: r => match r with [] => f x | _ => f x ++ PS sep :: go r end
    end.

Fixpoint ppb (v : bool) (c : cons) : list piece :=
  match c with
  | Atom n => [PA n]
  | Ext => [PS [".";".";"."]%char]
  | Pre k c' => PS (match k with 0 => ["S";"I";"Z";"E"]%char | 1 => ["F";"R";"O";"M"]%char | _ => ["W";"I";"T";"H";" ";"C";"O";"M";"P";"O";"N";"E";"N";"T";" "]%char end) :: ppb v c'
  | CSet l => PS ["("]%char :: ppb_sep [")";" ";"("]%char (ppb v) l ++ [PS [")"]%char]
  | Aex c' => if v then PS ["A";"L";"L";" ";"E";"X";"C";"E";"P";"T";" ";"("]%char :: ppb v c' ++ [PS [")"]%char] else PS ["A";"L";"L";" ";"E";"X";"C";"E";"P";"T";" "]%char :: ppb v c'
  | Exc a b => ppb v a ++ PS [" ";"E";"X";"C";"E";"P";"T";" "]%char :: ppb v b
  | Uni l => ppb_sep [" ";"|";" "]%char (ppb v) l
  | Int l => ppb_sep [" ";"^";" "]%char (ppb v) l
  | Csv l => ppb_sep [","]%char (ppb v) l
  end.

(* ------------------------------------------------------------------ parser *)
Definition parser (A : Type) := list tok -> option (A * list tok).

Definition p_sep1 (pe : parser cons) (sepb : tok -> bool) : nat -> parser (list cons) :=
  fix go (k : nat) (ts : list tok) : option (list cons * list tok) :=
    match k with
    | O => None
    | S k' =>
        match pe ts with
        | None => None
        | Some (x, r) =>
            match r with
            | t :: r' =>
                if sepb t then
                  match go k' r' with Some (l, r'') => Some (x :: l, r'') | None => None end
                else Some ([x], r)
            | [] => Some ([x], r)
            end
        end
    end.

Definition is_bar (t : tok) : bool := match t with TBar => true | _ => false end.
Definition is_caret (t : tok) : bool := match t with TCaret => true | _ => false end.
Definition is_set (c : cons) : bool := match c with CSet _ => true | _ => false end.

(* Constraint: '(' ConstraintSpec ')'  { CONSTRAINT_INSERT($$, ACT_CA_SET, $2, 0) } *)
Definition mk_constraint (s : cons) : cons := if is_set s then s else CSet [s].
(* left-recursive lists: the first INSERT creates the node, the following ones re-use it *)
Definition wrap (mk : list cons -> cons) (l : list cons) : cons :=
  match l with [x] => x | _ => mk l end.

Definition p_constraint (pspec : parser cons) : parser cons := fun ts =>
  match ts with
  | TL :: r => match pspec r with Some (s, TR :: r') => Some (mk_constraint s, r') | _ => None end
  | _ => None
  end.

Definition p_elements (pess pspec : parser cons) : parser cons := fun ts =>
  match ts with
  | TAtom n :: r => Some (Atom n, r)
  | TPre k :: r => match p_constraint pspec r with Some (c, r') => Some (Pre k c, r') | None => None end
  | TL :: r => match pess r with Some (s, TR :: r') => Some (CSet [s], r') | _ => None end
  | _ => None
  end.

Definition p_ie (pel : parser cons) : parser cons := fun ts =>
  match pel ts with
  | Some (a, TExcept :: r) => match pel r with Some (b, r') => Some (Exc a b, r') | None => None end
  | x => x
  end.

Definition p_inters (pel : parser cons) (k : nat) : parser cons := fun ts =>
  match p_sep1 (p_ie pel) is_caret k ts with Some (l, r) => Some (wrap Int l, r) | None => None end.

Definition p_unions (pel : parser cons) (k : nat) : parser cons := fun ts =>
  match p_sep1 (p_inters pel k) is_bar k ts with Some (l, r) => Some (wrap Uni l, r) | None => None end.

Definition p_ess_of (pel : parser cons) : parser cons := fun ts =>
  match ts with
  | TAll :: TExcept :: r => match pel r with Some (e, r') => Some (Aex e, r') | None => None end
  | _ => p_unions pel (length ts) ts
  end.

Definition p_spec_of (pe : parser cons) : parser cons := fun ts =>
  match ts with
  | TDots :: r => Some (Ext, r)
  | _ =>
      match pe ts with
      | Some (s, TComma :: TDots :: TComma :: r) =>
          match pe r with Some (s2, r') => Some (Csv [s; Ext; s2], r') | None => None end
      | Some (s, TComma :: TDots :: r) => Some (Csv [s; Ext], r)
      | x => x
      end
  end.

Fixpoint p_ess (n : nat) (ts : list tok) {struct n} : option (cons * list tok) :=
  match n with
  | O => None
  | S n' => p_ess_of (p_elements (p_ess n') (p_spec_of (p_ess n'))) ts
  end.

Definition p_spec (n : nat) : parser cons := p_spec_of (p_ess n).

(* ManyConstraints *)
Definition unwrap1 (c : cons) : cons := match c with CSet [x] => x | _ => c end.

Fixpoint p_many_rest (n k : nat) (acc : list cons) (ts : list tok) : option (cons * list tok) :=
  match k with
  | O => None
  | S k' =>
      match ts with
      | TL :: _ =>
          match p_constraint (p_spec n) ts with
          | Some (c, r) => p_many_rest n k' (acc ++ [unwrap1 c]) r
          | None => None
          end
      | _ => Some (CSet acc, ts)
      end
  end.

Definition p_many (n : nat) (ts : list tok) : option (cons * list tok) :=
  match p_constraint (p_spec n) ts with
  | Some (CSet l, r) => p_many_rest n (S (length ts)) l r
  | _ => None
  end.

Definition parse (ts : list tok) : option cons :=
  match p_many (S (length ts)) ts with Some (c, []) => Some c | _ => None end.

(* ------------------------------------------------------------------ the trees the grammar builds *)
Definition two_or_more {A} (l : list A) : bool := match l with _ :: _ :: _ => true | _ => false end.

(* levels: 0 Elements, 1 IntersectionElements, 2 Intersections, 3 Unions, 4 ElementSetSpec, 5 ElementSetSpecs *)
Fixpoint wf (lv : nat) (c : cons) {struct c} : bool :=
  match c with
  | Atom _ => true
  | Ext => 5 <=? lv
  | Pre _ c' => match c' with CSet [s] => wf 5 s && negb (is_set s) | _ => false end
  | CSet l => match l with [s] => wf 4 s | _ => false end
  | Aex e => (4 <=? lv) && wf 0 e
  | Exc a b => (1 <=? lv) && wf 0 a && wf 0 b
  | Int l => (2 <=? lv) && two_or_more l && forallb (wf 1) l
  | Uni l => (3 <=? lv) && two_or_more l && forallb (wf 2) l
  | Csv l =>
      match l with
      | [s; Ext] => (5 <=? lv) && wf 4 s
      | [s; Ext; s2] => (5 <=? lv) && wf 4 s && wf 4 s2
      | _ => false
      end
  end.

Definition wf_top (c : cons) : bool :=
  match c with
  | CSet (x :: r) => forallb (fun e => wf 5 e && negb (is_set e)) (x :: r)
  | _ => false
  end.

(* front end helpers *)
Definition cycle (v : bool) (ts : list tok) : option (bool * list piece) :=
  match parse ts with Some c => Some (wf_top c, ppb v c) | None => None end.
