(* Fix/CtNestProofs.v — extensibility of set arithmetic with nested markers:
   Spec side (CtNest.next) and model side (the operand fold of the ACT_CA_UNI /
   ACT_CA_CSV loop of asn1constraint_compute_constraint_range with
   _range_merge_in, and Crange.compute itself on a PUni node). *)
From Coq Require Import ZArith List Bool Permutation.
From A1 Require Import Fix.Crange Fix.PerOerVisible Fix.CtSpec Fix.CtNest.
Import ListNotations.
Local Open Scope Z_scope.

(* ---- generic ---- *)
Lemma existsb_perm : forall (A : Type) (f : A -> bool) l l',
  Permutation l l' -> existsb f l = existsb f l'.
Proof.
  intros A f l l' H. induction H; cbn.
  - reflexivity.
  - rewrite IHPermutation. reflexivity.
  - destruct (f x), (f y); reflexivity.
  - congruence.
Qed.

(* ---- Spec: G.4 extensibility ---- *)
Lemma next_union_comm : forall a b, next (NUnion a b) = next (NUnion b a).
Proof. intros. cbn. apply orb_comm. Qed.

Lemma next_inter_comm : forall a b, next (NInter a b) = next (NInter b a).
Proof. intros. cbn. apply orb_comm. Qed.

Lemma next_union_assoc : forall a b c,
  next (NUnion (NUnion a b) c) = next (NUnion a (NParen (NUnion b c))).
Proof. intros. cbn. symmetry. apply orb_assoc. Qed.

Lemma next_nunions : forall l a, next (nunions a l) = next a || existsb next l.
Proof.
  induction l as [|b l IH]; intros a; cbn.
  - rewrite orb_false_r. reflexivity.
  - unfold nunions in IH. rewrite IH. cbn. rewrite orb_assoc. reflexivity.
Qed.

Lemma next_nunions_all : forall a l, next (nunions a l) = existsb next (a :: l).
Proof. intros. rewrite next_nunions. reflexivity. Qed.

Lemma next_nunions_perm : forall a l b l',
  Permutation (a :: l) (b :: l') -> next (nunions a l) = next (nunions b l').
Proof. intros. rewrite !next_nunions_all. apply existsb_perm. assumption. Qed.

(* the first-operand-only reading is neither symmetric nor the disjunction *)
Lemma next_first_refuted : exists a b,
  next_first (NUnion a b) <> next_first (NUnion b a) /\
  next_first (NUnion a b) <> (next a || next b).
Proof.
  exists (NSize (SRoot (ERange (BInt 7) (BInt 9)))), (NSize (SExt (ERange (BInt 1) (BInt 5)))).
  vm_compute. split; discriminate.
Qed.

(* nmarker: a top-level marker, or the nested ones *)
Lemma nmarker_root_union : forall a b, nmarker (NRoot (NUnion a b)) = nmarker (NRoot a) || nmarker (NRoot b).
Proof. reflexivity. Qed.

(* ---- model: the operand fold ---- *)
Lemma merge_in_ext : forall into cr, r_ext (range_merge_in into cr) = r_ext into || r_ext cr.
Proof. reflexivity. Qed.

Lemma uni_step_ext : forall range tmp,
  r_ext (uni_step range_merge_in range tmp) = r_ext range || r_ext tmp.
Proof. intros. unfold uni_step. destruct (r_empty tmp); reflexivity. Qed.

Lemma uni_fold_ext : forall rest first,
  r_ext (uni_fold range_merge_in first rest) = r_ext first || existsb r_ext rest.
Proof.
  induction rest as [|t rest IH]; intros first; cbn.
  - rewrite orb_false_r. reflexivity.
  - unfold uni_fold in IH. rewrite IH, uni_step_ext, orb_assoc. reflexivity.
Qed.

Lemma uni_fold_ext_perm : forall a l b l',
  Permutation (a :: l) (b :: l') ->
  r_ext (uni_fold range_merge_in a l) = r_ext (uni_fold range_merge_in b l').
Proof.
  intros. rewrite !uni_fold_ext.
  change (existsb r_ext (a :: l) = existsb r_ext (b :: l')). apply existsb_perm. assumption.
Qed.

(* without `into->extensible |= cr->extensible` the result depends on the order *)
Lemma uni_fold_noext_refuted : exists a b,
  r_empty a = false /\ r_empty b = false /\
  r_ext (uni_fold merge_in_noext a [b]) <> r_ext (uni_fold merge_in_noext b [a]) /\
  r_ext (uni_fold merge_in_noext a [b]) <> (r_ext a || r_ext b).
Proof.
  exists (mkRange (EV 7) (EV 9) [] false false false false false),
         (mkRange (EV 1) (EV 5) [] true false false true false).
  vm_compute. repeat split; discriminate.
Qed.

(* ---- model: Crange.compute on a union node is that loop ---- *)
Lemma compute_uni_loop : forall cs rq v minmax exmet,
  compute (PUni cs) rq v minmax exmet =
  uni_loop rq v minmax (match minmax with Some m => m | None => range_new end) cs
           (UFirst (match minmax with Some m => m | None => range_new end)) exmet.
Proof. intros. destruct cs; reflexivity. Qed.

Lemma compute_csv_loop : forall cs rq v minmax exmet,
  compute (PCsv cs) rq v minmax exmet =
  uni_loop rq v minmax (match minmax with Some m => m | None => range_new end) cs
           (UFirst (match minmax with Some m => m | None => range_new end)) exmet.
Proof. intros. destruct cs; reflexivity. Qed.

(* a SIZE operand is computed with exmet = 1 whatever the caller's state *)
Lemma compute_size_exmet : forall c v minmax ex,
  compute (PSize c) ReqSize v minmax ex = compute (PSize c) ReqSize v minmax true.
Proof. reflexivity. Qed.

Section UniLoop.
  Variables (rq : req) (v : vis) (minmax : option range).
  Let range0 := match minmax with Some m => m | None => range_new end.

  (* an operand that computes to the compatible, PER-visible range t in every state *)
  Definition op_ok (c : pct) (t : range) : Prop :=
    (forall ex, exists ex', compute c rq v minmax ex = (ROk t, ex')) /\
    r_incompat t = false /\ r_notPER t = false.

  Lemma uni_loop_nil_rest : forall range ex,
    uni_loop rq v minmax range0 [] (URest range) ex =
    (let r := range_canonicalize range in
     if r_notPER r && is_per v
     then (ROk (mkRange (r_left range0) (r_right range0) (r_elems range0) (r_ext range0)
                        (r_empty range0) true (r_notOER range0) true), ex)
     else (ROk r, ex)).
  Proof. reflexivity. Qed.

  Lemma uni_loop_cons_rest : forall c tl range ex,
    uni_loop rq v minmax range0 (c :: tl) (URest range) ex =
    match compute c rq v minmax ex with
    | (RErange, ex1) => uni_loop rq v minmax range0 tl (URest (set_ext range)) ex1
    | (ROk tmp, ex1) =>
        if r_incompat tmp then (ROk (set_incompat (range_canonicalize range)), ex1)
        else if r_empty tmp
        then uni_loop rq v minmax range0 tl (URest (flags_only range tmp)) ex1
        else uni_loop rq v minmax range0 tl (URest (range_merge_in range tmp)) ex1
    | other => other
    end.
  Proof. reflexivity. Qed.

  Lemma canon_ext : forall r, r_ext (range_canonicalize r) = r_ext r.
  Proof.
    intros r. unfold range_canonicalize. destruct (r_elems r) as [|p els].
    - destruct (edge_compare (r_left r) (r_right r) >? 0); reflexivity.
    - destruct (range_union (p :: els)) as [|q [|q' u]]; reflexivity.
  Qed.
  Lemma canon_notPER : forall r, r_notPER (range_canonicalize r) = r_notPER r.
  Proof.
    intros r. unfold range_canonicalize. destruct (r_elems r) as [|p els].
    - destruct (edge_compare (r_left r) (r_right r) >? 0); reflexivity.
    - destruct (range_union (p :: els)) as [|q [|q' u]]; reflexivity.
  Qed.

  Lemma uni_step_notPER : forall range tmp,
    r_notPER range = false -> r_notPER tmp = false ->
    r_notPER (uni_step range_merge_in range tmp) = false.
  Proof.
    intros range tmp H1 H2. unfold uni_step. destruct (r_empty tmp); cbn; rewrite ?H1, ?H2; reflexivity.
  Qed.

  (* the rest of the loop = uni_fold over the operands' ranges *)
  Lemma uni_loop_rest : forall cs ts, Forall2 op_ok cs ts ->
    forall range ex, r_notPER range = false ->
    exists ex', uni_loop rq v minmax range0 cs (URest range) ex =
                (ROk (range_canonicalize (uni_fold range_merge_in range ts)), ex').
  Proof.
    induction 1 as [|c t cs ts Hc _ IH]; intros range ex Hp.
    - exists ex. rewrite uni_loop_nil_rest. cbn zeta. cbn [uni_fold fold_left].
      rewrite canon_notPER, Hp. reflexivity.
    - destruct Hc as (Hc & Hi & Hn). destruct (Hc ex) as [ex1 E].
      rewrite uni_loop_cons_rest, E, Hi.
      assert (Hp' : r_notPER (uni_step range_merge_in range t) = false)
        by (apply uni_step_notPER; assumption).
      destruct (IH (uni_step range_merge_in range t) ex1 Hp') as [ex' E'].
      exists ex'. unfold uni_step in *. cbn [uni_fold fold_left]. unfold uni_step at 2.
      destruct (r_empty t); exact E'.
  Qed.

  Lemma uni_loop_cons_first : forall c tl range ex,
    uni_loop rq v minmax range0 (c :: tl) (UFirst range) ex =
    match compute c rq v minmax ex with
    | (RErange, ex1) => uni_loop rq v minmax range0 tl (UFirst (set_ext range)) ex1
    | (ROk tmp, ex1) =>
        if r_incompat tmp then (ROk (set_incompat range), ex1) else
        let first := mkRange (r_left tmp) (r_right tmp) (r_elems tmp)
                       (r_ext tmp || r_ext range) (r_empty tmp || r_empty range)
                       (r_notPER tmp) (r_notOER tmp || r_notOER range) (r_incompat tmp) in
        match compute c rq v minmax ex1 with
        | (RErange, ex2) => uni_loop rq v minmax range0 tl (URest (set_ext first)) ex2
        | (ROk tmp2, ex2) =>
            if r_incompat tmp2 then (ROk (set_incompat (range_canonicalize first)), ex2)
            else if r_empty tmp2
            then uni_loop rq v minmax range0 tl (URest (flags_only first tmp2)) ex2
            else uni_loop rq v minmax range0 tl (URest (range_merge_in first tmp2)) ex2
        | other => other
        end
    | other => other
    end.
  Proof. reflexivity. Qed.

  (* the accumulator after the first operand (it is computed twice) *)
  Definition first_acc (t : range) : range :=
    uni_step range_merge_in
      (mkRange (r_left t) (r_right t) (r_elems t) (r_ext t || r_ext range0) (r_empty t || r_empty range0)
               (r_notPER t) (r_notOER t || r_notOER range0) (r_incompat t)) t.

  Theorem compute_uni_is_fold : forall c t cs ts,
    op_ok c t -> Forall2 op_ok cs ts ->
    forall ex, exists ex',
      compute (PUni (c :: cs)) rq v minmax ex =
      (ROk (range_canonicalize (uni_fold range_merge_in (first_acc t) ts)), ex').
  Proof.
    intros c t cs ts Hc Hcs ex.
    rewrite compute_uni_loop. fold range0. rewrite uni_loop_cons_first.
    destruct Hc as (Hc & Hi & Hn).
    destruct (Hc ex) as [ex1 E1]. rewrite E1, Hi. cbn zeta.
    destruct (Hc ex1) as [ex2 E2]. rewrite E2, Hi.
    assert (Hp : r_notPER (first_acc t) = false).
    { unfold first_acc. apply uni_step_notPER; [cbn; exact Hn | exact Hn]. }
    destruct (uni_loop_rest cs ts Hcs (first_acc t) ex2 Hp) as [ex' E'].
    exists ex'. unfold first_acc, uni_step in E' |- *. rewrite Hi in E' |- *. destruct (r_empty t); exact E'.
  Qed.

  (* the extensibility flag of a computed union is the disjunction over its
     operands (and the parent's flag), whatever their order *)
  Theorem compute_uni_ext : forall c t cs ts,
    op_ok c t -> Forall2 op_ok cs ts ->
    forall ex, exists r ex',
      compute (PUni (c :: cs)) rq v minmax ex = (ROk r, ex') /\
      r_ext r = r_ext range0 || existsb r_ext (t :: ts).
  Proof.
    intros c t cs ts Hc Hcs ex.
    destruct (compute_uni_is_fold c t cs ts Hc Hcs ex) as [ex' E].
    eexists. exists ex'. split; [exact E|].
    rewrite canon_ext, uni_fold_ext. unfold first_acc. rewrite uni_step_ext. cbn.
    destruct (r_ext t), (r_ext range0), (existsb r_ext ts); reflexivity.
  Qed.

  Theorem compute_uni_ext_perm : forall c t cs ts c' t' cs' ts',
    op_ok c t -> Forall2 op_ok cs ts -> op_ok c' t' -> Forall2 op_ok cs' ts' ->
    Permutation (t :: ts) (t' :: ts') ->
    forall ex1 ex2, exists r1 e1 r2 e2,
      compute (PUni (c :: cs)) rq v minmax ex1 = (ROk r1, e1) /\
      compute (PUni (c' :: cs')) rq v minmax ex2 = (ROk r2, e2) /\
      r_ext r1 = r_ext r2.
  Proof.
    intros c t cs ts c' t' cs' ts' H1 H2 H3 H4 HP ex1 ex2.
    destruct (compute_uni_ext c t cs ts H1 H2 ex1) as (r1 & e1 & E1 & X1).
    destruct (compute_uni_ext c' t' cs' ts' H3 H4 ex2) as (r2 & e2 & E2 & X2).
    exists r1, e1, r2, e2. repeat split; try assumption.
    rewrite X1, X2. f_equal. apply existsb_perm. assumption.
  Qed.
End UniLoop.

(* ---- model vs Spec on whole expressions: witnesses ---- *)
(* the shape of the reported miss, both operand orders: the model (= the code as
   it is) agrees with the Spec *)
Example nested_union_witness :
  let a := NSize (SRoot (ERange (BInt 7) (BInt 9))) in
  let b := NSize (SExt (ERange (BInt 1) (BInt 5))) in
  nper_size_row TOctetString (npullup false [[NRoot (NUnion a b)]]) = tables_of (nper_effective [[NRoot (NUnion a b)]]) /\
  nper_size_row TOctetString (npullup false [[NRoot (NUnion b a)]]) = tables_of (nper_effective [[NRoot (NUnion b a)]]) /\
  p_ext (nper_size_row TOctetString (npullup false [[NRoot (NUnion a b)]])) = true.
Proof. vm_compute. repeat split. Qed.

(* the un-parenthesised  SEQUENCE SIZE(...) OF  spelling: asn1constraint_pullup
   makes the bare SizeConstraint the single element of a serial set, which is
   what the parser builds for the parenthesised spelling; so the two spellings
   have the same combined constraint along every chain of references (marker
   kept, no two-element SIZE node: no assert) *)
Lemma wrap_set_parse_nconstraint : forall s, wrap_set (parse_nconstraint s) = parse_nconstraint s.
Proof. intros s. unfold parse_nconstraint, cinsert. destruct (as_set (parse_nspec s)); reflexivity. Qed.
Lemma bare_size_same : forall s rest,
  npullup true ([NRoot (NSize s)] :: rest) = npullup false ([NRoot (NSize s)] :: rest).
Proof. intros s rest. reflexivity. Qed.
(* the two witnesses of the former defect, on the repaired model *)
Example bare_size_marker_kept :
  let chain := [[NRoot (NSize (SExt (ERange (BInt 1) (BInt 10))))]] in
  e_empty (nper_effective chain) = false /\
  nper_size_row TSequenceOf (npullup true chain) = tables_of (nper_effective chain).
Proof. vm_compute. split; reflexivity. Qed.
Example bare_size_child_ok :
  let chain := [[NRoot (NSize (SRoot (ERange (BInt 1) (BInt 10))))]; [NRoot (NSize (SRoot (ERange (BInt 2) (BInt 3))))]] in
  exists r, ncompute_top TSequenceOf (npullup true chain) ReqSize VisNone = TOk r.
Proof. eexists. vm_compute. reflexivity. Qed.

(* op_ok is satisfiable: the two SIZE operands of the reported shape, under the
   minmax the SIZE request starts with (0..MAX) *)
Definition size0 : range := mkRange (EV 0) EMax [] false false false false false.
Example op_ok_size_witness :
  (exists t, op_ok ReqSize VisNone (Some size0) (parse_ness (NSize (SExt (ERange (BInt 1) (BInt 5))))) t /\ r_ext t = true) /\
  (exists t, op_ok ReqSize VisNone (Some size0) (parse_ness (NSize (SRoot (ERange (BInt 7) (BInt 9))))) t /\ r_ext t = false).
Proof.
  split; eexists; (split; [split; [intros ex; cbn [parse_ness]; rewrite compute_size_exmet; eexists; vm_compute; reflexivity
                                  | split; reflexivity] | reflexivity]).
Qed.
