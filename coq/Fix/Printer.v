(* Printer.v — executable model of `asn1c -E` (libasn1print/asn1print.c) for the
   modelled type algebra, at two levels:

     pp_module   : module_ast -> list token     token level   (theorems parse_pp, pp_fixpoint)
     ppb_module  : module_ast -> str         byte level    (compared byte for byte with
                                                               the real `asn1c -E` by checks/c12.py)
     lex         : str -> option (list token)   the lexer of the printed sub-language;
                   lex (ppb_module a) = Some (pp_module a) is *executed* on every generated
                   case by the check (command c12_rt), not proved
     parse       : list token -> option module_ast   reference parser for exactly the
                   language pp emits; constraint trees are built the way
                   libasn1parser/asn1p_y.y builds them (CONSTRAINT_INSERT flattening,
                   `Constraint: '(' ConstraintSpec ')'` re-using a parenthesised spec).

   The constraint tree [constr] is uniform like the C's asn1p_constraint_t
   (type tag + element list); [pp_constr] mirrors the switch in
   asn1print_constraint.  No proofs in this file. *)
From Coq Require Import ZArith List Bool Ascii Decimal DecimalZ.
Import ListNotations.

(* text: our own str type (Coq's [str] would be extracted as an OCaml type named
   "str"); literals through String Notation *)
Inductive str := SNil | SCons (a : ascii) (s : str).
Fixpoint str_of_bytes (l : list Byte.byte) : str :=
  match l with [] => SNil | b :: l' => SCons (ascii_of_byte b) (str_of_bytes l') end.
Fixpoint bytes_of_str (s : str) : list Byte.byte :=
  match s with SNil => [] | SCons a s' => byte_of_ascii a :: bytes_of_str s' end.
Declare Scope str_scope.
Delimit Scope str_scope with str.
Bind Scope str_scope with str.
String Notation str str_of_bytes bytes_of_str : str_scope.
Fixpoint sapp (a b : str) : str :=
  match a with SNil => b | SCons c a' => SCons c (sapp a' b) end.
Infix "+++" := sapp (right associativity, at level 60).
Fixpoint str_eqb (a b : str) : bool :=
  match a, b with
  | SNil, SNil => true
  | SCons x a', SCons y b' => Ascii.eqb x y && str_eqb a' b'
  | _, _ => false
  end.
Fixpoint slen (s : str) : nat := match s with SNil => O | SCons _ s' => S (slen s') end.
Local Open Scope str_scope.
Local Open Scope list_scope.

(* ------------------------------------------------------------------ tokens *)
Inductive kw :=
  | KDEFINITIONS | KBEGIN | KEND | KEXPLICIT | KIMPLICIT | KAUTOMATIC | KTAGS
  | KEXTENSIBILITY | KIMPLIED
  | KBOOLEAN | KINTEGER | KNULL | KOCTET | KSTRING | KBIT | KENUMERATED
  | KIA5String | KUTF8String | KSEQUENCE | KSET | KCHOICE | KOF
  | KOPTIONAL | KDEFAULT | KTRUE | KFALSE | KMIN | KMAX | KSIZE
  | KUNIVERSAL | KAPPLICATION | KPRIVATE | KREAL.

Inductive sym :=
  | Assign (* ::= *) | LBrace | RBrace | LParen | RParen | LBrack | RBrack
  | Comma | Dots (* ... *) | DotDot (* .. *) | Bar | Caret | Bang (* ! *) | Dot (* . *).

Inductive token :=
  | TUp (s : str)      (* typereference / modulereference *)
  | TLo (s : str)      (* identifier *)
  | TNum (z : Z)          (* number, possibly negative (one lexeme, as in asn1p_l.l) *)
  | TKw (k : kw)
  | TSym (p : sym)
  | TBits (bs : list bool)   (* bstring / hstring: both are ATV_BITVECTOR after _convert_bitstring2binary *)
  | TCstr (s : str)          (* cstring, content with "" already reduced to one quote *)
  | TReal (neg : bool) (ip fp : str).  (* realnumber in the fixed notation printf("%f") emits: digits "." digits *)

(* --------------------------------------------------------------------- AST *)
Inductive tclass := TCUniversal | TCApplication | TCContext | TCPrivate.
Inductive tmode := TMDefault | TMImplicit | TMExplicit.
Record tag := mkTag { t_class : tclass; t_num : N; t_mode : tmode }.

(* values (asn1p_value_t as far as asn1print_value prints something the lexer has a token for):
   ATV_INTEGER, ATV_NULL, ATV_TRUE/FALSE, ATV_BITVECTOR, ATV_STRING, ATV_REAL, ATV_REFERENCED
   (value reference `id` or `Module.id`).  Braced values ({ a 1, b TRUE }, OID values) are
   ATV_UNPARSED raw text the lexer reads in a parser-controlled state: outside the model. *)
Inductive vref := VR1 (id : str) | VR2 (m id : str).
Inductive value :=
  | VInt (z : Z) | VNull | VBool (b : bool)
  | VBits (bs : list bool) | VStr (s : str)
  | VReal (neg : bool) (ip fp : str)
  | VRef (r : vref).
(* `SignedNumber | DefinedValue`: named numbers, ENUMERATED values, exception spec *)
Inductive nval := NInt (z : Z) | NRef (r : vref).

Inductive endpoint := EMin | EMax | EVal (v : value).

(* asn1p_constraint_t: ACT_EL_VALUE, ACT_EL_RANGE, ACT_EL_EXT, ACT_CT_SIZE,
   ACT_CA_UNI, ACT_CA_INT, ACT_CA_CSV, ACT_CA_SET *)
Inductive constr :=
  | CVal (v : value)
  | CType (m : option str) (t : str)     (* ACT_EL_TYPE: contained subtype by reference, `(INCLUDES T)` / `(T)` / `(M.T)` *)
  | CRange (lo hi : endpoint)
  | CExt
  | CSize (c : constr)
  | CUni (cs : list constr)
  | CInt (cs : list constr)
  | CCsv (cs : list constr)
  | CSet (cs : list constr).

Inductive marker := MNone | MOptional | MDefault (d : value).

Inductive eitem := EItem (id : str) (v : option nval) | EExt.

Inductive prim :=
  | PBoolean | PNull | PInteger (nn : list (str * nval)) | POctetString
  | PBitString (nn : list (str * nval)) | PEnumerated (items : list eitem)
  | PIA5String | PUTF8String | PRef (name : str) | PReal.

Inductive skind := SSequence | SSet | SChoice.
Inductive okind := OSequence | OSet.

Inductive texpr :=
  | TPrim (tg : option tag) (p : prim) (c : option constr)
  | TStruct (tg : option tag) (k : skind) (ms : list member)
  | TOf (tg : option tag) (k : okind) (c : option constr) (e : texpr)
with member :=
  | MComp (id : str) (t : texpr) (mk : marker)
  | MExt (x : option nval).       (* `...` or `...!exception` *)

Inductive tagdefault := TDNone | TDExplicit | TDImplicit | TDAutomatic.

(* type assignment `T ::= type`, value assignment `v type ::= value` *)
Inductive assign := ATyp (n : str) (t : texpr) | AVal (n : str) (t : texpr) (v : value).

Record module_ast := mkModule {
  m_name : str; m_tags : tagdefault; m_extimpl : bool;
  m_assigns : list assign }.

(* ============================================================ token level *)
Notation K := TKw (only parsing).
Notation Y := TSym (only parsing).

(* x1 sep x2 sep ... xn *)
Definition pp_sep {A} (sep : token) (f : A -> list token) : list A -> list token :=
  fix go l := match l with
              | [] => []
              | [x] => f x
              | x :: l' => f x ++ sep :: go l'
              end.

Definition pp_vref (r : vref) : list token :=
  match r with VR1 id => [TLo id] | VR2 m id => [TUp m; Y Dot; TLo id] end.

(* asn1print_value *)
Definition pp_value (v : value) : list token :=
  match v with
  | VInt z => [TNum z]
  | VNull => [K KNULL]
  | VBool true => [K KTRUE]
  | VBool false => [K KFALSE]
  | VBits bs => [TBits bs]
  | VStr s => [TCstr s]
  | VReal n i f => [TReal n i f]
  | VRef r => pp_vref r
  end.

Definition pp_nval (v : nval) : list token :=
  match v with NInt z => [TNum z] | NRef r => pp_vref r end.

Definition pp_endpoint (e : endpoint) : list token :=
  match e with EMin => [K KMIN] | EMax => [K KMAX] | EVal v => pp_value v end.

(* asn1print_constraint *)
Fixpoint pp_constr (c : constr) : list token :=
  match c with
  | CVal v => pp_value v
  | CType None t => [TUp t]
  | CType (Some m) t => [TUp m; Y Dot; TUp t]
  | CRange lo hi => pp_endpoint lo ++ Y DotDot :: pp_endpoint hi
  | CExt => [Y Dots]
  | CSize c' => K KSIZE :: pp_constr c'
  | CUni cs => pp_sep (Y Bar) pp_constr cs
  | CInt cs => pp_sep (Y Caret) pp_constr cs
  | CCsv cs => pp_sep (Y Comma) pp_constr cs
  | CSet cs => flat_map (fun e => Y LParen :: pp_constr e ++ [Y RParen]) cs
  end.

Definition pp_copt (c : option constr) : list token :=
  match c with None => [] | Some c => pp_constr c end.

(* asn1p_tag2string *)
Definition pp_tag (t : tag) : list token :=
  Y LBrack ::
  (match t_class t with
   | TCUniversal => [K KUNIVERSAL] | TCApplication => [K KAPPLICATION]
   | TCPrivate => [K KPRIVATE] | TCContext => [] end) ++
  TNum (Z.of_N (t_num t)) :: Y RBrack ::
  (match t_mode t with TMDefault => [] | TMImplicit => [K KIMPLICIT] | TMExplicit => [K KEXPLICIT] end).

Definition pp_tagopt (t : option tag) : list token :=
  match t with None => [] | Some t => pp_tag t end.

Definition pp_nn (x : str * nval) : list token :=
  TLo (fst x) :: Y LParen :: pp_nval (snd x) ++ [Y RParen].

Definition pp_nnlist (nn : list (str * nval)) : list token :=
  match nn with [] => [] | _ => Y LBrace :: pp_sep (Y Comma) pp_nn nn ++ [Y RBrace] end.

Definition pp_eitem (e : eitem) : list token :=
  match e with
  | EItem id None => [TLo id]
  | EItem id (Some v) => TLo id :: Y LParen :: pp_nval v ++ [Y RParen]
  | EExt => [Y Dots]
  end.

Definition pp_prim (p : prim) : list token :=
  match p with
  | PBoolean => [K KBOOLEAN]
  | PNull => [K KNULL]
  | PInteger nn => K KINTEGER :: pp_nnlist nn
  | POctetString => [K KOCTET; K KSTRING]
  | PBitString nn => K KBIT :: K KSTRING :: pp_nnlist nn
  | PEnumerated items => K KENUMERATED :: Y LBrace :: pp_sep (Y Comma) pp_eitem items ++ [Y RBrace]
  | PIA5String => [K KIA5String]
  | PUTF8String => [K KUTF8String]
  | PRef s => [TUp s]
  | PReal => [K KREAL]
  end.

Definition pp_marker (m : marker) : list token :=
  match m with
  | MNone => []
  | MOptional => [K KOPTIONAL]
  | MDefault v => K KDEFAULT :: pp_value v
  end.

Definition skind_kw (k : skind) : kw :=
  match k with SSequence => KSEQUENCE | SSet => KSET | SChoice => KCHOICE end.
Definition okind_kw (k : okind) : kw :=
  match k with OSequence => KSEQUENCE | OSet => KSET end.

(* asn1print_expr *)
Fixpoint pp_texpr (t : texpr) : list token :=
  match t with
  | TPrim tg p c => pp_tagopt tg ++ pp_prim p ++ pp_copt c
  | TStruct tg k ms =>
      pp_tagopt tg ++ K (skind_kw k) :: Y LBrace :: pp_sep (Y Comma) pp_member ms ++ [Y RBrace]
  | TOf tg k c e => pp_tagopt tg ++ K (okind_kw k) :: pp_copt c ++ K KOF :: pp_texpr e
  end
with pp_member (m : member) : list token :=
  match m with
  | MComp id t mk => TLo id :: pp_texpr t ++ pp_marker mk
  | MExt None => [Y Dots]
  | MExt (Some x) => Y Dots :: Y Bang :: pp_nval x
  end.

Definition pp_assign (a : assign) : list token :=
  match a with
  | ATyp n t => TUp n :: Y Assign :: pp_texpr t
  | AVal n t v => TLo n :: pp_texpr t ++ Y Assign :: pp_value v
  end.

Definition pp_flags (td : tagdefault) (ei : bool) : list token :=
  (match td with
   | TDNone => [] | TDExplicit => [K KEXPLICIT; K KTAGS]
   | TDImplicit => [K KIMPLICIT; K KTAGS] | TDAutomatic => [K KAUTOMATIC; K KTAGS] end) ++
  (if ei then [K KEXTENSIBILITY; K KIMPLIED] else []).

(* asn1print_module *)
Definition pp_module (m : module_ast) : list token :=
  TUp (m_name m) :: K KDEFINITIONS :: pp_flags (m_tags m) (m_extimpl m) ++
  Y Assign :: K KBEGIN :: flat_map pp_assign (m_assigns m) ++ [K KEND].

(* ============================================================== the parser *)
Definition parser (A : Type) := list token -> option (A * list token).

(* one or more [pe] separated by the tokens recognised by [sepb]; fuel [k] bounds the
   number of elements *)
Definition p_sep1 {A} (pe : parser A) (sepb : token -> bool) : nat -> parser (list A) :=
  fix go k ts :=
    match k with
    | O => None
    | S k' =>
      match pe ts with
      | None => None
      | Some (x, ts1) =>
        match ts1 with
        | t :: ts2 =>
          if sepb t then
            match go k' ts2 with Some (xs, r) => Some (x :: xs, r) | None => None end
          else Some ([x], ts1)
        | [] => Some ([x], [])
        end
      end
    end.

Definition is_comma (t : token) : bool := match t with TSym Comma => true | _ => false end.
Definition is_bar (t : token) : bool := match t with TSym Bar => true | _ => false end.
Definition is_caret (t : token) : bool := match t with TSym Caret => true | _ => false end.

(* ---- constraints ---- *)
Definition is_set (c : constr) : bool := match c with CSet _ => true | _ => false end.

(* CONSTRAINT_INSERT(root, T, arg1, ...) over a left-recursive list rule: a single
   operand stays itself, several become one node of type T *)
Definition wrap1 (mk : list constr -> constr) (l : list constr) : constr :=
  match l with [x] => x | _ => mk l end.

(* `Constraint: '(' ConstraintSpec ')'`: CONSTRAINT_INSERT($$, ACT_CA_SET, $2, 0)
   re-uses $2 when it already is an ACT_CA_SET (a parenthesised element) *)
Definition mk_constraint (s : constr) : constr := if is_set s then s else CSet [s].

(* `ManyConstraints Constraint`: a one-element ACT_CA_SET contributes its element *)
Definition unwrap_set (s : constr) : constr :=
  match s with CSet [x] => x | _ => s end.

(* DefinedValue: identifier | Module.identifier *)
Definition p_vref (ts : list token) : option (vref * list token) :=
  match ts with
  | TLo id :: r => Some (VR1 id, r)
  | TUp m :: TSym Dot :: TLo id :: r => Some (VR2 m id, r)
  | _ => None
  end.

(* Value: SimpleValue | DefinedValue *)
Definition p_value (ts : list token) : option (value * list token) :=
  match ts with
  | TNum z :: r => Some (VInt z, r)
  | TKw KNULL :: r => Some (VNull, r)
  | TKw KTRUE :: r => Some (VBool true, r)
  | TKw KFALSE :: r => Some (VBool false, r)
  | TBits bs :: r => Some (VBits bs, r)
  | TCstr s :: r => Some (VStr s, r)
  | TReal n i f :: r => Some (VReal n i f, r)
  | _ => match p_vref ts with Some (x, r) => Some (VRef x, r) | None => None end
  end.

(* SignedNumber | DefinedValue *)
Definition p_nval (ts : list token) : option (nval * list token) :=
  match ts with
  | TNum z :: r => Some (NInt z, r)
  | _ => match p_vref ts with Some (x, r) => Some (NRef x, r) | None => None end
  end.

Definition p_upper (ts : list token) : option (endpoint * list token) :=
  match ts with
  | TKw KMAX :: r => Some (EMax, r)
  | _ => match p_value ts with Some (v, r) => Some (EVal v, r) | None => None end
  end.

(* ContainedSubtype by reference (`INCLUDES` is not printed back): T | M.T *)
Definition p_ctype (ts : list token) : option (constr * list token) :=
  match ts with
  | TUp m :: TSym Dot :: TUp t :: r => Some (CType (Some m) t, r)
  | TUp m :: TSym Dot :: _ => None
  | TUp t :: r => Some (CType None t, r)
  | _ => None
  end.

(* Elements / SubtypeElements; [pu] parses a nested ElementSetSpec, [ps] a nested
   ConstraintSpec (inside SIZE) *)
Definition p_elem (pu ps : parser constr) : parser constr := fun ts =>
  match ts with
  | TSym LParen :: r =>
      match pu r with
      | Some (u, TSym RParen :: r') => Some (CSet [u], r')
      | _ => None
      end
  | TKw KSIZE :: TSym LParen :: r =>
      match ps r with
      | Some (s, TSym RParen :: r') => Some (CSize (mk_constraint s), r')
      | _ => None
      end
  | TKw KMIN :: TSym DotDot :: r =>
      match p_upper r with Some (hi, r') => Some (CRange EMin hi, r') | None => None end
  | _ =>
      match p_ctype ts with
      | Some res => Some res
      | None =>
        match p_value ts with
        | Some (v, TSym DotDot :: r) =>
            match p_upper r with Some (hi, r') => Some (CRange (EVal v) hi, r') | None => None end
        | Some (v, r) => Some (CVal v, r)
        | None => None
        end
      end
  end.

Definition p_ints (pu ps : parser constr) (k : nat) : parser constr := fun ts =>
  match p_sep1 (p_elem pu ps) is_caret k ts with
  | Some (l, r) => Some (wrap1 CInt l, r)
  | None => None
  end.

Definition p_unis (pu ps : parser constr) (k : nat) : parser constr := fun ts =>
  match p_sep1 (p_ints pu ps k) is_bar k ts with
  | Some (l, r) => Some (wrap1 CUni l, r)
  | None => None
  end.

(* ElementSetSpecs:  ... | ess | ess , ... | ess , ... , ess *)
Definition p_spec_of (pu : parser constr) : parser constr := fun ts =>
  match pu ts with
  | Some (u, TSym Comma :: TSym Dots :: TSym Comma :: r) =>
      match pu r with Some (v, r') => Some (CCsv [u; CExt; v], r') | None => None end
  | Some (u, TSym Comma :: TSym Dots :: r) => Some (CCsv [u; CExt], r)
  | Some (u, r) => Some (u, r)
  | None =>
    match ts with
    | TSym Dots :: r => Some (CExt, r)
    | _ => None
    end
  end.

Fixpoint p_uni (n : nat) (ts : list token) {struct n} : option (constr * list token) :=
  match n with
  | O => None
  | S n' => p_unis (p_uni n') (p_spec_of (p_uni n')) n' ts
  end.

Definition p_spec (n : nat) : parser constr := p_spec_of (p_uni n).

(* ManyConstraints: ( spec ) ( spec ) ... *)
Fixpoint p_many (n k : nat) (ts : list token) : option (list constr * list token) :=
  match k with
  | O => None
  | S k' =>
    match ts with
    | TSym LParen :: r =>
      match p_spec n r with
      | Some (s, TSym RParen :: r') =>
        match r' with
        | TSym LParen :: _ =>
          match p_many n k' r' with
          | Some (l, r'') => Some (unwrap_set (mk_constraint s) :: l, r'')
          | None => None
          end
        | _ => Some ([unwrap_set (mk_constraint s)], r')
        end
      | _ => None
      end
    | _ => None
    end
  end.

(* optManyConstraints *)
Definition p_copt (n : nat) (ts : list token) : option (option constr * list token) :=
  match ts with
  | TSym LParen :: _ =>
    match p_many n n ts with Some (l, r) => Some (Some (CSet l), r) | None => None end
  | _ => Some (None, ts)
  end.

(* optSizeOrConstraint (between SEQUENCE/SET and OF) *)
Definition p_ofconstr (n : nat) (ts : list token) : option (option constr * list token) :=
  match ts with
  | TSym LParen :: r =>
    match p_spec n r with
    | Some (s, TSym RParen :: r') => Some (Some (mk_constraint s), r')
    | _ => None
    end
  | TKw KSIZE :: _ =>
    match p_elem (p_uni n) (p_spec n) ts with
    | Some (c, r) => Some (Some c, r)
    | None => None
    end
  | _ => Some (None, ts)
  end.

(* ---- tags ---- *)
Definition p_mode (ts : list token) : tmode * list token :=
  match ts with
  | TKw KIMPLICIT :: r => (TMImplicit, r)
  | TKw KEXPLICIT :: r => (TMExplicit, r)
  | _ => (TMDefault, ts)
  end.

Definition p_tagnum (cl : tclass) (ts : list token) : option (option tag * list token) :=
  match ts with
  | TNum z :: TSym RBrack :: r =>
    if Z.leb 0 z then let (m, r') := p_mode r in Some (Some (mkTag cl (Z.to_N z) m), r') else None
  | _ => None
  end.

Definition p_tag (ts : list token) : option (option tag * list token) :=
  match ts with
  | TSym LBrack :: TKw KUNIVERSAL :: r => p_tagnum TCUniversal r
  | TSym LBrack :: TKw KAPPLICATION :: r => p_tagnum TCApplication r
  | TSym LBrack :: TKw KPRIVATE :: r => p_tagnum TCPrivate r
  | TSym LBrack :: r => p_tagnum TCContext r
  | _ => Some (None, ts)
  end.

(* ---- primitive types ---- *)
Definition p_nn : parser (str * nval) := fun ts =>
  match ts with
  | TLo id :: TSym LParen :: r =>
      match p_nval r with Some (v, TSym RParen :: r') => Some ((id, v), r') | _ => None end
  | _ => None
  end.

Definition p_nnlist (k : nat) (ts : list token) : option (list (str * nval) * list token) :=
  match ts with
  | TSym LBrace :: r =>
    match p_sep1 p_nn is_comma k r with
    | Some (l, TSym RBrace :: r') => Some (l, r')
    | _ => None
    end
  | _ => Some ([], ts)
  end.

Definition p_eitem : parser eitem := fun ts =>
  match ts with
  | TSym Dots :: r => Some (EExt, r)
  | TLo id :: TSym LParen :: r =>
      match p_nval r with Some (v, TSym RParen :: r') => Some (EItem id (Some v), r') | _ => None end
  | TLo id :: r => Some (EItem id None, r)
  | _ => None
  end.

Definition p_prim (k : nat) (ts : list token) : option (prim * list token) :=
  match ts with
  | TKw KBOOLEAN :: r => Some (PBoolean, r)
  | TKw KNULL :: r => Some (PNull, r)
  | TKw KINTEGER :: r =>
    match p_nnlist k r with Some (nn, r') => Some (PInteger nn, r') | None => None end
  | TKw KOCTET :: TKw KSTRING :: r => Some (POctetString, r)
  | TKw KBIT :: TKw KSTRING :: r =>
    match p_nnlist k r with Some (nn, r') => Some (PBitString nn, r') | None => None end
  | TKw KENUMERATED :: TSym LBrace :: r =>
    match p_sep1 p_eitem is_comma k r with
    | Some (l, TSym RBrace :: r') => Some (PEnumerated l, r')
    | _ => None
    end
  | TKw KIA5String :: r => Some (PIA5String, r)
  | TKw KUTF8String :: r => Some (PUTF8String, r)
  | TKw KREAL :: r => Some (PReal, r)
  | TUp s :: r => Some (PRef s, r)
  | _ => None
  end.

(* ---- members ---- *)
Definition p_member (pt : parser texpr) : parser member := fun ts =>
  match ts with
  | TSym Dots :: TSym Bang :: r =>
    match p_nval r with Some (x, r') => Some (MExt (Some x), r') | None => None end
  | TSym Dots :: r => Some (MExt None, r)
  | TLo id :: r =>
    match pt r with
    | Some (t, TKw KOPTIONAL :: r') => Some (MComp id t MOptional, r')
    | Some (t, TKw KDEFAULT :: r') =>
        match p_value r' with Some (v, r'') => Some (MComp id t (MDefault v), r'') | None => None end
    | Some (t, r') => Some (MComp id t MNone, r')
    | None => None
    end
  | _ => None
  end.

Definition p_members (pt : parser texpr) (k : nat) (ts : list token) : option (list member * list token) :=
  match ts with
  | TSym RBrace :: r => Some ([], r)
  | _ =>
    match p_sep1 (p_member pt) is_comma k ts with
    | Some (l, TSym RBrace :: r) => Some (l, r)
    | _ => None
    end
  end.

Definition struct_kw (k : kw) : option skind :=
  match k with KSEQUENCE => Some SSequence | KSET => Some SSet | KCHOICE => Some SChoice | _ => None end.
Definition of_kw (k : kw) : option okind :=
  match k with KSEQUENCE => Some OSequence | KSET => Some OSet | _ => None end.

Definition p_of (pt : parser texpr) (n : nat) (tg : option tag) (ok : okind) (ts : list token)
  : option (texpr * list token) :=
  match p_ofconstr n ts with
  | Some (c, TKw KOF :: r) =>
    match pt r with Some (e, r') => Some (TOf tg ok c e, r') | None => None end
  | _ => None
  end.

Definition p_struct_or_of (pt : parser texpr) (n : nat) (tg : option tag) (ts : list token)
  : option (texpr * list token) :=
  match ts with
  | TKw k :: TSym LBrace :: r =>
    match struct_kw k with
    | Some sk =>
      match p_members pt n r with Some (ms, r') => Some (TStruct tg sk ms, r') | None => None end
    | None => None
    end
  | TKw k :: r =>
    match of_kw k with
    | Some ok => p_of pt n tg ok r
    | None => None
    end
  | _ => None
  end.

Definition is_struct_start (ts : list token) : bool :=
  match ts with
  | TKw KSEQUENCE :: _ | TKw KSET :: _ | TKw KCHOICE :: _ => true
  | _ => false
  end.

Fixpoint p_texpr (n : nat) (ts : list token) : option (texpr * list token) :=
  match n with
  | O => None
  | S n' =>
    match p_tag ts with
    | None => None
    | Some (tg, ts1) =>
      if is_struct_start ts1 then p_struct_or_of (p_texpr n') n' tg ts1
      else
        match p_prim n' ts1 with
        | None => None
        | Some (p, ts2) =>
          match p_copt n' ts2 with
          | Some (c, ts3) => Some (TPrim tg p c, ts3)
          | None => None
          end
        end
    end
  end.

(* ---- module ---- *)
Fixpoint p_assigns (n k : nat) (ts : list token) : option (list assign * list token) :=
  match k with
  | O => None
  | S k' =>
    match ts with
    | TKw KEND :: r => Some ([], r)
    | TUp nm :: TSym Assign :: r =>
      match p_texpr n r with
      | Some (t, r') =>
        match p_assigns n k' r' with Some (l, r'') => Some (ATyp nm t :: l, r'') | None => None end
      | None => None
      end
    | TLo nm :: r =>
      match p_texpr n r with
      | Some (t, TSym Assign :: r') =>
        match p_value r' with
        | Some (v, r'') =>
          match p_assigns n k' r'' with Some (l, r3) => Some (AVal nm t v :: l, r3) | None => None end
        | None => None
        end
      | _ => None
      end
    | _ => None
    end
  end.

Definition p_flags (ts : list token) : tagdefault * bool * list token :=
  let '(td, r) :=
    match ts with
    | TKw KEXPLICIT :: TKw KTAGS :: r => (TDExplicit, r)
    | TKw KIMPLICIT :: TKw KTAGS :: r => (TDImplicit, r)
    | TKw KAUTOMATIC :: TKw KTAGS :: r => (TDAutomatic, r)
    | _ => (TDNone, ts)
    end in
  match r with
  | TKw KEXTENSIBILITY :: TKw KIMPLIED :: r' => (td, true, r')
  | _ => (td, false, r)
  end.

Definition p_module (n : nat) (ts : list token) : option (module_ast * list token) :=
  match ts with
  | TUp nm :: TKw KDEFINITIONS :: r =>
    let '(td, ei, r1) := p_flags r in
    match r1 with
    | TSym Assign :: TKw KBEGIN :: r2 =>
      match p_assigns n n r2 with
      | Some (l, r3) => Some (mkModule nm td ei l, r3)
      | None => None
      end
    | _ => None
    end
  | _ => None
  end.

Definition parse (ts : list token) : option module_ast :=
  match p_module (S (List.length ts)) ts with
  | Some (m, []) => Some m
  | _ => None
  end.

(* ====================================================== well-formedness *)
(* identifiers: [a-z][A-Za-z0-9]*(-[A-Za-z0-9]+)* ; typereferences start upper-case and are
   not reserved words (the lexer's keyword table) *)
Definition is_lower (a : ascii) : bool := let n := nat_of_ascii a in (97 <=? n)%nat && (n <=? 122)%nat.
Definition is_upper (a : ascii) : bool := let n := nat_of_ascii a in (65 <=? n)%nat && (n <=? 90)%nat.
Definition is_digit (a : ascii) : bool := let n := nat_of_ascii a in (48 <=? n)%nat && (n <=? 57)%nat.
Definition is_alnum (a : ascii) : bool := is_lower a || is_upper a || is_digit a.
Definition is_hyphen (a : ascii) : bool := (nat_of_ascii a =? 45)%nat.

(* after the first character: alphanumerics, single hyphens between them, no trailing hyphen *)
Fixpoint wf_tail (prev_hyphen : bool) (s : str) : bool :=
  match s with
  | SNil => negb prev_hyphen
  | SCons a s' =>
      if is_alnum a then wf_tail false s'
      else if is_hyphen a then negb prev_hyphen && wf_tail true s'
      else false
  end.

Definition kw_table : list (str * kw) :=
  [("DEFINITIONS", KDEFINITIONS); ("BEGIN", KBEGIN); ("END", KEND); ("EXPLICIT", KEXPLICIT);
   ("IMPLICIT", KIMPLICIT); ("AUTOMATIC", KAUTOMATIC); ("TAGS", KTAGS);
   ("EXTENSIBILITY", KEXTENSIBILITY); ("IMPLIED", KIMPLIED);
   ("BOOLEAN", KBOOLEAN); ("INTEGER", KINTEGER); ("NULL", KNULL); ("OCTET", KOCTET);
   ("STRING", KSTRING); ("BIT", KBIT); ("ENUMERATED", KENUMERATED);
   ("IA5String", KIA5String); ("UTF8String", KUTF8String); ("SEQUENCE", KSEQUENCE);
   ("SET", KSET); ("CHOICE", KCHOICE); ("OF", KOF); ("OPTIONAL", KOPTIONAL);
   ("DEFAULT", KDEFAULT); ("TRUE", KTRUE); ("FALSE", KFALSE); ("MIN", KMIN); ("MAX", KMAX);
   ("SIZE", KSIZE); ("UNIVERSAL", KUNIVERSAL); ("APPLICATION", KAPPLICATION);
   ("PRIVATE", KPRIVATE); ("REAL", KREAL)].

Fixpoint lookup_kw (tbl : list (str * kw)) (s : str) : option kw :=
  match tbl with
  | [] => None
  | (n, k) :: tbl' => if str_eqb n s then Some k else lookup_kw tbl' s
  end.

Definition wf_ident (s : str) : bool :=
  match s with
  | SNil => false
  | SCons a s' => is_lower a && wf_tail false s'
  end.

Definition wf_typeref (s : str) : bool :=
  match s with
  | SNil => false
  | SCons a s' =>
      is_upper a && wf_tail false s' &&
      match lookup_kw kw_table s with None => true | Some _ => false end
  end.

(* values *)
Fixpoint all_digits (s : str) : bool :=
  match s with SNil => true | SCons a s' => is_digit a && all_digits s' end.
Definition nonempty (s : str) : bool := match s with SNil => false | _ => true end.

Definition wf_vref (r : vref) : bool :=
  match r with VR1 id => wf_ident id | VR2 m id => wf_typeref m && wf_ident id end.

(* what the printer can emit and the lexer has a lexeme for: a bit vector is never empty
   ('' H is not a lexeme of asn1p_l.l), a real is digits "." six digits *)
Definition wf_value (v : value) : bool :=
  match v with
  | VBits bs => match bs with [] => false | _ => true end
  | VReal _ ip fp => nonempty ip && all_digits ip && Nat.eqb (slen fp) 6 && all_digits fp
  | VRef r => wf_vref r
  | _ => true
  end.

Definition wf_nval (v : nval) : bool :=
  match v with NInt _ => true | NRef r => wf_vref r end.

Definition wf_endpoint (e : endpoint) : bool :=
  match e with EVal v => wf_value v | _ => true end.

(* the shape of the trees the grammar builds (Elements < Intersections < Unions <
   ElementSetSpecs); everything is boolean *)
Inductive lvl := LElem | LInt | LUni | LSpec.
Definition lvl_le (a b : lvl) : bool :=
  match a, b with
  | LElem, _ => true
  | LInt, LElem => false | LInt, _ => true
  | LUni, LUni => true | LUni, LSpec => true | LUni, _ => false
  | LSpec, LSpec => true | LSpec, _ => false
  end.

Definition two_or_more {A} (l : list A) : bool :=
  match l with _ :: _ :: _ => true | _ => false end.

Fixpoint wf_c (l : lvl) (c : constr) : bool :=
  match c with
  | CVal v => wf_value v
  | CType None t => wf_typeref t
  | CType (Some m) t => wf_typeref m && wf_typeref t
  | CRange lo hi =>
      match lo with EMax => false | _ => true end && match hi with EMin => false | _ => true end
      && wf_endpoint lo && wf_endpoint hi
  | CExt => lvl_le LSpec l
  | CSize s =>
      match s with
      | CSet [x] => wf_c LSpec x && negb (is_set x)
      | _ => false
      end
  | CSet cs =>
      match cs with
      | [u] => wf_c LUni u
      | _ => false
      end
  | CInt cs => lvl_le LInt l && two_or_more cs && forallb (wf_c LElem) cs
  | CUni cs => lvl_le LUni l && two_or_more cs && forallb (wf_c LInt) cs
  | CCsv cs =>
      lvl_le LSpec l &&
      match cs with
      | [u; CExt] => wf_c LUni u
      | [u; CExt; v] => wf_c LUni u && wf_c LUni v
      | _ => false
      end
  end.

(* a type's constraint: ACT_CA_SET of one or more specs, none of which is a bare
   parenthesised element (yacc would have merged it) *)
Definition wf_top (c : constr) : bool :=
  match c with
  | CSet cs =>
      match cs with [] => false | _ => forallb (fun x => wf_c LSpec x && negb (is_set x)) cs end
  | _ => false
  end.

(* the constraint between SEQUENCE/SET and OF *)
Definition wf_ofc (c : constr) : bool :=
  match c with
  | CSet [x] => wf_c LSpec x && negb (is_set x)
  | CSize _ => wf_c LElem c
  | _ => false
  end.

Definition wf_copt (f : constr -> bool) (c : option constr) : bool :=
  match c with None => true | Some c => f c end.

Definition wf_nn (x : str * nval) : bool := wf_ident (fst x) && wf_nval (snd x).
Definition wf_eitem (e : eitem) : bool :=
  match e with
  | EItem id None => wf_ident id
  | EItem id (Some v) => wf_ident id && wf_nval v
  | EExt => true
  end.

Definition wf_marker (m : marker) : bool :=
  match m with MDefault v => wf_value v | _ => true end.

Definition wf_prim (p : prim) : bool :=
  match p with
  | PInteger nn | PBitString nn => forallb wf_nn nn
  | PEnumerated items => match items with [] => false | _ => forallb wf_eitem items end
  | PRef s => wf_typeref s
  | _ => true
  end.

Fixpoint wf_texpr (t : texpr) : bool :=
  match t with
  | TPrim _ p c => wf_prim p && wf_copt wf_top c
  | TStruct _ _ ms => forallb wf_member ms
  | TOf _ _ c e => wf_copt wf_ofc c && wf_texpr e
  end
with wf_member (m : member) : bool :=
  match m with
  | MComp id t mk => wf_ident id && wf_texpr t && wf_marker mk
  | MExt None => true
  | MExt (Some x) => wf_nval x
  end.

Definition wf_assign (a : assign) : bool :=
  match a with
  | ATyp n t => wf_typeref n && wf_texpr t
  | AVal n t v => wf_ident n && wf_texpr t && wf_value v
  end.

Definition wf_module (m : module_ast) : bool :=
  wf_typeref (m_name m) && forallb wf_assign (m_assigns m).

(* ============================================================== byte level *)
(* asn1p_itoa *)
Fixpoint dec_uint (u : uint) : str :=
  match u with
  | Nil => ""
  | D0 u' => "0" +++ dec_uint u' | D1 u' => "1" +++ dec_uint u' | D2 u' => "2" +++ dec_uint u'
  | D3 u' => "3" +++ dec_uint u' | D4 u' => "4" +++ dec_uint u' | D5 u' => "5" +++ dec_uint u'
  | D6 u' => "6" +++ dec_uint u' | D7 u' => "7" +++ dec_uint u' | D8 u' => "8" +++ dec_uint u'
  | D9 u' => "9" +++ dec_uint u'
  end.
Definition dec (z : Z) : str :=
  match Z.to_int z with
  | Pos Nil => "0"
  | Pos u => dec_uint u
  | Neg u => "-" +++ dec_uint u
  end.

Fixpoint spaces (n : nat) : str :=
  match n with O => "" | S n' => "    " +++ spaces n' end.    (* INDENT: four blanks per level *)

Definition nl : str := SCons (ascii_of_nat 10) "".
Definition tab : str := SCons (ascii_of_nat 9) "".

Definition ppb_sep {A} (sep : str) (f : A -> str) : list A -> str :=
  fix go l := match l with
              | [] => ""
              | [x] => f x
              | x :: l' => f x +++ sep +++ go l'
              end.

(* ---- spelling of the value tokens (asn1print_value) ---- *)
(* hextable[] = 0123456789ABCDEF: the lexer rule for an hstring admits [0-9A-F], upper case only *)
Definition hexdigit (a b c d : bool) : ascii :=
  match a, b, c, d with
  | false, false, false, false => "0" | false, false, false, true => "1"
  | false, false, true, false => "2"  | false, false, true, true => "3"
  | false, true, false, false => "4"  | false, true, false, true => "5"
  | false, true, true, false => "6"   | false, true, true, true => "7"
  | true, false, false, false => "8"  | true, false, false, true => "9"
  | true, false, true, false => "A"   | true, false, true, true => "B"
  | true, true, false, false => "C"   | true, true, false, true => "D"
  | true, true, true, false => "E"    | true, true, true, true => "F"
  end%char.

(* bits>>3 octets, two digits each; only used when the number of bits is a multiple of 8 *)
Fixpoint hex_of_bits (bs : list bool) : str :=
  match bs with
  | a :: b :: c :: d :: r => SCons (hexdigit a b c d) (hex_of_bits r)
  | _ => SNil
  end.

Fixpoint bin_of_bits (bs : list bool) : str :=
  match bs with
  | [] => SNil
  | b :: r => SCons (if b then "1" else "0")%char (bin_of_bits r)
  end.

Definition quote1 : str := SCons "'"%char SNil.
Definition dquote : ascii := ascii_of_nat 34.

(* ATV_BITVECTOR: `if(bits%8) '0101'B else 'AF'H` *)
Definition ppb_bits (bs : list bool) : str :=
  if Nat.eqb (Nat.modulo (List.length bs) 8) 0
  then quote1 +++ hex_of_bits bs +++ quote1 +++ "H"
  else quote1 +++ bin_of_bits bs +++ quote1 +++ "B".

(* ATV_STRING: every quote is doubled *)
Fixpoint esc_quotes (s : str) : str :=
  match s with
  | SNil => SNil
  | SCons a s' => if Ascii.eqb a dquote then SCons a (SCons a (esc_quotes s')) else SCons a (esc_quotes s')
  end.
Definition ppb_cstr (s : str) : str := SCons dquote (esc_quotes s +++ SCons dquote SNil).

Definition ppb_real (neg : bool) (ip fp : str) : str :=
  (if neg then "-" else "") +++ ip +++ "." +++ fp.

Definition ppb_vref (r : vref) : str :=
  match r with VR1 id => id | VR2 m id => m +++ "." +++ id end.

Definition ppb_value (v : value) : str :=
  match v with
  | VInt z => dec z
  | VNull => "NULL"
  | VBool true => "TRUE"
  | VBool false => "FALSE"
  | VBits bs => ppb_bits bs
  | VStr s => ppb_cstr s
  | VReal n i f => ppb_real n i f
  | VRef r => ppb_vref r
  end.

Definition ppb_nval (v : nval) : str :=
  match v with NInt z => dec z | NRef r => ppb_vref r end.

Definition ppb_endpoint (e : endpoint) : str :=
  match e with EMin => "MIN" | EMax => "MAX" | EVal v => ppb_value v end.

(* asn1print_constraint: symtable = " EXCEPT ", " ^ ", " | ", ",", "", "(" *)
Fixpoint ppb_constr (c : constr) : str :=
  match c with
  | CVal v => ppb_value v
  | CType None t => " " +++ t                   (* asn1print_expr: ENSURE_SPACE before the reference *)
  | CType (Some m) t => " " +++ m +++ "." +++ t
  | CRange lo hi => ppb_endpoint lo +++ ".." +++ ppb_endpoint hi
  | CExt => "..."
  | CSize c' => "SIZE" +++ ppb_constr c'
  | CUni cs => ppb_sep " | " ppb_constr cs
  | CInt cs => ppb_sep " ^ " ppb_constr cs
  | CCsv cs => ppb_sep "," ppb_constr cs
  | CSet cs => "(" +++ ppb_sep ") (" ppb_constr cs +++ ")"
  end.

Definition ppb_tag (t : tag) : str :=
  "[" +++
  (match t_class t with
   | TCUniversal => "UNIVERSAL " | TCApplication => "APPLICATION "
   | TCPrivate => "PRIVATE " | TCContext => "" end) +++
  dec (Z.of_N (t_num t)) +++ "]" +++
  (match t_mode t with TMDefault => "" | TMImplicit => " IMPLICIT" | TMExplicit => " EXPLICIT" end).

(* ENSURE_SPACE then the tag *)
Definition ppb_tagopt (t : option tag) : str :=
  match t with None => "" | Some t => " " +++ ppb_tag t end.

(* the children of INTEGER/BIT STRING/ENUMERATED are printed by the generic member
   loop: INDENT(level+1) name "(" value ")" ; "," INDENT(level)"\n" between ; braces *)
Definition member_sep (level : nat) : str := "," +++ spaces level +++ nl.

Definition ppb_braced {A} (level : nat) (f : A -> str) (l : list A) : str :=
  match l with
  | [] => " { }"
  | _ => " {" +++ nl +++ ppb_sep (member_sep level) f l +++ nl +++ spaces level +++ "}"
  end.

Definition ppb_nn (level : nat) (x : str * nval) : str :=
  spaces (S level) +++ fst x +++ "(" +++ ppb_nval (snd x) +++ ")".

Definition ppb_eitem (level : nat) (e : eitem) : str :=
  match e with
  | EItem id None => spaces (S level) +++ id
  | EItem id (Some v) => spaces (S level) +++ id +++ "(" +++ ppb_nval v +++ ")"
  | EExt => spaces (S level) +++ "..."
  end.

Definition ppb_nnlist (level : nat) (nn : list (str * nval)) : str :=
  match nn with [] => "" | _ => ppb_braced level (ppb_nn level) nn end.

Definition ppb_prim (level : nat) (p : prim) : str :=
  match p with
  | PBoolean => " BOOLEAN"
  | PNull => " NULL"
  | PInteger nn => " INTEGER" +++ ppb_nnlist level nn
  | POctetString => " OCTET STRING"
  | PBitString nn => " BIT STRING" +++ ppb_nnlist level nn
  | PEnumerated items => " ENUMERATED" +++ ppb_braced level (ppb_eitem level) items
  | PIA5String => " IA5String"
  | PUTF8String => " UTF8String"
  | PRef s => " " +++ s
  | PReal => " REAL"
  end.

Definition ppb_marker (m : marker) : str :=
  match m with
  | MNone => ""
  | MOptional => " OPTIONAL"
  | MDefault v => " DEFAULT " +++ ppb_value v
  end.

Definition ppb_copt (c : option constr) : str :=
  match c with None => "" | Some c => " " +++ ppb_constr c end.

(* asn1print_expr from the point after the identifier ("\t" or " ::=" already out,
   has_space = 0): [tag] type [members] [constraint] *)
Fixpoint ppb_texpr (level : nat) (t : texpr) : str :=
  match t with
  | TPrim tg p c => ppb_tagopt tg +++ ppb_prim level p +++ ppb_copt c
  | TStruct tg k ms =>
      ppb_tagopt tg +++ " " +++
      (match k with SSequence => "SEQUENCE" | SSet => "SET" | SChoice => "CHOICE" end) +++
      ppb_braced level (ppb_member level) ms
  | TOf tg k c e =>
      ppb_tagopt tg +++ " " +++ (match k with OSequence => "SEQUENCE" | OSet => "SET" end) +++
      ppb_copt c +++ " OF" +++ ppb_texpr (S level) e
  end
with ppb_member (level : nat) (m : member) : str :=
  match m with
  | MComp id t mk => spaces (S level) +++ id +++ tab +++ ppb_texpr (S level) t +++ ppb_marker mk
  | MExt None => spaces (S level) +++ "..."
  | MExt (Some x) => spaces (S level) +++ "...!" +++ ppb_nval x
  end.

(* a value assignment: identifier, the type without `::=` before it, ` ::= `, the value *)
Definition ppb_assign (a : assign) : str :=
  match a with
  | ATyp n t => n +++ " ::=" +++ ppb_texpr 0 t +++ nl +++ nl
  | AVal n t v => n +++ ppb_texpr 0 t +++ " ::= " +++ ppb_value v +++ nl +++ nl
  end.

Definition ppb_module (m : module_ast) : str :=
  m_name m +++ " DEFINITIONS" +++
  (match m_tags m with
   | TDNone => "" | TDExplicit => " EXPLICIT TAGS" | TDImplicit => " IMPLICIT TAGS"
   | TDAutomatic => " AUTOMATIC TAGS" end) +++
  (if m_extimpl m then " EXTENSIBILITY IMPLIED" else "") +++
  " ::=" +++ nl +++ "BEGIN" +++ nl +++ nl +++
  fold_right sapp "" (map ppb_assign (m_assigns m)) +++ "END" +++ nl.

(* ------------------------------------------------------------------- lexer *)
Definition is_ws (a : ascii) : bool :=
  let n := nat_of_ascii a in (n =? 32)%nat || (n =? 9)%nat || (n =? 10)%nat || (n =? 13)%nat.

(* longest prefix of identifier characters *)
Fixpoint take_word (s : str) : str * str :=
  match s with
  | SCons a s' =>
      if is_alnum a || is_hyphen a then let (w, r) := take_word s' in (SCons a w, r)
      else (SNil, s)
  | SNil => (SNil, SNil)
  end.

Fixpoint take_digits (s : str) : str * str :=
  match s with
  | SCons a s' =>
      if is_digit a then let (w, r) := take_digits s' in (SCons a w, r) else (SNil, s)
  | SNil => (SNil, SNil)
  end.

Fixpoint digits_val (acc : Z) (s : str) : Z :=
  match s with
  | SNil => acc
  | SCons a s' => digits_val (acc * 10 + (Z.of_nat (nat_of_ascii a) - 48)) s'
  end.
Definition num_of (neg : bool) (digits : str) : option Z :=
  match digits with
  | SNil => None
  | _ => let z := digits_val 0 digits in Some (if neg then Z.opp z else z)
  end.

Definition word_token (w : str) : token :=
  match lookup_kw kw_table w with
  | Some k => TKw k
  | None =>
    match w with
    | SCons a _ => if is_upper a then TUp w else TLo w
    | SNil => TLo w
    end
  end.

(* value of a hexadecimal digit as four bits, most significant first; upper case only *)
Definition hexval (c : ascii) : option (bool * bool * bool * bool) :=
  match c with
  | "0" => Some (false, false, false, false) | "1" => Some (false, false, false, true)
  | "2" => Some (false, false, true, false)  | "3" => Some (false, false, true, true)
  | "4" => Some (false, true, false, false)  | "5" => Some (false, true, false, true)
  | "6" => Some (false, true, true, false)   | "7" => Some (false, true, true, true)
  | "8" => Some (true, false, false, false)  | "9" => Some (true, false, false, true)
  | "A" => Some (true, false, true, false)   | "B" => Some (true, false, true, true)
  | "C" => Some (true, true, false, false)   | "D" => Some (true, true, false, true)
  | "E" => Some (true, true, true, false)    | "F" => Some (true, true, true, true)
  | _ => None
  end%char.

(* the characters between the quotes of '...'H / '...'B: bits so far (hexadecimal reading),
   whether all digits were 0/1, the binary reading, and what follows the closing quote *)
Fixpoint lex_quoted (s : str) : option (list bool * bool * list bool * str) :=
  match s with
  | SNil => None
  | SCons c s' =>
    if Ascii.eqb c "'"%char then Some ([], true, [], s')
    else
      match hexval c with
      | None => None
      | Some (b3, b2, b1, b0) =>
        match lex_quoted s' with
        | None => None
        | Some (hb, isbin, bb, r) =>
          Some (b3 :: b2 :: b1 :: b0 :: hb,
                (negb b3 && negb b2 && negb b1) && isbin,
                b0 :: bb, r)
        end
      end
  end.

(* after the opening quote: '[0-9A-F]+'H | '[01]+'B *)
Definition lex_bits (s : str) : option (token * str) :=
  match lex_quoted s with
  | Some (hb, isbin, bb, SCons "H"%char r) =>
      match hb with [] => None | _ => Some (TBits hb, r) end
  | Some (hb, isbin, bb, SCons "B"%char r) =>
      match bb with [] => None | _ => if isbin then Some (TBits bb, r) else None end
  | _ => None
  end.

(* after the opening double quote: a doubled quote is one quote, a single one ends the string *)
Fixpoint lex_cstr (s : str) : option (str * str) :=
  match s with
  | SNil => None
  | SCons a s' =>
    if Ascii.eqb a dquote then
      match s' with
      | SCons b s'' =>
          if Ascii.eqb b dquote then
            match lex_cstr s'' with Some (w, r) => Some (SCons dquote w, r) | None => None end
          else Some (SNil, s')
      | SNil => Some (SNil, SNil)
      end
    else match lex_cstr s' with Some (w, r) => Some (SCons a w, r) | None => None end
  end.

(* digits, then `.digits` makes it a realnumber (fixed notation only) *)
Definition lex_number (neg : bool) (s : str) : option (token * str) :=
  let (d, r) := take_digits s in
  match d with
  | SNil => None
  | _ =>
    match r with
    | SCons "."%char (SCons b r') =>
        if is_digit b then
          let (f, r'') := take_digits (SCons b r') in Some (TReal neg d f, r'')
        else Some (TNum (let z := digits_val 0 d in if neg then Z.opp z else z), r)
    | _ => Some (TNum (let z := digits_val 0 d in if neg then Z.opp z else z), r)
    end
  end.

(* one token at the head of [s] (no leading white space) *)
Definition lex1 (s : str) : option (token * str) :=
  match s with
  | SNil => None
  | SCons a s' =>
      if is_lower a || is_upper a then
        let (w, r) := take_word s in Some (word_token w, r)
      else if is_digit a then lex_number false s
      else
        match a, s' with
        | "-"%char, SCons b _ => if is_digit b then lex_number true s' else None
        | "'"%char, _ => lex_bits s'
        | ":"%char, SCons ":"%char (SCons "="%char r) => Some (Y Assign, r)
        | "."%char, SCons "."%char (SCons "."%char r) => Some (Y Dots, r)
        | "."%char, SCons "."%char r => Some (Y DotDot, r)
        | "."%char, r => Some (Y Dot, r)
        | "!"%char, r => Some (Y Bang, r)
        | "{"%char, r => Some (Y LBrace, r)
        | "}"%char, r => Some (Y RBrace, r)
        | "("%char, r => Some (Y LParen, r)
        | ")"%char, r => Some (Y RParen, r)
        | "["%char, r => Some (Y LBrack, r)
        | "]"%char, r => Some (Y RBrack, r)
        | ","%char, r => Some (Y Comma, r)
        | "|"%char, r => Some (Y Bar, r)
        | "^"%char, r => Some (Y Caret, r)
        | _, _ => if Ascii.eqb a dquote
                  then match lex_cstr s' with Some (w, r) => Some (TCstr w, r) | None => None end
                  else None
        end
  end.

Fixpoint lex_go (fuel : nat) (s : str) : option (list token) :=
  match fuel with
  | O => match s with SNil => Some [] | _ => None end
  | S fuel' =>
    match s with
    | SNil => Some []
    | SCons a s' =>
      if is_ws a then lex_go fuel' s'
      else
        match lex1 s with
        | Some (t, r) => match lex_go fuel' r with Some l => Some (t :: l) | None => None end
        | None => None
        end
    end
  end.

Definition lex (s : str) : option (list token) := lex_go (slen s) s.

(* ------------------------------------------------ executable comparisons *)
Definition kw_eqb (a b : kw) : bool :=
  match a, b with
  | KDEFINITIONS, KDEFINITIONS | KBEGIN, KBEGIN | KEND, KEND | KEXPLICIT, KEXPLICIT
  | KIMPLICIT, KIMPLICIT | KAUTOMATIC, KAUTOMATIC | KTAGS, KTAGS
  | KEXTENSIBILITY, KEXTENSIBILITY | KIMPLIED, KIMPLIED | KBOOLEAN, KBOOLEAN
  | KINTEGER, KINTEGER | KNULL, KNULL | KOCTET, KOCTET | KSTRING, KSTRING | KBIT, KBIT
  | KENUMERATED, KENUMERATED | KIA5String, KIA5String | KUTF8String, KUTF8String
  | KSEQUENCE, KSEQUENCE | KSET, KSET | KCHOICE, KCHOICE | KOF, KOF | KOPTIONAL, KOPTIONAL
  | KDEFAULT, KDEFAULT | KTRUE, KTRUE | KFALSE, KFALSE | KMIN, KMIN | KMAX, KMAX
  | KSIZE, KSIZE | KUNIVERSAL, KUNIVERSAL | KAPPLICATION, KAPPLICATION | KPRIVATE, KPRIVATE
  | KREAL, KREAL => true
  | _, _ => false
  end.

Definition sym_eqb (a b : sym) : bool :=
  match a, b with
  | Assign, Assign | LBrace, LBrace | RBrace, RBrace | LParen, LParen | RParen, RParen
  | LBrack, LBrack | RBrack, RBrack | Comma, Comma | Dots, Dots | DotDot, DotDot
  | Bar, Bar | Caret, Caret | Bang, Bang | Dot, Dot => true
  | _, _ => false
  end.

Fixpoint bits_eqb (a b : list bool) : bool :=
  match a, b with
  | [], [] => true
  | x :: a', y :: b' => Bool.eqb x y && bits_eqb a' b'
  | _, _ => false
  end.

Definition token_eqb (a b : token) : bool :=
  match a, b with
  | TUp x, TUp y | TLo x, TLo y => str_eqb x y
  | TNum x, TNum y => Z.eqb x y
  | TKw x, TKw y => kw_eqb x y
  | TSym x, TSym y => sym_eqb x y
  | TBits x, TBits y => bits_eqb x y
  | TCstr x, TCstr y => str_eqb x y
  | TReal n i f, TReal n' i' f' => Bool.eqb n n' && str_eqb i i' && str_eqb f f'
  | _, _ => false
  end.

Fixpoint tokens_eqb (a b : list token) : bool :=
  match a, b with
  | [], [] => true
  | x :: a', y :: b' => token_eqb x y && tokens_eqb a' b'
  | _, _ => false
  end.

(* run-time self-checks of the model on one AST (command c12_rt):
   (wf a, lex (ppb a) = pp a, pp (parse (pp a)) = pp a with parse defined) *)
Definition rt_lex (m : module_ast) : bool :=
  match lex (ppb_module m) with Some ts => tokens_eqb ts (pp_module m) | None => false end.

Definition rt_parse (m : module_ast) : bool :=
  match parse (pp_module m) with
  | Some m' => tokens_eqb (pp_module m') (pp_module m) && str_eqb (ppb_module m') (ppb_module m)
  | None => false
  end.

(* print, lex, parse, print again: the byte-level cycle executed on the model *)
Definition cycle (m : module_ast) : option str :=
  match lex (ppb_module m) with
  | Some ts => match parse ts with Some m' => Some (ppb_module m') | None => None end
  | None => None
  end.
