(* Fix/CrangeProofs.v — the interval algebra of Fix/Crange.v denotes what it
   should: lemmas about split / split_loop / range_intersection / range_union /
   range_canonicalize with the denotation  inl : list ipair -> Z -> Prop. *)
From Coq Require Import ZArith List Lia Bool ZifyBool Sorted.
From A1 Require Import Fix.Crange.
Import ListNotations.
Local Open Scope Z_scope.

(* ---- denotation ---- *)
Definition le_e (e : edge) (z : Z) : Prop :=
  match e with EMin => True | EV a => a <= z | EMax => False end.
Definition ge_e (e : edge) (z : Z) : Prop :=
  match e with EMax => True | EV a => z <= a | EMin => False end.
Definition inp (p : ipair) (z : Z) : Prop := le_e (fst p) z /\ ge_e (snd p) z.
Definition inl (l : list ipair) (z : Z) : Prop := exists p, In p l /\ inp p z.
(* a range record denotes the union of its parts, or nothing when flagged empty *)
Definition den (r : range) (z : Z) : Prop := r_empty r = false /\ inl (parts r) z.

(* well-formed pair: a left edge is MIN or a value, a right edge MAX or a value, left <= right *)
Definition wfp (p : ipair) : Prop :=
  fst p <> EMax /\ snd p <> EMin /\ edge_compare (fst p) (snd p) <= 0.
(* an empty-flagged record keeps stale edges: nothing is required of them *)
Definition wfr (r : range) : Prop := r_empty r = false -> Forall wfp (parts r).

(* the INTMAX_MIN / INTMAX_MAX guards of _range_split are not hit by this `with` part *)
Definition guard_free (p : ipair) : Prop := fst p <> EV intmax_min /\ snd p <> EV intmax_max.

Lemma inl_nil : forall z, ~ inl [] z.
Proof. intros z [p [[] _]]. Qed.
Lemma inl_cons : forall p l z, inl (p :: l) z <-> inp p z \/ inl l z.
Proof.
  intros; split.
  - intros [q [[->|Hin] Hq]]; [left; exact Hq | right; exists q; auto].
  - intros [H | [q [Hin Hq]]]; [exists p; simpl; auto | exists q; simpl; auto].
Qed.
Lemma inl_app : forall a b z, inl (a ++ b) z <-> inl a z \/ inl b z.
Proof.
  induction a; intros; simpl.
  - split; [auto | intros [H|H]; [destruct (inl_nil _ H) | auto]].
  - rewrite !inl_cons, IHa. tauto.
Qed.

(* ---- edge comparison as a strict order ---- *)
Definition elt (a b : edge) : Prop :=
  match a, b with
  | EMin, EMin => False | EMin, _ => True
  | EMax, _ => False
  | EV _, EMin => False | EV _, EMax => True
  | EV x, EV y => x < y
  end.

Lemma ec_val : forall x y, (edge_compare (EV x) (EV y) < 0 <-> x < y) /\ (edge_compare (EV x) (EV y) > 0 <-> y < x).
Proof.
  intros; simpl. destruct (Z.ltb_spec x y); [lia|].
  rewrite Z.gtb_ltb. destruct (Z.ltb_spec y x); lia.
Qed.
Lemma ec_lt : forall a b, edge_compare a b < 0 <-> elt a b.
Proof. intros [| |x] [| |y]; try (simpl; lia). apply (ec_val x y). Qed.
Lemma ec_gt : forall a b, edge_compare a b > 0 <-> elt b a.
Proof. intros [| |x] [| |y]; try (simpl; lia). apply (ec_val x y). Qed.
Lemma ec_ltb : forall a b, (edge_compare a b <? 0) = true <-> elt a b.
Proof. intros. rewrite Z.ltb_lt. apply ec_lt. Qed.
Lemma ec_ltb_f : forall a b, (edge_compare a b <? 0) = false <-> ~ elt a b.
Proof. intros. rewrite Z.ltb_ge, <- ec_lt. lia. Qed.
Lemma ec_gtb : forall a b, (edge_compare a b >? 0) = true <-> elt b a.
Proof. intros. rewrite Z.gtb_ltb, Z.ltb_lt, <- ec_gt. lia. Qed.
Lemma ec_gtb_f : forall a b, (edge_compare a b >? 0) = false <-> ~ elt b a.
Proof. intros. rewrite Z.gtb_ltb, Z.ltb_ge, <- ec_gt. lia. Qed.
Lemma ec_leb : forall a b, (edge_compare a b <=? 0) = true <-> ~ elt b a.
Proof. intros. rewrite Z.leb_le, <- ec_gt. lia. Qed.
Lemma ec_geb : forall a b, (edge_compare a b >=? 0) = true <-> ~ elt a b.
Proof. intros. rewrite Z.geb_le, <- ec_lt. lia. Qed.
Lemma ec_le : forall a b, edge_compare a b <= 0 <-> ~ elt b a.
Proof. intros. rewrite <- ec_gt. lia. Qed.

Lemma overlap_true : forall a b, overlap a b = true <-> ~ elt (snd b) (fst a) /\ ~ elt (snd a) (fst b).
Proof.
  intros. unfold overlap. rewrite andb_true_iff, !negb_true_iff, ec_gtb_f, ec_ltb_f. tauto.
Qed.

Lemma wfp_iff : forall p, wfp p <-> fst p <> EMax /\ snd p <> EMin /\ ~ elt (snd p) (fst p).
Proof. intros. unfold wfp. rewrite ec_le. tauto. Qed.

(* destruct an edge known to be a left (resp. right) edge *)
Ltac left_edge e H := destruct e; [ | exfalso; apply H; reflexivity | ].
Ltac right_edge e H := destruct e; [ exfalso; apply H; reflexivity | | ].

(* ---- sorting is a permutation as far as membership goes ---- *)
Lemma insert_by_in : forall cmp x l p, In p (insert_by cmp x l) <-> p = x \/ In p l.
Proof.
  induction l; intros; simpl.
  - intuition.
  - destruct (cmp x a <=? 0); simpl; [intuition|]. rewrite IHl. intuition.
Qed.
Lemma sort_by_in : forall cmp l p, In p (sort_by cmp l) <-> In p l.
Proof.
  induction l; intros; simpl; [tauto|].
  rewrite insert_by_in, IHl. intuition.
Qed.
Lemma inl_sort : forall cmp l z, inl (sort_by cmp l) z <-> inl l z.
Proof.
  intros; unfold inl; split; intros [p [H1 H2]]; exists p; split; auto; apply (sort_by_in cmp); auto.
Qed.
Lemma Forall_sort : forall (P : ipair -> Prop) cmp l, Forall P l -> Forall P (sort_by cmp l).
Proof.
  intros. rewrite Forall_forall in *. intros p Hp. apply H. apply (sort_by_in cmp); auto.
Qed.

Lemma inl_one : forall p z, inl [p] z <-> inp p z.
Proof. intros. rewrite inl_cons. split; [intros [H|H]; [auto | destruct (inl_nil _ H)] | auto]. Qed.
Lemma inl_nil_iff : forall z, inl [] z <-> False.
Proof. intros; split; [apply inl_nil | tauto]. Qed.

(* ---- _range_overlap ---- *)
Lemma common_overlap : forall a b z, inp a z -> inp b z -> overlap a b = true.
Proof.
  intros [al ar] [bl br] z [Ha1 Ha2] [Hb1 Hb2]. apply overlap_true; simpl in *.
  destruct al, ar, bl, br; simpl in *; lia.
Qed.

(* ---- _range_split ---- *)
Lemma split_none : forall ra rb, split ra rb = None -> overlap ra rb = true ->
  forall z, inp ra z -> inp rb z.
Proof.
  intros [al ar] [bl br] H Ho z [Hz1 Hz2]. unfold split in H. rewrite Ho in H. simpl in H.
  destruct ((edge_compare al bl >=? 0) && (edge_compare ar br <=? 0)) eqn:E; [|discriminate].
  clear H Ho. apply andb_prop in E. destruct E as [E1 E2].
  apply ec_geb in E1. apply ec_leb in E2. unfold inp; simpl in *.
  destruct al, ar, bl, br; simpl in *; lia.
Qed.

Lemma split_some : forall ra rb ps, split ra rb = Some ps -> wfp ra -> wfp rb -> guard_free rb ->
  (forall z, inl ps z <-> inp ra z) /\ Forall wfp ps.
Proof.
  intros [al ar] [bl br] ps H Wa Wb [G1 G2]. unfold split in H.
  destruct (overlap (al, ar) (bl, br)) eqn:Ho; simpl in H; [|discriminate].
  destruct ((edge_compare al bl >=? 0) && (edge_compare ar br <=? 0)) eqn:E; [discriminate|].
  injection H as <-.
  apply overlap_true in Ho. simpl in Ho. destruct Ho as [Ho1 Ho2].
  apply wfp_iff in Wa. apply wfp_iff in Wb. simpl in Wa, Wb.
  destruct Wa as [Wa1 [Wa2 Wa3]]. destruct Wb as [Wb1 [Wb2 Wb3]].
  apply andb_false_iff in E.
  cbn [fst snd] in *.
  match goal with |- context [sort_by _ ?l] =>
    assert (K : (forall z, inl l z <-> inp (al, ar) z) /\ Forall wfp l) end.
  { destruct (edge_compare al bl <? 0) eqn:Ell; [apply ec_ltb in Ell | apply ec_ltb_f in Ell];
    (destruct (edge_compare ar br >? 0) eqn:Err; [apply ec_gtb in Err | apply ec_gtb_f in Err]).
    4: { exfalso. destruct E as [E|E];
         [assert (E' : edge_compare al bl < 0) by lia; apply ec_lt in E'; tauto
         | assert (E' : edge_compare ar br > 0) by lia; apply ec_gt in E'; tauto]. }
    all: clear E; left_edge al Wa1; right_edge ar Wa2; left_edge bl Wb1; right_edge br Wb2; simpl in *;
      try lia;
      repeat match goal with
      | |- context [?v =? ?c] => destruct (Z.eqb_spec v c); [exfalso; subst; first [apply G1; reflexivity | apply G2; reflexivity] |]
      end; simpl;
      (split; [ intro zz; rewrite ?inl_cons, ?inl_nil_iff; unfold inp; simpl; lia
              | repeat first [apply Forall_nil | apply Forall_cons];
                apply wfp_iff; simpl; (split; [congruence | split; [congruence | lia]]) ]). }
  destruct K as [K1 K2].
  split; [intro zz; rewrite inl_sort; apply K1 | apply Forall_sort; exact K2].
Qed.

(* without guard_free the cover is lost: (MIN..20) split by (INTMAX_MIN..15) drops
   everything below INTMAX_MIN (the "We've hit the limit here" break) *)
Lemma split_cover_refuted : exists ra rb ps z, split ra rb = Some ps /\ wfp ra /\ wfp rb /\
  inp ra z /\ ~ inl ps z.
Proof.
  exists (EMin, EV 20), (EV intmax_min, EV 15), [(EV intmax_min, EV 15); (EV 16, EV 20)], (intmax_min - 1).
  split; [vm_compute; reflexivity|].
  split; [unfold wfp; simpl; split; [congruence | split; [congruence | lia]] |].
  split; [unfold wfp, intmax_min; simpl; split; [congruence | split; [congruence | lia]] |].
  split; [unfold inp, intmax_min; simpl; lia |].
  rewrite !inl_cons, inl_nil_iff. unfold inp, intmax_min; simpl. lia.
Qed.

(* a piece is unsplittable by w: it is inside w or does not meet it *)
Definition unsplit (ws : list ipair) (e : ipair) : Prop := forall w, In w ws -> split e w = None.

Lemma first_split_some : forall e ws ps, first_split e ws = Some ps -> exists w, In w ws /\ split e w = Some ps.
Proof.
  induction ws; simpl; intros; [discriminate|].
  destruct (split e a) eqn:E.
  - injection H as <-. exists a; auto.
  - destruct (IHws _ H) as [w [Hw Hs]]. exists w; auto.
Qed.
Lemma first_split_none : forall e ws, first_split e ws = None -> unsplit ws e.
Proof.
  induction ws; simpl; intros H w Hw; [destruct Hw|].
  destruct (split e a) eqn:E; [discriminate|].
  destruct Hw as [<-|Hw]; auto. apply IHws; auto.
Qed.

Lemma inl_rev : forall l z, inl (rev l) z <-> inl l z.
Proof.
  intros; unfold inl; split; intros [p [H1 H2]]; exists p; split; auto;
    [apply in_rev; auto | apply in_rev in H1; auto].
Qed.

(* the "Split range in pieces" loop *)
Lemma split_loop_spec : forall ws, Forall wfp ws -> Forall guard_free ws ->
  forall fuel todo done out, split_loop fuel todo done ws = Some out ->
  Forall wfp todo -> Forall wfp done -> Forall (unsplit ws) done ->
  (forall z, inl out z <-> inl todo z \/ inl done z) /\ Forall wfp out /\ Forall (unsplit ws) out.
Proof.
  intros ws Wws Gws. induction fuel; simpl; intros todo done out H Wt Wd Ud; [discriminate|].
  destruct todo as [|e rest].
  - injection H as <-. split; [|split].
    + intro z. rewrite inl_rev, inl_nil_iff. tauto.
    + apply Forall_rev; auto.
    + apply Forall_rev; auto.
  - inversion Wt as [|? ? We Wrest]; subst.
    destruct (first_split e ws) as [ps|] eqn:F.
    + destruct (first_split_some _ _ _ F) as [w [Hw Hs]].
      rewrite Forall_forall in Wws, Gws.
      destruct (split_some _ _ _ Hs We (Wws _ Hw) (Gws _ Hw)) as [C Wps].
      destruct (IHfuel _ _ _ H) as [I1 [I2 I3]]; auto.
      { apply Forall_app; auto. }
      split; [|auto]. intro z. rewrite I1, inl_app, inl_cons, C. tauto.
    + apply first_split_none in F.
      destruct (IHfuel _ _ _ H) as [I1 [I2 I3]]; auto.
      split; [|auto]. intro z. rewrite I1, !inl_cons. tauto.
Qed.

(* ---- _range_intersection, PER / unflagged mode ---- *)
Lemma filter_overlap_den : forall ws pieces, Forall (unsplit ws) pieces ->
  forall z, inl (filter (fun e => existsb (overlap e) ws) pieces) z <-> inl pieces z /\ inl ws z.
Proof.
  intros ws pieces U z. split.
  - intros [p [Hin Hp]]. apply filter_In in Hin. destruct Hin as [Hin Hex].
    apply existsb_exists in Hex. destruct Hex as [w [Hw Ho]].
    rewrite Forall_forall in U. specialize (U _ Hin _ Hw).
    split; [exists p; auto|]. exists w; split; auto. eapply split_none; eauto.
  - intros [[p [Hin Hp]] [w [Hw Hz]]]. exists p; split; auto.
    apply filter_In; split; auto. apply existsb_exists. exists w; split; auto.
    eapply common_overlap; eauto.
Qed.

Lemma parts_set_elems : forall r els, els <> [] -> parts (set_elems r els) = els.
Proof. intros r [|a l] H; [congruence|reflexivity]. Qed.
Lemma parts_nonnil : forall r, parts r <> [].
Proof. intros r. unfold parts. destruct (r_elems r); congruence. Qed.

Theorem intersection_denotes : forall r w strict r',
  range_intersection r w strict false = IOk r' ->
  wfr r -> wfr w -> Forall guard_free (parts w) ->
  (forall z, den r' z <-> den r z /\ den w z) /\ wfr r'.
Proof.
  intros r w strict r' H Wr Ww G. unfold range_intersection in H. simpl in H.
  set (r1 := mkRange (r_left r) (r_right r) (r_elems r) (r_ext r || r_ext w) (r_empty r)
            (r_notPER r || r_notPER w) (if r_ext w then true else r_notOER r) (r_incompat r)) in *.
  assert (P1 : parts (set_empty r1 (r_empty r || r_empty w)) = parts r) by reflexivity.
  destruct (r_empty r || r_empty w) eqn:Em.
  - injection H as <-. split.
    + intro z. unfold den. simpl. apply orb_true_iff in Em.
      split; [intros [? _]; discriminate | intros [[E1 _] [E2 _]]; destruct Em; congruence].
    + unfold wfr. simpl. intro; discriminate.
  - apply orb_false_iff in Em. destruct Em as [Em1 Em2]. rewrite P1 in H.
    specialize (Wr Em1). specialize (Ww Em2).
    destruct (strict && _) in H; [discriminate|].
    destruct (split_loop _ _ _ _) as [pieces|] eqn:SL; [|discriminate].
    destruct (split_loop_spec _ Ww G _ _ _ _ SL Wr (Forall_nil _) (Forall_nil _)) as [S1 [S2 S3]].
    pose proof (filter_overlap_den _ _ S3) as FD.
    set (kept := filter (fun e => existsb (overlap e) (parts w)) pieces) in *.
    assert (Wk : Forall wfp kept).
    { apply Forall_forall. intros p Hp. apply filter_In in Hp. rewrite Forall_forall in S2. apply S2. tauto. }
    injection H as <-. destruct kept as [|k kt] eqn:Ek.
    + split.
      * intro z. unfold den at 1. simpl. split; [intros [? _]; discriminate|].
        intros [[_ D1] [_ D2]]. exfalso. apply (inl_nil z). apply FD. split; auto.
        apply S1. left; auto.
      * unfold wfr. simpl. intro; discriminate.
    + split.
      * intro z. unfold den. simpl. unfold parts at 1; simpl. rewrite FD, S1, inl_nil_iff, Em1, Em2. tauto.
      * unfold wfr, parts; simpl. intros _. exact Wk.
Qed.

(* ---- _range_union ---- *)
Lemma join_den : forall ra rb, wfp ra -> wfp rb -> joinable ra rb = true ->
  (forall z, inp (join ra rb) z <-> inp ra z \/ inp rb z) /\ wfp (join ra rb).
Proof.
  intros [al ar] [bl br] Wa Wb J. apply wfp_iff in Wa. apply wfp_iff in Wb. simpl in Wa, Wb.
  destruct Wa as [Wa1 [Wa2 Wa3]]. destruct Wb as [Wb1 [Wb2 Wb3]].
  unfold joinable, join in *. destruct (overlap (al, ar) (bl, br)) eqn:O.
  - apply overlap_true in O. simpl in O. destruct O as [O1 O2]. cbn [fst snd].
    destruct (edge_compare al bl <? 0) eqn:Ell; [apply ec_ltb in Ell | apply ec_ltb_f in Ell];
    (destruct (edge_compare ar br >? 0) eqn:Err; [apply ec_gtb in Err | apply ec_gtb_f in Err]);
    left_edge al Wa1; right_edge ar Wa2; left_edge bl Wb1; right_edge br Wb2; simpl in *; try lia;
    (split; [intro zz; unfold inp; simpl; lia | apply wfp_iff; simpl; (split; [congruence | split; [congruence | lia]])]).
  - simpl in J. cbn [fst snd] in *. destruct ar; try discriminate. destruct bl; try discriminate.
    assert (z0 - z = 1) by lia. clear J.
    assert (O' : ~ (~ elt br al /\ ~ elt (EV z) (EV z0))).
    { intro K. apply (overlap_true (al, EV z) (EV z0, br)) in K. congruence. }
    left_edge al Wa1; right_edge br Wb2; simpl in *;
    (split; [intro zz; unfold inp; simpl; lia | apply wfp_iff; simpl; (split; [congruence | split; [congruence | lia]])]).
Qed.

Lemma union_loop_den : forall rest ra, wfp ra -> Forall wfp rest ->
  (forall z, inl (union_loop ra rest) z <-> inp ra z \/ inl rest z) /\ Forall wfp (union_loop ra rest).
Proof.
  induction rest as [|rb tl IH]; intros ra Wa Wr; simpl.
  - split; [intro z; rewrite inl_one, inl_nil_iff; tauto | auto].
  - inversion Wr as [|? ? Wb Wtl]; subst.
    destruct (joinable ra rb) eqn:J.
    + destruct (join_den _ _ Wa Wb J) as [J1 J2].
      destruct (IH _ J2 Wtl) as [I1 I2]. split; auto.
      intro z. rewrite I1, J1, inl_cons. tauto.
    + destruct (IH _ Wb Wtl) as [I1 I2]. split; auto.
      intro z. rewrite !inl_cons, I1. tauto.
Qed.

Theorem union_denotes : forall els, Forall wfp els ->
  (forall z, inl (range_union els) z <-> inl els z) /\ Forall wfp (range_union els).
Proof.
  intros els W. unfold range_union.
  pose proof (inl_sort range_compare els) as S.
  pose proof (Forall_sort _ range_compare _ W) as WS.
  destruct (sort_by range_compare els) as [|a tl].
  - split; [exact S | auto].
  - inversion WS; subst. destruct (union_loop_den tl a) as [U1 U2]; auto.
    split; auto. intro z. rewrite U1, <- S, inl_cons. tauto.
Qed.

(* ---- _range_canonicalize ---- *)
Lemma range_union_nonnil : forall els, els <> [] -> range_union els <> [].
Proof.
  intros els H. unfold range_union.
  assert (sort_by range_compare els <> []).
  { destruct els as [|a l]; [congruence|]. simpl.
    destruct (sort_by range_compare l); simpl; [congruence|]. destruct (range_compare a i <=? 0); congruence. }
  destruct (sort_by range_compare els) as [|a tl]; [congruence|].
  clear. revert a. induction tl; intros; simpl; [congruence|]. destruct (joinable a0 a); [apply IHtl | congruence].
Qed.

Theorem canonicalize_denotes : forall r, wfr r ->
  (forall z, den (range_canonicalize r) z <-> den r z) /\ wfr (range_canonicalize r).
Proof.
  intros r W. unfold range_canonicalize. destruct (r_elems r) as [|e els] eqn:E.
  - destruct (edge_compare (r_left r) (r_right r) >? 0) eqn:C; [|tauto].
    (* reversed single range: cannot be well formed unless flagged empty *)
    unfold wfr, den in *. simpl. unfold parts in *. rewrite E in *. simpl.
    destruct (r_empty r); [split; [intro z; split; intros [? _]; discriminate | intro; discriminate]|].
    exfalso. specialize (W eq_refl). inversion W as [|? ? Wp _]; subst. apply wfp_iff in Wp. simpl in Wp.
    apply ec_gtb in C. tauto.
  - assert (NE : e :: els <> []) by congruence.
    pose proof (range_union_nonnil _ NE) as UN.
    unfold wfr, den in *.
    assert (P : parts r = e :: els) by (unfold parts; rewrite E; reflexivity).
    rewrite P in *.
    destruct (r_empty r) eqn:Er.
    + split.
      * intro z. destruct (range_union (e :: els)) as [|p [|q t]]; simpl; rewrite Er; split; intros [? _]; discriminate.
      * destruct (range_union (e :: els)) as [|p [|q t]]; simpl; rewrite Er; intro; discriminate.
    + specialize (W eq_refl). destruct (union_denotes _ W) as [U1 U2].
      destruct (range_union (e :: els)) as [|p [|q t]] eqn:Eu; [congruence | |].
      * simpl. rewrite Er. unfold parts; simpl. split.
        -- intro z. rewrite <- U1, !inl_one. destruct p; simpl; tauto.
        -- intros _. constructor; auto. inversion U2; subst. destruct p; simpl; auto.
      * cbn [r_empty set_bounds]. rewrite Er. unfold parts; cbn [r_elems set_bounds]. split.
        -- intro z. rewrite <- U1. tauto.
        -- intros _. exact U2.
Qed.

(* ---- canonical form: sorted, consecutive elements separated by a gap ---- *)
Definition ele (a b : edge) : Prop := ~ elt b a.
Definition gap (a b : ipair) : Prop := exists x y, snd a = EV x /\ fst b = EV y /\ x + 1 < y.
Inductive chain_gap : list ipair -> Prop :=
  | cg_nil : chain_gap []
  | cg_one : forall p, chain_gap [p]
  | cg_cons : forall a b l, gap a b -> chain_gap (b :: l) -> chain_gap (a :: b :: l).
Definition lsorted (l : list ipair) : Prop := StronglySorted (fun a b => ele (fst a) (fst b)) l.

Lemma ele_trans : forall a b c, ele a b -> ele b c -> ele a c.
Proof. unfold ele. intros [| |x] [| |y] [| |z]; simpl; lia. Qed.
Lemma ele_antisym : forall a b, ele a b -> ele b a -> a = b.
Proof. unfold ele. intros [| |x] [| |y]; simpl; intros; try reflexivity; try lia. f_equal; lia. Qed.
Lemma elt_ele : forall a b, elt a b -> ele a b.
Proof. unfold ele. intros [| |x] [| |y]; simpl; lia. Qed.

Lemma rc_le : forall x y, range_compare x y <= 0 -> ele (fst x) (fst y).
Proof.
  intros x y H. unfold range_compare in H.
  destruct (edge_compare (fst x) (fst y) =? 0) eqn:E.
  - unfold ele. rewrite <- ec_gt. lia.
  - apply elt_ele. apply ec_lt. lia.
Qed.
Lemma rc_gt : forall x y, ~ range_compare x y <= 0 -> ele (fst y) (fst x).
Proof.
  intros x y H. unfold range_compare in H.
  destruct (edge_compare (fst x) (fst y) =? 0) eqn:E.
  - unfold ele. rewrite <- ec_lt. lia.
  - apply elt_ele. apply ec_gt. lia.
Qed.

Lemma insert_lsorted : forall x l, lsorted l -> lsorted (insert_by range_compare x l).
Proof.
  induction l as [|a l IH]; intros S; simpl.
  - constructor; constructor.
  - inversion S as [|? ? Sl Fa]; subst.
    destruct (range_compare x a <=? 0) eqn:E.
    + apply Z.leb_le in E. apply rc_le in E. constructor; [exact S |]. constructor; [exact E |].
      eapply Forall_impl; [|exact Fa]. intros b Hb. eapply ele_trans; eauto.
    + apply Z.leb_gt in E. assert (E' : ~ range_compare x a <= 0) by lia. apply rc_gt in E'.
      constructor; [apply IH; exact Sl |]. apply Forall_forall. intros b Hb. apply insert_by_in in Hb.
      destruct Hb as [->|Hb]; auto. rewrite Forall_forall in Fa. auto.
Qed.
Lemma sort_lsorted : forall l, lsorted (sort_by range_compare l).
Proof. induction l; simpl; [constructor | apply insert_lsorted; auto]. Qed.

Lemma gap_of_nonjoin : forall ra rb, wfp ra -> wfp rb -> ele (fst ra) (fst rb) ->
  joinable ra rb = false -> exists x y, snd ra = EV x /\ fst rb = EV y /\ x + 1 < y.
Proof.
  intros [al ar] [bl br] Wa Wb S J. apply wfp_iff in Wa. apply wfp_iff in Wb. simpl in *.
  destruct Wa as [Wa1 [Wa2 Wa3]]. destruct Wb as [Wb1 [Wb2 Wb3]]. unfold ele in S.
  unfold joinable in J. apply orb_false_iff in J. destruct J as [O A].
  assert (O' : ~ (~ elt br al /\ ~ elt ar bl)).
  { intro K. apply (overlap_true (al, ar) (bl, br)) in K. congruence. }
  cbn [fst snd] in A.
  left_edge al Wa1; right_edge ar Wa2; left_edge bl Wb1; right_edge br Wb2; simpl in *; try lia;
    try (eexists; eexists; split; [reflexivity | split; [reflexivity | lia]]).
Qed.

Lemma join_fst : forall ra rb, ele (fst ra) (fst rb) -> fst (join ra rb) = fst ra.
Proof.
  intros [al ar] [bl br] S. unfold join. cbn [fst snd] in *.
  destruct (overlap (al, ar) (bl, br)); [|reflexivity]. cbn [fst].
  destruct (edge_compare al bl <? 0) eqn:E; [reflexivity|].
  apply ec_ltb_f in E. symmetry. apply ele_antisym; auto.
Qed.

Lemma union_loop_gap : forall rest ra, wfp ra -> Forall wfp rest -> lsorted (ra :: rest) ->
  chain_gap (union_loop ra rest) /\ exists h t, union_loop ra rest = h :: t /\ fst h = fst ra.
Proof.
  induction rest as [|rb tl IH]; intros ra Wa Wr S; simpl.
  - split; [constructor | exists ra, []; auto].
  - inversion Wr as [|? ? Wb Wtl]; subst.
    inversion S as [|? ? S1 F1]; subst. inversion S1 as [|? ? S2 F2]; subst.
    inversion F1 as [|? ? Eab F1']; subst.
    destruct (joinable ra rb) eqn:J.
    + destruct (join_den _ _ Wa Wb J) as [_ Wj].
      pose proof (join_fst ra rb Eab) as Fj.
      assert (Sj : lsorted (join ra rb :: tl)).
      { constructor; auto. rewrite Fj. exact F1'. }
      destruct (IH _ Wj Wtl Sj) as [C [h [t [Eh Fh]]]].
      split; auto. exists h, t. split; auto. congruence.
    + destruct (IH _ Wb Wtl S1) as [C [h [t [Eh Fh]]]].
      split; [|exists ra, (union_loop rb tl); auto].
      rewrite Eh in *. constructor; auto.
      destruct (gap_of_nonjoin _ _ Wa Wb Eab J) as [x [y [G1 [G2 G3]]]].
      exists x, y. rewrite Fh. auto.
Qed.

Theorem canonical_sorted_disjoint : forall els, Forall wfp els -> chain_gap (range_union els).
Proof.
  intros els W. unfold range_union.
  pose proof (Forall_sort _ range_compare _ W) as WS.
  pose proof (sort_lsorted els) as S.
  destruct (sort_by range_compare els) as [|a tl]; [constructor|].
  inversion WS; subst. apply union_loop_gap; auto.
Qed.
