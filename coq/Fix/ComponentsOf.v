(* ComponentsOf.v — the surface syntax of C11 modules with "COMPONENTS OF" and
   extensible ENUMERATED types, and its lowering to the core algebra of
   Fix/Tags.v.  No proofs here (extraction reads this file); the theorems are in
   Fix/ComponentsOfProofs.v.

   Two lowerings of the same shape, selected by a [policy]:
     expand_c     what asn1c does (libasn1fix/asn1fix_constr.c:asn1f_pull_components_of,
                  called LAST in asn1fix.c:asn1f_fix_constructed, i.e. after
                  asn1f_check_unique_expr, asn1f_fix_constr_ext and
                  asn1f_fix_constr_tag, and before the module-wide
                  asn1f_fix_constr_autotag / asn1f_check_constr_tags_distinct passes;
                  libasn1parser/asn1p_expr.c:asn1p_expr_clone with skip_extensions=1)
     expand_x680  the "COMPONENTS OF" transformation of X.680 (2008) 25.3-25.5,
                  25.8-25.10 / 27.2 (written from the standard, not from the C)
   Both feed the existing [check] (model) resp. [distinct_spec] (spec).

   What the two have in common (and X.680 asks for):
   - "COMPONENTS OF T" in a SEQUENCE (SET) is replaced, in place, by the root
     components of the SEQUENCE (SET) type T refers to; extension marker and
     extension additions of T are not included (25.5);
   - whether automatic tagging applies to the referencing component list is
     decided on the list as written, BEFORE the transformation: tags that arrive
     through COMPONENTS OF do not count (25.3 and its NOTE); the automatic tags
     are assigned AFTER the transformation, to inherited components as well
     (25.8).  Here: when the decision is "automatic", the inherited components
     lose the tags they had in T, so that the existing [auto_ok]/[sp_auto] (which
     look at the list they are given) decide "automatic" on the expanded list and
     number it in order; an automatically assigned tag hides whatever tag the
     component had, so the outermost tags are the ones X.680 defines;
   - the inherited components are the ones written in T (T's own COMPONENTS OF
     expanded first), without the automatic tags T itself may get: both
     transformations are done on the notation, tagging comes afterwards.
   Only references to types defined EARLIER in the module are in the fragment
   (asn1c clones whatever state the referenced type is in when the referencing
   one is processed; for a later or the same definition that state is the
   unprocessed one; this is not modelled: [None] = outside the fragment).

   Where asn1c differs from X.680 (policy bits, each a recorded finding):
   - p_rename: asn1f_check_unique_expr runs before the expansion and is never
     run again on the expanded list, so an inherited identifier is compared with
     nothing.  The model expresses "is never compared" by giving an inherited
     component whose identifier also occurs elsewhere in the expanded list a
     fresh identifier (larger than every identifier in that list, distinct per
     position); identifiers play no other role in [check];
   - p_strip: the clone is made with skip_extensions=1, which asn1p_expr_clone
     applies to nested members too: constructed types nested in an inherited
     component lose their own extension marker and extension additions.
     (A cloned ENUMERATED loses its additions in the same way; no pass looks at
     a cloned enumeration again, and the core TEnum has no marker, so the model
     keeps the items.) *)
From Coq Require Import ZArith List Bool Arith.
From A1 Require Import Fix.Tags Fix.Distinct.
Import ListNotations.
Local Open Scope Z_scope.

(* ---------------------------------------------------------------- surface syntax *)
(* a component is [(Some info, type)], or [(None, XRef r)] = COMPONENTS OF T_r
   (as in the C: an A1TC_COMPONENTS_OF member without identifier whose only
   child is the reference) *)
Inductive xty :=
| XPrim (p : prim)
| XEnum (root : list (nat * option Z)) (ext : option (list (nat * option Z)))
| XCons (k : kind) (r1 : list (option cinfo * xty)) (ext : option (list (option cinfo * xty)))
        (r2 : list (option cinfo * xty))
| XSeqOf (e : xty)
| XRef (n : nat).

Record xdef := { xd_name : nat; xd_tag : option mtag; xd_ty : xty }.
Record xmodule := { xm_tagging : tagging; xm_defs : list xdef }.

Record policy := { p_rename : bool; p_strip : bool }.
Definition pol_c : policy := {| p_rename := true; p_strip := true |}.
Definition pol_x680 : policy := {| p_rename := false; p_strip := false |}.

Definition kind_eqb (a b : kind) : bool :=
  match a, b with KSeq, KSeq | KSet, KSet | KChoice, KChoice => true | _, _ => false end.

Definition xhas_tag (c : option cinfo * xty) : bool :=
  match fst c with
  | Some i => match c_tag i with Some _ => true | None => false end
  | None => false
  end.
Definition xadds (ext : option (list (option cinfo * xty))) : list (option cinfo * xty) :=
  match ext with Some a => a | None => [] end.

Definition valued_all (items : list (nat * option Z)) : bool :=
  forallb (fun it => match snd it with Some _ => true | None => false end) items.

(* ---------------------------------------------------------------- the clone *)
(* asn1p_expr_clone(terminal, 1): members between the first and the second
   "..." are skipped, the markers too, at every depth *)
Fixpoint strip_ext (t : ty) : ty :=
  match t with
  | TCons k r1 ext r2 =>
      let go := fix go (l : list (cinfo * ty)) : list (cinfo * ty) :=
        match l with
        | [] => []
        | (c, t') :: l' => (c, strip_ext t') :: go l'
        end in
      TCons k (go r1) None (go r2)
  | TSeqOf e => TSeqOf (strip_ext e)
  | _ => t
  end.

(* asn1f_find_terminal_type on the reference that follows COMPONENTS OF, among
   the definitions processed so far *)
Fixpoint cof_terminal (done : list def) (fuel : nat) (r : nat) : option ty :=
  match find (fun d => Nat.eqb (d_name d) r) done with
  | None => None
  | Some d =>
      match d_ty d with
      | TRef r' => match fuel with O => None | S f => cof_terminal done f r' end
      | t => Some t
      end
  end.

Definition untag (c : cinfo) : cinfo := {| c_name := c_name c; c_tag := None; c_flag := c_flag c |}.
Definition count_nat (n : nat) (l : list nat) : nat := length (filter (Nat.eqb n) l).

(* a component of an expanded list with its origin: true = inherited *)
Definition fcomp := (bool * (cinfo * ty))%type.
Definition fname (f : fcomp) : nat := c_name (fst (snd f)).

Fixpoint rename_from (names : list nat) (b : nat) (i : nat) (l : list fcomp) : list (cinfo * ty) :=
  match l with
  | [] => []
  | (inh, (c, t)) :: l' =>
      (if inh && Nat.ltb 1 (count_nat (c_name c) names)
       then ({| c_name := b + i; c_tag := c_tag c; c_flag := c_flag c |}, t)
       else (c, t))
      :: rename_from names b (S i) l'
  end.

Section Expand.
Variable pol : policy.
Variable tg : tagging.
(* [final = true]: the type as the later passes (and [check], [distinct_spec])
   see it.  [final = false]: the type as a later COMPONENTS OF clones it —
   spliced only: the automatic tags are assigned by a pass that runs after every
   definition has been expanded, so a clone still carries the tags as written
   (X.680: the transformation works on the notation), and the clone carries the
   real identifiers (asn1c runs asn1f_check_unique_expr again on constructed
   types nested in cloned components, this time on their expanded lists). *)
Variable final : bool.
Variable done : list def.     (* the definitions before the current one, spliced *)

(* the root components COMPONENTS OF T_r contributes to a type of kind k;
   None: T_r is not (a reference chain to) an earlier SEQUENCE resp. SET *)
Definition inherited (k : kind) (r : nat) : option (list (cinfo * ty)) :=
  match k with
  | KChoice => None
  | _ =>
      match cof_terminal done (S (length done)) r with
      | Some (TCons k' r1 _ r2) =>
          if kind_eqb k k'
          then Some (map (fun ct => (fst ct, if p_strip pol then strip_ext (snd ct) else snd ct)) (r1 ++ r2))
          else None
      | _ => None
      end
  end.

(* asn1f_fix_constr_tag's decision (X.680 25.2/25.3), on the list as written *)
Definition xauto (r1 adds r2 : list (option cinfo * xty)) : bool :=
  match tg with
  | TgAutomatic => negb (existsb xhas_tag (r1 ++ r2)) && negb (existsb xhas_tag adds)
  | _ => false
  end.

Definition untag_inh (f : fcomp) : fcomp :=
  match f with (inh, (c, t)) => (inh, (if inh then untag c else c, t)) end.

Definition finish (k : kind) (auto : bool) (e1 : list fcomp) (ee : option (list fcomp)) (e2 : list fcomp) : ty :=
  let un := fun l : list fcomp => if final && auto then map untag_inh l else l in
  let f1 := un e1 in
  let fa := match ee with Some a => un a | None => [] end in
  let f2 := un e2 in
  let names := map fname (f1 ++ fa ++ f2) in
  let b := S (list_max names) in
  let rn := fun (i : nat) (l : list fcomp) => if final && p_rename pol then rename_from names b i l else map snd l in
  TCons k (rn 0%nat f1)
        (match ee with Some _ => Some (rn (length f1) fa) | None => None end)
        (rn (length f1 + length fa)%nat f2).

Fixpoint expand_ty (t : xty) : option ty :=
  match t with
  | XPrim p => Some (TPrim p)
  | XEnum root None => Some (TEnum root)
  | XEnum root (Some adds) =>
      (* with a marker only fully valued enumerations are in the fragment *)
      if valued_all (root ++ adds) then Some (TEnum (root ++ adds)) else None
  | XSeqOf e => match expand_ty e with Some e' => Some (TSeqOf e') | None => None end
  | XRef r => Some (TRef r)
  | XCons k r1 ext r2 =>
      let go := fix go (l : list (option cinfo * xty)) : option (list fcomp) :=
        match l with
        | [] => Some []
        | (oc, t') :: l' =>
            match go l' with
            | None => None
            | Some rest =>
                match oc with
                | Some c =>
                    match expand_ty t' with
                    | Some t'' => Some ((false, (c, t'')) :: rest)
                    | None => None
                    end
                | None =>
                    match t' with
                    | XRef r =>
                        match inherited k r with
                        | Some inh => Some (map (fun ct => (true, ct)) inh ++ rest)
                        | None => None
                        end
                    | _ => None
                    end
                end
            end
        end in
      match go r1, go r2,
            match ext with
            | None => Some None
            | Some a => match go a with Some a' => Some (Some a') | None => None end
            end with
      | Some e1, Some e2, Some ee => Some (finish k (xauto r1 (xadds ext) r2) e1 ee e2)
      | _, _, _ => None
      end
  end.
End Expand.

Definition mk_def (d : xdef) (t : ty) : def := {| d_name := xd_name d; d_tag := xd_tag d; d_ty := t |}.

(* [done]: the earlier definitions as a clone sees them; [out]: as the module has them *)
Fixpoint expand_defs (pol : policy) (tg : tagging) (done out : list def) (todo : list xdef) : option (list def) :=
  match todo with
  | [] => Some out
  | d :: todo' =>
      match expand_ty pol tg true done (xd_ty d), expand_ty pol tg false done (xd_ty d) with
      | Some t, Some tc => expand_defs pol tg (done ++ [mk_def d tc]) (out ++ [mk_def d t]) todo'
      | _, _ => None
      end
  end.

Definition expand (pol : policy) (xm : xmodule) : option module :=
  match expand_defs pol (xm_tagging xm) [] [] (xm_defs xm) with
  | Some ds => Some {| m_tagging := xm_tagging xm; m_defs := ds |}
  | None => None
  end.
Definition expand_c : xmodule -> option module := expand pol_c.
Definition expand_x680 : xmodule -> option module := expand pol_x680.

(* ---------------------------------------------------------------- the types as written *)
Fixpoint xsubtypes (t : xty) : list xty :=
  t :: match t with
       | XCons _ r1 ext r2 =>
           let go := fix go (l : list (option cinfo * xty)) : list xty :=
             match l with
             | [] => []
             | (Some _, t') :: l' => xsubtypes t' ++ go l'
             | (None, _) :: l' => go l'
             end in
           go r1 ++ go r2 ++ match ext with Some a => go a | None => [] end
       | XSeqOf e => xsubtypes e
       | _ => []
       end.
Definition all_xtypes (xm : xmodule) : list xty := flat_map (fun d => xsubtypes (xd_ty d)) (xm_defs xm).

(* asn1f_fix_constr_tag, X.690 28.4 complaint, on the list as written (it runs
   before the expansion): root untagged, additions tagged *)
Definition xexttag_bad (tg : tagging) (t : xty) : bool :=
  match t, tg with
  | XCons _ r1 (Some a) r2, TgAutomatic => negb (existsb xhas_tag (r1 ++ r2)) && existsb xhas_tag a
  | _, _ => false
  end.

Definition written_values (items : list (nat * option Z)) : list Z :=
  flat_map (fun it => match snd it with Some v => [v] | None => [] end) items.

(* asn1f_fix_enum 1.3: after the marker a value must exceed max_value_ext, which
   starts at -1 and is raised by every value that passes; true = some FATAL *)
Fixpoint c_order_err (mx : Z) (l : list Z) : bool :=
  match l with
  | [] => false
  | v :: l' => negb (mx <? v) || c_order_err (if mx <? v then v else mx) l'
  end.
Definition xenum_order_bad_c (t : xty) : bool :=
  match t with
  | XEnum _ (Some adds) => c_order_err (-1) (written_values adds)
  | _ => false
  end.

(* X.680 20.4: the value of each additional enumeration exceeds the values of
   all additional enumerations before it (nothing is asked of the first) *)
Fixpoint ordered_from (mx : Z) (l : list Z) : bool :=
  match l with
  | [] => true
  | v :: l' => (mx <? v) && ordered_from v l'
  end.
Definition x680_order_ok (l : list Z) : bool :=
  match l with [] => true | v :: l' => ordered_from v l' end.
Definition xenum_order_ok (t : xty) : bool :=
  match t with
  | XEnum _ (Some adds) => x680_order_ok (written_values adds)
  | _ => true
  end.
(* the first additional enumeration is not negative *)
Definition xenum_adds_nonneg (t : xty) : bool :=
  match t with
  | XEnum _ (Some adds) => match written_values adds with v :: _ => 0 <=? v | [] => true end
  | _ => true
  end.

(* ---------------------------------------------------------------- verdict of an asn1c run *)
Inductive xreason := XCore (r : reason) | XEnumOrder.
Inductive xverdict := XOutside | XAccept | XReject (rs : list xreason) | XCrashes.

Definition pre_reasons (xm : xmodule) : list xreason :=
  (if existsb (xexttag_bad (xm_tagging xm)) (all_xtypes xm) then [XCore RExtTag] else []) ++
  (if existsb xenum_order_bad_c (all_xtypes xm) then [XEnumOrder] else []).

Definition xcheck (xm : xmodule) : xverdict :=
  match expand_c xm with
  | None => XOutside
  | Some m =>
      match fix_module m with
      | NCrash => XCrashes
      | NOk rs =>
          match pre_reasons xm ++ map XCore rs with
          | [] => if compile_ends m then XAccept else XCrashes
          | l => XReject l
          end
      end
  end.

(* ---------------------------------------------------------------- spec side, on the notation *)
(* requirements outside the property's list that are stated on the notation as
   written: the 28.4 situation, the order of additional enumerations *)
Definition xwf_written (xm : xmodule) : bool :=
  negb (existsb (xexttag_bad (xm_tagging xm)) (all_xtypes xm)) && forallb xenum_order_ok (all_xtypes xm).

(* ---------------------------------------------------------------- classifiers for the tie *)
(* X.680 view of the reference after COMPONENTS OF, over the whole module *)
Fixpoint xterminal (defs : list xdef) (fuel : nat) (r : nat) : option xty :=
  match find (fun d => Nat.eqb (xd_name d) r) defs with
  | None => None
  | Some d =>
      match xd_ty d with
      | XRef r' => match fuel with O => None | S f => xterminal defs f r' end
      | t => Some t
      end
  end.
Inductive cofstat := CofOk | CofDangling | CofKind.
Definition cof_stat_comp (defs : list xdef) (k : kind) (c : option cinfo * xty) : list cofstat :=
  match c with
  | (None, XRef r) =>
      match xterminal defs (S (length defs)) r with
      | None => [CofDangling]
      | Some (XCons k' _ _ _) => if kind_eqb k k' && negb (kind_eqb k KChoice) then [CofOk] else [CofKind]
      | Some _ => [CofKind]
      end
  | (None, _) => [CofKind]
  | _ => []
  end.
Definition cof_stats (xm : xmodule) : list cofstat :=
  flat_map (fun t => match t with
                     | XCons k r1 ext r2 => flat_map (cof_stat_comp (xm_defs xm) k) (r1 ++ xadds ext ++ r2)
                     | _ => []
                     end) (all_xtypes xm).
(* an extensible enumeration whose additions are in X.680's order and which
   asn1c's order check nevertheless refuses *)
Definition enum_ext_neg (xm : xmodule) : bool :=
  existsb (fun t => xenum_order_ok t && xenum_order_bad_c t) (all_xtypes xm).
