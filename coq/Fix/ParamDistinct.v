(* ParamDistinct.v — C11 and parameterized types (wave 4, seeded C11-7).

   asn1c checks tag distinctness, identifier and enumeration uniqueness of a parameterized type  P {X} ::= ...
   on the CLONES it makes per specialization (phase_1_1 with prm2: every expr->specializations.pspec[i].my_clone
   goes through the same passes as an ordinary definition; asn1f_check_constr_tags_distinct walks them too).
   Which clone a reference  P {actuals}  is resolved to is decided by asn1f_parameterization_fork: it compares
   the actual parameter list with the stored copy of every earlier one (compare_specializations =
   asn1p_expr_compare) and reuses the first that compares equal.  So the property "an ambiguous module is
   rejected" holds for parameterized types only if the comparison never identifies two actual parameter lists
   that differ: a reference resolved to somebody else's clone is never checked on its own instantiation.

   Fix/ParamSpec.v (C10) models the comparison ([ecmp]) and the lookup loop ([find_spec], [fork]).  This file
   adds, for C11:
     [plain]           the fragment the C11 tie generates: no subtype constraint, no nested actual parameter
                       list anywhere in the actual parameters (those two fields ARE ignored by the comparison:
                       finding C10-param-actuals-compared-shallowly; they do not influence tags);
     [assign_tbl_with] the loop over all references to one template, returning the final table of stored
                       actual parameter lists (= one per clone) besides the indices;
     [resolved_with]   the actual parameter list each reference is checked with (the one of the clone it got);
     [ecmp_prefix]     asn1p_expr_compare with the member lists compared over their common prefix only
                       (seeded change C11-7) — used in refuted statements only.
   No proofs in this file. *)
From Coq Require Import List Bool ZArith Ascii.
From A1 Require Import Fix.Printer Fix.ParamSpec.
Import ListNotations.
Local Open Scope list_scope.

Definition is_none {A : Type} (o : option A) : bool := match o with None => true | Some _ => false end.
Definition is_nil {A : Type} (l : list A) : bool := match l with [] => true | _ => false end.

Fixpoint plain (e : pexpr) : bool :=
  match e with
  | PE _ _ _ _ _ _ _ _ _ c ps ms => is_none c && is_nil ps && forallb plain ms
  end.

(* what the tie generates: plain, and no value set in a compared position *)
Definition good (e : pexpr) : bool := plain e && novs e.

Section With.
  Variable cmp : pexpr -> pexpr -> cres.

  Fixpoint find_with (tbl : list pexpr) (a : pexpr) (k : nat) : lres :=
    match tbl with
    | [] => LNew
    | s :: t => match cmp a s with
                | CEq => LFound k
                | CNe => find_with t a (S k)
                | CAbort => LAbort
                end
    end.

  Definition fork_with (tbl : list pexpr) (a : pexpr) : option (list pexpr * nat) :=
    match find_with tbl a 0 with
    | LFound k => Some (tbl, k)
    | LNew => Some (tbl ++ [eclone a], length tbl)
    | LAbort => None
    end.

  (* all references to one template in the order the fixer meets them:
     final table (one stored actual parameter list per clone) and the index each reference got *)
  Fixpoint assign_tbl_with (tbl : list pexpr) (refs : list pexpr) : option (list pexpr * list nat) :=
    match refs with
    | [] => Some (tbl, [])
    | a :: r => match fork_with tbl a with
                | None => None
                | Some (tbl', k) => match assign_tbl_with tbl' r with
                                    | None => None
                                    | Some (tf, ks) => Some (tf, k :: ks)
                                    end
                end
    end.

  (* the actual parameter list every reference is CHECKED with: that of the clone it was resolved to *)
  Definition resolved_with (refs : list pexpr) : option (list (option pexpr)) :=
    match assign_tbl_with [] refs with
    | None => None
    | Some (tf, ks) => Some (map (fun k => nth_error tf k) ks)
    end.

  (* number of clones  <Template>_<line>P<k>  in the output *)
  Definition nclones_with (refs : list pexpr) : option nat :=
    match assign_tbl_with [] refs with None => None | Some (tf, _) => Some (length tf) end.
End With.

Definition assign_tbl := assign_tbl_with ecmp.
Definition resolved := resolved_with ecmp.
Definition nclones := nclones_with ecmp.

(* the fixer's verdict on the references to one template, for ANY per-instantiation check [faulty]
   (tag distinctness, identifiers, enumerations of the template body with these actual parameters substituted):
   the passes see the clones, i.e. the stored actual parameter lists *)
Definition rejects_with (cmp : pexpr -> pexpr -> cres) (faulty : pexpr -> bool) (refs : list pexpr) : option bool :=
  match assign_tbl_with cmp [] refs with None => None | Some (tf, _) => Some (existsb faulty tf) end.

(* the specification (X.683 8: every reference denotes the template with ITS actual parameters substituted) *)
Definition must_reject (faulty : pexpr -> bool) (refs : list pexpr) : bool := existsb faulty refs.

(* ---- seeded C11-7: member lists compared in lockstep, the "one list is longer" test forgotten ---- *)
Fixpoint ecmp_prefix (a b : pexpr) : cres :=
  match a, b with
  | PE m1 t1 i1 r1 v1 g1 f1 d1 u1 _ _ ms1, PE m2 t2 i2 r2 v2 g2 f2 d2 u2 _ _ ms2 =>
      andc (of_bool (Z.eqb m1 m2 && Z.eqb t1 t2))
     (andc (opt_cmp (fun x y => of_bool (str_eqb x y)) i1 i2)
     (andc (opt_cmp (fun x y => of_bool (ref_eqb x y)) r1 r2)
     (andc (opt_cmp vcmp v1 v2)
     (andc (of_bool (tag_eqb g1 g2))
     (andc (of_bool (Z.eqb f1 f2))
     (andc (opt_cmp vcmp d1 d2)
     (andc (of_bool (Bool.eqb u1 u2))
       ((fix go (l1 l2 : list pexpr) : cres :=
           match l1, l2 with
           | x :: l1', y :: l2' => andc (ecmp_prefix x y) (go l1' l2')
           | _, _ => CEq
           end) ms1 ms2))))))))
  end.

(* ---- the witness of the seeded change, in the encoding of the tie (lib/c11_param.py) ---- *)
Definition mk (meta etype : Z) (ident : option str) (ms : list pexpr) : pexpr :=
  PE meta etype ident None None (0, 0, 0)%Z 0 None false None [] ms.
(* CHOICE { a INTEGER }  and  CHOICE { a INTEGER, b BOOLEAN } *)
Definition w_short : pexpr := wrap [mk 1 20 None [mk 1 12 (Some (SCons "a"%char SNil)) []]].
Definition w_long : pexpr := wrap [mk 1 20 None [mk 1 12 (Some (SCons "a"%char SNil)) []; mk 1 10 (Some (SCons "b"%char SNil)) []]].
(* "the instantiation has two alternatives in its first actual parameter" stands for: T {X} ::= CHOICE { p X, q BOOLEAN }
   instantiated with it has two BOOLEAN alternatives *)
Definition w_faulty (e : pexpr) : bool :=
  match pe_members e with
  | a :: _ => match pe_members a with _ :: _ :: _ => true | _ => false end
  | [] => false
  end.
