(* ParamDistinctProofs.v — parameterized types and the distinctness checks (coq/Fix/ParamDistinct.v).
   Main results, for references whose actual parameters are in the generated fragment ([good]: no subtype
   constraint, no nested actual parameter list, no value set):
     ecmp_identifies_only_equal   asn1p_expr_compare answers "equal" only for EQUAL trees;
     assign_tbl_spec              the final specialization table is a duplicate-free enumeration of the actual
                                  parameter lists that occur, and every reference is resolved to the entry that IS
                                  its own actual parameter list;
     resolved_own                 ... so every reference is checked on its own instantiation;
     clones_are_the_distinct_actuals   number of clones = number of different actual parameter lists;
     rejects_iff_some_reference_faulty  for any per-instantiation check: the fixer rejects iff the instantiation of
                                  SOME reference is faulty;
     prefix_*_refuted             each of these is false of the common-prefix comparison (seeded C11-7). *)
From Coq Require Import List Bool ZArith Lia Ascii.
From A1 Require Import Fix.Printer Fix.ParamSpec Fix.ParamSpecProofs Fix.ParamDistinct.
Import ListNotations.
Local Open Scope list_scope.

Lemma is_none_true : forall (A : Type) (o : option A), is_none o = true -> o = None.
Proof. intros A [x|] H; [discriminate|reflexivity]. Qed.
Lemma is_nil_true : forall (A : Type) (l : list A), is_nil l = true -> l = [].
Proof. intros A [|x l] H; [reflexivity|discriminate]. Qed.

Lemma plain_unfold : forall m t i r v g f d u c ps ms,
  plain (PE m t i r v g f d u c ps ms) = is_none c && is_nil ps && forallb plain ms.
Proof. reflexivity. Qed.

Lemma plain_inv : forall m t i r v g f d u c ps ms, plain (PE m t i r v g f d u c ps ms) = true ->
  c = None /\ ps = [] /\ forallb plain ms = true.
Proof.
  intros m t i r v g f d u c ps ms H. rewrite plain_unfold in H.
  apply andb_true_iff in H. destruct H as [H H3]. apply andb_true_iff in H. destruct H as [H1 H2].
  apply is_none_true in H1. apply is_nil_true in H2. auto.
Qed.

Lemma map_id_on : forall (f : pexpr -> pexpr) ms, Forall (fun e => plain e = true -> f e = e) ms -> forallb plain ms = true -> map f ms = ms.
Proof.
  intros f ms H. induction H as [|x l Hx Hl IH]; simpl; intro P. reflexivity.
  apply andb_true_iff in P. destruct P as [P1 P2]. rewrite (Hx P1), (IH P2). reflexivity.
Qed.

(* on the fragment nothing is erased by [key] ... *)
Lemma key_plain : forall e, plain e = true -> key e = e.
Proof.
  induction e as [m t i r v g f d u c ps ms IH] using pexpr_ind'. intro P.
  apply plain_inv in P. destruct P as [Pc [Pp Pm]]. subst. rewrite key_unfold. rewrite (map_id_on key ms IH Pm). reflexivity.
Qed.

(* ... and the stored copy is the list itself *)
Lemma eclone_plain : forall e, plain e = true -> eclone e = e.
Proof.
  induction e as [m t i r v g f d u c ps ms IH] using pexpr_ind'. intro P.
  apply plain_inv in P. destruct P as [Pc [Pp Pm]]. subst. simpl.
  replace (option_map vclone v) with v by (destruct v; simpl; [rewrite vclone_id|]; reflexivity).
  replace (option_map vclone d) with d by (destruct d; simpl; [rewrite vclone_id|]; reflexivity).
  rewrite (map_id_on eclone ms IH Pm). reflexivity.
Qed.

Lemma good_inv : forall e, good e = true -> plain e = true /\ novs e = true.
Proof. intros e H. unfold good in H. apply andb_true_iff in H. assumption. Qed.

(* THE statement for C11: two actual parameter lists that differ as trees are never identified *)
Theorem ecmp_identifies_only_equal : forall a b, plain a = true -> plain b = true -> ecmp a b = CEq -> a = b.
Proof.
  intros a b Pa Pb H. apply ecmp_eq_iff in H. destruct H as [H _].
  rewrite (key_plain a Pa), (key_plain b Pb) in H. assumption.
Qed.

Lemma ecmp_refl_good : forall a, good a = true -> ecmp a a = CEq.
Proof.
  intros a G. apply good_inv in G. destruct G as [P N]. apply ecmp_eq_iff. split. reflexivity.
  rewrite (key_plain a P). assumption.
Qed.

Lemma ecmp_good_no_abort : forall a b, good a = true -> ecmp a b <> CAbort.
Proof.
  intros a b G H. apply good_inv in G. destruct G as [P N]. apply ecmp_abort in H. rewrite (key_plain a P) in H. congruence.
Qed.

(* ---- the lookup loop on the fragment ---- *)
Lemma find_with_ecmp : forall tbl a k, find_with ecmp tbl a k = find_spec tbl a k.
Proof.
  induction tbl as [|s t IH]; intros a k; simpl. reflexivity.
  unfold compare_specializations. destruct (ecmp a s); try reflexivity; apply IH.
Qed.

Lemma fork_with_ecmp : forall tbl a, fork_with ecmp tbl a = fork tbl a.
Proof. intros tbl a. unfold fork_with, fork. rewrite find_with_ecmp. reflexivity. Qed.

(* the indices are those of Fix/ParamSpec.v (what C10's tie reads off the type names) *)
Theorem assign_tbl_indices : forall refs tbl, option_map snd (assign_tbl tbl refs) = assign tbl refs.
Proof.
  unfold assign_tbl. induction refs as [|a r IH]; intro tbl; simpl. reflexivity.
  rewrite fork_with_ecmp. destruct (fork tbl a) as [[tbl' k]|]; [|reflexivity].
  rewrite <- IH. destruct (assign_tbl_with ecmp tbl' r) as [[tf ks]|]; reflexivity.
Qed.

Lemma find_good : forall tbl a k0, good a = true -> Forall (fun e => good e = true) tbl ->
  match find_with ecmp tbl a k0 with
  | LFound k => (k0 <= k)%nat /\ nth_error tbl (k - k0) = Some a
  | LNew => ~ In a tbl
  | LAbort => False
  end.
Proof.
  induction tbl as [|s t IH]; intros a k0 Ga Gt; simpl.
  - intros [].
  - inversion Gt as [|? ? Gs Gt']. subst.
    destruct (ecmp a s) eqn:E.
    + apply good_inv in Ga. apply good_inv in Gs.
      apply ecmp_identifies_only_equal in E; try tauto. subst s.
      split. lia. rewrite Nat.sub_diag. reflexivity.
    + specialize (IH a (S k0) Ga Gt'). destruct (find_with ecmp t a (S k0)) as [k| |].
      * destruct IH as [L N]. split. lia. replace (k - k0)%nat with (S (k - S k0)) by lia. simpl. assumption.
      * intros [H|H]. subst s. rewrite (ecmp_refl_good a Ga) in E. discriminate. contradiction.
      * assumption.
    + exact (ecmp_good_no_abort a s Ga E).
Qed.

Lemma nth_error_app_l : forall (A : Type) (l ext : list A) k x, nth_error l k = Some x -> nth_error (l ++ ext) k = Some x.
Proof. intros A l ext k x H. rewrite nth_error_app1. assumption. apply nth_error_Some. congruence. Qed.

Lemma nodup_snoc : forall (A : Type) (l : list A) x, NoDup l -> ~ In x l -> NoDup (l ++ [x]).
Proof.
  intros A l x N H. induction N as [|y l Hy N IH]; simpl.
  - constructor. intros []. constructor.
  - constructor.
    + intro I. apply in_app_or in I. destruct I as [I|[I|[]]]. contradiction. subst. apply H. left. reflexivity.
    + apply IH. intro I. apply H. right. assumption.
Qed.

Definition goods (l : list pexpr) : Prop := Forall (fun e => good e = true) l.

Theorem assign_tbl_spec : forall refs tbl, goods tbl -> NoDup tbl -> goods refs ->
  exists tf ks, assign_tbl tbl refs = Some (tf, ks) /\ (exists ext, tf = tbl ++ ext) /\ NoDup tf /\ goods tf /\
    (forall x, In x tf <-> In x tbl \/ In x refs) /\
    Forall2 (fun a k => nth_error tf k = Some a) refs ks.
Proof.
  unfold assign_tbl. induction refs as [|a r IH]; intros tbl Gt Nt Gr; simpl.
  - exists tbl, []. split; [reflexivity|]. split. exists []. rewrite app_nil_r. reflexivity.
    split; [assumption|]. split; [assumption|]. split. intro x. tauto. constructor.
  - inversion Gr as [|? ? Ga Gr']. subst.
    pose proof (find_good tbl a 0 Ga Gt) as F. unfold fork_with.
    destruct (find_with ecmp tbl a 0) as [k| |].
    + destruct F as [_ F]. rewrite Nat.sub_0_r in F.
      destruct (IH tbl Gt Nt Gr') as [tf [ks [E [[ext X] [Nf [Gf [M A]]]]]]]. rewrite E.
      exists tf, (k :: ks). split; [reflexivity|]. split. exists ext. assumption. split; [assumption|]. split; [assumption|].
      split.
      * intro x. rewrite M. simpl. split. tauto. intros [H|[H|H]]; auto. subst x. left. eapply nth_error_In. eassumption.
      * constructor. subst tf. apply nth_error_app_l. assumption. assumption.
    + assert (Pa : plain a = true) by (apply good_inv in Ga; tauto).
      rewrite (eclone_plain a Pa).
      assert (Gt' : goods (tbl ++ [a])). { apply Forall_app. split. assumption. constructor. assumption. constructor. }
      assert (Nt' : NoDup (tbl ++ [a])) by (apply nodup_snoc; assumption).
      destruct (IH (tbl ++ [a]) Gt' Nt' Gr') as [tf [ks [E [[ext X] [Nf [Gf [M A]]]]]]]. rewrite E.
      exists tf, (length tbl :: ks). split; [reflexivity|]. split. exists ([a] ++ ext). rewrite app_assoc. assumption.
      split; [assumption|]. split; [assumption|]. split.
      * intro x. rewrite M. rewrite in_app_iff. simpl. tauto.
      * constructor. subst tf. apply nth_error_app_l. rewrite nth_error_app2 by lia. rewrite Nat.sub_diag. reflexivity. assumption.
    + contradiction.
Qed.

Lemma forall2_resolved : forall (tf : list pexpr) refs ks, Forall2 (fun a k => nth_error tf k = Some a) refs ks ->
  map (fun k => nth_error tf k) ks = map Some refs.
Proof. intros tf refs ks H. induction H as [|a k r ks' H1 H2 IH]; simpl. reflexivity. rewrite H1, IH. reflexivity. Qed.

(* every reference is checked with its OWN actual parameters *)
Theorem resolved_own : forall refs, goods refs -> resolved refs = Some (map Some refs).
Proof.
  intros refs G. destruct (assign_tbl_spec refs [] (Forall_nil _) (NoDup_nil _) G) as [tf [ks [E [_ [_ [_ [_ A]]]]]]].
  unfold resolved, resolved_with. unfold assign_tbl in E. rewrite E. rewrite (forall2_resolved tf refs ks A). reflexivity.
Qed.

(* the clones are exactly the different actual parameter lists, each once *)
Theorem clones_are_the_distinct_actuals : forall refs, goods refs ->
  exists tf ks, assign_tbl [] refs = Some (tf, ks) /\ NoDup tf /\ (forall x, In x tf <-> In x refs) /\ nclones refs = Some (length tf).
Proof.
  intros refs G. destruct (assign_tbl_spec refs [] (Forall_nil _) (NoDup_nil _) G) as [tf [ks [E [_ [N [_ [M _]]]]]]].
  exists tf, ks. split; [assumption|]. split; [assumption|]. split.
  - intro x. rewrite M. simpl. tauto.
  - unfold nclones, nclones_with. unfold assign_tbl in E. rewrite E. reflexivity.
Qed.

Lemma existsb_same_members : forall (f : pexpr -> bool) l1 l2, (forall x, In x l1 <-> In x l2) -> existsb f l1 = existsb f l2.
Proof.
  intros f l1 l2 H. destruct (existsb f l1) eqn:E1; destruct (existsb f l2) eqn:E2; try reflexivity.
  - apply existsb_exists in E1. destruct E1 as [x [I F]]. apply H in I.
    assert (X : existsb f l2 = true) by (apply existsb_exists; exists x; auto). congruence.
  - apply existsb_exists in E2. destruct E2 as [x [I F]]. apply H in I.
    assert (X : existsb f l1 = true) by (apply existsb_exists; exists x; auto). congruence.
Qed.

(* whatever the per-instantiation check is: rejected iff the instantiation of some reference is faulty *)
Theorem rejects_iff_some_reference_faulty : forall faulty refs, goods refs ->
  rejects_with ecmp faulty refs = Some (must_reject faulty refs).
Proof.
  intros faulty refs G. destruct (clones_are_the_distinct_actuals refs G) as [tf [ks [E [_ [M _]]]]].
  unfold rejects_with, must_reject. unfold assign_tbl in E. rewrite E. rewrite (existsb_same_members faulty tf refs M). reflexivity.
Qed.

(* ---- the common-prefix comparison (seeded C11-7) ---- *)
Example witness_good : good w_short = true /\ good w_long = true.
Proof. vm_compute. auto. Qed.

Theorem prefix_identifies_different_refuted :
  exists a b, plain a = true /\ plain b = true /\ ecmp_prefix a b = CEq /\ a <> b.
Proof. exists w_long, w_short. repeat split; try (vm_compute; reflexivity). discriminate. Qed.

Theorem prefix_resolved_refuted :
  exists refs, goods refs /\ resolved_with ecmp_prefix refs <> Some (map Some refs).
Proof.
  exists [w_short; w_long]. split.
  - repeat constructor.
  - vm_compute. discriminate.
Qed.

Theorem prefix_rejects_refuted :
  exists faulty refs, goods refs /\ must_reject faulty refs = true /\ rejects_with ecmp_prefix faulty refs = Some false.
Proof.
  exists w_faulty, [w_short; w_long]. split; [repeat constructor|]. split; vm_compute; reflexivity.
Qed.

Theorem prefix_clone_count_refuted :
  exists refs, goods refs /\ nclones refs = Some 2%nat /\ nclones_with ecmp_prefix refs = Some 1%nat.
Proof. exists [w_short; w_long]. split; [repeat constructor|]. split; vm_compute; reflexivity. Qed.

(* the longer list first: the faulty clone is the one that is kept, the module is still rejected - the order
   dimension of the tie *)
Example prefix_other_order_still_rejects :
  rejects_with ecmp_prefix w_faulty [w_long; w_short] = Some true /\ nclones_with ecmp_prefix [w_long; w_short] = Some 1%nat.
Proof. split; vm_compute; reflexivity. Qed.

Example real_compare_on_witness :
  rejects_with ecmp w_faulty [w_short; w_long] = Some true /\ resolved [w_short; w_long] = Some [Some w_short; Some w_long].
Proof. split; vm_compute; reflexivity. Qed.
