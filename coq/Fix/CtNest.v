(* Fix/CtNest.v — extension of the C09 constraint algebra with NESTED extension
   markers.  asn1c's grammar (libasn1parser/asn1p_y.y) allows a marker only in
   `ElementSetSpecs`, i.e. directly inside a Constraint "( ... )"; a parenthesised
   operand is `'(' ElementSetSpec ')'` (no marker), so an INTEGER value constraint
   cannot carry a nested marker ("(1..5 | (7..9,...))" is a syntax error).  A
   SizeConstraint operand is `SIZE Constraint` and therefore has a marker of its
   own:  (SIZE(7..9) | SIZE(1..5,...)),  ((SIZE(1..5,...)) ^ SIZE(2..9)),
   (SIZE(1..9,...) EXCEPT SIZE(3)), each again with or without a top-level
   marker / additions, serially applied and along reference chains.

   This file has
     (model)  the surface syntax over SIZE atoms (ness / nspec), the tree the
              yacc actions build for it (the parse_n functions: CONSTRAINT_INSERT
              flattening as in the parse functions of Crange),
              asn1constraint_pullup over it (npullup; also the un-parenthesised
              SEQUENCE SIZE(...) OF  spelling, `bare`), and the fold the
              ACT_CA_UNI / ACT_CA_CSV loop of
              asn1constraint_compute_constraint_range performs over the computed
              operands (uni_fold, parametrised by the merge function);
     (spec)   X.680 root and extensibility of such an expression (nsem / next):
              X.680 (2002) 46.x / G.4.3 (clause 50 and G.4 in the 2008+
              editions; quoted from memory, no copy of the standard here):
              a union or an intersection is extensible iff one of its operands
              is, "A EXCEPT B" iff A is; the root of the result is the same set
              operation on the roots; additions never contribute root values;
              a serially applied constraint replaces the extensibility of its
              parent.  PER-visible reading (X.691 10.3.19): the operand of
              EXCEPT is dropped.
   No proofs in this file. *)
From Coq Require Import ZArith List Bool.
From A1 Require Import Fix.Crange Fix.PerOerVisible Fix.CtSpec.
Import ListNotations.
Local Open Scope Z_scope.

(* ---- surface syntax: ElementSetSpec over SizeConstraint atoms ---- *)
Inductive ness :=
  | NSize (s : spec)               (* SIZE ( ElementSetSpecs ) *)
  | NUnion (a b : ness)
  | NInter (a b : ness)
  | NExcept (a b : ness)
  | NParen (a : ness).
Inductive nspec :=                 (* ElementSetSpecs *)
  | NRoot (e : ness)
  | NExt (e : ness)
  | NExtAdd (e a : ness).

(* ---- model: the tree the parser builds ---- *)
Fixpoint parse_ness (e : ness) : pct :=
  match e with
  | NSize s => PSize (cinsert PSet as_set (parse_spec s) None)   (* SizeConstraint: TOK_SIZE Constraint *)
  | NUnion a b => cinsert PUni as_uni (parse_ness a) (Some (parse_ness b))
  | NInter a b => cinsert PInt as_int (parse_ness a) (Some (parse_ness b))
  | NExcept a b => cinsert PExc as_exc (parse_ness a) (Some (parse_ness b))
  | NParen a => PSet [parse_ness a]
  end.
Definition parse_nspec (s : nspec) : pct :=
  match s with
  | NRoot e => parse_ness e
  | NExt e => cinsert PCsv as_csv (parse_ness e) (Some PExt)
  | NExtAdd e a =>
      cinsert PCsv as_csv (cinsert PCsv as_csv (parse_ness e) (Some PExt)) (Some (parse_ness a))
  end.
Definition parse_nconstraint (s : nspec) : pct := cinsert PSet as_set (parse_nspec s) None.
Fixpoint parse_nmany (acc : pct) (l : list nspec) : pct :=
  match l with
  | [] => acc
  | s :: tl =>
      let c2 := parse_nconstraint s in
      let acc' := match c2 with
                  | PSet [x] => cinsert PSet as_set acc (Some x)
                  | _ => cinsert PSet as_set acc (Some c2)
                  end in
      parse_nmany acc' tl
  end.
(* bare = the optSizeOrConstraint alternative "SizeConstraint" of
   SEQUENCE/SET SIZE(...) OF: the SIZE node itself is the type's constraint *)
Definition parse_nconstraints (bare : bool) (l : list nspec) : option pct :=
  match l with
  | [] => None
  | s :: tl =>
      let first := match bare, s with
                   | true, NRoot e => parse_ness e
                   | _, _ => parse_nconstraint s
                   end in
      Some (parse_nmany first tl)
  end.

(* asn1constraint_pullup: the own constraints are inserted into the parent's
   combined constraint whatever its node type (always a CA_SET since the own
   constraint of every link is wrapped, see wrap_set below) *)
Definition add_children (p : pct) (os : list pct) : option pct :=
  match p with
  | PSet ps => Some (PSet (ps ++ os))
  | PInt ps => Some (PInt (ps ++ os))
  | PCsv ps => Some (PCsv (ps ++ os))
  | PUni ps => Some (PUni (ps ++ os))
  | PExc ps => Some (PExc (ps ++ os))
  | _ => None       (* a SIZE node with two elements: compute asserts el_count == 1 *)
  end.
Inductive pres := POk (ct : option pct) | PAssert.
(* asn1constraint_pullup: an own constraint that is not a CA_SET (the bare
   SizeConstraint) is made the single element of a serial set before anything
   else is done with it ("SEQUENCE SIZE(1..5,...) OF" is treated as
   "SEQUENCE (SIZE(1..5,...)) OF" is) *)
Definition wrap_set (o : pct) : pct := match o with PSet _ => o | x => PSet [x] end.
Definition npullup_step (parent : pres) (own : option pct) : pres :=
  match parent with
  | PAssert => PAssert
  | POk None => POk (match own with Some o => Some (remove_ext true (wrap_set o)) | None => None end)
  | POk (Some p) =>
      match own with
      | None => POk (Some p)
      | Some o =>
          match add_children (remove_ext false p) (match wrap_set o with PSet os => os | x => [x] end) with
          | Some c => POk (Some c)
          | None => PAssert
          end
      end
  end.
Definition npullup (bare : bool) (chain : list (list nspec)) : pres :=
  match chain with
  | [] => POk None
  | l :: tl =>
      fold_left (fun acc l => npullup_step acc (parse_nconstraints false l)) tl
                (npullup_step (POk None) (parse_nconstraints bare l))
  end.

(* ---- model: the operand fold of the ACT_CA_UNI / ACT_CA_CSV loop ----
   After the first valid operand has been grabbed (it becomes the accumulator,
   flags included) every further computed operand `tmp` goes through
       if(tmp->empty_constraint) { flags only } else _range_merge_in(range, tmp)
   `merge` is the merge function: Crange.range_merge_in for the code as it is. *)
Definition flags_only (acc tmp : range) : range :=
  mkRange (r_left acc) (r_right acc) (r_elems acc) (r_ext acc || r_ext tmp) (r_empty acc)
          (r_notPER acc) (r_notOER acc || r_notOER tmp) (r_incompat acc).
Definition uni_step (merge : range -> range -> range) (acc tmp : range) : range :=
  if r_empty tmp then flags_only acc tmp else merge acc tmp.
Definition uni_fold (merge : range -> range -> range) (first : range) (rest : list range) : range :=
  fold_left (uni_step merge) rest first.
(* the variant in which _range_merge_in does not carry the operand's marker over *)
Definition merge_in_noext (into cr : range) : range :=
  mkRange (r_left into) (r_right into) (r_elems into ++ parts cr) (r_ext into) (r_empty into)
          (r_notPER into || r_notPER cr)
          (if r_ext into || r_ext cr then true else r_notOER into || r_notOER cr) (r_incompat into).

(* the loop of compute for PUni / PCsv as a function of its own (same text as in
   Crange.compute; compute_uni_loop in CtNestProofs.v shows they coincide) *)
Definition uni_loop (rq : req) (v : vis) (minmax : option range) (range0 : range) :=
  fix loop (cs : list pct) (st : ustate) (exmet : bool) {struct cs} : res * bool :=
    match cs with
    | [] =>
        match st with
        | UFirst range => (ROk (set_incompat range), exmet)
        | URest range =>
            let r := range_canonicalize range in
            if r_notPER r && is_per v
            then (ROk (mkRange (r_left range0) (r_right range0) (r_elems range0) (r_ext range0)
                               (r_empty range0) true (r_notOER range0) true), exmet)
            else (ROk r, exmet)
        end
    | c :: tl =>
        match st with
        | UFirst range =>
            match compute c rq v minmax exmet with
            | (RErange, ex) => loop tl (UFirst (set_ext range)) ex
            | (ROk tmp, ex) =>
                if r_incompat tmp then (ROk (set_incompat range), ex) else
                let first := mkRange (r_left tmp) (r_right tmp) (r_elems tmp)
                               (r_ext tmp || r_ext range) (r_empty tmp || r_empty range)
                               (r_notPER tmp) (r_notOER tmp || r_notOER range) (r_incompat tmp) in
                match compute c rq v minmax ex with
                | (RErange, ex2) => loop tl (URest (set_ext first)) ex2
                | (ROk tmp2, ex2) =>
                    if r_incompat tmp2 then (ROk (set_incompat (range_canonicalize first)), ex2)
                    else if r_empty tmp2
                    then loop tl (URest (mkRange (r_left first) (r_right first) (r_elems first)
                            (r_ext first || r_ext tmp2) (r_empty first) (r_notPER first)
                            (r_notOER first || r_notOER tmp2) (r_incompat first))) ex2
                    else loop tl (URest (range_merge_in first tmp2)) ex2
                | other => other
                end
            | other => other
            end
        | URest range =>
            match compute c rq v minmax exmet with
            | (RErange, ex) => loop tl (URest (set_ext range)) ex
            | (ROk tmp, ex) =>
                if r_incompat tmp then (ROk (set_incompat (range_canonicalize range)), ex)
                else if r_empty tmp
                then loop tl (URest (mkRange (r_left range) (r_right range) (r_elems range)
                        (r_ext range || r_ext tmp) (r_empty range) (r_notPER range)
                        (r_notOER range || r_notOER tmp) (r_incompat range))) ex
                else loop tl (URest (range_merge_in range tmp)) ex
            | other => other
            end
        end
    end.

(* what the model answers for a nested SIZE expression *)
Definition ncompute_top (t : etype) (p : pres) (rq : req) (v : vis) : tres :=
  match p with
  | PAssert => TAbort
  | POk ct => compute_top t ct rq v
  end.
Definition nper_size_row (t : etype) (p : pres) : per_row :=
  per_row_of (opt_range (ncompute_top t p ReqSize VisNone)).
Definition noer_size (t : etype) (p : pres) : Z :=
  oer_size_of (opt_range (ncompute_top t p ReqSize VisOER)).

(* ---- spec: X.680 root and extensibility ---- *)
(* root values selected from the parent's sizes P; visible = the PER reading *)
Fixpoint nsem (visible : bool) (P : iset) (e : ness) : iset :=
  match e with
  | NSize s => inter P (sem visible P (root_of s))
  | NUnion a b => union (nsem visible P a) (nsem visible P b)
  | NInter a b => inter (nsem visible P a) (nsem visible P b)
  | NExcept a b => if visible then nsem visible P a else diff (nsem visible P a) (nsem visible P b)
  | NParen a => nsem visible P a
  end.
(* G.4: extensibility of set arithmetic *)
Fixpoint next (e : ness) : bool :=
  match e with
  | NSize s => marker s
  | NUnion a b => next a || next b
  | NInter a b => next a || next b
  | NExcept a _ => next a
  | NParen a => next a
  end.
Definition nroot_of (s : nspec) : ness := match s with NRoot e | NExt e | NExtAdd e _ => e end.
Definition nmarker (s : nspec) : bool := match s with NRoot e => next e | _ => true end.
Definition napply (visible : bool) (P : iset) (s : nspec) : iset :=
  inter P (nsem visible P (nroot_of s)).
Definition nroot (visible : bool) (chain : list (list nspec)) : iset :=
  fold_left (napply visible) (concat chain) (base_set true).
Definition nextc (chain : list (list nspec)) : bool :=
  match rev (concat chain) with s :: _ => nmarker s | [] => false end.
Definition nper_effective (chain : list (list nspec)) : eff :=
  let r := nroot true chain in mkEff (lb r) (ub r) (nextc chain) (is_empty r).

(* n-ary unions as the grammar builds them (left nested) *)
Definition nunions (a : ness) (l : list ness) : ness := fold_left NUnion l a.
(* the variant Spec in which only the first operand of a union counts *)
Fixpoint next_first (e : ness) : bool :=
  match e with
  | NSize s => marker s
  | NUnion a _ => next_first a
  | NInter a b => next_first a || next_first b
  | NExcept a _ => next_first a
  | NParen a => next_first a
  end.
