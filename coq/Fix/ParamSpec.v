(* ParamSpec.v — executable model of how asn1c decides whether a reference  P {actual parameters}
   needs a NEW specialization of the parameterized type P or reuses an earlier one
   (libasn1fix/asn1fix_param.c: asn1f_parameterization_fork / compare_specializations, which is
   libasn1parser/asn1p_expr.c: asn1p_expr_compare + asn1p_value.c: asn1p_value_compare +
   libasn1common/asn1_ref.c: asn1p_ref_compare).  The specialization index k is what names the C type
   (asn1c_make_identifier: <Template>_<line>P<k>), so it is visible in every generated header.

   Modelled as the code is, defects included:
     - asn1p_expr_compare never looks at the subtype constraint of an expression ([pe_constr]) nor at
       its own actual parameter list ([pe_pspecs], the rhs_pspecs of a nested reference  Q {BOOLEAN});
     - asn1p_value_compare hands a value set to asn1p_constraint_compare, which is
       assert(!"Constraint comparison is not implemented")  — [CAbort];
     - the table keeps a CLONE of the actual parameter list (asn1p_expr_clone), and asn1p_value_clone turns the
       value NULL into "no value" (ATV_NULL -> calloc'ed ATV_NOVALUE): a list carrying the value NULL never
       compares equal to its own stored copy ([vclone]).
   Not modelled: ATV_TYPE / ATV_REAL values (no generated case carries them; REAL compares doubles with ==),
   the marker flags beyond an opaque number.  No proofs in this file. *)
From Coq Require Import List Bool ZArith.
From A1 Require Import Fix.Printer.
Import ListNotations.
Local Open Scope list_scope.

(* asn1p_ref_t: the module the reference was written in (pointer identity in the C: an index here) and
   its components (the lex_type of a component is a function of its spelling: asn1p_ref_add_component asserts it) *)
Definition pref := (Z * list str)%type.

Inductive pvalue :=
| PVNull | PVNoValue | PVMin | PVMax | PVFalse | PVTrue
| PVInt (z : Z)                         (* ATV_INTEGER / ATV_TUPLE / ATV_QUADRUPLE: v_integer *)
| PVStr (s : str)                       (* ATV_STRING / ATV_UNPARSED *)
| PVBits (bs : list bool)               (* ATV_BITVECTOR *)
| PVRef (r : pref)                      (* ATV_REFERENCED *)
| PVValueSet                            (* ATV_VALUESET: comparing two of them aborts *)
| PVChoiceId (id : str) (v : pvalue).   (* ATV_CHOICE_IDENTIFIER *)

Inductive pexpr :=
| PE (meta etype : Z) (ident : option str) (ref : option pref) (value : option pvalue)
     (tag : Z * Z * Z) (mflags : Z) (mdefault : option pvalue) (unique : bool)
     (constr : option str) (pspecs : list pexpr) (members : list pexpr).

Definition pe_members (e : pexpr) := match e with PE _ _ _ _ _ _ _ _ _ _ _ ms => ms end.
Definition pe_constr (e : pexpr) := match e with PE _ _ _ _ _ _ _ _ _ c _ _ => c end.
Definition pe_pspecs (e : pexpr) := match e with PE _ _ _ _ _ _ _ _ _ _ ps _ => ps end.

Inductive cres := CEq | CNe | CAbort.

Definition of_bool (b : bool) : cres := if b then CEq else CNe.

Fixpoint strs_eqb (a b : list str) : bool :=
  match a, b with
  | [], [] => true
  | x :: a', y :: b' => str_eqb x y && strs_eqb a' b'
  | _, _ => false
  end.

Fixpoint bits_eqb (a b : list bool) : bool :=
  match a, b with
  | [], [] => true
  | x :: a', y :: b' => Bool.eqb x y && bits_eqb a' b'
  | _, _ => false
  end.

(* asn1p_ref_compare: comp_count, module, every component *)
Definition ref_eqb (a b : pref) : bool := Z.eqb (fst a) (fst b) && strs_eqb (snd a) (snd b).

(* asn1p_value_compare *)
Fixpoint vcmp (a b : pvalue) : cres :=
  match a, b with
  | PVNull, PVNull | PVNoValue, PVNoValue | PVMin, PVMin | PVMax, PVMax | PVFalse, PVFalse | PVTrue, PVTrue => CEq
  | PVInt x, PVInt y => of_bool (Z.eqb x y)
  | PVStr x, PVStr y => of_bool (str_eqb x y)
  | PVBits x, PVBits y => of_bool (bits_eqb x y)
  | PVRef x, PVRef y => of_bool (ref_eqb x y)
  | PVValueSet, PVValueSet => CAbort
  | PVChoiceId i x, PVChoiceId j y => if str_eqb i j then vcmp x y else CNe
  | _, _ => CNe                          (* a->type != b->type *)
  end.

(* "(!a && b) || (a && !b) -> -1; else if (a && compare(a, b)) -> -1" *)
Definition opt_cmp {A : Type} (f : A -> A -> cres) (a b : option A) : cres :=
  match a, b with
  | None, None => CEq
  | Some x, Some y => f x y
  | _, _ => CNe
  end.

Definition tag_eqb (a b : Z * Z * Z) : bool :=
  match a, b with (c1, m1, v1), (c2, m2, v2) => Z.eqb c1 c2 && Z.eqb m1 m2 && Z.eqb v1 v2 end.

(* sequencing of the C's early returns: the first test that does not say "equal" decides *)
Definition andc (r : cres) (k : cres) : cres := match r with CEq => k | _ => r end.

(* asn1p_expr_compare, tests in the order of the C *)
Fixpoint ecmp (a b : pexpr) : cres :=
  match a, b with
  | PE m1 t1 i1 r1 v1 g1 f1 d1 u1 _ _ ms1, PE m2 t2 i2 r2 v2 g2 f2 d2 u2 _ _ ms2 =>
      andc (of_bool (Z.eqb m1 m2 && Z.eqb t1 t2))
     (andc (opt_cmp (fun x y => of_bool (str_eqb x y)) i1 i2)
     (andc (opt_cmp (fun x y => of_bool (ref_eqb x y)) r1 r2)
     (andc (opt_cmp vcmp v1 v2)
     (andc (of_bool (tag_eqb g1 g2))
     (andc (of_bool (Z.eqb f1 f2))
     (andc (opt_cmp vcmp d1 d2)
     (andc (of_bool (Bool.eqb u1 u2))
       ((fix go (l1 l2 : list pexpr) : cres :=
           match l1, l2 with
           | [], [] => CEq
           | x :: l1', y :: l2' => andc (ecmp x y) (go l1' l2')
           | _, _ => CNe
           end) ms1 ms2))))))))
  end.

(* compare_specializations(rhs_pspecs, stored rhs_pspecs): both are list wrappers (an expression whose
   members are the actual parameters) *)
Definition compare_specializations (a b : pexpr) : cres := ecmp a b.

(* asn1p_value_clone / asn1p_expr_clone: the identity except on the value NULL *)
Fixpoint vclone (v : pvalue) : pvalue :=
  match v with
  | PVNull => PVNoValue
  | PVChoiceId i x => PVChoiceId i (vclone x)
  | _ => v
  end.
Fixpoint eclone (e : pexpr) : pexpr :=
  match e with
  | PE m t i r v g f d u c ps ms => PE m t i r (option_map vclone v) g f (option_map vclone d) u c (map eclone ps) (map eclone ms)
  end.

Inductive lres := LFound (k : nat) | LNew | LAbort.

(* the loop of asn1f_parameterization_fork over expr->specializations.pspec[0..count) *)
Fixpoint find_spec (tbl : list pexpr) (a : pexpr) (k : nat) : lres :=
  match tbl with
  | [] => LNew
  | s :: t => match compare_specializations a s with
              | CEq => LFound k
              | CNe => find_spec t a (S k)
              | CAbort => LAbort
              end
  end.

(* one reference: reuse or append; the result is the table and the spec_index of the clone the reference gets *)
Definition fork (tbl : list pexpr) (a : pexpr) : option (list pexpr * nat) :=
  match find_spec tbl a 0 with
  | LFound k => Some (tbl, k)
  | LNew => Some (tbl ++ [eclone a], length tbl)
  | LAbort => None
  end.

(* the references to one template in the order the fixer meets them (command-line order of the modules, source
   order inside a module) -> their specialization indices; None = asn1c dies *)
Fixpoint assign (tbl : list pexpr) (refs : list pexpr) : option (list nat) :=
  match refs with
  | [] => Some []
  | a :: r => match fork tbl a with
              | None => None
              | Some (tbl', k) => match assign tbl' r with None => None | Some ks => Some (k :: ks) end
              end
  end.

Definition spec_indices (refs : list pexpr) : option (list nat) := assign [] refs.

(* ---- what the comparison can see: the expression with constraints and nested parameter lists erased ---- *)
Fixpoint key (e : pexpr) : pexpr :=
  match e with
  | PE m t i r v g f d u _ _ ms => PE m t i r v g f d u None [] (map key ms)
  end.

(* no value set in a compared position *)
Fixpoint vnovs (v : pvalue) : bool :=
  match v with PVValueSet => false | PVChoiceId _ x => vnovs x | _ => true end.
Definition onovs (v : option pvalue) : bool := match v with None => true | Some x => vnovs x end.
Fixpoint novs (e : pexpr) : bool :=
  match e with
  | PE _ _ _ _ v _ _ d _ _ _ ms => onovs v && onovs d && forallb novs ms
  end.

(* neither a value set nor the value NULL in a compared position: the comparison is total and the stored clone is
   indistinguishable from the original *)
Fixpoint vstable (v : pvalue) : bool :=
  match v with PVValueSet => false | PVNull => false | PVChoiceId _ x => vstable x | _ => true end.
Definition ostable (v : option pvalue) : bool := match v with None => true | Some x => vstable x end.
Fixpoint stable (e : pexpr) : bool :=
  match e with
  | PE _ _ _ _ v _ _ d _ _ _ ms => ostable v && ostable d && forallb stable ms
  end.

(* the wrapper the parser builds for  { a1, ..., an } *)
Definition wrap (actuals : list pexpr) : pexpr := PE 0 0 None None None (0, 0, 0)%Z 0 None false None [] actuals.

(* the specification one would expect (X.683: a reference with other actual parameters denotes another type):
   full structural equality, constraints and nested parameter lists included *)
Definition same_actuals (a b : pexpr) : Prop := a = b.
