(* FileSetProofs.v — no two top-level expressions of an accepted module list are saved under the same file name.
     cname_injective      on a module list asn1c accepts (no identifier twice in modules of one name) whose names are
                          ASN.1 names (no low line), the name Module_Identifier / Identifier identifies the expression;
     file_stems_nodup     hence the list of files written has no repetition (nothing is overwritten);
     prefix_necessary     wherever the marking fires the bare identifier WOULD collide (the prefix cannot be dropped);
     bare_stems_collide_example   the two-module witness of the seeded change C10-3. *)
From Coq Require Import List Bool Ascii Lia.
From A1 Require Import Fix.Printer Fix.NameClash Fix.NameClashProofs Fix.ParamSpecProofs Fix.FileSet.
Import ListNotations.
Local Open Scope list_scope.

Lemma str_eqb_neq : forall a b, str_eqb a b = false <-> a <> b.
Proof.
  intros a b. split.
  - intros H E. apply str_eqb_eq in E. congruence.
  - intro H. destruct (str_eqb a b) eqn:E; auto. apply str_eqb_eq in E. contradiction.
Qed.

Lemma has_us_app : forall a b, has_us (a +++ b) = has_us a || has_us b.
Proof. induction a as [|c a IH]; intro b; simpl. reflexivity. rewrite IH. apply orb_assoc. Qed.

Lemma has_us_underscore : has_us underscore = true.
Proof. reflexivity. Qed.

(* a +++ "_" +++ x = b +++ "_" +++ y with a, b free of low lines: split at the first low line *)
Lemma prefix_inj : forall a b x y, has_us a = false -> has_us b = false ->
  a +++ underscore +++ x = b +++ underscore +++ y -> a = b /\ x = y.
Proof.
  induction a as [|c a IH]; intros [|d b] x y Ha Hb H; simpl in *.
  - injection H as H. auto.
  - injection H as H1 H2. subst d. apply orb_false_iff in Hb. destruct Hb as [Hb _]. discriminate.
  - injection H as H1 H2. subst c. apply orb_false_iff in Ha. destruct Ha as [Ha _]. discriminate.
  - injection H as H1 H2. subst d. apply orb_false_iff in Ha. apply orb_false_iff in Hb.
    destruct Ha as [_ Ha]. destruct Hb as [_ Hb]. destruct (IH b x y Ha Hb H2) as [E1 E2]. subst. auto.
Qed.

Lemma clean_flat : forall ms e, clean ms = true -> In e (flat ms) -> has_us (fst e) = false /\ has_us (snd e) = false.
Proof.
  intros ms e Hc Hin. unfold flat in Hin. apply in_flat_map in Hin. destruct Hin as [m [Hm He]].
  apply in_map_iff in He. destruct He as [i [He Hi]]. subst e. simpl.
  unfold clean in Hc. rewrite forallb_forall in Hc. specialize (Hc m Hm). unfold clean_mod in Hc.
  apply andb_true_iff in Hc. destruct Hc as [H1 H2]. rewrite forallb_forall in H2. specialize (H2 i Hi).
  apply negb_true_iff in H1. apply negb_true_iff in H2. auto.
Qed.

Lemma marked_false : forall ms e e', marked ms e = false -> In e' (flat ms) -> clash e e' = false.
Proof.
  intros ms e e' H Hin. unfold marked in H. destruct (clash e e') eqn:E; auto.
  assert (existsb (clash e) (flat ms) = true) by (apply existsb_exists; exists e'; auto). congruence.
Qed.

Theorem cname_injective : forall ms e1 e2, clean ms = true -> In e1 (flat ms) -> In e2 (flat ms) ->
  cname ms e1 = cname ms e2 -> e1 = e2.
Proof.
  intros ms [m1 i1] [m2 i2] Hc H1 H2 E.
  destruct (clean_flat ms _ Hc H1) as [A1 B1]. destruct (clean_flat ms _ Hc H2) as [A2 B2]. simpl in *.
  unfold cname, cname_of in E. cbn [fst snd] in E.
  destruct (marked ms (m1, i1)) eqn:M1; destruct (marked ms (m2, i2)) eqn:M2.
  - apply prefix_inj in E; auto. destruct E. subst. reflexivity.
  - exfalso. assert (has_us i2 = true). { rewrite <- E, !has_us_app, has_us_underscore. apply orb_true_iff. right. reflexivity. } congruence.
  - exfalso. assert (has_us i1 = true). { rewrite E, !has_us_app, has_us_underscore. apply orb_true_iff. right. reflexivity. } congruence.
  - subst i2. pose proof (marked_false ms _ _ M1 H2) as C. unfold clash, same_id, same_mod in C. simpl in C.
    rewrite str_eqb_refl in C. simpl in C. apply negb_false_iff in C. apply str_eqb_eq in C. subst. reflexivity.
Qed.

(* has_dup = false: an expression occurs once in the flat list *)
Lemma has_dup_nodup : forall l, has_dup l = false -> NoDup l.
Proof.
  induction l as [|e l IH]; simpl; intro H. constructor.
  apply orb_false_iff in H. destruct H as [H1 H2]. constructor; auto.
  intro Hin. assert (existsb (dup e) l = true).
  { apply existsb_exists. exists e. split; auto. unfold dup, same_id, same_mod. rewrite !str_eqb_refl. reflexivity. }
  congruence.
Qed.

Lemma nodup_map_inj : forall (A B : Type) (f : A -> B) l, NoDup l ->
  (forall x y, In x l -> In y l -> f x = f y -> x = y) -> NoDup (map f l).
Proof.
  induction l as [|a l IH]; simpl; intros Hn Hf. constructor.
  inversion Hn as [|? ? Hna Hnl]. subst. constructor.
  - intro Hin. apply in_map_iff in Hin. destruct Hin as [y [Hy Hiny]]. assert (y = a) by (apply Hf; auto). subst. contradiction.
  - apply IH; auto.
Qed.

Lemma select_in : forall (A : Type) (l : list A) ks x, In x (select l ks) -> In x l.
Proof.
  induction l as [|a l IH]; intros [|k ks] x H; simpl in *; try contradiction.
  destruct k; simpl in H. destruct H; auto. right. eapply IH; eauto. right. eapply IH; eauto.
Qed.

Lemma select_nodup : forall (A : Type) (l : list A) ks, NoDup l -> NoDup (select l ks).
Proof.
  induction l as [|a l IH]; intros [|k ks] H; simpl; try constructor.
  inversion H as [|? ? Hna Hnl]. subst. destruct k.
  - constructor. intro Hin. apply select_in in Hin. contradiction. apply IH. assumption.
  - apply IH. assumption.
Qed.

Theorem cnames_nodup : forall ms ns, clean ms = true -> cnames_c ms = Some ns -> NoDup ns.
Proof.
  intros ms ns Hc H. rewrite cnames_c_spec in H. destruct (has_dup (flat ms)) eqn:D; try discriminate.
  injection H as H. subst ns. apply nodup_map_inj. apply has_dup_nodup. assumption.
  intros x y Hx Hy E. eapply cname_injective; eauto.
Qed.

Theorem file_stems_nodup : forall ms stems, clean (map to_nmod ms) = true -> file_stems ms = Some stems -> NoDup stems.
Proof.
  intros ms stems Hc H. unfold file_stems in H. destruct (cnames_c (map to_nmod ms)) as [ns|] eqn:E; try discriminate.
  injection H as H. subst stems. apply select_nodup. eapply cnames_nodup; eauto.
Qed.

(* wherever asn1c adds the module prefix the bare identifier is taken by another expression *)
Theorem prefix_necessary : forall ms e, marked ms e = true -> exists e', In e' (flat ms) /\ e' <> e /\ snd e' = snd e.
Proof.
  intros ms e H. unfold marked in H. apply existsb_exists in H. destruct H as [e' [Hin Hc]].
  unfold clash, same_id, same_mod in Hc. apply andb_true_iff in Hc. destruct Hc as [H1 H2].
  apply str_eqb_eq in H1. apply negb_true_iff in H2. apply str_eqb_neq in H2.
  exists e'. repeat split; auto. intro E. subst. contradiction.
Qed.

Example bare_stems_collide_example :
  let ms := [("Mod-A"%str, [("Top"%str, true); ("Item"%str, true)]); ("Mod-B"%str, [("Item"%str, true)])] in
  file_stems ms = Some ["Top"%str; "Mod-A_Item"%str; "Mod-B_Item"%str] /\ bare_stems ms = ["Top"%str; "Item"%str; "Item"%str].
Proof. vm_compute. split; reflexivity. Qed.
