(* NameClash.v — executable model of how asn1c names the per-type output of a set of
   modules (libasn1fix/asn1fix.c:asn1f_check_duplicate marks, and
   libasn1compiler/asn1c_misc.c:asn1c_make_identifier uses, TM_NAMECLASH).

   A module is its name and the list of its top-level identifiers in source order
   (asn1f_check_duplicate runs over every top-level member, type and value assignments
   alike).  The module list is in command-line order.  Modules are told apart by their
   names (the C compares object identifiers instead when BOTH modules carry one; the
   generated cases of the tie have no module OIDs).

     scan        the C's double loop: the expression being checked is compared with
                 every expression that precedes it in (module, member) order; the same
                 identifier in a module of another name marks BOTH expressions; the same
                 identifier in a module of the same name is the FATAL clash (None)
     marked      the specification: an expression is marked iff some expression anywhere
                 in the module list has its identifier and another module name
     cname       asn1c_make_identifier: Module_Identifier when marked, Identifier else
     scan_first  the asymmetric rule "the one seen first keeps the short name" (only the
                 expression being checked is marked) — not what the C does; kept to state
                 that this rule is order dependent
   No proofs in this file. *)
From Coq Require Import List Bool Ascii.
From A1 Require Import Fix.Printer.
Import ListNotations.
Local Open Scope str_scope.
Local Open Scope list_scope.

Definition nmod := (str * list str)%type.           (* module name, top-level identifiers *)
Definition nexpr := (str * str)%type.               (* module name, identifier *)

Definition flat (ms : list nmod) : list nexpr :=
  flat_map (fun m => map (fun i => (fst m, i)) (snd m)) ms.

Definition same_id (a b : nexpr) : bool := str_eqb (snd a) (snd b).
Definition same_mod (a b : nexpr) : bool := str_eqb (fst a) (fst b).
Definition clash (a b : nexpr) : bool := same_id a b && negb (same_mod a b).
Definition dup (a b : nexpr) : bool := same_id a b && same_mod a b.

(* one call of asn1f_check_duplicate for expression [e], [seen] = the expressions before it
   with their marks so far *)
Definition check_one (seen : list (nexpr * bool)) (e : nexpr) : option (list (nexpr * bool)) :=
  if existsb (fun x => dup e (fst x)) seen then None
  else Some (map (fun x => (fst x, snd x || clash e (fst x))) seen
             ++ [(e, existsb (fun x => clash e (fst x)) seen)]).

Fixpoint scan (seen : list (nexpr * bool)) (rest : list nexpr) : option (list (nexpr * bool)) :=
  match rest with
  | [] => Some seen
  | e :: r => match check_one seen e with None => None | Some seen' => scan seen' r end
  end.

Definition marks_c (ms : list nmod) : option (list (nexpr * bool)) := scan [] (flat ms).

(* specification *)
Definition marked (ms : list nmod) (e : nexpr) : bool := existsb (clash e) (flat ms).

Fixpoint has_dup (l : list nexpr) : bool :=
  match l with [] => false | e :: r => existsb (dup e) r || has_dup r end.

Definition underscore : str := "_".
Definition cname_of (e : nexpr) (mark : bool) : str :=
  if mark then fst e +++ underscore +++ snd e else snd e.
Definition cname (ms : list nmod) (e : nexpr) : str := cname_of e (marked ms e).

(* what the check compares with the generated file names: the C names of all expressions, in
   (module, member) order, computed the C's way; None = asn1c refuses the module set *)
Definition cnames_c (ms : list nmod) : option (list str) :=
  match marks_c ms with
  | None => None
  | Some l => Some (map (fun x => cname_of (fst x) (snd x)) l)
  end.

(* the asymmetric rule *)
Definition check_one_first (seen : list (nexpr * bool)) (e : nexpr) : list (nexpr * bool) :=
  seen ++ [(e, existsb (fun x => clash e (fst x)) seen)].
Definition cnames_first (ms : list nmod) : list str :=
  map (fun x => cname_of (fst x) (snd x)) (fold_left check_one_first (flat ms) []).
