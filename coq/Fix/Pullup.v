(* Pullup.v — executable model of how libasn1fix resolves and combines subtype constraints
   across a set of modules (asn1fix.c: asn1f_fix_module__phase_1/_2, asn1f_resolve_constraints,
   asn1f_check_constraints; asn1fix_constraint.c: asn1constraint_resolve, constraint_type_resolve,
   asn1constraint_pullup).  No proofs in this file.

   What is modelled: WHEN things happen and what is cached.
     * every type has its OWN constraint, a list of elements: a literal range, a range whose upper end
       is a value reference, or a contained subtype `(INCLUDES U)`;
     * asn1constraint_resolve rewrites the own constraint IN PLACE: a value reference becomes its value,
       a contained subtype is replaced by (a clone of) the combined constraints of U, which
       constraint_type_resolve obtains by calling asn1constraint_pullup on U on the spot — with
       arg->mod switched to U's module;
     * asn1constraint_pullup computes combined_constraints ONCE per type (`if(expr->combined_constraints)
       return 0`): the parent's combined constraints (after pulling the parent up, same arg->mod)
       followed by the type's own constraints, which it resolves first;
     * phase 1 runs over the modules in command-line order and resolves the own constraints of each
       type of the module; phase 2 runs over the modules again, resolves once more and pulls up.
   What is not modelled: the set algebra (unions/intersections/extension removal — elements are kept
   as a flat sequence of leaves), name lookup (types and values are numbered; every reference is
   to a smaller number, so there are no cycles), failures.

   [seeded = true] is the variant "a type of another module is resolved by the pass over its own
   module, not from here": pullup resolves the own constraint only when the type belongs to arg->mod. *)
From Coq Require Import ZArith List Bool Arith.
Import ListNotations.

Inductive cel :=
  | Lit (lo hi : Z)            (* a..b with both ends known *)
  | VRef (lo : Z) (v : nat)    (* a..valueref *)
  | Incl (u : nat).            (* contained subtype by reference *)

Record tdef := mkT { t_mod : nat; t_parent : option nat; t_own : list cel }.

(* the module set: type number -> definition; value number -> terminal value *)
Record world := mkW { w_types : list tdef; w_vals : list Z }.

Definition tdef_of (w : world) (t : nat) : tdef := nth t (w_types w) (mkT 0 None []).
Definition vval (w : world) (v : nat) : Z := nth v (w_vals w) 0%Z.

(* the mutable part of asn1p_expr_t: expr->constraints (resolved in place), expr->combined_constraints *)
Record state := mkS { own : nat -> list cel; comb : nat -> option (list cel) }.

Definition init (w : world) : state := mkS (fun t => t_own (tdef_of w t)) (fun _ => None).

Definition set_own (st : state) (t : nat) (l : list cel) : state :=
  mkS (fun x => if Nat.eqb x t then l else own st x) (comb st).
Definition set_comb (st : state) (t : nat) (l : list cel) : state :=
  mkS (own st) (fun x => if Nat.eqb x t then Some l else comb st x).

Definition olist (o : option (list cel)) : list cel := match o with Some l => l | None => [] end.

(* the elements of one constraint, left to right, threading the state ([pull] = asn1constraint_pullup
   with arg->mod = the module of the contained type) *)
Definition resolve_els (w : world) (pull : state -> nat -> state) : state -> list cel -> state * list cel :=
  fix go st els :=
    match els with
    | [] => (st, [])
    | e :: r =>
      let '(st1, l1) :=
        match e with
        | Lit _ _ => (st, [e])
        | VRef lo v => (st, [Lit lo (vval w v)])
        | Incl u =>
            let s' := pull st u in
            match comb s' u with Some l => (s', l) | None => (s', [Incl u]) end
        end in
      let '(st2, l2) := go st1 r in (st2, l1 ++ l2)
    end.

(* fuel [f]; [cur] = arg->mod *)
Fixpoint pullup (w : world) (seeded : bool) (f : nat) (cur : nat) (st : state) (t : nat) {struct f} : state :=
  match f with
  | O => st
  | S f' =>
    match comb st t with
    | Some _ => st                               (* operation already performed earlier *)
    | None =>
      let d := tdef_of w t in
      let st1 := match t_parent d with Some p => pullup w seeded f' cur st p | None => st end in
      let cp := match t_parent d with Some p => comb st1 p | None => None end in
      match cp, own st1 t with
      | None, [] => st1                          (* no constraints to consider *)
      | _, _ =>
        let st2 := if seeded && negb (Nat.eqb (t_mod d) cur) then st1
                   else resolve_own w seeded f' cur st1 t in
        set_comb st2 t (olist cp ++ own st2 t)
      end
    end
  end
with resolve_own (w : world) (seeded : bool) (f : nat) (cur : nat) (st : state) (t : nat) {struct f} : state :=
  match f with
  | O => st
  | S f' =>
    let '(st', l) :=
      resolve_els w (fun s u => pullup w seeded f' (t_mod (tdef_of w u)) s u) st (own st t) in
    set_own st' t l
  end.

(* a module = its number and its types in definition order; the list of modules = command-line order *)
Definition module := (nat * list nat)%type.

Definition phase1 (w : world) (sd : bool) (f : nat) (st : state) (m : module) : state :=
  fold_left (fun s t => resolve_own w sd f (fst m) s t) (snd m) st.

Definition phase2 (w : world) (sd : bool) (f : nat) (st : state) (m : module) : state :=
  fold_left (fun s t => pullup w sd f (fst m) (resolve_own w sd f (fst m) s t) t) (snd m) st.

Definition fixall (w : world) (sd : bool) (f : nat) (ms : list module) : state :=
  fold_left (phase2 w sd f) ms (fold_left (phase1 w sd f) ms (init w)).

(* enough fuel: every call chain descends to a smaller type number, two calls per step *)
Definition fuel_of (w : world) : nat := 2 * length (w_types w) + 2.

Definition combined (w : world) (sd : bool) (ms : list module) (t : nat) : option (list cel) :=
  comb (fixall w sd (fuel_of w) ms) t.

(* ---- the order-free specification: what the combined constraints of a type are ---- *)
Fixpoint spec_c (w : world) (f : nat) (t : nat) {struct f} : option (list cel) :=
  match f with
  | O => None
  | S f' =>
    let d := tdef_of w t in
    let cp := match t_parent d with Some p => spec_c w f' p | None => None end in
    let ownr := flat_map (fun e =>
                  match e with
                  | Lit _ _ => [e]
                  | VRef lo v => [Lit lo (vval w v)]
                  | Incl u => match spec_c w f' u with Some l => l | None => [Incl u] end
                  end) (t_own d) in
    match cp, t_own d with
    | None, [] => None
    | _, _ => Some (olist cp ++ ownr)
    end
  end.

Definition spec (w : world) (t : nat) : option (list cel) := spec_c w (S t) t.

(* well-formed: every reference of type number t goes to a smaller type number *)
Definition cel_ok (t : nat) (e : cel) : bool :=
  match e with Incl u => Nat.ltb u t | _ => true end.
Definition tdef_ok (t : nat) (d : tdef) : bool :=
  match t_parent d with Some p => Nat.ltb p t | None => true end && forallb (cel_ok t) (t_own d).
Fixpoint types_ok (t : nat) (l : list tdef) : bool :=
  match l with [] => true | d :: r => tdef_ok t d && types_ok (S t) r end.
Definition wf_world (w : world) : bool := types_ok 0 (w_types w).

(* every type the modules list exists *)
Definition mods_ok (w : world) (ms : list module) : bool :=
  forallb (fun m => forallb (fun t => Nat.ltb t (length (w_types w))) (snd m)) ms.
