(* NameClashProofs.v — the C's pairwise scan computes the symmetric specification, and the
   specification (hence the C names of all per-type output) does not depend on the order
   of the module list. *)
From Coq Require Import List Bool Ascii Permutation.
From A1 Require Import Fix.Printer Fix.NameClash.
Import ListNotations.
Local Open Scope list_scope.

Lemma ascii_eqb_sym : forall a b, Ascii.eqb a b = Ascii.eqb b a.
Proof.
  intros a b. destruct (Ascii.eqb a b) eqn:E.
  - apply Ascii.eqb_eq in E. subst. symmetry. apply Ascii.eqb_refl.
  - destruct (Ascii.eqb b a) eqn:E2; [|reflexivity].
    apply Ascii.eqb_eq in E2. subst. rewrite Ascii.eqb_refl in E. discriminate.
Qed.

Lemma str_eqb_sym : forall a b, str_eqb a b = str_eqb b a.
Proof.
  induction a as [|x a IH]; destruct b as [|y b]; simpl; try reflexivity.
  rewrite ascii_eqb_sym, IH. reflexivity.
Qed.

Lemma str_eqb_refl : forall a, str_eqb a a = true.
Proof. induction a as [|x a IH]; simpl; [reflexivity|]. rewrite Ascii.eqb_refl, IH. reflexivity. Qed.

Lemma clash_sym : forall a b, clash a b = clash b a.
Proof. intros. unfold clash, same_id, same_mod. rewrite (str_eqb_sym (snd a)), (str_eqb_sym (fst a)). reflexivity. Qed.

Lemma dup_sym : forall a b, dup a b = dup b a.
Proof. intros. unfold dup, same_id, same_mod. rewrite (str_eqb_sym (snd a)), (str_eqb_sym (fst a)). reflexivity. Qed.

Lemma clash_irrefl : forall a, clash a a = false.
Proof. intros. unfold clash, same_mod. rewrite str_eqb_refl. apply andb_false_r. Qed.

(* ---------------------------------------------------------------- has_dup *)
Lemma existsb_ext_in : forall (A : Type) (f g : A -> bool) l, (forall x, f x = g x) -> existsb f l = existsb g l.
Proof. intros A f g l H. induction l as [|x l IH]; simpl; [reflexivity|]. rewrite H, IH. reflexivity. Qed.

Lemma has_dup_app : forall a b,
  has_dup (a ++ b) = has_dup a || has_dup b || existsb (fun x => existsb (dup x) b) a.
Proof.
  induction a as [|x a IH]; intros b; simpl.
  - rewrite orb_false_r. reflexivity.
  - rewrite existsb_app, IH.
    destruct (existsb (dup x) a), (existsb (dup x) b), (has_dup a), (has_dup b),
             (existsb (fun x0 => existsb (dup x0) b) a); reflexivity.
Qed.

Lemma has_dup_snoc : forall pre e,
  has_dup (pre ++ [e]) = has_dup pre || existsb (dup e) pre.
Proof.
  intros. rewrite has_dup_app. simpl.
  rewrite (existsb_ext_in _ (fun x => existsb (dup x) [e]) (fun x => dup e x)).
  - destruct (has_dup pre), (existsb (fun x => dup e x) pre); reflexivity.
  - intros x. simpl. rewrite orb_false_r. apply dup_sym.
Qed.

(* ---------------------------------------------------------------- the scan *)
Definition mk (l : list nexpr) : list (nexpr * bool) := map (fun e => (e, existsb (clash e) l)) l.

Lemma mk_fst_gen : forall (f : nexpr -> bool) (g : nexpr -> bool) l,
  existsb (fun x => f (fst x)) (map (fun e => (e, g e)) l) = existsb f l.
Proof. intros f g l. induction l as [|x l IH]; simpl; [reflexivity|]. rewrite IH. reflexivity. Qed.

Lemma mk_fst : forall (f : nexpr -> bool) l, existsb (fun x => f (fst x)) (mk l) = existsb f l.
Proof. intros f l. unfold mk. apply mk_fst_gen. Qed.

Lemma mk_snoc : forall pre e,
  map (fun x => (fst x, snd x || clash e (fst x))) (mk pre) ++ [(e, existsb (fun x => clash e (fst x)) (mk pre))]
  = mk (pre ++ [e]).
Proof.
  intros pre e. unfold mk at 3. rewrite map_app. simpl. f_equal.
  - unfold mk. rewrite map_map. apply map_ext. intros x. simpl.
    rewrite existsb_app. simpl. rewrite orb_false_r, (clash_sym x e). reflexivity.
  - rewrite (mk_fst (clash e)). rewrite existsb_app. simpl.
    rewrite clash_irrefl. rewrite !orb_false_r. reflexivity.
Qed.

Lemma scan_mk : forall rest pre, has_dup pre = false ->
  scan (mk pre) rest = if has_dup (pre ++ rest) then None else Some (mk (pre ++ rest)).
Proof.
  induction rest as [|e r IH]; intros pre Hp; simpl.
  - rewrite app_nil_r, Hp. reflexivity.
  - unfold check_one. rewrite (mk_fst (dup e)).
    destruct (existsb (dup e) pre) eqn:Ed.
    + replace (pre ++ e :: r) with ((pre ++ [e]) ++ r) by (rewrite <- app_assoc; reflexivity).
      rewrite has_dup_app, has_dup_snoc, Ed, orb_true_r. reflexivity.
    + rewrite mk_snoc. rewrite IH.
      * rewrite <- app_assoc. reflexivity.
      * rewrite has_dup_snoc, Hp, Ed. reflexivity.
Qed.

Lemma marks_c_spec : forall ms,
  marks_c ms = if has_dup (flat ms) then None else Some (map (fun e => (e, marked ms e)) (flat ms)).
Proof. intros ms. unfold marks_c. apply (scan_mk (flat ms) []). reflexivity. Qed.

Lemma cnames_c_spec : forall ms,
  cnames_c ms = if has_dup (flat ms) then None else Some (map (cname ms) (flat ms)).
Proof.
  intros ms. unfold cnames_c. rewrite marks_c_spec. destruct (has_dup (flat ms)); [reflexivity|].
  rewrite map_map. reflexivity.
Qed.

(* ------------------------------------------------- permutation of the module list *)
Lemma existsb_perm : forall (A : Type) (f : A -> bool) l l', Permutation l l' -> existsb f l = existsb f l'.
Proof.
  intros A f l l' H. induction H; simpl.
  - reflexivity.
  - rewrite IHPermutation. reflexivity.
  - destruct (f x), (f y); reflexivity.
  - rewrite IHPermutation1. exact IHPermutation2.
Qed.

Lemma has_dup_perm : forall l l', Permutation l l' -> has_dup l = has_dup l'.
Proof.
  intros l l' H. induction H; simpl.
  - reflexivity.
  - rewrite IHPermutation, (existsb_perm _ (dup x) l l' H). reflexivity.
  - rewrite (dup_sym y x).
    destruct (dup x y), (existsb (dup y) l), (existsb (dup x) l), (has_dup l); reflexivity.
  - rewrite IHPermutation1. exact IHPermutation2.
Qed.

Lemma flat_perm : forall ms ms', Permutation ms ms' -> Permutation (flat ms) (flat ms').
Proof.
  intros ms ms' H. unfold flat. induction H; simpl.
  - constructor.
  - apply Permutation_app_head. exact IHPermutation.
  - rewrite !app_assoc. apply Permutation_app_tail. apply Permutation_app_comm.
  - eapply Permutation_trans; eassumption.
Qed.

Lemma marked_perm : forall ms ms' e, Permutation ms ms' -> marked ms e = marked ms' e.
Proof. intros. unfold marked. apply existsb_perm. apply flat_perm. assumption. Qed.

Lemma cname_perm : forall ms ms' e, Permutation ms ms' -> cname ms e = cname ms' e.
Proof. intros. unfold cname. rewrite (marked_perm ms ms' e H). reflexivity. Qed.

(* the whole statement: acceptance does not depend on the order, and neither does the
   multiset of C names (= names of the per-type files and of everything derived from them) *)
Lemma names_order_independent : forall ms ms', Permutation ms ms' ->
  match cnames_c ms, cnames_c ms' with
  | None, None => True
  | Some l, Some l' => Permutation l l' /\ forall e, cname ms e = cname ms' e
  | _, _ => False
  end.
Proof.
  intros ms ms' H. rewrite !cnames_c_spec.
  rewrite (has_dup_perm _ _ (flat_perm _ _ H)).
  destruct (has_dup (flat ms')); [exact I|]. split.
  - rewrite (map_ext (cname ms) (cname ms') (fun e => cname_perm ms ms' e H)).
    apply Permutation_map. apply flat_perm. exact H.
  - intros e. apply cname_perm. exact H.
Qed.

(* the asymmetric rule is order dependent *)
Local Open Scope str_scope.
Definition ex_ab : list nmod := [("ModA", ["Info"; "UseA"]); ("ModB", ["Info"])].
Definition ex_ba : list nmod := [("ModB", ["Info"]); ("ModA", ["Info"; "UseA"])].

Lemma first_keeps_name_refuted :
  exists ms ms' n, Permutation ms ms' /\ In n (cnames_first ms) /\ ~ In n (cnames_first ms').
Proof.
  exists ex_ab, ex_ba, "ModB_Info". split; [|split].
  - unfold ex_ab, ex_ba. apply perm_swap.
  - vm_compute. right. right. left. reflexivity.
  - vm_compute. intros [H|[H|[H|[]]]]; discriminate H.
Qed.

(* non-vacuity of the symmetric rule on the same example: both get the prefix in either order *)
Lemma ex_symmetric :
  cnames_c ex_ab = Some ["ModA_Info"; "UseA"; "ModB_Info"] /\
  cnames_c ex_ba = Some ["ModB_Info"; "ModA_Info"; "UseA"].
Proof. split; vm_compute; reflexivity. Qed.
