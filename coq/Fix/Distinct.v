(* Distinct.v — the specification side of C11, written from the property text
   and X.680 (clauses 25.6/25.6.1, 27.3, 29.3 distinct tags; 31.2.7 tagging;
   52.7 extension markers), NOT from the C code.

   [first_tag m tg t x]: x is a possible outermost tag of type t carrying tag tg
   (after IMPLICIT/EXPLICIT/AUTOMATIC tagging), looking through type references
   and untagged CHOICEs.  It is the least relation closed under the rules below
   (so a reference cycle contributes nothing).  An extensible untagged CHOICE
   additionally contributes [OExt], the tag of a future alternative, and an
   extension marker of the constructed type itself counts as a component whose
   only tag is [OExt]: a version-1 decoder cannot tell which insertion point an
   unknown tag belongs to (X.680 52.7, examples 2 and 3).

   [distinct_spec m]: for every SEQUENCE/SET/CHOICE/ENUMERATED/reference that
   occurs in m
     - CHOICE, SET: the components' tag sets are pairwise disjoint;
     - SEQUENCE: among the ROOT components (r1, r2 in textual order; the
       property text speaks of root components only), a component and a later
       one are disjoint whenever everything from the first up to just before the
       second is OPTIONAL/DEFAULT; the same among the extension additions taken
       on their own.  Root and additions are not compared with each other
       (asn1c accepting SEQUENCE { a INTEGER OPTIONAL, ..., b INTEGER } is not a
       violation of the property as stated);
     - component identifiers are pairwise different;
     - enumeration names are pairwise different, and so are the values written
       in the module (X.680 20.3-20.5: the numbers given to the other items
       avoid every written value, so they cannot introduce a clash);
     - every type reference resolves to a type that is not a reference.
   [tagging_wf m] collects what a module must satisfy besides, outside the list
   in the property text: definition names differ, IMPLICIT is not written on an
   untagged CHOICE (31.2.7 c), under AUTOMATIC TAGS additions are not tagged when
   the root is not. *)
From Coq Require Import ZArith List Bool Arith.
From A1 Require Import Fix.Tags.
Import ListNotations.
Local Open Scope Z_scope.

Section Spec.
Variable m : module.

(* automatic tagging applies to a constructed type of an AUTOMATIC TAGS module
   none of whose components is tagged; numbers: root first, then additions *)
Definition sp_auto (r1 adds r2 : list (cinfo * ty)) : bool :=
  match m_tagging m with
  | TgAutomatic => forallb (fun c => negb (has_tag c)) (r1 ++ r2 ++ adds)
  | _ => false
  end.
Definition sp_tag (auto : bool) (i : nat) (c : cinfo) : option (tclass * Z) :=
  if auto then Some (CContext, Z.of_nat i) else tagpair (c_tag c).

(* components in numbering order *)
Definition sp_comps (r1 : list (cinfo * ty)) (ext : option (list (cinfo * ty))) (r2 : list (cinfo * ty)) :=
  r1 ++ r2 ++ adds_of ext.

Inductive first_tag : option (tclass * Z) -> ty -> otag -> Prop :=
| FT_tagged : forall c n t, first_tag (Some (c, n)) t (OT c n)
| FT_univ : forall t u, universal_of t = Some u -> first_tag None t (OT CUniversal u)
| FT_ref : forall r d x, lookup m r = Some d ->
    first_tag (tagpair (d_tag d)) (d_ty d) x -> first_tag None (TRef r) x
| FT_alt : forall r1 ext r2 i c t x,
    nth_error (sp_comps r1 ext r2) i = Some (c, t) ->
    first_tag (sp_tag (sp_auto r1 (adds_of ext) r2) i c) t x ->
    first_tag None (TCons KChoice r1 ext r2) x
| FT_future : forall r1 a r2, first_tag None (TCons KChoice r1 (Some a) r2) OExt.

Definition tagset := otag -> Prop.
Definition disjoint (A B : tagset) : Prop := forall x, A x -> B x -> False.

(* one entry per component: (OPTIONAL/DEFAULT?, its tag set) *)
Definition entry := (bool * tagset)%type.
Fixpoint entries (auto : bool) (i : nat) (l : list (cinfo * ty)) : list entry :=
  match l with
  | [] => []
  | (c, t) :: l' => (is_opt c, first_tag (sp_tag auto i c) t) :: entries auto (S i) l'
  end.
Definition marker_entry : entry := (false, fun x => x = OExt).

Definition pairwise_disjoint (L : list entry) : Prop :=
  ForallOrdPairs (fun a b => disjoint (snd a) (snd b)) L.

(* "a run of consecutive OPTIONAL/DEFAULT components and the component
   following it": a, then a stretch of OPTIONAL/DEFAULT components, then b,
   with a itself OPTIONAL/DEFAULT *)
Definition runs_ok (L : list entry) : Prop :=
  forall L1 a pre b post, L = L1 ++ a :: pre ++ b :: post ->
    fst a = true -> Forall (fun e => fst e = true) pre ->
    disjoint (snd a) (snd b).

Definition is_reference (t : ty) : Prop := match t with TRef _ => True | _ => False end.
Inductive resolves : nat -> Prop :=
| Res_end : forall r d, lookup m r = Some d -> ~ is_reference (d_ty d) -> resolves r
| Res_step : forall r d r', lookup m r = Some d -> d_ty d = TRef r' -> resolves r' -> resolves r.

Definition explicit_values (items : list (nat * option Z)) : list Z :=
  flat_map (fun it => match snd it with Some v => [v] | None => [] end) items.

Definition type_ok (t : ty) : Prop :=
  match t with
  | TCons k r1 ext r2 =>
      let adds := adds_of ext in
      let auto := sp_auto r1 adds r2 in
      let root_e := entries auto 0 (r1 ++ r2) in
      let adds_e := entries auto (length (r1 ++ r2)) adds in
      let mk := match ext with Some _ => [marker_entry] | None => [] end in
      NoDup (map (fun c => c_name (fst c)) (r1 ++ adds ++ r2)) /\
      match k with
      | KSeq => runs_ok (root_e ++ mk) /\ runs_ok adds_e
      | _ => pairwise_disjoint (root_e ++ mk ++ adds_e)
      end
  | TEnum items => NoDup (map fst items) /\ NoDup (explicit_values items)
  | TRef r => resolves r
  | _ => True
  end.

Fixpoint subtypes (t : ty) : list ty :=
  t :: match t with
       | TCons _ r1 ext r2 =>
           let go := fix go (l : list (cinfo * ty)) : list ty :=
             match l with [] => [] | (_, t') :: l' => subtypes t' ++ go l' end in
           go r1 ++ go r2 ++ match ext with Some a => go a | None => [] end
       | TSeqOf e => subtypes e
       | _ => []
       end.
Definition all_types : list ty := flat_map (fun d => subtypes (d_ty d)) (m_defs m).

Definition distinct_spec : Prop := forall t, In t all_types -> type_ok t.

(* ---- well-formedness outside the property's list ---- *)
Inductive untagged_choice : ty -> Prop :=
| UC_choice : forall r1 ext r2, untagged_choice (TCons KChoice r1 ext r2)
| UC_ref : forall r d, lookup m r = Some d -> d_tag d = None -> untagged_choice (d_ty d) ->
    untagged_choice (TRef r).

Definition implicit_ok (tg : option mtag) (t : ty) : Prop :=
  match tg with
  | Some g => tg_mode g = MImplicit -> ~ untagged_choice t
  | None => True
  end.
Definition type_wf (t : ty) : Prop :=
  match t with
  | TCons k r1 ext r2 =>
      Forall (fun c => implicit_ok (c_tag (fst c)) (snd c)) (r1 ++ r2 ++ adds_of ext) /\
      (m_tagging m = TgAutomatic -> existsb has_tag (adds_of ext) = true -> existsb has_tag (r1 ++ r2) = true)
  | _ => True
  end.
Definition tagging_wf : Prop :=
  NoDup (map d_name (m_defs m)) /\
  Forall (fun d => implicit_ok (d_tag d) (d_ty d)) (m_defs m) /\
  forall t, In t all_types -> type_wf t.

(* ================================================================ executable oracle *)
(* the same definitions as a program, used by the tie as the independent
   verdict.  Depth bound for reference chains: a derivation that passes through
   a definition twice can be shortened, so number of definitions + 1 suffices. *)
Definition sp_fuel : nat := S (length (m_defs m)).

Fixpoint sp_ftags (fuel : nat) : option (tclass * Z) -> ty -> list otag :=
  fix inner (tg : option (tclass * Z)) (t : ty) {struct t} : list otag :=
    match tg with
    | Some (c, n) => [OT c n]
    | None =>
        match t with
        | TRef r =>
            match fuel with
            | O => []
            | S f => match lookup m r with
                     | Some d => sp_ftags f (tagpair (d_tag d)) (d_ty d)
                     | None => []
                     end
            end
        | TCons KChoice r1 ext r2 =>
            let auto := sp_auto r1 (adds_of ext) r2 in
            let go := fix go (i : nat) (l : list (cinfo * ty)) : list otag :=
              match l with
              | [] => []
              | (c, t') :: l' => inner (sp_tag auto i c) t' ++ go (S i) l'
              end in
            go 0%nat r1 ++ go (length r1) r2 ++
            match ext with
            | Some a => go (length r1 + length r2)%nat a ++ [OExt]
            | None => []
            end
        | _ => match universal_of t with Some u => [OT CUniversal u] | None => [] end
        end
    end.

Definition disjointb (A B : list otag) : bool :=
  forallb (fun x => negb (existsb (otag_eqb x) B)) A.
Definition entryb := (bool * list otag)%type.
Fixpoint entriesb (auto : bool) (i : nat) (l : list (cinfo * ty)) : list entryb :=
  match l with
  | [] => []
  | (c, t) :: l' => (is_opt c, sp_ftags sp_fuel (sp_tag auto i c) t) :: entriesb auto (S i) l'
  end.
Definition marker_entryb : entryb := (false, [OExt]).

Definition nth_tags (L : list entryb) (i : nat) : list otag :=
  match nth_error L i with Some e => snd e | None => [] end.
Definition pairwiseb (L : list entryb) : bool :=
  let idx := seq 0 (length L) in
  forallb (fun i => forallb (fun j => negb (Nat.ltb i j) || disjointb (nth_tags L i) (nth_tags L j)) idx) idx.
Definition runs_okb (L : list entryb) : bool :=
  let idx := seq 0 (length L) in
  forallb (fun i => forallb (fun j =>
     negb (Nat.ltb i j && forallb fst (firstn (j - i) (skipn i L)))
     || disjointb (nth_tags L i) (nth_tags L j)) idx) idx.

Fixpoint nodupb_nat (l : list nat) : bool :=
  match l with [] => true | x :: l' => negb (existsb (Nat.eqb x) l') && nodupb_nat l' end.
Fixpoint nodupb_Z (l : list Z) : bool :=
  match l with [] => true | x :: l' => negb (existsb (Z.eqb x) l') && nodupb_Z l' end.

Fixpoint resolvesb (fuel : nat) (r : nat) : bool :=
  match lookup m r with
  | None => false
  | Some d => match d_ty d with
              | TRef r' => match fuel with O => false | S f => resolvesb f r' end
              | _ => true
              end
  end.

(* clause-by-clause verdict: which clauses fail *)
Inductive clause := ClTags | ClIdent | ClEnumName | ClEnumValue | ClRef.

Definition type_bad (t : ty) : list clause :=
  match t with
  | TCons k r1 ext r2 =>
      let adds := adds_of ext in
      let auto := sp_auto r1 adds r2 in
      let root_e := entriesb auto 0 (r1 ++ r2) in
      let adds_e := entriesb auto (length (r1 ++ r2)) adds in
      let mk := match ext with Some _ => [marker_entryb] | None => [] end in
      (if nodupb_nat (map (fun c => c_name (fst c)) (r1 ++ adds ++ r2)) then [] else [ClIdent]) ++
      (if match k with
          | KSeq => runs_okb (root_e ++ mk) && runs_okb adds_e
          | _ => pairwiseb (root_e ++ mk ++ adds_e)
          end then [] else [ClTags])
  | TEnum items =>
      (if nodupb_nat (map fst items) then [] else [ClEnumName]) ++
      (if nodupb_Z (explicit_values items) then [] else [ClEnumValue])
  | TRef r => if resolvesb sp_fuel r then [] else [ClRef]
  | _ => []
  end.
Definition spec_bad : list clause := flat_map type_bad all_types.
Definition distinct_specb : bool := match spec_bad with [] => true | _ => false end.

Fixpoint untagged_choiceb (fuel : nat) (t : ty) : bool :=
  match t with
  | TCons KChoice _ _ _ => true
  | TRef r => match lookup m r with
              | Some d => match d_tag d, fuel with
                          | None, S f => untagged_choiceb f (d_ty d)
                          | _, _ => false
                          end
              | None => false
              end
  | _ => false
  end.
Definition implicit_okb (tg : option mtag) (t : ty) : bool :=
  match tg with
  | Some g => match tg_mode g with MImplicit => negb (untagged_choiceb sp_fuel t) | _ => true end
  | None => true
  end.
Definition type_wfb (t : ty) : bool :=
  match t with
  | TCons k r1 ext r2 =>
      forallb (fun c => implicit_okb (c_tag (fst c)) (snd c)) (r1 ++ r2 ++ adds_of ext) &&
      match m_tagging m with
      | TgAutomatic => negb (existsb has_tag (adds_of ext)) || existsb has_tag (r1 ++ r2)
      | _ => true
      end
  | _ => true
  end.
Definition tagging_wfb : bool :=
  nodupb_nat (map d_name (m_defs m)) &&
  forallb (fun d => implicit_okb (d_tag d) (d_ty d)) (m_defs m) &&
  forallb type_wfb all_types.

End Spec.

(* ---- classifiers used by the tie for the recorded findings (decidable
        descriptions of where the code is known to deviate) ---- *)
(* a member position holds an untagged reference whose outermost tag exists /
   an untagged reference that ends in an untagged CHOICE *)
Definition comp_is_tagref (m : module) (c : cinfo * ty) : bool :=
  match c_tag (fst c), snd c with
  | None, TRef r => match sp_ftags m (sp_fuel m) None (TRef r) with [] => false | _ => negb (untagged_choiceb m (sp_fuel m) (TRef r)) end
  | _, _ => false
  end.
Definition comp_is_choiceref (m : module) (c : cinfo * ty) : bool :=
  match c_tag (fst c), snd c with
  | None, TRef r => untagged_choiceb m (sp_fuel m) (TRef r)
  | _, _ => false
  end.
Definition comps_of_ty (t : ty) : list (cinfo * ty) :=
  match t with TCons _ r1 ext r2 => r1 ++ r2 ++ adds_of ext | _ => [] end.
Definition auto_applies (m : module) (t : ty) : bool :=
  match t with TCons _ r1 ext r2 => sp_auto m r1 (adds_of ext) r2 | _ => false end.
(* some constructed type, not automatically tagged, has a member of the first
   kind, and some such type has a member of the second kind *)
Definition has_tagref (m : module) : bool :=
  existsb (fun t => negb (auto_applies m t) && existsb (comp_is_tagref m) (comps_of_ty t)) (all_types m).
Definition has_choiceref (m : module) : bool :=
  existsb (fun t => negb (auto_applies m t) && existsb (comp_is_choiceref m) (comps_of_ty t)) (all_types m).
(* an enumeration mixes items with and without a written value *)
Definition enum_mixed (m : module) : bool :=
  existsb (fun t => match t with
                    | TEnum items => existsb (fun it => match snd it with Some _ => true | None => false end) items
                                     && existsb (fun it => match snd it with Some _ => false | None => true end) items
                    | _ => false
                    end) (all_types m).
