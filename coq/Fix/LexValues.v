(* LexValues.v — byte level of the VALUE sub-language of the printer model: the spelling
   [ppb_value] of every well-formed value is read back by the model lexer ([lex1], [lex])
   as exactly the tokens [pp_value] — for bit strings of any length (hstring with the
   digits 0-9A-F when the number of bits is a multiple of 8, bstring otherwise), character
   strings with doubled quotes, numbers, reals in fixed notation, NULL/TRUE/FALSE and value
   references.  Unbounded: induction over the bit list / the characters / the digits.
   This is the decision `asn1print_value` makes when it picks the digit alphabet of an
   hstring: the lexer (asn1p_l.l) only has the upper-case digits. *)
From Coq Require Import ZArith List Bool Lia Ascii Arith Decimal DecimalZ DecimalPos.
From A1 Require Import Fix.Printer.
Import ListNotations.
Local Open Scope list_scope.

(* ------------------------------------------------------------ strings *)
Lemma sapp_assoc : forall a b c, (a +++ b) +++ c = a +++ (b +++ c).
Proof. induction a as [|x a IH]; intros; cbn; [reflexivity|rewrite IH; reflexivity]. Qed.

Lemma sapp_nil_r : forall a, a +++ SNil = a.
Proof. induction a as [|x a IH]; cbn; [reflexivity|rewrite IH; reflexivity]. Qed.

Lemma slen_sapp : forall a b, slen (a +++ b) = slen a + slen b.
Proof. induction a as [|x a IH]; intros; cbn; [reflexivity|rewrite IH; reflexivity]. Qed.

Definition head_is (f : ascii -> bool) (s : str) : bool :=
  match s with SNil => false | SCons a _ => f a end.

(* ------------------------------------------------------------ hex digits *)
Lemma hexval_hexdigit : forall a b c d, hexval (hexdigit a b c d) = Some (a, b, c, d).
Proof. intros [|] [|] [|] [|]; reflexivity. Qed.

Inductive mult4 : list bool -> Prop :=
  | m4_nil : mult4 []
  | m4_cons : forall a b c d r, mult4 r -> mult4 (a :: b :: c :: d :: r).

Lemma mult4_len : forall n bs, length bs = 4 * n -> mult4 bs.
Proof.
  induction n as [|n IH]; intros bs H.
  - destruct bs; [constructor|cbn in H; lia].
  - destruct bs as [|a [|b [|c [|d r]]]]; cbn in H; try lia.
    constructor. apply IH. cbn in H. lia.
Qed.

Lemma mod8_mult4 : forall bs, Nat.modulo (length bs) 8 = 0 -> mult4 bs.
Proof.
  intros bs H. apply Nat.mod_divides in H; [|lia]. destruct H as [c Hc].
  apply (mult4_len (2 * c)). lia.
Qed.

(* the hexadecimal reading of the printed digits is the bit list *)
Lemma lex_quoted_hex : forall bs rest, mult4 bs ->
  exists ib bb, lex_quoted (hex_of_bits bs +++ quote1 +++ rest) = Some (bs, ib, bb, rest).
Proof.
  intros bs rest H. induction H as [|a b c d r Hr IH].
  - exists true, []. reflexivity.
  - destruct IH as [ib [bb E]].
    cbn [hex_of_bits sapp lex_quoted].
    assert (Hq : Ascii.eqb (hexdigit a b c d) "'"%char = false)
      by (destruct a, b, c, d; reflexivity).
    rewrite Hq, hexval_hexdigit, E. eexists _, _. reflexivity.
Qed.

(* the binary reading of printed 0/1 digits is the bit list *)
Lemma lex_quoted_bin : forall bs rest,
  exists hb, lex_quoted (bin_of_bits bs +++ quote1 +++ rest) = Some (hb, true, bs, rest).
Proof.
  induction bs as [|b bs IH]; intro rest.
  - exists []. reflexivity.
  - destruct (IH rest) as [hb E].
    destruct b; cbn [bin_of_bits sapp lex_quoted]; cbn [Ascii.eqb Bool.eqb andb hexval];
      rewrite E; eexists; reflexivity.
Qed.

Lemma lex1_quote : forall s, lex1 (SCons "'"%char s) = lex_bits s.
Proof. reflexivity. Qed.

Theorem lex1_bits : forall bs rest, bs <> [] ->
  lex1 (ppb_bits bs +++ rest) = Some (TBits bs, rest).
Proof.
  intros bs rest Hne. unfold ppb_bits.
  destruct (Nat.eqb (Nat.modulo (length bs) 8) 0) eqn:E.
  - apply Nat.eqb_eq in E. apply mod8_mult4 in E.
    rewrite !sapp_assoc. unfold quote1 at 1. cbn [sapp]. rewrite lex1_quote.
    destruct (lex_quoted_hex bs (SCons "H"%char rest) E) as [ib [bb Eq]].
    unfold lex_bits. rewrite Eq. cbn [sapp].
    destruct bs; [congruence|reflexivity].
  - rewrite !sapp_assoc. unfold quote1 at 1. cbn [sapp]. rewrite lex1_quote.
    destruct (lex_quoted_bin bs (SCons "B"%char rest)) as [hb Eq].
    unfold lex_bits. rewrite Eq. cbn [sapp].
    destruct bs; [congruence|reflexivity].
Qed.

(* ------------------------------------------------------------ character strings *)
Lemma lex_cstr_esc : forall s rest, head_is (fun a => Ascii.eqb a dquote) rest = false ->
  lex_cstr (esc_quotes s +++ SCons dquote rest) = Some (s, rest).
Proof.
  induction s as [|a s IH]; intros rest Hr.
  - cbn [esc_quotes sapp lex_cstr]. rewrite Ascii.eqb_refl.
    destruct rest as [|b r]; [reflexivity|]. cbn [head_is] in Hr. rewrite Hr. reflexivity.
  - cbn [esc_quotes]. destruct (Ascii.eqb a dquote) eqn:E.
    + apply Ascii.eqb_eq in E. subst a.
      cbn [sapp lex_cstr]. rewrite !Ascii.eqb_refl. rewrite (IH rest Hr). reflexivity.
    + cbn [sapp lex_cstr]. rewrite E. rewrite (IH rest Hr). reflexivity.
Qed.

Lemma lex1_dquote : forall s,
  lex1 (SCons dquote s) = match lex_cstr s with Some (w, r) => Some (TCstr w, r) | None => None end.
Proof. reflexivity. Qed.

Theorem lex1_cstr : forall s rest, head_is (fun a => Ascii.eqb a dquote) rest = false ->
  lex1 (ppb_cstr s +++ rest) = Some (TCstr s, rest).
Proof.
  intros s rest Hr. unfold ppb_cstr. cbn [sapp]. rewrite lex1_dquote.
  rewrite sapp_assoc. cbn [sapp]. rewrite (lex_cstr_esc s rest Hr). reflexivity.
Qed.

(* ------------------------------------------------------------ character classes *)
Lemma nat_of_ascii_inj : forall a b, nat_of_ascii a = nat_of_ascii b -> a = b.
Proof. intros a b H. rewrite <- (ascii_nat_embedding a), <- (ascii_nat_embedding b), H. reflexivity. Qed.

Lemma digit_not_letter : forall a, is_digit a = true -> is_lower a = false /\ is_upper a = false.
Proof.
  intros a H. unfold is_digit, is_lower, is_upper in *.
  apply andb_prop in H. destruct H as [H1 H2]. apply Nat.leb_le in H1. apply Nat.leb_le in H2.
  split; apply andb_false_iff; left; apply Nat.leb_gt; lia.
Qed.

Lemma lower_not_upper : forall a c, is_lower a = true -> is_upper c = true -> Ascii.eqb c a = false.
Proof.
  intros a c Ha Hc. destruct (Ascii.eqb c a) eqn:E; [|reflexivity].
  apply Ascii.eqb_eq in E. subst c. unfold is_lower, is_upper in *.
  apply andb_prop in Ha. apply andb_prop in Hc. destruct Ha as [A1 A2]. destruct Hc as [C1 C2].
  apply Nat.leb_le in A1. apply Nat.leb_le in C2. lia.
Qed.

(* ------------------------------------------------------------ words *)
Definition wordch (a : ascii) : bool := is_alnum a || is_hyphen a.

Fixpoint all_word (s : str) : bool :=
  match s with SNil => true | SCons a s' => wordch a && all_word s' end.

Lemma take_word_app : forall w rest, all_word w = true -> head_is wordch rest = false ->
  take_word (w +++ rest) = (w, rest).
Proof.
  induction w as [|a w IH]; intros rest Hw Hr.
  - cbn [sapp]. destruct rest as [|b r]; [reflexivity|].
    cbn in Hr. unfold wordch in Hr. cbn [take_word]. rewrite Hr. reflexivity.
  - cbn [all_word] in Hw. apply andb_prop in Hw. destruct Hw as [Ha Hw].
    cbn [sapp take_word]. unfold wordch in Ha. rewrite Ha. rewrite (IH rest Hw Hr). reflexivity.
Qed.

Lemma wf_tail_all_word : forall s b, wf_tail b s = true -> all_word s = true.
Proof.
  induction s as [|a s IH]; intros b H; [reflexivity|].
  cbn [wf_tail] in H. cbn [all_word]. unfold wordch.
  destruct (is_alnum a) eqn:Ea.
  - cbn. apply (IH false H).
  - destruct (is_hyphen a) eqn:Eh; [|discriminate].
    apply andb_prop in H. destruct H as [_ H]. cbn. apply (IH true H).
Qed.

Definition upper_keys (tbl : list (str * kw)) : Prop :=
  Forall (fun p => match fst p with SCons c _ => is_upper c = true | SNil => True end) tbl.

Lemma lookup_lower : forall tbl a s, upper_keys tbl -> is_lower a = true ->
  lookup_kw tbl (SCons a s) = None.
Proof.
  induction tbl as [|[n k] tbl IH]; intros a s Hu Ha; [reflexivity|].
  inversion Hu as [|? ? Hn Hu']; subst. cbn [lookup_kw].
  destruct n as [|c n]; [cbn [str_eqb]; apply IH; assumption|].
  cbn [fst] in Hn. cbn [str_eqb]. rewrite (lower_not_upper a c Ha Hn). cbn [andb]. apply IH; assumption.
Qed.

Lemma kw_table_upper : upper_keys kw_table.
Proof. unfold upper_keys, kw_table. repeat (constructor; [reflexivity|]). constructor. Qed.

Lemma lex1_word : forall a w rest,
  (is_lower a || is_upper a) = true -> all_word w = true -> head_is wordch rest = false ->
  lex1 (SCons a w +++ rest) = Some (word_token (SCons a w), rest).
Proof.
  intros a w rest Ha Hw Hr.
  assert (Hwa : wordch a = true).
  { unfold wordch, is_alnum. apply orb_prop in Ha. destruct Ha as [H|H]; rewrite H; cbn; rewrite ?orb_true_r; reflexivity. }
  assert (Ht : take_word (SCons a w +++ rest) = (SCons a w, rest)).
  { apply take_word_app; [cbn [all_word]; rewrite Hwa, Hw; reflexivity|exact Hr]. }
  cbn [sapp] in *. unfold lex1. rewrite Ha. rewrite Ht. reflexivity.
Qed.

Theorem lex1_ident : forall id rest, wf_ident id = true -> head_is wordch rest = false ->
  lex1 (id +++ rest) = Some (TLo id, rest).
Proof.
  intros [|a w] rest Hwf Hr; [discriminate|].
  cbn [wf_ident] in Hwf. apply andb_prop in Hwf. destruct Hwf as [Ha Hw].
  rewrite lex1_word; auto.
  - unfold word_token. rewrite (lookup_lower kw_table a w kw_table_upper Ha).
    assert (Hu : is_upper a = false).
    { unfold is_lower, is_upper in *. apply andb_prop in Ha. destruct Ha as [A1 A2].
      apply Nat.leb_le in A1. apply andb_false_iff. right. apply Nat.leb_gt. lia. }
    rewrite Hu. reflexivity.
  - rewrite Ha. reflexivity.
  - apply (wf_tail_all_word w false Hw).
Qed.

Theorem lex1_typeref : forall nm rest, wf_typeref nm = true -> head_is wordch rest = false ->
  lex1 (nm +++ rest) = Some (TUp nm, rest).
Proof.
  intros [|a w] rest Hwf Hr; [discriminate|].
  cbn [wf_typeref] in Hwf. apply andb_prop in Hwf. destruct Hwf as [Hwf Hk].
  apply andb_prop in Hwf. destruct Hwf as [Ha Hw].
  rewrite lex1_word; auto.
  - unfold word_token. destruct (lookup_kw kw_table (SCons a w)); [discriminate|]. rewrite Ha. reflexivity.
  - rewrite Ha. apply orb_true_r.
  - apply (wf_tail_all_word w false Hw).
Qed.

(* ------------------------------------------------------------ digits *)
Lemma take_digits_app : forall d rest, all_digits d = true -> head_is is_digit rest = false ->
  take_digits (d +++ rest) = (d, rest).
Proof.
  induction d as [|a d IH]; intros rest Hd Hr.
  - cbn [sapp]. destruct rest as [|b r]; [reflexivity|]. cbn in Hr. cbn [take_digits]. rewrite Hr. reflexivity.
  - cbn [all_digits] in Hd. apply andb_prop in Hd. destruct Hd as [Ha Hd].
    cbn [sapp take_digits]. rewrite Ha. rewrite (IH rest Hd Hr). reflexivity.
Qed.

(* what may follow a number: not a digit, and not `.` digit (that would make it a real) *)
Definition num_follow (rest : str) : bool :=
  negb (head_is is_digit rest) &&
  match rest with
  | SCons "."%char (SCons b _) => negb (is_digit b)
  | _ => true
  end.

Lemma lex_number_int : forall neg d rest,
  d <> SNil -> all_digits d = true -> num_follow rest = true ->
  lex_number neg (d +++ rest) = Some (TNum (let z := digits_val 0 d in if neg then Z.opp z else z), rest).
Proof.
  intros neg d rest Hne Hd Hf. unfold num_follow in Hf. apply andb_prop in Hf. destruct Hf as [H1 H2].
  apply negb_true_iff in H1.
  unfold lex_number. rewrite (take_digits_app d rest Hd H1).
  destruct d as [|a d']; [congruence|].
  destruct rest as [|c r]; [reflexivity|].
  destruct (Ascii.eqb c "."%char) eqn:Ec.
  - apply Ascii.eqb_eq in Ec. subst c. destruct r as [|b r']; [reflexivity|].
    apply negb_true_iff in H2. rewrite H2. reflexivity.
  - destruct c as [[|] [|] [|] [|] [|] [|] [|] [|]]; try reflexivity. discriminate.
Qed.

Theorem lex1_real : forall neg ip fp rest,
  nonempty ip = true -> all_digits ip = true -> nonempty fp = true -> all_digits fp = true ->
  head_is is_digit rest = false ->
  lex1 (ppb_real neg ip fp +++ rest) = Some (TReal neg ip fp, rest).
Proof.
  intros neg ip fp rest Hi Hid Hf Hfd Hr.
  destruct ip as [|a ip']; [discriminate|]. destruct fp as [|b fp']; [discriminate|].
  assert (Ha : is_digit a = true) by (cbn [all_digits] in Hid; apply andb_prop in Hid; tauto).
  assert (Hb : is_digit b = true) by (cbn [all_digits] in Hfd; apply andb_prop in Hfd; tauto).
  assert (Hnum : lex_number neg (SCons a ip' +++ SCons "."%char SNil +++ SCons b fp' +++ rest)
                 = Some (TReal neg (SCons a ip') (SCons b fp'), rest)).
  { unfold lex_number.
    rewrite (take_digits_app (SCons a ip') _ Hid) by reflexivity.
    cbn [sapp]. rewrite Hb.
    change (SCons b (fp' +++ rest)) with (SCons b fp' +++ rest).
    rewrite (take_digits_app (SCons b fp') rest Hfd Hr). reflexivity. }
  unfold ppb_real. destruct neg.
  - rewrite !sapp_assoc. cbn [sapp] in *. unfold lex1. cbn [orb is_lower is_upper is_digit].
    change (is_lower "-"%char || is_upper "-"%char) with false. cbn iota.
    change (is_digit "-"%char) with false. cbn iota. rewrite Ha. exact Hnum.
  - rewrite !sapp_assoc. cbn [sapp] in *.
    destruct (digit_not_letter a Ha) as [L U]. unfold lex1. rewrite L, U, Ha. cbn [orb]. exact Hnum.
Qed.

(* ---- decimal numerals (asn1p_itoa) ---- *)
Lemma dec_uint_digits : forall u, all_digits (dec_uint u) = true.
Proof. induction u; cbn [dec_uint sapp all_digits]; try reflexivity; rewrite IHu; reflexivity. Qed.

Lemma dv_acc : forall u acc, digits_val (Zpos acc) (dec_uint u) = Zpos (Pos.of_uint_acc u acc).
Proof.
  induction u; intro acc; cbn [dec_uint sapp digits_val Pos.of_uint_acc]; try reflexivity.
  all: rewrite <- IHu; f_equal;
    match goal with |- (_ + ?x = _)%Z => let d := fresh in set (d := x); vm_compute in d; subst d end; lia.
Qed.

Lemma dv0 : forall u, digits_val 0 (dec_uint u) = Z.of_N (Pos.of_uint u).
Proof.
  induction u; cbn [dec_uint sapp digits_val Pos.of_uint]; try reflexivity.
  1: exact IHu.
  all: cbn [Z.of_N]; rewrite <- dv_acc; f_equal.
Qed.

Lemma dec_uint_nonempty : forall u, u <> Nil -> dec_uint u <> SNil.
Proof. destruct u; intro H; try congruence; cbn; discriminate. Qed.

Lemma to_int_cases : forall z,
  match Z.to_int z with
  | Pos u => u <> Nil /\ Z.of_N (Pos.of_uint u) = z
  | Neg u => u <> Nil /\ (- Z.of_N (Pos.of_uint u))%Z = z /\ (z < 0)%Z
  end.
Proof.
  intros [|p|p]; cbn.
  - split; [discriminate|reflexivity].
  - split; [apply Unsigned.to_uint_nonnil|]. rewrite DecimalPos.Unsigned.of_to. reflexivity.
  - split; [apply Unsigned.to_uint_nonnil|]. rewrite DecimalPos.Unsigned.of_to. split; [reflexivity|lia].
Qed.

Lemma first_digit : forall d, d <> SNil -> all_digits d = true -> head_is is_digit d = true.
Proof. intros [|a d] H1 H2; [congruence|]. cbn in *. apply andb_prop in H2. tauto. Qed.

Theorem lex1_num : forall z rest, num_follow rest = true ->
  lex1 (dec z +++ rest) = Some (TNum z, rest).
Proof.
  intros z rest Hf. unfold dec. pose proof (to_int_cases z) as Hc.
  destruct (Z.to_int z) as [u|u].
  - destruct Hc as [Hn Hv].
    assert (E : (match u with Nil => SCons "0"%char SNil | _ => dec_uint u end) = dec_uint u)
      by (destruct u; try reflexivity; congruence).
    replace (match u with Nil => _ | _ => dec_uint u end) with (dec_uint u)
      by (destruct u; try reflexivity; congruence).
    pose proof (dec_uint_nonempty u Hn) as Hne. pose proof (dec_uint_digits u) as Hd.
    pose proof (first_digit _ Hne Hd) as Hh.
    pose proof (lex_number_int false (dec_uint u) rest Hne Hd Hf) as Hl.
    destruct (dec_uint u) as [|a d'] eqn:Ed; [congruence|].
    cbn in Hh. destruct (digit_not_letter a Hh) as [L U].
    cbn [sapp] in *. unfold lex1. rewrite L, U, Hh. cbn [orb].
    rewrite Hl. cbn zeta. rewrite <- Ed, dv0, Hv. reflexivity.
  - destruct Hc as [Hn [Hv Hneg]].
    pose proof (dec_uint_nonempty u Hn) as Hne. pose proof (dec_uint_digits u) as Hd.
    pose proof (first_digit _ Hne Hd) as Hh.
    pose proof (lex_number_int true (dec_uint u) rest Hne Hd Hf) as Hl.
    rewrite sapp_assoc. cbn [sapp].
    destruct (dec_uint u) as [|a d'] eqn:Ed; [congruence|].
    cbn in Hh. cbn [sapp] in *. unfold lex1.
    change (is_lower "-"%char || is_upper "-"%char) with false. cbn iota.
    change (is_digit "-"%char) with false. cbn iota. rewrite Hh.
    rewrite Hl. cbn zeta. rewrite <- Ed, dv0, Hv. reflexivity.
Qed.

(* ------------------------------------------------------------ values *)
(* what the printer puts after a value: blank, newline, `)`, `,`, `|`, `..`, ... — anything that
   cannot extend the last token of the value *)
Definition vfollow (rest : str) : bool :=
  negb (head_is wordch rest) && negb (head_is (fun a => Ascii.eqb a dquote) rest) && num_follow rest.

Lemma wordch_digit : forall a, is_digit a = true -> wordch a = true.
Proof. intros a H. unfold wordch, is_alnum. rewrite H. rewrite orb_true_r. reflexivity. Qed.

Lemma vfollow_parts : forall rest, vfollow rest = true ->
  head_is wordch rest = false /\ head_is (fun a => Ascii.eqb a dquote) rest = false /\
  num_follow rest = true /\ head_is is_digit rest = false.
Proof.
  intros rest H. unfold vfollow in H. apply andb_prop in H. destruct H as [H H3].
  apply andb_prop in H. destruct H as [H1 H2].
  apply negb_true_iff in H1. apply negb_true_iff in H2.
  repeat split; auto.
  destruct rest as [|a r]; [reflexivity|]. cbn in *.
  destruct (is_digit a) eqn:E; [|reflexivity]. rewrite (wordch_digit a E) in H1. discriminate.
Qed.

(* reading tokens one after the other, no white space in between *)
Inductive lexes : str -> list token -> str -> Prop :=
  | lexes_nil : forall s, lexes s [] s
  | lexes_cons : forall s t s' ts r, lex1 s = Some (t, s') -> lexes s' ts r -> lexes s (t :: ts) r.

Lemma lexes_one : forall s t r, lex1 s = Some (t, r) -> lexes s [t] r.
Proof. intros. econstructor; [eassumption|constructor]. Qed.

Lemma lex1_kw : forall w k rest, lookup_kw kw_table w = Some k ->
  match w with SCons a w' => (is_lower a || is_upper a) = true /\ all_word w' = true | SNil => False end ->
  head_is wordch rest = false ->
  lex1 (w +++ rest) = Some (TKw k, rest).
Proof.
  intros [|a w'] k rest Hk Hw Hr; [contradiction|]. destruct Hw as [Ha Hw].
  rewrite lex1_word; auto. unfold word_token. rewrite Hk. reflexivity.
Qed.

Lemma lex1_dot_lower : forall a s, is_lower a = true -> lex1 (SCons "."%char (SCons a s)) = Some (TSym Dot, SCons a s).
Proof.
  intros a s Ha.
  assert (Hn : Ascii.eqb a "."%char = false).
  { destruct (Ascii.eqb a "."%char) eqn:E; [|reflexivity]. apply Ascii.eqb_eq in E. subst a. discriminate. }
  destruct a as [[|] [|] [|] [|] [|] [|] [|] [|]]; try reflexivity; discriminate.
Qed.

Theorem lexes_value : forall v rest, wf_value v = true -> vfollow rest = true ->
  lexes (ppb_value v +++ rest) (pp_value v) rest.
Proof.
  intros v rest Hwf Hf. destruct (vfollow_parts rest Hf) as [Hw [Hq [Hn Hd]]].
  destruct v as [z| |[|]|bs|s|n ip fp|[id|m id]]; cbn [ppb_value pp_value pp_vref ppb_vref wf_value] in *.
  - apply lexes_one. apply lex1_num; assumption.
  - apply lexes_one. apply (lex1_kw "NULL"%str KNULL); [reflexivity|split; reflexivity|assumption].
  - apply lexes_one. apply (lex1_kw "TRUE"%str KTRUE); [reflexivity|split; reflexivity|assumption].
  - apply lexes_one. apply (lex1_kw "FALSE"%str KFALSE); [reflexivity|split; reflexivity|assumption].
  - apply lexes_one. apply lex1_bits. destruct bs; [discriminate|congruence].
  - apply lexes_one. apply lex1_cstr; assumption.
  - apply andb_prop in Hwf. destruct Hwf as [Hwf F2]. apply andb_prop in Hwf. destruct Hwf as [Hwf F1].
    apply andb_prop in Hwf. destruct Hwf as [I1 I2].
    apply lexes_one. apply lex1_real; auto.
    destruct fp; [discriminate|reflexivity].
  - apply lexes_one. apply lex1_ident; assumption.
  - apply andb_prop in Hwf. destruct Hwf as [Hm Hid].
    destruct id as [|a id']; [discriminate|].
    assert (Ha : is_lower a = true) by (cbn [wf_ident] in Hid; apply andb_prop in Hid; tauto).
    rewrite !sapp_assoc. cbn [sapp].
    econstructor; [apply lex1_typeref; [exact Hm|reflexivity]|].
    econstructor; [apply lex1_dot_lower; exact Ha|].
    apply lexes_one. change (SCons a (id' +++ rest)) with (SCons a id' +++ rest).
    apply lex1_ident; assumption.
Qed.

(* ------------------------------------------------------------ from lex1 to lex *)
Lemma take_word_len : forall s w r, take_word s = (w, r) -> slen s = slen w + slen r.
Proof.
  induction s as [|a s IH]; intros w r H; cbn [take_word] in H.
  - inversion H; reflexivity.
  - destruct (is_alnum a || is_hyphen a).
    + destruct (take_word s) as [w' r'] eqn:E. inversion H; subst. cbn [slen]. rewrite (IH w' r eq_refl). reflexivity.
    + inversion H; subst. reflexivity.
Qed.

Lemma take_digits_len : forall s w r, take_digits s = (w, r) -> slen s = slen w + slen r.
Proof.
  induction s as [|a s IH]; intros w r H; cbn [take_digits] in H.
  - inversion H; reflexivity.
  - destruct (is_digit a).
    + destruct (take_digits s) as [w' r'] eqn:E. inversion H; subst. cbn [slen]. rewrite (IH w' r eq_refl). reflexivity.
    + inversion H; subst. reflexivity.
Qed.

Lemma lex_quoted_len : forall s hb ib bb r, lex_quoted s = Some (hb, ib, bb, r) -> slen r < slen s.
Proof.
  induction s as [|c s IH]; intros hb ib bb r H; cbn [lex_quoted] in H; [discriminate|].
  destruct (Ascii.eqb c "'"%char).
  - inversion H; subst. cbn [slen]. lia.
  - destruct (hexval c) as [[[[b3 b2] b1] b0]|]; [|discriminate].
    destruct (lex_quoted s) as [[[[hb' ib'] bb'] r']|] eqn:E; [|discriminate].
    inversion H; subst. specialize (IH _ _ _ _ eq_refl). cbn [slen]. lia.
Qed.

Lemma lex_cstr_len : forall n s w r, slen s <= n -> lex_cstr s = Some (w, r) -> slen r < slen s.
Proof.
  induction n as [|n IH]; intros s w r Hn H.
  - destruct s; [discriminate|cbn in Hn; lia].
  - destruct s as [|a s']; [discriminate|]. cbn [lex_cstr] in H. cbn [slen] in *.
    destruct (Ascii.eqb a dquote).
    + destruct s' as [|b s'']; [inversion H; subst; cbn; lia|].
      destruct (Ascii.eqb b dquote).
      * destruct (lex_cstr s'') as [[w' r']|] eqn:E; [|discriminate]. inversion H; subst.
        cbn [slen] in *. assert (slen r < slen s'') by (apply (IH s'' w' r); [lia|exact E]). lia.
      * inversion H; subst. cbn [slen]. lia.
    + destruct (lex_cstr s') as [[w' r']|] eqn:E; [|discriminate]. inversion H; subst.
      assert (slen r < slen s') by (apply (IH s' w' r); [lia|exact E]). lia.
Qed.

Lemma lex_number_len : forall neg s t r, lex_number neg s = Some (t, r) -> slen r < slen s.
Proof.
  intros neg s t r H. unfold lex_number in H.
  destruct (take_digits s) as [d r0] eqn:E. pose proof (take_digits_len s d r0 E) as L.
  destruct d as [|a d']; [discriminate|]. cbn [slen] in L.
  assert (Hdef : forall z, Some (TNum z, r0) = Some (t, r) -> slen r < slen s)
    by (intros z Hz; inversion Hz; subst; lia).
  destruct r0 as [|c r1]; [eapply Hdef; exact H|].
  destruct (Ascii.eqb c "."%char) eqn:Ec.
  - apply Ascii.eqb_eq in Ec. subst c. destruct r1 as [|b r2]; [eapply Hdef; exact H|].
    destruct (is_digit b).
    + destruct (take_digits (SCons b r2)) as [f r3] eqn:E2.
      pose proof (take_digits_len _ _ _ E2) as L2. inversion H; subst. cbn [slen] in *. lia.
    + eapply Hdef; exact H.
  - destruct c as [[|] [|] [|] [|] [|] [|] [|] [|]]; try (eapply Hdef; exact H). discriminate.
Qed.

Lemma lex_bits_len : forall s t r, lex_bits s = Some (t, r) -> slen r < slen s.
Proof.
  intros s t r H. unfold lex_bits in H.
  destruct (lex_quoted s) as [[[[hb ib] bb] r0]|] eqn:E; [|discriminate].
  pose proof (lex_quoted_len _ _ _ _ _ E) as L.
  destruct r0 as [|c r1]; [discriminate|].
  destruct c as [[|] [|] [|] [|] [|] [|] [|] [|]]; try discriminate.
  - destruct bb; [discriminate|]. destruct ib; [|discriminate]. inversion H; subst. cbn [slen] in *. lia.
  - destruct hb; [discriminate|]. inversion H; subst. cbn [slen] in *. lia.
Qed.

Ltac fin H := (inversion H; subst; cbn [slen] in *; lia).

Lemma lex1_len : forall s t r, lex1 s = Some (t, r) -> slen r < slen s.
Proof.
  intros s t r H. destruct s as [|a s']; [discriminate|]. unfold lex1 in H.
  destruct (is_lower a || is_upper a) eqn:El.
  - destruct (take_word (SCons a s')) as [w r0] eqn:E. pose proof (take_word_len _ _ _ E) as L.
    inversion H; subst. cbn [take_word] in E.
    destruct (is_alnum a || is_hyphen a) eqn:Ew.
    + destruct (take_word s') as [w' r'] eqn:E'. inversion E; subst. cbn [slen] in *. lia.
    + (* a letter is a word character *)
      unfold is_alnum in Ew. rewrite El in Ew. discriminate.
  - destruct (is_digit a).
    + apply (lex_number_len false _ _ _ H).
    + clear El.
      destruct a as [[|] [|] [|] [|] [|] [|] [|] [|]]; cbn in H; try discriminate; try (fin H);
        try (apply lex_bits_len in H; cbn [slen]; lia);
        try (destruct (lex_cstr s') as [[w r0]|] eqn:E; [|discriminate]; inversion H; subst;
             pose proof (lex_cstr_len (slen s') s' w r (le_n _) E); cbn [slen]; lia);
        try (destruct s' as [|b s'']; [try discriminate; try (fin H)|]; lazy beta iota in H;
             first [ destruct (is_digit b); [apply lex_number_len in H; cbn [slen] in *; lia|discriminate]
                   | destruct b as [[|] [|] [|] [|] [|] [|] [|] [|]]; cbn in H; try discriminate; try (fin H);
                     (destruct s'' as [|c s3]; [try discriminate; try (fin H)|
                      destruct c as [[|] [|] [|] [|] [|] [|] [|] [|]]; cbn in H; try discriminate; fin H]) ]).
Qed.

Lemma lex1_not_ws : forall a s t r, lex1 (SCons a s) = Some (t, r) -> is_ws a = false.
Proof.
  intros a s t r H. destruct (is_ws a) eqn:E; [|reflexivity]. exfalso.
  destruct a as [[|] [|] [|] [|] [|] [|] [|] [|]]; try discriminate E; cbn in H; discriminate.
Qed.

(* more fuel than characters changes nothing *)
Lemma lex_go_fuel : forall n s f, slen s <= n -> n <= f -> lex_go f s = lex_go n s.
Proof.
  induction n as [|n IH]; intros s f Hs Hf.
  - destruct s; [|cbn in Hs; lia]. destruct f; reflexivity.
  - destruct f as [|f]; [lia|]. destruct s as [|a s']; [reflexivity|].
    cbn [lex_go]. cbn [slen] in Hs.
    destruct (is_ws a).
    + apply IH; lia.
    + destruct (lex1 (SCons a s')) as [[t r]|] eqn:E; [|reflexivity].
      pose proof (lex1_len _ _ _ E) as L. cbn [slen] in L.
      rewrite (IH r f) by lia. reflexivity.
Qed.

Lemma lex_lexes : forall s ts r, lexes s ts r ->
  lex s = match lex r with Some l => Some (ts ++ l) | None => None end.
Proof.
  intros s ts r H. induction H as [s|s t s' ts r H1 H IH].
  - destruct (lex s); reflexivity.
  - unfold lex in *. destruct s as [|a s0]; [discriminate|].
    cbn [slen lex_go]. rewrite (lex1_not_ws a s0 t s' H1). rewrite H1.
    pose proof (lex1_len _ _ _ H1) as L. cbn [slen] in L.
    rewrite (lex_go_fuel (slen s') s' (slen s0)) by lia.
    rewrite IH. destruct (lex_go (slen r) r); reflexivity.
Qed.

(* the byte form of a value, followed by anything the printer puts after a value, is read back as
   the value's tokens followed by the tokens of what follows *)
Theorem lex_value : forall v rest, wf_value v = true -> vfollow rest = true ->
  lex (ppb_value v +++ rest) = match lex rest with Some l => Some (pp_value v ++ l) | None => None end.
Proof. intros v rest Hwf Hf. apply lex_lexes. apply lexes_value; assumption. Qed.

(* the lexer has no lower-case hexadecimal digits: the spelling with a..f is not a lexeme *)
Theorem lex1_lowercase_hex_rejected : forall rest,
  lex1 (SCons "'"%char (SCons "f"%char (SCons "f"%char (SCons "'"%char (SCons "H"%char rest))))) = None.
Proof. reflexivity. Qed.

(* non-vacuity *)
Local Open Scope str_scope.
Example lex_value_ex :
  lex (ppb_value (VBits [true;true;false;false; true;false;true;false; true;true;true;true; true;true;true;false]) +++ ")")
  = Some [TBits [true;true;false;false; true;false;true;false; true;true;true;true; true;true;true;false]; TSym RParen]
  /\ ppb_value (VBits [true;true;false;false; true;false;true;false; true;true;true;true; true;true;true;false]) = "'CAFE'H"
  /\ ppb_value (VBits [true;false;true]) = "'101'B"
  /\ ppb_value (VStr "a""b") = """a""""b"""
  /\ vfollow ")" = true /\ vfollow "..5" = true /\ vfollow " " = true /\ vfollow ".5" = false.
Proof. vm_compute. repeat split. Qed.
