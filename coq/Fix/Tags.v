(* Tags.v — executable model of what asn1c's fixer (libasn1fix) does to decide
   whether a module is accepted, for the type algebra of property C11.
   No proofs here (extraction reads this file).

   Code modelled (/repo/libasn1fix):
     asn1fix.c            asn1f_process / phase_1 / phase_1_1 / asn1f_fix_constructed /
                          asn1f_check_duplicate  (order of the passes, error accumulation)
     asn1fix_constr.c     asn1f_fix_constr_ext, asn1f_fix_constr_tag, _asn1f_fix_type_tag,
                          _asn1f_check_if_tag_must_be_explicit, asn1f_fix_constr_autotag,
                          asn1f_check_constr_tags_distinct, _asn1f_compare_tags
     asn1fix_tags.c       asn1f_fetch_tags_impl with AFT_FETCH_OUTMOST|AFT_IMAGINARY_ANY
     asn1fix_enum.c       asn1f_fix_enum
     asn1fix_misc.c       asn1f_check_unique_expr(_child), asn1f_recurse_expr
     asn1fix_dereft.c / asn1fix_retrieve.c   asn1f_fix_dereference_types,
                          asn1f_find_terminal_type, asn1f_lookup_symbol (single module)
   and, for the "accepted modules yield code" half of the tie, the one place of
   libasn1compiler/asn1c_C.c (_fill_tag2el_map/_add_tag2el_member) that recurses
   without a guard.

   Every asn1p_expr_t the C marks with TM_RECURSION is identified here by its
   path (definition name, then member positions in the member list as it is
   after asn1f_fix_constr_ext). *)
From Coq Require Import ZArith List Bool Arith.
Import ListNotations.
Local Open Scope Z_scope.

(* ---------------------------------------------------------------- syntax *)
Inductive tclass := CUniversal | CApplication | CContext | CPrivate.
Inductive tmode := MDefault | MImplicit | MExplicit.
Inductive tagging := TgExplicit | TgImplicit | TgAutomatic.
Inductive flag := FMandatory | FOptional | FDefault.
Inductive kind := KSeq | KSet | KChoice.
Inductive prim := PBool | PInteger | PNull | POctets.

Record mtag := { tg_class : tclass; tg_num : Z; tg_mode : tmode }.
Record cinfo := { c_name : nat; c_tag : option mtag; c_flag : flag }.

(* SEQUENCE/SET/CHOICE { r1 [, ..., adds [, ..., r2]] }.  With [ext = None] the
   type has no extension marker and [r2] simply continues the root. *)
Inductive ty :=
| TPrim (p : prim)
| TEnum (items : list (nat * option Z))
| TCons (k : kind) (r1 : list (cinfo * ty)) (ext : option (list (cinfo * ty))) (r2 : list (cinfo * ty))
| TSeqOf (e : ty)
| TRef (n : nat).

Record def := { d_name : nat; d_tag : option mtag; d_ty : ty }.
Record module := { m_tagging : tagging; m_defs : list def }.

Definition tclass_eqb (a b : tclass) : bool :=
  match a, b with
  | CUniversal, CUniversal | CApplication, CApplication | CContext, CContext | CPrivate, CPrivate => true
  | _, _ => false
  end.

Definition lookup (m : module) (n : nat) : option def :=
  find (fun d => Nat.eqb (d_name d) n) (m_defs m).

Definition root_of (r1 : list (cinfo * ty)) (r2 : list (cinfo * ty)) := r1 ++ r2.
Definition adds_of (ext : option (list (cinfo * ty))) := match ext with Some a => a | None => [] end.

(* ---------------------------------------------------------------- nodes *)
(* an asn1p_expr_t as the tag code sees it: the "..." marker, or a type with
   the (class, number) of its tag if it has one after tagging *)
Definition path := list nat.
Inductive nkind := NExt | NTy (tg : option (tclass * Z)) (t : ty).
Record node := { n_path : path; n_opt : bool; n_kind : nkind }.

Fixpoint path_eqb (a b : path) : bool :=
  match a, b with
  | [], [] => true
  | x :: a', y :: b' => Nat.eqb x y && path_eqb a' b'
  | _, _ => false
  end.
Definition marked (p : path) (marks : list path) : bool := existsb (path_eqb p) marks.

Definition is_opt (c : cinfo) : bool :=
  match c_flag c with FMandatory => false | _ => true end.
Definition has_tag (c : cinfo * ty) : bool :=
  match c_tag (fst c) with Some _ => true | None => false end.
Definition tagpair (t : option mtag) : option (tclass * Z) :=
  option_map (fun t => (tg_class t, tg_num t)) t.

(* asn1f_fix_constr_tag: root_tagged / ext_tagged; auto_tags_OK *)
Definition auto_ok (tg : tagging) (root adds : list (cinfo * ty)) : bool :=
  match tg with
  | TgAutomatic => negb (existsb has_tag root) && negb (existsb has_tag adds)
  | _ => false
  end.
(* X.690 28.4 complaint of asn1f_fix_constr_tag *)
Definition exttag_error (tg : tagging) (root adds : list (cinfo * ty)) : bool :=
  match tg with
  | TgAutomatic => negb (existsb has_tag root) && existsb has_tag adds
  | _ => false
  end.

(* asn1f_fix_constr_autotag: context tags 0,1,2.. in member-list order, the
   marker is skipped without consuming a number *)
Definition comp_tag (auto : bool) (num : nat) (c : cinfo) : option (tclass * Z) :=
  if auto then Some (CContext, Z.of_nat num) else tagpair (c_tag c).

Fixpoint mk_nodes (auto : bool) (p : path) (pos num : nat) (l : list (cinfo * ty)) : list node :=
  match l with
  | [] => []
  | (c, t) :: l' =>
      {| n_path := p ++ [pos]; n_opt := is_opt c; n_kind := NTy (comp_tag auto num c) t |}
      :: mk_nodes auto p (S pos) (S num) l'
  end.

(* the member list after asn1f_fix_constr_ext (root1, root2, "...", additions)
   and after asn1f_fix_constr_autotag *)
Definition members (tg : tagging) (p : path) (r1 : list (cinfo * ty)) (ext : option (list (cinfo * ty)))
           (r2 : list (cinfo * ty)) : list node :=
  let root := root_of r1 r2 in
  let auto := auto_ok tg root (adds_of ext) in
  mk_nodes auto p 0 0 root ++
  match ext with
  | None => []
  | Some a => {| n_path := p ++ [length root]; n_opt := false; n_kind := NExt |}
              :: mk_nodes auto p (S (length root)) (length root) a
  end.

Definition def_node (d : def) : node :=
  {| n_path := [d_name d]; n_opt := false; n_kind := NTy (tagpair (d_tag d)) (d_ty d) |}.

(* ---------------------------------------------------------------- outermost tag *)
(* what asn1f_fetch_outmost_tag can return: a tag, or the pseudo tag of "..." *)
Inductive otag := OT (c : tclass) (n : Z) | OExt.
Definition otag_eqb (a b : otag) : bool :=
  match a, b with
  | OT c1 n1, OT c2 n2 => tclass_eqb c1 c2 && Z.eqb n1 n2
  | OExt, OExt => true
  | _, _ => false
  end.

Definition universal_of (t : ty) : option Z :=
  match t with
  | TPrim PBool => Some 1
  | TPrim PInteger => Some 2
  | TPrim POctets => Some 4
  | TPrim PNull => Some 5
  | TEnum _ => Some 10
  | TCons KSeq _ _ _ => Some 16
  | TSeqOf _ => Some 16
  | TCons KSet _ _ _ => Some 17
  | TCons KChoice _ _ _ => None
  | TRef _ => None
  end.

(* asn1f_fetch_tags_impl, flags AFT_FETCH_OUTMOST|AFT_IMAGINARY_ANY, count = skip = 0.
   [marks] = expressions that carry TM_RECURSION when the fetch starts (set by
   _asn1f_compare_tags — the same bit of the same field).  The marks the fetch
   itself sets along a reference chain only serve to stop a cycle: [fuel] =
   number of definitions + 1 does the same (a longer chain revisits one). *)
Fixpoint fetch (m : module) (fuel : nat) (marks : list path) (p : path) (k : nkind) : option otag :=
  match k with
  | NExt => Some OExt
  | NTy (Some (c, n)) _ => Some (OT c n)
  | NTy None (TRef r) =>
      match lookup m r with
      | None => None
      | Some d =>
          if marked p marks then None
          else match fuel with
               | O => None
               | S f => fetch m f marks [d_name d] (n_kind (def_node d))
               end
      end
  | NTy None t =>
      match universal_of t with
      | Some u => Some (OT CUniversal u)
      | None => None
      end
  end.

Definition fetch_fuel (m : module) : nat := S (length (m_defs m)).
Definition out (m : module) (marks : list path) (a : node) : option otag :=
  fetch m (fetch_fuel m) marks (n_path a) (n_kind a).

(* ---------------------------------------------------------------- _asn1f_compare_tags *)
Inductive res := Crash | Done (collide : bool).

Definition is_untagged_ref (a : node) : option nat :=
  match n_kind a with NTy None (TRef r) => Some r | _ => None end.
Definition choice_members (m : module) (a : node) : option (list node) :=
  match n_kind a with
  | NTy _ (TCons KChoice r1 ext r2) => Some (members (m_tagging m) (n_path a) r1 ext r2)
  | _ => None
  end.
(* a->meta_type == AMT_TYPEREF, resp. a->expr_type == ASN_CONSTR_CHOICE: both
   look at the expression itself, whether or not it carries a tag *)
Definition is_ref (a : node) : option nat :=
  match n_kind a with NTy _ (TRef r) => Some r | _ => None end.

(* [fuel] bounds the C recursion depth; [Crash] = the recursion does not end
   (the process dies of stack exhaustion). *)
Fixpoint compare (m : module) (fuel : nat) (marks : list path) (a b : node) : res :=
  match fuel with
  | O => Crash
  | S f =>
      let ra := out m marks a in
      let rb := out m marks b in
      match ra, rb with
      | Some ta, Some tb => Done (otag_eqb ta tb)
      | _, _ =>
          match ra, is_ref a with
          | None, Some r =>
              match lookup m r with
              | None => Done false
              | Some d => compare m f marks (def_node d) b
              end
          | _, _ =>
              match ra, choice_members m a with
              | None, Some vs =>
                  (fix iter (l : list node) : res :=
                     match l with
                     | [] => Done false
                     | v :: l' =>
                         match compare m f marks v b with
                         | Done false => iter l'
                         | r => r
                         end
                     end) vs
              | _, _ =>
                  match rb, choice_members m b with
                  | None, Some _ => compare m f marks b a
                  | _, _ =>
                      if marked (n_path a) marks || marked (n_path b) marks then Done false
                      else compare m f (n_path a :: n_path b :: marks) b a
                  end
              end
          end
      end
  end.

(* ---------------------------------------------------------------- asn1f_check_constr_tags_distinct *)
Definition res_or (a b : res) : res :=
  match a, b with
  | Crash, _ | _, Crash => Crash
  | Done x, Done y => Done (x || y)
  end.

(* inner loop: v against the members after it *)
Fixpoint scan_from (m : module) (fuel : nat) (is_seq : bool) (v : node) (rest : list node) : res :=
  match rest with
  | [] => Done false
  | nv :: rest' =>
      let r := compare m fuel [] v nv in
      if is_seq && negb (n_opt nv) then r
      else res_or r (scan_from m fuel is_seq v rest')
  end.

Fixpoint scan_all (m : module) (fuel : nat) (is_seq : bool) (l : list node) : res :=
  match l with
  | [] => Done false
  | v :: rest =>
      let r := if negb is_seq || n_opt v then scan_from m fuel is_seq v rest else Done false in
      res_or r (scan_all m fuel is_seq rest)
  end.

(* ---------------------------------------------------------------- other passes *)
(* asn1f_check_unique_expr: every member against the ones before it *)
Fixpoint dup_in (names : list nat) : bool :=
  match names with
  | [] => false
  | n :: l => existsb (Nat.eqb n) l || dup_in l
  end.

(* asn1f_fix_enum without "...": numbering of unvalued items (max so far + 1),
   then the value is looked up among the values recorded before *)
Fixpoint enum_vals (maxv : Z) (used : list Z) (items : list (nat * option Z)) : bool (* clash *) :=
  match items with
  | [] => false
  | (_, v) :: l =>
      let ev := match v with Some x => x | None => maxv + 1 end in
      let clash := existsb (Z.eqb ev) used in
      let used' := if clash then used else used ++ [ev] in
      let maxv' := if maxv <? ev then ev else maxv in
      clash || enum_vals maxv' used' l
  end.
Definition enum_val_clash (items : list (nat * option Z)) : bool := enum_vals (-1) [] items.
Definition enum_name_clash (items : list (nat * option Z)) : bool := dup_in (map fst items).

(* asn1f_find_terminal_type: None = "Unknown type" (missing or circular) *)
Fixpoint terminal (m : module) (fuel : nat) (t : ty) : option ty :=
  match t with
  | TRef r =>
      match lookup m r with
      | None => None
      | Some d => match fuel with O => None | S f => terminal m f (d_ty d) end
      end
  | _ => Some t
  end.
Definition term_fuel (m : module) : nat := S (length (m_defs m)).

(* _asn1f_check_if_tag_must_be_explicit: the type without its own tag has no
   outermost tag and its terminal type is a CHOICE *)
Definition must_explicit (m : module) (p : path) (t : ty) : bool :=
  match out m [] {| n_path := p; n_opt := false; n_kind := NTy None t |} with
  | Some _ => false
  | None => match terminal m (term_fuel m) t with
            | Some (TCons KChoice _ _ _) => true
            | _ => false
            end
  end.
(* _asn1f_fix_type_tag reports an error exactly when the written mode is IMPLICIT *)
Definition implicit_error (m : module) (p : path) (tg : option mtag) (t : ty) : bool :=
  match tg with
  | Some g => match tg_mode g with MImplicit => must_explicit m p t | _ => false end
  | None => false
  end.

(* ---------------------------------------------------------------- reasons *)
Inductive reason := RDupType | RDupIdent | REnumName | REnumValue | RUndefRef | RImplicit | RExtTag | RTagClash.
Definition reason_eqb (a b : reason) : bool :=
  match a, b with
  | RDupType, RDupType | RDupIdent, RDupIdent | REnumName, REnumName | REnumValue, REnumValue
  | RUndefRef, RUndefRef | RImplicit, RImplicit | RExtTag, RExtTag | RTagClash, RTagClash => true
  | _, _ => false
  end.

(* result of the checks on one expression: reasons found, or Crash *)
Inductive nres := NCrash | NOk (rs : list reason).
Definition nres_app (a b : nres) : nres :=
  match a, b with
  | NCrash, _ | _, NCrash => NCrash
  | NOk x, NOk y => NOk (x ++ y)
  end.
Definition when (b : bool) (r : reason) : list reason := if b then [r] else [].

Definition member_implicit_errors (m : module) (p : path) (pos : nat) (l : list (cinfo * ty)) : bool :=
  (fix go (pos : nat) (l : list (cinfo * ty)) : bool :=
     match l with
     | [] => false
     | (c, t) :: l' => implicit_error m (p ++ [pos]) (c_tag c) t || go (S pos) l'
     end) pos l.

(* the checks asn1f_recurse_expr runs on one expression (not on its children) *)
Definition check_node (m : module) (fuel : nat) (p : path) (t : ty) : nres :=
  match t with
  | TPrim _ => NOk []
  | TEnum items => NOk (when (enum_val_clash items) REnumValue ++ when (enum_name_clash items) REnumName)
  | TSeqOf _ => NOk []
  | TRef r => NOk (when (match terminal m (term_fuel m) t with None => true | Some _ => false end) RUndefRef)
  | TCons k r1 ext r2 =>
      let root := root_of r1 r2 in
      let adds := adds_of ext in
      let ids := map (fun c => c_name (fst c)) (r1 ++ adds ++ r2) in   (* source order; order is irrelevant *)
      let pre := when (dup_in ids) RDupIdent
                 ++ when (member_implicit_errors m p 0 root
                          || member_implicit_errors m p (S (length root)) adds) RImplicit
                 ++ when (exttag_error (m_tagging m) root adds) RExtTag in
      let is_seq := match k with KSeq => true | _ => false end in
      match scan_all m fuel is_seq (members (m_tagging m) p r1 ext r2) with
      | Crash => NCrash
      | Done c => NOk (pre ++ when c RTagClash)
      end
  end.

(* asn1f_recurse_expr: the expression, then every member *)
Fixpoint check_ty (m : module) (fuel : nat) (p : path) (t : ty) : nres :=
  nres_app (check_node m fuel p t)
    match t with
    | TCons k r1 ext r2 =>
        let go := fix go (pos : nat) (l : list (cinfo * ty)) : nres :=
          match l with
          | [] => NOk []
          | (c, t') :: l' => nres_app (check_ty m fuel (p ++ [pos]) t') (go (S pos) l')
          end in
        let nroot := length (root_of r1 r2) in
        nres_app (go 0%nat r1) (nres_app (go (length r1) r2) match ext with Some a => go (S nroot) a | None => NOk [] end)
    | TSeqOf e => check_ty m fuel (p ++ [0%nat]) e
    | _ => NOk []
    end.

Definition check_def (m : module) (fuel : nat) (d : def) : nres :=
  nres_app (NOk (when (implicit_error m [d_name d] (d_tag d) (d_ty d)) RImplicit))
           (check_ty m fuel [d_name d] (d_ty d)).

(* size of a module: bounds the number of expressions, hence (twice, plus the
   swap) the depth of any _asn1f_compare_tags recursion that ends *)
Fixpoint ty_size (t : ty) : nat :=
  match t with
  | TCons _ r1 ext r2 =>
      let go := fix go (l : list (cinfo * ty)) : nat :=
        match l with [] => O | (_, t') :: l' => (S (ty_size t') + go l')%nat end in
      (2 + go r1 + match ext with Some a => go a | None => O end + go r2)%nat
  | TSeqOf e => S (ty_size e)
  | _ => 1%nat
  end.
Definition module_size (m : module) : nat :=
  fold_right (fun d acc => (S (ty_size (d_ty d)) + acc)%nat) O (m_defs m).
Definition compare_fuel (m : module) : nat := (2 * module_size m + 8)%nat.

Fixpoint check_defs (m : module) (fuel : nat) (ds : list def) : nres :=
  match ds with
  | [] => NOk []
  | d :: ds' => nres_app (check_def m fuel d) (check_defs m fuel ds')
  end.

Inductive verdict := Accept | Reject (rs : list reason) | Crashes.

(* asn1f_check_duplicate + the passes above over every definition *)
Definition fix_module (m : module) : nres :=
  nres_app (NOk (when (dup_in (map d_name (m_defs m))) RDupType))
           (check_defs m (compare_fuel m) (m_defs m)).

(* ---------------------------------------------------------------- compiler stage *)
(* libasn1compiler/asn1c_C.c:_add_tag2el_member/_fill_tag2el_map expand a member
   with no outermost tag through references and CHOICE alternatives, without a
   guard.  true = the expansion ends. *)
Fixpoint expand_ends (m : module) (fuel : nat) (a : node) : bool :=
  match fuel with
  | O => false
  | S f =>
      match out m [] a with
      | Some _ => true
      | None =>
          match choice_members m a with
          | Some vs => forallb (fun v => match n_kind v with NExt => true | _ => expand_ends m f v end) vs
          | None =>
              match is_ref a with
              | Some r => match lookup m r with Some d => expand_ends m f (def_node d) | None => true end
              | None => true
              end
          end
      end
  end.

Fixpoint compile_ends_ty (m : module) (fuel : nat) (p : path) (t : ty) : bool :=
  match t with
  | TCons k r1 ext r2 =>
      forallb (fun v => match n_kind v with NExt => true | _ => expand_ends m fuel v end)
              (members (m_tagging m) p r1 ext r2)
      && (let go := fix go (pos : nat) (l : list (cinfo * ty)) : bool :=
            match l with
            | [] => true
            | (c, t') :: l' => compile_ends_ty m fuel (p ++ [pos]) t' && go (S pos) l'
            end in
          go 0%nat r1 && go (length r1) r2 && match ext with Some a => go (S (length (root_of r1 r2))) a | None => true end)
  | TSeqOf e => compile_ends_ty m fuel (p ++ [0%nat]) e
  | _ => true
  end.
Definition compile_ends (m : module) : bool :=
  forallb (fun d => compile_ends_ty m (compare_fuel m) [d_name d] (d_ty d)) (m_defs m).

(* ---------------------------------------------------------------- verdict of an asn1c run *)
Definition check (m : module) : verdict :=
  match fix_module m with
  | NCrash => Crashes
  | NOk [] => if compile_ends m then Accept else Crashes
  | NOk rs => Reject rs
  end.
