(* Fix/Crange.v — executable model of libasn1fix/asn1fix_crange.c (the interval
   algebra and asn1constraint_compute_constraint_range) together with the
   constraint-tree handling that precedes it: the shape the yacc actions build
   (CONSTRAINT_INSERT flattening, asn1p_y.y) and asn1constraint_pullup /
   _remove_extensions of asn1fix_constraint.c.

   Integers are Z.  asn1c_integer_t is __int128 on this build, so no wrap-around
   is modelled for edge values; the INTMAX_MIN / INTMAX_MAX guards of
   _range_split are the 64-bit constants, as in the C.

   Not modelled (said where it matters): the `narrowing` field (REAL only),
   `lineno`, FROM / permitted alphabets, WITH COMPONENTS, string types that are
   not known-multiplier, allocation failure.  The asserts of _range_overlap are
   modelled only at the one place a well-formed input can reach them (a reversed
   range in a leaf, result RAbort); qsort is an insertion sort (the comparison
   is a total order on the pairs that occur, so the result is the same list).
   No proofs in this file. *)
From Coq Require Import ZArith List Bool.
Import ListNotations.
Local Open Scope Z_scope.

Definition intmax_min : Z := -9223372036854775808.
Definition intmax_max : Z := 9223372036854775807.

(* ---- edges and ranges ---- *)
Inductive edge := EMin | EMax | EV (z : Z).
Definition ipair := (edge * edge)%type.

(* _edge_compare *)
Definition edge_compare (a b : edge) : Z :=
  match a, b with
  | EMin, EMin => 0 | EMin, _ => -1
  | EMax, EMax => 0 | EMax, _ => 1
  | EV _, EMin => 1 | EV _, EMax => -1
  | EV x, EV y => if x <? y then -1 else if x >? y then 1 else 0
  end.

Record range := mkRange {
  r_left : edge; r_right : edge; r_elems : list ipair;
  r_ext : bool; r_empty : bool; r_notPER : bool; r_notOER : bool; r_incompat : bool }.

(* _range_new *)
Definition range_new : range := mkRange EMin EMax [] false false false false false.

Definition set_bounds (r : range) (l rr : edge) (els : list ipair) : range :=
  mkRange l rr els (r_ext r) (r_empty r) (r_notPER r) (r_notOER r) (r_incompat r).
Definition set_elems (r : range) (els : list ipair) : range :=
  set_bounds r (r_left r) (r_right r) els.
Definition set_incompat (r : range) : range :=
  mkRange (r_left r) (r_right r) (r_elems r) (r_ext r) (r_empty r) (r_notPER r) (r_notOER r) true.
Definition set_empty (r : range) (b : bool) : range :=
  mkRange (r_left r) (r_right r) (r_elems r) (r_ext r) b (r_notPER r) (r_notOER r) (r_incompat r).
(* range->extensible = 1; range->not_OER_visible = 1 *)
Definition set_ext (r : range) : range :=
  mkRange (r_left r) (r_right r) (r_elems r) true (r_empty r) (r_notPER r) true (r_incompat r).

(* "the element OR all its children": the loops `for(i = -1; i < el_count; i++)` *)
Definition parts (r : range) : list ipair :=
  match r_elems r with [] => [(r_left r, r_right r)] | els => els end.

(* _range_compare (both edges) and _range_partial_compare (left edge only) *)
Definition range_compare (a b : ipair) : Z :=
  let c := edge_compare (fst a) (fst b) in
  if c =? 0 then edge_compare (snd a) (snd b) else c.
Definition partial_compare (a b : ipair) : Z := edge_compare (fst a) (fst b).

Fixpoint insert_by (cmp : ipair -> ipair -> Z) (x : ipair) (l : list ipair) : list ipair :=
  match l with
  | [] => [x]
  | y :: tl => if cmp x y <=? 0 then x :: l else y :: insert_by cmp x tl
  end.
Definition sort_by (cmp : ipair -> ipair -> Z) (l : list ipair) : list ipair :=
  fold_right (insert_by cmp) [] l.

(* _edge_is_within / _check_edges_within *)
Definition edge_is_within (r : range) (e : edge) : bool :=
  existsb (fun p => (edge_compare (fst p) e <=? 0) && (edge_compare (snd p) e >=? 0)) (parts r).
Definition check_edges_within (r : range) (p : ipair) : bool :=
  edge_is_within r (fst p) && edge_is_within r (snd p).

(* _range_overlap (asserts not modelled) *)
Definition overlap (a b : ipair) : bool :=
  negb (edge_compare (fst a) (snd b) >? 0) && negb (edge_compare (snd a) (fst b) <? 0).

(* _range_split: None = "no split" (returns 0), Some pieces otherwise *)
Definition split (ra rb : ipair) : option (list ipair) :=
  if negb (overlap ra rb) then None else
  let ll := edge_compare (fst ra) (fst rb) in
  let rr := edge_compare (snd ra) (snd rb) in
  if (ll >=? 0) && (rr <=? 0) then None else
  let p_left :=
    if ll <? 0 then
      match fst rb with
      | EV v => if v =? intmax_min then [] else [(fst ra, EV (v - 1))]
      | e => [(fst ra, e)]
      end
    else [] in
  let p_right :=
    if rr >? 0 then
      match snd rb with
      | EV v => if v =? intmax_max then [] else [(EV (v + 1), snd ra)]
      | e => [(e, snd ra)]
      end
    else [] in
  let mid := (if edge_compare (fst ra) (fst rb) <? 0 then fst rb else fst ra,
              if edge_compare (snd ra) (snd rb) >? 0 then snd rb else snd ra) in
  Some (sort_by partial_compare (p_left ++ p_right ++ [mid])).

(* first `with` part that splits e: the inner `for(j...)` with its `break` *)
Fixpoint first_split (e : ipair) (ws : list ipair) : option (list ipair) :=
  match ws with
  | [] => None
  | w :: tl => match split e w with Some ps => Some ps | None => first_split e tl end
  end.

(* the "Split range in pieces" loop: elements before index i are `done`; the
   element at i is replaced by its pieces, which go to the END of the array *)
Fixpoint split_loop (fuel : nat) (todo done : list ipair) (ws : list ipair) : option (list ipair) :=
  match fuel with
  | O => None
  | S f =>
    match todo with
    | [] => Some (rev done)
    | e :: rest =>
        match first_split e ws with
        | Some ps => split_loop f (rest ++ ps) done ws
        | None => split_loop f rest (e :: done) ws
        end
    end
  end.

Definition split_fuel (n m : nat) : nat := (8 * n * m + 2 * n + 8)%nat.

Inductive ires := IOk (r : range) | IEperm | IAbort | IFuel.

(* _range_intersection(range, with, strict_edge_check, is_oer) *)
Definition range_intersection (r w : range) (strict is_oer : bool) : ires :=
  if is_oer && (r_ext r || r_notOER r || r_ext w || r_notOER w) then IAbort else
  let r1 :=
    if is_oer then r else
    mkRange (r_left r) (r_right r) (r_elems r) (r_ext r || r_ext w) (r_empty r)
            (r_notPER r || r_notPER w) (if r_ext w then true else r_notOER r) (r_incompat r) in
  let r2 := set_empty r1 (r_empty r1 || r_empty w) in
  if r_empty r2 then IOk r2 else
  let els := parts r2 in
  if strict && negb (forallb (check_edges_within (set_elems r2 els)) (parts w)) then IEperm else
  match split_loop (split_fuel (length els) (length (parts w))) els [] (parts w) with
  | None => IFuel
  | Some pieces =>
      let kept := filter (fun e => existsb (overlap e) (parts w)) pieces in
      let r3 := set_elems r2 kept in
      IOk (match kept with [] => set_empty r3 true | _ => r3 end)
  end.

(* _range_union on the sorted array: ra = elements[i-1], rb = elements[i] *)
Definition joinable (ra rb : ipair) : bool :=
  overlap ra rb ||
  match snd ra, fst rb with
  | EV a, EV b => b - a =? 1
  | _, _ => false
  end.
Definition join (ra rb : ipair) : ipair :=
  if overlap ra rb then
    (if edge_compare (fst ra) (fst rb) <? 0 then fst ra else fst rb,
     if edge_compare (snd ra) (snd rb) >? 0 then snd ra else snd rb)
  else (fst ra, snd rb).
Fixpoint union_loop (ra : ipair) (rest : list ipair) : list ipair :=
  match rest with
  | [] => [ra]
  | rb :: tl => if joinable ra rb then union_loop (join ra rb) tl else ra :: union_loop rb tl
  end.
Definition range_union (els : list ipair) : list ipair :=
  match sort_by range_compare els with
  | [] => []
  | a :: tl => union_loop a tl
  end.

(* _range_canonicalize *)
Definition range_canonicalize (r : range) : range :=
  match r_elems r with
  | [] => if edge_compare (r_left r) (r_right r) >? 0
          then set_bounds r (r_right r) (r_left r) [] else r
  | els =>
      let u := range_union els in
      let l := match u with p :: _ => fst p | [] => r_left r end in
      let rr := snd (last u (r_left r, r_right r)) in
      match u with
      | [_] => set_bounds r l rr []
      | _ => set_bounds r l rr u
      end
  end.

(* _range_merge_in(into, cr) *)
Definition range_merge_in (into cr : range) : range :=
  let ext := r_ext into || r_ext cr in
  mkRange (r_left into) (r_right into) (r_elems into ++ parts cr) ext (r_empty into)
          (r_notPER into || r_notPER cr)
          (if ext then true else r_notOER into || r_notOER cr) (r_incompat into).

(* ---- the constraint tree as the parser builds it (asn1p_constraint_t) ---- *)
Inductive bnd := BMin | BMax | BInt (z : Z).
Inductive pct :=
  | PValue (v : Z)                 (* ACT_EL_VALUE, ATV_INTEGER *)
  | PRange (lo hi : bnd)           (* ACT_EL_RANGE *)
  | PExt                           (* ACT_EL_EXT *)
  | PSize (c : pct)                (* ACT_CT_SIZE, el_count = 1 *)
  | PSet (cs : list pct)           (* ACT_CA_SET: serial application / parentheses *)
  | PInt (cs : list pct)           (* ACT_CA_INT *)
  | PCsv (cs : list pct)           (* ACT_CA_CSV: root , ... , additions *)
  | PUni (cs : list pct)           (* ACT_CA_UNI *)
  | PExc (cs : list pct)           (* ACT_CA_EXC *)
  | PAex (c : pct).                (* ACT_CA_AEX: ALL EXCEPT (default: branch) *)

Inductive req := ReqValue | ReqSize.            (* ACT_EL_RANGE | ACT_CT_SIZE *)
Inductive vis := VisNone | VisOER | VisPER.     (* cpr_flags *)
Inductive res := ROk (r : range) | RErange | RFail | RAbort | RFuel.

Definition is_oer (v : vis) : bool := match v with VisOER => true | _ => false end.
Definition is_per (v : vis) : bool := match v with VisPER => true | _ => false end.

(* _range_fill for ATV_INTEGER / ATV_MIN / ATV_MAX *)
Definition fill (b : bnd) (minmax : option range) : edge :=
  match b with
  | BInt z => EV z
  | BMin => match minmax with Some m => r_left m | None => EMin end
  | BMax => match minmax with Some m => r_right m | None => EMax end
  end.

Definition lift (i : ires) : res :=
  match i with IOk r => ROk r | IEperm => RFail | IAbort => RAbort | IFuel => RFuel end.

(* the tail of asn1constraint_compute_constraint_range: ACT_EL_VALUE / ACT_EL_RANGE *)
Definition leaf (lo hi : bnd) (v : vis) (minmax : option range) (exmet : bool) : res :=
  let range0 := match minmax with Some m => m | None => range_new end in
  if negb exmet then ROk (set_incompat range0) else
  let l := fill lo minmax in
  let r := fill hi minmax in
  let rng := mkRange l r [] false false false false false in
  match minmax with
  | None => ROk (range_canonicalize rng)
  | Some m =>
      (* the assert of _range_overlap (via _range_split) is reached only when
         the parent is not empty and the edge check passed *)
      if negb (is_oer v && (r_ext m || r_notOER m)) && negb (r_empty m)
         && forallb (check_edges_within (set_elems m (parts m))) [(l, r)]
         && (edge_compare l r >? 0) then RAbort else
      match range_intersection m rng true (is_oer v) with
      | IOk c => ROk (range_canonicalize c)
      | e => lift e
      end
  end.

(* state of the two-loop ACT_CA_CSV / ACT_CA_UNI code: before / after the
   "first valid constraint" has been grabbed *)
Inductive ustate := UFirst (range : range) | URest (range : range).

Fixpoint compute (ct : pct) (rq : req) (v : vis) (minmax : option range) (exmet : bool)
  {struct ct} : res * bool :=
  let range0 := match minmax with Some m => m | None => range_new end in
  match ct with
  | PValue z => (leaf (BInt z) (BInt z) v minmax exmet, exmet)
  | PRange lo hi => (leaf lo hi v minmax exmet, exmet)
  | PExt => if negb exmet then (ROk (set_ext range0), exmet) else (RErange, exmet)
  | PSize c =>
      match rq with
      | ReqSize =>
          match compute c rq v minmax true with
          | (RErange, ex) => (ROk (set_ext (set_empty range0 true)), ex)
          | other => other
          end
      | ReqValue => (ROk (set_incompat range0), exmet)
      end
  | PSet cs | PInt cs =>
      let serial := match ct with PSet _ => true | _ => false end in
      (fix loop (cs : list pct) (range : range) (exmet : bool) {struct cs} : res * bool :=
         match cs with
         | [] => (ROk range, exmet)
         | c :: tl =>
             match compute c rq v (if serial then Some range else minmax) exmet with
             | (RErange, ex) => loop tl (set_ext range) ex
             | (ROk tmp, ex) =>
                 if r_incompat tmp then loop tl range ex
                 else if r_notOER tmp && is_oer v then loop tl range ex
                 else if r_notPER tmp && is_per v then loop tl range ex
                 else match range_intersection range tmp serial (is_oer v) with
                      | IOk r' => loop tl (range_canonicalize r') ex
                      | e => (lift e, ex)
                      end
             | other => other
             end
         end) cs range0 exmet
  | PCsv cs | PUni cs =>
      (fix loop (cs : list pct) (st : ustate) (exmet : bool) {struct cs} : res * bool :=
         match cs with
         | [] =>
             match st with
             | UFirst range => (ROk (set_incompat range), exmet)
             | URest range =>
                 let r := range_canonicalize range in
                 if r_notPER r && is_per v
                 then (ROk (mkRange (r_left range0) (r_right range0) (r_elems range0) (r_ext range0)
                                    (r_empty range0) true (r_notOER range0) true), exmet)
                 else (ROk r, exmet)
             end
         | c :: tl =>
             match st with
             | UFirst range =>
                 match compute c rq v minmax exmet with
                 | (RErange, ex) => loop tl (UFirst (set_ext range)) ex
                 | (ROk tmp, ex) =>
                     if r_incompat tmp then (ROk (set_incompat range), ex) else
                     let first := mkRange (r_left tmp) (r_right tmp) (r_elems tmp)
                                    (r_ext tmp || r_ext range) (r_empty tmp || r_empty range)
                                    (r_notPER tmp) (r_notOER tmp || r_notOER range) (r_incompat tmp) in
                     (* the second loop starts at the same index: element c is computed again *)
                     match compute c rq v minmax ex with
                     | (RErange, ex2) => loop tl (URest (set_ext first)) ex2
                     | (ROk tmp2, ex2) =>
                         if r_incompat tmp2 then (ROk (set_incompat (range_canonicalize first)), ex2)
                         else if r_empty tmp2
                         then loop tl (URest (mkRange (r_left first) (r_right first) (r_elems first)
                                 (r_ext first || r_ext tmp2) (r_empty first) (r_notPER first)
                                 (r_notOER first || r_notOER tmp2) (r_incompat first))) ex2
                         else loop tl (URest (range_merge_in first tmp2)) ex2
                     | other => other
                     end
                 | other => other
                 end
             | URest range =>
                 match compute c rq v minmax exmet with
                 | (RErange, ex) => loop tl (URest (set_ext range)) ex
                 | (ROk tmp, ex) =>
                     if r_incompat tmp then (ROk (set_incompat (range_canonicalize range)), ex)
                     else if r_empty tmp
                     then loop tl (URest (mkRange (r_left range) (r_right range) (r_elems range)
                             (r_ext range || r_ext tmp) (r_empty range) (r_notPER range)
                             (r_notOER range || r_notOER tmp) (r_incompat range))) ex
                     else loop tl (URest (range_merge_in range tmp)) ex
                 | other => other
                 end
             end
         end) cs (UFirst range0) exmet
  | PExc cs =>
      match cs with
      | c :: _ => compute c rq v minmax exmet
      | [] => (RAbort, exmet)
      end
  | PAex _ => (ROk (set_incompat range0), exmet)
  end.

(* top level: what the callers in asn1print.c / asn1c_C.c pass *)
Inductive etype := TInteger | TOctetString | TSequenceOf.

(* asn1constraint_compatible(expr_type, requested type, 0) = 1 ? *)
Definition compatible (t : etype) (rq : req) : bool :=
  match t, rq with
  | TInteger, ReqValue => true
  | TInteger, ReqSize => false
  | _, ReqValue => false
  | _, ReqSize => true
  end.

Inductive tres := TOk (r : range) | TNone (* NULL, EINVAL *) | TFail | TAbort | TFuel.

Definition compute_top (t : etype) (ct : option pct) (rq : req) (v : vis) : tres :=
  if negb (compatible t rq) then TNone else
  let minmax := match rq with
                | ReqValue => None
                | ReqSize => Some (mkRange (EV 0) EMax [] false false false false false)
                end in
  let exmet := match rq with ReqValue => true | ReqSize => false end in
  match ct with
  | None => TOk (match minmax with Some m => m | None => range_new end)
  | Some c =>
      match fst (compute c rq v minmax exmet) with
      | ROk r => TOk r
      | RErange => TNone   (* NULL with errno = ERANGE: callers treat NULL alike *)
      | RFail => TFail
      | RAbort => TAbort
      | RFuel => TFuel
      end
  end.

(* ---- surface syntax (X.680 ElementSetSpecs) and the tree the parser builds ---- *)
Inductive ess :=                       (* ElementSetSpec, no marker *)
  | EVal (v : Z)
  | ERange (lo hi : bnd)
  | EUnion (a b : ess)
  | EInter (a b : ess)
  | EExcept (a b : ess)
  | EParen (a : ess)
  | EAllExcept (a : ess).
Inductive spec :=                      (* ElementSetSpecs *)
  | SRoot (e : ess)
  | SExt (e : ess)
  | SExtAdd (e a : ess).

(* CONSTRAINT_INSERT(root, type, arg1, arg2): reuse arg1 when it already has the type *)
Definition cinsert (mk : list pct -> pct) (same : pct -> option (list pct)) (a1 : pct) (a2 : option pct) : pct :=
  let base := match same a1 with Some cs => cs | None => [a1] end in
  mk (base ++ match a2 with Some x => [x] | None => [] end).
Definition as_uni (p : pct) := match p with PUni cs => Some cs | _ => None end.
Definition as_int (p : pct) := match p with PInt cs => Some cs | _ => None end.
Definition as_exc (p : pct) := match p with PExc cs => Some cs | _ => None end.
Definition as_csv (p : pct) := match p with PCsv cs => Some cs | _ => None end.
Definition as_set (p : pct) := match p with PSet cs => Some cs | _ => None end.

Fixpoint parse_ess (e : ess) : pct :=
  match e with
  | EVal v => PValue v
  | ERange lo hi => PRange lo hi
  | EUnion a b => cinsert PUni as_uni (parse_ess a) (Some (parse_ess b))
  | EInter a b => cinsert PInt as_int (parse_ess a) (Some (parse_ess b))
  | EExcept a b => cinsert PExc as_exc (parse_ess a) (Some (parse_ess b))
  | EParen a => PSet [parse_ess a]
  | EAllExcept a => PAex (parse_ess a)
  end.
Definition parse_spec (s : spec) : pct :=
  match s with
  | SRoot e => parse_ess e
  | SExt e => cinsert PCsv as_csv (parse_ess e) (Some PExt)
  | SExtAdd e a =>
      cinsert PCsv as_csv (cinsert PCsv as_csv (parse_ess e) (Some PExt)) (Some (parse_ess a))
  end.
(* Constraint: '(' ConstraintSpec ')' *)
Definition parse_constraint (size : bool) (s : spec) : pct :=
  let inner := cinsert PSet as_set (parse_spec s) None in
  if size then cinsert PSet as_set (PSize inner) None else inner.
(* ManyConstraints: Constraint | ManyConstraints Constraint *)
Fixpoint parse_many (size : bool) (acc : pct) (l : list spec) : pct :=
  match l with
  | [] => acc
  | s :: tl =>
      let c2 := parse_constraint size s in
      let acc' := match c2 with
                  | PSet [x] => cinsert PSet as_set acc (Some x)
                  | _ => cinsert PSet as_set acc (Some c2)
                  end in
      parse_many size acc' tl
  end.
Definition parse_constraints (size : bool) (l : list spec) : option pct :=
  match l with
  | [] => None
  | s :: tl => Some (parse_many size (parse_constraint size s) tl)
  end.

(* _remove_extensions(ct, forgive_last) *)
Fixpoint remove_ext (forgive : bool) (ct : pct) {struct ct} : pct :=
  let go := fix go (is_set : bool) (cs : list pct) {struct cs} : list pct :=
    match cs with
    | [] => []
    | PExt :: _ => []
    | c :: tl =>
        match tl with
        | [] => if forgive && is_set then [c] else [remove_ext false c]
        | _ => remove_ext false c :: go is_set tl
        end
    end in
  match ct with
  | PSet cs => PSet (go true cs)
  | PInt cs => PInt (go false cs)
  | PCsv cs => PCsv (go false cs)
  | PUni cs => PUni (go false cs)
  | PExc cs => PExc (go false cs)
  | PSize c => match go false [c] with [c'] => PSize c' | _ => PSize c end
  | PAex c => match go false [c] with [c'] => PAex c' | _ => PAex c end
  | other => other
  end.

(* asn1constraint_pullup along a chain  A ::= T c1;  B ::= A c2;  ...
   (each link: is the constraint a SIZE constraint, and its serial list) *)
Definition pullup_step (parent : option pct) (own : option pct) : option pct :=
  match parent, own with
  | None, None => None
  | Some p, None => Some p
  | None, Some o => Some (remove_ext true o)
  | Some p, Some o =>
      match remove_ext false p with
      | PSet ps => Some (PSet (ps ++ match o with PSet os => os | x => [x] end))
      | p' => Some p'   (* not reached: the parser always produces a CA_SET at the top *)
      end
  end.
Definition pullup (size : bool) (chain : list (list spec)) : option pct :=
  fold_left (fun acc l => pullup_step acc (parse_constraints size l)) chain None.
