From Coq Require Import List Bool Arith Lia ZArith.
Import ListNotations.
From A1 Require Import Fix.Resolve.

Lemma lookup_S : forall ms f at_ s, lookup ms (S f) at_ s =
    match find_mod ms at_ with
    | None => LBroken
    | Some m =>
      if mem s (rdefs m) then LFound else
      match imp_from (rimports m) s with
      | None => LNotFound
      | Some n =>
        match find_mod ms n with
        | None => LBroken
        | Some t => if exported t s then lookup ms f n s else LBroken
        end
      end
    end.
Proof. reflexivity. Qed.

Lemma resolve_sound : forall ms fuel at_ s, resolve ms fuel at_ s = true -> Resolves ms at_ s.
Proof.
  intros ms fuel. induction fuel as [|f IH]; intros at_ s H; unfold resolve in *.
  - cbn in H. discriminate.
  - rewrite lookup_S in H. destruct (find_mod ms at_) as [m|] eqn:Em; [|discriminate].
    destruct (mem s (rdefs m)) eqn:Ed.
    + eapply RLocal; eauto.
    + destruct (imp_from (rimports m) s) as [n|] eqn:Ei; [|discriminate].
      destruct (find_mod ms n) as [t|] eqn:Et; [|discriminate].
      destruct (exported t s) eqn:Ex; [|discriminate].
      eapply RImport; eauto.
Qed.

Lemma resolve_complete_n : forall ms k at_ s, ResolvesN ms k at_ s -> resolve ms (S k) at_ s = true.
Proof.
  intros ms k at_ s H. induction H; unfold resolve in *; rewrite lookup_S.
  - rewrite H, H0. reflexivity.
  - rewrite H, H0, H1, H2, H3. exact IHResolvesN.
Qed.

Lemma resolves_has_length : forall ms at_ s, Resolves ms at_ s -> exists k, ResolvesN ms k at_ s.
Proof.
  intros ms at_ s H. induction H.
  - exists 0. eapply RNLocal; eauto.
  - destruct IHResolves as [k Hk]. exists (S k). eapply RNImport; eauto.
Qed.

Theorem resolve_iff : forall ms at_ s, Resolves ms at_ s <-> exists fuel, resolve ms fuel at_ s = true.
Proof.
  intros; split.
  - intros H. destruct (resolves_has_length _ _ _ H) as [k Hk]. exists (S k). apply resolve_complete_n; exact Hk.
  - intros [fuel H]. eapply resolve_sound; eauto.
Qed.

(* the status of the pass is fatal exactly when the lookup fails, whatever the failing branch printed *)
Theorem status_fatal_iff_unresolved : forall ms fuel at_ s,
  deref_status (lookup ms fuel at_ s) = (-1)%Z <-> resolve ms fuel at_ s = false.
Proof.
  intros; unfold resolve; destruct (lookup ms fuel at_ s); cbn; split; intros; try reflexivity; discriminate.
Qed.

Theorem accepted_only_if_resolves : forall ms fuel at_ s,
  exit_code (deref_status (lookup ms fuel at_ s)) = 0%Z -> Resolves ms at_ s.
Proof.
  intros ms fuel at_ s H. apply resolve_sound with (fuel := fuel). unfold resolve.
  destruct (lookup ms fuel at_ s); cbn in H; try reflexivity; discriminate.
Qed.

(* the general clause: a FATAL line => non-zero exit *)
Theorem fatal_line_implies_failure : forall r, fatal_printed r = true -> exit_code (deref_status r) <> 0%Z.
Proof. intros r H; destruct r; cbn in *; try discriminate. Qed.

(* an import from a module absent from the inputs never resolves, at any fuel, wherever the name is defined *)
Theorem import_from_absent_module_fatal : forall ms fuel at_ s m n,
  find_mod ms at_ = Some m -> mem s (rdefs m) = false -> imp_from (rimports m) s = Some n -> find_mod ms n = None ->
  lookup ms (S fuel) at_ s = LBroken /\ exit_code (deref_status (lookup ms (S fuel) at_ s)) = 65%Z.
Proof.
  intros. rewrite lookup_S. rewrite H, H0, H1, H2. split; reflexivity.
Qed.

Theorem import_not_exported_fatal : forall ms fuel at_ s m n t,
  find_mod ms at_ = Some m -> mem s (rdefs m) = false -> imp_from (rimports m) s = Some n -> find_mod ms n = Some t ->
  exported t s = false ->
  lookup ms (S fuel) at_ s = LBroken /\ exit_code (deref_status (lookup ms (S fuel) at_ s)) = 65%Z.
Proof.
  intros. rewrite lookup_S. rewrite H, H0, H1, H2, H3. split; reflexivity.
Qed.

(* seeded C11-9: with the de-duplicated status the two branches above are accepted *)
Theorem dedup_status_refuted : exists ms fuel at_ s,
  fatal_printed (lookup ms fuel at_ s) = true /\ ~ Resolves ms at_ s /\ exit_code (deref_status_dedup (lookup ms fuel at_ s)) = 0%Z.
Proof.
  exists [ {| rname := 0; rdefs := []; rimports := [(1, [7])]; rexports := None |} ], 2, 0, 7.
  split; [reflexivity|]. split; [|reflexivity].
  intros H. inversion H; subst.
  - cbn in H0. inversion H0; subst. cbn in H1. discriminate.
  - cbn in H0. inversion H0; subst. cbn in H2. inversion H2; subst. cbn in H3. discriminate.
Qed.
