(* CompileFold — how libasn1compiler/asn1compiler.c folds the status of the emission units into asn1c's exit status
   (C10 round 4; executable model, no proofs here).

   The code (asn1_compile / asn1c_compile_expr):

     TQ_FOR(mod) TQ_FOR(expr in mod->members) {            -- every top-level expression of every module, in order
         ret = asn1c_compile_expr(arg, NULL);
         if(ret) { FATAL("Cannot compile ..."); return ret; }         -- asn1c.c turns this into exit(EX_SOFTWARE) = 70
     }
     if(compile_failures) return -1;                       -- a component failed somewhere below an expression that returned 0
     asn1c_compile_expr(expr):
         if(expr->lhs_params && expr->spec_index == -1) {             -- a parameterized type: one clone per specialization
             ret = 0;
             for(i = 0; i < pspecs_count; i++) { ret = asn1c_compile_expr(pspec[i].my_clone); if(ret) break; }
         } else ret = type_cb(arg);                                   -- the emitter of the construct
         if(ret == -1) { compile_failures++; FATAL("Cannot compile ..."); OUT("#error Cannot compile ..."); }
         return ret;
     type_cb compiles the components through EMBED(v) = `_tmp.default_cb(&_tmp, NULL);`  -- THE RESULT IS DROPPED

   An emission unit is therefore a tree: a type with its own verdict (what its emitter says apart from the components) and
   its embedded components, or a parameterized type with its specializations.  The model keeps the code's behaviour: the
   status a component returns is still dropped by its parent (`ret`), the failure counter is what reaches the exit status
   (repair of C10-component-emitter-failure-assert; it retired C10-instance-of-member-error-directive and the exit-0 half of
   C10-unsupported-useful-types-no-skeleton). *)
From Coq Require Import ZArith List Bool.
Import ListNotations.
Open Scope Z_scope.

Inductive eunit : Type :=
| UType (own : bool) (members : list eunit)
| UParam (specs : list eunit).

Definition st (b : bool) : Z := if b then 0 else -1.

(* a loop that stops at the first non-zero status and returns it *)
Definition first_failure {A : Type} (f : A -> Z) : list A -> Z :=
  fix go (l : list A) : Z :=
    match l with
    | [] => 0
    | x :: r => if f x =? 0 then go r else f x
    end.

(* the seeded variant: every element is visited, the status is overwritten *)
Definition last_status {A : Type} (f : A -> Z) : list A -> Z :=
  fix go (l : list A) : Z :=
    match l with
    | [] => 0
    | x :: r => match r with [] => f x | _ => go r end
    end.

Definition sum_nat {A : Type} (f : A -> nat) : list A -> nat :=
  fix go (l : list A) : nat := match l with [] => O | x :: r => (f x + go r)%nat end.

(* lines printed by a loop that stops at the first failure *)
Definition lines_until {A : Type} (rt : A -> Z) (ft : A -> nat) : list A -> nat :=
  fix go (l : list A) : nat :=
    match l with
    | [] => O
    | x :: r => if rt x =? 0 then (ft x + go r)%nat else ft x
    end.

(* asn1c_compile_expr: the returned status *)
Fixpoint ret (u : eunit) : Z :=
  match u with
  | UType own _ => st own
  | UParam ss => first_failure ret ss
  end.

(* asn1c_compile_expr: the number of `FATAL: Cannot compile` lines it prints (= the number of `#error` lines it emits) *)
Fixpoint fatals (u : eunit) : nat :=
  match u with
  | UType own ms => (sum_nat fatals ms + (if own then 0 else 1))%nat
  | UParam ss => (lines_until ret fatals ss + (if (first_failure ret ss =? 0)%Z then 0 else 1))%nat
  end.

(* asn1_compile over the top-level expressions of all modules *)
Definition top_ret (us : list eunit) : Z := first_failure ret us.
Definition top_fatals (us : list eunit) : nat :=
  lines_until ret (fun u => (fatals u + (if (ret u =? 0)%Z then 0 else 1))%nat) us.
(* `compile_failures`: asn1c_compile_expr counts every expression it could not compile (one per `FATAL: Cannot compile`
   line, whoever called it: top level, specialization loop or EMBED); after the loop over the top-level expressions
   asn1_compile returns -1 when the count is not zero *)
Definition exit_status (us : list eunit) : Z :=
  if (top_ret us =? 0) && Nat.eqb (top_fatals us) 0 then 0 else 70.

(* Spec side: every unit, component and specialization can be emitted *)
Fixpoint all_ok (u : eunit) : bool :=
  match u with
  | UType own ms => own && forallb all_ok ms
  | UParam ss => forallb all_ok ss
  end.

(* no EMBEDded component fails: the domain on which the status returned by asn1c_compile_expr alone tells the verdict *)
Fixpoint members_ok (u : eunit) : bool :=
  match u with
  | UType _ ms => forallb all_ok ms
  | UParam ss => forallb members_ok ss
  end.

(* the last-wins variant of the specialization loop (seeded change C10-6) and of the whole compiler *)
Fixpoint ret_last (u : eunit) : Z :=
  match u with
  | UType own _ => st own
  | UParam ss => last_status ret_last ss
  end.
Definition exit_last (us : list eunit) : Z := if first_failure ret_last us =? 0 then 0 else 70.
