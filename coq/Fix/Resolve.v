(* Fix/Resolve.v - the clause "references an undefined type" over several modules (wave 5, seeded C11-9).
   A reference is resolved through IMPORTS / EXPORTS (asn1fix_retrieve.c: asn1f_lookup_symbol_impl,
   asn1f_lookup_in_imports, asn1f_compatible_with_exports); ONE place (asn1fix_dereft.c:
   asn1f_fix_dereference_types) turns "not resolved" into the status -1 that makes asn1c exit non-zero.
   Some failing branches print a FATAL line themselves (module absent, symbol not exported) and mark the
   expression TM_BROKEN, the others are silent.  The model keeps that distinction (lookup result
   LBroken / LNotFound) so that "a FATAL line was printed => the status is fatal" can be stated. *)
From Coq Require Import List Bool Arith Lia ZArith.
Import ListNotations.

Record rmod := { rname : nat; rdefs : list nat; rimports : list (nat * list nat); rexports : option (list nat) }.

Definition mem (x : nat) (l : list nat) : bool := existsb (Nat.eqb x) l.

Fixpoint find_mod (ms : list rmod) (n : nat) : option rmod :=
  match ms with
  | [] => None
  | m :: tl => if Nat.eqb (rname m) n then Some m else find_mod tl n
  end.

(* the IMPORTS clause that lists the symbol *)
Fixpoint imp_from (imps : list (nat * list nat)) (s : nat) : option nat :=
  match imps with
  | [] => None
  | (n, syms) :: tl => if mem s syms then Some n else imp_from tl s
  end.

(* X.680 12.12/12.13: no EXPORTS clause (or EXPORTS ALL) exports everything *)
Definition exported (m : rmod) (s : nat) : bool :=
  match rexports m with None => true | Some l => mem s l end.

(* ---- specification: the reference resolves (inductive, no bound) *)
Inductive Resolves (ms : list rmod) : nat -> nat -> Prop :=
| RLocal : forall at_ s m, find_mod ms at_ = Some m -> mem s (rdefs m) = true -> Resolves ms at_ s
| RImport : forall at_ s m n t, find_mod ms at_ = Some m -> mem s (rdefs m) = false ->
    imp_from (rimports m) s = Some n -> find_mod ms n = Some t -> exported t s = true ->
    Resolves ms n s -> Resolves ms at_ s.

(* the same with the length of the chain of modules *)
Inductive ResolvesN (ms : list rmod) : nat -> nat -> nat -> Prop :=
| RNLocal : forall k at_ s m, find_mod ms at_ = Some m -> mem s (rdefs m) = true -> ResolvesN ms k at_ s
| RNImport : forall k at_ s m n t, find_mod ms at_ = Some m -> mem s (rdefs m) = false ->
    imp_from (rimports m) s = Some n -> find_mod ms n = Some t -> exported t s = true ->
    ResolvesN ms k n s -> ResolvesN ms (S k) at_ s.

(* ---- the lookup of libasn1fix: three outcomes *)
Inductive lres := LFound | LNotFound (* silent: ESRCH *) | LBroken (* FATAL printed, TM_BROKEN set *).

Fixpoint lookup (ms : list rmod) (fuel : nat) (at_ s : nat) : lres :=
  match fuel with
  | 0 => LBroken                       (* "Excessive circular referencing detected" *)
  | S f =>
    match find_mod ms at_ with
    | None => LBroken
    | Some m =>
      if mem s (rdefs m) then LFound else
      match imp_from (rimports m) s with
      | None => LNotFound
      | Some n =>
        match find_mod ms n with
        | None => LBroken              (* "Cannot find external module" *)
        | Some t => if exported t s then lookup ms f n s
                    else LBroken       (* "EXPORTS section of module ... does not contain" *)
        end
      end
    end
  end.

Definition resolve (ms : list rmod) (fuel at_ s : nat) : bool :=
  match lookup ms fuel at_ s with LFound => true | _ => false end.

(* asn1f_fix_dereference_types: every failure is fatal *)
Definition deref_status (r : lres) : Z := match r with LFound => 0%Z | _ => (-1)%Z end.
(* the variant of seeded C11-9: "already explained" is not reported again - and not counted *)
Definition deref_status_dedup (r : lres) : Z := match r with LNotFound => (-1)%Z | _ => 0%Z end.

Definition fatal_printed (r : lres) : bool := match r with LFound => false | _ => true end.
Definition exit_code (st : Z) : Z := if (st <? 0)%Z then 65%Z else 0%Z.
