(* IdenticalFilesProofs.v — theorems about coq/Fix/IdenticalFiles.v (re-exported in Props/Properties_C12.v).

   identical_iff             for every block size B > 0 and all files a, b: identical a b = true <-> a = b
                             (induction over the rounds of the loop; every length, every block count)
   identical_tail_len_blind  the length-only tail: two files that agree on a prefix of k whole blocks and have equally
                             long tails shorter than a block are declared identical — whatever the tails hold
   identical_tail_len_iff    ... and those are exactly the pairs it accepts
   identical_tail_len_refuted   a pair it accepts although the files differ
   save_type_is_fresh        the entry left by save_type / copy_skel is the one a run into an empty directory leaves,
                             whatever was there before
   save_type_tail_len_refuted   with the length-only tail a stale file survives
   link_skel_retains             the one documented dependence on the old entry (write_inplace: none since the repair) *)
From Coq Require Import List Bool Arith Lia NArith.
From A1 Require Import Fix.IdenticalFiles.
Import ListNotations.

Section Proofs.
Variable A : Type.
Variable eqb : A -> A -> bool.
Hypothesis eqb_spec : forall x y, eqb x y = true <-> x = y.
Variable B : nat.
Hypothesis Bpos : B > 0.

Lemma list_eqb_iff : forall x y, list_eqb A eqb x y = true <-> x = y.
Proof.
  induction x as [|a x IH]; destruct y as [|b y]; simpl; split; intro H; try reflexivity; try discriminate.
  - apply andb_true_iff in H. destruct H as [H1 H2]. apply eqb_spec in H1. apply IH in H2. subst. reflexivity.
  - inversion H; subst. apply andb_true_iff. split; [apply eqb_spec; reflexivity | apply IH; reflexivity].
Qed.

Lemma firstn_len_firstn : forall (l : list A) n, firstn (length (firstn n l)) l = firstn n l.
Proof.
  intros l n. rewrite firstn_length. destruct (le_lt_dec n (length l)) as [H|H].
  - rewrite Nat.min_l by lia. reflexivity.
  - rewrite Nat.min_r by lia. rewrite firstn_all. symmetry. apply firstn_all2. lia.
Qed.

Lemma skipn_len_firstn : forall (l : list A) n, skipn (length (firstn n l)) l = skipn n l.
Proof.
  intros l n. rewrite firstn_length. destruct (le_lt_dec n (length l)) as [H|H].
  - rewrite Nat.min_l by lia. reflexivity.
  - rewrite Nat.min_r by lia. rewrite skipn_all. symmetry. apply skipn_all2. lia.
Qed.

Lemma firstn_nil_inv : forall (l : list A) n, n > 0 -> firstn n l = [] -> l = [].
Proof. intros l n Hn H. destruct l; [reflexivity|]. destruct n; [lia|]. simpl in H. discriminate. Qed.

Lemma ident_go_S : forall f a b, ident_go A eqb B (S f) a b =
  match firstn B a with
  | [] => match b with [] => true | _ :: _ => false end
  | b0 => let b1 := firstn (length b0) b in
          if Nat.eqb (length b1) (length b0) && list_eqb A eqb b0 b1
          then ident_go A eqb B f (skipn B a) (skipn (length b0) b) else false
  end.
Proof. reflexivity. Qed.

(* the loop invariant: with enough fuel the loop decides equality of what is left of the two files *)
Lemma ident_go_iff : forall fuel a b, length a < fuel ->
  (ident_go A eqb B fuel a b = true <-> a = b).
Proof.
  induction fuel as [|f IH]; intros a b Hlen; [lia|].
  rewrite ident_go_S. destruct (firstn B a) as [|x b0'] eqn:E.
  - apply firstn_nil_inv in E; [|exact Bpos]. subst a.
    destruct b; split; intro H; try reflexivity; discriminate.
  - cbv zeta. set (b0 := x :: b0') in *.
    assert (Hb0 : length b0 >= 1) by (unfold b0; simpl; lia).
    assert (Ha : a = b0 ++ skipn B a) by (rewrite <- E; symmetry; apply firstn_skipn).
    assert (Hskip : length (skipn B a) < f).
    { rewrite skipn_length. assert (length a >= 1). { rewrite Ha, app_length. lia. } lia. }
    destruct (Nat.eqb (length (firstn (length b0) b)) (length b0) && list_eqb A eqb b0 (firstn (length b0) b)) eqn:C.
    + apply andb_true_iff in C. destruct C as [_ C2]. apply list_eqb_iff in C2.
      rewrite (IH (skipn B a) (skipn (length b0) b) Hskip).
      split; intro H.
      * rewrite Ha. rewrite H. rewrite C2 at 1. apply firstn_skipn.
      * subst b. rewrite <- E. rewrite skipn_len_firstn. reflexivity.
    + split; intro H; [discriminate|]. subst b.
      assert (C' : Nat.eqb (length (firstn (length b0) a)) (length b0) && list_eqb A eqb b0 (firstn (length b0) a) = true).
      { assert (F : firstn (length b0) a = b0) by (rewrite <- E; apply firstn_len_firstn).
        rewrite F. apply andb_true_iff. split; [apply Nat.eqb_refl | apply list_eqb_iff; reflexivity]. }
      rewrite C' in C. discriminate.
Qed.

Theorem identical_iff : forall a b, identical A eqb B a b = true <-> a = b.
Proof. intros a b. unfold identical. apply ident_go_iff. lia. Qed.

(* ---- the length-only tail --------------------------------------------------------------------------------------- *)

Lemma firstn_app_exact : forall (p q : list A) n, length p = n -> firstn n (p ++ q) = p.
Proof. intros p q n H. subst n. rewrite firstn_app, Nat.sub_diag, firstn_all. simpl. apply app_nil_r. Qed.

Lemma skipn_app_exact : forall (p q : list A) n, length p = n -> skipn n (p ++ q) = q.
Proof. intros p q n H. subst n. rewrite skipn_app, Nat.sub_diag, skipn_all. reflexivity. Qed.

(* agreement on k whole blocks, then equally long tails shorter than a block *)
Definition tail_confusable (a b : list A) : Prop :=
  exists k p ta tb, a = p ++ ta /\ b = p ++ tb /\ length p = k * B /\ length ta = length tb /\ length ta < B.

Lemma ident_tail_go_blind : forall k fuel p ta tb,
  length p = k * B -> length ta = length tb -> length ta < B -> length (p ++ ta) < fuel ->
  ident_tail_go A eqb B fuel (p ++ ta) (p ++ tb) = true.
Proof.
  induction k as [|k IH]; intros fuel p ta tb Hp Ht HB Hf.
  - simpl in Hp. apply length_zero_iff_nil in Hp. subst p. simpl in *.
    destruct fuel as [|f]; [lia|]. simpl.
    assert (Fa : firstn B ta = ta) by (apply firstn_all2; lia).
    assert (Fb : firstn B tb = tb) by (apply firstn_all2; lia).
    rewrite Fa, Fb. destruct (Nat.eqb (length ta) B) eqn:E.
    + apply Nat.eqb_eq in E. lia.
    + apply Nat.eqb_eq. lia.
  - destruct fuel as [|f]; [lia|].
    set (blk := firstn B p). set (p' := skipn B p).
    assert (Hsplit : p = blk ++ p') by (symmetry; apply firstn_skipn).
    assert (Hblk : length blk = B) by (unfold blk; rewrite firstn_length; simpl in Hp; lia).
    assert (Hp' : length p' = k * B) by (unfold p'; rewrite skipn_length; simpl in Hp; lia).
    rewrite Hsplit, <- !app_assoc. simpl.
    rewrite !(firstn_app_exact blk _ B Hblk), !(skipn_app_exact blk _ B Hblk).
    rewrite Hblk, Nat.eqb_refl. simpl.
    assert (L : list_eqb A eqb blk blk = true) by (apply list_eqb_iff; reflexivity).
    rewrite L. apply IH; try assumption.
    rewrite Hsplit, <- app_assoc, app_length in Hf. rewrite app_length in *. lia.
Qed.

Theorem identical_tail_len_blind : forall a b, tail_confusable a b -> identical_tail_len A eqb B a b = true.
Proof.
  intros a b (k & p & ta & tb & Ha & Hb & Hp & Ht & HB). subst a b.
  unfold identical_tail_len. apply (ident_tail_go_blind k); try assumption. lia.
Qed.

Lemma ident_tail_go_sound : forall fuel a b, length a < fuel ->
  ident_tail_go A eqb B fuel a b = true -> tail_confusable a b.
Proof.
  induction fuel as [|f IH]; intros a b Hlen H; [lia|].
  simpl in H. destruct (Nat.eqb (length (firstn B a)) B) eqn:E.
  - apply Nat.eqb_eq in E.
    destruct (Nat.eqb (length (firstn B b)) B && list_eqb A eqb (firstn B a) (firstn B b)) eqn:C; [|discriminate].
    apply andb_true_iff in C. destruct C as [_ C2]. apply list_eqb_iff in C2.
    assert (Hskip : length (skipn B a) < f).
    { rewrite skipn_length. rewrite firstn_length in E. lia. }
    destruct (IH _ _ Hskip H) as (k & p & ta & tb & Ha & Hb & Hp & Ht & HB).
    exists (S k), (firstn B a ++ p), ta, tb. repeat split; try assumption.
    + rewrite <- app_assoc, <- Ha. symmetry. apply firstn_skipn.
    + rewrite <- app_assoc, <- Hb, C2. symmetry. apply firstn_skipn.
    + rewrite app_length, E, Hp. simpl. reflexivity.
  - apply Nat.eqb_neq in E. apply Nat.eqb_eq in H.
    rewrite firstn_length in E, H. rewrite firstn_length in H.
    exists 0, [], a, b. simpl. repeat split; lia.
Qed.

Theorem identical_tail_len_iff : forall a b, identical_tail_len A eqb B a b = true <-> tail_confusable a b.
Proof.
  intros a b. split.
  - unfold identical_tail_len. apply ident_tail_go_sound. lia.
  - apply identical_tail_len_blind.
Qed.

(* ---- directory entries -------------------------------------------------------------------------------------------- *)

Theorem save_type_is_fresh : forall old new, save_type A eqb B old new = fresh_type A new.
Proof.
  intros old new. unfold save_type, save_with, fresh_type. destruct old as [|o|t]; try reflexivity.
  destruct (identical A eqb B o new) eqn:E; [|reflexivity].
  apply identical_iff in E. subst. reflexivity.
Qed.

Theorem copy_skel_is_fresh : forall old src, copy_skel A eqb B old src = fresh_type A src.
Proof. exact save_type_is_fresh. Qed.

Theorem link_skel_retains : forall old path, old <> Absent A -> link_skel A old path = old.
Proof. intros old path H. destruct old; [contradiction| |]; reflexivity. Qed.

Theorem link_skel_fresh : forall path, link_skel A (Absent A) path = fresh_link A path.
Proof. reflexivity. Qed.

Theorem write_inplace_is_fresh : forall old new, write_inplace A old new = (Reg A new, None).
Proof. reflexivity. Qed.

(* ---- a whole run -------------------------------------------------------------------------------------------------- *)

Lemma apply_op_at : forall d p w, apply_op A eqb B d (p, w) p = Reg A (content_of A w).
Proof.
  intros d p w. destruct w as [n|n|n]; simpl; unfold upd; rewrite Nat.eqb_refl.
  - apply save_type_is_fresh.
  - apply copy_skel_is_fresh.
  - reflexivity.
Qed.

Lemma apply_op_other : forall d p w q, q <> p -> apply_op A eqb B d (p, w) q = d q.
Proof.
  intros d p w q H. apply Nat.eqb_neq in H. destruct w; simpl; unfold upd; rewrite H; reflexivity.
Qed.

Lemma run_dir_cons : forall d x outs, run_dir A eqb B d (x :: outs) = run_dir A eqb B (apply_op A eqb B d x) outs.
Proof. reflexivity. Qed.

(* two directories that agree on a set of paths agree, after the same run, on that set and on every path written *)
Lemma run_dir_agree : forall outs d1 d2 (S : nat -> Prop),
  (forall q, S q -> d1 q = d2 q) ->
  forall q, S q \/ In q (map fst outs) -> run_dir A eqb B d1 outs q = run_dir A eqb B d2 outs q.
Proof.
  induction outs as [|[p w] outs IH]; intros d1 d2 S HS q Hq.
  - simpl in *. destruct Hq as [Hq|[]]. apply HS. exact Hq.
  - rewrite !run_dir_cons.
    apply (IH _ _ (fun r => S r \/ r = p)).
    + intros r Hr. destruct (Nat.eq_dec r p) as [E|E].
      * subst r. rewrite !apply_op_at. reflexivity.
      * rewrite !apply_op_other by exact E. apply HS. destruct Hr as [Hr|Hr]; [exact Hr | contradiction].
    + simpl in Hq. destruct Hq as [Hq|[Hq|Hq]].
      * left. left. exact Hq.
      * left. right. symmetry. exact Hq.
      * right. exact Hq.
Qed.

(* every file the run writes is what a run into an empty directory leaves there, whatever the directory held
   (symbolic links included: the files rewritten in place replace a link, as the per-type files and skeleton copies do) ... *)
Theorem run_dir_is_fresh : forall outs d,
  forall q, In q (map fst outs) -> run_dir A eqb B d outs q = run_dir A eqb B (empty_dir A) outs q.
Proof.
  intros outs d q Hq. apply (run_dir_agree outs d (empty_dir A) (fun _ => False)).
  - intros r [].
  - right. exact Hq.
Qed.

(* ... and everything else is left alone *)
Theorem run_dir_untouched : forall outs d q, ~ In q (map fst outs) -> run_dir A eqb B d outs q = d q.
Proof.
  induction outs as [|[p w] outs IH]; intros d q H; [reflexivity|].
  rewrite run_dir_cons. rewrite IH.
  - apply apply_op_other. intro E. apply H. left. symmetry. exact E.
  - intro Hin. apply H. right. exact Hin.
Qed.
End Proofs.

(* ---- witnesses (closed terms, bytes as N) --------------------------------------------------------------------------- *)

Lemma Neqb_spec : forall x y : N, N.eqb x y = true <-> x = y.
Proof. intros. apply N.eqb_eq. Qed.

(* block size 4, one whole block and a tail of one byte: the tails differ, the length-only tail does not see it;
   the same pair under the block size of the C *)
Theorem identical_tail_len_refuted : exists (B : nat) (a b : list N),
  B > 0 /\ a <> b /\ identical_tail_len N N.eqb B a b = true /\ identical N N.eqb B a b = false.
Proof.
  exists 4, [1;2;3;4;5]%N, [1;2;3;4;6]%N. split; [lia|]. split; [discriminate|]. split; vm_compute; reflexivity.
Qed.

Theorem identical_tail_len_refuted_4096 : exists (a b : list N),
  a <> b /\ identical_tail_len N N.eqb 4096 a b = true /\ identical N N.eqb 4096 a b = false.
Proof.
  exists [53]%N, [55]%N. split; [discriminate|]. split; vm_compute; reflexivity.
Qed.

Theorem save_type_tail_len_refuted : exists (B : nat) (old : entry N) (new : list N),
  B > 0 /\ save_type_tail_len N N.eqb B old new <> fresh_type N new.
Proof.
  exists 4096, (Reg N [53]%N), [55]%N. split; [lia|]. vm_compute. discriminate.
Qed.

(* the block size is needed: with B = 0 the loop body never runs *)
Theorem identical_block0_refuted : exists (a b : list N), a <> b /\ identical N N.eqb 0 a b = true.
Proof. exists [1]%N, []. split; [discriminate|]. vm_compute. reflexivity. Qed.

Theorem identical_N_iff : forall B a b, B > 0 -> (identical_N B a b = true <-> a = b).
Proof. intros B a b HB. unfold identical_N. apply identical_iff; [exact Neqb_spec | exact HB]. Qed.

(* non-vacuity: the case split of the sweep on a small block size — differences in a whole block, at a block edge and in
   the tail are all seen; equal files are equal *)
Example identical_examples :
  identical_N 4 [1;2;3;4;5;6;7;8;9]%N [1;2;3;4;5;6;7;8;9]%N = true /\
  identical_N 4 [1;2;3;4;5;6;7;8;9]%N [1;2;0;4;5;6;7;8;9]%N = false /\
  identical_N 4 [1;2;3;4;5;6;7;8;9]%N [1;2;3;0;5;6;7;8;9]%N = false /\
  identical_N 4 [1;2;3;4;5;6;7;8;9]%N [1;2;3;4;0;6;7;8;9]%N = false /\
  identical_N 4 [1;2;3;4;5;6;7;8;9]%N [1;2;3;4;5;6;7;8;0]%N = false /\
  identical_N 4 [1;2;3;4;5;6;7;8]%N [1;2;3;4;5;6;7;8;9]%N = false /\
  identical_N 4 [1;2;3;4;5;6;7;8;9]%N [1;2;3;4;5;6;7;8]%N = false /\
  identical_N 4 []%N []%N = true /\ identical_N 4 []%N [1]%N = false /\ identical_N 4 [1]%N []%N = false.
Proof. vm_compute. repeat split; reflexivity. Qed.

(* the former witness of C12-inplace-file-through-symlink (a directory of links), on the repaired model *)
Example run_dir_link_replaced :
  let d : dir N := fun _ => Link N 7 in
  let outs := [(0, WType N [1]%N); (1, WInplace N [2]%N)]%nat in
  run_dir N N.eqb 4096 d outs 1%nat = Reg N [2]%N /\ snd (write_inplace N (d 1%nat) [2]%N) = None.
Proof. vm_compute. split; reflexivity. Qed.

(* with the length-only tail a whole run keeps a stale per-type file *)
Theorem run_dir_tail_len_refuted : exists (d : dir N) (new : list N),
  upd N d 0 (save_type_tail_len N N.eqb 4096 (d 0) new) 0 <> upd N (empty_dir N) 0 (save_type_tail_len N N.eqb 4096 (empty_dir N 0) new) 0.
Proof.
  exists (fun _ => Reg N [53]%N), [55]%N. vm_compute. discriminate.
Qed.
