(* IdenticalFiles.v — model of libasn1compiler/asn1c_save.c:identical_files and of what asn1c does with an entry
   that is already in the output directory.

   identical_files(old, new) reads both files in blocks of B = sizeof(buf[0]) = 4096 bytes:

       while((olen = fread(buf0, 1, B, fp1))) {            -- a block of the first file: B bytes, fewer at the end
           nlen = fread(buf1, 1, olen, fp2);               -- as many bytes of the second
           if(nlen != olen || memcmp(buf0, buf1, nlen)) { retval = 0; break; }
       }
       nlen = fread(buf1, 1, 1, fp2); if(nlen) retval = 0; -- the second file must be exhausted too

   A file is the list of its bytes, fread n = (firstn n, skipn n).  The block size is a parameter: nothing below depends
   on 4096.  [identical] is that loop (fuel = one round per byte suffices, the theorem says so);
   [identical_tail_len] is the loop "whole blocks by content, the last partial block by LENGTH only" (not what the C
   does; kept to state exactly which pairs it confuses).

   Directory entries: what is at an output path before the run, and what the four ways asn1c writes a file make of it:
     save_type      per-type <T>.c / .h: temporary + identical_files ? keep the old file : rename over it
     copy_skel      real_copy() of a skeleton file: the same decision against the source file
     link_skel      -flink-skeletons: symlink(); an existing entry stays ("Retaining local ...", documented)
     write_inplace  Makefile.am.*, converter-example.mk, pdu_collection.c: open(O_WRONLY) + ftruncate in place:
                    a symbolic link that is already there is followed
   Theorems in IdenticalFilesProofs.v. *)
From Coq Require Import List Bool Arith.
Import ListNotations.

Section Files.
Variable A : Type.                       (* a byte *)
Variable eqb : A -> A -> bool.
Variable B : nat.                        (* block size *)

Fixpoint list_eqb (x y : list A) : bool :=
  match x, y with
  | [], [] => true
  | a :: x', b :: y' => eqb a b && list_eqb x' y'
  | _, _ => false
  end.

(* one round of the while loop per unit of fuel *)
Fixpoint ident_go (fuel : nat) (a b : list A) : bool :=
  match fuel with
  | O => false
  | S f =>
      match firstn B a with
      | [] => match b with [] => true | _ :: _ => false end        (* olen = 0: fread(buf1, 1, 1, fp2) *)
      | b0 =>
          let b1 := firstn (length b0) b in
          if Nat.eqb (length b1) (length b0) && list_eqb b0 b1
          then ident_go f (skipn B a) (skipn (length b0) b)
          else false
      end
  end.

Definition identical (a b : list A) : bool := ident_go (S (length a)) a b.

(* the variant: `while((olen = fread(buf0, 1, B, fp1)) == B)` compares whole blocks; afterwards
   `nlen = fread(buf1, 1, B, fp2); if(nlen != olen) retval = 0;` — the tails only have to be equally long *)
Fixpoint ident_tail_go (fuel : nat) (a b : list A) : bool :=
  match fuel with
  | O => false
  | S f =>
      let b0 := firstn B a in
      if Nat.eqb (length b0) B
      then let b1 := firstn B b in
           if Nat.eqb (length b1) B && list_eqb b0 b1
           then ident_tail_go f (skipn B a) (skipn B b)
           else false
      else Nat.eqb (length (firstn B b)) (length b0)
  end.

Definition identical_tail_len (a b : list A) : bool := ident_tail_go (S (length a)) a b.

(* ---- directory entries ---------------------------------------------------------------------------------------- *)
Inductive entry : Type :=
| Absent
| Reg (content : list A)
| Link (target : nat).                   (* a symbolic link; the number says where it points *)

Section Ops.
Variable same : list A -> list A -> bool.     (* the comparison in use: identical / identical_tail_len *)

Definition save_with (old : entry) (new : list A) : entry :=
  match old with
  | Reg o => if same o new then Reg o else Reg new           (* unlink(tmp) : rename(tmp, name) *)
  | _ => Reg new                                             (* lstat: not a regular file -> rename over it *)
  end.
End Ops.

Definition save_type (old : entry) (new : list A) : entry := save_with identical old new.
Definition copy_skel (old : entry) (src : list A) : entry := save_with identical old src.
Definition save_type_tail_len (old : entry) (new : list A) : entry := save_with identical_tail_len old new.

Definition link_skel (old : entry) (path : nat) : entry :=
  match old with
  | Absent => Link path
  | e => e                                                   (* EEXIST: "Retaining local" / "already here" *)
  end.

(* the four files rewritten in place (asn1c_open_file without a temporary name): an existing regular file is truncated and
   rewritten, a symbolic link under the name is unlinked and a regular file is created in its place; nothing is ever written to
   the file a link points to (second component: always None) *)
Definition write_inplace (old : entry) (new : list A) : entry * option (list A) := (Reg new, None).

(* what a run into an empty directory leaves at the path *)
Definition fresh_type (new : list A) : entry := Reg new.
Definition fresh_link (path : nat) : entry := Link path.

(* ---- a whole run in the copy modes: the output directory as a map from paths to entries; asn1c writes its files in a fixed
   order, each through one of the three operations (the same path may be written more than once: converter-example.c is
   copied for both example makefiles, pdu_collection.c is generated twice) *)
Definition dir : Type := nat -> entry.
Definition empty_dir : dir := fun _ => Absent.
Definition upd (d : dir) (p : nat) (e : entry) : dir := fun q => if Nat.eqb q p then e else d q.

Inductive wop : Type :=
| WType (new : list A)
| WCopy (src : list A)
| WInplace (new : list A).

Definition content_of (w : wop) : list A := match w with WType n => n | WCopy n => n | WInplace n => n end.

Definition apply_op (d : dir) (pw : nat * wop) : dir :=
  match pw with
  | (p, WType n) => upd d p (save_type (d p) n)
  | (p, WCopy n) => upd d p (copy_skel (d p) n)
  | (p, WInplace n) => upd d p (fst (write_inplace (d p) n))
  end.

Definition run_dir (d : dir) (outs : list (nat * wop)) : dir := fold_left apply_op outs d.

End Files.

(* instance for the front end: bytes as N *)
From Coq Require Import NArith.
Definition identical_N (B : nat) (a b : list N) : bool := identical N N.eqb B a b.
Definition identical_tail_len_N (B : nat) (a b : list N) : bool := identical_tail_len N N.eqb B a b.

(* instance for the front end (ocaml/drv_c12d.ml): bytes as Z, like Drvlib.bytes_of_hex delivers them *)
From Coq Require Import ZArith.
Definition identical_Z (B : nat) (a b : list Z) : bool := identical Z Z.eqb B a b.
Definition save_type_Z (B : nat) (old : entry Z) (new : list Z) : entry Z := save_type Z Z.eqb B old new.
Definition copy_skel_Z (B : nat) (old : entry Z) (src : list Z) : entry Z := copy_skel Z Z.eqb B old src.
Definition link_skel_Z (old : entry Z) (path : nat) : entry Z := link_skel Z old path.
Definition write_inplace_Z (old : entry Z) (new : list Z) : entry Z * option (list Z) := write_inplace Z old new.
