(* PullupProofs.v — the memoising in-place algorithm of Pullup.v computes the order-free
   specification, whatever the order of the module list; the "seeded" variant does not. *)
From Coq Require Import ZArith List Bool Arith Lia Permutation.
From A1 Require Import Fix.Pullup.
Import ListNotations.

(* ------------------------------------------------------------------ *)
(* generic list helpers                                                *)
(* ------------------------------------------------------------------ *)
Lemma flat_map_ext_F : forall (A B : Type) (f g : A -> list B) (P : A -> Prop) l,
  Forall P l -> (forall x, P x -> f x = g x) -> flat_map f l = flat_map g l.
Proof.
  intros A B f g P l F H. induction F as [|x l Hx F IH]; simpl; auto.
  rewrite IH, (H x Hx). reflexivity.
Qed.

Lemma Forall_flat_map' : forall (A B : Type) (f : A -> list B) (P : B -> Prop) l,
  (forall x, In x l -> Forall P (f x)) -> Forall P (flat_map f l).
Proof.
  intros A B f P l. induction l as [|a l IH]; intros H; simpl.
  - constructor.
  - apply Forall_app. split.
    + apply H. left. reflexivity.
    + apply IH. intros x Hx. apply H. right. exact Hx.
Qed.

(* ------------------------------------------------------------------ *)
(* well-formedness                                                     *)
(* ------------------------------------------------------------------ *)
Lemma tdef_ok_nth : forall l k i,
  types_ok k l = true -> tdef_ok (k + i) (nth i l (mkT 0 None [])) = true.
Proof.
  induction l as [|d l IH]; intros k i H.
  - destruct i; reflexivity.
  - simpl in H. apply andb_true_iff in H. destruct H as [H1 H2].
    destruct i.
    + simpl. rewrite Nat.add_0_r. exact H1.
    + simpl nth. replace (k + S i) with (S k + i) by lia. apply IH. exact H2.
Qed.

Section W.
Variable w : world.
Hypothesis WF : wf_world w = true.

Lemma wf_tdef : forall t, tdef_ok t (tdef_of w t) = true.
Proof. intros t. apply (tdef_ok_nth (w_types w) 0 t). exact WF. Qed.

Lemma wf_parent : forall t p, t_parent (tdef_of w t) = Some p -> p < t.
Proof.
  intros t p H. pose proof (wf_tdef t) as Hd. unfold tdef_ok in Hd.
  apply andb_true_iff in Hd. destruct Hd as [Hd _]. rewrite H in Hd.
  apply Nat.ltb_lt. exact Hd.
Qed.

Lemma wf_own : forall t, Forall (fun e => cel_ok t e = true) (t_own (tdef_of w t)).
Proof.
  intros t. pose proof (wf_tdef t) as Hd. unfold tdef_ok in Hd.
  apply andb_true_iff in Hd. destruct Hd as [_ Hd].
  apply Forall_forall. apply forallb_forall. exact Hd.
Qed.

(* ------------------------------------------------------------------ *)
(* the specification, one step at a time                               *)
(* ------------------------------------------------------------------ *)
Definition resf (sp : nat -> option (list cel)) (e : cel) : list cel :=
  match e with
  | Lit _ _ => [e]
  | VRef lo v => [Lit lo (vval w v)]
  | Incl u => match sp u with Some l => l | None => [Incl u] end
  end.

Definition parf (sp : nat -> option (list cel)) (t : nat) : option (list cel) :=
  match t_parent (tdef_of w t) with Some p => sp p | None => None end.

Definition sbody (sp : nat -> option (list cel)) (t : nat) : option (list cel) :=
  match parf sp t, t_own (tdef_of w t) with
  | None, [] => None
  | _, _ => Some (olist (parf sp t) ++ flat_map (resf sp) (t_own (tdef_of w t)))
  end.

Lemma spec_c_S : forall f t, spec_c w (S f) t = sbody (spec_c w f) t.
Proof. reflexivity. Qed.

Lemma sbody_ext : forall sp1 sp2 t,
  (forall u, u < t -> sp1 u = sp2 u) -> sbody sp1 t = sbody sp2 t.
Proof.
  intros sp1 sp2 t H. unfold sbody.
  assert (Hp : parf sp1 t = parf sp2 t).
  { unfold parf. destruct (t_parent (tdef_of w t)) eqn:E; auto.
    apply H. apply wf_parent. exact E. }
  assert (Ho : flat_map (resf sp1) (t_own (tdef_of w t))
             = flat_map (resf sp2) (t_own (tdef_of w t))).
  { apply flat_map_ext_F with (P := fun e => cel_ok t e = true).
    - apply wf_own.
    - intros e He. destruct e; simpl; auto.
      simpl in He. apply Nat.ltb_lt in He. rewrite (H u He). reflexivity. }
  rewrite Hp, Ho. reflexivity.
Qed.

Lemma spec_c_fuel : forall n t f1 f2,
  t < n -> t < f1 -> t < f2 -> spec_c w f1 t = spec_c w f2 t.
Proof.
  induction n; intros t f1 f2 Hn H1 H2; [lia|].
  destruct f1; [lia|]. destruct f2; [lia|].
  rewrite !spec_c_S. apply sbody_ext. intros u Hu. apply IHn; lia.
Qed.

Lemma spec_unfold : forall t, spec w t = sbody (spec w) t.
Proof.
  intros t. change (spec w t) with (spec_c w (S t) t).
  rewrite spec_c_S. apply sbody_ext. intros u Hu.
  unfold spec. apply (spec_c_fuel (S u)); lia.
Qed.

Definition res : cel -> list cel := resf (spec w).
Definition spec_par (t : nat) : option (list cel) := parf (spec w) t.
Definition spec_own (t : nat) : list cel := flat_map res (t_own (tdef_of w t)).

Lemma spec_some_par : forall t lp,
  spec_par t = Some lp -> spec w t = Some (lp ++ spec_own t).
Proof.
  intros t lp H. rewrite spec_unfold. unfold sbody.
  fold (spec_par t). rewrite H. reflexivity.
Qed.

Lemma spec_none_nil : forall t,
  spec_par t = None -> t_own (tdef_of w t) = [] -> spec w t = None.
Proof.
  intros t H H0. rewrite spec_unfold. unfold sbody.
  fold (spec_par t). rewrite H, H0. reflexivity.
Qed.

Lemma spec_none_cons : forall t,
  spec_par t = None -> t_own (tdef_of w t) <> [] -> spec w t = Some (spec_own t).
Proof.
  intros t H H0. rewrite spec_unfold. unfold sbody. unfold spec_own.
  fold (spec_par t). rewrite H.
  destruct (t_own (tdef_of w t)) eqn:E; [congruence|]. reflexivity.
Qed.

(* ------------------------------------------------------------------ *)
(* every Some the specification returns is non-empty                   *)
(* ------------------------------------------------------------------ *)
Lemma spec_nonempty_n : forall n t l, t < n -> spec w t = Some l -> l <> [].
Proof.
  induction n; intros t l Hn Hs; [lia|].
  destruct (spec_par t) as [lp|] eqn:Ep.
  - rewrite (spec_some_par t lp Ep) in Hs. injection Hs as <-.
    unfold spec_par, parf in Ep.
    destruct (t_parent (tdef_of w t)) as [p|] eqn:Et; [|discriminate].
    assert (Hl : lp <> []).
    { apply (IHn p); [apply wf_parent in Et; lia|exact Ep]. }
    destruct lp; [congruence|simpl; discriminate].
  - destruct (t_own (tdef_of w t)) as [|e r] eqn:Eo.
    + rewrite (spec_none_nil t Ep Eo) in Hs. discriminate.
    + rewrite (spec_none_cons t Ep) in Hs by (rewrite Eo; discriminate).
      injection Hs as <-. unfold spec_own. rewrite Eo. simpl.
      pose proof (wf_own t) as F. rewrite Eo in F. inversion F as [|? ? He _]; subst.
      destruct e as [lo hi|lo v|u]; simpl; try discriminate.
      destruct (spec w u) as [lu|] eqn:Eu.
      * assert (Hl : lu <> []).
        { apply (IHn u); [simpl in He; apply Nat.ltb_lt in He; lia|exact Eu]. }
        destruct lu; [congruence|simpl; discriminate].
      * simpl. discriminate.
Qed.

Lemma spec_nonempty : forall t l, spec w t = Some l -> l <> [].
Proof. intros t l. apply (spec_nonempty_n (S t)). lia. Qed.

Lemma res_nonempty : forall e, res e <> [].
Proof.
  intros e. destruct e as [lo hi|lo v|u]; unfold res; simpl; try discriminate.
  destruct (spec w u) as [lu|] eqn:Eu; [|discriminate].
  apply (spec_nonempty u). exact Eu.
Qed.

Lemma spec_own_nil : forall t, spec_own t = [] -> t_own (tdef_of w t) = [].
Proof.
  intros t H. unfold spec_own in H.
  destruct (t_own (tdef_of w t)) as [|e r]; [reflexivity|].
  simpl in H. apply app_eq_nil in H. destruct H as [H _].
  exfalso. exact (res_nonempty e H).
Qed.

(* ------------------------------------------------------------------ *)
(* resolved lists are stable: resolving them again changes nothing     *)
(* ------------------------------------------------------------------ *)
Definition stab (t : nat) (e : cel) : Prop :=
  match e with
  | Lit _ _ => True
  | VRef _ _ => False
  | Incl u => u < t /\ spec w u = None
  end.

Lemma stab_mono : forall t t' e, t <= t' -> stab t e -> stab t' e.
Proof. intros t t' e H. destruct e; simpl; auto. intros [H1 H2]. split; [lia|exact H2]. Qed.

Lemma Forall_stab_mono : forall t t' l, t <= t' -> Forall (stab t) l -> Forall (stab t') l.
Proof.
  intros t t' l H F. induction F; constructor; auto. eapply stab_mono; eauto.
Qed.

Lemma res_stab : forall t e,
  (forall u l, u < t -> spec w u = Some l -> Forall (stab u) l) ->
  cel_ok t e = true -> Forall (stab t) (res e).
Proof.
  intros t e IH He. destruct e as [lo hi|lo v|u]; unfold res; simpl.
  - constructor; simpl; auto.
  - constructor; simpl; auto.
  - simpl in He. apply Nat.ltb_lt in He.
    destruct (spec w u) as [lu|] eqn:Eu.
    + apply Forall_stab_mono with (t := u); [lia|]. apply (IH u); auto.
    + constructor; [|constructor]. simpl. auto.
Qed.

Lemma spec_own_stab_n : forall t,
  (forall u l, u < t -> spec w u = Some l -> Forall (stab u) l) ->
  Forall (stab t) (spec_own t).
Proof.
  intros t IH. unfold spec_own. apply Forall_flat_map'.
  intros e He. apply res_stab; auto.
  pose proof (wf_own t) as F. rewrite Forall_forall in F. apply F. exact He.
Qed.

Lemma spec_stab_n : forall n t l, t < n -> spec w t = Some l -> Forall (stab t) l.
Proof.
  induction n; intros t l Hn Hs; [lia|].
  assert (IH : forall u lu, u < t -> spec w u = Some lu -> Forall (stab u) lu).
  { intros u lu Hu. apply IHn. lia. }
  destruct (spec_par t) as [lp|] eqn:Ep.
  - rewrite (spec_some_par t lp Ep) in Hs. injection Hs as <-.
    apply Forall_app. split; [|apply spec_own_stab_n; exact IH].
    unfold spec_par, parf in Ep.
    destruct (t_parent (tdef_of w t)) as [p|] eqn:Et; [|discriminate].
    apply wf_parent in Et.
    apply Forall_stab_mono with (t := p); [lia|]. apply (IH p); auto.
  - destruct (t_own (tdef_of w t)) as [|e r] eqn:Eo.
    + rewrite (spec_none_nil t Ep Eo) in Hs. discriminate.
    + rewrite (spec_none_cons t Ep) in Hs by (rewrite Eo; discriminate).
      injection Hs as <-. apply spec_own_stab_n; exact IH.
Qed.

Lemma spec_stab : forall t l, spec w t = Some l -> Forall (stab t) l.
Proof. intros t l. apply (spec_stab_n (S t)). lia. Qed.

Lemma spec_own_stab : forall t, Forall (stab t) (spec_own t).
Proof. intros t. apply spec_own_stab_n. intros u l _. apply spec_stab. Qed.

Lemma stab_cel_ok : forall t l, Forall (stab t) l -> Forall (fun e => cel_ok t e = true) l.
Proof.
  intros t l F. induction F as [|e l He F IH]; constructor; auto.
  destruct e; simpl in *; auto. apply Nat.ltb_lt. tauto.
Qed.

Lemma stab_idem : forall t l, Forall (stab t) l -> flat_map res l = l.
Proof.
  intros t l F. induction F as [|e l He F IH]; simpl; auto.
  rewrite IH. destruct e as [lo hi|lo v|u]; unfold res; simpl in *.
  - reflexivity.
  - contradiction.
  - destruct He as [_ He]. rewrite He. reflexivity.
Qed.

(* ------------------------------------------------------------------ *)
(* the invariant of the mutable state                                  *)
(* ------------------------------------------------------------------ *)
Definition Inv (st : state) : Prop := forall t,
  (own st t = t_own (tdef_of w t) \/ own st t = spec_own t) /\
  (comb st t = None \/ comb st t = spec w t).

Definition Keep (st st' : state) : Prop :=
  forall x, comb st x = spec w x -> comb st' x = spec w x.

Lemma Keep_refl : forall st, Keep st st.
Proof. intros st x H. exact H. Qed.

Lemma Keep_trans : forall a b c, Keep a b -> Keep b c -> Keep a c.
Proof. intros a b c H1 H2 x H. apply H2. apply H1. exact H. Qed.

Lemma Inv_init : Inv (init w).
Proof. intros t. simpl. auto. Qed.

Lemma Inv_set_comb : forall st t X, Inv st -> spec w t = Some X -> Inv (set_comb st t X).
Proof.
  intros st t X HI HX x. destruct (HI x) as [Ho Hc]. split.
  - exact Ho.
  - simpl. destruct (Nat.eqb x t) eqn:E.
    + apply Nat.eqb_eq in E. subst x. right. symmetry. exact HX.
    + exact Hc.
Qed.

Lemma Keep_set_comb : forall st t X, spec w t = Some X -> Keep st (set_comb st t X).
Proof.
  intros st t X HX x H. simpl. destruct (Nat.eqb x t) eqn:E.
  - apply Nat.eqb_eq in E. subst x. symmetry. exact HX.
  - exact H.
Qed.

Lemma comb_set_comb_same : forall st t X, comb (set_comb st t X) t = Some X.
Proof. intros. simpl. rewrite Nat.eqb_refl. reflexivity. Qed.

Lemma Inv_set_own : forall st t, Inv st -> Inv (set_own st t (spec_own t)).
Proof.
  intros st t HI x. destruct (HI x) as [Ho Hc]. split.
  - simpl. destruct (Nat.eqb x t) eqn:E.
    + apply Nat.eqb_eq in E. subst x. right. reflexivity.
    + exact Ho.
  - exact Hc.
Qed.

Lemma Keep_set_own : forall st t l, Keep st (set_own st t l).
Proof. intros st t l x H. exact H. Qed.

Lemma own_set_own_same : forall st t l, own (set_own st t l) t = l.
Proof. intros. simpl. rewrite Nat.eqb_refl. reflexivity. Qed.

Lemma Inv_own_nil : forall st t, Inv st -> own st t = [] -> t_own (tdef_of w t) = [].
Proof.
  intros st t HI H. destruct (HI t) as [[Ho|Ho] _].
  - rewrite <- Ho. exact H.
  - apply spec_own_nil. rewrite <- Ho. exact H.
Qed.

Lemma Inv_own_cons : forall st t c l, Inv st -> own st t = c :: l -> t_own (tdef_of w t) <> [].
Proof.
  intros st t c l HI H E. destruct (HI t) as [[Ho|Ho] _].
  - rewrite Ho, E in H. discriminate.
  - unfold spec_own in Ho. rewrite E in Ho. simpl in Ho. rewrite Ho in H. discriminate.
Qed.

(* resolving the current own list of a type gives the specified own list *)
Lemma Inv_own_res : forall st t, Inv st ->
  Forall (fun e => cel_ok t e = true) (own st t) /\ flat_map res (own st t) = spec_own t.
Proof.
  intros st t HI. destruct (HI t) as [[Ho|Ho] _]; rewrite Ho.
  - split; [apply wf_own|reflexivity].
  - split.
    + apply stab_cel_ok. apply spec_own_stab.
    + apply (stab_idem t). apply spec_own_stab.
Qed.

(* ------------------------------------------------------------------ *)
(* one-step unfoldings                                                 *)
(* ------------------------------------------------------------------ *)
Lemma resolve_els_nil : forall pull st, resolve_els w pull st [] = (st, []).
Proof. reflexivity. Qed.

Lemma resolve_els_cons : forall pull st e r,
  resolve_els w pull st (e :: r) =
  let '(st1, l1) :=
    match e with
    | Lit _ _ => (st, [e])
    | VRef lo v => (st, [Lit lo (vval w v)])
    | Incl u =>
        let s' := pull st u in
        match comb s' u with Some l => (s', l) | None => (s', [Incl u]) end
    end in
  let '(st2, l2) := resolve_els w pull st1 r in (st2, l1 ++ l2).
Proof. reflexivity. Qed.

Lemma pullup_S : forall f cur st t,
  pullup w false (S f) cur st t =
  match comb st t with
  | Some _ => st
  | None =>
    let st1 := match t_parent (tdef_of w t) with
               | Some p => pullup w false f cur st p | None => st end in
    let cp := match t_parent (tdef_of w t) with
              | Some p => comb st1 p | None => None end in
    match cp, own st1 t with
    | None, [] => st1
    | _, _ =>
      set_comb (resolve_own w false f cur st1 t) t
               (olist cp ++ own (resolve_own w false f cur st1 t) t)
    end
  end.
Proof. reflexivity. Qed.

Lemma resolve_own_S : forall f cur st t,
  resolve_own w false (S f) cur st t =
  let '(st', l) :=
    resolve_els w (fun s u => pullup w false f (t_mod (tdef_of w u)) s u) st (own st t) in
  set_own st' t l.
Proof. reflexivity. Qed.

(* ------------------------------------------------------------------ *)
(* resolve_els under a correct [pull]                                  *)
(* ------------------------------------------------------------------ *)
Lemma resolve_els_ok : forall t pull,
  (forall st u, u < t -> Inv st ->
     Inv (pull st u) /\ Keep st (pull st u) /\ comb (pull st u) u = spec w u) ->
  forall l st st' l',
  Forall (fun e => cel_ok t e = true) l -> Inv st ->
  resolve_els w pull st l = (st', l') ->
  Inv st' /\ Keep st st' /\ l' = flat_map res l.
Proof.
  intros t pull HP. induction l as [|e r IH]; intros st st' l' F HI E.
  - rewrite resolve_els_nil in E. injection E as <- <-.
    split; [exact HI|]. split; [apply Keep_refl|reflexivity].
  - rewrite resolve_els_cons in E. inversion F as [|? ? He Fr]; subst.
    destruct e as [lo hi|lo v|u].
    + destruct (resolve_els w pull st r) as [st2 l2] eqn:E2.
      injection E as <- <-.
      destruct (IH st st2 l2 Fr HI E2) as (I2 & K2 & L2).
      split; [exact I2|]. split; [exact K2|]. rewrite L2. reflexivity.
    + destruct (resolve_els w pull st r) as [st2 l2] eqn:E2.
      injection E as <- <-.
      destruct (IH st st2 l2 Fr HI E2) as (I2 & K2 & L2).
      split; [exact I2|]. split; [exact K2|]. rewrite L2. reflexivity.
    + simpl in He. apply Nat.ltb_lt in He.
      destruct (HP st u He HI) as (I1 & K1 & C1).
      cbv zeta in E. rewrite C1 in E.
      assert (EE : (let '(st1, l1) := (pull st u, res (Incl u)) in
                    let '(st2, l2) := resolve_els w pull st1 r in (st2, l1 ++ l2)) = (st', l')).
      { rewrite <- E. unfold res. simpl. destruct (spec w u); reflexivity. }
      clear E. cbv beta iota in EE.
      destruct (resolve_els w pull (pull st u) r) as [st2 l2] eqn:E2.
      injection EE as <- <-.
      destruct (IH (pull st u) st2 l2 Fr I1 E2) as (I2 & K2 & L2).
      split; [exact I2|]. split; [eapply Keep_trans; eauto|].
      rewrite L2. reflexivity.
Qed.

(* ------------------------------------------------------------------ *)
(* the main mutual statement                                           *)
(* ------------------------------------------------------------------ *)
Definition PullOK (f : nat) : Prop := forall cur st t, 2 * t + 2 <= f -> Inv st ->
  Inv (pullup w false f cur st t) /\ Keep st (pullup w false f cur st t) /\
  comb (pullup w false f cur st t) t = spec w t.

Definition ResOK (f : nat) : Prop := forall cur st t, 2 * t + 1 <= f -> Inv st ->
  Inv (resolve_own w false f cur st t) /\ Keep st (resolve_own w false f cur st t) /\
  own (resolve_own w false f cur st t) t = spec_own t.

(* the part of pullup after the parent has been pulled up *)
Lemma pull_tail : forall f cur st st1 t cp,
  ResOK f -> 2 * t + 1 <= f -> Inv st1 -> Keep st st1 -> cp = spec_par t ->
  let r := match cp, own st1 t with
           | None, [] => st1
           | _, _ => set_comb (resolve_own w false f cur st1 t) t
                              (olist cp ++ own (resolve_own w false f cur st1 t) t)
           end in
  Inv r /\ Keep st r /\ comb r t = spec w t.
Proof.
  intros f cur st st1 t cp HR Hf I1 K1 Hcp. subst cp.
  destruct (HR cur st1 t Hf I1) as (I2 & K2 & O2).
  destruct (spec_par t) as [lp|] eqn:Ep.
  - cbv zeta. cbv beta iota. rewrite O2. simpl olist.
    pose proof (spec_some_par t lp Ep) as Hs.
    split; [apply Inv_set_comb; assumption|].
    split.
    + eapply Keep_trans; [exact K1|]. eapply Keep_trans; [exact K2|].
      apply Keep_set_comb. exact Hs.
    + rewrite comb_set_comb_same. symmetry. exact Hs.
  - destruct (own st1 t) as [|c l] eqn:Eo.
    + cbv zeta. cbv beta iota.
      pose proof (spec_none_nil t Ep (Inv_own_nil st1 t I1 Eo)) as Hs.
      split; [exact I1|]. split; [exact K1|].
      destruct (I1 t) as [_ [Hc|Hc]]; congruence.
    + cbv zeta. cbv beta iota. rewrite O2. simpl olist. simpl app.
      pose proof (spec_none_cons t Ep (Inv_own_cons st1 t c l I1 Eo)) as Hs.
      split; [apply Inv_set_comb; assumption|].
      split.
      * eapply Keep_trans; [exact K1|]. eapply Keep_trans; [exact K2|].
        apply Keep_set_comb. exact Hs.
      * rewrite comb_set_comb_same. symmetry. exact Hs.
Qed.

Lemma main : forall f, PullOK f /\ ResOK f.
Proof.
  induction f as [|f [IHp IHr]].
  - split; intros cur st t Hf; lia.
  - split.
    + intros cur st t Hf HI. rewrite pullup_S.
      destruct (comb st t) as [l0|] eqn:Ec.
      * split; [exact HI|]. split; [apply Keep_refl|].
        destruct (HI t) as [_ [H|H]]; congruence.
      * cbv zeta.
        destruct (t_parent (tdef_of w t)) as [p|] eqn:Et.
        -- pose proof (wf_parent t p Et) as Hp.
           destruct (IHp cur st p ltac:(lia) HI) as (I1 & K1 & C1).
           apply (pull_tail f cur st (pullup w false f cur st p) t
                            (comb (pullup w false f cur st p) p)); auto; try lia.
           rewrite C1. unfold spec_par, parf. rewrite Et. reflexivity.
        -- apply (pull_tail f cur st st t None); auto; try lia.
           ++ apply Keep_refl.
           ++ unfold spec_par, parf. rewrite Et. reflexivity.
    + intros cur st t Hf HI. rewrite resolve_own_S.
      destruct (resolve_els w (fun s u => pullup w false f (t_mod (tdef_of w u)) s u) st (own st t))
        as [st' l] eqn:E.
      destruct (Inv_own_res st t HI) as [Fo Ro].
      apply (resolve_els_ok t) in E; auto.
      * destruct E as (I2 & K2 & L2). subst l. rewrite Ro.
        split; [apply Inv_set_own; exact I2|].
        split; [eapply Keep_trans; [exact K2|apply Keep_set_own]|].
        apply own_set_own_same.
      * intros s u Hu Hs. apply IHp; [lia|exact Hs].
Qed.

(* ------------------------------------------------------------------ *)
(* the two phases over one module, then over the module list           *)
(* ------------------------------------------------------------------ *)
Definition len := length (w_types w).
Definition F := fuel_of w.

Lemma fuel_ok : forall t, t < len -> 2 * t + 2 <= F /\ 2 * t + 1 <= F.
Proof. intros t H. unfold F, fuel_of, len in *. lia. Qed.

Lemma phase1_types : forall cur ts st,
  Forall (fun t => t < len) ts -> Inv st ->
  Inv (fold_left (fun s t => resolve_own w false F cur s t) ts st) /\
  Keep st (fold_left (fun s t => resolve_own w false F cur s t) ts st).
Proof.
  intros cur ts. induction ts as [|t ts IH]; intros st Ft HI; simpl.
  - split; [exact HI|apply Keep_refl].
  - inversion Ft as [|? ? Ht Fts]; subst.
    destruct (proj2 (main F) cur st t (proj2 (fuel_ok t Ht)) HI) as (I1 & K1 & _).
    destruct (IH _ Fts I1) as (I2 & K2).
    split; [exact I2|eapply Keep_trans; eauto].
Qed.

Lemma phase2_types : forall cur ts st,
  Forall (fun t => t < len) ts -> Inv st ->
  let st' := fold_left (fun s t => pullup w false F cur (resolve_own w false F cur s t) t) ts st in
  Inv st' /\ Keep st st' /\ (forall t, In t ts -> comb st' t = spec w t).
Proof.
  intros cur ts. induction ts as [|t ts IH]; intros st Ft HI; simpl.
  - split; [exact HI|]. split; [apply Keep_refl|]. intros t [].
  - inversion Ft as [|? ? Ht Fts]; subst.
    destruct (fuel_ok t Ht) as [Hf2 Hf1].
    destruct (proj2 (main F) cur st t Hf1 HI) as (I1 & K1 & _).
    destruct (proj1 (main F) cur _ t Hf2 I1) as (I2 & K2 & C2).
    destruct (IH _ Fts I2) as (I3 & K3 & C3).
    split; [exact I3|]. split.
    + eapply Keep_trans; [exact K1|]. eapply Keep_trans; [exact K2|exact K3].
    + intros x [Hx|Hx].
      * subst x. apply K3. exact C2.
      * apply C3. exact Hx.
Qed.

Definition mods_lt (ms : list module) : Prop :=
  Forall (fun m : module => Forall (fun t => t < len) (snd m)) ms.

Lemma mods_ok_lt : forall ms, mods_ok w ms = true -> mods_lt ms.
Proof.
  intros ms H. unfold mods_ok in H. apply Forall_forall. intros m Hm.
  rewrite forallb_forall in H. specialize (H m Hm).
  apply Forall_forall. intros t Ht. rewrite forallb_forall in H.
  apply Nat.ltb_lt. apply H. exact Ht.
Qed.

Lemma phase1_mods : forall ms st, mods_lt ms -> Inv st ->
  Inv (fold_left (phase1 w false F) ms st).
Proof.
  induction ms as [|m ms IH]; intros st Fm HI; simpl.
  - exact HI.
  - inversion Fm as [|? ? Hm Fms]; subst. apply IH; [exact Fms|].
    unfold phase1. apply phase1_types; assumption.
Qed.

Lemma phase2_mods : forall ms st, mods_lt ms -> Inv st ->
  let st' := fold_left (phase2 w false F) ms st in
  Inv st' /\ Keep st st' /\ (forall t, In t (flat_map snd ms) -> comb st' t = spec w t).
Proof.
  induction ms as [|m ms IH]; intros st Fm HI; simpl.
  - split; [exact HI|]. split; [apply Keep_refl|]. intros t [].
  - inversion Fm as [|? ? Hm Fms]; subst.
    destruct (phase2_types (fst m) (snd m) st Hm HI) as (I1 & K1 & C1).
    fold (phase2 w false F st m) in I1, K1, C1.
    destruct (IH _ Fms I1) as (I2 & K2 & C2).
    split; [exact I2|]. split; [eapply Keep_trans; eauto|].
    intros t Ht. apply in_app_or in Ht. destruct Ht as [Ht|Ht].
    + apply K2. apply C1. exact Ht.
    + apply C2. exact Ht.
Qed.

Lemma fixall_spec_W : forall ms t,
  mods_ok w ms = true -> In t (flat_map snd ms) -> combined w false ms t = spec w t.
Proof.
  intros ms t Hm Ht. unfold combined, fixall. fold F.
  apply mods_ok_lt in Hm.
  pose proof (phase1_mods ms (init w) Hm Inv_init) as I1.
  destruct (phase2_mods ms _ Hm I1) as (_ & _ & C). apply C. exact Ht.
Qed.

End W.

(* ------------------------------------------------------------------ *)
(* the theorems                                                        *)
(* ------------------------------------------------------------------ *)

(* the memoising in-place algorithm, run over the modules in ANY order, computes the
   order-free specification *)
Theorem fixall_spec : forall w ms t,
  wf_world w = true -> mods_ok w ms = true -> In t (flat_map snd ms) ->
  combined w false ms t = spec w t.
Proof. intros w ms t WF Hm Ht. apply fixall_spec_W; assumption. Qed.

Lemma mods_ok_perm : forall w ms ms',
  Permutation ms ms' -> mods_ok w ms = true -> mods_ok w ms' = true.
Proof.
  intros w ms ms' P H. unfold mods_ok in *. apply forallb_forall. intros m Hm.
  rewrite forallb_forall in H. apply H.
  apply (Permutation_in m (Permutation_sym P)). exact Hm.
Qed.

Lemma in_flat_perm : forall (ms ms' : list module) t,
  Permutation ms ms' -> In t (flat_map snd ms) -> In t (flat_map snd ms').
Proof.
  intros ms ms' t P H. apply in_flat_map in H. destruct H as (m & Hm & Ht).
  apply in_flat_map. exists m. split; [|exact Ht].
  apply (Permutation_in m P). exact Hm.
Qed.

(* hence the combined constraints of every type do not depend on the order of the module list *)
Theorem combined_order_independent : forall w ms ms' t,
  wf_world w = true -> mods_ok w ms = true -> Permutation ms ms' -> In t (flat_map snd ms) ->
  combined w false ms t = combined w false ms' t.
Proof.
  intros w ms ms' t WF Hm P Ht.
  rewrite (fixall_spec w ms t WF Hm Ht).
  symmetry. apply fixall_spec.
  - exact WF.
  - apply (mods_ok_perm w ms ms' P Hm).
  - apply (in_flat_perm ms ms' t P Ht).
Qed.

(* the seeded variant is order dependent *)
Definition wdemo : world :=
  mkW [mkT 2 None [Lit 0 100]; mkT 1 None [Incl 0]; mkT 0 (Some 1) []; mkT 0 None [Incl 2]] [].
Definition mA : module := (0, [3; 2]).
Definition mB : module := (1, [1]).
Definition mC : module := (2, [0]).

Lemma perm_ABC : Permutation [mA; mB; mC] [mC; mB; mA].
Proof.
  apply perm_trans with (l' := [mB; mA; mC]); [apply perm_swap|].
  apply perm_trans with (l' := [mB; mC; mA]); [apply perm_skip; apply perm_swap|].
  apply perm_swap.
Qed.

Theorem seeded_order_dependent : exists w ms ms' t,
  wf_world w = true /\ mods_ok w ms = true /\ Permutation ms ms' /\ In t (flat_map snd ms) /\
  combined w true ms t <> combined w true ms' t.
Proof.
  exists wdemo, [mA; mB; mC], [mC; mB; mA], 1.
  split; [reflexivity|]. split; [reflexivity|]. split; [exact perm_ABC|].
  split; [simpl; tauto|].
  vm_compute. discriminate.
Qed.

(* the two seeded results, explicitly *)
Example seeded_example :
  combined wdemo true [mA; mB; mC] 1 = Some [Incl 0] /\
  combined wdemo true [mC; mB; mA] 1 = Some [Lit 0 100].
Proof. split; vm_compute; reflexivity. Qed.

(* non-vacuity: on the witness world the unseeded algorithm gives the specification in both
   orders, for every type *)
Example pullup_example :
  combined wdemo false [mA; mB; mC] 1 = Some [Lit 0 100] /\
  combined wdemo false [mC; mB; mA] 1 = Some [Lit 0 100] /\
  spec wdemo 1 = Some [Lit 0 100] /\
  map (combined wdemo false [mA; mB; mC]) [0; 1; 2; 3] = map (spec wdemo) [0; 1; 2; 3] /\
  map (combined wdemo false [mC; mB; mA]) [0; 1; 2; 3] = map (spec wdemo) [0; 1; 2; 3] /\
  spec wdemo 3 = Some [Lit 0 100].
Proof. repeat split; vm_compute; reflexivity. Qed.

Print Assumptions fixall_spec.
Print Assumptions combined_order_independent.
Print Assumptions seeded_order_dependent.
