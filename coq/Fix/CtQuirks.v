(* Fix/CtQuirks.v — NOT part of the Spec.  The four recorded deviations of asn1c
   from CtSpec.per_effective, each stated as one rule that changes the Spec; the
   check uses it as the known-finding classifier: a Spec-vs-asn1c disagreement is
   attributed to a set of findings only if the Spec changed by exactly those
   rules reproduces what asn1c printed and emitted.
     q_add    C09-additions-in-root: "e, ..., a" in a constraint whose marker
              survives contributes e | a to the root
     q_chain  C09-chain-marker-kept: in  B ::= A (c1)...(cn)  with A constrained,
              every ci keeps its marker (and additions), not only cn
     q_empty  C09-empty-union-operand: a union whose first operand is empty is empty
     q_uext   C09-unconstrained-extensible: no extension bit when the root has no
              lower bound *)
From Coq Require Import ZArith List Bool.
From A1 Require Import Fix.Crange Fix.PerOerVisible Fix.CtSpec.
Import ListNotations.
Local Open Scope Z_scope.

Record quirks := mkQ { q_add : bool; q_chain : bool; q_empty : bool; q_uext : bool }.

Fixpoint semq (qe : bool) (P : iset) (e : ess) : iset :=
  match e with
  | EVal v => mk (Fin v) (Fin v)
  | ERange lo hi => mk (endpoint P lo) (endpoint P hi)
  | EUnion a b => let sa := semq qe P a in
                  if qe && is_empty sa then [] else union sa (semq qe P b)
  | EInter a b => inter (semq qe P a) (semq qe P b)
  | EExcept a b => semq qe P a
  | EParen a => semq qe P a
  | EAllExcept a => P
  end.

Definition nonnil (l : list spec) : bool := match l with [] => false | _ => true end.

Definition stepq (q : quirks) (kept : bool) (P : iset) (s : spec) : iset :=
  let e := match s with
           | SExtAdd e a => if kept && q_add q then EUnion (EParen e) (EParen a) else e
           | _ => root_of s
           end in
  inter P (semq (q_empty q) P e).

Fixpoint fold_last (q : quirks) (all_kept : bool) (P : iset) (l : list spec) : iset :=
  match l with
  | [] => P
  | [s] => stepq q true P s
  | s :: tl => fold_last q all_kept (stepq q all_kept P s) tl
  end.

Definition effq (q : quirks) (size : bool) (chain : list (list spec)) : eff :=
  match rev (filter nonnil chain) with
  | [] => mkEff (lb (base_set size)) (ub (base_set size)) false false
  | lastl :: prev =>
      let all_kept := q_chain q && match prev with [] => false | _ => true end in
      let P := fold_left (stepq q false) (concat (rev prev)) (base_set size) in
      let r := fold_last q all_kept P lastl in
      let x := if all_kept then existsb marker lastl
               else match rev lastl with s :: _ => marker s | [] => false end in
      mkEff (lb r) (ub r) x (is_empty r)
  end.
Definition rootq (q : quirks) (size : bool) (chain : list (list spec)) : iset :=
  match rev (filter nonnil chain) with
  | [] => base_set size
  | lastl :: prev =>
      let all_kept := q_chain q && match prev with [] => false | _ => true end in
      fold_last q all_kept (fold_left (stepq q false) (concat (rev prev)) (base_set size)) lastl
  end.

Definition tablesq (q : quirks) (e : eff) : per_row :=
  let r := tables_of e in
  match p_kind r with
  | ApcUnconstrained => if q_uext q then mkRow ApcUnconstrained false (p_rbits r) (p_ebits r) (p_lo r) (p_hi r) else r
  | _ => r
  end.
