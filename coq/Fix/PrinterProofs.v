(* PrinterProofs.v — the reference parser inverts the token-level printer on every
   well-formed module AST (parse_pp), hence printing is a fixpoint of the
   print/parse cycle (pp_fixpoint).  Token level throughout: the layout
   (ppb_module) and the lexer are tied by execution only (checks/c12.py). *)
From Coq Require Import ZArith List Bool Lia Ascii.
From A1 Require Import Fix.Printer.
Import ListNotations.
Local Open Scope list_scope.

Ltac lens := repeat (cbn [length] in * || rewrite app_length in *); lia.

(* ------------------------------------------------------------ generic *)
Lemma pp_sep_one : forall A sep (f : A -> list token) x, pp_sep sep f [x] = f x.
Proof. reflexivity. Qed.

Lemma pp_sep_cons2 : forall A sep (f : A -> list token) x y l,
  pp_sep sep f (x :: y :: l) = f x ++ sep :: pp_sep sep f (y :: l).
Proof. reflexivity. Qed.

Lemma pp_sep_len_in : forall A sep (f : A -> list token) xs x,
  In x xs -> length (f x) <= length (pp_sep sep f xs).
Proof.
  induction xs as [|a xs IH]; intros x Hin; [destruct Hin|].
  destruct xs as [|b xs].
  - destruct Hin as [->|[]]. rewrite pp_sep_one. lia.
  - rewrite pp_sep_cons2, app_length. cbn [length].
    destruct Hin as [->|Hin]; [lia|]. specialize (IH x Hin). lia.
Qed.

Lemma pp_sep_len_count : forall A sep (f : A -> list token) xs,
  Forall (fun x => f x <> []) xs -> length xs <= length (pp_sep sep f xs).
Proof.
  induction xs as [|a xs IH]; intros HF; [cbn; lia|].
  inversion HF as [|? ? Ha HF']; subst.
  destruct xs as [|b xs].
  - rewrite pp_sep_one. destruct (f a); [congruence|cbn; lia].
  - rewrite pp_sep_cons2, app_length. specialize (IH HF'). cbn [length] in *. lia.
Qed.

Definition hd_not (sepb : token -> bool) (r : list token) : Prop :=
  match r with t :: _ => sepb t = false | [] => True end.

Lemma p_sep1_ok : forall A (pe : parser A) (f : A -> list token) (sep : token)
    (sepb : token -> bool) (good : list token -> Prop),
  sepb sep = true ->
  (forall r, good (sep :: r)) ->
  forall xs, xs <> [] ->
  Forall (fun x => forall r, good r -> pe (f x ++ r) = Some (x, r)) xs ->
  forall k r, length xs <= k -> good r -> hd_not sepb r ->
  p_sep1 pe sepb k (pp_sep sep f xs ++ r) = Some (xs, r).
Proof.
  intros A pe f sep sepb good Hsep Hgsep.
  induction xs as [|x xs IH]; intros Hne HF k r Hk Hg Hhd; [congruence|].
  inversion HF as [|? ? Hx HF']; subst.
  destruct k as [|k']; [cbn in Hk; lia|].
  destruct xs as [|y ys].
  - rewrite pp_sep_one. cbn [p_sep1]. rewrite (Hx r Hg).
    destruct r as [|t r0]; [reflexivity|]. cbn in Hhd. rewrite Hhd. reflexivity.
  - rewrite pp_sep_cons2, <- app_assoc. cbn [app p_sep1].
    rewrite (Hx _ (Hgsep _)). rewrite Hsep.
    rewrite (IH ltac:(congruence) HF' k' r); auto.
    cbn [length] in *. lia.
Qed.

(* ------------------------------------------------------------ values *)
Lemma vref_ok : forall x r, p_vref (pp_vref x ++ r) = Some (x, r).
Proof. intros [id|m id] r; reflexivity. Qed.

Lemma value_ok : forall v r, p_value (pp_value v ++ r) = Some (v, r).
Proof. intros [z| |[|]|bs|s|n i f|[id|m id]] r; reflexivity. Qed.

Lemma nval_ok : forall v r, p_nval (pp_nval v ++ r) = Some (v, r).
Proof. intros [z|[id|m id]] r; reflexivity. Qed.

Lemma pp_value_nonempty : forall v, pp_value v <> [].
Proof. intros [z| |[|]|bs|s|n i f|[id|m id]]; discriminate. Qed.

Lemma pp_nval_nonempty : forall v, pp_nval v <> [].
Proof. intros [z|[id|m id]]; discriminate. Qed.

(* ------------------------------------------------------------ constraints *)
Lemma wf_c_nonempty : forall l c, wf_c l c = true -> pp_constr c <> [].
Proof.
  intros l c H. destruct c; cbn [pp_constr] in *; try (cbn in *; congruence).
  - apply pp_value_nonempty.
  - destruct m; discriminate.
  - destruct lo as [| |v]; cbn; try discriminate. pose proof (pp_value_nonempty v). destruct (pp_value v); [congruence|discriminate].
  - destruct cs as [|a [|b cs]]; cbn in H; rewrite ?andb_false_r in H; try discriminate.
    rewrite pp_sep_cons2. destruct (pp_constr a); cbn; congruence.
  - destruct cs as [|a [|b cs]]; cbn in H; rewrite ?andb_false_r in H; try discriminate.
    rewrite pp_sep_cons2. destruct (pp_constr a); cbn; congruence.
  - destruct cs as [|a [|b cs]]; cbn in H; rewrite ?andb_false_r in H; try discriminate.
    rewrite pp_sep_cons2. destruct (pp_constr a); cbn; congruence.
  - destruct cs as [|a [|b cs]]; cbn in H; discriminate.
Qed.

(* follow conditions *)
Definition is_dotdot (t : token) : bool := match t with TSym DotDot | TSym Dot => true | _ => false end.
Definition okE (r : list token) : Prop := hd_not is_dotdot r.
Definition okI (r : list token) : Prop := hd_not is_dotdot r /\ hd_not is_caret r.
Definition okU (r : list token) : Prop := hd_not is_dotdot r /\ hd_not is_caret r /\ hd_not is_bar r.

Definition Uok (n : nat) : Prop := forall c r,
  wf_c LUni c = true -> length (pp_constr c) < n -> okU r ->
  p_uni n (pp_constr c ++ r) = Some (c, r).

Definition Sok (n : nat) : Prop := forall c r,
  wf_c LSpec c = true -> length (pp_constr c) < n ->
  p_spec n (pp_constr c ++ Y RParen :: r) = Some (c, Y RParen :: r).

Lemma p_upper_ok : forall hi r, hi <> EMin ->
  p_upper (pp_endpoint hi ++ r) = Some (hi, r).
Proof.
  intros [| |v] r H; try reflexivity; [congruence|].
  destruct v as [z| |[|]|bs|s|n i f|[id|m id]]; reflexivity.
Qed.

(* an element that starts with a value: single value, or the lower end of a range *)
Lemma p_elem_value : forall pu ps v r,
  p_elem pu ps (pp_value v ++ r) =
  match r with
  | TSym DotDot :: r' =>
      match p_upper r' with Some (hi, r'') => Some (CRange (EVal v) hi, r'') | None => None end
  | _ => Some (CVal v, r)
  end.
Proof.
  intros pu ps v r.
  destruct v as [z| |[|]|bs|s|n i f|[id|m id]]; cbn [pp_value pp_vref app p_elem p_ctype p_value p_vref];
    destruct r as [|t r0]; try reflexivity;
    destruct t as [s0|s0|z0|kk|p|bs0|s0|ng ip fp]; try reflexivity; destruct p; reflexivity.
Qed.

Lemma mk_constraint_notset : forall x, is_set x = false -> mk_constraint x = CSet [x].
Proof. intros x H. unfold mk_constraint. rewrite H. reflexivity. Qed.

Lemma elem_ok : forall n, Uok n -> Sok n -> forall c r,
  wf_c LElem c = true -> length (pp_constr c) <= n -> okE r ->
  p_elem (p_uni n) (p_spec n) (pp_constr c ++ r) = Some (c, r).
Proof.
  intros n HU HS c r Hwf Hlen Hr.
  destruct c; cbn [wf_c lvl_le] in Hwf; try discriminate.
  - (* CVal *)
    cbn [pp_constr]. rewrite p_elem_value. destruct r as [|t r0]; [reflexivity|].
    cbn in Hr. destruct t as [s|s|z0|k|p|bs|s|ng ip fp]; try reflexivity. destruct p; try reflexivity; discriminate.
  - (* CType *)
    destruct m as [m|]; [reflexivity|].
    cbn [pp_constr app p_elem p_ctype].
    destruct r as [|t0 r0]; [reflexivity|].
    cbn in Hr. destruct t0 as [s|s|z0|k|p|bs|s|ng ip fp]; try reflexivity. destruct p; try reflexivity; discriminate.
  - (* CRange *)
    apply andb_prop in Hwf. destruct Hwf as [Hwf _]. apply andb_prop in Hwf. destruct Hwf as [Hwf _].
    apply andb_prop in Hwf. destruct Hwf as [Hlo Hhi].
    assert (Hhi' : hi <> EMin) by (destruct hi; congruence).
    destruct lo as [| |v]; try discriminate; cbn [pp_constr pp_endpoint app].
    + cbn [p_elem]. rewrite (p_upper_ok hi r Hhi'). reflexivity.
    + rewrite <- app_assoc. rewrite p_elem_value. cbn [app].
      rewrite (p_upper_ok hi r Hhi'). reflexivity.
  - (* CSize *)
    destruct c as [| | | | | | | |cs]; try discriminate.
    destruct cs as [|x [|? ?]]; try discriminate.
    apply andb_prop in Hwf. destruct Hwf as [Hx Hns]. apply negb_true_iff in Hns.
    cbn [pp_constr flat_map app] in *. rewrite app_nil_r in *.
    cbn [p_elem]. rewrite <- app_assoc. cbn [app].
    rewrite (HS x r Hx).
    + rewrite (mk_constraint_notset x Hns). reflexivity.
    + lens.
  - (* CSet [u] *)
    destruct cs as [|u [|? ?]]; try discriminate.
    cbn [pp_constr flat_map app] in *. rewrite app_nil_r in *.
    cbn [p_elem]. rewrite <- app_assoc. cbn [app].
    rewrite (HU u (TSym RParen :: r) Hwf).
    + reflexivity.
    + lens.
    + repeat split; reflexivity.
Qed.

Lemma wf_elem_lift : forall l c, wf_c LElem c = true -> wf_c l c = true.
Proof.
  intros l c H. destruct c; cbn [wf_c lvl_le] in *; try discriminate; auto.
Qed.

(* the operands of an n-ary node, or the node itself *)
Lemma ints_ok : forall n, Uok n -> Sok n -> forall c k r,
  wf_c LInt c = true -> length (pp_constr c) <= k -> length (pp_constr c) <= n -> okI r ->
  p_ints (p_uni n) (p_spec n) k (pp_constr c ++ r) = Some (c, r).
Proof.
  intros n HU HS c k r Hwf Hk Hn [Hr1 Hr2].
  unfold p_ints.
  assert (Hgen : forall xs, xs <> [] ->
            forallb (wf_c LElem) xs = true ->
            length (pp_sep (Y Caret) pp_constr xs) <= k ->
            length (pp_sep (Y Caret) pp_constr xs) <= n ->
            p_sep1 (p_elem (p_uni n) (p_spec n)) is_caret k
                   (pp_sep (Y Caret) pp_constr xs ++ r) = Some (xs, r)).
  { intros xs Hne Hall Hk' Hn'.
    apply (p_sep1_ok constr (p_elem (p_uni n) (p_spec n)) pp_constr (Y Caret) is_caret okE); auto.
    - intros r0. reflexivity.
    - apply Forall_forall. intros x Hin r0 Hr0.
      apply elem_ok; auto.
      + rewrite forallb_forall in Hall. auto.
      + pose proof (pp_sep_len_in constr (Y Caret) pp_constr xs x Hin). lia.
    - assert (HF : Forall (fun x => pp_constr x <> []) xs).
      { apply Forall_forall. intros x Hin. rewrite forallb_forall in Hall.
        apply (wf_c_nonempty LElem). auto. }
      pose proof (pp_sep_len_count constr (Y Caret) pp_constr xs HF). lia. }
  destruct c; cbn [wf_c lvl_le] in Hwf; try discriminate.
  - rewrite <- (pp_sep_one constr (Y Caret) pp_constr (CVal v)).
    rewrite Hgen; auto; try congruence; rewrite ?pp_sep_one; auto.
    cbn [forallb wf_c]. rewrite Hwf. reflexivity.
  - rewrite <- (pp_sep_one constr (Y Caret) pp_constr (CType m t)).
    rewrite Hgen; auto; try congruence; rewrite ?pp_sep_one; auto.
    cbn [forallb wf_c]. rewrite Hwf. reflexivity.
  - rewrite <- (pp_sep_one constr (Y Caret) pp_constr (CRange lo hi)).
    rewrite Hgen; auto; try congruence; rewrite ?pp_sep_one; auto.
    cbn [forallb wf_c]. rewrite Hwf. reflexivity.
  - rewrite <- (pp_sep_one constr (Y Caret) pp_constr (CSize c)).
    rewrite Hgen; auto; try congruence; rewrite ?pp_sep_one; auto.
    cbn [forallb]. rewrite andb_true_r. exact Hwf.
  - (* CInt *)
    cbn [andb] in Hwf. apply andb_prop in Hwf. destruct Hwf as [H2 Hall].
    cbn [pp_constr] in *. rewrite Hgen; auto.
    + destruct cs as [|a [|b cs]]; try discriminate. reflexivity.
    + destruct cs; [discriminate|congruence].
  - rewrite <- (pp_sep_one constr (Y Caret) pp_constr (CSet cs)).
    rewrite Hgen; auto; try congruence; rewrite ?pp_sep_one; auto.
    cbn [forallb]. rewrite andb_true_r. exact Hwf.
Qed.

Lemma wf_int_lift : forall c, wf_c LInt c = true -> wf_c LUni c = true.
Proof.
  intros c H. destruct c; cbn [wf_c lvl_le] in *; try discriminate; auto.
Qed.

Lemma unis_ok : forall n, Uok n -> Sok n -> Uok (S n).
Proof.
  intros n HU HS c r Hwf Hlen [Hr1 [Hr2 Hr3]].
  cbn [p_uni]. unfold p_unis.
  assert (Hgen : forall xs, xs <> [] ->
            forallb (wf_c LInt) xs = true ->
            length (pp_sep (Y Bar) pp_constr xs) <= n ->
            p_sep1 (p_ints (p_uni n) (p_spec n) n) is_bar n
                   (pp_sep (Y Bar) pp_constr xs ++ r) = Some (xs, r)).
  { intros xs Hne Hall Hn'.
    apply (p_sep1_ok constr (p_ints (p_uni n) (p_spec n) n) pp_constr (Y Bar) is_bar okI); auto.
    - intros r0. split; reflexivity.
    - apply Forall_forall. intros x Hin r0 Hr0.
      pose proof (pp_sep_len_in constr (Y Bar) pp_constr xs x Hin).
      apply ints_ok; auto; try lia.
      rewrite forallb_forall in Hall. auto.
    - assert (HF : Forall (fun x => pp_constr x <> []) xs).
      { apply Forall_forall. intros x Hin. rewrite forallb_forall in Hall.
        apply (wf_c_nonempty LInt). auto. }
      pose proof (pp_sep_len_count constr (Y Bar) pp_constr xs HF). lia.
    - split; assumption. }
  assert (Hone : wf_c LInt c = true ->
            match p_sep1 (p_ints (p_uni n) (p_spec n) n) is_bar n (pp_constr c ++ r) with
            | Some (l, r0) => Some (wrap1 CUni l, r0) | None => None end = Some (c, r)).
  { intros Hc. rewrite <- (pp_sep_one constr (Y Bar) pp_constr c).
    rewrite Hgen; auto; try congruence.
    - cbn [forallb]. rewrite Hc. reflexivity.
    - rewrite pp_sep_one. lia. }
  destruct c; cbn [wf_c lvl_le] in Hwf; try discriminate; try (apply Hone; cbn [wf_c lvl_le]; assumption).
  (* CUni *)
  cbn [andb] in Hwf. apply andb_prop in Hwf. destruct Hwf as [H2 Hall].
  cbn [pp_constr] in *. rewrite Hgen; auto; try lia.
  - destruct cs as [|a [|b cs]]; try discriminate. reflexivity.
  - destruct cs; [discriminate|congruence].
Qed.

Lemma wf_uni_lift : forall c, wf_c LUni c = true -> wf_c LSpec c = true.
Proof.
  intros c H. destruct c; cbn [wf_c lvl_le] in *; try discriminate; auto.
Qed.

Lemma okU_rparen : forall r, okU (Y RParen :: r).
Proof. intros; repeat split; reflexivity. Qed.
Lemma okU_comma : forall r, okU (Y Comma :: r).
Proof. intros; repeat split; reflexivity. Qed.

Lemma spec_ok : forall n, Uok n -> Sok n.
Proof.
  intros n HU c r Hwf Hlen. unfold p_spec, p_spec_of.
  assert (Huni : wf_c LUni c = true ->
     match p_uni n (pp_constr c ++ Y RParen :: r) with
     | Some (u, TSym Comma :: TSym Dots :: TSym Comma :: r0) =>
         match p_uni n r0 with Some (v, r') => Some (CCsv [u; CExt; v], r') | None => None end
     | Some (u, TSym Comma :: TSym Dots :: r0) => Some (CCsv [u; CExt], r0)
     | Some (u, r0) => Some (u, r0)
     | None => match pp_constr c ++ Y RParen :: r with TSym Dots :: r0 => Some (CExt, r0) | _ => None end
     end = Some (c, Y RParen :: r)).
  { intros Hc. rewrite (HU c _ Hc Hlen (okU_rparen r)). reflexivity. }
  destruct c; cbn [wf_c lvl_le] in Hwf; try discriminate; try (apply Huni; cbn [wf_c lvl_le]; assumption).
  - (* CExt *)
    cbn [pp_constr app].
    destruct n as [|n']; [cbn in Hlen; lia|].
    cbn [p_uni]. unfold p_unis.
    destruct n' as [|n'']; [reflexivity|].
    cbn [p_sep1]. unfold p_ints at 1. cbn [p_sep1 p_elem]. reflexivity.
  - (* CCsv *)
    cbn [andb] in Hwf.
    destruct cs as [|u [|e cs']]; try discriminate.
    destruct e; try discriminate.
    destruct cs' as [|v [|? ?]]; try discriminate.
    + cbn [pp_constr] in *. rewrite pp_sep_cons2, pp_sep_one in *. cbn [pp_constr] in *.
      rewrite <- app_assoc. cbn [app].
      rewrite (HU u _ Hwf ltac:(lens) (okU_comma _)). reflexivity.
    + apply andb_prop in Hwf. destruct Hwf as [Hu Hv].
      cbn [pp_constr] in *. rewrite !pp_sep_cons2, pp_sep_one in *. cbn [pp_constr] in *.
      rewrite <- app_assoc. cbn [app].
      rewrite (HU u _ Hu ltac:(lens) (okU_comma _)).
      rewrite (HU v _ Hv ltac:(lens) (okU_rparen _)). reflexivity.
Qed.

Lemma Uok_all : forall n, Uok n.
Proof.
  induction n as [|n IH].
  - intros c r _ Hlen. lia.
  - apply unis_ok; [exact IH|apply spec_ok; exact IH].
Qed.

Lemma Sok_all : forall n, Sok n.
Proof. intro n. apply spec_ok, Uok_all. Qed.

(* ------------------------------------------------- constraints of a type *)
Definition not_lparen (r : list token) : Prop :=
  match r with TSym LParen :: _ => False | _ => True end.

Definition pp_parens (e : constr) : list token := Y LParen :: pp_constr e ++ [Y RParen].

Definition wf_spec1 (x : constr) : bool := wf_c LSpec x && negb (is_set x).

Lemma unwrap_mk : forall x, is_set x = false -> unwrap_set (mk_constraint x) = x.
Proof. intros x H. rewrite (mk_constraint_notset x H). reflexivity. Qed.

Lemma many_ok : forall cs n k r,
  cs <> [] -> forallb wf_spec1 cs = true ->
  length (flat_map pp_parens cs) < n -> length cs <= k -> not_lparen r ->
  p_many n k (flat_map pp_parens cs ++ r) = Some (cs, r).
Proof.
  induction cs as [|x cs IH]; intros n k r Hne Hall Hlen Hk Hr; [congruence|].
  cbn [forallb] in Hall. apply andb_prop in Hall. destruct Hall as [Hx Hall].
  unfold wf_spec1 in Hx. apply andb_prop in Hx. destruct Hx as [Hx Hns]. apply negb_true_iff in Hns.
  destruct k as [|k']; [cbn in Hk; lia|].
  change (flat_map pp_parens (x :: cs)) with (pp_parens x ++ flat_map pp_parens cs) in *.
  assert (Hlx : length (pp_constr x) < n) by (unfold pp_parens in Hlen at 1; clear IH; lens).
  assert (Hlr : length (flat_map pp_parens cs) < n) by (clear IH; lens).
  unfold pp_parens at 1.
  rewrite <- app_assoc. cbn [app p_many]. rewrite <- app_assoc. cbn [app].
  rewrite (Sok_all n x _ Hx Hlx).
  rewrite (unwrap_mk x Hns).
  destruct cs as [|y cs'].
  - cbn [flat_map app].
    destruct r as [|t r0]; [reflexivity|].
    destruct t as [s|s|z0|kk|p|bs|s|ng ip fp]; try reflexivity. destruct p; try reflexivity. contradiction.
  - remember (flat_map pp_parens (y :: cs') ++ r) as tl eqn:Etl.
    assert (Hrec : p_many n k' tl = Some (y :: cs', r)).
    { subst tl. apply IH; auto; try congruence. cbn [length] in *. lia. }
    assert (Hhd : exists rest, tl = TSym LParen :: rest).
    { subst tl. cbn [flat_map]. unfold pp_parens at 1. cbn [app]. eexists. reflexivity. }
    destruct Hhd as [rest Erest].
    rewrite Hrec. rewrite Erest. reflexivity.
Qed.

Lemma pp_constr_set : forall cs, pp_constr (CSet cs) = flat_map pp_parens cs.
Proof. reflexivity. Qed.

Lemma parens_count : forall cs, length cs <= length (flat_map pp_parens cs).
Proof.
  induction cs as [|x cs IH]; [cbn; lia|].
  cbn [flat_map]. unfold pp_parens at 1. lens.
Qed.

Lemma copt_ok : forall c n r,
  wf_copt wf_top c = true -> length (pp_copt c) < n -> not_lparen r ->
  p_copt n (pp_copt c ++ r) = Some (c, r).
Proof.
  intros [c|] n r Hwf Hlen Hr.
  - cbn [wf_copt] in Hwf. destruct c as [| | | | | | | |cs]; try discriminate.
    cbn [wf_top] in Hwf. destruct cs as [|x cs]; [discriminate|].
    cbn [pp_copt] in *. rewrite pp_constr_set in *.
    assert (Hm : p_many n n (flat_map pp_parens (x :: cs) ++ r) = Some (x :: cs, r)).
    { apply many_ok; auto; try congruence.
      pose proof (parens_count (x :: cs)). lia. }
    unfold p_copt. rewrite Hm.
    cbn [flat_map]. unfold pp_parens at 1. reflexivity.
  - cbn [pp_copt app]. unfold p_copt.
    destruct r as [|t r0]; [reflexivity|].
    destruct t as [s|s|z0|kk|p|bs|s|ng ip fp]; try reflexivity. destruct p; try reflexivity. contradiction.
Qed.

(* between SEQUENCE/SET and OF *)
Lemma ofconstr_ok : forall c n r,
  wf_copt wf_ofc c = true -> length (pp_copt c) < n ->
  p_ofconstr n (pp_copt c ++ K KOF :: r) = Some (c, K KOF :: r).
Proof.
  intros [c|] n r Hwf Hlen.
  - cbn [wf_copt] in Hwf. cbn [pp_copt] in *.
    destruct c as [| | | |s| | | |cs]; try discriminate.
    + (* bare SIZE *)
      unfold wf_ofc in Hwf.
      assert (He := elem_ok n (Uok_all n) (Sok_all n) (CSize s) (K KOF :: r) Hwf ltac:(lia) ltac:(reflexivity)).
      cbn [pp_constr app] in *. unfold p_ofconstr. rewrite He. reflexivity.
    + cbn [wf_ofc] in Hwf. destruct cs as [|x [|? ?]]; try discriminate.
      apply andb_prop in Hwf. destruct Hwf as [Hx Hns]. apply negb_true_iff in Hns.
      cbn [pp_constr flat_map app] in *. rewrite app_nil_r in *.
      unfold p_ofconstr. rewrite <- app_assoc. cbn [app].
      rewrite (Sok_all n x _ Hx ltac:(lens)).
      rewrite (mk_constraint_notset x Hns). reflexivity.
  - reflexivity.
Qed.

(* ------------------------------------------------------------------ tags *)
Definition not_tagish (r : list token) : Prop :=
  match r with
  | TSym LBrack :: _ | TKw KIMPLICIT :: _ | TKw KEXPLICIT :: _ => False
  | _ => True
  end.

Lemma p_mode_default : forall r, not_tagish r -> p_mode r = (TMDefault, r).
Proof.
  intros r H. destruct r as [|t r0]; [reflexivity|].
  destruct t as [s|s|z|k|p|bs|s|ng ip fp]; try reflexivity. destruct k; try reflexivity; contradiction.
Qed.

Lemma tag_ok : forall tg r, not_tagish r -> p_tag (pp_tagopt tg ++ r) = Some (tg, r).
Proof.
  intros [[cl num md]|] r Hr.
  - cbn [pp_tagopt pp_tag t_class t_num t_mode].
    assert (Hn : forall cl', p_tagnum cl'
               ((TNum (Z.of_N num) :: Y RBrack ::
                 match md with TMDefault => [] | TMImplicit => [K KIMPLICIT] | TMExplicit => [K KEXPLICIT] end) ++ r)
               = Some (Some (mkTag cl' num md), r)).
    { intro cl'. cbn [app p_tagnum].
      assert (Hle : (0 <=? Z.of_N num)%Z = true) by (apply Z.leb_le, N2Z.is_nonneg).
      rewrite Hle, N2Z.id.
      destruct md; cbn [app p_mode]; try reflexivity.
      rewrite (p_mode_default r Hr). reflexivity. }
    destruct cl; cbn [app p_tag]; try (rewrite <- app_assoc; cbn [app]); try apply Hn.
  - cbn [pp_tagopt app]. unfold p_tag.
    destruct r as [|t r0]; [reflexivity|].
    destruct t as [s|s|z|k|p|bs|s|ng ip fp]; try reflexivity. destruct p; try reflexivity; contradiction.
Qed.

(* ----------------------------------------------------- primitive types *)
Definition good_cr (r : list token) : Prop :=
  match r with TSym Comma :: _ | TSym RBrace :: _ => True | _ => False end.

Definition not_lbrace (r : list token) : Prop :=
  match r with TSym LBrace :: _ => False | _ => True end.

Lemma nn_ok : forall x r, p_nn (pp_nn x ++ r) = Some (x, r).
Proof.
  intros [id v] r. unfold pp_nn. cbn [fst snd app p_nn].
  rewrite <- app_assoc. rewrite nval_ok. reflexivity.
Qed.

Lemma nnlist_ok : forall nn k r, length (pp_nnlist nn) <= k -> not_lbrace r ->
  p_nnlist k (pp_nnlist nn ++ r) = Some (nn, r).
Proof.
  intros nn k r Hk Hr. destruct nn as [|x nn].
  - cbn [pp_nnlist app]. unfold p_nnlist.
    destruct r as [|t r0]; [reflexivity|].
    destruct t as [s|s|z|kk|p|bs|s|ng ip fp]; try reflexivity. destruct p; try reflexivity; contradiction.
  - unfold pp_nnlist in *. cbn [app p_nnlist]. rewrite <- app_assoc.
    assert (Hs : p_sep1 p_nn is_comma k (pp_sep (Y Comma) pp_nn (x :: nn) ++ [Y RBrace] ++ r)
                 = Some (x :: nn, [Y RBrace] ++ r)).
    { apply (p_sep1_ok _ p_nn pp_nn (Y Comma) is_comma (fun _ => True)).
      - reflexivity.
      - intro r0. exact I.
      - congruence.
      - apply Forall_forall. intros y _ r0 _. apply nn_ok.
      - assert (HF : Forall (fun y => pp_nn y <> []) (x :: nn))
          by (apply Forall_forall; intros y _; discriminate).
        pose proof (pp_sep_len_count _ (Y Comma) pp_nn (x :: nn) HF). lens.
      - exact I.
      - reflexivity. }
    rewrite Hs. reflexivity.
Qed.

Lemma eitem_ok : forall e r, good_cr r -> p_eitem (pp_eitem e ++ r) = Some (e, r).
Proof.
  intros [id [v|]|] r Hr; try reflexivity.
  - cbn [pp_eitem app p_eitem]. rewrite <- app_assoc. rewrite nval_ok. reflexivity.
  - cbn [pp_eitem app p_eitem].
    destruct r as [|t r0]; [contradiction|].
    destruct t as [s|s|z|kk|p|bs|s|ng ip fp]; try contradiction. destruct p; try contradiction; reflexivity.
Qed.

Lemma good_cr_comma : forall r, good_cr (Y Comma :: r).
Proof. intro r. exact I. Qed.

Lemma prim_ok : forall p k r, wf_prim p = true -> length (pp_prim p) <= k -> not_lbrace r ->
  p_prim k (pp_prim p ++ r) = Some (p, r).
Proof.
  intros p k r Hwf Hk Hr. destruct p; try reflexivity.
  - cbn [pp_prim app p_prim] in *. rewrite nnlist_ok; auto. lens.
  - cbn [pp_prim app p_prim] in *. rewrite nnlist_ok; auto. lens.
  - cbn [wf_prim] in Hwf. destruct items as [|e items]; [discriminate|].
    cbn [pp_prim app p_prim] in *. rewrite <- app_assoc.
    assert (Hs : p_sep1 p_eitem is_comma k (pp_sep (Y Comma) pp_eitem (e :: items) ++ [Y RBrace] ++ r)
                 = Some (e :: items, [Y RBrace] ++ r)).
    { apply (p_sep1_ok _ p_eitem pp_eitem (Y Comma) is_comma good_cr).
      - reflexivity.
      - intro r0. exact I.
      - congruence.
      - apply Forall_forall. intros y _ r0 Hr0. apply eitem_ok; auto.
      - assert (HF : Forall (fun y => pp_eitem y <> []) (e :: items)).
        { apply Forall_forall. intros [id [v|]|] _; discriminate. }
        pose proof (pp_sep_len_count _ (Y Comma) pp_eitem (e :: items) HF). lens.
      - exact I.
      - reflexivity. }
    rewrite Hs. reflexivity.
Qed.

Lemma prim_len : forall p, 1 <= length (pp_prim p).
Proof. destruct p; cbn; lia. Qed.

Lemma prim_not_tagish : forall p r, not_tagish (pp_prim p ++ r).
Proof. destruct p; intros; exact I. Qed.

Lemma prim_not_struct : forall p r, is_struct_start (pp_prim p ++ r) = false.
Proof. destruct p; intros; reflexivity. Qed.

(* ---------------------------------------------------------------- types *)
Definition tfollow (r : list token) : Prop :=
  match r with TSym LParen :: _ | TSym LBrace :: _ => False | _ => True end.

Definition Tok (n : nat) : Prop := forall t r,
  wf_texpr t = true -> length (pp_texpr t) < n -> tfollow r ->
  p_texpr n (pp_texpr t ++ r) = Some (t, r).

Lemma marker_follow : forall mk r, good_cr r -> tfollow (pp_marker mk ++ r).
Proof.
  intros [| |v] r Hr; try exact I.
  cbn [pp_marker app]. destruct r as [|t r0]; [contradiction|].
  destruct t as [s|s|z|kk|p|bs|s|ng ip fp]; try contradiction. destruct p; try contradiction; exact I.
Qed.

Lemma member_ok : forall n, Tok n -> forall m r,
  wf_member m = true -> length (pp_member m) <= n -> good_cr r ->
  p_member (p_texpr n) (pp_member m ++ r) = Some (m, r).
Proof.
  intros n HT [id t mk|[x|]] r Hwf Hlen Hr.
  - cbn [wf_member] in Hwf. apply andb_prop in Hwf. destruct Hwf as [Hwf _].
    apply andb_prop in Hwf. destruct Hwf as [_ Hwt].
    cbn [pp_member] in *. rewrite <- app_comm_cons, <- app_assoc.
    cbn [p_member].
    rewrite (HT t _ Hwt ltac:(lens) (marker_follow mk r Hr)).
    destruct mk as [| |v]; try reflexivity.
    + cbn [pp_marker app].
      destruct r as [|t0 r0]; [contradiction|].
      destruct t0 as [s|s|z|kk|p|bs|s|ng ip fp]; try contradiction. destruct p; try contradiction; reflexivity.
    + cbn [pp_marker app]. rewrite value_ok. reflexivity.
  - cbn [pp_member app p_member]. rewrite nval_ok. reflexivity.
  - cbn [pp_member app p_member].
    destruct r as [|t0 r0]; [contradiction|].
    destruct t0 as [s|s|z|kk|p|bs|s|ng ip fp]; try contradiction. destruct p; try contradiction; reflexivity.
Qed.

Lemma member_nonempty : forall m, pp_member m <> [].
Proof. destruct m as [? ? ?|[?|]]; discriminate. Qed.

Lemma members_ok : forall n, Tok n -> forall ms r,
  forallb wf_member ms = true ->
  length (pp_sep (Y Comma) pp_member ms) <= n ->
  p_members (p_texpr n) n (pp_sep (Y Comma) pp_member ms ++ Y RBrace :: r) = Some (ms, r).
Proof.
  intros n HT ms r Hwf Hlen.
  destruct ms as [|m ms]; [reflexivity|].
  assert (Hs : p_sep1 (p_member (p_texpr n)) is_comma n
                 (pp_sep (Y Comma) pp_member (m :: ms) ++ Y RBrace :: r)
               = Some (m :: ms, Y RBrace :: r)).
  { apply (p_sep1_ok _ (p_member (p_texpr n)) pp_member (Y Comma) is_comma good_cr).
    - reflexivity.
    - intro r0. exact I.
    - congruence.
    - apply Forall_forall. intros x Hin r0 Hr0.
      apply member_ok; auto.
      + rewrite forallb_forall in Hwf. auto.
      + pose proof (pp_sep_len_in _ (Y Comma) pp_member (m :: ms) x Hin). lia.
    - assert (HF : Forall (fun y => pp_member y <> []) (m :: ms))
        by (apply Forall_forall; intros y _; apply member_nonempty).
      pose proof (pp_sep_len_count _ (Y Comma) pp_member (m :: ms) HF). lia.
    - exact I.
    - reflexivity. }
  unfold p_members.
  assert (Hhd : exists t0 rest, pp_sep (Y Comma) pp_member (m :: ms) ++ Y RBrace :: r = t0 :: rest
                                /\ t0 <> Y RBrace).
  { destruct ms as [|m2 ms2].
    - rewrite pp_sep_one. destruct m as [? ? ?|[?|]]; cbn; do 2 eexists; split; try reflexivity; discriminate.
    - rewrite pp_sep_cons2. destruct m as [? ? ?|[?|]]; cbn; do 2 eexists; split; try reflexivity; discriminate. }
  destruct Hhd as [t0 [rest [E Hne]]].
  rewrite E in *.
  rewrite Hs.
  destruct t0 as [s|s|z|kk|p|bs|s|ng ip fp]; try reflexivity. destruct p; try reflexivity. congruence.
Qed.

Lemma struct_kw_ok : forall k, struct_kw (skind_kw k) = Some k.
Proof. destruct k; reflexivity. Qed.
Lemma of_kw_ok : forall k, of_kw (okind_kw k) = Some k.
Proof. destruct k; reflexivity. Qed.

Lemma texpr_step : forall n, Tok n -> Tok (S n).
Proof.
  intros n HT t r Hwf Hlen Hr.
  cbn [p_texpr].
  destruct t as [tg p c|tg k ms|tg k c e].
  - (* TPrim *)
    cbn [wf_texpr] in Hwf. apply andb_prop in Hwf. destruct Hwf as [Hp Hc].
    cbn [pp_texpr] in *. rewrite <- !app_assoc.
    rewrite (tag_ok tg _ (prim_not_tagish p _)).
    rewrite prim_not_struct.
    pose proof (prim_len p) as Hpl.
    assert (Hnb : not_lbrace (pp_copt c ++ r)).
    { destruct c as [c|].
      - cbn [wf_copt] in Hc. destruct c; try discriminate. destruct cs; [discriminate|]. exact I.
      - cbn [pp_copt app]. destruct r as [|t0 r0]; [exact I|].
        destruct t0 as [s|s|z|kk|q|bs|s|ng ip fp]; try exact I. destruct q; try exact I; contradiction. }
    rewrite (prim_ok p n _ Hp ltac:(lens) Hnb).
    assert (Hnl : not_lparen r).
    { destruct r as [|t0 r0]; [exact I|].
      destruct t0 as [s|s|z|kk|q|bs|s|ng ip fp]; try exact I. destruct q; try exact I; contradiction. }
    rewrite (copt_ok c n r Hc ltac:(lens) Hnl). reflexivity.
  - (* TStruct *)
    cbn [wf_texpr] in Hwf.
    cbn [pp_texpr] in *. rewrite <- app_assoc.
    rewrite tag_ok by (destruct k; exact I).
    assert (Hss : forall tl, is_struct_start (K (skind_kw k) :: tl) = true) by (destruct k; reflexivity).
    rewrite <- app_comm_cons. rewrite Hss.
    rewrite <- app_comm_cons. cbn [p_struct_or_of]. rewrite struct_kw_ok.
    rewrite <- app_assoc. cbn [app].
    rewrite (members_ok n HT ms r Hwf ltac:(lens)). reflexivity.
  - (* TOf *)
    cbn [wf_texpr] in Hwf. apply andb_prop in Hwf. destruct Hwf as [Hc He].
    cbn [pp_texpr] in *. rewrite <- app_assoc.
    rewrite tag_ok by (destruct k; exact I).
    assert (Hss : forall tl, is_struct_start (K (okind_kw k) :: tl) = true) by (destruct k; reflexivity).
    rewrite <- app_comm_cons. rewrite Hss.
    rewrite <- app_assoc. rewrite <- app_comm_cons.
    assert (Hgo : p_struct_or_of (p_texpr n) n tg (K (okind_kw k) :: pp_copt c ++ K KOF :: pp_texpr e ++ r)
                  = p_of (p_texpr n) n tg k (pp_copt c ++ K KOF :: pp_texpr e ++ r)).
    { unfold p_struct_or_of.
      destruct c as [c|].
      - cbn [wf_copt] in Hc. destruct c as [| | | |s| | | |cs]; try discriminate.
        + cbn [pp_copt pp_constr app]. rewrite of_kw_ok. reflexivity.
        + cbn [wf_ofc] in Hc. destruct cs as [|x [|? ?]]; try discriminate.
          cbn [pp_copt pp_constr flat_map app]. rewrite of_kw_ok. reflexivity.
      - cbn [pp_copt app]. rewrite of_kw_ok. reflexivity. }
    rewrite Hgo. unfold p_of.
    rewrite (ofconstr_ok c n _ Hc ltac:(lens)).
    rewrite (HT e r He ltac:(lens) Hr). reflexivity.
Qed.

Lemma Tok_all : forall n, Tok n.
Proof.
  induction n as [|n IH].
  - intros t r _ Hlen. lia.
  - apply texpr_step. exact IH.
Qed.

(* --------------------------------------------------------------- module *)
Lemma assign_follow_end : forall r, tfollow (K KEND :: r).
Proof. intro; exact I. Qed.

Lemma assigns_ok : forall l n k r,
  forallb wf_assign l = true ->
  length (flat_map pp_assign l) < n -> length l < k ->
  p_assigns n k (flat_map pp_assign l ++ K KEND :: r) = Some (l, r).
Proof.
  induction l as [|a l IH]; intros n k r Hwf Hlen Hk.
  - destruct k as [|k']; [cbn in Hk; lia|]. reflexivity.
  - destruct k as [|k']; [cbn in Hk; lia|].
    cbn [forallb] in Hwf. apply andb_prop in Hwf. destruct Hwf as [Ha Hl].
    assert (Hf : tfollow (flat_map pp_assign l ++ K KEND :: r)).
    { destruct l as [|[nm2 t2|nm2 t2 v2] l2]; exact I. }
    destruct a as [nm t|nm t v]; cbn [wf_assign] in Ha.
    + apply andb_prop in Ha. destruct Ha as [_ Ht].
      cbn [flat_map] in *. unfold pp_assign at 1. unfold pp_assign at 1 in Hlen.
      rewrite <- app_assoc. cbn [app p_assigns].
      rewrite (Tok_all n t _ Ht ltac:(clear IH; lens) Hf).
      rewrite (IH n k' r Hl ltac:(clear IH; lens) ltac:(clear IH; lens)). reflexivity.
    + apply andb_prop in Ha. destruct Ha as [Ha _]. apply andb_prop in Ha. destruct Ha as [_ Ht].
      cbn [flat_map] in *. unfold pp_assign at 1. unfold pp_assign at 1 in Hlen.
      rewrite <- app_assoc. cbn [app p_assigns]. rewrite <- app_assoc. cbn [app].
      rewrite (Tok_all n t (Y Assign :: (pp_value v ++ flat_map pp_assign l ++ K KEND :: r)) Ht ltac:(clear IH; lens) I).
      rewrite value_ok.
      rewrite (IH n k' r Hl ltac:(clear IH; lens) ltac:(clear IH; lens)). reflexivity.
Qed.

Lemma flags_ok : forall td ei r,
  p_flags (pp_flags td ei ++ Y Assign :: r) = (td, ei, Y Assign :: r).
Proof. intros [| | |] [|] r; reflexivity. Qed.

Lemma module_ok : forall m n,
  wf_module m = true -> length (pp_module m) <= n ->
  p_module n (pp_module m) = Some (m, []).
Proof.
  intros [nm td ei l] n Hwf Hlen.
  unfold wf_module in Hwf. cbn [m_name m_assigns] in Hwf.
  apply andb_prop in Hwf. destruct Hwf as [_ Hl].
  unfold pp_module in *. cbn [m_name m_tags m_extimpl m_assigns] in *.
  unfold p_module. rewrite flags_ok.
  assert (Hc : length l <= length (flat_map pp_assign l)).
  { clear. induction l as [|[a t|a t v] l IH]; [cbn; lia| |]; cbn [flat_map]; unfold pp_assign at 1; lens. }
  rewrite (assigns_ok l n n [] Hl ltac:(lens) ltac:(lens)). reflexivity.
Qed.

(* ----------------------------------------------------- the two theorems *)
Theorem parse_pp : forall m, wf_module m = true -> parse (pp_module m) = Some m.
Proof.
  intros m Hwf. unfold parse.
  rewrite (module_ok m (S (length (pp_module m))) Hwf ltac:(lia)). reflexivity.
Qed.

Corollary pp_fixpoint : forall m, wf_module m = true ->
  exists m', parse (pp_module m) = Some m' /\ pp_module m' = pp_module m.
Proof. intros m Hwf. exists m. split; [apply parse_pp; exact Hwf|reflexivity]. Qed.

(* the byte-level printer is a function of the AST, so the cycle reproduces the bytes too *)
Corollary ppb_fixpoint : forall m, wf_module m = true ->
  exists m', parse (pp_module m) = Some m' /\ ppb_module m' = ppb_module m.
Proof. intros m Hwf. exists m. split; [apply parse_pp; exact Hwf|reflexivity]. Qed.

(* any two well-formed modules with the same printed tokens are the same module: what the
   compiler is given after a print/parse cycle is the tree it was given before *)
Corollary pp_injective : forall a b, wf_module a = true -> wf_module b = true ->
  pp_module a = pp_module b -> a = b.
Proof.
  intros a b Ha Hb E. pose proof (parse_pp a Ha) as Pa. pose proof (parse_pp b Hb) as Pb.
  rewrite E in Pa. congruence.
Qed.

(* --------------------------------------------------------- non-vacuity *)
Local Open Scope str_scope.
Definition ex_module : module_ast :=
  mkModule "Mod1" TDAutomatic false
    [ATyp "Qa" (TStruct None SSequence
        [MComp "a" (TPrim None (PInteger [("one", NInt 1); ("two", NRef (VR1 "lim"))])
                      (Some (CSet [CCsv [CUni [CRange (EVal (VInt 1)) (EVal (VRef (VR2 "Mod1" "lim")));
                                               CRange (EVal (VInt 20)) EMax]; CExt]])))
                   MOptional;
         MComp "b" (TPrim (Some (mkTag TCContext 1 TMImplicit)) PBoolean None) (MDefault (VBool true));
         MExt (Some (NInt (-5)));
         MComp "c" (TOf None OSet (Some (CSet [CSize (CSet [CRange (EVal (VInt 1)) EMax])]))
                      (TPrim None (PRef "Qb") None)) MNone;
         MComp "h" (TPrim None (PInteger [])
                      (Some (CSet [CInt [CSet [CUni [CRange (EVal (VInt 1)) (EVal (VInt 5)); CVal (VInt 7)]];
                                         CSet [CUni [CType None "Qc"; CType (Some "Mod1") "Qc"]]]]))) MNone;
         MComp "o" (TPrim None POctetString
                      (Some (CSet [CUni [CVal (VBits [true;true;true;true;true;true;true;true;
                                                      false;false;false;false;false;false;false;false]);
                                         CVal (VBits [true;false;true])]])))
                   (MDefault (VBits [true;true;false;false;true;false;true;false]));
         MComp "s" (TPrim None PIA5String (Some (CSet [CVal (VStr "say ""hi""")]))) (MDefault (VStr ""));
         MComp "x" (TPrim None PReal (Some (CSet [CRange (EVal (VReal true "1" "500000")) (EVal (VReal false "0" "000001"))])))
                   (MDefault (VReal false "3" "140000"));
         MComp "n" (TPrim None PNull None) (MDefault VNull)]);
     ATyp "Qb" (TPrim (Some (mkTag TCApplication 2 TMExplicit))
                  (PEnumerated [EItem "r" (Some (NInt 0)); EItem "g" None; EExt; EItem "b" (Some (NRef (VR1 "lim")))]) None);
     ATyp "Qc" (TPrim None (PInteger []) (Some (CSet [CRange (EVal (VInt 0)) (EVal (VInt 100))])));
     AVal "lim" (TPrim None (PInteger []) None) (VInt 10);
     AVal "sync" (TPrim None POctetString None)
          (VBits [true;true;false;true; true;true;true;false; true;false;true;false; true;true;false;true]);
     AVal "other" (TPrim None (PRef "Qc") None) (VRef (VR1 "lim"))].

Example ex_module_wf : wf_module ex_module = true.
Proof. vm_compute. reflexivity. Qed.

Example ex_module_roundtrip : parse (pp_module ex_module) = Some ex_module.
Proof. vm_compute. reflexivity. Qed.

Example ex_module_lex : lex (ppb_module ex_module) = Some (pp_module ex_module).
Proof. vm_compute. reflexivity. Qed.

Example ex_ident : wf_ident "seq-no17" = true /\ wf_ident "Seq" = false /\ wf_ident "a--b" = false
                   /\ wf_ident "a-" = false /\ wf_typeref "Qa-b" = true /\ wf_typeref "SEQUENCE" = false.
Proof. vm_compute. repeat split. Qed.

(* ------------------------------------------------------------- refuted *)
(* Without the well-formedness side condition the fixpoint statement is false of trees
   the grammar itself builds: source `(((1)))` yields ACT_CA_SET[ACT_CA_SET[1]]
   (one pair merged by `Constraint`), printed `((1))`, whose parse is ACT_CA_SET[1],
   printed `(1)`.  The reference parser, which builds trees like asn1p_y.y does,
   exhibits it; the real asn1c shows the same three texts (finding C12-paren-collapse). *)
Definition deep_source : list token :=
  [TUp "M"; K KDEFINITIONS; Y Assign; K KBEGIN;
   TUp "A"; Y Assign; K KINTEGER; Y LParen; Y LParen; Y LParen; TNum 1; Y RParen; Y RParen; Y RParen;
   K KEND].

Definition deep_module : module_ast :=
  mkModule "M" TDNone false [ATyp "A" (TPrim None (PInteger []) (Some (CSet [CSet [CVal (VInt 1)]])))].

Lemma deep_module_parsed : parse deep_source = Some deep_module.
Proof. vm_compute. reflexivity. Qed.

Theorem pp_fixpoint_refuted :
  exists src m, parse src = Some m /\
    forall m', parse (pp_module m) = Some m' -> pp_module m' <> pp_module m.
Proof.
  exists deep_source, deep_module. split; [exact deep_module_parsed|].
  intros m' H. vm_compute in H. inversion H; subst. vm_compute. discriminate.
Qed.

(* and the cycle stabilises after that step: the second print is well-formed *)
Lemma deep_module_second_print_wf :
  exists m', parse (pp_module deep_module) = Some m' /\ wf_module m' = true.
Proof. eexists. split; vm_compute; reflexivity. Qed.
